/-
Threshold tables: from two checked points per output code to ALL 2^32 inputs of `(x * K + 0.5) as uN`.

For every code `k = 1 … mx` a table entry `e = 2·t + d` gives the smallest non-negative pattern `t` whose pipeline
result is ≥ `k`, and `d ∈ {0, 1}` says whether the smallest pattern `s = t + d` whose VALUE is ≥ the exact
threshold `(2k − 1)/(2·mx)` is `t` itself or its successor.  `chkEntry` evaluates the pipeline at `t` and `t − 1`
and compares the values of `s` and `s − 1` with the threshold by cross-multiplication in `Nat`; `chkList` runs
over a table and also checks `s_k ≤ t_(k+1)`.  The tables are produced by an UNTRUSTED script
(`tools/gen_f32thr.py`); nothing is assumed about them beyond what `chkList` verifies in the kernel.

`pipe_mono` (`Proofs/F32Mono.lean`) then gives, for every non-negative finite pattern `b`,
`pipe b = nearest code of value(b) + (1 if 2b+1 is a table entry else 0)` (`thr_main`), i.e. the patterns `t`
with `d = 1` are EXACTLY the inputs whose result is not the nearest code (it is one too high there:
the largest float below the tie `(2k−1)/(2 mx)`, for which the binary32 product/sum already reaches `k`).
NaN, negative values, `−0`, `±∞` are symbolic cases (`pipe_half_all`).
-/
import DdsModel.Proofs.F32Mono
import DdsModel.Proofs.ConvFastSpec
import DdsModel.Proofs.QuantBits
namespace Dds.F32Thr
open Dds Dds.CF32 Dds.ConvFast Dds.F32Mono Dds.Spec
open Dds.F32.Raw (lz lz_eq nadd nsub nmul ndiv nmod npow nshl cond_ble cond_blt cond_beq ble_dec blt_dec beq_dec cond_dec)

/-! ### the pipeline on the fast operations -/

def pipeR (K h mx x : Nat) : Nat := toNatSatR (addR (mulR x K) h) mx

theorem pipeR_eq (K h mx x : Nat) : pipeR K h mx x = pipe K h mx x := by
  unfold pipeR pipe; rw [toNatSatR_eq, addR_eq, mulR_eq]

/-! ### the value of a non-negative finite pattern as a fraction -/

theorem pow2_eq : CF32.pow2 = F32.pow2 := rfl

theorem natCast_mul_pow2_pval (m B : Nat) (hB : 851 ≤ B) :
    (m : Rat) * CF32.pow2 ((B : Int) - 1000) = mkRat ((m * 2 ^ (B - 851) : Nat) : Int) (2 ^ 149) := by
  rw [pow2_eq, F32.Fast.natCast_mul_pow2]
  by_cases h : 1000 ≤ B
  · have h' : (0 : Int) ≤ (B : Int) - 1000 := by omega
    have e : ((B : Int) - 1000).toNat = B - 1000 := by omega
    have e2 : B - 851 = B - 1000 + 149 := by omega
    rw [if_pos h', e, e2, Nat.pow_add, ← Nat.mul_assoc]
    have := Rat.mkRat_mul_right (n := ((m * 2 ^ (B - 1000) : Nat) : Int)) (d := 1) (a := 2 ^ 149)
      (Nat.pos_iff_ne_zero.mp (two_pow_pos 149))
    rw [Nat.one_mul] at this
    rw [← this]
    congr 1
  · have h' : ¬ (0 : Int) ≤ (B : Int) - 1000 := by omega
    have e : (-((B : Int) - 1000)).toNat = 1000 - B := by omega
    have e2 : 2 ^ 149 = 2 ^ (1000 - B) * 2 ^ (B - 851) := by
      have e3 : 149 = 1000 - B + (B - 851) := by omega
      rw [← Nat.pow_add, ← e3]
    rw [if_neg h', e, e2]
    have := Rat.mkRat_mul_right (n := (m : Int)) (d := 2 ^ (1000 - B)) (a := 2 ^ (B - 851))
      (Nat.pos_iff_ne_zero.mp (two_pow_pos _))
    rw [← this]
    congr 1

theorem toRat_pval (b : Nat) (hb : b < 0x7F800000) : toRat b = mkRat (pval b : Int) (2 ^ 149) := by
  obtain ⟨a1, a2, a3, a4, a5⟩ := posfin b hb
  have he : ¬ (expField b == 255) = true := by
    have : expField b ≠ 255 := by rw [ConvFast.expField_eq]; omega
    exact fun h => this (beq_iff_eq.mp h)
  unfold toRat
  rw [if_neg he]
  simp only [a3, Bool.false_eq_true, if_false, a4, a5]
  unfold pval
  exact natCast_mul_pow2_pval _ _ (bexpR_ge b)

/-! ### the nearest code as a threshold count -/

theorem codeR_def (mx N D : Nat) : codeR mx N D = if D ≤ N then mx else (2 * mx * N + D) / (2 * D) := by
  unfold codeR; rw [cond_ble, nadd, nmul, nmul, nmul, ndiv]

/-- `k ≤ code` iff the value is at or above the tie `(2k − 1)/(2 mx)` -/
theorem le_codeR_iff (mx N D k : Nat) (hD : 0 < D) (hk1 : 1 ≤ k) (hk : k ≤ mx) :
    k ≤ codeR mx N D ↔ (2 * k - 1) * D ≤ 2 * mx * N := by
  rw [codeR_def]
  have e : (2 * k - 1) * D = 2 * (k * D) - D := by
    rw [Nat.sub_mul, Nat.one_mul, Nat.mul_assoc]
  have hkD : D ≤ k * D := Nat.le_mul_of_pos_left _ (by omega)
  by_cases h : D ≤ N
  · rw [if_pos h]
    have h1 : k * D ≤ mx * D := Nat.mul_le_mul_right _ hk
    have h2 : mx * D ≤ mx * N := Nat.mul_le_mul_left _ h
    have e2 : 2 * mx * N = 2 * (mx * N) := Nat.mul_assoc _ _ _
    rw [e, e2]
    constructor
    · intro _; omega
    · intro _; exact hk
  · rw [if_neg h, Nat.le_div_iff_mul_le (by omega), e]
    have e3 : k * (2 * D) = 2 * (k * D) := by
      rw [Nat.mul_left_comm]
    rw [e3]
    generalize k * D = X at *
    generalize 2 * mx * N = Y
    omega

theorem codeR_le (mx N D : Nat) (hD : 0 < D) : codeR mx N D ≤ mx := by
  rw [codeR_def]
  split
  · exact Nat.le_refl _
  · rename_i h
    have h1 : N < D := by omega
    have : (2 * mx * N + D) / (2 * D) < mx + 1 := by
      rw [Nat.div_lt_iff_lt_mul (by omega)]
      have h2 : mx * N ≤ mx * D := Nat.mul_le_mul_left _ (by omega)
      have e2 : 2 * mx * N = 2 * (mx * N) := Nat.mul_assoc _ _ _
      have e3 : (mx + 1) * (2 * D) = 2 * (mx * D) + 2 * D := by
        rw [Nat.add_mul, Nat.one_mul, Nat.mul_left_comm]
      rw [e2, e3]
      omega
    omega

/-! ### the abstract threshold argument -/

/-- what is checked about the entry `(t, d)` of the code `k` -/
structure EntryOK (f : Nat → Nat) (mx top k t d : Nat) : Prop where
  t_pos : 1 ≤ t
  s_fin : t + d < top
  d_le : d ≤ 1
  p1 : k ≤ f t
  p2 : f (t - 1) < k
  s1 : (2 * k - 1) * 2 ^ 149 ≤ 2 * mx * pval (t + d)
  s2 : 2 * mx * pval (t + d - 1) < (2 * k - 1) * 2 ^ 149
  /-- an exceptional pattern is within the tie tolerance `2^-12/255` (normalised units) of the tie -/
  adm : d = 0 ∨ 1044480 * ((2 * k - 1) * 2 ^ 149 - 2 * mx * pval t) ≤ 2 * mx * 2 ^ 149

/-- a complete table: every code `1 … mx` has a checked entry and the entries are ordered -/
structure TableOK (f : Nat → Nat) (mx top : Nat) (T D : Nat → Nat) : Prop where
  entry : ∀ k, 1 ≤ k → k ≤ mx → EntryOK f mx top k (T k) (D k)
  ord : ∀ k, 1 ≤ k → k < mx → T k + D k ≤ T (k + 1)

/-- the exceptional patterns: `t_k` with `d_k = 1` -/
def Exc (mx : Nat) (T D : Nat → Nat) (b : Nat) : Prop := ∃ k, 1 ≤ k ∧ k ≤ mx ∧ T k = b ∧ D k = 1

theorem thr_abstract (f : Nat → Nat) (mx top : Nat) (T D : Nat → Nat)
    (hmono : ∀ a b, a ≤ b → b < top → f a ≤ f b) (hle : ∀ b, b < top → f b ≤ mx)
    (htab : TableOK f mx top T D) (b : Nat) (hb : b < top) :
    (Exc mx T D b → f b = codeR mx (pval b) (2 ^ 149) + 1) ∧
    (¬ Exc mx T D b → f b = codeR mx (pval b) (2 ^ 149)) := by
  have hD := two_pow_pos 149
  generalize hc : codeR mx (pval b) (2 ^ 149) = c
  have hcle : c ≤ mx := by rw [← hc]; exact codeR_le _ _ _ hD
  have hfle := hle b hb
  -- value comparisons through the patterns
  have below : ∀ k, 1 ≤ k → k ≤ mx → c < k → b < T k + D k := by
    intro k k1 k2 hck
    have hn : ¬ (2 * k - 1) * 2 ^ 149 ≤ 2 * mx * pval b := by
      rw [← le_codeR_iff mx _ _ k hD k1 k2, hc]; omega
    apply Nat.lt_of_not_le
    intro hge
    have := Nat.mul_le_mul_left (2 * mx) (pval_mono hge)
    have := (htab.entry k k1 k2).s1
    omega
  have above : ∀ k, 1 ≤ k → k ≤ mx → k ≤ c → T k + D k ≤ b := by
    intro k k1 k2 hck
    have hy : (2 * k - 1) * 2 ^ 149 ≤ 2 * mx * pval b := by
      rw [← le_codeR_iff mx _ _ k hD k1 k2, hc]; exact hck
    apply Nat.le_of_not_lt
    intro hlt
    have hle' : b ≤ T k + D k - 1 := by omega
    have := Nat.mul_le_mul_left (2 * mx) (pval_mono hle')
    have := (htab.entry k k1 k2).s2
    omega
  -- c ≤ f b
  have lo : c ≤ f b := by
    by_cases hc0 : c = 0
    · omega
    · have hs := above c (by omega) hcle (Nat.le_refl _)
      have e := htab.entry c (by omega) hcle
      have := hmono (T c) b (by omega) (by omega)
      have := e.p1
      omega
  -- f b ≤ c + 1
  have hi : f b ≤ c + 1 := by
    by_cases h2 : c + 2 ≤ mx
    · have hs := below (c + 1) (by omega) (by omega) (by omega)
      have ho : T (c + 1) + D (c + 1) ≤ T (c + 2) := htab.ord (c + 1) (by omega) (by omega)
      have e := htab.entry (c + 2) (by omega) h2
      have h1 := e.t_pos
      have := hmono b (T (c + 2) - 1) (by omega) (by have := e.s_fin; omega)
      have := e.p2
      omega
    · omega
  constructor
  · rintro ⟨k, k1, k2, hT, hd⟩
    have e := htab.entry k k1 k2
    have hck : c < k := by
      apply Nat.lt_of_not_le
      intro hkc
      have := above k k1 k2 hkc
      omega
    have := e.p1
    rw [hT] at this
    omega
  · intro hne
    apply Nat.le_antisymm _ lo
    apply Nat.le_of_not_lt
    intro hlt
    have hfb : f b = c + 1 := by omega
    have hc1 : c + 1 ≤ mx := by omega
    have e := htab.entry (c + 1) (by omega) hc1
    have hs := below (c + 1) (by omega) hc1 (by omega)
    have hge : T (c + 1) ≤ b := by
      apply Nat.le_of_not_lt
      intro hlt'
      have h1 := e.t_pos
      have := hmono b (T (c + 1) - 1) (by omega) (by have := e.s_fin; omega)
      have := e.p2
      omega
    have := e.d_le
    exact hne ⟨c + 1, by omega, hc1, by omega, by omega⟩

/-! ### the checker

`K` constant of the product, `h` constant of the sum, `cap` the saturation value of the cast (the maximum of the
integer type), `L` the number of steps (codes `0 … L`, ties at `(2k−1)/(2L)`), `top` (≤ `+∞`) the exclusive upper end
of the pattern range the table speaks about. -/

/-- one table entry, evaluated (the pipeline on the fast operations, the values as `Nat`) -/
def chkEntry (K h cap L top k t d : Nat) : Bool :=
  Nat.ble 1 t && Nat.blt (Nat.add t d) top && Nat.ble d 1 &&
  Nat.ble k (pipeR K h cap t) && Nat.blt (pipeR K h cap (Nat.sub t 1)) k &&
  (lz (Nat.mul (Nat.sub (Nat.mul 2 k) 1) (Nat.pow 2 149)) fun thr => lz (Nat.mul 2 L) fun m2 =>
    Nat.ble thr (Nat.mul m2 (pval (Nat.add t d))) && Nat.blt (Nat.mul m2 (pval (Nat.sub (Nat.add t d) 1))) thr &&
      (Nat.beq d 0 || Nat.ble (Nat.mul 1044480 (Nat.sub thr (Nat.mul m2 (pval t)))) (Nat.mul m2 (Nat.pow 2 149))))

theorem chkEntry_sound (K h cap L top k t d : Nat) (hc : chkEntry K h cap L top k t d = true) :
    EntryOK (pipe K h cap) L top k t d := by
  unfold chkEntry at hc
  simp only [lz_eq, Bool.and_eq_true, Bool.or_eq_true, Nat.ble_eq, Nat.blt_eq, Nat.beq_eq, nadd, nsub, nmul, npow,
    pipeR_eq] at hc
  obtain ⟨⟨⟨⟨⟨h1, h2⟩, h3⟩, h4⟩, h5⟩, ⟨h6, h7⟩, h8⟩ := hc
  exact ⟨h1, h2, h3, h4, h5, h6, h7, h8⟩

/-- the table for the codes `k, k+1, …`; `ps` = the `s` of the previous code -/
def chkList (K h cap L top : Nat) : Nat → Nat → List Nat → Bool
  | _, _, [] => true
  | k, ps, e :: es =>
    chkEntry K h cap L top k (Nat.div e 2) (Nat.mod e 2) && Nat.ble ps (Nat.div e 2) &&
      chkList K h cap L top (Nat.succ k) (Nat.add (Nat.div e 2) (Nat.mod e 2)) es

/-- the `s` of the last entry -/
def lastS : Nat → List Nat → Nat
  | ps, [] => ps
  | _, e :: es => lastS (e / 2 + e % 2) es

theorem chkList_append (K h cap L top : Nat) : ∀ (l1 l2 : List Nat) (k ps : Nat),
    chkList K h cap L top k ps (l1 ++ l2) =
      (chkList K h cap L top k ps l1 && chkList K h cap L top (k + l1.length) (lastS ps l1) l2)
  | [], l2, k, ps => by simp [chkList, lastS]
  | e :: es, l2, k, ps => by
    simp only [List.cons_append, chkList, lastS, List.length_cons, chkList_append K h cap L top es l2, Bool.and_assoc,
      nadd, ndiv, nmod, Nat.succ_eq_add_one]
    have : k + 1 + es.length = k + (es.length + 1) := by omega
    rw [this]

/-- chaining the separately checked chunks of a table -/
theorem chk_chunk (K h cap L top : Nat) (l1 rest : List Nat) (k ps k' ps' : Nat)
    (h1 : chkList K h cap L top k ps l1 = true) (hl : k + l1.length = k') (hs : lastS ps l1 = ps')
    (h2 : chkList K h cap L top k' ps' rest = true) : chkList K h cap L top k ps (l1 ++ rest) = true := by
  rw [chkList_append, h1, hl, hs, h2]; rfl

theorem len_chunk (l1 rest : List Nat) (k k' n : Nat) (h1 : k + l1.length = k') (h2 : k' + rest.length = n) :
    k + (l1 ++ rest).length = n := by
  rw [List.length_append]; omega

theorem chkList_get (K h cap L top : Nat) : ∀ (l : List Nat) (k ps : Nat), chkList K h cap L top k ps l = true →
    ∀ i, i < l.length →
      chkEntry K h cap L top (k + i) (l.getD i 0 / 2) (l.getD i 0 % 2) = true ∧
      (i + 1 < l.length → l.getD i 0 / 2 + l.getD i 0 % 2 ≤ l.getD (i + 1) 0 / 2)
  | [], _, _, _, i, hi => by simp at hi
  | e :: es, k, ps, hc, i, hi => by
    simp only [chkList, Bool.and_eq_true, Nat.ble_eq, nadd, ndiv, nmod, Nat.succ_eq_add_one] at hc
    obtain ⟨⟨h1, h2⟩, h3⟩ := hc
    cases i with
    | zero =>
      refine ⟨by simpa using h1, ?_⟩
      intro h2len
      cases es with
      | nil => simp at h2len
      | cons e' es' =>
        simp only [chkList, Bool.and_eq_true, Nat.ble_eq, nadd, ndiv, nmod] at h3
        simpa using h3.1.2
    | succ j =>
      have hj : j < es.length := by simpa using hi
      have ih := chkList_get K h cap L top es (k + 1) _ h3 j hj
      have e1 : k + 1 + j = k + (j + 1) := by omega
      rw [e1] at ih
      refine ⟨by simpa using ih.1, ?_⟩
      intro hlen
      have : j + 1 < es.length := by simpa using hlen
      simpa using ih.2 this

/-- table entries as functions of the code -/
def tabT (tbl : List Nat) (k : Nat) : Nat := tbl.getD (k - 1) 0 / 2
def tabD (tbl : List Nat) (k : Nat) : Nat := tbl.getD (k - 1) 0 % 2

theorem table_ok (K h cap L top : Nat) (tbl : List Nat) (hlen : tbl.length = L)
    (hc : chkList K h cap L top 1 0 tbl = true) : TableOK (pipe K h cap) L top (tabT tbl) (tabD tbl) := by
  constructor
  · intro k k1 k2
    have := (chkList_get K h cap L top tbl 1 0 hc (k - 1) (by omega)).1
    have e : 1 + (k - 1) = k := by omega
    rw [e] at this
    exact chkEntry_sound _ _ _ _ _ _ _ _ this
  · intro k k1 k2
    have := (chkList_get K h cap L top tbl 1 0 hc (k - 1) (by omega)).2 (by omega)
    have e : k - 1 + 1 = k + 1 - 1 := by omega
    rw [e] at this
    exact this

theorem exc_iff_mem (mx : Nat) (tbl : List Nat) (hlen : tbl.length = mx) (b : Nat) :
    Exc mx (tabT tbl) (tabD tbl) b ↔ (2 * b + 1) ∈ tbl := by
  constructor
  · rintro ⟨k, k1, k2, hT, hD⟩
    unfold tabT at hT
    unfold tabD at hD
    have hi : k - 1 < tbl.length := by omega
    have hg : tbl.getD (k - 1) 0 = tbl[k - 1] := by
      rw [List.getD_eq_getElem?_getD, List.getElem?_eq_getElem hi]; rfl
    have : tbl[k - 1] = 2 * b + 1 := by omega
    rw [← this]
    exact List.getElem_mem hi
  · intro hm
    obtain ⟨i, hi, he⟩ := List.getElem_of_mem hm
    have hg : tbl.getD i 0 = tbl[i] := by
      rw [List.getD_eq_getElem?_getD, List.getElem?_eq_getElem hi]; rfl
    refine ⟨i + 1, by omega, by omega, ?_, ?_⟩
    · unfold tabT
      have : i + 1 - 1 = i := by omega
      rw [this, hg, he]; omega
    · unfold tabD
      have : i + 1 - 1 = i := by omega
      rw [this, hg, he]; omega

/-- what a checked table says about one of its entries `e = 2t + d` at index `i` (code `i + 1`) -/
theorem mem_entry (K h cap L top : Nat) (tbl : List Nat) (hc : chkList K h cap L top 1 0 tbl = true) (e : Nat)
    (he : e ∈ tbl) : ∃ k, 1 ≤ k ∧ k ≤ tbl.length ∧ EntryOK (pipe K h cap) L top k (e / 2) (e % 2) := by
  obtain ⟨i, hi, hg⟩ := List.getElem_of_mem he
  have hg' : tbl.getD i 0 = tbl[i] := by
    rw [List.getD_eq_getElem?_getD, List.getElem?_eq_getElem hi]; rfl
  have := chkEntry_sound _ _ _ _ _ _ _ _ (chkList_get K h cap L top tbl 1 0 hc i hi).1
  rw [hg', hg] at this
  exact ⟨1 + i, by omega, by omega, this⟩

/-! ### non-negative finite patterns below `top` -/

/-- MAIN: for every non-negative finite pattern below `top` the pipeline gives the nearest code of the value, plus one
exactly on the patterns `t` of the table entries `2t + 1` -/
theorem thr_main (K h cap L top : Nat) (tbl : List Nat) (htop : top ≤ 0x7F800000)
    (hmono : ∀ a b, a ≤ b → b < top → pipe K h cap a ≤ pipe K h cap b) (hle : ∀ b, b < top → pipe K h cap b ≤ L)
    (hlen : tbl.length = L) (hc : chkList K h cap L top 1 0 tbl = true) (b : Nat) (hb : b < top) :
    (pipe K h cap b : Int) = toCode L (toRat b) + (if (2 * b + 1) ∈ tbl then 1 else 0) := by
  have hab := thr_abstract (pipe K h cap) L top (tabT tbl) (tabD tbl) hmono hle
    (table_ok K h cap L top tbl hlen hc) b hb
  have hD : (2 : Nat) ^ 149 ≠ 0 := Nat.pos_iff_ne_zero.mp (two_pow_pos 149)
  rw [toRat_pval b (by omega), toCode_mkRat L (pval b) (2 ^ 149) hD]
  by_cases hm : (2 * b + 1) ∈ tbl
  · rw [if_pos hm, hab.1 ((exc_iff_mem L tbl hlen b).mpr hm)]
    omega
  · rw [if_neg hm, hab.2 (fun h => hm ((exc_iff_mem L tbl hlen b).mp h))]
    omega

/-! ### all 2^32 patterns (`h = 0.5`) -/

theorem natCast_mul_pow2_nonneg (a : Nat) (e : Int) : 0 ≤ (a : Rat) * CF32.pow2 e := by
  rw [pow2_eq, F32.Fast.natCast_mul_pow2]
  split
  · exact mkRat_nonneg _ _
  · exact mkRat_nonneg _ _

theorem toRat_nonpos_of_neg (b : Nat) (hn : isNeg b = true) : toRat b ≤ 0 := by
  unfold toRat
  by_cases he : (expField b == 255) = true
  · rw [if_pos he]; exact Rat.le_refl
  · rw [if_neg he]
    show (if isNeg b = true then -((mant b : Rat) * CF32.pow2 (expo b)) else (mant b : Rat) * CF32.pow2 (expo b)) ≤ 0
    rw [if_pos hn]
    have := natCast_mul_pow2_nonneg (mant b) (expo b)
    rw [← Rat.neg_le_neg_iff, Rat.neg_neg]
    exact this

theorem pipe_nan (K h mx b : Nat) (hn : isNaN b = true) : pipe K h mx b = 0 := by
  have h1 : fmul b K = nan := by
    unfold fmul; simp only [force_eq, hn, Bool.true_or, if_true]
  have hnn : isNaN nan = true := by decide
  have h2 : fadd nan h = nan := by
    unfold fadd; simp only [force_eq, hnn, Bool.true_or, if_true]
  unfold pipe
  rw [h1, h2]
  unfold toNatSat
  simp only [force_eq, hnn, if_true]

theorem isZero_false (K : Nat) (hK : K < 0x7F800000) (hK0 : 0 < K) : isZero K = false := by
  unfold isZero signBit
  have : K % 0x80000000 = K := Nat.mod_eq_of_lt (by omega)
  rw [this]
  simp only [beq_eq_false_iff_ne, ne_eq]; omega

open Dds.EncTotal.QuantBits in
/-- negative values, `−0`, `−∞`: the product is non-positive, `+ 0.5` is at most 0.5, the cast gives 0 -/
theorem pipe_neg (K mx b : Nat) (hK : K < 0x7F800000) (hK0 : 0 < K) (hneg : NegR b) : pipe K half mx b = 0 := by
  unfold pipe
  rcases fadd_neg_half _ (fmul_neg b K hneg hK (isZero_false K hK hK0)) with h | h
  · exact toNatSat_neg _ _ h
  · exact toNatSat_small _ _ h

/-- the five classes of a 32-bit pattern -/
theorem classify (b : Nat) (hb : b < 2 ^ 32) :
    b < 0x7F800000 ∨ b = 0x7F800000 ∨ isNaN b = true ∨ (Dds.EncTotal.QuantBits.NegR b ∧ b < 0xFF800000) ∨ b = 0xFF800000 := by
  by_cases h1 : b < 0x7F800000
  · exact Or.inl h1
  by_cases h2 : b = 0x7F800000
  · exact Or.inr (Or.inl h2)
  by_cases h3 : b < 0x80000000
  · refine Or.inr (Or.inr (Or.inl ?_))
    rw [Dds.EncTotal.SharedExp.isNaN_iff]; omega
  by_cases h4 : b < 0xFF800000
  · exact Or.inr (Or.inr (Or.inr (Or.inl ⟨⟨by simp only [signBit]; omega, by simp only [signBit, posInf]; omega⟩, h4⟩)))
  by_cases h5 : b = 0xFF800000
  · exact Or.inr (Or.inr (Or.inr (Or.inr h5)))
  · refine Or.inr (Or.inr (Or.inl ?_))
    rw [Dds.EncTotal.SharedExp.isNaN_iff]; omega

/-- the specification of `(x * MAX + 0.5) as uN` on a bit pattern: NaN ↦ 0, `+∞` ↦ `MAX`, `−∞` ↦ 0, a finite value
↦ the nearest code of the value clamped to [0, 1] (an exact tie going up) -/
def specCode (mx b : Nat) : Int :=
  if isNaN b then 0 else if isInf b then (if isNeg b then 0 else (mx : Int)) else toCode mx (toRat b)

theorem negfin_flags (b : Nat) (h1 : 0x80000000 ≤ b) (h2 : b < 0xFF800000) :
    isNaN b = false ∧ isInf b = false ∧ isNeg b = true := by
  have he : expField b ≠ 255 := by rw [ConvFast.expField_eq]; omega
  refine ⟨?_, ?_, ?_⟩
  · unfold isNaN; simp [he]
  · unfold isInf; simp [he]
  · unfold isNeg signBit; simpa using h1

/-- `fp::n8`, `fp::n16`, `n8::from_f32`, `n16::from_f32` on ALL bit patterns -/
theorem pipe_half_all (K mx : Nat) (tbl : List Nat) (hK : K < 0x7F800000) (hK0 : 0 < K)
    (hlen : tbl.length = mx) (hc : chkList K half mx mx 0x7F800000 1 0 tbl = true) (b : Nat) (hb : b < 2 ^ 32) :
    (pipe K half mx b : Int) = specCode mx b + (if (2 * b + 1) ∈ tbl then 1 else 0) := by
  have hh : half < 0x7F800000 := by decide
  have hnm : ¬ b < 0x7F800000 → ¬ (2 * b + 1) ∈ tbl := by
    intro hb' hm
    obtain ⟨k, _, _, e⟩ := mem_entry K half mx mx 0x7F800000 tbl hc _ hm
    have := e.s_fin
    omega
  unfold specCode
  rcases classify b hb with h | h | h | ⟨h, h'⟩ | h
  · obtain ⟨a1, a2, _, _, _⟩ := posfin b h
    rw [a1, a2]
    exact thr_main K half mx mx 0x7F800000 tbl (Nat.le_refl _)
      (fun a b hab hb => pipe_mono hK hK0 hh hab (by omega)) (fun b hb => pipe_le K half mx b (by omega) hK hK0 hh)
      hlen hc b h
  · rw [if_neg (hnm (by omega)), Int.add_zero]
    subst h
    obtain ⟨i1, i2, i3, i4⟩ := posInf_flags
    rw [i1, i2, i3]
    unfold pipe
    rw [fmul_posInf K hK hK0, fadd_posInf half hh, toNatSat_posInf]
    rfl
  · have : ¬ b < 0x7F800000 := by
      intro hlt
      rw [(posfin b hlt).1] at h
      exact Bool.false_ne_true h
    rw [if_neg (hnm this), Int.add_zero, pipe_nan K half mx b h, h]; rfl
  · rw [if_neg (hnm (by have := h.1; simp only [signBit] at this; omega)), Int.add_zero, pipe_neg K mx b hK hK0 h]
    obtain ⟨n1, n2, n3⟩ := negfin_flags b (by have := h.1; simpa only [signBit] using this) h'
    rw [n1, n2]
    exact (toCode_nonpos mx _ (toRat_nonpos_of_neg b n3)).symm
  · rw [if_neg (hnm (by omega)), Int.add_zero]
    subst h
    rw [pipe_neg K mx _ hK hK0 ⟨by decide, by decide⟩]
    have : isNaN 0xFF800000 = false ∧ isInf 0xFF800000 = true ∧ isNeg 0xFF800000 = true := by decide
    rw [this.1, this.2.1, this.2.2]; rfl

end Dds.F32Thr
