/-
C13 — BC7 modes 4 / 5, constant separated channel (`compress_color_separate_alpha_with_rotation`, the
`stats.single_alpha()` branch): `Enc13.sepEndpoints A a` evaluates `Alpha::<A>::round / floor / ceil(a as f32 *
(1.0 / 255.0))` (`channel_round`, `channel_floor`, `channel_ceil`) in binary32 (`F32.lean`) and applies the guard
`round.promote().a == a`.  For ALL 256 values `a`, by kernel evaluation of the whole domain:
  * mode 5 (8-bit alpha): the exact branch is always taken, endpoints `(a, a)`;
  * mode 4 (6-bit alpha): the exact branch is taken iff `a` is the 8-bit promotion of a 6-bit value, and then both
    endpoints are that value; otherwise the endpoints are `(floor, ceil) = (f, f + 1)` with
    `promote f < a < promote (f + 1)`: the two representable neighbours.
(`channel_round::<6>` compares f32 distances; where two neighbours are equally far in exact arithmetic the guard fails
for both, so the float tie-break cannot matter — this is part of what the evaluation checks.)
-/
import DdsModel.Enc13
import DdsModel.Proofs.BcFinite
namespace Dds.Enc13
open Dds Dds.Bc

/-- the facts at one value, each `sepEndpoints` evaluated once -/
def sepCheck (a : Nat) : Bool :=
  (match sepEndpoints 8 a with
   | ((f, c), ex) => f == a && c == a && ex) &&
  (match sepEndpoints 6 a with
   | ((f, c), true) => f == c && Bc7.promote f 6 == a
   | ((f, c), false) => c == f + 1 && decide (c ≤ 63) && decide (Bc7.promote f 6 < a) && decide (a < Bc7.promote c 6) &&
       !((List.range 64).any fun k => Bc7.promote k 6 == a))

theorem sepCheck_all : ∀ a, a ≤ 255 → sepCheck a = true := by
  intro a ha
  exact allUpTo sepCheck 255 (by decide +kernel) a ha

theorem sepEndpoints_spec (a : Nat) (ha : a ≤ 255) :
    sepEndpoints 8 a = ((a, a), true) ∧
    ((sepEndpoints 6 a).2 = true →
      (sepEndpoints 6 a).1.1 = (sepEndpoints 6 a).1.2 ∧ Bc7.promote (sepEndpoints 6 a).1.1 6 = a) ∧
    ((sepEndpoints 6 a).2 = false →
      (sepEndpoints 6 a).1.2 = (sepEndpoints 6 a).1.1 + 1 ∧ (sepEndpoints 6 a).1.2 ≤ 63 ∧
      Bc7.promote (sepEndpoints 6 a).1.1 6 < a ∧ a < Bc7.promote (sepEndpoints 6 a).1.2 6 ∧
      ∀ k, k < 64 → Bc7.promote k 6 ≠ a) := by
  have h := sepCheck_all a ha
  unfold sepCheck at h
  generalize sepEndpoints 8 a = e8 at h ⊢
  generalize sepEndpoints 6 a = e6 at h ⊢
  obtain ⟨⟨f8, c8⟩, ex8⟩ := e8
  obtain ⟨⟨f6, c6⟩, ex6⟩ := e6
  cases ex6 <;>
    simp only [Bool.and_eq_true, beq_iff_eq, decide_eq_true_eq, Bool.not_eq_true', List.any_eq_false, List.mem_range,
      Bool.true_eq_false, Bool.false_eq_true, false_imp_iff, forall_const] at h ⊢
  · obtain ⟨⟨⟨h1, h2⟩, h3⟩, ⟨⟨⟨⟨g1, g2⟩, g3⟩, g4⟩, g5⟩⟩ := h
    subst h1 h2 h3
    exact ⟨rfl, trivial, g1, g2, g3, g4, fun k hk he => g5 k hk (by simpa using he)⟩
  · obtain ⟨⟨⟨h1, h2⟩, h3⟩, g1, g2⟩ := h
    subst h1 h2 h3
    exact ⟨rfl, ⟨g1, g2⟩, trivial⟩

example : sepEndpoints 6 255 = ((63, 63), true) ∧ sepEndpoints 6 254 = ((62, 63), false) ∧
    sepEndpoints 6 2 = ((0, 1), false) ∧ sepEndpoints 8 100 = ((100, 100), true) := by decide +kernel

end Dds.Enc13
