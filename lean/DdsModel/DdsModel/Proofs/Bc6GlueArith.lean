/-
Arithmetic glue between the implementation-shaped BC6H model (`Bc6.lean`: wrapping i32 arithmetic, shifts,
masks) and the specification (`Bc6Spec.lean`: exact integer arithmetic): endpoint decompression,
unquantize, interpolate + finish_unquantize.  Every `wrap32` on these paths is the identity.
-/
import DdsModel.Bc6
import DdsModel.Bc6Spec
import DdsModel.Proofs.Bc6
namespace Dds.Bc6
open Dds.BcTables Dds.Bc6Spec

/-! ### machine integer helpers -/

theorem wrap32_id (x : Int) (h1 : -2147483648 ≤ x) (h2 : x < 2147483648) : wrap32 x = x := by
  unfold wrap32; omega

theorem or_sign (x : Nat) (h : x < 32768) : 32768 ||| x = 32768 + x := by
  have := Nat.shiftLeft_add_eq_or_of_lt (i := 15) (b := x) (by simpa using h) 1
  simpa using this.symm

theorem two_pow_le_65536 (k : Nat) (hk : k ≤ 16) : (2 ^ k : Nat) ≤ 65536 :=
  Nat.pow_le_pow_right (by decide) hk

/-- `(1 << k) - 1` -/
theorem maskOf_eq (k : Nat) (hk : k ≤ 30) : maskOf k = 2 ^ k - 1 := by
  have h1 : (2 ^ k : Nat) ≤ 2 ^ 30 := Nat.pow_le_pow_right (by decide) hk
  have h2 : 0 < (2 ^ k : Nat) := Nat.two_pow_pos k
  simp only [maskOf, shl32, wrap32, toU32]
  generalize (2 ^ k : Nat) = p at *
  omega

theorem ofU32_small (n : Nat) (h : n < 2147483648) : ofU32 n = n := by
  unfold ofU32; rw [if_pos h]

/-- `v & ((1 << k) - 1)` is `v mod 2^k` (floor) for any i32 `v` -/
theorem and32_maskOf (v : Int) (k : Nat) (hk : k ≤ 16) :
    and32 v (maskOf k) = v % ((2 ^ k : Nat) : Int) := by
  have h1 := two_pow_le_65536 k hk
  have h2 : toU32 v % 2 ^ k < 2 ^ k := Nat.mod_lt _ (Nat.two_pow_pos k)
  rw [maskOf_eq k (by omega), and32, Nat.and_two_pow_sub_one_eq_mod, ofU32_small _ (by omega)]
  have : k = 0 ∨ k = 1 ∨ k = 2 ∨ k = 3 ∨ k = 4 ∨ k = 5 ∨ k = 6 ∨ k = 7 ∨ k = 8 ∨ k = 9 ∨ k = 10 ∨ k = 11 ∨
      k = 12 ∨ k = 13 ∨ k = 14 ∨ k = 15 ∨ k = 16 := by omega
  rcases this with h | h | h | h | h | h | h | h | h | h | h | h | h | h | h | h | h <;> subst h <;>
    simp only [toU32, Nat.reducePow] <;> omega

/-- `wrapping_add` then mask -/
theorem addMask_eq (a b : Int) (k : Nat) (hk : k ≤ 16)
    (ha : -1073741824 ≤ a ∧ a < 1073741824) (hb : -1073741824 ≤ b ∧ b < 1073741824) :
    addMask a b (maskOf k) = (a + b) % ((2 ^ k : Nat) : Int) := by
  unfold addMask
  rw [wrap32_id _ (by omega) (by omega), and32_maskOf _ _ hk]

/-- sign extension of an `Int` that is a `k`-bit pattern -/
theorem signExtend_int (v : Int) (k : Nat) (hk : 1 ≤ k) (hk' : k ≤ 16) (h0 : 0 ≤ v)
    (h1 : v < ((2 ^ k : Nat) : Int)) : signExtend v k = sext k v.toNat := by
  have := signExtend_eq k v.toNat hk hk' (by omega)
  rwa [Int.toNat_of_nonneg h0] at this

theorem sext_range (k v : Nat) (hk : 1 ≤ k) (hv : v < 2 ^ k) :
    -((2 ^ (k - 1) : Nat) : Int) ≤ sext k v ∧ sext k v < ((2 ^ (k - 1) : Nat) : Int) := by
  have : 2 ^ k = 2 * 2 ^ (k - 1) := by
    rw [← Nat.pow_succ']; congr 1; omega
  unfold sext; split <;> omega

theorem sext_bound (k v : Nat) (hk : k ≤ 16) (hv : v < 2 ^ k) : -65536 ≤ sext k v ∧ sext k v < 65536 := by
  have := two_pow_le_65536 k hk
  unfold sext; split <;> omega

/-! ### endpoints -/

/-- value-level form of `Bc6Spec.endpoint` (raw field values instead of a block) -/
def endpointV (prec d : Nat) (transformed signed : Bool) (base raw e : Nat) : Int :=
  let base' : Int := if signed then sext prec base else base
  if e = 0 then base'
  else
    if transformed then
      let sum : Int := base' + sext d raw
      let wrapped : Nat := (sum % ((2 ^ prec : Nat) : Int)).toNat
      if signed then sext prec wrapped else wrapped
    else if signed then sext d raw else raw

theorem endpoint_eq_V (r : ModeRec) (signed : Bool) (b c e : Nat) :
    Bc6Spec.endpoint r signed b c e =
      endpointV r.prec (deltaW r c) r.transformed signed (rawField r b c 0) (rawField r b c e) e := rfl

/-- range of an endpoint value of precision `p` -/
def inRange (signed : Bool) (p : Nat) (v : Int) : Prop :=
  if signed then -((2 ^ (p - 1) : Nat) : Int) ≤ v ∧ v < ((2 ^ (p - 1) : Nat) : Int) else 0 ≤ v ∧ v < ((2 ^ p : Nat) : Int)

theorem wrapped_lt (s : Int) (p : Nat) : (s % ((2 ^ p : Nat) : Int)).toNat < 2 ^ p := by
  have h2 : 0 < (2 ^ p : Nat) := Nat.two_pow_pos p
  have h3 : s % ((2 ^ p : Nat) : Int) < ((2 ^ p : Nat) : Int) := Int.emod_lt_of_pos _ (by omega)
  have h4 : 0 ≤ s % ((2 ^ p : Nat) : Int) := Int.emod_nonneg _ (by omega)
  omega

theorem endpointV_inRange (prec d : Nat) (tr signed : Bool) (base raw e : Nat)
    (hp : 6 ≤ prec) (hp' : prec ≤ 16) (hd : 1 ≤ d) (hd' : d ≤ prec) (hnt : tr = false → d = prec)
    (hb : base < 2 ^ prec) (hr : raw < 2 ^ d) : inRange signed prec (endpointV prec d tr signed base raw e) := by
  have hs := sext_range prec base (by omega) hb
  have hw := fun s => wrapped_lt s prec
  cases signed <;> cases tr <;> simp only [inRange, endpointV, Bool.false_eq_true, if_false, if_true]
  · obtain rfl := hnt rfl
    split <;> omega
  · split
    · omega
    · have := hw ((base : Int) + sext d raw)
      omega
  · obtain rfl := hnt rfl
    have := sext_range d raw hd hr
    split <;> omega
  · split
    · omega
    · exact sext_range prec _ (by omega) (hw _)

/-- the code's per-endpoint computation in a transformed mode, unsigned -/
theorem ep_tr_unsigned (p d w x : Nat) (hp : p ≤ 16) (hd : d ≤ 16) (hw : w < 2 ^ p) (hx : x < 2 ^ d) :
    addMask (sext d x) (w : Int) (maskOf p) =
      ((((w : Int) + sext d x) % ((2 ^ p : Nat) : Int)).toNat : Int) := by
  have h1 := sext_bound d x hd hx
  have h2 := two_pow_le_65536 p hp
  have h3 : 0 < (2 ^ p : Nat) := Nat.two_pow_pos p
  rw [addMask_eq _ _ _ hp (by omega) (by omega), Int.add_comm,
    Int.toNat_of_nonneg (Int.emod_nonneg _ (by omega))]

/-- the code's per-endpoint computation in a transformed mode, signed -/
theorem ep_tr_signed (p d w x : Nat) (hp0 : 1 ≤ p) (hp : p ≤ 16) (hd : d ≤ 16) (hw : w < 2 ^ p) (hx : x < 2 ^ d) :
    signExtend (addMask (sext d x) (sext p w) (maskOf p)) p =
      sext p ((sext p w + sext d x) % ((2 ^ p : Nat) : Int)).toNat := by
  have h1 := sext_bound d x hd hx
  have h2 := sext_bound p w hp hw
  have h3 : 0 < (2 ^ p : Nat) := Nat.two_pow_pos p
  rw [addMask_eq _ _ _ hp (by omega) (by omega), Int.add_comm]
  exact signExtend_int _ _ hp0 hp (Int.emod_nonneg _ (by omega)) (Int.emod_lt_of_pos _ (by omega))

theorem addMask_comm (a b : Int) (m : Nat) : addMask a b m = addMask b a m := by
  unfold addMask; rw [Int.add_comm]

/-- two-region endpoint decompression of one channel = the spec's endpoint formula.  `d` is the delta width of
that channel: one of the three components of `m.deltaBitCount`. -/
theorem decompressTwoChan_eq (m : ModeTwo) (signed : Bool) (d w x y z : Nat)
    (hd : d = m.deltaBitCount.1 ∨ d = m.deltaBitCount.2.1 ∨ d = m.deltaBitCount.2.2)
    (hw : w < 2 ^ m.a0BitCount) (hx : x < 2 ^ d) (hy : y < 2 ^ d) (hz : z < 2 ^ d) :
    decompressTwoChan m signed d (w : Int) (x : Int) (y : Int) (z : Int) =
      [endpointV m.a0BitCount d m.transformed signed w w 0, endpointV m.a0BitCount d m.transformed signed w x 1,
       endpointV m.a0BitCount d m.transformed signed w y 2, endpointV m.a0BitCount d m.transformed signed w z 3] := by
  have hp : 1 ≤ m.a0BitCount ∧ m.a0BitCount ≤ 16 := by cases m <;> decide
  have hd' : 1 ≤ d ∧ d ≤ 16 := by
    cases m <;> simp only [ModeTwo.deltaBitCount] at hd <;> omega
  have n1 : ¬ (1 : Nat) = 0 := by decide
  have n2 : ¬ (2 : Nat) = 0 := by decide
  have n3 : ¬ (3 : Nat) = 0 := by decide
  cases signed <;> cases htr : m.transformed <;>
    simp only [decompressTwoChan, endpointV, htr, Bool.false_eq_true, if_false, if_true, Bool.or_false,
      Bool.or_true, Bool.or_self, n1, n2, n3,
      signExtend_eq _ _ hp.1 hp.2 hw, signExtend_eq _ _ hd'.1 hd'.2 hx, signExtend_eq _ _ hd'.1 hd'.2 hy,
      signExtend_eq _ _ hd'.1 hd'.2 hz,
      ep_tr_unsigned _ _ _ _ hp.2 hd'.2 hw hx, ep_tr_unsigned _ _ _ _ hp.2 hd'.2 hw hy,
      ep_tr_unsigned _ _ _ _ hp.2 hd'.2 hw hz,
      ep_tr_signed _ _ _ _ hp.1 hp.2 hd'.2 hw hx, ep_tr_signed _ _ _ _ hp.1 hp.2 hd'.2 hw hy,
      ep_tr_signed _ _ _ _ hp.1 hp.2 hd'.2 hw hz]

theorem decompressOneChan_eq (m : ModeOne) (signed : Bool) (a b : Nat)
    (ha : a < 2 ^ m.a0BitCount) (hb : b < 2 ^ m.b0BitCount) :
    decompressOneChan m signed (a : Int) (b : Int) =
      [endpointV m.a0BitCount m.b0BitCount m.transformed signed a a 0,
       endpointV m.a0BitCount m.b0BitCount m.transformed signed a b 1] := by
  have hp : 1 ≤ m.a0BitCount ∧ m.a0BitCount ≤ 16 := by cases m <;> decide
  have hd' : 1 ≤ m.b0BitCount ∧ m.b0BitCount ≤ 16 := by cases m <;> decide
  have n1 : ¬ (1 : Nat) = 0 := by decide
  cases signed <;> cases htr : m.transformed <;>
    simp only [decompressOneChan, endpointV, htr, Bool.false_eq_true, if_false, if_true, Bool.or_false,
      Bool.or_true, Bool.or_self, n1,
      signExtend_eq _ _ hp.1 hp.2 ha, signExtend_eq _ _ hd'.1 hd'.2 hb, addMask_comm _ (sext m.b0BitCount b),
      ep_tr_unsigned _ _ _ _ hp.2 hd'.2 ha hb,
      ep_tr_signed _ _ _ _ hp.1 hp.2 hd'.2 ha hb]

/-! ### unquantize -/

/-- `unquantize`: every wrap32 is the identity; equals the spec; result range -/
theorem unquantize_eq (signed : Bool) (bits : Nat) (c : Int)
    (hbits : bits = 6 ∨ bits = 7 ∨ bits = 8 ∨ bits = 9 ∨ bits = 10 ∨ bits = 11 ∨ bits = 12 ∨ bits = 16)
    (hc : inRange signed bits c) :
    Bc6.unquantize c bits signed = Bc6Spec.unquantize signed bits c ∧
    (if signed then -32768 ≤ Bc6Spec.unquantize signed bits c ∧ Bc6Spec.unquantize signed bits c ≤ 32767
     else 0 ≤ Bc6Spec.unquantize signed bits c ∧ Bc6Spec.unquantize signed bits c ≤ 65535) := by
  cases signed <;> rcases hbits with h | h | h | h | h | h | h | h <;> subst h <;>
    simp only [inRange, Bc6.unquantize, Bc6Spec.unquantize, shl32, sar32, Nat.reducePow, Nat.reduceSub,
      Int.cast_ofNat_Int, Bool.not_true, Bool.not_false, Bool.false_eq_true, if_false, if_true,
      Nat.reduceLeDiff, ge_iff_le, Int.one_mul, true_and] at hc ⊢ <;>
    (try simp (disch := omega) only [wrap32_id, true_and]) <;> (repeat' split) <;> omega

/-! ### interpolate, finish_unquantize -/

/-- `finish_unquantize`, unsigned: no wrap, equals the spec -/
theorem finishUnquantize_unsigned (e : Int) (he : 0 ≤ e ∧ e ≤ 65535) :
    finishUnquantize e false = Bc6Spec.finish false e := by
  simp only [finishUnquantize, Bc6Spec.finish, sar32, Nat.reducePow, Int.cast_ofNat_Int, Bool.not_false, if_true]
  simp (disch := omega) only [wrap32_id]
  simp only [toU32, U16]
  have hd : 0 ≤ e * 31 / 64 ∧ e * 31 / 64 ≤ 65535 := by omega
  generalize e * 31 / 64 = d at *
  omega

/-- `finish_unquantize`, signed: no wrap, equals the spec -/
theorem finishUnquantize_signed (e : Int) (he : -32768 ≤ e ∧ e ≤ 32767) :
    finishUnquantize e true = Bc6Spec.finish true e := by
  have hm : e.natAbs * 31 / 32 < 32768 := by omega
  have hC : (if e < 0 then wrap32 (-(sar32 (wrap32 (wrap32 (-e) * 31)) 5)) else sar32 (wrap32 (e * 31)) 5)
      = if e < 0 then -((e.natAbs * 31 / 32 : Nat) : Int) else ((e.natAbs * 31 / 32 : Nat) : Int) := by
    simp only [sar32, Nat.reducePow, Int.cast_ofNat_Int]
    simp (disch := omega) only [wrap32_id]
    split <;> omega
  have key : ∀ C : Int, C = (if e < 0 then -((e.natAbs * 31 / 32 : Nat) : Int) else ((e.natAbs * 31 / 32 : Nat) : Int)) →
      ((if C < 0 then 0x8000 else 0) ||| toU32 (if C < 0 then wrap32 (-C) else C)) % U16 = Bc6Spec.finish true e := by
    intro C hCe
    simp only [Bc6Spec.finish, Bool.not_true, Bool.false_eq_true, if_false]
    generalize e.natAbs * 31 / 32 = m at *
    have hU : toU32 (m : Int) = m := by unfold toU32; omega
    by_cases hneg : e < 0 <;> simp only [hneg, if_true, if_false] at hCe <;> subst hCe
    · by_cases hm0 : m = 0
      · have h1 : ¬ (-(m : Int) < 0) := by omega
        have h2 : ¬ (e < 0 ∧ m ≠ 0) := fun h => h.2 hm0
        subst hm0
        simp only [h1, h2, if_false, Nat.zero_or]
        decide
      · have h1 : -(m : Int) < 0 := by omega
        have h2 : e < 0 ∧ m ≠ 0 := ⟨hneg, hm0⟩
        rw [if_pos h2]
        simp only [h1, if_true]
        rw [wrap32_id _ (by omega) (by omega), Int.neg_neg, hU, or_sign m hm]
        unfold U16; omega
    · have h1 : ¬ ((m : Int) < 0) := by omega
      have h2 : ¬ (e < 0 ∧ m ≠ 0) := fun h => hneg h.1
      simp only [h1, h2, if_false, Nat.zero_or, hU]
      unfold U16; omega
  simp only [finishUnquantize, Bool.not_true, Bool.false_eq_true, if_false]
  exact key _ hC

/-- the interpolation sum and shift without wraps (`A = a * (64 - w)`, `B = b * w`) -/
theorem lerp_core (A B : Int) (hA : -4194304 ≤ A ∧ A ≤ 4194304) (hB : -4194304 ≤ B ∧ B ≤ 4194304) :
    sar32 (wrap32 (wrap32 (wrap32 A + wrap32 B) + 32)) 6 = (A + B + 32) / 64 := by
  simp only [sar32, Nat.reducePow, Int.cast_ofNat_Int]
  simp (disch := omega) only [wrap32_id]

/-- interpolate + finish_unquantize: every wrap32 is the identity; equals the spec.  For every weight 0..64. -/
theorem paletteEntry_eq (signed : Bool) (a b : Int) (w : Nat) (hw : w ≤ 64)
    (ha : if signed then -32768 ≤ a ∧ a ≤ 32767 else 0 ≤ a ∧ a ≤ 65535)
    (hb : if signed then -32768 ≤ b ∧ b ≤ 32767 else 0 ≤ b ∧ b ≤ 65535) :
    paletteEntry a b w signed = Bc6Spec.finish signed (Bc6Spec.lerp a b w) := by
  have hw0 : (0 : Int) ≤ 64 - (w : Int) := by omega
  have hw1 : (0 : Int) ≤ (w : Int) := by omega
  unfold paletteEntry Bc6Spec.lerp
  rw [wrap32_id (64 - (w : Int)) (by omega) (by omega)]
  cases signed <;> simp only [Bool.false_eq_true, if_false, if_true] at ha hb
  · have h1 := Int.mul_le_mul_of_nonneg_right ha.2 hw0
    have h2 := Int.mul_le_mul_of_nonneg_right ha.1 hw0
    have h3 := Int.mul_le_mul_of_nonneg_right hb.2 hw1
    have h4 := Int.mul_le_mul_of_nonneg_right hb.1 hw1
    rw [lerp_core _ _ (by omega) (by omega)]
    exact finishUnquantize_unsigned _ (by omega)
  · have h1 := Int.mul_le_mul_of_nonneg_right ha.2 hw0
    have h2 := Int.mul_le_mul_of_nonneg_right ha.1 hw0
    have h3 := Int.mul_le_mul_of_nonneg_right hb.2 hw1
    have h4 := Int.mul_le_mul_of_nonneg_right hb.1 hw1
    rw [lerp_core _ _ (by omega) (by omega)]
    exact finishUnquantize_signed _ (by omega)

end Dds.Bc6
