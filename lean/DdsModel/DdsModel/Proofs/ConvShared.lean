/- R9G9B9E5: the statement for all (exponent, mantissa) pairs. -/
import DdsModel.Proofs.ConvSharedChunks
namespace Dds.ConvProofs
open Dds Dds.Conv Dds.Spec Dds.CF32 Dds.ConvRange

theorem shared_ok : ∀ i, i < 16384 → okShared i = true :=
  by
  intro i h
  by_cases a : i < 8192
  · exact allRange_sound _ 8 0 8192 shared_c0 i (by omega) (by omega)
  · exact allRange_sound _ 8 8192 8192 shared_c1 i (by omega) (by omega)

theorem shared_ok' : ∀ e m, e < 32 → m < 512 →
    sharedF32 e m = roundF32 (sharedExp e m) ∧ (sharedN8 e m : Int) = toCode 255 (sharedExp e m) ∧
    (sharedN16 e m : Int) = toCode 65535 (sharedExp e m) + (if e = 15 ∧ m = 257 then 1 else 0) := by
  intro e m he hm
  have h := shared_ok (e * 512 + m) (by omega)
  have h1 : (e * 512 + m) / 512 = e := by omega
  have h2 : (e * 512 + m) % 512 = m := by omega
  simp only [okShared, h1, h2, Bool.and_eq_true, beq_iff_eq] at h
  exact ⟨h.1.1, h.1.2, h.2⟩

end Dds.ConvProofs
