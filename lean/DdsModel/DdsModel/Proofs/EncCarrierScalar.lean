/-
C12 carrier independence, the scalar facts over the whole 8-bit domain (kernel evaluation of the bit-level models):
what the three carriers of an 8-bit value `v` — U8 `v`, U16 `257·v`, F32 `n8::f32(v)` — become in a stored field.
-/
import DdsModel.Proofs.EncCarrierChk
import DdsModel.Range
namespace Dds.EncCarrier
open Dds Dds.CF32 Dds.Conv Dds.Quant Dds.EncTotal
set_option maxRecDepth 100000

/-- `n16::f32(257·v) = n8::f32(v)`: the U16 and the U8 carrier give the same `f32` in `as_rgba_f32` -/
theorem n16f32_257 (v : Nat) (hv : v < 256) : n16f32 (v * 257) = n8f32 v := by
  have h : allRange (fun v => n16f32 (v * 257) == n8f32 v) 3 0 256 = true := by decide +kernel
  simpa using allRange_sound _ 3 0 256 h v (by omega) (by omega)

/-- `n8::from_f32(n8::f32(v)) = v` -/
theorem n8_n8f32 (v : Nat) (hv : v < 256) : QuantF32.n8 (n8f32 v) = v := by
  have h : allRange (fun v => QuantF32.n8 (n8f32 v) == v) 3 0 256 = true := by decide +kernel
  simpa using allRange_sound _ 3 0 256 h v (by omega) (by omega)

/-- `s8::from_uf32(n8::f32(v)) = s8::from_n8(v)` -/
theorem s8_n8f32 (v : Nat) (hv : v < 256) : QuantBits.s8 (n8f32 v) = some (s8_from_n8 v) := by
  have h : allRange (fun v => decide (QuantBits.s8 (n8f32 v) = some (s8_from_n8 v))) 3 0 256 = true := by decide +kernel
  exact of_decide_eq_true (allRange_sound _ 3 0 256 h v (by omega) (by omega))

/-- `n16::from_f32(n8::f32(v)) = 257·v` (= `n8::n16(v)`) -/
theorem n16_n8f32 (v : Nat) (hv : v < 256) : QuantF32.n16 (n8f32 v) = v * 257 := by
  have h : allRange (fun v => QuantF32.n16 (n8f32 v) == v * 257) 3 0 256 = true := by decide +kernel
  simpa using allRange_sound _ 3 0 256 h v (by omega) (by omega)

/-- `s16::from_uf32(n8::f32(v)) = s16::from_n16(257·v)`: through `chkS16Val` (the binary64 evaluation is, for every
input, the SNORM16 quantiser of the exact value: C15 `s16_eq_sencode`) -/
theorem s16_n8f32 (v : Nat) (hv : v < 256) : QuantBits.s16 (n8f32 v) = some (s16_from_n16 (v * 257)) := by
  have h : allRange (fun v => chkS16Val (n8f32 v) (s16_norm_from_n16 (v * 257))) 3 0 256 = true := by decide +kernel
  rw [chkS16Val_sound _ _ (allRange_sound _ 3 0 256 h v (by omega) (by omega))]
  rfl

/-- `n8::f32(v)` is a bit pattern -/
theorem n8f32_lt (v : Nat) (hv : v < 256) : n8f32 v < 2 ^ 32 := by
  have h : allRange (fun v => decide (n8f32 v < 2 ^ 32)) 3 0 256 = true := by decide +kernel
  exact of_decide_eq_true (allRange_sound _ 3 0 256 h v (by omega) (by omega))

/-- the `f32` defaults are the images of the integer defaults: `n8::f32(255) = n16::f32(65535) = 1.0`,
`n8::f32(0) = n16::f32(0) = 0.0` -/
theorem norm_images : n8f32 255 = CF32.one ∧ n16f32 65535 = CF32.one ∧ n8f32 0 = 0 ∧ n16f32 0 = 0 := by
  decide +kernel

end Dds.EncCarrier
