/-
C01, reader ⊑ cursor (2/3): the iterator side.

The length `SurfaceIterator::current()` reports is computed from the iterator's own copy of the
`PixelInfo` (`first.pixels` / `volume.pixels`); the bytes `decode` consumes are computed from the
decoder family of the format.  `iterPx` names the former; it is the layout's `PixelInfo` for a fresh
iterator and no iterator operation changes it.  Together with `Cfg.Agrees` (family = layout's
`PixelInfo`, true of every row of the format table: `fam_of_format`) this is the arithmetic link
between the two models: `cur.len = k.fam.px.surfIdeal cur.w cur.h = Call.bytes`.
-/
import DdsModel.Theorems.C08
namespace Dds.Reader
open Dds Dds.C08

/-- the `PixelInfo` the iterator computes surface lengths with -/
def iterPx : SurfIter → PixelInfo
  | .tex t => t.first.px
  | .vol t => t.volume.px

theorem iterPx_new (L : DataLayout) : iterPx (SurfIter.new L) = L.px := by
  cases L <;> rfl

/-- the reported length is the formula length of the reported size -/
theorem current_len (it : SurfIter) (v : IterInv it) {cur : SurfInfo}
    (hc : it.currentP = some (some cur)) : cur.len = (iterPx it).surfIdeal cur.w cur.h := by
  cases it with
  | tex t =>
    have hcur := TexIter.Inv.currentP v
    simp only [SurfIter.currentP] at hc
    rw [hcur] at hc
    by_cases hi : t.idx < t.len
    · rw [if_pos hi] at hc
      simp only [Option.some.injEq] at hc
      subst hc; rfl
    · rw [if_neg hi] at hc; simp at hc
  | vol t =>
    have hcur := VolIter.Inv.currentP v
    simp only [SurfIter.currentP] at hc
    rw [hcur] at hc
    by_cases hl : t.level < t.volume.mips
    · rw [if_pos hl] at hc
      simp only [Option.some.injEq] at hc
      subst hc; rfl
    · rw [if_neg hl] at hc; simp at hc

theorem advance_px (it : SurfIter) (v : IterInv it) {it' : SurfIter} (h : it.advanceP = some it') :
    iterPx it' = iterPx it := by
  cases it with
  | tex t =>
    simp only [SurfIter.advanceP, Option.some.injEq] at h
    subst h
    exact congrArg Texture.px (TexIter.Inv.advance v).2.2.1
  | vol t =>
    obtain ⟨it2, h0, _, _, hv⟩ := VolIter.Inv.advanceP v
    simp only [SurfIter.advanceP, h0, Option.map_some, Option.some.injEq] at h
    subst h
    exact congrArg Volume.px hv

theorem rewind_px (it : SurfIter) (v : IterInv it) {it' : SurfIter} (h : it.rewindP = some it') :
    iterPx it' = iterPx it := by
  cases it with
  | tex t =>
    simp only [SurfIter.rewindP, Option.some.injEq] at h
    subst h
    exact congrArg Texture.px (TexIter.Inv.rewind v).2.2.1
  | vol t =>
    obtain ⟨it2, h0, _, _, hv⟩ := VolIter.Inv.rewindP v
    simp only [SurfIter.rewindP, h0, Option.map_some, Option.some.injEq] at h
    subst h
    exact congrArg Volume.px hv

theorem skipMipmaps_px (it : SurfIter) (v : IterInv it) {it' : SurfIter} {n : Nat}
    (h : it.skipMipmapsP = some (.ok (it', n))) : iterPx it' = iterPx it := by
  cases it with
  | tex t =>
    obtain ⟨it2, n2, h0, _, hf, _⟩ := TexIter.Inv.skipMipmapsP v
    simp only [SurfIter.skipMipmapsP, h0, Option.map_some, Option.some.injEq, Except.ok.injEq,
      Prod.mk.injEq] at h
    obtain ⟨h1, _⟩ := h
    subst h1
    exact congrArg Texture.px hf
  | vol t =>
    obtain ⟨herr, hok⟩ := VolIter.Inv.skipMipmapsP v
    by_cases hd : t.depth = 0
    · obtain ⟨it2, n2, h0, _, hv, _⟩ := hok hd
      simp only [SurfIter.skipMipmapsP, h0, Option.map_some, Except.map, Option.some.injEq,
        Except.ok.injEq, Prod.mk.injEq] at h
      obtain ⟨h1, _⟩ := h
      subst h1
      exact congrArg Volume.px hv
    · simp [SurfIter.skipMipmapsP, herr hd, Except.map] at h

/-- everything the composition needs about consuming the current surface -/
theorem consume (it : SurfIter) (v : IterInv it) {cur : SurfInfo}
    (hc : it.currentP = some (some cur)) :
    ∃ it', it.advanceP = some it' ∧ IterInv it' ∧ elapsed it' = elapsed it + cur.len ∧
      total it' = total it ∧ iterPx it' = iterPx it ∧ elapsed it + cur.len ≤ total it ∧
      cur.len = (iterPx it).surfIdeal cur.w cur.h := by
  obtain ⟨it', ha, hi, _, _, ht, _⟩ := advance_refines it v
  obtain ⟨it2, ha2, he⟩ := advance_elapsed it v cur hc
  rw [ha] at ha2
  simp only [Option.some.injEq] at ha2
  subst ha2
  have hle := (elapsed_refines it' hi).2
  exact ⟨it', ha, hi, he, ht, advance_px it v ha, by rw [← he, ← ht]; exact hle, current_len it v hc⟩

/-- ... and about `skip_mipmaps` -/
theorem skipMips (it : SurfIter) (v : IterInv it) :
    it.skipMipmapsP = some (.error ()) ∨
    ∃ it' n, it.skipMipmapsP = some (.ok (it', n)) ∧ IterInv it' ∧ elapsed it' = elapsed it + n ∧
      total it' = total it ∧ iterPx it' = iterPx it ∧ elapsed it + n ≤ total it := by
  rcases skipMipmaps_refines it v with h | ⟨it', n, h0, hi, he, _, ht, _⟩
  · exact Or.inl h
  · have hle := (elapsed_refines it' hi).2
    exact Or.inr ⟨it', n, h0, hi, he, ht, skipMipmaps_px it v h0, by rw [← he, ← ht]; exact hle⟩

/-- the cursor of an iterator state that is not at the end points at an element of the flattened
surface list whose offset is the elapsed byte count (`C08.tex_current_is_flat` /
`C08.vol_current_is_flat` for either kind of iterator) -/
theorem current_is_flat (it : SurfIter) (v : IterInv it) (h : abs it < count it) :
    ∃ s, (flat it)[abs it]? = some s ∧ s.offset = elapsed it := by
  cases it with
  | tex t =>
    have hi : t.idx < t.len := (TexIter.Inv.abs_lt_iff v).1 h
    obtain ⟨s, h1, h2, _⟩ := tex_current_is_flat t v hi
    exact ⟨s, h1, h2⟩
  | vol t =>
    have hl : t.level < t.volume.mips := by
      cases v.cursor with
      | inl h' => exact h'.1
      | inr h' =>
        exfalso
        have h2 : t.abs < t.N := h
        unfold VolIter.abs VolIter.N at h2
        rw [h'.1, h'.2] at h2; omega
    obtain ⟨s, h1, h2, _⟩ := vol_current_is_flat t v hl
    exact ⟨s, h1, h2⟩

end Dds.Reader
