/-
Lemmas about the BC6H models.
-/
import DdsModel.Bc6
import DdsModel.Bc6Spec
import DdsModel.Proofs.BcTables
import DdsModel.Proofs.Bc7
namespace Dds.Bc6
open Dds.BcTables Dds.Bc6Spec

/-! ### the spec's header layouts partition the header bits -/

def declaredWidth (r : ModeRec) (c e : Nat) : Nat :=
  if e = 0 then r.prec else if e < 2 * r.regions then deltaW r c else 0

def comps : List (Nat × Nat) := (List.range 3).flatMap fun c => (List.range 4).map fun e => (c, e)

/-- for one mode: every endpoint component has a source for exactly its declared low bits; every header bit
position after the mode bits is the source of exactly one component bit; the header has the spec's length -/
def layoutOk (r : ModeRec) : Bool :=
  let total := r.modeBits + layoutBits r.layout
  let srcs := comps.flatMap fun ce => (List.range 16).filterMap fun j => srcPos r.layout r.modeBits ce.1 ce.2 j
  comps.all (fun ce => (List.range 16).all fun j =>
    (srcPos r.layout r.modeBits ce.1 ce.2 j).isSome = decide (j < declaredWidth r ce.1 ce.2)) &&
  (List.range' r.modeBits (total - r.modeBits)).all (fun p => srcs.count p = 1) &&
  srcs.length = total - r.modeBits &&
  total = (if r.regions = 2 then 77 else 65) &&
  -- the delta widths of a non-transformed mode equal the precision
  (r.transformed || (r.delta.1 = r.prec && r.delta.2.1 = r.prec && r.delta.2.2 = r.prec))

theorem layouts_ok : modes.length = 14 ∧ modes.all layoutOk = true := by decide +kernel

/-- mode codes are pairwise distinct as bit prefixes: at most one record matches any 5 low bits; the
unmatched 5-bit codes are exactly the four reserved ones -/
theorem mode_codes :
    (List.range 32).all (fun x => (modes.filter (fun r => x % 2 ^ r.modeBits = r.code)).length ≤ 1) = true ∧
    (List.range 32).filter (fun x => (modes.find? (fun r => x % 2 ^ r.modeBits = r.code)).isNone) = [19, 23, 27, 31] := by
  decide +kernel

/-! ### sign extension: `(x << s) >> s` is the two's complement reading -/

theorem signExtend_eq (w v : Nat) (hw : 1 ≤ w) (hw' : w ≤ 16) (hv : v < 2 ^ w) :
    signExtend (v : Int) w = sext w v := by
  have : w = 1 ∨ w = 2 ∨ w = 3 ∨ w = 4 ∨ w = 5 ∨ w = 6 ∨ w = 7 ∨ w = 8 ∨ w = 9 ∨ w = 10 ∨ w = 11 ∨ w = 12 ∨
      w = 13 ∨ w = 14 ∨ w = 15 ∨ w = 16 := by omega
  rcases this with h | h | h | h | h | h | h | h | h | h | h | h | h | h | h | h <;> subst h <;>
    simp only [signExtend, sar32, shl32, wrap32, sext, Nat.reducePow, Nat.reduceSub, Int.cast_ofNat_Int] at hv ⊢ <;> split <;> omega

/-! ### mode selection, reserved modes -/
/-- the mode depends on the low five bits only -/
theorem extractMode_low5 (b : Nat) : (extractMode b).1 = (extractMode (b % 32)).1 := by
  have e1 : b % 32 % 2 ^ 2 = b % 2 ^ 2 := Nat.mod_mod_of_dvd _ (by decide)
  have e2 : ((b % 32) >>> 2) % 2 ^ 3 = (b >>> 2) % 2 ^ 3 := by
    simp only [Nat.shiftRight_eq_div_pow]; omega
  simp only [extractMode, Bc7.consumeBits_eq _ _ (by decide : 0 < 2) (by decide : 2 ≤ 8),
    Bc7.consumeBits_eq _ _ (by decide : 0 < 3) (by decide : 3 ≤ 8), e1, e2, apply_ite Prod.fst]

theorem mode_table : ∀ x, x < 32 → (extractMode x).1 =
    (match Bc6Spec.modeOf x with
     | none => Mode.invalid
     | some r => if r.code = 0 then .two .M10_555 else if r.code = 1 then .two .M7_666
        else if r.code = 2 then .two .M11_544 else if r.code = 6 then .two .M11_454
        else if r.code = 10 then .two .M11_445 else if r.code = 14 then .two .M9_555
        else if r.code = 18 then .two .M8_655 else if r.code = 22 then .two .M8_565
        else if r.code = 26 then .two .M8_556 else if r.code = 30 then .two .M6_666
        else if r.code = 3 then .one .M10_10 else if r.code = 7 then .one .M11_9
        else if r.code = 11 then .one .M12_8 else .one .M16_4) := by decide +kernel

theorem reserved_zero (signed : Bool) (b : Nat) (h : b % 32 = 19 ∨ b % 32 = 23 ∨ b % 32 = 27 ∨ b % 32 = 31) :
    decodeBlock signed b = List.replicate 16 [0, 0, 0] := by
  have : (extractMode b).1 = Mode.invalid := by
    rw [extractMode_low5]
    rcases h with h | h | h | h <;> rw [h] <;> decide
  simp only [decodeBlock, this]

end Dds.Bc6
