/-
C01, reader ⊑ cursor: whole call sequences on a stream that delivers the data section.
-/
import DdsModel.Proofs.ReaderRefinesOps
namespace Dds.Reader
open Dds Dds.Stream Dds.C08

/-- **The stream delivers the whole data section**: its offsets are `u64`s, every byte of the data
section (which starts at `base`) can be read / seeked over (`Env.lim`: no end of file, no hard error,
no early `Ok(0)` before `base + data length`), and the allocator grants what the budget admits. -/
structure Intact (k : Cfg) (base : Nat) : Prop where
  len : k.env.len < U64
  fits : base + total (SurfIter.new k.layout) ≤ k.env.lim
  grants : C06.AllocatorGrants k.env

/-- **The memory limit in force covers the need of every call** of the list (the limit can be changed
by `setLimit` operations inside the list) -/
def Covered (k : Cfg) : RS → List Op → Prop
  | _, [] => True
  | s, op :: rest => opNeed k s op ≤ s.limit ∧ Covered k (step k s op).1 rest

instance Covered.instDecidable (k : Cfg) : ∀ (s : RS) (ops : List Op), Decidable (Covered k s ops)
  | _, [] => isTrue trivial
  | s, op :: rest =>
    have := Covered.instDecidable k (step k s op).1 rest
    inferInstanceAs (Decidable (opNeed k s op ≤ s.limit ∧ Covered k (step k s op).1 rest))

theorem Covered.take {k : Cfg} : ∀ (ops : List Op) (s : RS) (n : Nat), Covered k s ops →
    Covered k s (ops.take n) := by
  intro ops
  induction ops with
  | nil => intro s n _; simp [Covered]
  | cons op rest ih =>
    intro s n h
    cases n with
    | zero => simp [Covered]
    | succ n => exact ⟨h.1, ih _ n h.2⟩

/-- the reader's result list from the ideal decoder's: `ok` for every change of the memory limit, the
ideal results (in order) for the other calls -/
def weave : List Op → List DecRes → List R
  | [], _ => []
  | op :: ops, rs =>
    match toDecOp op, rs with
    | none, rs => .ok :: weave ops rs
    | some _, r :: rs => ofDecRes r :: weave ops rs
    | some _, [] => []

theorem weave_none {op : Op} {ops : List Op} {rs : List DecRes} (h : toDecOp op = none) :
    weave (op :: ops) rs = .ok :: weave ops rs := weave.eq_2 op ops rs h

theorem weave_some {op : Op} {o : DecOp} {ops : List Op} {r : DecRes} {rs : List DecRes}
    (h : toDecOp op = some o) : weave (op :: ops) (r :: rs) = ofDecRes r :: weave ops rs :=
  weave.eq_3 op ops r rs o h

theorem run_cons (d : Dec) (o : DecOp) (l : List DecOp) :
    C08.run d (o :: l) = ((C08.run (d.step o).1 l).1, (d.step o).2.1 :: (C08.run (d.step o).1 l).2) := by
  simp only [C08.run]

theorem ideal_cons (d : Dec) (op : Op) (rest : List Op) :
    (C08.run d ((op :: rest).filterMap toDecOp)).1 =
      (C08.run (idealStep d op).1 (rest.filterMap toDecOp)).1 ∧
    weave (op :: rest) (C08.run d ((op :: rest).filterMap toDecOp)).2 =
      ofDecRes (idealStep d op).2 :: weave rest (C08.run (idealStep d op).1 (rest.filterMap toDecOp)).2 := by
  cases h : toDecOp op with
  | none =>
    rw [List.filterMap_cons_none h]
    have hi : idealStep d op = (d, .ok) := by unfold idealStep; rw [h]
    rw [hi]
    exact ⟨rfl, weave_none h⟩
  | some o =>
    rw [List.filterMap_cons_some h]
    have hi : idealStep d op = ((d.step o).1, (d.step o).2.1) := by unfold idealStep; rw [h]
    rw [hi, run_cons]
    exact ⟨rfl, weave_some h⟩

theorem ofDecRes_eq_panic {q : DecRes} : ofDecRes q = .panic ↔ q = .panic := by
  cases q <;> simp [ofDecRes]

/-- the ideal decoder keeps C08's invariant and does not panic, for the ideal image of every reader
operation -/
theorem idealStep_inv (d : Dec) (v : DecInv d) (op : Op) :
    DecInv (idealStep d op).1 ∧ (idealStep d op).2 ≠ .panic := by
  unfold idealStep
  cases toDecOp op with
  | none => exact ⟨v, by simp⟩
  | some o => exact C08.step_inv d v o

/-- a fresh decoder and a reader at the first data byte are related -/
theorem Sim.new {k : Cfg} {base : Nat} (limit : Nat) (hi : IterInv (SurfIter.new k.layout))
    (hu : base + total (SurfIter.new k.layout) < U64) :
    Sim k base ⟨SurfIter.new k.layout, base, limit⟩ (Dec.new k.layout) where
  iter := rfl
  pos := by show (base : Int) = base + 0; omega
  layout := rfl
  px := iterPx_new k.layout
  inv := hi
  cpos := by show (0 : Int) = (elapsed (SurfIter.new k.layout) : Int); rw [elapsed_new]; rfl
  u64 := hu

/-- the relation of the task statement (`s.iter = d.iter`, `s.pos = base + d.pos`) for an ideal state
satisfying C08's invariant gives `Sim`, once the static facts are known: the decoder belongs to the
layout of `k`, its iterator computes lengths with the layout's `PixelInfo` (true of a fresh iterator,
kept by every operation), and `base + data length` is a `u64` offset -/
theorem Sim.ofDecInv {k : Cfg} {base : Nat} {s : RS} {d : Dec} (hiter : s.iter = d.iter)
    (hpos : (s.pos : Int) = base + d.pos) (hlay : d.layout = k.layout) (hpx : iterPx d.iter = k.layout.px)
    (hinv : DecInv d) (hu : base + total d.iter < U64) : Sim k base s d :=
  ⟨hiter, hpos, hlay, hpx, hinv.iter, hinv.pos, hu⟩

/-- **One call on an intact stream with a sufficient limit**: same result as the ideal decoder, states
related again, no I/O error, no memory-limit error, no panic. -/
theorem step_intact {k : Cfg} (hk : k.Agrees) {base : Nat} (hin : Intact k base) {s : RS} {d : Dec}
    (h : Sim k base s d) (hinv : DecInv d) (op : Op) (hcov : opNeed k s op ≤ s.limit) :
    (step k s op).2 = ofDecRes (idealStep d op).2 ∧ Sim k base (step k s op).1 (idealStep d op).1 ∧
    (step k s op).2 ≠ .io ∧ (step k s op).2 ≠ .memoryLimitExceeded ∧ (step k s op).2 ≠ .panic := by
  obtain ⟨hinv', hnp⟩ := idealStep_inv d hinv op
  have hfit := hin.fits
  have hsmall := hinv.small
  have hpos := h.pos
  have hcpos := h.cpos
  have hel := (elapsed_refines d.iter h.inv).2
  have htot : total (SurfIter.new k.layout) = total d.iter := by rw [← h.layout]; exact hinv.total_eq
  have hll := lim_le_len k.env
  -- forward calls
  have fwd : op.inC01 = true → (∀ l, op ≠ .setLimit l) →
      (step k s op).2 = ofDecRes (idealStep d op).2 ∧ Sim k base (step k s op).1 (idealStep d op).1 ∧
      (step k s op).2 ≠ .io ∧ (step k s op).2 ≠ .memoryLimitExceeded := by
    intro hop hset
    have H := step_sim hk h op hop hset
    have hcpos' := hinv'.pos
    have hel' := (elapsed_refines _ hinv'.iter).2
    have htot' := H.st.tot
    have hio : (step k s op).2 ≠ .io := by
      intro hio
      rcases H.io hio hin.len with h' | h' <;> omega
    have hmem : (step k s op).2 ≠ .memoryLimitExceeded := by
      intro hm
      rcases H.mem hm with h' | h' | h'
      · omega
      · exact h' hin.grants
      · have := h'.2.2; omega
    obtain ⟨h1, h2⟩ := H.sim hio hmem
    exact ⟨h1, h2, hio, hmem⟩
  have back : ∀ {a : RS × R} {b : Dec × DecRes}, BackOK k base s d a b →
      a.2 = ofDecRes b.2 ∧ Sim k base a.1 b.1 ∧ a.2 ≠ .io ∧ a.2 ≠ .memoryLimitExceeded := by
    intro a b B
    have hio : a.2 ≠ .io := by
      intro hio
      have := B.io hio
      omega
    obtain ⟨h1, h2⟩ := B.sim hio
    exact ⟨h1, h2, hio, B.mem⟩
  have hback : k.env.clampSeek = true → s.pos ≤ k.env.len := by intro _; omega
  have fin : (step k s op).2 = ofDecRes (idealStep d op).2 ∧ Sim k base (step k s op).1 (idealStep d op).1 ∧
      (step k s op).2 ≠ .io ∧ (step k s op).2 ≠ .memoryLimitExceeded := by
    cases op with
    | read w hh c => exact fwd rfl (by intro l hl; cases hl)
    | rect ox oy w hh c => exact fwd rfl (by intro l hl; cases hl)
    | skipSurface => exact fwd rfl (by intro l hl; cases hl)
    | skipMipmaps => exact fwd rfl (by intro l hl; cases hl)
    | cube w hh c => exact fwd rfl (by intro l hl; cases hl)
    | setLimit l =>
      exact ⟨rfl, ⟨h.iter, h.pos, h.layout, h.px, h.inv, h.cpos, h.u64⟩, by simp [step], by simp [step]⟩
    | rewindPrev => exact back (rewindPrev_sim h hinv hback)
    | rewindStart => exact back (rewindStart_sim h hinv hback)
  obtain ⟨h1, h2, h3, h4⟩ := fin
  refine ⟨h1, h2, h3, h4, ?_⟩
  rw [h1]
  intro hp
  exact hnp (ofDecRes_eq_panic.1 hp)

/-- **Whole call sequences**: on an intact stream with a sufficient limit the reader model and C08's
ideal decoder give the same results and stay related. -/
theorem runOps_sim {k : Cfg} (hk : k.Agrees) {base : Nat} (hin : Intact k base) :
    ∀ (ops : List Op) (s : RS) (d : Dec), Sim k base s d → DecInv d → Covered k s ops →
      (runOps k s ops).2 = weave ops (C08.run d (ops.filterMap toDecOp)).2 ∧
      Sim k base (runOps k s ops).1 (C08.run d (ops.filterMap toDecOp)).1 ∧
      DecInv (C08.run d (ops.filterMap toDecOp)).1 ∧
      ∀ r ∈ (runOps k s ops).2, r ≠ .io ∧ r ≠ .memoryLimitExceeded ∧ r ≠ .panic := by
  intro ops
  induction ops with
  | nil => intro s d h v _; exact ⟨rfl, h, v, by simp [runOps]⟩
  | cons op rest ih =>
    intro s d h v hc
    obtain ⟨h1, h2, h3, h4, h5⟩ := step_intact hk hin h v op hc.1
    obtain ⟨v', _⟩ := idealStep_inv d v op
    obtain ⟨i1, i2, i3, i4⟩ := ih _ _ h2 v' hc.2
    obtain ⟨c1, c2⟩ := ideal_cons d op rest
    simp only [runOps]
    rw [c1, c2, h1, i1]
    refine ⟨rfl, i2, i3, ?_⟩
    intro r hr
    simp only [List.mem_cons] at hr
    rcases hr with hr | hr
    · rw [hr, ← h1]; exact ⟨h3, h4, h5⟩
    · rw [← i1] at hr; exact i4 r hr

/-! ### a fresh iterator walks C02's flattened surface list -/

theorem total_new (L : DataLayout) (harr : ∀ a, L = .textureArray a → a.arrayLen < U32) :
    total (SurfIter.new L) = C02.specTotal L := by
  cases L with
  | texture t => show 1 * texIdeal t.px t.w t.h 0 t.mips = _; simp [C02.specTotal]
  | volume v => rfl
  | textureArray a =>
    show (a.arrayLen % U32) * texIdeal a.px a.w a.h 0 a.mips = _
    rw [Nat.mod_eq_of_lt (harr a rfl)]; rfl

theorem flat_new (L : DataLayout) (harr : ∀ a, L = .textureArray a → a.arrayLen < U32) :
    flat (SurfIter.new L) = C02.specFlatten L := by
  cases L with
  | texture t =>
    show specArray t.px t.w t.h t.mips 1 = specMips t.px t.w t.h 0 t.mips 0
    simp [specArray, List.range_succ]
  | volume v => rfl
  | textureArray a =>
    show specArray a.px a.w a.h a.mips (a.arrayLen % U32) = _
    rw [Nat.mod_eq_of_lt (harr a rfl)]; rfl

/-! ### the three clauses of `C01.reader_refines_cursor` -/

/-- the clauses as one proposition about a reader outcome `a` and an ideal outcome `b` -/
def Clauses (k : Cfg) (base : Nat) (s : RS) (d : Dec) (N : Nat) (a : RS × R) (b : Dec × DecRes) : Prop :=
  (a.2 ≠ .io → a.2 ≠ .memoryLimitExceeded → a.2 = ofDecRes b.2 ∧ Sim k base a.1 b.1) ∧
  (a.2 = .io → k.env.len < U64 →
    (k.env.lim : Int) < base + max d.pos b.1.pos ∨ (I64MAX : Int) < b.1.pos - d.pos) ∧
  (a.2 = .memoryLimitExceeded →
    s.limit < N ∨ ¬ C06.AllocatorGrants k.env ∨
    (b.2 = .memoryLimitExceeded ∧ Sim k base a.1 b.1 ∧ I64MAX < total d.iter))

theorem StepOK.clauses {k : Cfg} {base : Nat} {s : RS} {d : Dec} {N : Nat} {a : RS × R} {b : Dec × DecRes}
    (H : StepOK k base s d N a b) : Clauses k base s d N a b :=
  ⟨H.sim, fun hio hl => (H.io hio hl).imp (fun h' => by have := H.st.mono; omega) id, H.mem⟩

theorem BackOK.clauses {k : Cfg} {base : Nat} {s : RS} {d : Dec} {N : Nat} {a : RS × R} {b : Dec × DecRes}
    (h : Sim k base s d) (B : BackOK k base s d a b) : Clauses k base s d N a b :=
  ⟨fun hio _ => B.sim hio, fun hio _ => Or.inl (by have := B.io hio; have := h.pos; omega),
    fun hm => absurd hm B.mem⟩

end Dds.Reader
