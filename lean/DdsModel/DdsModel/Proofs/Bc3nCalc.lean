/-
BC3n `calc_b`: the per-channel part of the computation (`x·x` with `x = r·(2/255) − 1`, and `1 − x·x`) is
tabulated for the 256 channel values (tables checked by kernel evaluation of the integer float operations
of `Proofs/F32Fast.lean`, which are proved equal to the model's for all arguments); what remains per pair
`(r, g)` is `tailF t yy = toU8 (sqrt (max0 (t − yy)) · 127.5 + 128)`, evaluated with the kernel-friendly operations
of `Proofs/F32Raw.lean` (also proved equal to the model's for all arguments).
-/
import DdsModel.Proofs.F32Raw
import DdsModel.BcSpec
namespace Dds.Bc3n
open Dds Dds.F32
open Dds.F32.Fast (force force_eq)

/-- `2.0 / 255.0` -/
def kLit : Nat := 0x3C008081
/-- `1.0` -/
def oneLit : Nat := 0x3F800000
/-- `0.5 * 255.0` -/
def c127h : Nat := 0x42FF0000
/-- `0.5 * 255.0 + 0.5` -/
def c128 : Nat := 0x43000000

theorem consts : F32.divLit 2 255 = kLit ∧ F32.ofNat 1 = oneLit ∧ F32.divLit 255 2 = c127h ∧ F32.ofNat 128 = c128 := by
  decide +kernel

/-- `x * x` for the channel value `r` -/
def xxF (r : Nat) : Nat :=
  let x := Fast.sub (Fast.mul (roundF32Q r 1) kLit) oneLit
  Fast.mul x x
/-- `1.0 - x * x` -/
def tF (r : Nat) : Nat := Fast.sub oneLit (xxF r)
/-- the part of `calc_b` that depends on both channels -/
def tailF (t yy : Nat) : Nat :=
  force (Raw.subMax t yy) fun w => force (Raw.sqrt w) fun z => force (Raw.mul z c127h) fun p =>
    force (Raw.add p c128) fun q => Raw.toU8 q

/-- `calc_b`, operation by operation as in `Bc.calcB`, on the integer float operations -/
theorem calcB_eq (r g : Nat) : Bc.calcB r g = tailF (tF r) (xxF g) := by
  unfold Bc.calcB tailF tF xxF
  simp only [force_eq, consts.1, consts.2.1, consts.2.2.1, consts.2.2.2, Raw.toU8_eq, Raw.add_eq, Raw.mul_eq, Raw.sqrt_eq,
    Raw.subMax_eq, Fast.mul_eq, Fast.sub_eq, Fast.ofNat_eq]

def xxTab : List Nat :=
  [1065353216, 1065091076, 1064831000, 1064572988, 1064317041, 1064063157, 1063811338, 1063561582,
   1063313891, 1063068264, 1062824701, 1062583202, 1062343767, 1062106396, 1061871089, 1061637847,
   1061406668, 1061177554, 1060950503, 1060725517, 1060502595, 1060281737, 1060062943, 1059846213,
   1059631547, 1059418945, 1059208408, 1058999934, 1058793525, 1058589180, 1058386898, 1058186681,
   1057988528, 1057792439, 1057598414, 1057406454, 1057216557, 1057028724, 1056721304, 1056353895,
   1055990614, 1055631462, 1055276438, 1054925542, 1054578774, 1054236134, 1053897623, 1053563240,
   1053232982, 1052906855, 1052584857, 1052266986, 1051953244, 1051643630, 1051338144, 1051036786,
   1050739557, 1050446455, 1050157482, 1049872637, 1049591920, 1049315332, 1049042871, 1048774539,
   1048444670, 1047924518, 1047412623, 1046908984, 1046413602, 1045926475, 1045447606, 1044976992,
   1044514635, 1044060534, 1043614690, 1043177102, 1042747771, 1042326695, 1041913877, 1041509314,
   1041113008, 1040724958, 1040345165, 1039759865, 1039033303, 1038323255, 1037629720, 1036952697,
   1036292187, 1035648189, 1035020705, 1034409733, 1033815274, 1033237328, 1032675894, 1032130973,
   1031406338, 1030382548, 1029391783, 1028434044, 1027509330, 1026617641, 1025758979, 1024933341,
   1024140729, 1023352110, 1021898988, 1020511918, 1019190898, 1017935929, 1016747012, 1015624145,
   1014113091, 1012131562, 1010282135, 1008564809, 1006979586, 1004419970, 1001777932, 999400098,
   996328583, 992629730, 989062828, 983778755, 977635861, 969511433, 957423953, 931201152,
   931201666, 957424146, 969511594, 977635974, 983778827, 989062916, 992629782, 996328643,
   999400132, 1001777970, 1004420012, 1006979609, 1008564835, 1010282162, 1012131591, 1014113122,
   1015624162, 1016747029, 1017935948, 1019190918, 1020511938, 1021899010, 1023352133, 1024140741,
   1024933354, 1025758991, 1026617655, 1027509344, 1028434058, 1029391798, 1030382563, 1031406354,
   1032130977, 1032675898, 1033237332, 1033815278, 1034409737, 1035020709, 1035648194, 1036292192,
   1036952702, 1037629725, 1038323260, 1039033309, 1039759870, 1040345168, 1040724961, 1041113011,
   1041509317, 1041913880, 1042326699, 1042747774, 1043177105, 1043614693, 1044060538, 1044514639,
   1044976996, 1045447609, 1045926479, 1046413605, 1046908988, 1047412627, 1047924522, 1048444674,
   1048774545, 1049042877, 1049315338, 1049591927, 1049872643, 1050157489, 1050446462, 1050739563,
   1051036793, 1051338151, 1051643637, 1051953251, 1052266993, 1052584864, 1052906863, 1053232990,
   1053563245, 1053897628, 1054236140, 1054578779, 1054925547, 1055276443, 1055631467, 1055990620,
   1056353901, 1056721309, 1057028727, 1057216560, 1057406456, 1057598417, 1057792442, 1057988531,
   1058186684, 1058386901, 1058589183, 1058793528, 1058999937, 1059208411, 1059418949, 1059631550,
   1059846216, 1060062946, 1060281740, 1060502598, 1060725520, 1060950507, 1061177557, 1061406672,
   1061637850, 1061871093, 1062106400, 1062343770, 1062583205, 1062824704, 1063068268, 1063313895,
   1063561586, 1063811342, 1064063161, 1064317045, 1064572992, 1064831004, 1065091080, 1065353216]

def tTab : List Nat :=
  [0, 1015021312, 1023343872, 1027505216, 1031600368, 1033730648, 1035745200, 1037743248,
   1039724776, 1040938592, 1041912844, 1042878840, 1043836580, 1044786064, 1045727292, 1046660260,
   1047584976, 1048501432, 1048992818, 1049442790, 1049888634, 1050330350, 1050767938, 1051201398,
   1051630730, 1052055934, 1052477008, 1052893956, 1053306774, 1053715464, 1054120028, 1054520462,
   1054916768, 1055308946, 1055696996, 1056080916, 1056460710, 1056836376, 1057086260, 1057269964,
   1057451605, 1057631181, 1057808693, 1057984141, 1058157525, 1058328845, 1058498100, 1058665292,
   1058830421, 1058993484, 1059154484, 1059313419, 1059470290, 1059625097, 1059777840, 1059928519,
   1060077134, 1060223684, 1060368171, 1060510594, 1060650952, 1060789246, 1060925476, 1061059642,
   1061191744, 1061321782, 1061449756, 1061575666, 1061699512, 1061821293, 1061941010, 1062058664,
   1062174253, 1062287778, 1062399240, 1062508636, 1062615969, 1062721238, 1062824443, 1062925584,
   1063024660, 1063121672, 1063216621, 1063309505, 1063400325, 1063489081, 1063575773, 1063660401,
   1063742965, 1063823464, 1063901900, 1063978271, 1064052579, 1064124822, 1064195001, 1064263116,
   1064329168, 1064393155, 1064455078, 1064514936, 1064572731, 1064628461, 1064682128, 1064733730,
   1064783268, 1064830743, 1064876153, 1064919499, 1064960780, 1064999998, 1065037152, 1065072241,
   1065105267, 1065136228, 1065165126, 1065191959, 1065216728, 1065239433, 1065260074, 1065278651,
   1065295163, 1065309612, 1065321997, 1065332317, 1065340573, 1065346766, 1065350894, 1065352958,
   1065352958, 1065350894, 1065346766, 1065340573, 1065332317, 1065321996, 1065309612, 1065295163,
   1065278650, 1065260074, 1065239433, 1065216728, 1065191958, 1065165125, 1065136228, 1065105266,
   1065072241, 1065037151, 1064999998, 1064960780, 1064919498, 1064876152, 1064830742, 1064783268,
   1064733729, 1064682127, 1064628461, 1064572730, 1064514935, 1064455077, 1064393154, 1064329167,
   1064263116, 1064195001, 1064124822, 1064052578, 1063978271, 1063901899, 1063823464, 1063742964,
   1063660400, 1063575772, 1063489080, 1063400324, 1063309504, 1063216620, 1063121672, 1063024659,
   1062925583, 1062824442, 1062721237, 1062615968, 1062508636, 1062399239, 1062287778, 1062174252,
   1062058663, 1061941010, 1061821292, 1061699511, 1061575665, 1061449755, 1061321782, 1061191744,
   1061059640, 1060925474, 1060789243, 1060650948, 1060510590, 1060368168, 1060223681, 1060077130,
   1059928516, 1059777836, 1059625094, 1059470286, 1059313416, 1059154480, 1058993480, 1058830417,
   1058665290, 1058498098, 1058328842, 1058157522, 1057984138, 1057808690, 1057631178, 1057451602,
   1057269962, 1057086258, 1056836370, 1056460704, 1056080912, 1055696990, 1055308940, 1054916762,
   1054520456, 1054120022, 1053715458, 1053306768, 1052893950, 1052477002, 1052055926, 1051630724,
   1051201392, 1050767932, 1050330344, 1049888628, 1049442784, 1048992810, 1048501420, 1047584960,
   1046660248, 1045727276, 1044786048, 1043836568, 1042878828, 1041912832, 1040938576, 1039724744,
   1037743216, 1035745168, 1033730616, 1031600304, 1027505152, 1023343744, 1015021056, 0]

theorem xxTab_ok : (List.range 256).map xxF = xxTab := by decide +kernel
theorem tTab_ok : xxTab.map (Fast.sub oneLit) = tTab := by decide +kernel

theorem tabs_ok (r : Nat) (hr : r < 256) : xxF r = xxTab.getD r 0 ∧ tF r = tTab.getD r 0 := by
  have h1 : xxTab.getD r 0 = xxF r := by
    rw [← xxTab_ok, List.getD_eq_getElem?_getD, List.getElem?_map, List.getElem?_range hr]
    rfl
  have h2 : tTab.getD r 0 = tF r := by
    rw [← tTab_ok, ← xxTab_ok, List.map_map, List.getD_eq_getElem?_getD, List.getElem?_map, List.getElem?_range hr]
    rfl
  exact ⟨h1.symm, h2.symm⟩

/-! ### the specification side without a square root -/

theorem isqrtBits_spec (n : Nat) : ∀ (b acc : Nat), acc * acc ≤ n → n < (acc + 2 ^ b) * (acc + 2 ^ b) →
    BcSpec.isqrtBits n b acc * BcSpec.isqrtBits n b acc ≤ n ∧
      n < (BcSpec.isqrtBits n b acc + 1) * (BcSpec.isqrtBits n b acc + 1)
  | 0, acc, h1, h2 => by simpa [BcSpec.isqrtBits] using ⟨h1, h2⟩
  | b + 1, acc, h1, h2 => by
    unfold BcSpec.isqrtBits
    split
    · rename_i h
      refine isqrtBits_spec n b (acc + 2 ^ b) h ?_
      have : acc + 2 ^ b + 2 ^ b = acc + 2 ^ (b + 1) := by rw [Nat.pow_succ]; omega
      rw [this]; exact h2
    · rename_i h
      exact isqrtBits_spec n b acc h1 (by omega)

/-- `|2v − 255|` -/
def odd255 (v : Nat) : Nat := force (Nat.mul 2 v) fun v2 => cond (Nat.ble 255 v2) (Nat.sub v2 255) (Nat.sub 255 v2)

theorem odd255_sq (v : Nat) : (2 * (v : Int) - 255) * (2 * (v : Int) - 255) = ((odd255 v * odd255 v : Nat) : Int) := by
  unfold odd255
  rw [force_eq, Raw.cond_ble]
  show _ = (((if 255 ≤ 2 * v then 2 * v - 255 else 255 - 2 * v) * (if 255 ≤ 2 * v then 2 * v - 255 else 255 - 2 * v) : Nat) : Int)
  split
  · have : (2 * (v : Int) - 255) = ((2 * v - 255 : Nat) : Int) := by omega
    rw [this, Int.natCast_mul]
  · have : (2 * (v : Int) - 255) = -((255 - 2 * v : Nat) : Int) := by omega
    rw [this, Int.neg_mul_neg, Int.natCast_mul]

/-- `65025 − (2r − 255)²`, the part of `D` that depends on `r` only -/
def crOf (r : Nat) : Nat := force (odd255 r) fun a => Nat.sub 65025 (Nat.mul a a)

theorem zD_eq (r g : Nat) : BcSpec.zD r g = crOf r - odd255 g * odd255 g := by
  unfold BcSpec.zD crOf
  rw [force_eq, odd255_sq, odd255_sq]
  show _ = 65025 - odd255 r * odd255 r - odd255 g * odd255 g
  generalize odd255 r * odd255 r = A
  generalize odd255 g * odd255 g = B
  omega

/-- `B = z8 r g` tested without a root: `256 ≤ 2B`, `(2B − 256)² ≤ D < (2B − 254)²`, `D = cr − (2g − 255)²` -/
def zOK (cr g B : Nat) : Bool :=
  force (odd255 g) fun b => force (Nat.sub cr (Nat.mul b b)) fun D => force (Nat.mul 2 B) fun B2 =>
    Nat.ble 256 B2 && (force (Nat.sub B2 256) fun lo => Nat.ble (Nat.mul lo lo) D) &&
      (force (Nat.sub B2 254) fun hi => Nat.blt D (Nat.mul hi hi))

theorem zOK_sound (r g B : Nat) (h : zOK (crOf r) g B = true) : B = BcSpec.z8 r g := by
  unfold zOK at h
  simp only [force_eq, Bool.and_eq_true, Nat.ble_eq, Nat.blt_eq] at h
  obtain ⟨⟨h1, h2⟩, h3⟩ := h
  replace h1 : 256 ≤ 2 * B := h1
  replace h2 : (2 * B - 256) * (2 * B - 256) ≤ crOf r - odd255 g * odd255 g := h2
  replace h3 : crOf r - odd255 g * odd255 g < (2 * B - 254) * (2 * B - 254) := h3
  rw [← zD_eq] at h2 h3
  unfold BcSpec.z8
  have hD : BcSpec.zD r g < 65536 := by
    rw [zD_eq]; unfold crOf; rw [force_eq]
    show 65025 - odd255 r * odd255 r - odd255 g * odd255 g < 65536
    omega
  have hs := isqrtBits_spec (BcSpec.zD r g) 8 0 (Nat.zero_le _) (by simpa using hD)
  generalize BcSpec.isqrtBits (BcSpec.zD r g) 8 0 = s at hs
  generalize BcSpec.zD r g = D at *
  have a1 : 2 * B - 256 < s + 1 := Nat.mul_self_lt_mul_self_iff.mp (Nat.lt_of_le_of_lt h2 hs.2)
  have a2 : s < 2 * B - 254 := Nat.mul_self_lt_mul_self_iff.mp (Nat.lt_of_le_of_lt hs.1 h3)
  omega

/-- one row, walking the table of `y·y` (a lookup by index in a 256-element literal is slow in the kernel) -/
def rowGo (t cr : Nat) : List Nat → Nat → Bool
  | [], _ => true
  | yy :: l, g => force g fun g => zOK cr g (tailF t yy) && rowGo t cr l (Nat.succ g)

theorem rowGo_sound (t r : Nat) : ∀ (l : List Nat) (g0 : Nat), rowGo t (crOf r) l g0 = true →
    ∀ i, i < l.length → tailF t (l.getD i 0) = BcSpec.z8 r (g0 + i)
  | [], _, _, i, hi => by simp at hi
  | yy :: l, g0, h, i, hi => by
    simp only [rowGo, force_eq, Bool.and_eq_true] at h
    cases i with
    | zero => simpa using zOK_sound r g0 _ h.1
    | succ j =>
      have := rowGo_sound t r l (g0 + 1) h.2 j (by simpa using hi)
      rw [show g0 + (j + 1) = g0 + 1 + j by omega]
      simpa using this

/-- one row: all 256 values of `g` for a fixed `r` -/
def rowChk (r : Nat) : Bool := force (tTab.getD r 0) fun t => force (crOf r) fun cr => rowGo t cr xxTab 0

def rowsChk (lo n : Nat) : Bool := (List.range' lo n).all rowChk

theorem xxTab_length : xxTab.length = 256 := by decide +kernel

theorem of_rows (lo n : Nat) (h : rowsChk lo n = true) (r g : Nat) (h1 : lo ≤ r) (h2 : r < lo + n) (hr : r < 256)
    (hg : g < 256) : Bc.calcB r g = BcSpec.z8 r g := by
  unfold rowsChk at h
  rw [List.all_eq_true] at h
  have h' := h r (List.mem_range'_1.mpr ⟨h1, h2⟩)
  unfold rowChk at h'
  rw [force_eq, force_eq] at h'
  have := rowGo_sound _ r xxTab 0 h' g (by rw [xxTab_length]; exact hg)
  rw [Nat.zero_add] at this
  rw [calcB_eq, (tabs_ok r hr).2, (tabs_ok g hg).1]
  exact this

end Dds.Bc3n
