/-
C13 / BC7 writer, part 1: `BitStream` writes on disjoint fields are a sum (`fv`), and the DECODER's sequential reads
(`Bc7.consumeBits`, `consumeBit`, `consumeN`, `consumeBitsEach`, `consumeBits64`, `extractMode`) on such a sum return
the fields one by one — reading is the inverse of writing, field by field, with no position arithmetic.
-/
import DdsModel.Enc7
import DdsModel.Proofs.Bc7GlueCommon
namespace Dds.Enc7
open Dds Dds.BcTables

/-- value of a field list, first field lowest: `v₀ + 2^n₀ · (v₁ + 2^n₁ · (…))` -/
def fv : List (Nat × Nat) → Nat
  | [] => 0
  | f :: fs => f.1 + 2 ^ f.2 * fv fs

def width : List (Nat × Nat) → Nat
  | [] => 0
  | f :: fs => f.2 + width fs

/-- every value fits its width (the `debug_assert!(value < (1 << bits))` of `write_u64`) and `bits < 64` -/
def FieldsOK (fs : List (Nat × Nat)) : Prop := ∀ f ∈ fs, f.1 < 2 ^ f.2 ∧ f.2 < 64

theorem fieldsOK_nil : FieldsOK [] := by intro f hf; cases hf
theorem fieldsOK_cons {f : Nat × Nat} {fs : List (Nat × Nat)} :
    FieldsOK (f :: fs) ↔ (f.1 < 2 ^ f.2 ∧ f.2 < 64) ∧ FieldsOK fs := by
  simp [FieldsOK]
theorem fieldsOK_append {a b : List (Nat × Nat)} : FieldsOK (a ++ b) ↔ FieldsOK a ∧ FieldsOK b := by
  simp only [FieldsOK, List.mem_append]
  constructor
  · intro h; exact ⟨fun f hf => h f (Or.inl hf), fun f hf => h f (Or.inr hf)⟩
  · intro h f hf; rcases hf with hf | hf
    · exact h.1 f hf
    · exact h.2 f hf

theorem fv_cons (v n : Nat) (fs : List (Nat × Nat)) : fv ((v, n) :: fs) = v + 2 ^ n * fv fs := rfl
theorem fv_nil : fv [] = 0 := rfl
theorem width_append (a b : List (Nat × Nat)) : width (a ++ b) = width a + width b := by
  induction a with
  | nil => simp [width]
  | cons f fs ih => simp only [List.cons_append, width, ih]; omega

theorem fv_lt (fs : List (Nat × Nat)) (h : FieldsOK fs) : fv fs < 2 ^ width fs := by
  induction fs with
  | nil => simp [fv, width]
  | cons f fs ih =>
    obtain ⟨⟨h1, _⟩, h2⟩ := fieldsOK_cons.mp h
    have ih := ih h2
    simp only [fv, width, Nat.pow_add]
    have : 2 ^ f.2 * fv fs + 2 ^ f.2 ≤ 2 ^ f.2 * 2 ^ width fs := by
      rw [← Nat.mul_succ]; exact Nat.mul_le_mul_left _ ih
    omega

theorem or_shl_eq_add (x v k : Nat) (h : x < 2 ^ k) : x ||| v <<< k = x + v * 2 ^ k := by
  rw [Nat.or_comm, ← Nat.shiftLeft_add_eq_or_of_lt h, Nat.shiftLeft_eq, Nat.add_comm]

theorem U128_eq : U128 = 2 ^ 128 := by decide

/-- the straight-line `write_u64` sequence from any consistent state -/
theorem foldl_write (fs : List (Nat × Nat)) (d b : Nat) (hd : d < 2 ^ b) (h : FieldsOK fs) (hw : b + width fs ≤ 128) :
    fs.foldl (fun st f => writeU64 st f.1 f.2) (d, b) = (d + 2 ^ b * fv fs, b + width fs) := by
  induction fs generalizing d b with
  | nil => simp [fv, width]
  | cons f fs ih =>
    obtain ⟨⟨h1, h64⟩, h2⟩ := fieldsOK_cons.mp h
    simp only [width] at hw
    have hv : f.1 % U64 = f.1 := by
      apply Nat.mod_eq_of_lt
      exact Nat.lt_of_lt_of_le h1 (by rw [Bc7.U64_eq]; exact Nat.pow_le_pow_right (by decide) (by omega))
    have hsh : f.1 <<< b < U128 := by
      rw [Nat.shiftLeft_eq, U128_eq]
      calc f.1 * 2 ^ b < 2 ^ f.2 * 2 ^ b := Nat.mul_lt_mul_of_pos_right h1 (Nat.two_pow_pos b)
        _ = 2 ^ (f.2 + b) := (Nat.pow_add 2 f.2 b).symm
        _ ≤ 2 ^ 128 := Nat.pow_le_pow_right (by decide) (by omega)
    have hb : (b + f.2) % U8 = b + f.2 := Nat.mod_eq_of_lt (by unfold U8; omega)
    have hd' : d + f.1 * 2 ^ b < 2 ^ (b + f.2) := by
      rw [Nat.pow_add]
      have : f.1 * 2 ^ b + 2 ^ b ≤ 2 ^ f.2 * 2 ^ b := by
        rw [← Nat.succ_mul]; exact Nat.mul_le_mul_right _ h1
      rw [Nat.mul_comm (2 ^ b)]; omega
    have hstep : writeU64 (d, b) f.1 f.2 = (d + f.1 * 2 ^ b, b + f.2) := by
      simp only [writeU64, hv, Nat.mod_eq_of_lt hsh, hb, or_shl_eq_add d f.1 b hd]
    rw [List.foldl_cons, hstep, ih _ _ hd' h2 (by omega)]
    simp only [fv, width, Nat.pow_add, Nat.mul_add, Nat.mul_assoc, Nat.add_assoc, Nat.mul_comm f.1]

/-- `finish(write … write(new()))` is the sum of the fields -/
theorem finish_writeAll (fs : List (Nat × Nat)) (h : FieldsOK fs) (hw : width fs ≤ 128) :
    finish (writeAll fs) = fv fs := by
  unfold finish writeAll
  rw [foldl_write fs 0 0 (by decide) h (by omega)]
  simp

/-! ### the decoder's reads on a sum of fields -/

theorem split_mod (v n rest : Nat) (hv : v < 2 ^ n) : (v + 2 ^ n * rest) % 2 ^ n = v := by
  rw [Nat.add_mul_mod_self_left, Nat.mod_eq_of_lt hv]
theorem split_shr (v n rest : Nat) (hv : v < 2 ^ n) : (v + 2 ^ n * rest) >>> n = rest := by
  rw [Nat.shiftRight_eq_div_pow, Nat.add_mul_div_left _ _ (Nat.two_pow_pos n), Nat.div_eq_of_lt hv, Nat.zero_add]

theorem consumeBits_fv (n v : Nat) (fs : List (Nat × Nat)) (h0 : 0 < n) (h8 : n ≤ 8) (hv : v < 2 ^ n) :
    Bc7.consumeBits n (fv ((v, n) :: fs)) = (v, fv fs) := by
  rw [Bc7.consumeBits_eq n _ h0 h8, fv_cons, split_mod v n _ hv, split_shr v n _ hv]

theorem consumeBit_fv (v : Nat) (fs : List (Nat × Nat)) (hv : v < 2) :
    Bc7.consumeBit (fv ((v, 1) :: fs)) = (v, fv fs) := by
  have h := Bc7.consumeBit_at (fv ((v, 1) :: fs)) 0
  simp only [Nat.shiftRight_zero, Nat.zero_add] at h
  rw [h, Bc7.rd_eq_shift, Nat.shiftRight_zero, fv_cons, split_mod v 1 _ (by omega), split_shr v 1 _ (by omega)]

/-- `k` fields of `c` bits: `[0_u8; k].map(|_| stream.consume_bits(c))` returns them in order -/
theorem consumeN_fv (vals : List Nat) (c : Nat) (rest : List (Nat × Nat)) (h0 : 0 < c) (h8 : c ≤ 8)
    (h : ∀ v ∈ vals, v < 2 ^ c) :
    Bc7.consumeN vals.length c (fv (vals.map (fun v => (v, c)) ++ rest)) = (vals, fv rest) := by
  induction vals with
  | nil => simp [Bc7.consumeN]
  | cons v vs ih =>
    simp only [List.length_cons, Bc7.consumeN, List.map_cons, List.cons_append]
    rw [consumeBits_fv c v _ h0 h8 (h v (List.mem_cons_self ..))]
    simp only []
    rw [ih (fun w hw => h w (List.mem_cons_of_mem _ hw))]

theorem consumeBitsEach_fv (vals : List Nat) (rest : List (Nat × Nat)) (h : ∀ v ∈ vals, v < 2) :
    Bc7.consumeBitsEach vals.length (fv (vals.map (fun v => (v, 1)) ++ rest)) = (vals, fv rest) := by
  induction vals with
  | nil => simp [Bc7.consumeBitsEach]
  | cons v vs ih =>
    simp only [List.length_cons, Bc7.consumeBitsEach, List.map_cons, List.cons_append]
    rw [consumeBit_fv v _ (h v (List.mem_cons_self ..))]
    simp only []
    rw [ih (fun w hw => h w (List.mem_cons_of_mem _ hw))]

theorem consumeBits64_fv (count y : Nat) (fs : List (Nat × Nat)) (hc : count < 64) (hy : y < 2 ^ count) :
    Bc7.consumeBits64 count (fv ((y, count) :: fs)) = (y, fv fs) := by
  have h := Bc7.consumeBits64_at count (fv ((y, count) :: fs)) 0 hc
  simp only [Nat.shiftRight_zero, Nat.zero_add] at h
  rw [h, fv_cons, split_mod y count _ hy, split_shr y count _ hy]

/-- `write_mode(m)` is read back by `extract_mode` (trailing zeros of the low byte) -/
theorem extractMode_fv (m : Nat) (fs : List (Nat × Nat)) (hm : m < 8) :
    Bc7.extractMode (fv (writeMode m ++ fs)) = (m, fv fs) := by
  have e1 : (1 <<< m) % U64 = 2 ^ m := by
    rw [Nat.one_shiftLeft]; apply Nat.mod_eq_of_lt
    rw [Bc7.U64_eq]; exact Nat.pow_lt_pow_right (by decide) (by omega)
  simp only [writeMode, e1, List.cons_append, List.nil_append, fv_cons]
  have hlt : 2 ^ m < 2 ^ (m + 1) := Nat.pow_lt_pow_right (by decide) (by omega)
  have hmode : Bc7Spec.modeOf (2 ^ m + 2 ^ (m + 1) * fv fs) = m := by
    rw [Bc7.modeOf_mod]
    have : ∀ m, m < 8 → ∀ r, r < 256 → Bc7Spec.modeOf ((2 ^ m + 2 ^ (m + 1) * r) % 256) = m := by decide +kernel
    have e : (2 ^ m + 2 ^ (m + 1) * fv fs) % 256 = (2 ^ m + 2 ^ (m + 1) * (fv fs % 256)) % 256 := by
      rw [Nat.add_mod, Nat.mul_mod, Nat.add_mod (2 ^ m), Nat.mul_mod (2 ^ (m + 1)) (fv fs % 256), Nat.mod_mod]
    rw [e]; exact this m hm _ (Nat.mod_lt _ (by decide))
  rw [Bc7.extractMode_eq, hmode, split_shr _ _ _ hlt]

/-! ### the writer's field lists -/

theorem px_map_range (f : Nat → Nat) (n i : Nat) (h : i < n) : px ((List.range n).map f) i = f i := by
  simp [px, List.getD_eq_getElem?_getD, h]

theorem bpx_map_range (f : Nat → Nat) (n i : Nat) (h : i < n) : Bc7.px ((List.range n).map f) i = f i := by
  simp [Bc7.px, List.getD_eq_getElem?_getD, h]

theorem writeChan_eq (B n : Nat) (eps : List (List Nat)) (c : Nat) :
    writeChan B n eps c = ((List.range n).map fun e => px (ep eps e) c).map fun v => (v, B) := by
  simp [writeChan, List.map_map, Function.comp_def]

theorem writeEndpointsAlpha_eq (B n : Nat) (al : List Nat) :
    writeEndpointsAlpha B n al = ((List.range n).map fun e => px al e).map fun v => (v, B) := by
  simp [writeEndpointsAlpha, List.map_map, Function.comp_def]

theorem writeEndpointsP_eq (n : Nat) (p : List Nat) :
    writeEndpointsP n p = ((List.range n).map fun k => px p k).map fun v => (v, 1) := by
  simp [writeEndpointsP, List.map_map, Function.comp_def]

/-- reading one channel of `n` endpoints written with `write_endpoints_*` -/
theorem consumeN_chan (B n : Nat) (eps : List (List Nat)) (c : Nat) (rest : List (Nat × Nat)) (h0 : 0 < B) (h8 : B ≤ 8)
    (h : ∀ e, e < n → px (ep eps e) c < 2 ^ B) :
    Bc7.consumeN n B (fv (writeChan B n eps c ++ rest)) = ((List.range n).map fun e => px (ep eps e) c, fv rest) := by
  have := consumeN_fv ((List.range n).map fun e => px (ep eps e) c) B rest h0 h8 (by
    intro v hv
    obtain ⟨e, he, rfl⟩ := List.mem_map.mp hv
    exact h e (List.mem_range.mp he))
  rw [List.length_map, List.length_range] at this
  rw [writeChan_eq, this]

theorem consumeN_alpha (B n : Nat) (al : List Nat) (rest : List (Nat × Nat)) (h0 : 0 < B) (h8 : B ≤ 8)
    (h : ∀ e, e < n → px al e < 2 ^ B) :
    Bc7.consumeN n B (fv (writeEndpointsAlpha B n al ++ rest)) = ((List.range n).map fun e => px al e, fv rest) := by
  have := consumeN_fv ((List.range n).map fun e => px al e) B rest h0 h8 (by
    intro v hv
    obtain ⟨e, he, rfl⟩ := List.mem_map.mp hv
    exact h e (List.mem_range.mp he))
  rw [List.length_map, List.length_range] at this
  rw [writeEndpointsAlpha_eq, this]

theorem consumeBitsEach_p (n : Nat) (p : List Nat) (rest : List (Nat × Nat)) (h : ∀ k, k < n → px p k < 2) :
    Bc7.consumeBitsEach n (fv (writeEndpointsP n p ++ rest)) = ((List.range n).map fun k => px p k, fv rest) := by
  have := consumeBitsEach_fv ((List.range n).map fun k => px p k) rest (by
    intro v hv
    obtain ⟨e, he, rfl⟩ := List.mem_map.mp hv
    exact h e (List.mem_range.mp he))
  rw [List.length_map, List.length_range] at this
  rw [writeEndpointsP_eq, this]

/-- range facts of the field lists -/
theorem fieldsOK_chan (B n : Nat) (eps : List (List Nat)) (c : Nat) (hB : B < 64)
    (h : ∀ e, e < n → px (ep eps e) c < 2 ^ B) : FieldsOK (writeChan B n eps c) := by
  intro f hf
  obtain ⟨e, he, rfl⟩ := List.mem_map.mp hf
  exact ⟨h e (List.mem_range.mp he), hB⟩
theorem fieldsOK_alpha (B n : Nat) (al : List Nat) (hB : B < 64) (h : ∀ e, e < n → px al e < 2 ^ B) :
    FieldsOK (writeEndpointsAlpha B n al) := by
  intro f hf
  obtain ⟨e, he, rfl⟩ := List.mem_map.mp hf
  exact ⟨h e (List.mem_range.mp he), hB⟩
theorem fieldsOK_p (n : Nat) (p : List Nat) (h : ∀ k, k < n → px p k < 2) : FieldsOK (writeEndpointsP n p) := by
  intro f hf
  obtain ⟨e, he, rfl⟩ := List.mem_map.mp hf
  exact ⟨h e (List.mem_range.mp he), (by decide : 1 < 64)⟩
theorem fieldsOK_one (v n : Nat) (hv : v < 2 ^ n) (hn : n < 64) : FieldsOK [(v, n)] := by
  intro f hf
  simp only [List.mem_singleton] at hf
  subst hf; exact ⟨hv, hn⟩
theorem fieldsOK_mode (m : Nat) (hm : m < 8) : FieldsOK (writeMode m) := by
  have e1 : (1 <<< m) % U64 = 2 ^ m := by
    rw [Nat.one_shiftLeft]; apply Nat.mod_eq_of_lt
    rw [Bc7.U64_eq]; exact Nat.pow_lt_pow_right (by decide) (by omega)
  apply fieldsOK_one
  · rw [e1]; exact Nat.pow_lt_pow_right (by decide) (by omega)
  · omega

theorem width_chan (B n : Nat) (eps : List (List Nat)) (c : Nat) : width (writeChan B n eps c) = n * B := by
  unfold writeChan
  induction n with
  | zero => simp [width]
  | succ n ih =>
    rw [List.range_succ, List.map_append, width_append, ih]
    simp only [List.map_cons, List.map_nil, width, Nat.succ_mul]; omega
theorem width_alpha (B n : Nat) (al : List Nat) : width (writeEndpointsAlpha B n al) = n * B := by
  unfold writeEndpointsAlpha
  induction n with
  | zero => simp [width]
  | succ n ih =>
    rw [List.range_succ, List.map_append, width_append, ih]
    simp only [List.map_cons, List.map_nil, width, Nat.succ_mul]; omega
theorem width_p (n : Nat) (p : List Nat) : width (writeEndpointsP n p) = n := by
  unfold writeEndpointsP
  induction n with
  | zero => simp [width]
  | succ n ih =>
    rw [List.range_succ, List.map_append, width_append, ih]
    simp only [List.map_cons, List.map_nil, width]

end Dds.Enc7
