/-
C13 / BC7 writer, T1 for the two-subset modes 1, 3, 7 (every partition of `PARTITION_SET_2`): per pixel the decoder
returns the encoder's palette entry over the subset of that pixel; each subset's anchor fix-up (swap that subset's
endpoints — and its p-bits where they are per endpoint — and invert that subset's indexes) is invisible after decoding.
-/
import DdsModel.Proofs.Enc7Modes456
set_option linter.unusedSimpArgs false
namespace Dds.Enc7
open Dds Dds.BcTables

theorem subset2_le (part i : Nat) (hp : part < 64) (hi : i < 16) : subset2Index (implP2 part) i ≤ 1 := by
  have ht := tbl2_all part hp
  simp only [tbl2OK, Bool.and_eq_true, decide_eq_true_eq, beq_iff_eq, List.all_eq_true, List.mem_range] at ht
  exact ht.1.1.1.1.2 i hi

theorem ep_swapPair2 (sw : Bool) (a b : List Nat) (l : List (List Nat)) : ep (swapPair sw a b ++ l) 2 = ep l 0 := by
  cases sw <;> rfl
theorem ep_swapPair3 (sw : Bool) (a b : List Nat) (l : List (List Nat)) : ep (swapPair sw a b ++ l) 3 = ep l 1 := by
  cases sw <;> rfl
theorem px_swapPair2 (sw : Bool) (a b : Nat) (l : List Nat) : px (swapPair sw a b ++ l) 2 = px l 0 := by
  cases sw <;> rfl
theorem px_swapPair3 (sw : Bool) (a b : Nat) (l : List Nat) : px (swapPair sw a b ++ l) 3 = px l 1 := by
  cases sw <;> rfl

theorem lt4_cases {P : Nat → Prop} (h0 : P 0) (h1 : P 1) (h2 : P 2) (h3 : P 3) : ∀ e, e < 4 → P e := by
  intro e he
  have : e = 0 ∨ e = 1 ∨ e = 2 ∨ e = 3 := by omega
  rcases this with h | h | h | h <;> subst h <;> assumption

theorem quad_range {P : List Nat → Prop} (a b c d : List Nat) (s0 s1 : Bool)
    (ha : P a) (hb : P b) (hc : P c) (hd : P d) : ∀ e, e < 4 → P (ep (swapPair s0 a b ++ swapPair s1 c d) e) := by
  apply lt4_cases
  · rw [ep_swapPair0]; split <;> assumption
  · rw [ep_swapPair1]; split <;> assumption
  · rw [ep_swapPair2, ep_swapPair0']; split <;> assumption
  · rw [ep_swapPair3, ep_swapPair1']; split <;> assumption

theorem quad_range_px {P : Nat → Prop} (a b c d : Nat) (s0 s1 : Bool)
    (ha : P a) (hb : P b) (hc : P c) (hd : P d) : ∀ e, e < 4 → P (px (swapPair s0 a b ++ swapPair s1 c d) e) := by
  apply lt4_cases
  · rw [px_swapPair0]; split <;> assumption
  · rw [px_swapPair1]; split <;> assumption
  · rw [px_swapPair2, px_swapPair0']; split <;> assumption
  · rw [px_swapPair3, px_swapPair1']; split <;> assumption

/-! ### the decoder's endpoint reader on written endpoints -/

theorem eps7_w (E : List (List Nat)) (P : List Nat) (rest : List (Nat × Nat))
    (hE : ∀ e, e < 4 → ∀ c, c < 4 → px (ep E e) c < 2 ^ 5) (hP : ∀ k, k < 4 → px P k < 2) :
    Bc7.getEndPoints4 7 (fv (writeEndpointsRgba 5 4 E ++ (writeEndpointsP 4 P ++ rest))) =
      ((List.range 4).map (fun i => [Bc7.promote (Bc7.withP (px (ep E i) 0) (px P i)) 6,
        Bc7.promote (Bc7.withP (px (ep E i) 1) (px P i)) 6, Bc7.promote (Bc7.withP (px (ep E i) 2) (px P i)) 6,
        Bc7.promote (Bc7.withP (px (ep E i) 3) (px P i)) 6]), fv rest) := by
  simp only [Bc7.getEndPoints4, Nat.reduceEqDiff, if_false, if_true, writeEndpointsRgba, List.append_assoc]
  rw [consumeN_chan 5 4 E 0 _ (by decide) (by decide) (fun e he => hE e he 0 (by decide))]
  simp only []
  rw [consumeN_chan 5 4 E 1 _ (by decide) (by decide) (fun e he => hE e he 1 (by decide))]
  simp only []
  rw [consumeN_chan 5 4 E 2 _ (by decide) (by decide) (fun e he => hE e he 2 (by decide))]
  simp only []
  rw [consumeN_chan 5 4 E 3 _ (by decide) (by decide) (fun e he => hE e he 3 (by decide))]
  simp only []
  rw [consumeBitsEach_p 4 P _ hP]
  simp only [Bc7.range4, List.map, bpx_map_range _ 4 0 (by decide), bpx_map_range _ 4 1 (by decide),
    bpx_map_range _ 4 2 (by decide), bpx_map_range _ 4 3 (by decide), Bc7.px_cons0, Bc7.px4]

theorem eps3_w (E : List (List Nat)) (P : List Nat) (rest : List (Nat × Nat))
    (hE : ∀ e, e < 4 → ∀ c, c < 3 → px (ep E e) c < 2 ^ 7) (hP : ∀ k, k < 4 → px P k < 2) :
    Bc7.getEndPoints4 3 (fv (writeEndpointsRgb 7 4 E ++ (writeEndpointsP 4 P ++ rest))) =
      ((List.range 4).map (fun i => [Bc7.withP (px (ep E i) 0) (px P i),
        Bc7.withP (px (ep E i) 1) (px P i), Bc7.withP (px (ep E i) 2) (px P i), 255]), fv rest) := by
  simp only [Bc7.getEndPoints4, Nat.reduceEqDiff, if_false, if_true, writeEndpointsRgb, List.append_assoc]
  rw [consumeN_chan 7 4 E 0 _ (by decide) (by decide) (fun e he => hE e he 0 (by decide))]
  simp only []
  rw [consumeN_chan 7 4 E 1 _ (by decide) (by decide) (fun e he => hE e he 1 (by decide))]
  simp only []
  rw [consumeN_chan 7 4 E 2 _ (by decide) (by decide) (fun e he => hE e he 2 (by decide))]
  simp only []
  rw [consumeBitsEach_p 4 P _ hP]
  simp only [Bc7.range4, List.map, bpx_map_range _ 4 0 (by decide), bpx_map_range _ 4 1 (by decide),
    bpx_map_range _ 4 2 (by decide), bpx_map_range _ 4 3 (by decide), Bc7.px_cons0, Bc7.px4]

theorem eps1_w (E : List (List Nat)) (P : List Nat) (rest : List (Nat × Nat))
    (hE : ∀ e, e < 4 → ∀ c, c < 3 → px (ep E e) c < 2 ^ 6) (hP : ∀ k, k < 2 → px P k < 2) :
    Bc7.getEndPoints4 1 (fv (writeEndpointsRgb 6 4 E ++ (writeEndpointsP 2 P ++ rest))) =
      ((List.range 4).map (fun i => [Bc7.promote (Bc7.withP (px (ep E i) 0) (px P (i / 2))) 7,
        Bc7.promote (Bc7.withP (px (ep E i) 1) (px P (i / 2))) 7,
        Bc7.promote (Bc7.withP (px (ep E i) 2) (px P (i / 2))) 7, 255]), fv rest) := by
  simp only [Bc7.getEndPoints4, Nat.reduceEqDiff, if_false, if_true, writeEndpointsRgb, List.append_assoc]
  rw [consumeN_chan 6 4 E 0 _ (by decide) (by decide) (fun e he => hE e he 0 (by decide))]
  simp only []
  rw [consumeN_chan 6 4 E 1 _ (by decide) (by decide) (fun e he => hE e he 1 (by decide))]
  simp only []
  rw [consumeN_chan 6 4 E 2 _ (by decide) (by decide) (fun e he => hE e he 2 (by decide))]
  simp only []
  rw [consumeBitsEach_p 2 P _ hP]
  simp only [Bc7.range4, List.map, Nat.reduceDiv, bpx_map_range _ 4 0 (by decide), bpx_map_range _ 4 1 (by decide),
    bpx_map_range _ 4 2 (by decide), bpx_map_range _ 4 3 (by decide), bpx_map_range _ 2 0 (by decide),
    bpx_map_range _ 2 1 (by decide), Bc7.px_cons0, Bc7.px4]

/-! ### mode 7 -/

theorem mode7_roundtrip (part : Nat) (rgba : List (List Nat)) (p : List Nat) (x : Nat) (hp : part < 64)
    (hE : ∀ e, e < 4 → ∀ c, c < 4 → px (ep rgba e) c < 2 ^ 5) (hP : ∀ k, k < 4 → px p k < 2) (hx : x < 2 ^ 32) :
    Bc7.decodeBlock (mode7 part rgba p x) = (List.range 16).map fun i =>
      let s := subset2Index (implP2 part) i
      interpolateRgba 2 (pPromoteRgba 5 (ep rgba (2 * s)) (px p (2 * s)))
        (pPromoteRgba 5 (ep rgba (2 * s + 1)) (px p (2 * s + 1))) (get 2 x i) := by
  obtain ⟨hc, hbits, hnew, hget⟩ := compressP2_spec 2 x part [] (by decide) hx hp
  unfold mode7
  simp only []
  generalize compressP2 2 x (implP2 part) = ci at *
  have hE' := quad_range (P := fun l => ∀ c, c < 4 → px l c < 2 ^ 5) _ _ _ _ ci.2.1 ci.2.2
    (hE 0 (by decide)) (hE 1 (by decide)) (hE 2 (by decide)) (hE 3 (by decide))
  have hP' := quad_range_px (P := fun v => v < 2) _ _ _ _ ci.2.1 ci.2.2
    (hP 0 (by decide)) (hP 1 (by decide)) (hP 2 (by decide)) (hP 3 (by decide))
  have hok : FieldsOK (writeMode 7 ++ [(part, 6)] ++
      writeEndpointsRgba 5 4 (swapPair ci.2.1 (ep rgba 0) (ep rgba 1) ++ swapPair ci.2.2 (ep rgba 2) (ep rgba 3)) ++
      writeEndpointsP 4 (swapPair ci.2.1 (px p 0) (px p 1) ++ swapPair ci.2.2 (px p 2) (px p 3)) ++
      writeIndexes ci.1) := by
    simp only [fieldsOK_append, writeEndpointsRgba, writeIndexes]
    exact ⟨⟨⟨⟨fieldsOK_mode 7 (by decide), fieldsOK_one part 6 (by omega) (by decide)⟩,
      ⟨⟨⟨fieldsOK_chan 5 4 _ 0 (by decide) (fun e he => hE' e he 0 (by decide)),
      fieldsOK_chan 5 4 _ 1 (by decide) (fun e he => hE' e he 1 (by decide))⟩,
      fieldsOK_chan 5 4 _ 2 (by decide) (fun e he => hE' e he 2 (by decide))⟩,
      fieldsOK_chan 5 4 _ 3 (by decide) (fun e he => hE' e he 3 (by decide))⟩⟩, fieldsOK_p 4 _ hP'⟩,
      fieldsOK_one _ _ (by rw [hbits]; exact hc) (by rw [hbits]; decide)⟩
  have hw : width (writeMode 7 ++ [(part, 6)] ++
      writeEndpointsRgba 5 4 (swapPair ci.2.1 (ep rgba 0) (ep rgba 1) ++ swapPair ci.2.2 (ep rgba 2) (ep rgba 3)) ++
      writeEndpointsP 4 (swapPair ci.2.1 (px p 0) (px p 1) ++ swapPair ci.2.2 (px p 2) (px p 3)) ++
      writeIndexes ci.1) ≤ 128 := by
    simp only [width_append, writeEndpointsRgba, width_chan, width_p, writeMode, writeIndexes, width, hbits]
    decide
  rw [finish_writeAll _ hok hw]
  simp only [List.append_assoc, Bc7.decodeBlock]
  rw [extractMode_fv 7 _ (by decide)]
  simp only [Nat.reduceEqDiff, if_false, if_true, Bc7.modeSubset2, List.cons_append, List.nil_append]
  rw [consumeBits_fv 6 part _ (by decide) (by decide) (by omega)]
  simp only []
  rw [eps7_w _ _ _ hE' hP']
  simp only [writeIndexes]
  rw [hnew]
  apply Bc7.map_range16_congr
  intro i hi
  have hk := get_lt 2 x i (by decide)
  have hs := subset2_le part i hp hi
  simp only [getIndex_eq_get 2 _ i (by decide), hget i hi, bep_map_range _ 4 0 (by decide),
    bep_map_range _ 4 1 (by decide), bep_map_range _ 4 2 (by decide), bep_map_range _ 4 3 (by decide),
    Bc7.interpolate23, Bc7.px4, ep_swapPair0, ep_swapPair1, ep_swapPair2, ep_swapPair3, ep_swapPair0', ep_swapPair1',
    px_swapPair0, px_swapPair1, px_swapPair2, px_swapPair3, px_swapPair0', px_swapPair1',
    interpolateRgba, pPromoteRgba, pPromoteCh_ne7 5 _ _ (by decide), interpolate2, px4e, Nat.reduceAdd]
  generalize get 2 x i = k at hk ⊢
  generalize subset2Index (implP2 part) i = s at hs ⊢
  have hs' : s = 0 ∨ s = 1 := by omega
  rcases hs' with h | h <;> subst h
  · cases ci.2.1 <;>
      simp only [Bool.false_eq_true, if_false, if_true, lerp_sym2 _ _ k hk, Nat.reduceEqDiff, Nat.reduceMul,
        Nat.reduceAdd, Nat.mul_zero, Nat.zero_add, Bc7.px4]
  · cases ci.2.2 <;>
      simp only [Bool.false_eq_true, if_false, if_true, lerp_sym2 _ _ k hk, Nat.reduceEqDiff, Nat.reduceMul,
        Nat.reduceAdd, Nat.one_ne_zero, Bc7.px4]

/-! ### mode 3 -/

theorem mode3_roundtrip (part : Nat) (rgb : List (List Nat)) (p : List Nat) (x : Nat) (hp : part < 64)
    (hE : ∀ e, e < 4 → ∀ c, c < 3 → px (ep rgb e) c < 2 ^ 7) (hP : ∀ k, k < 4 → px p k < 2) (hx : x < 2 ^ 32) :
    Bc7.decodeBlock (mode3 part rgb p x) = (List.range 16).map fun i =>
      let s := subset2Index (implP2 part) i
      interpolateRgb 2 (pPromoteRgb 7 (ep rgb (2 * s)) (px p (2 * s)))
        (pPromoteRgb 7 (ep rgb (2 * s + 1)) (px p (2 * s + 1))) (get 2 x i) ++ [255] := by
  obtain ⟨hc, hbits, hnew, hget⟩ := compressP2_spec 2 x part [] (by decide) hx hp
  unfold mode3
  simp only []
  generalize compressP2 2 x (implP2 part) = ci at *
  have hE' := quad_range (P := fun l => ∀ c, c < 3 → px l c < 2 ^ 7) _ _ _ _ ci.2.1 ci.2.2
    (hE 0 (by decide)) (hE 1 (by decide)) (hE 2 (by decide)) (hE 3 (by decide))
  have hP' := quad_range_px (P := fun v => v < 2) _ _ _ _ ci.2.1 ci.2.2
    (hP 0 (by decide)) (hP 1 (by decide)) (hP 2 (by decide)) (hP 3 (by decide))
  have hok : FieldsOK (writeMode 3 ++ [(part, 6)] ++
      writeEndpointsRgb 7 4 (swapPair ci.2.1 (ep rgb 0) (ep rgb 1) ++ swapPair ci.2.2 (ep rgb 2) (ep rgb 3)) ++
      writeEndpointsP 4 (swapPair ci.2.1 (px p 0) (px p 1) ++ swapPair ci.2.2 (px p 2) (px p 3)) ++
      writeIndexes ci.1) := by
    simp only [fieldsOK_append, writeEndpointsRgb, writeIndexes]
    exact ⟨⟨⟨⟨fieldsOK_mode 3 (by decide), fieldsOK_one part 6 (by omega) (by decide)⟩,
      ⟨⟨fieldsOK_chan 7 4 _ 0 (by decide) (fun e he => hE' e he 0 (by decide)),
      fieldsOK_chan 7 4 _ 1 (by decide) (fun e he => hE' e he 1 (by decide))⟩,
      fieldsOK_chan 7 4 _ 2 (by decide) (fun e he => hE' e he 2 (by decide))⟩⟩, fieldsOK_p 4 _ hP'⟩,
      fieldsOK_one _ _ (by rw [hbits]; exact hc) (by rw [hbits]; decide)⟩
  have hw : width (writeMode 3 ++ [(part, 6)] ++
      writeEndpointsRgb 7 4 (swapPair ci.2.1 (ep rgb 0) (ep rgb 1) ++ swapPair ci.2.2 (ep rgb 2) (ep rgb 3)) ++
      writeEndpointsP 4 (swapPair ci.2.1 (px p 0) (px p 1) ++ swapPair ci.2.2 (px p 2) (px p 3)) ++
      writeIndexes ci.1) ≤ 128 := by
    simp only [width_append, writeEndpointsRgb, width_chan, width_p, writeMode, writeIndexes, width, hbits]
    decide
  rw [finish_writeAll _ hok hw]
  simp only [List.append_assoc, Bc7.decodeBlock]
  rw [extractMode_fv 3 _ (by decide)]
  simp only [Nat.reduceEqDiff, if_false, if_true, Bc7.modeSubset2, List.cons_append, List.nil_append]
  rw [consumeBits_fv 6 part _ (by decide) (by decide) (by omega)]
  simp only []
  rw [eps3_w _ _ _ hE' hP']
  simp only [writeIndexes]
  rw [hnew]
  apply Bc7.map_range16_congr
  intro i hi
  have hk := get_lt 2 x i (by decide)
  have hs := subset2_le part i hp hi
  simp only [getIndex_eq_get 2 _ i (by decide), hget i hi, bep_map_range _ 4 0 (by decide),
    bep_map_range _ 4 1 (by decide), bep_map_range _ 4 2 (by decide), bep_map_range _ 4 3 (by decide),
    Bc7.interpolate23, Bc7.px4, ep_swapPair0, ep_swapPair1, ep_swapPair2, ep_swapPair3, ep_swapPair0', ep_swapPair1',
    px_swapPair0, px_swapPair1, px_swapPair2, px_swapPair3, px_swapPair0', px_swapPair1',
    interpolateRgb, pPromoteRgb, pPromoteCh7, interpolate2, px3e, Nat.reduceAdd, List.cons_append, List.nil_append]
  generalize get 2 x i = k at hk ⊢
  generalize subset2Index (implP2 part) i = s at hs ⊢
  have hl : Bc7.lerp 255 255 (Bc7.WEIGHTS_2.getD k 0) = 255 := by
    have : ∀ k, k < 2 ^ 2 → Bc7.lerp 255 255 (Bc7.WEIGHTS_2.getD k 0) = 255 := by decide
    exact this k hk
  have hl' : Bc7.lerp 255 255 (Bc7.WEIGHTS_2.getD (2 ^ 2 - 1 - k) 0) = 255 := by
    have : ∀ k, k < 2 ^ 2 → Bc7.lerp 255 255 (Bc7.WEIGHTS_2.getD (2 ^ 2 - 1 - k) 0) = 255 := by decide
    exact this k hk
  have hs' : s = 0 ∨ s = 1 := by omega
  rcases hs' with h | h <;> subst h
  · cases ci.2.1 <;>
      simp only [Bool.false_eq_true, if_false, if_true, lerp_sym2 _ _ k hk, Nat.reduceEqDiff, Nat.reduceMul,
        Nat.reduceAdd, Nat.mul_zero, Nat.zero_add, Bc7.px4, hl, hl']
  · cases ci.2.2 <;>
      simp only [Bool.false_eq_true, if_false, if_true, lerp_sym2 _ _ k hk, Nat.reduceEqDiff, Nat.reduceMul,
        Nat.reduceAdd, Nat.one_ne_zero, Bc7.px4, hl, hl']

/-! ### mode 1 (one shared p-bit per subset: not swapped) -/

theorem mode1_roundtrip (part : Nat) (rgb : List (List Nat)) (p : List Nat) (x : Nat) (hp : part < 64)
    (hE : ∀ e, e < 4 → ∀ c, c < 3 → px (ep rgb e) c < 2 ^ 6) (hP : ∀ k, k < 2 → px p k < 2) (hx : x < 2 ^ 48) :
    Bc7.decodeBlock (mode1 part rgb p x) = (List.range 16).map fun i =>
      let s := subset2Index (implP2 part) i
      interpolateRgb 3 (pPromoteRgb 6 (ep rgb (2 * s)) (px p s))
        (pPromoteRgb 6 (ep rgb (2 * s + 1)) (px p s)) (get 3 x i) ++ [255] := by
  obtain ⟨hc, hbits, hnew, hget⟩ := compressP2_spec 3 x part [] (by decide) hx hp
  unfold mode1
  simp only []
  generalize compressP2 3 x (implP2 part) = ci at *
  have hE' := quad_range (P := fun l => ∀ c, c < 3 → px l c < 2 ^ 6) _ _ _ _ ci.2.1 ci.2.2
    (hE 0 (by decide)) (hE 1 (by decide)) (hE 2 (by decide)) (hE 3 (by decide))
  have hok : FieldsOK (writeMode 1 ++ [(part, 6)] ++
      writeEndpointsRgb 6 4 (swapPair ci.2.1 (ep rgb 0) (ep rgb 1) ++ swapPair ci.2.2 (ep rgb 2) (ep rgb 3)) ++
      writeEndpointsP 2 p ++ writeIndexes ci.1) := by
    simp only [fieldsOK_append, writeEndpointsRgb, writeIndexes]
    exact ⟨⟨⟨⟨fieldsOK_mode 1 (by decide), fieldsOK_one part 6 (by omega) (by decide)⟩,
      ⟨⟨fieldsOK_chan 6 4 _ 0 (by decide) (fun e he => hE' e he 0 (by decide)),
      fieldsOK_chan 6 4 _ 1 (by decide) (fun e he => hE' e he 1 (by decide))⟩,
      fieldsOK_chan 6 4 _ 2 (by decide) (fun e he => hE' e he 2 (by decide))⟩⟩, fieldsOK_p 2 _ hP⟩,
      fieldsOK_one _ _ (by rw [hbits]; exact hc) (by rw [hbits]; decide)⟩
  have hw : width (writeMode 1 ++ [(part, 6)] ++
      writeEndpointsRgb 6 4 (swapPair ci.2.1 (ep rgb 0) (ep rgb 1) ++ swapPair ci.2.2 (ep rgb 2) (ep rgb 3)) ++
      writeEndpointsP 2 p ++ writeIndexes ci.1) ≤ 128 := by
    simp only [width_append, writeEndpointsRgb, width_chan, width_p, writeMode, writeIndexes, width, hbits]
    decide
  rw [finish_writeAll _ hok hw]
  simp only [List.append_assoc, Bc7.decodeBlock]
  rw [extractMode_fv 1 _ (by decide)]
  simp only [Nat.reduceEqDiff, if_false, if_true, Bc7.modeSubset2, List.cons_append, List.nil_append]
  rw [consumeBits_fv 6 part _ (by decide) (by decide) (by omega)]
  simp only []
  rw [eps1_w _ _ _ hE' hP]
  simp only [writeIndexes]
  rw [hnew]
  apply Bc7.map_range16_congr
  intro i hi
  have hk := get_lt 3 x i (by decide)
  have hs := subset2_le part i hp hi
  simp only [getIndex_eq_get 3 _ i (by decide), hget i hi, bep_map_range _ 4 0 (by decide),
    bep_map_range _ 4 1 (by decide), bep_map_range _ 4 2 (by decide), bep_map_range _ 4 3 (by decide),
    Bc7.interpolate23, Bc7.px4, ep_swapPair0, ep_swapPair1, ep_swapPair2, ep_swapPair3, ep_swapPair0', ep_swapPair1',
    interpolateRgb, pPromoteRgb, pPromoteCh_ne7 6 _ _ (by decide), interpolate3, px3e, Nat.reduceAdd, Nat.reduceDiv,
    List.cons_append, List.nil_append]
  generalize get 3 x i = k at hk ⊢
  generalize subset2Index (implP2 part) i = s at hs ⊢
  have hl : Bc7.lerp 255 255 (Bc7.WEIGHTS_3.getD k 0) = 255 := by
    have : ∀ k, k < 2 ^ 3 → Bc7.lerp 255 255 (Bc7.WEIGHTS_3.getD k 0) = 255 := by decide
    exact this k hk
  have hl' : Bc7.lerp 255 255 (Bc7.WEIGHTS_3.getD (2 ^ 3 - 1 - k) 0) = 255 := by
    have : ∀ k, k < 2 ^ 3 → Bc7.lerp 255 255 (Bc7.WEIGHTS_3.getD (2 ^ 3 - 1 - k) 0) = 255 := by decide
    exact this k hk
  have hs' : s = 0 ∨ s = 1 := by omega
  rcases hs' with h | h <;> subst h
  · cases ci.2.1 <;>
      simp only [Bool.false_eq_true, if_false, if_true, lerp_sym3 _ _ k hk, Nat.reduceEqDiff, Nat.reduceMul,
        Nat.reduceAdd, Nat.mul_zero, Nat.zero_add, Bc7.px4, hl, hl']
  · cases ci.2.2 <;>
      simp only [Bool.false_eq_true, if_false, if_true, lerp_sym3 _ _ k hk, Nat.reduceEqDiff, Nat.reduceMul,
        Nat.reduceAdd, Nat.one_ne_zero, Bc7.px4, hl, hl']

end Dds.Enc7
