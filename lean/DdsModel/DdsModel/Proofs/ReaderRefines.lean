/-
C01, reader ⊑ cursor (3/3): the simulation between the composed reader over a REAL stream
(`Reader.lean`) and the ideal decoder of C08 (`Decoder.lean`).

`Sim k base s d` relates a reader state `s` and an ideal state `d`:
  `s.iter = d.iter`  and  `s.pos = base + d.pos`        (the relation proper)
together with the invariants of the ideal state that make the relation checkable (`d` belongs to the
layout of `k`, its iterator satisfies C08's iterator invariant, its position is the cursor offset, the
iterator computes lengths with the layout's `PixelInfo`, and `base + data length` is a `u64` stream
offset).  `StepOK` is what one call of the reader and the same call of the ideal decoder have to do
with each other; every call of the `Decoder` API is shown to satisfy it.
-/
import DdsModel.Proofs.C01
import DdsModel.Proofs.ReaderRefinesStream
import DdsModel.Proofs.ReaderRefinesIter
namespace Dds.Reader
open Dds Dds.Stream Dds.C08

/-! ### vocabulary -/

/-- **The decoder family agrees with the layout**: admissible unit sizes, and the unit sizes of the
`PixelInfo` the layout (and its iterator) computes surface lengths with.  Decidable; holds for every
file `Decoder::new_with_options` accepts (`opened_agrees`). -/
def Cfg.Agrees (k : Cfg) : Prop := k.fam.WF ∧ k.fam.px = k.layout.px

instance (k : Cfg) : Decidable k.Agrees := by unfold Cfg.Agrees; exact inferInstance

/-- result kinds of the ideal decoder as result kinds of the reader model -/
def ofDecRes : DecRes → R
  | .ok => .ok
  | .noMoreSurfaces => .noMoreSurfaces
  | .unexpectedSurfaceSize => .unexpectedSurfaceSize
  | .rectOutOfBounds => .rectOutOfBounds
  | .cannotSkipMipmapsInVolume => .cannotSkipMipmapsInVolume
  | .notACubeMap => .notACubeMap
  | .memoryLimitExceeded => .memoryLimitExceeded
  | .panic => .panic

theorem ofDecRes_eq_ok {q : DecRes} : ofDecRes q = .ok ↔ q = .ok := by
  cases q <;> simp [ofDecRes]

/-- the ideal decoder's operation for a reader operation (changing the memory limit is none) -/
def toDecOp : Op → Option DecOp
  | .read w h _ => some (.read w h)
  | .rect ox oy w h _ => some (.readRect ox oy w h)
  | .skipSurface => some .skipSurface
  | .skipMipmaps => some .skipMipmaps
  | .cube w h _ => some (.readCubeMap w h)
  | .setLimit _ => none
  | .rewindPrev => some .rewindPrev
  | .rewindStart => some .rewindStart

/-- the ideal decoder's reaction to a reader operation -/
def idealStep (d : Dec) (op : Op) : Dec × DecRes :=
  match toDecOp op with
  | none => (d, .ok)
  | some o => ((d.step o).1, (d.step o).2.1)

/-- bytes the allocations of the call add up to (`need` of its operation trace; 0 for calls that do
not decode and for calls rejected before the first operation) -/
def opNeed (k : Cfg) (s : RS) : Op → Nat
  | .read w h c => planNeed (plan k.fam c (.full (normSize w h).1 (normSize w h).2))
  | .rect ox oy w h c =>
    match s.iter.currentP with
    | some (some cur) =>
      planNeed (plan k.fam c (.rect cur.w cur.h ox oy (normSize w h).1 (normSize w h).2))
    | _ => 0
  | .cube _ _ c =>
    match k.layout with
    | .textureArray a => planNeed (plan k.fam c (.full (normSize a.w a.h).1 (normSize a.w a.h).2))
    | _ => 0
  | _ => 0

/-- the simulation relation (first two fields) with the invariants of the ideal state -/
structure Sim (k : Cfg) (base : Nat) (s : RS) (d : Dec) : Prop where
  iter : s.iter = d.iter
  pos : (s.pos : Int) = base + d.pos
  layout : d.layout = k.layout
  px : iterPx d.iter = k.layout.px
  inv : IterInv d.iter
  cpos : d.pos = (elapsed d.iter : Int)
  u64 : base + total d.iter < U64

/-- what every forward call of the ideal decoder does whatever its result: the position does not
decrease, layout and data length stay, the iterator invariant is kept -/
structure Static (d : Dec) (b : Dec × DecRes) : Prop where
  mono : d.pos ≤ b.1.pos
  lay : b.1.layout = d.layout
  tot : total b.1.iter = total d.iter
  inv : IterInv b.1.iter

theorem Static.refl {d : Dec} (v : IterInv d.iter) (q : DecRes) : Static d (d, q) :=
  ⟨Int.le_refl _, rfl, rfl, v⟩

theorem Static.trans {d : Dec} {b c : Dec × DecRes} (h1 : Static d b) (h2 : Static b.1 c) : Static d c :=
  ⟨Int.le_trans h1.mono h2.mono, h2.lay.trans h1.lay, h2.tot.trans h1.tot, h2.inv⟩

/-- consuming the current surface -/
theorem Static.consume {d : Dec} (v : IterInv d.iter) {cur : SurfInfo}
    (hc : d.iter.currentP = some (some cur)) {it' : SurfIter} (ha : d.iter.advanceP = some it') (q : DecRes) :
    Static d ({ d with iter := it', pos := d.pos + cur.len }, q) := by
  obtain ⟨it2, ha2, hi, _, ht, _⟩ := Reader.consume d.iter v hc
  rw [ha] at ha2
  simp only [Option.some.injEq] at ha2
  subst ha2
  exact ⟨by show d.pos ≤ d.pos + (cur.len : Int); omega, rfl, ht, hi⟩

/-- one call of the reader (`a`) against the same call of the ideal decoder (`b`), started in states
`s` and `d`; `N` is the memory need of the call -/
structure StepOK (k : Cfg) (base : Nat) (s : RS) (d : Dec) (N : Nat) (a : RS × R) (b : Dec × DecRes) :
    Prop where
  /-- a result other than an I/O error / the memory limit is the ideal result, and the states are
  related again -/
  sim : a.2 ≠ .io → a.2 ≠ .memoryLimitExceeded → a.2 = ofDecRes b.2 ∧ Sim k base a.1 b.1
  /-- an I/O error: the stream cannot deliver every byte up to where the ideal call ends, or the call
  has to move the reader by more than `i64::MAX` bytes (`io_skip_exact` reports `UnexpectedEof`) -/
  io : a.2 = .io → k.env.len < U64 →
    (k.env.lim : Int) < base + b.1.pos ∨ (I64MAX : Int) < b.1.pos - d.pos
  /-- the memory limit: below the need, or the allocator refused, or the surface has more than
  `isize::MAX` bytes — then the ideal decoder says the same, nothing moved, and the data section has
  more than `i64::MAX` bytes -/
  mem : a.2 = .memoryLimitExceeded →
    s.limit < N ∨ ¬ C06.AllocatorGrants k.env ∨
      (b.2 = .memoryLimitExceeded ∧ Sim k base a.1 b.1 ∧ I64MAX < total d.iter)
  limit : a.1.limit = s.limit
  /-- the ideal side on its own -/
  st : Static d b

/-- both sides rejected the call with the same error and changed nothing -/
theorem StepOK.rejected {k : Cfg} {base : Nat} {s : RS} {d : Dec} {N : Nat} (h : Sim k base s d)
    {r : R} {q : DecRes} (hr : r = ofDecRes q) (hq : q ≠ .memoryLimitExceeded := by first | decide | simp) :
    StepOK k base s d N (s, r) (d, q) where
  sim := fun _ _ => ⟨hr, h⟩
  io := by
    intro hio
    cases q <;> simp [ofDecRes] at hr <;> rw [hr] at hio <;> cases hio
  mem := by
    intro hm
    exfalso
    cases q <;> simp [ofDecRes] at hr <;> first | exact hq rfl | (rw [hr] at hm; cases hm)
  limit := rfl
  st := Static.refl h.inv q

/-- sequencing with `?`: run `f` / `g` only after `ok` -/
def thenR (a : RS × R) (f : RS → RS × R) : RS × R := if a.2 = .ok then f a.1 else a
def thenI (b : Dec × DecRes) (g : Dec → Dec × DecRes) : Dec × DecRes := if b.2 = .ok then g b.1 else b

theorem Static.thenI {d : Dec} {b : Dec × DecRes} {g : Dec → Dec × DecRes} (h1 : Static d b)
    (hg : Static b.1 (g b.1)) : Static d (thenI b g) := by
  unfold Reader.thenI
  by_cases h : b.2 = .ok
  · rw [if_pos h]; exact h1.trans hg
  · rw [if_neg h]; exact h1

/-- `StepOK` composes along `?` -/
theorem StepOK.bind {k : Cfg} {base : Nat} {s : RS} {d : Dec} {N : Nat} {a : RS × R} {b : Dec × DecRes}
    {f : RS → RS × R} {g : Dec → Dec × DecRes} (h1 : StepOK k base s d N a b)
    (hg : Static b.1 (g b.1))
    (h2 : a.2 = .ok → b.2 = .ok → Sim k base a.1 b.1 → StepOK k base a.1 b.1 N (f a.1) (g b.1)) :
    StepOK k base s d N (thenR a f) (thenI b g) := by
  have hst := h1.st.thenI hg
  have hm1 := h1.st.mono
  have hm2 := hst.mono
  have hm3 : b.1.pos ≤ (thenI b g).1.pos := by
    unfold thenI
    by_cases hb : b.2 = .ok
    · rw [if_pos hb]; exact hg.mono
    · rw [if_neg hb]; exact Int.le_refl _
  by_cases ha : a.2 = .ok
  · obtain ⟨hab, hsim⟩ := h1.sim (by rw [ha]; simp) (by rw [ha]; simp)
    have hb : b.2 = .ok := ofDecRes_eq_ok.1 (by rw [← hab, ha])
    have H := h2 ha hb hsim
    have hI : thenI b g = g b.1 := by unfold thenI; rw [if_pos hb]
    have hR : thenR a f = f a.1 := by unfold thenR; rw [if_pos ha]
    rw [hI] at hst hm2 ⊢
    rw [hR]
    refine ⟨H.sim, ?_, ?_, H.limit.trans h1.limit, hst⟩
    · intro hio hlen
      rcases H.io hio hlen with h | h
      · exact Or.inl h
      · exact Or.inr (by omega)
    · intro hm
      rcases H.mem hm with h | h | h
      · exact Or.inl (by rw [← h1.limit]; exact h)
      · exact Or.inr (Or.inl h)
      · exact Or.inr (Or.inr ⟨h.1, h.2.1, by rw [← h1.st.tot]; exact h.2.2⟩)
  · have hR : thenR a f = a := by unfold thenR; rw [if_neg ha]
    rw [hR]
    refine ⟨?_, ?_, ?_, h1.limit, hst⟩
    · intro hio hme
      obtain ⟨hab, hsim⟩ := h1.sim hio hme
      have hb : b.2 ≠ .ok := fun hb => ha (by rw [hab, hb]; rfl)
      have hI : thenI b g = b := by unfold thenI; rw [if_neg hb]
      rw [hI]; exact ⟨hab, hsim⟩
    · intro hio hlen
      rcases h1.io hio hlen with h | h
      · exact Or.inl (by omega)
      · exact Or.inr (by omega)
    · intro hm
      rcases h1.mem hm with h | h | h
      · exact Or.inl h
      · exact Or.inr (Or.inl h)
      · have hb : b.2 ≠ .ok := by rw [h.1]; simp
        have hI : thenI b g = b := by unfold thenI; rw [if_neg hb]
        rw [hI]; exact Or.inr (Or.inr h)

/-! ### building related states -/

theorem Sim.same {k : Cfg} {base : Nat} {s : RS} {d : Dec} (h : Sim k base s d) :
    Sim k base { s with pos := s.pos } d := h

/-- both sides move forward by `n` bytes to the iterator state `it'` -/
theorem Sim.move {k : Cfg} {base : Nat} {s : RS} {d : Dec} (h : Sim k base s d) {it' : SurfIter}
    {n : Nat} (hi : IterInv it') (he : elapsed it' = elapsed d.iter + n)
    (ht : total it' = total d.iter) (hp : iterPx it' = iterPx d.iter) :
    Sim k base { s with iter := it', pos := s.pos + n } { d with iter := it', pos := d.pos + n } where
  iter := rfl
  pos := by
    show ((s.pos + n : Nat) : Int) = base + (d.pos + n)
    have := h.pos; omega
  layout := h.layout
  px := by show iterPx it' = _; rw [hp]; exact h.px
  inv := hi
  cpos := by
    show d.pos + (n : Int) = (elapsed it' : Int)
    rw [he, h.cpos]; omega
  u64 := by show base + total it' < U64; rw [ht]; exact h.u64

/-- the reader position is a natural number below `2^64` after moving over `n` more bytes of data -/
theorem Sim.pos_bound {k : Cfg} {base : Nat} {s : RS} {d : Dec} (h : Sim k base s d) {n : Nat}
    (hn : elapsed d.iter + n ≤ total d.iter) : s.pos = base + elapsed d.iter ∧ s.pos + n < U64 := by
  have h1 := h.pos
  have h2 := h.cpos
  have h3 := h.u64
  omega

/-! ### `decode` / `decode_rect` at the current surface -/

/-- the common tail of `read_surface` / `read_surface_rect`: advance on success, keep the reader
position of the decode otherwise -/
def finish (s : RS) (r : R × Nat) : RS × R :=
  match r.1 with
  | .ok =>
    match s.iter.advanceP with
    | none => ({ s with pos := r.2 }, .panic)
    | some it => ({ s with iter := it, pos := r.2 }, .ok)
  | e => ({ s with pos := r.2 }, e)

theorem finish_ok {s : RS} {r : R × Nat} {it : SurfIter} (h : r.1 = .ok) (ha : s.iter.advanceP = some it) :
    finish s r = ({ s with iter := it, pos := r.2 }, .ok) := by
  unfold finish; rw [h]; simp only [ha]

theorem finish_err {s : RS} {r : R × Nat} (h : r.1 ≠ .ok) : finish s r = ({ s with pos := r.2 }, r.1) := by
  unfold finish
  cases hr : r.1 <;> simp_all

theorem likelyOverflow_eq (f : Fam) (w h : Nat) :
    likelyOverflow f.px w h = !checkLikelyOverflow f w h := by
  unfold likelyOverflow checkLikelyOverflow
  cases f.px.surfaceBytes w h with
  | none => rfl
  | some b =>
    simp only [ISIZE_MAX, I64MAX]
    by_cases hb : b ≤ 9223372036854775807
    · simp [hb]
    · simp [hb]; omega

/-- the surface is rejected by `check_likely_overflow`: `MemoryLimitExceeded` on both sides -/
theorem decode_overflow {k : Cfg} {base : Nat} {s : RS} {d : Dec} (h : Sim k base s d) (c : Colour)
    (call : Call) (N : Nat) (hplan : plan k.fam c call = .error .memLimit) (hbig : I64MAX < total d.iter) :
    StepOK k base s d N (finish s (decodeCall k c call s)) (d, .memoryLimitExceeded) := by
  have hd : decodeCall k c call s = (.memoryLimitExceeded, s.pos) := by
    unfold decodeCall; rw [hplan]; rfl
  rw [hd, finish_err (by simp)]
  exact ⟨fun _ hm => absurd rfl hm, (fun hio => by cases hio), fun _ => Or.inr (Or.inr ⟨rfl, h.same, hbig⟩), rfl,
    Static.refl h.inv _⟩

/-- an accepted decode call at the current surface against the ideal "consume the surface" -/
theorem decode_sim {k : Cfg} (hk : k.Agrees) {base : Nat} {s : RS} {d : Dec} (h : Sim k base s d)
    {cur : SurfInfo} (hc : d.iter.currentP = some (some cur)) (c : Colour) (call : Call)
    (hsurf : call.surface = (cur.w, cur.h)) {ops : List Stream.Op} (hplan : plan k.fam c call = .ok ops)
    {it' : SurfIter} (ha : d.iter.advanceP = some it') :
    StepOK k base s d (planNeed (plan k.fam c call)) (finish s (decodeCall k c call s))
      ({ d with iter := it', pos := d.pos + cur.len }, .ok) := by
  obtain ⟨it2, ha2, hi, he, ht, hp, hle, hlen⟩ := consume d.iter h.inv hc
  rw [ha] at ha2
  simp only [Option.some.injEq] at ha2
  subst ha2
  have hbytes : call.bytes k.fam = cur.len := by
    unfold Call.bytes
    rw [hsurf, hk.2, ← h.px]; exact hlen.symm
  obtain ⟨hpos, hU⟩ := h.pos_bound hle
  obtain ⟨htri, hok, hmem, hio⟩ := run_facts hk.1 c call hplan k.env s.pos s.limit (by rw [hbytes]; exact hU)
  have hN : planNeed (plan k.fam c call) = need ops := by rw [hplan]; rfl
  rw [hN]
  have hd : decodeCall k c call s = (ofRes (Stream.run k.env [] (plan k.fam c call) s.pos s.limit).1,
      (Stream.run k.env [] (plan k.fam c call) s.pos s.limit).2.pos) := rfl
  have hst : Static d ({ d with iter := it', pos := d.pos + cur.len }, DecRes.ok) :=
    ⟨by show d.pos ≤ d.pos + (cur.len : Int); omega, rfl, ht, hi⟩
  rcases htri with hr | hr | hr
  · rw [hd, hr, finish_ok (it := it') rfl (by rw [h.iter]; exact ha)]
    simp only [hok hr, hbytes]
    exact ⟨fun _ _ => ⟨rfl, h.move hi he ht hp⟩, (fun hio => by cases hio), (fun hm => by cases hm), rfl, hst⟩
  · rw [hd, hr, finish_err (by simp [ofRes])]
    refine ⟨fun hne => absurd rfl hne, ?_, (fun hm => by cases hm), rfl, hst⟩
    intro _ hl
    have := hio hr hl
    rw [hbytes] at this
    left
    show (k.env.lim : Int) < base + (d.pos + cur.len)
    have h1 := h.pos
    omega
  · rw [hd, hr, finish_err (by simp [ofRes])]
    refine ⟨fun _ hne => absurd rfl hne, (fun hio => by cases hio), ?_, rfl, hst⟩
    intro _
    rcases (hmem hr).2 with h' | h'
    · exact Or.inl h'
    · exact Or.inr (Or.inl h')

end Dds.Reader
