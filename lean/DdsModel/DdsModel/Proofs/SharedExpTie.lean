/-
C15, R9G9B9E5: which zero `f32::max` returns when `-0.0` meets `+0.0` (Rust: "either") does not
reach the result of `rgb9995f::from_f32`.
-/
import DdsModel.Proofs.SharedExp
namespace Dds.EncTotal.SharedExp
open Dds.CF32

/-- a zero of either sign -/
def Zeroish (c : Nat) : Prop := c = 0 ∨ c = signBit

/-- equal up to the sign of zero -/
def ZEq (a b : Nat) : Prop := a = b ∨ (Zeroish a ∧ Zeroish b)

theorem zeroish_of_mag (c : Nat) (hc : Clamped c) (h : mag c = 0) : Zeroish c := by
  rcases hc with h1 | h1
  · right; exact h1
  · left
    unfold mag at h
    simp only [c65408, signBit] at *
    omega

theorem eq_mag_of_ne (c : Nat) (hc : Clamped c) (h : mag c ≠ 0) : c = mag c := by
  obtain ⟨_, _, _, h4⟩ := clamped_facts c hc
  rcases h4 with h4 | h4
  · exact absurd h4 h
  · exact h4

theorem mag_zeroish (c : Nat) (h : Zeroish c) : mag c = 0 := by
  rcases h with rfl | rfl <;> decide

theorem zeq_mag (a b : Nat) (h : ZEq a b) : mag a = mag b := by
  rcases h with h | ⟨h1, h2⟩
  · rw [h]
  · rw [mag_zeroish a h1, mag_zeroish b h2]

/-- `f32::max` of clamped values in terms of magnitudes -/
theorem fmax_clamped_eq (t : Bool) (a b : Nat) (ha : Clamped a) (hb : Clamped b) :
    fmax t a b = if mag a < mag b then b else if mag b < mag a then a else if t then a else b := by
  obtain ⟨a1, a2, _, _⟩ := clamped_facts a ha
  obtain ⟨b1, b2, _, _⟩ := clamped_facts b hb
  unfold fmax
  simp only [a1, b1, Bool.false_eq_true, if_false, flt, Bool.not_false, Bool.true_and, a2, b2,
    decide_eq_true_eq, Int.ofNat_lt]

theorem fmax_zeq (t t' : Bool) (a a' b b' : Nat) (ha : Clamped a) (ha' : Clamped a')
    (hb : Clamped b) (hb' : Clamped b') (za : ZEq a a') (zb : ZEq b b') :
    ZEq (fmax t a b) (fmax t' a' b') := by
  rw [fmax_clamped_eq t a b ha hb, fmax_clamped_eq t' a' b' ha' hb', ← zeq_mag a a' za,
    ← zeq_mag b b' zb]
  by_cases h1 : mag a < mag b
  · rw [if_pos h1, if_pos h1]; exact zb
  rw [if_neg h1, if_neg h1]
  by_cases h2 : mag b < mag a
  · rw [if_pos h2, if_pos h2]; exact za
  rw [if_neg h2, if_neg h2]
  have heq : mag a = mag b := by omega
  by_cases h0 : mag a = 0
  · -- all four are zeros
    have z1 := zeroish_of_mag a ha h0
    have z2 := zeroish_of_mag b hb (by omega)
    have z3 := zeroish_of_mag a' ha' (by rw [← zeq_mag a a' za]; exact h0)
    have z4 := zeroish_of_mag b' hb' (by rw [← zeq_mag b b' zb]; omega)
    right
    constructor
    · cases t <;> simp only [Bool.false_eq_true, if_false, if_true] <;> assumption
    · cases t' <;> simp only [Bool.false_eq_true, if_false, if_true] <;> assumption
  · -- all four are the same positive pattern
    have e1 := eq_mag_of_ne a ha h0
    have e2 := eq_mag_of_ne b hb (by omega)
    have e3 := eq_mag_of_ne a' ha' (by rw [← zeq_mag a a' za]; exact h0)
    have e4 := eq_mag_of_ne b' hb' (by rw [← zeq_mag b b' zb]; omega)
    have m3 := zeq_mag a a' za
    have m4 := zeq_mag b b' zb
    left
    cases t <;> cases t' <;> simp only [Bool.false_eq_true, if_false, if_true] <;> omega

theorem fmax0_zeq (t t' : Bool) (x : Nat) : ZEq (fmax t x 0) (fmax t' x 0) := by
  unfold fmax
  by_cases hn : isNaN x = true
  · rw [if_pos hn, if_pos hn]; left; rfl
  rw [if_neg hn, if_neg hn, if_neg (by decide : ¬ (isNaN 0 = true))]
  by_cases h1 : flt x 0 = true
  · rw [if_pos h1, if_pos h1]; left; rfl
  rw [if_neg h1, if_neg h1]
  by_cases h2 : flt 0 x = true
  · rw [if_pos h2, if_pos h2]; left; rfl
  rw [if_neg h2, if_neg h2]
  have hn' : isNaN x = false := by simpa using hn
  have hk0 : key 0 = 0 := by decide
  have hnan0 : isNaN 0 = false := by decide
  simp only [flt, hn', hnan0, hk0, Bool.not_false, Bool.true_and, decide_eq_true_eq] at h1 h2
  have hk : key x = 0 := by omega
  have hx : Zeroish x := by
    by_cases hs : x < signBit
    · rw [key_of_lt x hs] at hk; left; omega
    · rw [key_of_ge x (by omega)] at hk; right; omega
  right
  constructor
  · cases t
    · left; rfl
    · exact hx
  · cases t'
    · left; rfl
    · exact hx

theorem clamp_zeq (t t' : Bool) (x : Nat) : ZEq (clamp0Max t x) (clamp0Max t' x) := by
  unfold clamp0Max
  have hz : ∀ y, Zeroish y → fmin y c65408 = y := by
    intro y hy
    rcases hy with rfl | rfl <;> decide
  rcases fmax0_zeq t t' x with h | ⟨h1, h2⟩
  · rw [h]; left; rfl
  · rw [hz _ h1, hz _ h2]; right; exact ⟨h1, h2⟩

theorem mantOf_zeq (c c' : Nat) (n : Int) (h : ZEq c c') (h1 : -126 ≤ n) (h2 : n ≤ 127) :
    mantOf c (twoPowi n) = mantOf c' (twoPowi n) := by
  rcases h with h | ⟨z1, z2⟩
  · rw [h]
  · rw [mantOf_zero c n z1 h1 h2, mantOf_zero c' n z2 h1 h2]

/-- **the zero sign is irrelevant**: any two choices of the operand `f32::max` returns on a tie
give the same fields, hence the same word -/
theorem fields_tie_irrelevant (t t' : Nat → Bool) (r g b : Nat) : fields t r g b = fields t' r g b := by
  unfold fields
  dsimp only
  have cr := clamp_spec (t 0) r; have cr' := clamp_spec (t' 0) r; have zr := clamp_zeq (t 0) (t' 0) r
  have cg := clamp_spec (t 1) g; have cg' := clamp_spec (t' 1) g; have zg := clamp_zeq (t 1) (t' 1) g
  have cb := clamp_spec (t 2) b; have cb' := clamp_spec (t' 2) b; have zb := clamp_zeq (t 2) (t' 2) b
  generalize clamp0Max (t 0) r = r1 at *
  generalize clamp0Max (t' 0) r = r2 at *
  generalize clamp0Max (t 1) g = g1 at *
  generalize clamp0Max (t' 1) g = g2 at *
  generalize clamp0Max (t 2) b = b1 at *
  generalize clamp0Max (t' 2) b = b2 at *
  have c1 := (fmax_clamped (t 3) r1 g1 cr cg).1
  have c2 := (fmax_clamped (t' 3) r2 g2 cr' cg').1
  have z1 := fmax_zeq (t 3) (t' 3) r1 r2 g1 g2 cr cr' cg cg' zr zg
  have zm := fmax_zeq (t 4) (t' 4) _ _ b1 b2 c1 c2 cb cb' z1 zb
  generalize fmax (t 4) (fmax (t 3) r1 g1) b1 = mx at *
  generalize fmax (t' 4) (fmax (t' 3) r2 g2) b2 = mx' at *
  rcases zm with hm | ⟨hz, hz'⟩
  · subst hm
    by_cases hzero : (isZero mx || isSubnormal mx) = true
    · rw [if_pos hzero, if_pos hzero]
    rw [if_neg hzero, if_neg hzero]
    generalize (max (((mx >>> 23 &&& 255 : Nat) : Int) - 127 + 16) 0).toNat = exp
    by_cases he : 31 < exp
    · rw [if_pos he, if_pos he]
    rw [if_neg he, if_neg he, scaleOf_eq exp (by omega)]
    dsimp only
    rw [mantOf_zeq r1 r2 _ zr (by omega) (by omega), mantOf_zeq g1 g2 _ zg (by omega) (by omega),
      mantOf_zeq b1 b2 _ zb (by omega) (by omega)]
    by_cases he1 : 31 < exp + 1
    · simp only [he1, if_true]
    · simp only [he1, if_false]
      rw [scaleOf_eq (exp + 1) (by omega)]
      dsimp only
      rw [mantOf_zeq r1 r2 _ zr (by omega) (by omega), mantOf_zeq g1 g2 _ zg (by omega) (by omega),
        mantOf_zeq b1 b2 _ zb (by omega) (by omega)]
  · have i1 : isZero mx = true := by rcases hz with rfl | rfl <;> decide
    have i2 : isZero mx' = true := by rcases hz' with rfl | rfl <;> decide
    simp only [i1, i2, Bool.true_or, if_true]

theorem fromF32_tie_irrelevant (t t' : Nat → Bool) (r g b : Nat) :
    fromF32 t r g b = fromF32 t' r g b := by
  unfold fromF32
  rw [fields_tie_irrelevant t t' r g b]

end Dds.EncTotal.SharedExp
