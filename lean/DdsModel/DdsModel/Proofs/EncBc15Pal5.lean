/-
C13: complete evaluation of the encoder's binary32 palette against the decoder's 8-bit palette (generated; the
checkers are in `Proofs/EncBc15Palette.lean`): 5-bit channel pairs, all 32 x 32.
-/
import DdsModel.Proofs.EncBc15Palette
namespace Dds.Enc15
open Dds Dds.Bc

theorem pal5_all : allRange (chkPair 31 Conv.n5f32 third5 mid5) 6 0 1024 = true := by decide +kernel

end Dds.Enc15
