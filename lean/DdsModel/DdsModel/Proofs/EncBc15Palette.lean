/-
C13, BC1–BC5 encoder core: the encoder's OWN palette, evaluated in binary32 (`Palette::new_p4`, `Palette::new_p3` of
bc1.rs over `n5::f32` / `n6::f32`), against the decoder's 8-bit palette (`Bc.lean`, = the exact rational entries of
`BcSpec.lean` rounded to nearest).  Complete evaluation over the 32 × 32 and 64 × 64 endpoint pairs (`decide +kernel`
with the binary-splitting checker of `Range.lean`), in integer arithmetic: a finite binary32 value is `mant / 2^(−expo)`.
-/
import DdsModel.EncBc15
import DdsModel.Range
import DdsModel.Proofs.Bc
namespace Dds.Enc15
open Dds Dds.Bc Dds.Enc13

/-- `f32Frac v` is the value of `v` -/
theorem f32Frac_spec (v : Nat) (h : f32Small v = true) :
    CF32.toRat v = ((f32Frac v).1 : Rat) / ((f32Frac v).2 : Rat) := by
  unfold f32Small at h
  simp only [Bool.and_eq_true, decide_eq_true_eq] at h
  obtain ⟨hfin, hexp⟩ := h
  have hE : CF32.expField v < 255 := by
    unfold CF32.expField
    have : v < 0x7F800000 := hfin
    rw [Nat.shiftRight_eq_div_pow]
    omega
  have hneg : CF32.isNeg v = false := by
    unfold CF32.isNeg CF32.signBit
    have : v < 0x7F800000 := hfin
    exact decide_eq_false (by omega)
  unfold CF32.toRat f32Frac
  have h1 : (CF32.expField v == 255) = false := by
    rw [beq_eq_false_iff_ne]; omega
  simp only [h1, hneg, Bool.false_eq_true, if_false]
  unfold CF32.pow2
  rw [if_neg (by omega)]
  rw [Rat.div_def, Rat.div_def, Rat.one_mul]

/-- one palette entry `v` (f32) against the decoder's 8-bit value `d` and the exact entry `n / den` -/
def okEntry (v d n den : Nat) : Bool :=
  CF32.force v fun v => f32Small v && f32Nearest8 v == d && f32Within22 v n den

/-- entries 2 and 3 of P4 and entry 2 of P3 over the channel pair `(a, b)` of `m + 1` levels, against the decoder's
integer palette (`third`, `mid` = `Bc.third5/6`, `Bc.mid5/6`) -/
def chkPair (m : Nat) (conv : Nat → Nat) (third mid : Nat → Nat → Nat) (x : Nat) : Bool :=
  let a := x / (m + 1)
  let b := x % (m + 1)
  CF32.force (conv a) fun c0 => CF32.force (conv b) fun c1 =>
  okEntry (p4Entry c0 c1 2) (third a b) (2 * a + b) (3 * m) &&
  okEntry (p4Entry c0 c1 3) (third b a) (a + 2 * b) (3 * m) &&
  okEntry (p3Entry c0 c1 2) (mid a b) (a + b) (2 * m)

/-- entries 0 and 1: the endpoint itself -/
def chkEnd (m : Nat) (conv : Nat → Nat) (n8 : Nat → Nat) (a : Nat) : Bool :=
  CF32.force (conv a) fun c => okEntry c (n8 a) a m

theorem chkEnd5_all : allRange (chkEnd 31 Conv.n5f32 n5n8) 2 0 32 = true := by decide +kernel
theorem chkEnd6_all : allRange (chkEnd 63 Conv.n6f32 n6n8) 2 0 64 = true := by decide +kernel

/-! ### BC4-type palettes (bc4.rs `Inter6Palette::closest`, `Inter4Palette::new`) over all endpoint pairs -/

/-- the exact value is the tie `d − 1/2` (then the decoder shows `d` and the f32 value may sit just below) -/
def isTie (n den d : Nat) : Bool := 510 * n + den == 2 * d * den

/-- as `okEntry`, an exact tie of the exact entry excepted from the rounding clause -/
def okEntryT (v d n den : Nat) : Bool :=
  CF32.force v fun v => CF32.force d fun d =>
  f32Small v && (f32Nearest8 v == d || isTie n den d) && f32Within22 v n den

/-- endpoint bytes of the levels `(l0, l1)` -/
def byteOf (snorm : Bool) (l : Nat) : Nat := if snorm then fromNorm l else l
def opsOf (snorm : Bool) : Bc4Ops := if snorm then bc4sOps .u8 else bc4uOps .u8
def denOf (snorm : Bool) : Nat := if snorm then 254 else 255

/-- the decoder's 8-bit palette entry `k` of the pair with levels `(l0, l1)` -/
def dec4 (snorm six : Bool) (l0 l1 k : Nat) : Nat :=
  bc4Lut (opsOf snorm) ((opsOf snorm).fromByte (byteOf snorm l0)) ((opsOf snorm).fromByte (byteOf snorm l1)) l0 l1 six k

/-- six-interpolant pair `l0 > l1` (`x = 256·l0 + l1`): for every step `j` the value `closest` computes,
`j as f32 * factor2 + c1`, `j = 1..7`, against the decoder's entry of the index `INDEX_MAP[j]` and the exact
`(j·l0 + (7−j)·l1)/(7·m)` (step 0 is `0.0 * factor2 + c1`; adding a zero makes the software float align 150-bit integers, whose
`Nat.log2` the kernel evaluates in seconds, so it is left to the compiled evaluation) -/
def chk6Pair (snorm : Bool) (x : Nat) : Bool :=
  let l0 := x / 256
  let l1 := x % 256
  if l0 ≤ l1 ∨ l0 > denOf snorm then true else
  let e := endpointsOfBytes snorm (byteOf snorm l0) (byteOf snorm l1)
  CF32.force e.c0f fun c0f => CF32.force e.c1f fun c1f =>
  let p := Inter6Palette.new c0f c1f
  CF32.force p.factor2 fun f2 =>
  (List.range' 1 7).all fun j =>
    okEntryT (CF32.fadd (CF32.fmul (CF32.ofNat j) f2) c1f) (dec4 snorm true l0 l1 (INDEX_MAP.getD j 0))
      (j * l0 + (7 - j) * l1) (7 * denOf snorm)

/-- numerator / denominator of the exact entry `k` of the four-interpolant palette over the levels `(l0, l1)` of `m` -/
def num4 (l0 l1 m k : Nat) : Nat :=
  if k = 0 then l0 else if k = 1 then l1 else if k = 6 then 0 else if k = 7 then 1 else (6 - k) * l0 + (k - 1) * l1
def den4 (m k : Nat) : Nat := if k = 0 ∨ k = 1 then m else if k = 6 ∨ k = 7 then 1 else 5 * m

/-- four-interpolant pair `l0 < l1` (`x = 256·l0 + l1`): `Inter4Palette::new(c0, c1).colors[k]` against the decoder's
entry `k` and the exact `((6−k)·l0 + (k−1)·l1)/(5·m)`, `0`, `1` -/
def chk4Pair (snorm : Bool) (x : Nat) : Bool :=
  let l0 := x / 256
  let l1 := x % 256
  if l1 ≤ l0 ∨ l1 > denOf snorm then true else
  let e := endpointsOfBytes snorm (byteOf snorm l0) (byteOf snorm l1)
  CF32.force e.c0f fun c0f => CF32.force e.c1f fun c1f =>
  (List.range 8).all fun k =>
    okEntryT ((inter4Colors c0f c1f).getD k 0) (dec4 snorm false l0 l1 k) (num4 l0 l1 (denOf snorm) k) (den4 (denOf snorm) k)

/-- the sub-domain of endpoint-level pairs `(hi, lo)`, `lo ≥ 1`, the BC4 palette theorem covers: `kind 0`: `(m, i + 1)`
(high endpoint at the top), `kind 1`: `(i + 2, i + 1)` (adjacent levels) -/
def subPair (snorm : Bool) (kind i : Nat) : Nat × Nat :=
  if kind = 0 then (denOf snorm, i + 1) else (i + 2, i + 1)

def chk6Sub (snorm : Bool) (kind i : Nat) : Bool := chk6Pair snorm (256 * (subPair snorm kind i).1 + (subPair snorm kind i).2)
def chk4Sub (snorm : Bool) (kind i : Nat) : Bool := chk4Pair snorm (256 * (subPair snorm kind i).2 + (subPair snorm kind i).1)

end Dds.Enc15
