/-
C03x glue, part 3: lemmas shared by all BC7 modes — dispatch on the mode, spec endpoints are bytes, weight lookup +
interpolation, the spec's index rule as positional reads for 1 / 2 / 3 subsets.
-/
import DdsModel.Proofs.Bc7GlueIndex
import DdsModel.Proofs.Bc7GlueAnchors
namespace Dds.Bc7
open Dds.BcTables Dds.Bc7Spec

/-! ### small list facts -/
theorem range2 : List.range 2 = [0, 1] := rfl
theorem range3 : List.range 3 = [0, 1, 2] := rfl
theorem range4 : List.range 4 = [0, 1, 2, 3] := rfl
theorem range6 : List.range 6 = [0, 1, 2, 3, 4, 5] := rfl

theorem px_rdN (k c b p i : Nat) (hi : i < k) : px (rdN k c b p) i = rd b (p + i * c) c := rdN_getD k c b p i hi

theorem map_range16_congr {α : Type} (f g : Nat → α) (h : ∀ i, i < 16 → f i = g i) :
    (List.range 16).map f = (List.range 16).map g :=
  List.map_congr_left (fun i hi => h i (List.mem_range.mp hi))

/-! ### mode dispatch -/

theorem modeOf_le (b : Nat) : modeOf b ≤ 8 := by
  rw [modeOf_mod]
  have : ∀ x, x < 256 → modeOf x ≤ 8 := by decide +kernel
  exact this _ (Nat.mod_lt _ (by decide))

theorem extractMode_eq (b : Nat) : extractMode b = (modeOf b, b >>> (modeOf b + 1)) := by
  have h := mode_by_trailing_zeros b
  simp only [extractMode] at h ⊢
  rw [h]

theorem spec_decodeBlock_mode (b m : Nat) (r : ModeRec) (h : modeOf b = m) (hr : modes[m]? = some r) :
    Bc7Spec.decodeBlock b = decodeMode m r b := by
  simp only [Bc7Spec.decodeBlock, h, hr]

/-! ### spec endpoints are bytes -/

theorem raw_p_lt (n raw p : Nat) (h : raw < 2 ^ n) (hp : p < 2 ^ 1) : raw * 2 + p < 2 ^ (n + 1) := by
  rw [Nat.pow_succ]; omega

theorem endpoint_lt (m : Nat) (r : ModeRec) (b e c : Nat) (hr : r ∈ modes) : endpoint m r b e c < 256 := by
  simp only [modes, List.mem_cons, List.not_mem_nil, or_false] at hr
  rcases hr with h | h | h | h | h | h | h | h <;> subst h <;> simp only [endpoint] <;>
    (by_cases hc : c = 3
     · subst hc
       simp only [true_and, if_true, Nat.reduceEqDiff, if_false, Nat.reduceAdd, Nat.zero_ne_one]
       first
        | decide
        | exact expand_lt _ (by decide) (by decide) _ (rd_lt _ _ _)
        | exact expand_lt _ (by decide) (by decide) _ (raw_p_lt _ _ _ (rd_lt _ _ _) (rd_lt _ _ _))
     · simp only [hc, false_and, if_false, Nat.reduceEqDiff, if_true, Nat.reduceAdd, Nat.zero_ne_one]
       first
        | exact expand_lt _ (by decide) (by decide) _ (rd_lt _ _ _)
        | exact expand_lt _ (by decide) (by decide) _ (raw_p_lt _ _ _ (rd_lt _ _ _) (rd_lt _ _ _)))

/-! ### endpoint widening on header fields -/

/-- the spec's endpoint table of a mode: `ne` endpoints × RGBA -/
def epTable (m : Nat) (r : ModeRec) (b ne : Nat) : List (List Nat) :=
  (List.range ne).map fun e => (List.range 4).map fun c => endpoint m r b e c

theorem ep_epTable (m : Nat) (r : ModeRec) (b ne e : Nat) (h : e < ne) :
    ep (epTable m r b ne) e = [endpoint m r b e 0, endpoint m r b e 1, endpoint m r b e 2, endpoint m r b e 3] := by
  simp [ep, epTable, List.getD_eq_getElem?_getD, h, range4]

theorem rd_zero (b p : Nat) : rd b p 0 = 0 := Nat.mod_one _

theorem px4 (a0 a1 a2 a3 : Nat) :
    px [a0, a1, a2, a3] 0 = a0 ∧ px [a0, a1, a2, a3] 1 = a1 ∧ px [a0, a1, a2, a3] 2 = a2 ∧ px [a0, a1, a2, a3] 3 = a3 :=
  ⟨rfl, rfl, rfl, rfl⟩

theorem px_cons0 (a : Nat) (l : List Nat) : px (a :: l) 0 = a := rfl
theorem px_cons1 (a c : Nat) (l : List Nat) : px (a :: c :: l) 1 = c := rfl

theorem withP_rd (b p q n : Nat) (hn : n ≤ 7) : withP (rd b p n) (rd b q 1) = rd b p n * 2 + rd b q 1 :=
  withP_eq _ (Nat.lt_of_lt_of_le (rd_lt b p n) (Nat.pow_le_pow_right (by decide) hn : 2 ^ n ≤ 2 ^ 7)) _ (rd_lt b q 1)

theorem promote_rd (b p n : Nat) (h4 : 4 ≤ n) (h8 : n < 8) : promote (rd b p n) n = expand n (rd b p n) :=
  promote_eq_replicate n h8 h4 _ (rd_lt b p n)

theorem promote_rdp (b p q n : Nat) (h4 : 3 ≤ n) (h8 : n < 7) :
    promote (rd b p n * 2 + rd b q 1) (n + 1) = expand (n + 1) (rd b p n * 2 + rd b q 1) :=
  promote_eq_replicate (n + 1) (by omega) (by omega) _ (raw_p_lt _ _ _ (rd_lt b p n) (rd_lt b q 1))

theorem expand8_rdp (b p q : Nat) : expand 8 (rd b p 7 * 2 + rd b q 1) = rd b p 7 * 2 + rd b q 1 :=
  expand8 _ (raw_p_lt 7 _ _ (rd_lt b p 7) (rd_lt b q 1))

theorem expand8_rd (b p : Nat) : expand 8 (rd b p 8) = rd b p 8 := expand8 _ (rd_lt b p 8)

/-! ### weights + interpolation -/

theorem lerpW (k e0 e1 idx : Nat) (hk : k = 2 ∨ k = 3 ∨ k = 4) (h0 : e0 < 256) (h1 : e1 < 256) (hi : idx < 2 ^ k) :
    lerp e0 e1 ((if k = 2 then WEIGHTS_2 else if k = 3 then WEIGHTS_3 else WEIGHTS_4).getD idx 0) =
      interp e0 e1 ((specWeights k).getD idx 0) := by
  rcases hk with h | h | h <;> subst h <;> simp only [specWeights, Nat.reduceEqDiff, if_true, if_false]
  · obtain ⟨h4, h64⟩ := weights_x4.1 idx hi
    rw [h4]; exact lerp_eq_interp e0 e1 _ h0 h1 h64
  · obtain ⟨h4, h64⟩ := weights_x4.2.1 idx hi
    rw [h4]; exact lerp_eq_interp e0 e1 _ h0 h1 h64
  · obtain ⟨h4, h64⟩ := weights_x4.2.2 idx hi
    rw [h4]; exact lerp_eq_interp e0 e1 _ h0 h1 h64

/-! ### the code's index words against the spec's anchor rule -/

theorem rd_lt_of_le (b p w n : Nat) (h : w ≤ n) : rd b p w < 2 ^ n :=
  Nat.lt_of_lt_of_le (rd_lt b p w) (Nat.pow_le_pow_right (by decide) h)

/-- one subset -/
theorem index_impl1 (bits b P n part i : Nat) (hb : bits = 2 ∨ bits = 3 ∨ bits = 4) (hi : i < 16)
    (hn : n ≠ 2) (hn' : n ≠ 3) :
    getIndex (newP1 bits (b >>> P)).1 i =
      rd b (P + i * bits - anchorsBefore n part i) (if specIsAnchor n part i then bits - 1 else bits) := by
  obtain ⟨ha, hs⟩ := anchors1 n part i hn hn' hi
  rw [(newP1_index bits b P i hb hi).1, ha]
  by_cases h0 : i = 0
  · have : specIsAnchor n part i = true := hs.mpr h0
    rw [this]; subst h0
    simp only [if_true, Nat.lt_irrefl, if_false]
  · have : specIsAnchor n part i = false := by
      cases h : specIsAnchor n part i
      · rfl
      · exact absurd (hs.mp h) h0
    simp only [h0, this, if_false, show 0 < i by omega, if_true, Bool.false_eq_true]

/-- two subsets, fix-up from the code's partition table -/
theorem index_impl2 (bits b P part i : Nat) (hb : bits = 2 ∨ bits = 3 ∨ bits = 4) (hi : i < 16) (hp : part < 64) :
    getIndex (newP2 bits (b >>> P) (implP2 part).2).1 i =
      rd b (P + i * bits - anchorsBefore 2 part i) (if specIsAnchor 2 part i then bits - 1 else bits) := by
  obtain ⟨ha, hs, _, _, hf, hf'⟩ := anchors2 part i hp hi
  rw [(newP2_index bits b P _ i hb hi hf hf').1, ha]
  by_cases h0 : i = 0 ∨ i = (implP2 part).2
  · have : specIsAnchor 2 part i = true := hs.mpr h0
    simp only [h0, this, if_true]
  · have : specIsAnchor 2 part i = false := by
      cases h : specIsAnchor 2 part i
      · rfl
      · exact absurd (hs.mp h) h0
    simp only [h0, this, if_false, Bool.false_eq_true]

/-- three subsets -/
theorem index_impl3 (bits b P part i : Nat) (hb : bits = 2 ∨ bits = 3) (hi : i < 16) (hp : part < 64) :
    getIndex (newP3 bits (b >>> P) (implP3 part).2.1 (implP3 part).2.2).1 i =
      rd b (P + i * bits - anchorsBefore 3 part i) (if specIsAnchor 3 part i then bits - 1 else bits) := by
  obtain ⟨ha, hs, _, _, hf, hf23, hf'⟩ := anchors3 part i hp hi
  rw [(newP3_index bits b P _ _ i hb hi hf hf23 hf').1, ha]
  by_cases h0 : i = 0 ∨ i = (implP3 part).2.1 ∨ i = (implP3 part).2.2
  · have : specIsAnchor 3 part i = true := hs.mpr h0
    simp only [h0, this, if_true]
  · have : specIsAnchor 3 part i = false := by
      cases h : specIsAnchor 3 part i
      · rfl
      · exact absurd (hs.mp h) h0
    simp only [h0, this, if_false, Bool.false_eq_true]

/-- the spec's primary index is below `2 ^ idxBits` -/
theorem index1_lt (m : Nat) (r : ModeRec) (b part i : Nat) : index1 m r b part i < 2 ^ r.idxBits := by
  unfold index1
  apply rd_lt_of_le
  split <;> omega

/-- secondary index (modes 4 and 5): code = spec -/
theorem index_impl_sec (m : Nat) (r : ModeRec) (b i : Nat) (hb : r.idx2Bits = 2 ∨ r.idx2Bits = 3) (hi : i < 16) :
    getIndex (newP1 r.idx2Bits (b >>> idx2Start m r)).1 i = index2 m r b i := by
  rw [(newP1_index r.idx2Bits b _ i (by omega) hi).1]
  unfold index2
  by_cases h0 : i = 0
  · subst h0; simp only [if_true, Nat.zero_mul, Nat.add_zero, Nat.sub_zero]
  · simp only [h0, if_false]

theorem index2_lt (m : Nat) (r : ModeRec) (b i : Nat) : index2 m r b i < 2 ^ r.idx2Bits := by
  unfold index2
  split <;> apply rd_lt_of_le <;> omega

theorem lerpW2 (e0 e1 idx : Nat) (h0 : e0 < 256) (h1 : e1 < 256) (hi : idx < 2 ^ 2) :
    lerp e0 e1 (WEIGHTS_2.getD idx 0) = interp e0 e1 (specW2.getD idx 0) := lerpW 2 e0 e1 idx (by omega) h0 h1 hi
theorem lerpW3 (e0 e1 idx : Nat) (h0 : e0 < 256) (h1 : e1 < 256) (hi : idx < 2 ^ 3) :
    lerp e0 e1 (WEIGHTS_3.getD idx 0) = interp e0 e1 (specW3.getD idx 0) := lerpW 3 e0 e1 idx (by omega) h0 h1 hi
theorem lerpW4 (e0 e1 idx : Nat) (h0 : e0 < 256) (h1 : e1 < 256) (hi : idx < 2 ^ 4) :
    lerp e0 e1 (WEIGHTS_4.getD idx 0) = interp e0 e1 (specW4.getD idx 0) := lerpW 4 e0 e1 idx (by omega) h0 h1 hi

theorem specSubset1 (p i : Nat) : specSubset 1 p i = 0 := by simp [specSubset]

theorem rotate4 (rot a0 a1 a2 a3 : Nat) :
    rotate rot [a0, a1, a2, a3] = swapChannels [a0, a1, a2, a3] rot := by
  simp only [rotate, swapChannels, px4]

end Dds.Bc7
