/-
C01, reader ⊑ cursor (1/3): one `decode` / `decode_rect` / `io_skip_exact` over an ARBITRARY stream.

`C06.io_error_or_exact_success` / `C06.success_consumes_exactly` / `C07.memory_limit_exceeded_iff` speak
about an allocator that grants and a limit that covers the need.  The composition theorem needs the
same facts for every allocator and every limit, in the form "what does each result kind tell about
the reader position and the stream":
* `ok`        ⇒ the reader moved by exactly the encoded length of the surface,
* `memLimit`  ⇒ the reader did not move, and the limit is below the need or the allocator refused,
* `ioError`   ⇒ the first offset the stream cannot deliver lies before the end of the surface,
* nothing else is returned by an accepted call.
-/
import DdsModel.Reader
import DdsModel.Theorems.C07
namespace Dds.Reader
open Dds Dds.Stream

/-- `ok` means every reader operation succeeded: the reader moved by exactly `span ops`
(any allocator, any budget) -/
theorem interp_ok_pos (e : Env) : ∀ (ops : List Stream.Op) (ps : List (List Nat)) (st : St),
    noPanic ops → span ops ≤ I64MAX → st.pos + span ops < U64 → (interp e ps ops st).1 = .ok →
    (interp e ps ops st).2.pos = st.pos + span ops := by
  intro ops
  induction ops with
  | nil => intro ps st _ _ _ _; simp [interp, span]
  | cons o ops ih =>
    intro ps st hnp hspan hU hok
    cases o with
    | panic => exact hnp.elim
    | alloc n =>
      simp only [interp] at hok ⊢
      by_cases hb : st.budget < n % U64
      · rw [if_pos hb] at hok; cases hok
      · rw [if_neg hb] at hok ⊢
        by_cases ha : e.allocOk (n % U64) = true
        · rw [if_pos ha] at hok ⊢
          have := ih ps { st with budget := st.budget - n % U64, calls := n % U64 :: st.calls } hnp
            (by simpa [span] using hspan) (by simpa [span] using hU) hok
          simpa [span] using this
        · rw [if_neg ha] at hok; cases hok
    | skip n =>
      simp only [span] at hspan hU ⊢
      rw [interp_skip] at hok ⊢
      by_cases hr : (skipExact e st.pos n).1 = true
      · have hp := skipExact_true (by omega) (by omega) hr
        rw [if_pos hr, hp] at hok ⊢
        have := ih ps (st.moved (st.pos + n) .seek) hnp (by omega) (by rw [moved_pos]; omega) hok
        rw [moved_pos] at this
        rw [this]; omega
      · rw [if_neg hr] at hok; cases hok
    | read n =>
      simp only [span] at hspan hU ⊢
      rw [interp_read] at hok ⊢
      by_cases hr : (readSpec e st.pos n).1 = true
      · have hp := (readSpec_true hr).1
        rw [if_pos hr, hp] at hok ⊢
        have := ih ps.tail (st.moved (st.pos + n) .read) hnp (by omega) (by rw [moved_pos]; omega) hok
        rw [moved_pos] at this
        rw [this]; omega
      · rw [if_neg hr] at hok; cases hok

/-- on a stream that delivers every byte up to `st.pos + span ops` no reader operation fails, whatever
the allocator and the budget do -/
theorem interp_intact_no_io (e : Env) (hlen : e.len < U64) :
    ∀ (ops : List Stream.Op) (ps : List (List Nat)) (st : St), noPanic ops → span ops ≤ I64MAX →
      st.pos + span ops ≤ e.lim → (interp e ps ops st).1 ≠ .ioError := by
  intro ops
  induction ops with
  | nil => intro ps st _ _ _; simp [interp]
  | cons o ops ih =>
    intro ps st hnp hspan hfit
    cases o with
    | panic => exact hnp.elim
    | alloc n =>
      simp only [interp]
      by_cases hb : st.budget < n % U64
      · rw [if_pos hb]; simp
      · rw [if_neg hb]
        by_cases ha : e.allocOk (n % U64) = true
        · rw [if_pos ha]
          exact ih ps _ hnp (by simpa [span] using hspan) (by simpa [span] using hfit)
        · rw [if_neg ha]; simp
    | skip n =>
      simp only [span] at hspan hfit
      rw [interp_skip, skipExact_ok (by omega) (by omega) hlen]
      simp only [if_true]
      exact ih ps (st.moved (st.pos + n) .seek) hnp (by omega) (by rw [moved_pos]; omega)
    | read n =>
      simp only [span] at hspan hfit
      rw [interp_read, readSpec_ok (by omega)]
      simp only [if_true]
      exact ih ps.tail (st.moved (st.pos + n) .read) hnp (by omega) (by rw [moved_pos]; omega)

/-- **What each result of an accepted `decode` / `decode_rect` says**, on every stream (any length,
fault, early end, seek behaviour), for every allocator and every memory limit. -/
theorem run_facts {f : Fam} (hf : f.WF) (c : Colour) (call : Call) {ops : List Stream.Op}
    (hplan : plan f c call = .ok ops) (e : Env) (pos limit : Nat) (hU : pos + call.bytes f < U64) :
    ((Stream.run e [] (plan f c call) pos limit).1 = .ok ∨
      (Stream.run e [] (plan f c call) pos limit).1 = .ioError ∨
      (Stream.run e [] (plan f c call) pos limit).1 = .memLimit) ∧
    ((Stream.run e [] (plan f c call) pos limit).1 = .ok →
      (Stream.run e [] (plan f c call) pos limit).2.pos = pos + call.bytes f) ∧
    ((Stream.run e [] (plan f c call) pos limit).1 = .memLimit →
      (Stream.run e [] (plan f c call) pos limit).2.pos = pos ∧
      (limit < need ops ∨ ¬ C06.AllocatorGrants e)) ∧
    ((Stream.run e [] (plan f c call) pos limit).1 = .ioError → e.len < U64 →
      e.lim < pos + call.bytes f) := by
  obtain ⟨fa, hb⟩ := plan_facts hf hplan
  have hmem := fun hg => C07.memory_limit_exceeded_iff hf c call hplan e [] pos limit hg
  rw [hplan] at hmem ⊢
  simp only [Stream.run] at hmem ⊢
  have hnp := allocFirst_noPanic fa.af
  have hsp : span ops ≤ I64MAX := by rw [fa.sp, ← ISIZE_MAX_eq]; exact hb
  refine ⟨?_, ?_, ?_, ?_⟩
  · rcases interp_allocFirst e ops [] { pos := pos, budget := limit } fa.af with h | h | h
    · exact Or.inl h
    · exact Or.inr (Or.inl h)
    · exact Or.inr (Or.inr h.1)
  · intro hok
    have := interp_ok_pos e ops [] { pos := pos, budget := limit } hnp hsp (by rw [fa.sp]; exact hU) hok
    rw [fa.sp] at this; exact this
  · intro hm
    refine ⟨?_, ?_⟩
    · rcases interp_allocFirst e ops [] { pos := pos, budget := limit } fa.af with h | h | h
      · rw [h] at hm; cases hm
      · rw [h] at hm; cases hm
      · exact h.2.1
    · by_cases hg : C06.AllocatorGrants e
      · exact Or.inl ((hmem hg).1 hm)
      · exact Or.inr hg
  · intro hio hlen
    apply Nat.lt_of_not_le
    intro hfit
    exact interp_intact_no_io e hlen ops [] { pos := pos, budget := limit } hnp hsp
      (by rw [fa.sp]; exact hfit) hio

/-- a rect that is not inside the surface is rejected before anything else happens (the surface itself
being acceptable) -/
theorem plan_rect_outside {f : Fam} (c : Colour) (W H x y w h : Nat)
    (hc : checkLikelyOverflow f W H = true)
    (hout : ¬ (if w = 0 ∨ h = 0 then x ≤ W ∧ y ≤ H else x + w ≤ W ∧ y + h ≤ H)) :
    plan f c (.rect W H x y w h) = .error .rectOutOfBounds := by
  simp only [plan, hc, Bool.true_eq_false, if_false]
  by_cases he : w = 0 ∨ h = 0
  · rw [if_pos he] at hout ⊢; rw [if_neg hout]
  · rw [if_neg he] at hout ⊢; rw [if_neg hout]

/-- `io_skip_exact` on an arbitrary stream: success moves by exactly `n`; failure means the stream
cannot deliver every byte up to `pos + n` -/
theorem skipExact_facts (e : Env) (pos n : Nat) (hn : n ≤ I64MAX) (hU : pos + n < U64) :
    ((skipExact e pos n).1 = true → (skipExact e pos n).2 = pos + n) ∧
    ((skipExact e pos n).1 = false → e.len < U64 → e.lim < pos + n) := by
  refine ⟨skipExact_true hn hU, ?_⟩
  intro hfalse hlen
  apply Nat.lt_of_not_le
  intro hfit
  rw [skipExact_ok hn hfit hlen] at hfalse
  cases hfalse

end Dds.Reader
