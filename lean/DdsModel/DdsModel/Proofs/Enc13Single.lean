/-
C13, single values on the remaining discrete encoder paths:
  * BC4/BC5 SNORM: the `closest` branch of `single_color` (src/encode/bc4.rs lines 156–162 with
    `EndPoints::new_closest(value, snorm = true)`, lines 401–411);
  * BC3 alpha of a single-alpha block (a BC4 UNORM block, `Enc13.bc4uSingle`) under ANY colour block;
  * BC2 explicit 4-bit alpha (`bc2_alpha`, src/encode/bc.rs lines 218–239, `n4::from_f32`).

The definitions (`bc4sClosest`, `fromNorm`, `n4FromU8`, `bc2AlphaSingle`, …) live in the model file `Enc13.lean`; the block
bytes they predict are part of the differential tie (`Enc13.predictBlock`: the BC2 alpha bytes of every block without alpha
dithering, the SNORM `closest` block of every constant channel that passes the guard), and the decoded values are judged
by the oracle on every run.  The f32 steps behind the closed forms are proved in `Proofs/Enc13F32.lean`; the per-pixel
BC2 rule for blocks of varying alpha is `Proofs/Enc13Tie.bc2_alpha_block`.
-/
import DdsModel.Enc13
import DdsModel.Proofs.Enc13
import DdsModel.Proofs.BcFinite
namespace Dds.Enc13
open Dds Dds.Bc

/-! ### BC4 / BC5 SNORM -/

theorem fromNorm_norm : ∀ n, n ≤ 254 → s8norm (fromNorm n) = n ∧ fromNorm n < 256 := by
  intro n hn
  have h := allUpTo (fun n => decide (s8norm (fromNorm n) = n ∧ fromNorm n < 256)) 254 (by decide +kernel) n hn
  exact of_decide_eq_true h

/-- the block of the `closest` branch decodes, at all 16 pixels and at every output precision, to exactly the
decoder's value of the endpoint `c0` (SNORM level `n`), for all 255 levels; BC5 SNORM likewise per channel -/
theorem bc4sClosest_decodes : ∀ n, n ≤ 254 →
    Bc.decodeBlock .bc4s .u8 (blkOf (bc4sClosest n)) = List.replicate 16 [s8n8 (fromNorm n)] ∧
    Bc.decodeBlock .bc4s .u16 (blkOf (bc4sClosest n)) = List.replicate 16 [s8n16 (fromNorm n)] := by
  intro n hn
  have h := allUpTo (fun n => decide (
    Bc.decodeBlock .bc4s .u8 (blkOf (bc4sClosest n)) = List.replicate 16 [s8n8 (fromNorm n)] ∧
    Bc.decodeBlock .bc4s .u16 (blkOf (bc4sClosest n)) = List.replicate 16 [s8n16 (fromNorm n)])) 254
    (by decide +kernel) n hn
  exact of_decide_eq_true h

/-- the decoded pixel of `bc4s_gray` only looks at the 8 bytes of its block -/
theorem bc4sPx_congr (ops : Bc4Ops) (blk blk' : Nat → Nat) (h : ∀ i, i < 8 → blk i = blk' i) (p : Nat) (hp : p < 16) :
    bc4sPx ops blk p = bc4sPx ops blk' p := by
  have hq : p / 8 = 0 ∨ p / 8 = 1 := by omega
  unfold bc4sPx bc4Index le24
  rcases hq with hq | hq <;> rw [hq] <;>
    simp only [Nat.mul_zero, Nat.mul_one, Nat.add_zero, Nat.reduceAdd, h 0 (by omega), h 1 (by omega), h 2 (by omega),
      h 3 (by omega), h 4 (by omega), h 5 (by omega), h 6 (by omega), h 7 (by omega)]

theorem bc4sClosest_px : ∀ n, n ≤ 254 → ∀ p, p < 16 →
    bc4sPx (bc4sOps .u8) (blkOf (bc4sClosest n)) p = s8n8 (fromNorm n) := by
  intro n hn p hp
  have h := allUpTo (fun n => (List.range 16).all fun p =>
    decide (bc4sPx (bc4sOps .u8) (blkOf (bc4sClosest n)) p = s8n8 (fromNorm n))) 254 (by decide +kernel) n hn
  exact of_decide_eq_true (List.all_eq_true.mp h p (List.mem_range.mpr hp))

/-- BC5 SNORM: two `closest` blocks side by side (`handle_bc5`: red then green), any pair of levels -/
theorem bc5sClosest_px (n m : Nat) (hn : n ≤ 254) (hm : m ≤ 254) (p : Nat) (hp : p < 16) :
    Bc.px .bc5s .u8 (blkOf (bc4sClosest n ++ bc4sClosest m)) p = [s8n8 (fromNorm n), s8n8 (fromNorm m), 128] := by
  have e1 : bc4sPx (bc4sOps .u8) (blkOf (bc4sClosest n ++ bc4sClosest m)) p = s8n8 (fromNorm n) := by
    rw [bc4sPx_congr _ _ (blkOf (bc4sClosest n)) _ p hp]
    · exact bc4sClosest_px n hn p hp
    · intro i hi
      unfold blkOf
      rw [List.getD_eq_getElem?_getD, List.getD_eq_getElem?_getD,
        List.getElem?_append_left (by simpa [bc4sClosest] using hi)]
  have e2 : bc4sPx (bc4sOps .u8) (upper (blkOf (bc4sClosest n ++ bc4sClosest m))) p = s8n8 (fromNorm m) := by
    rw [bc4sPx_congr _ _ (blkOf (bc4sClosest m)) _ p hp]
    · exact bc4sClosest_px m hm p hp
    · intro i hi
      unfold upper blkOf
      rw [List.getD_eq_getElem?_getD, List.getD_eq_getElem?_getD,
        List.getElem?_append_right (by simp [bc4sClosest])]
      congr 2
  show [bc4sPx (bc4sOps .u8) _ p, bc4sPx (bc4sOps .u8) (upper _) p, (bc4sOps .u8).half] = _
  rw [e1, e2]; rfl

/-- exact-arithmetic reading of the guard for 8-bit UNORM input `v`: with `n = round(254·v/255)`,
`|n/254 − v/255| < 1/65536` holds exactly for `v ∈ {0, 255}` (the smallest other distance is 1/64770).  This is a
statement about rationals, not about the f32 evaluation. -/
theorem snorm_guard_exact_arith : ∀ v, v ≤ 255 →
    (dist (255 * ((2 * 254 * v + 255) / 510)) (254 * v) * 65536 < 254 * 255 ↔ v = 0 ∨ v = 255) := by
  intro v hv
  have h := allUpTo (fun v => decide (dist (255 * ((2 * 254 * v + 255) / 510)) (254 * v) * 65536 < 254 * 255 ↔
    v = 0 ∨ v = 255)) 255 (by decide +kernel) v hv
  exact of_decide_eq_true h

/-! ### BC3 alpha: the BC4 UNORM block of a single alpha under any colour block -/

/-- the decoded pixel of `bc4u_gray` only looks at the 8 bytes of its block -/
theorem bc4uPx_congr (ops : Bc4Ops) (blk blk' : Nat → Nat) (h : ∀ i, i < 8 → blk i = blk' i) (p : Nat) (hp : p < 16) :
    bc4uPx ops blk p = bc4uPx ops blk' p := by
  have hq : p / 8 = 0 ∨ p / 8 = 1 := by omega
  unfold bc4uPx bc4Index le24
  rcases hq with hq | hq <;> rw [hq] <;>
    simp only [Nat.mul_zero, Nat.mul_one, Nat.add_zero, Nat.reduceAdd, h 0 (by omega), h 1 (by omega), h 2 (by omega),
      h 3 (by omega), h 4 (by omega), h 5 (by omega), h 6 (by omega), h 7 (by omega)]

theorem bc4uSingle_px : ∀ a, a ≤ 255 → ∀ p, p < 16 → bc4uPx (bc4uOps .u8) (blkOf (bc4uSingle a)) p = a := by
  intro a ha p hp
  have h := allUpTo (fun a => (List.range 16).all fun p => decide (bc4uPx (bc4uOps .u8) (blkOf (bc4uSingle a)) p = a)) 255
    (by decide +kernel) a ha
  exact of_decide_eq_true (List.all_eq_true.mp h p (List.mem_range.mpr hp))

theorem toStraight_alpha (c : Rgba) : (toStraight c).2.2.2 = c.2.2.2 := rfl
theorem setA_alpha (c : Rgba) (a : Nat) : (setA c a).2.2.2 = a := rfl

/-- BC3 / BC3 premultiplied: a block whose first 8 bytes are `single_color`'s `[a, 0, 0, …]` decodes alpha `a` at all
16 pixels whatever the colour block is -/
theorem bc3_alpha_single (a : Nat) (ha : a ≤ 255) (blk : Nat → Nat) (h : ∀ i, i < 8 → blk i = (bc4uSingle a).getD i 0)
    (p : Nat) (hp : p < 16) :
    (px8 .bc3 blk p).getD 3 0 = a ∧ (px8 .bc3p blk p).getD 3 0 = a := by
  have e : bc4uPx (bc4uOps .u8) blk p = a := by
    rw [bc4uPx_congr _ blk (blkOf (bc4uSingle a)) h p hp]; exact bc4uSingle_px a ha p hp
  constructor
  · show (bc3Px blk p).2.2.2 = a
    unfold bc3Px; rw [setA_alpha]; exact e
  · show (toStraight (bc3Px blk p)).2.2.2 = a
    rw [toStraight_alpha]; unfold bc3Px; rw [setA_alpha]; exact e

/-! ### BC2 explicit alpha -/

/-- the explicit alpha of `bc2_u8_rgba` only looks at the first 8 bytes -/
theorem bc2Alpha_congr (blk blk' : Nat → Nat) (h : ∀ i, i < 8 → blk i = blk' i) (p : Nat) (hp : p < 16) :
    bc2Alpha blk p = bc2Alpha blk' p := by
  unfold bc2Alpha
  rw [h _ (by omega), h _ (by omega)]

theorem bc2AlphaSingle_px : ∀ a, a ≤ 255 →
    bc2AlphaSingle a = List.replicate 8 (17 * n4FromU8 a) ∧
    (∀ p, p < 16 → bc2Alpha (blkOf (bc2AlphaSingle a)) p = 17 * n4FromU8 a) ∧
    n4FromU8 a ≤ 15 ∧ dist (17 * n4FromU8 a) a ≤ 8 ∧ (a % 17 = 0 → 17 * n4FromU8 a = a) := by
  intro a ha
  have h := allUpTo (fun a => decide (bc2AlphaSingle a = List.replicate 8 (17 * n4FromU8 a)) &&
    ((List.range 16).all fun p => decide (bc2Alpha (blkOf (bc2AlphaSingle a)) p = 17 * n4FromU8 a)) &&
    decide (n4FromU8 a ≤ 15) && decide (dist (17 * n4FromU8 a) a ≤ 8) &&
    (decide (a % 17 ≠ 0) || decide (17 * n4FromU8 a = a))) 255 (by decide +kernel) a ha
  simp only [Bool.and_eq_true, Bool.or_eq_true, decide_eq_true_eq, List.all_eq_true, List.mem_range] at h
  obtain ⟨⟨⟨⟨h1, h2⟩, h3⟩, h4⟩, h5⟩ := h
  refine ⟨h1, h2, h3, h4, fun h0 => ?_⟩
  rcases h5 with h5 | h5
  · exact absurd h0 h5
  · exact h5

/-- BC2 / BC2 premultiplied: a block whose first 8 bytes are `bc2_alpha`'s output for constant alpha `a` decodes alpha
`17·round(a/17)` at all 16 pixels whatever the colour block is -/
theorem bc2_alpha_single (a : Nat) (ha : a ≤ 255) (blk : Nat → Nat) (h : ∀ i, i < 8 → blk i = (bc2AlphaSingle a).getD i 0)
    (p : Nat) (hp : p < 16) :
    (px8 .bc2 blk p).getD 3 0 = 17 * n4FromU8 a ∧ (px8 .bc2p blk p).getD 3 0 = 17 * n4FromU8 a := by
  have e : bc2Alpha blk p = 17 * n4FromU8 a := by
    rw [bc2Alpha_congr blk (blkOf (bc2AlphaSingle a)) h p hp]; exact (bc2AlphaSingle_px a ha).2.1 p hp
  constructor
  · show (bc2Px blk p).2.2.2 = _
    unfold bc2Px; rw [setA_alpha]; exact e
  · show (toStraight (bc2Px blk p)).2.2.2 = _
    rw [toStraight_alpha]; unfold bc2Px; rw [setA_alpha]; exact e

end Dds.Enc13
