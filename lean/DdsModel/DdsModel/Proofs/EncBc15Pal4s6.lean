/-
C13: complete evaluation of the encoder's binary32 palette against the decoder's 8-bit palette (generated; the
checkers are in `Proofs/EncBc15Palette.lean`): BC4 SNORM six-interpolant pairs of the sub-domain.
-/
import DdsModel.Proofs.EncBc15Palette
namespace Dds.Enc15
open Dds Dds.Bc

theorem pal4s6_0 : allRange (chk6Sub true 0) 4 0 253 = true := by decide +kernel
theorem pal4s6_1 : allRange (chk6Sub true 1) 4 0 253 = true := by decide +kernel

end Dds.Enc15
