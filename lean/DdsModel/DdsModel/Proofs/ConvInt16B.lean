import DdsModel.Proofs.ConvInt16B0
import DdsModel.Proofs.ConvInt16B1
namespace Dds.ConvProofs
open Dds Dds.Conv Dds.Spec
theorem s16n8_ok : ∀ x, x < 65536 → okInt s16n8 255 (snorm 16) tieZero x = true := by
  intro x h
  by_cases a : x < 32768
  · exact s16n8_half0 x (by omega) (by omega)
  · exact s16n8_half1 x (by omega) (by omega)
end Dds.ConvProofs
