/-
C03x glue (BC6H), part 2: `Bc6.decodeBlock = Bc6Spec.decodeBlock` for every block, signed and unsigned.
-/
import DdsModel.Proofs.Bc6GlueExtract
import DdsModel.Proofs.Bc6GlueArith
set_option linter.unusedSimpArgs false
namespace Dds.Bc6
open Dds.BcTables Dds.Bc6Spec Dds.Bc7

deriving instance DecidableEq for Bc6Spec.ModeRec

/-! ### mode dispatch -/

theorem modeOf_low5 (b : Nat) : Bc6Spec.modeOf b = Bc6Spec.modeOf (b % 32) := by
  have e2 : b % 32 % 2 ^ 2 = b % 2 ^ 2 := Nat.mod_mod_of_dvd _ (by decide)
  have e5 : b % 32 % 2 ^ 5 = b % 2 ^ 5 := Nat.mod_mod_of_dvd _ (by decide)
  simp only [Bc6Spec.modeOf, Bc6Spec.modes, List.find?, e2, e5]

theorem extractMode_snd (b : Nat) : (extractMode b).2 = b >>> (if b % 4 < 2 then 2 else 5) := by
  have e3 : ∀ s, (consumeBits 3 s).2 = s >>> 3 := fun s => by rw [consumeBits_eq 3 s (by decide) (by decide)]
  simp only [extractMode, consumeBits_eq 2 b (by decide) (by decide), Nat.reducePow]
  by_cases h0 : b % 4 = 0
  · simp [h0]
  · by_cases h1 : b % 4 = 1
    · simp [h1]
    · by_cases h2 : b % 4 = 2
      · simp [h2, e3, ← Nat.shiftRight_add]
      · have : ¬ b % 4 < 2 := by omega
        simp only [h0, h1, h2, if_false, this]
        split <;> simp [e3, ← Nat.shiftRight_add]

/-- the mode the code selects, the record the spec selects, and the header start, for all 32 low-bit patterns -/
def dispatchOk (x : Nat) : Bool :=
  match (extractMode x).1 with
  | .two m => decide (Bc6Spec.modeOf x = some (recTwo m)) && decide ((if x % 4 < 2 then 2 else 5) = (recTwo m).modeBits)
  | .one m => decide (Bc6Spec.modeOf x = some (recOne m)) && decide ((if x % 4 < 2 then 2 else 5) = 5)
  | .invalid => decide (Bc6Spec.modeOf x = none)

theorem dispatchOk_true : ∀ x, x < 32 → dispatchOk x = true := by decide +kernel

/-! ### value level: palette entry of one channel -/

theorem palette_getD (W : List Nat) (a b : Int) (prec : Nat) (signed : Bool) (idx : Nat) (h : idx < W.length) :
    (palette W a b prec signed).getD idx 0 =
      paletteEntry (Bc6.unquantize a prec signed) (Bc6.unquantize b prec signed) (W.getD idx 0) signed := by
  simp only [palette, List.getD_eq_getElem?_getD, List.getElem?_map, List.getElem?_eq_getElem h, Option.map_some,
    Option.getD_some]

theorem w3_le : ∀ idx, idx < 8 → implW6_3.getD idx 0 ≤ 64 := by decide
theorem w4_le : ∀ idx, idx < 16 → implW6_4.getD idx 0 ≤ 64 := by decide

/-- unquantize → interpolate → finish for two endpoint values in range: code = spec, no `i32` overflow -/
theorem entry_eq (signed : Bool) (bits : Nat) (a z : Int) (w : Nat) (hw : w ≤ 64)
    (hbits : bits = 6 ∨ bits = 7 ∨ bits = 8 ∨ bits = 9 ∨ bits = 10 ∨ bits = 11 ∨ bits = 12 ∨ bits = 16)
    (ha : inRange signed bits a) (hz : inRange signed bits z) :
    paletteEntry (Bc6.unquantize a bits signed) (Bc6.unquantize z bits signed) w signed =
      finish signed (Bc6Spec.lerp (Bc6Spec.unquantize signed bits a) (Bc6Spec.unquantize signed bits z) w) := by
  obtain ⟨e1, r1⟩ := unquantize_eq signed bits a hbits ha
  obtain ⟨e2, r2⟩ := unquantize_eq signed bits z hbits hz
  rw [e1, e2]
  exact paletteEntry_eq signed _ _ w hw r1 r2

theorem two_params (m : ModeTwo) (c : Nat) (hc : c < 3) :
    let d := if c = 0 then m.deltaBitCount.1 else if c = 1 then m.deltaBitCount.2.1 else m.deltaBitCount.2.2
    6 ≤ m.a0BitCount ∧ m.a0BitCount ≤ 16 ∧ 1 ≤ d ∧ d ≤ m.a0BitCount ∧ (m.transformed = false → d = m.a0BitCount) ∧
    (d = m.deltaBitCount.1 ∨ d = m.deltaBitCount.2.1 ∨ d = m.deltaBitCount.2.2) ∧
    (m.a0BitCount = 6 ∨ m.a0BitCount = 7 ∨ m.a0BitCount = 8 ∨ m.a0BitCount = 9 ∨ m.a0BitCount = 10 ∨
      m.a0BitCount = 11 ∨ m.a0BitCount = 12 ∨ m.a0BitCount = 16) := by
  have : c = 0 ∨ c = 1 ∨ c = 2 := by omega
  rcases this with h | h | h <;> subst h <;> cases m <;> decide

/-- one channel of a two-region block, at the level of raw field values -/
theorem chan_two (signed : Bool) (m : ModeTwo) (c : Nat) (hc : c < 3) (w x y z s idx : Nat)
    (hw : w < 2 ^ m.a0BitCount)
    (hx : x < 2 ^ (if c = 0 then m.deltaBitCount.1 else if c = 1 then m.deltaBitCount.2.1 else m.deltaBitCount.2.2))
    (hy : y < 2 ^ (if c = 0 then m.deltaBitCount.1 else if c = 1 then m.deltaBitCount.2.1 else m.deltaBitCount.2.2))
    (hz : z < 2 ^ (if c = 0 then m.deltaBitCount.1 else if c = 1 then m.deltaBitCount.2.1 else m.deltaBitCount.2.2))
    (hs : s < 2) (hidx : idx < 8) :
    let d := if c = 0 then m.deltaBitCount.1 else if c = 1 then m.deltaBitCount.2.1 else m.deltaBitCount.2.2
    let ws := decompressTwoChan m signed d (w : Int) (x : Int) (y : Int) (z : Int)
    (([palette implW6_3 (getI ws 0) (getI ws 1) m.a0BitCount signed,
       palette implW6_3 (getI ws 2) (getI ws 3) m.a0BitCount signed].getD s []).getD idx 0) =
      finish signed (Bc6Spec.lerp
        (Bc6Spec.unquantize signed m.a0BitCount
          (endpointV m.a0BitCount d m.transformed signed w ([w, x, y, z].getD (2 * s) 0) (2 * s)))
        (Bc6Spec.unquantize signed m.a0BitCount
          (endpointV m.a0BitCount d m.transformed signed w ([w, x, y, z].getD (2 * s + 1) 0) (2 * s + 1)))
        ((specWeights 3).getD idx 0)) := by
  intro d ws
  obtain ⟨p1, p2, p3, p4, p5, p6, p7⟩ := two_params m c hc
  have hws : ws = _ := decompressTwoChan_eq m signed d w x y z p6 hw hx hy hz
  have hr : ∀ raw e, raw < 2 ^ d → inRange signed m.a0BitCount (endpointV m.a0BitCount d m.transformed signed w raw e) :=
    fun raw e hraw => endpointV_inRange _ _ _ _ _ _ _ p1 p2 p3 p4 p5 hw hraw
  have hw' : w < 2 ^ d ∨ True := Or.inr trivial
  have hr0 : inRange signed m.a0BitCount (endpointV m.a0BitCount d m.transformed signed w w 0) := by
    -- endpoint 0 ignores `raw`
    have : endpointV m.a0BitCount d m.transformed signed w w 0 = endpointV m.a0BitCount d m.transformed signed w 0 0 := by
      simp [endpointV]
    rw [this]; exact hr 0 0 (Nat.two_pow_pos _)
  have hW : specWeights 3 = implW6_3 := rfl
  rw [hws, hW]
  have hs' : s = 0 ∨ s = 1 := by omega
  rcases hs' with h | h <;> subst h
  · show (palette implW6_3 _ _ _ _).getD idx 0 = _
    rw [palette_getD _ _ _ _ _ _ (show idx < implW6_3.length from hidx)]
    exact entry_eq signed _ _ _ _ (w3_le idx hidx) p7 hr0 (hr x 1 hx)
  · show (palette implW6_3 _ _ _ _).getD idx 0 = _
    rw [palette_getD _ _ _ _ _ _ (show idx < implW6_3.length from hidx)]
    exact entry_eq signed _ _ _ _ (w3_le idx hidx) p7 (hr y 2 hy) (hr z 3 hz)

/-! ### two regions -/

theorem getD_map_range3 {α : Type} (F : Nat → α) (d : α) (c : Nat) (hc : c < 3) :
    ((List.range 3).map F).getD c d = F c := by
  have : c = 0 ∨ c = 1 ∨ c = 2 := by omega
  rcases this with h | h | h <;> subst h <;> rfl

theorem map_range3_congr {α : Type} (f g : Nat → α) (h : ∀ i, i < 3 → f i = g i) :
    (List.range 3).map f = (List.range 3).map g :=
  List.map_congr_left (fun i hi => h i (List.mem_range.mp hi))

theorem two_eq (signed : Bool) (m : ModeTwo) (b : Nat)
    (hmode : extractMode b = (.two m, b >>> (recTwo m).modeBits))
    (hspec : Bc6Spec.modeOf b = some (recTwo m)) :
    Bc6.decodeBlock signed b = Bc6Spec.decodeBlock signed b := by
  have hok := twoOk_true m
  simp only [twoOk, Bool.and_eq_true, beq_iff_eq, List.all_eq_true, List.mem_range, decide_eq_true_eq,
    Bool.or_eq_true, Bool.not_eq_true'] at hok
  obtain ⟨⟨⟨⟨⟨⟨⟨hreg, hprec⟩, hdelta⟩, htr⟩, hhdr⟩, _⟩, _⟩, _⟩ := hok
  obtain ⟨hst, hacc⟩ := extractTwo_eq m b
  unfold Bc6.decodeBlock Bc6Spec.decodeBlock
  rw [hmode, hspec]
  simp only [hst, hreg, hhdr, if_true, consumeBits_at 5 b 77 (by decide) (by decide)]
  apply map_range16_congr
  intro i hi
  apply map_range3_congr
  intro c hc
  rw [getD_map_range3 _ _ c hc]
  have hpart : b / 2 ^ 77 % 32 = Bc7Spec.rd b 77 5 := rfl
  have hp : Bc7Spec.rd b 77 5 < 64 := Nat.lt_of_lt_of_le (rd_lt b 77 5) (by decide)
  obtain ⟨_, _, hsub, hs2, _, _⟩ := anchors2 (Bc7Spec.rd b 77 5) i hp hi
  have hidx : getIndex (newP2 3 (b >>> (77 + 5)) (implP2 (Bc7Spec.rd b 77 5)).2).1 i =
      index b (77 + 5) 3 2 (Bc7Spec.rd b 77 5) i := index_impl2 3 b (77 + 5) _ i (by omega) hi hp
  have hk : index b (77 + 5) 3 2 (Bc7Spec.rd b 77 5) i < 8 := by
    show Bc7Spec.rd b _ _ < 2 ^ 3
    apply rd_lt_of_le
    split <;> omega
  obtain ⟨a0, l0⟩ := hacc c 0 hc (by decide)
  obtain ⟨a1, l1⟩ := hacc c 1 hc (by decide)
  obtain ⟨a2, l2⟩ := hacc c 2 hc (by decide)
  obtain ⟨a3, l3⟩ := hacc c 3 hc (by decide)
  simp only [fieldWidth, Nat.reduceEqDiff, if_true, if_false, hprec, deltaW, hdelta] at l0 l1 l2 l3
  rw [hpart, hidx, hsub, a0, a1, a2, a3]
  have hch := chan_two signed m c hc _ _ _ _ (specSubset 2 (Bc7Spec.rd b 77 5) i)
    (index b (77 + 5) 3 2 (Bc7Spec.rd b 77 5) i) l0 l1 l2 l3 hs2 hk
  simp only [] at hch
  rw [hch]
  simp only [endpoint_eq_V, hprec, htr, deltaW, hdelta]
  generalize specSubset 2 (Bc7Spec.rd b 77 5) i = s at hs2
  have hs' : s = 0 ∨ s = 1 := by omega
  rcases hs' with h | h <;> subst h <;> rfl

/-! ### one region -/

theorem one_params (m : ModeOne) :
    6 ≤ m.a0BitCount ∧ m.a0BitCount ≤ 16 ∧ 1 ≤ m.b0BitCount ∧ m.b0BitCount ≤ m.a0BitCount ∧
    (m.transformed = false → m.b0BitCount = m.a0BitCount) ∧
    (m.a0BitCount = 6 ∨ m.a0BitCount = 7 ∨ m.a0BitCount = 8 ∨ m.a0BitCount = 9 ∨ m.a0BitCount = 10 ∨
      m.a0BitCount = 11 ∨ m.a0BitCount = 12 ∨ m.a0BitCount = 16) := by
  cases m <;> decide

theorem chan_one (signed : Bool) (m : ModeOne) (a z idx : Nat)
    (ha : a < 2 ^ m.a0BitCount) (hz : z < 2 ^ m.b0BitCount) (hidx : idx < 16) :
    let ab := decompressOneChan m signed (a : Int) (z : Int)
    (palette implW6_4 (getI ab 0) (getI ab 1) m.a0BitCount signed).getD idx 0 =
      finish signed (Bc6Spec.lerp
        (Bc6Spec.unquantize signed m.a0BitCount (endpointV m.a0BitCount m.b0BitCount m.transformed signed a a 0))
        (Bc6Spec.unquantize signed m.a0BitCount (endpointV m.a0BitCount m.b0BitCount m.transformed signed a z 1))
        ((specWeights 4).getD idx 0)) := by
  intro ab
  obtain ⟨p1, p2, p3, p4, p5, p7⟩ := one_params m
  have hab : ab = _ := decompressOneChan_eq m signed a z ha hz
  have hr : ∀ raw e, raw < 2 ^ m.b0BitCount →
      inRange signed m.a0BitCount (endpointV m.a0BitCount m.b0BitCount m.transformed signed a raw e) :=
    fun raw e hraw => endpointV_inRange _ _ _ _ _ _ _ p1 p2 p3 p4 p5 ha hraw
  have hr0 : inRange signed m.a0BitCount (endpointV m.a0BitCount m.b0BitCount m.transformed signed a a 0) := by
    have : endpointV m.a0BitCount m.b0BitCount m.transformed signed a a 0 =
        endpointV m.a0BitCount m.b0BitCount m.transformed signed a 0 0 := by simp [endpointV]
    rw [this]; exact hr 0 0 (Nat.two_pow_pos _)
  have hW : specWeights 4 = implW6_4 := rfl
  rw [hab, hW, palette_getD _ _ _ _ _ _ (show idx < implW6_4.length from hidx)]
  exact entry_eq signed _ _ _ _ (w4_le idx hidx) p7 hr0 (hr z 1 hz)

theorem one_eq (signed : Bool) (m : ModeOne) (b : Nat)
    (hmode : extractMode b = (.one m, b >>> 5))
    (hspec : Bc6Spec.modeOf b = some (recOne m)) :
    Bc6.decodeBlock signed b = Bc6Spec.decodeBlock signed b := by
  have hok := oneOk_true m
  simp only [oneOk, Bool.and_eq_true, beq_iff_eq, List.all_eq_true, List.mem_range, decide_eq_true_eq,
    Bool.or_eq_true, Bool.not_eq_true'] at hok
  obtain ⟨⟨⟨⟨⟨⟨hreg, hprec⟩, hdelta⟩, htr⟩, hmb⟩, hhdr⟩, _⟩ := hok
  obtain ⟨hst, hacc⟩ := extractOne_eq m b
  unfold Bc6.decodeBlock Bc6Spec.decodeBlock
  rw [hmode, hspec]
  simp only [hst, hreg, hhdr, Nat.reduceEqDiff, if_false]
  apply map_range16_congr
  intro i hi
  apply map_range3_congr
  intro c hc
  rw [getD_map_range3 _ _ c hc]
  have hidx : getIndex (newP1 4 (b >>> 65)).1 i = index b 65 4 1 0 i :=
    index_impl1 4 b 65 1 0 i (by omega) hi (by decide) (by decide)
  have hk : index b 65 4 1 0 i < 16 := by
    show Bc7Spec.rd b _ _ < 2 ^ 4
    apply rd_lt_of_le
    split <;> omega
  obtain ⟨a0, a1, l0, l1⟩ := hacc c hc
  have hdw : deltaW (recOne m) c = m.b0BitCount := by
    simp only [deltaW, hdelta]; split
    · rfl
    · split <;> rfl
  simp only [fieldWidth, Nat.reduceEqDiff, if_true, if_false, hprec, hdw, Nat.one_ne_zero] at l0 l1
  rw [hidx, a0, a1]
  have hch := chan_one signed m _ _ (index b 65 4 1 0 i) l0 l1 hk
  simp only [] at hch
  rw [hch]
  simp only [endpoint_eq_V, hprec, htr, hdw, specSubset1, Nat.mul_zero, Nat.zero_add]

/-! ### every block -/

/-- for every block: the mode the code selects, the record the spec selects, and where the header starts -/
theorem dispatch (b : Nat) :
    match (extractMode b).1 with
    | .two m => Bc6Spec.modeOf b = some (recTwo m) ∧ extractMode b = (.two m, b >>> (recTwo m).modeBits)
    | .one m => Bc6Spec.modeOf b = some (recOne m) ∧ extractMode b = (.one m, b >>> 5)
    | .invalid => Bc6Spec.modeOf b = none := by
  have hx : b % 32 < 32 := Nat.mod_lt _ (by decide)
  have hd := dispatchOk_true (b % 32) hx
  have h1 := extractMode_low5 b
  have h2 := extractMode_snd b
  have h3 := modeOf_low5 b
  have h4 : b % 32 % 4 = b % 4 := by omega
  unfold dispatchOk at hd
  rw [h4, ← h1] at hd
  cases hm : (extractMode b).1 with
  | two m =>
    rw [hm] at hd
    simp only [Bool.and_eq_true, decide_eq_true_eq] at hd
    refine ⟨h3.trans hd.1, ?_⟩
    rw [← hd.2, ← h2, ← hm]
  | one m =>
    rw [hm] at hd
    simp only [Bool.and_eq_true, decide_eq_true_eq] at hd
    refine ⟨h3.trans hd.1, ?_⟩
    rw [← hd.2, ← h2, ← hm]
  | invalid =>
    rw [hm] at hd
    simp only [decide_eq_true_eq] at hd
    exact h3.trans hd

theorem decodeBlock_eq (signed : Bool) (b : Nat) : Bc6.decodeBlock signed b = Bc6Spec.decodeBlock signed b := by
  have hd := dispatch b
  cases hm : (extractMode b).1 with
  | two m => rw [hm] at hd; exact two_eq signed m b hd.2 hd.1
  | one m => rw [hm] at hd; exact one_eq signed m b hd.2 hd.1
  | invalid =>
    rw [hm] at hd
    simp only [Bc6.decodeBlock, hm, Bc6Spec.decodeBlock, hd]

end Dds.Bc6
