/- finite facts (whole code domain): SNORM16 decoders -/
import DdsModel.Proofs.Quant
namespace Dds.Quant
set_option maxRecDepth 100000
theorem snormNorm16_le_all : allRange (fun c => decide (snormNorm 16 c ≤ 2 ^ 16 - 2)) 10 0 65536 = true := by
  decide +kernel
theorem s16_decoders_all : allRange (fun c => s16_n8 c == qRatio (2 ^ 8 - 1) (snormNorm 16 c) (2 ^ 16 - 2)
    && s16_n16 c == qRatio (2 ^ 16 - 1) (snormNorm 16 c) (2 ^ 16 - 2)) 10 0 65536 = true := by decide +kernel
end Dds.Quant
