/- Helper lemmas for C16: weighted sums over `Rat`, the `(acc + 0.5) as T` rounding. -/
import DdsModel.Mip
namespace Dds.Mip

/-- weighted-sum bounds: weights `u ≥ 0`; only entries with positive weight need to be in range -/
theorem wsum_bounds (lo hi : Rat) : ∀ (l : List (Rat × Rat)),
    (∀ ux ∈ l, 0 ≤ ux.1 ∧ (0 < ux.1 → lo ≤ ux.2 ∧ ux.2 ≤ hi)) →
    lo * (l.map (·.1)).sum ≤ (l.map fun ux => ux.1 * ux.2).sum ∧
      (l.map fun ux => ux.1 * ux.2).sum ≤ hi * (l.map (·.1)).sum := by
  intro l
  induction l with
  | nil => intro _; simp
  | cons a l ih =>
    intro h
    obtain ⟨h1, h2⟩ := ih (fun ux hm => h ux (List.mem_cons_of_mem _ hm))
    obtain ⟨ha0, har⟩ := h a List.mem_cons_self
    simp only [List.map_cons, List.sum_cons]
    by_cases hz : a.1 = 0
    · rw [hz]; constructor <;> grind
    · have hp : 0 < a.1 := by grind
      obtain ⟨hl, hh⟩ := har hp
      have m1 := Rat.mul_le_mul_of_nonneg_left hl ha0
      have m2 := Rat.mul_le_mul_of_nonneg_left hh ha0
      constructor <;> grind

theorem sum_map_mul_left (c : Rat) : ∀ (l : List Rat), (l.map (c * ·)).sum = c * l.sum := by
  intro l
  induction l with
  | nil => simp
  | cons a l ih => simp only [List.map_cons, List.sum_cons, ih]; grind

theorem dot_eq_pairs (t : Taps) (x : Nat → Rat) :
    dot t x = ((t.map fun iw => (iw.2, x iw.1)).map fun ux => ux.1 * ux.2).sum := by
  unfold dot; rw [List.map_map]; rfl

theorem sumW_eq_pairs (t : Taps) (x : Nat → Rat) :
    t.sumW = ((t.map fun iw => (iw.2, x iw.1)).map (·.1)).sum := by
  unfold Taps.sumW; rw [List.map_map]; rfl

/-- bounds of an accumulator with non-negative weights -/
theorem dot_bounds (t : Taps) (x : Nat → Rat) (lo hi : Rat) (hn : t.NonNeg)
    (hx : ∀ iw ∈ t, 0 < iw.2 → lo ≤ x iw.1 ∧ x iw.1 ≤ hi) :
    lo * t.sumW ≤ dot t x ∧ dot t x ≤ hi * t.sumW := by
  rw [dot_eq_pairs, sumW_eq_pairs t x]
  apply wsum_bounds
  intro ux hm
  obtain ⟨iw, hiw, rfl⟩ := List.mem_map.mp hm
  exact ⟨hn iw hiw, hx iw hiw⟩

/-- an accumulator over equal samples -/
theorem dot_const (t : Taps) (x : Nat → Rat) (c : Rat) (hx : ∀ iw ∈ t, x iw.1 = c) :
    dot t x = c * t.sumW := by
  unfold dot Taps.sumW
  have : (t.map fun iw => iw.2 * x iw.1) = (t.map (·.2)).map (c * ·) := by
    rw [List.map_map]
    apply List.map_congr_left
    intro iw hm
    show iw.2 * x iw.1 = c * iw.2
    rw [hx iw hm]; grind
  rw [this, sum_map_mul_left]

/-- `dot` only looks at the samples its taps address -/
theorem dot_congr (t : Taps) (x y : Nat → Rat) (h : ∀ iw ∈ t, x iw.1 = y iw.1) : dot t x = dot t y := by
  unfold dot
  congr 1
  apply List.map_congr_left
  intro iw hm
  rw [h iw hm]

/-! ### rounding -/

theorem castSat_range (m lo hi : Nat) (v : Rat) (hm : hi ≤ m) (h1 : (lo : Rat) ≤ v) (h2 : v < (hi : Rat) + 1) :
    (lo : Rat) ≤ castSat m v ∧ castSat m v ≤ (hi : Rat) := by
  unfold castSat
  have a1 : (lo : Int) ≤ v.floor := by
    apply Rat.le_floor_iff.mpr
    rw [Rat.intCast_natCast]; exact h1
  have a2 : v.floor < ((hi + 1 : Nat) : Int) := by
    apply Rat.floor_lt_iff.mpr
    rw [Rat.intCast_natCast]
    have : ((hi + 1 : Nat) : Rat) = (hi : Rat) + 1 := by simp
    rw [this]; exact h2
  have b1 : lo ≤ v.floor.toNat := by omega
  have b2 : v.floor.toNat ≤ hi := by omega
  have b3 : min m v.floor.toNat = v.floor.toNat := by omega
  rw [b3]
  exact ⟨Rat.natCast_le_natCast.mpr b1, Rat.natCast_le_natCast.mpr b2⟩

/-- `(acc + 0.5) as T` never leaves an interval with integer end points -/
theorem quant_range (p : Prec) (lo hi : Nat) (v : Rat) (hm : p = .f32 ∨ (hi : Rat) ≤ p.maxVal)
    (h1 : (lo : Rat) ≤ v) (h2 : v ≤ (hi : Rat)) :
    (lo : Rat) ≤ p.quant v ∧ p.quant v ≤ (hi : Rat) := by
  cases p with
  | f32 => exact ⟨h1, h2⟩
  | u8 =>
    have hm' : hi ≤ 255 := by
      cases hm with
      | inl h => cases h
      | inr h => exact Rat.natCast_le_natCast.mp h
    exact castSat_range 255 lo hi _ hm' (by grind) (by grind)
  | u16 =>
    have hm' : hi ≤ 65535 := by
      cases hm with
      | inl h => cases h
      | inr h => exact Rat.natCast_le_natCast.mp h
    exact castSat_range 65535 lo hi _ hm' (by grind) (by grind)

/-- representable values pass through the rounding unchanged -/
theorem quant_nat (p : Prec) (c : Nat) (hm : p = .f32 ∨ (c : Rat) ≤ p.maxVal) : p.quant (c : Rat) = (c : Rat) := by
  obtain ⟨h1, h2⟩ := quant_range p c c (c : Rat) hm (Rat.le_refl) (Rat.le_refl)
  exact Rat.le_antisymm h2 h1

end Dds.Mip
