/-
Helper lemmas for C19: the error of a channel group whose mask is 0 stays 0 through the whole
Floyd–Steinberg loop (induction over the pixels of a row, then over the rows).
-/
import DdsModel.Dither
namespace Dds.C19

theorem V4.get_add (a b : V4) (c : Ch) : (a.add b).get c = a.get c + b.get c := by
  cases c <;> rfl
theorem V4.get_mul (a b : V4) (c : Ch) : (a.mul b).get c = a.get c * b.get c := by
  cases c <;> rfl
theorem V4.get_scale (a : V4) (k : Rat) (c : Ch) : (a.scale k).get c = a.get c * k := by
  cases c <;> rfl
theorem V4.get_zero (c : Ch) : V4.zero.get c = 0 := by
  cases c <;> rfl

/-- all lanes of the group are 0 -/
def ZeroOn (G : Ch → Prop) (v : V4) : Prop := ∀ c, G c → v.get c = 0
/-- the two vectors agree on the lanes of the group -/
def AgreeOn (G : Ch → Prop) (a b : V4) : Prop := ∀ c, G c → a.get c = b.get c

theorem zeroOn_zero (G : Ch → Prop) : ZeroOn G V4.zero := fun c _ => V4.get_zero c

theorem zeroOn_add {G : Ch → Prop} {a b : V4} (ha : ZeroOn G a) (hb : ZeroOn G b) :
    ZeroOn G (a.add b) := by
  intro c hc
  rw [V4.get_add, ha c hc, hb c hc, Rat.add_zero]

theorem zeroOn_mul_mask {G : Ch → Prop} {m : V4} (hm : ZeroOn G m) (e : V4) :
    ZeroOn G (e.mul m) := by
  intro c hc
  rw [V4.get_mul, hm c hc, Rat.mul_zero]

theorem zeroOn_scale {G : Ch → Prop} {v : V4} (hv : ZeroOn G v) (k : Rat) :
    ZeroOn G (v.scale k) := by
  intro c hc
  rw [V4.get_scale, hv c hc, Rat.zero_mul]

theorem agreeOn_add_zero {G : Ch → Prop} {e : V4} (he : ZeroOn G e) (p : V4) :
    AgreeOn G (p.add e) p := by
  intro c hc
  rw [V4.get_add, he c hc, Rat.add_zero]

theorem bump_zeroOn {G : Ch → Prop} {buf : Nat → V4} (hb : ∀ k, ZeroOn G (buf k)) {v : V4}
    (hv : ZeroOn G v) (j : Nat) : ∀ k, ZeroOn G (bump buf j v k) := by
  intro k
  unfold bump
  by_cases h : k = j
  · rw [if_pos h]; exact zeroOn_add (hb k) hv
  · rw [if_neg h]; exact hb k

/-- the loop state carries no error in the lanes of the group -/
structure StZero (G : Ch → Prop) (st : RowState) : Prop where
  nextAdd : ZeroOn G st.nextAdd
  next : ∀ k, ZeroOn G (st.next k)

theorem stepPixel_fst {Out : Type} (q : V4 → Out × V4) (mask : V4) (cur : Nat → V4) (i : Nat)
    (st : RowState) (p : V4) :
    (stepPixel q mask cur i st p).1 = (q (p.add ((cur (i + 2)).add st.nextAdd))).1 := rfl

theorem stepPixel_inv {Out : Type} {G : Ch → Prop} (q : V4 → Out × V4) {mask : V4}
    (hm : ZeroOn G mask) {cur : Nat → V4} (hc : ∀ k, ZeroOn G (cur k)) (i : Nat) {st : RowState}
    (hs : StZero G st) (p : V4) :
    StZero G (stepPixel q mask cur i st p).2 ∧
      AgreeOn G (p.add ((cur (i + 2)).add st.nextAdd)) p := by
  refine ⟨⟨?_, ?_⟩, agreeOn_add_zero (zeroOn_add (hc _) hs.nextAdd) p⟩
  · exact zeroOn_scale (zeroOn_mul_mask hm _) _
  · exact bump_zeroOn (bump_zeroOn (bump_zeroOn hs.next (zeroOn_scale (zeroOn_mul_mask hm _) _) _)
      (zeroOn_scale (zeroOn_mul_mask hm _) _) _) (zeroOn_scale (zeroOn_mul_mask hm _) _) _

/-- one row: the view of every stored pixel is the view of the undithered quantisation, and the
state handed to the next row is again error-free on the group -/
theorem ditherRowAux_view {Out β : Type} {G : Ch → Prop} (q : V4 → Out × V4) {mask : V4}
    (hm : ZeroOn G mask) (view : Out → β)
    (hview : ∀ p p', AgreeOn G p p' → view (q p).1 = view (q p').1)
    {cur : Nat → V4} (hc : ∀ k, ZeroOn G (cur k)) (ps : List V4) :
    ∀ (i : Nat) (st : RowState), StZero G st →
      (ditherRowAux q mask cur i st ps).1.map view = ps.map (fun p => view (q p).1) ∧
        StZero G (ditherRowAux q mask cur i st ps).2 := by
  induction ps with
  | nil => intro i st hs; exact ⟨rfl, hs⟩
  | cons p ps ih =>
    intro i st hs
    obtain ⟨hs', hag⟩ := stepPixel_inv q hm hc i hs p
    obtain ⟨h1, h2⟩ := ih (i + 1) (stepPixel q mask cur i st p).2 hs'
    refine ⟨?_, h2⟩
    show view (stepPixel q mask cur i st p).1 ::
        (ditherRowAux q mask cur (i + 1) (stepPixel q mask cur i st p).2 ps).1.map view = _
    rw [h1, stepPixel_fst, hview _ _ hag]
    rfl

theorem ditherRows_view {Out β : Type} {G : Ch → Prop} (q : V4 → Out × V4) {mask : V4}
    (hm : ZeroOn G mask) (view : Out → β)
    (hview : ∀ p p', AgreeOn G p p' → view (q p).1 = view (q p').1) (rows : List (List V4)) :
    ∀ (cur : Nat → V4), (∀ k, ZeroOn G (cur k)) →
      (ditherRows q mask cur rows).map (·.map view) =
        rows.map (·.map fun p => view (q p).1) := by
  induction rows with
  | nil => intro cur _; rfl
  | cons row rows ih =>
    intro cur hc
    have h0 : StZero G ⟨V4.zero, fun _ => V4.zero⟩ := ⟨zeroOn_zero G, fun _ => zeroOn_zero G⟩
    obtain ⟨h1, h2⟩ := ditherRowAux_view q hm view hview hc row 0 _ h0
    show (ditherRowAux q mask cur 0 ⟨V4.zero, fun _ => V4.zero⟩ row).1.map view ::
        (ditherRows q mask (ditherRowAux q mask cur 0 ⟨V4.zero, fun _ => V4.zero⟩ row).2.next
          rows).map (·.map view) = _
    rw [h1, ih _ h2.next]
    rfl

theorem errorMask_zeroOn_alpha (d : Dithering) (h : d.alpha = false) :
    ZeroOn (Group.has .alpha) (errorMask d) := by
  intro c hc
  have : c = .w := hc
  subst this
  cases d with
  | mk col al =>
    simp only at h; subst h
    cases col <;> rfl

theorem errorMask_zeroOn_color (d : Dithering) (h : d.color = false) :
    ZeroOn (Group.has .color) (errorMask d) := by
  intro c hc
  have hc' : c ≠ .w := hc
  cases d with
  | mk col al =>
    simp only at h; subst h
    cases al <;> cases c <;> first | rfl | exact absurd rfl hc'

theorem errorMask_zeroOn (d : Dithering) (g : Group) (h : d.has g = false) :
    ZeroOn (Group.has g) (errorMask d) := by
  cases g with
  | color => exact errorMask_zeroOn_color d h
  | alpha => exact errorMask_zeroOn_alpha d h

end Dds.C19
