/-
BC3n `calc_b` = specification `z8`: rows `r = 64 … 95` (all 256 values of `g` each), by kernel evaluation
of the checker of `Proofs/Bc3nCalc.lean` (GENERATED: the eight files `Bc3nRows0…7` differ only in the range).
-/
import DdsModel.Proofs.Bc3nCalc
namespace Dds.Bc3n
set_option maxRecDepth 100000

theorem chunk64 : rowsChk 64 8 = true := by decide +kernel
theorem chunk72 : rowsChk 72 8 = true := by decide +kernel
theorem chunk80 : rowsChk 80 8 = true := by decide +kernel
theorem chunk88 : rowsChk 88 8 = true := by decide +kernel

theorem rows2 (r g : Nat) (h1 : 64 ≤ r) (h2 : r < 96) (hg : g < 256) : Bc.calcB r g = BcSpec.z8 r g := by
  by_cases a : r < 72
  · exact of_rows 64 8 chunk64 r g (by omega) (by omega) (by omega) hg
  · by_cases b : r < 80
    · exact of_rows 72 8 chunk72 r g (by omega) (by omega) (by omega) hg
    · by_cases c : r < 88
      · exact of_rows 80 8 chunk80 r g (by omega) (by omega) (by omega) hg
      · exact of_rows 88 8 chunk88 r g (by omega) (by omega) (by omega) hg

end Dds.Bc3n
