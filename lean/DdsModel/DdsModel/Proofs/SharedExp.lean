/-
C15, R9G9B9E5: `rgb9995f::from_f32` never trips a `debug_assert!`, every mantissa is at most 511
and the exponent at most 31, for every triple of binary32 bit patterns.
-/
import DdsModel.Proofs.SharedExpChan
import DdsModel.Proofs.EncQuant
namespace Dds.EncTotal.SharedExp
open Dds.CF32

/-- for `exp ≤ 32` neither `i8` operation overflows and `two_powi` gets an exponent in
`[-8, 24]`: the scale is `2^(24−exp)` -/
theorem scaleOf_eq (exp : Nat) (h : exp ≤ 32) : scaleOf exp = some (twoPowi (24 - exp)) := by
  unfold scaleOf asI8
  have h1 : exp % 256 = exp := by omega
  simp only [h1, show exp < 128 by omega, if_true]
  rw [if_neg (by omega), if_neg (by omega), if_neg (by omega)]
  congr 2
  omega

/-- a clamped channel below the maximum `mx` is a zero or a positive pattern whose exponent
field does not exceed the maximum's -/
theorem chan_cases (c mx : Nat) (hc : Clamped c) (hm : mag c ≤ mx) (hmx : mx ≤ c65408) :
    (c = 0 ∨ c = signBit) ∨ (1 ≤ c ∧ c ≤ c65408 ∧ expField c ≤ expField mx) := by
  rcases hc with h | h
  · left; right; exact h
  · by_cases h0 : c = 0
    · left; left; exact h0
    · right
      have hm' : mag c = c := by
        unfold mag; apply Nat.mod_eq_of_lt; simp only [c65408, signBit] at *; omega
      rw [hm'] at hm
      refine ⟨by omega, h, ?_⟩
      rw [expField_eq, expField_eq]
      simp only [c65408] at *
      omega

theorem fields_range (tie : Nat → Bool) (r g b : Nat) :
    ∃ rm gm bm e, fields tie r g b = some (rm, gm, bm, e) ∧
      rm ≤ 511 ∧ gm ≤ 511 ∧ bm ≤ 511 ∧ e ≤ 31 := by
  unfold fields
  dsimp only
  -- the clamped channels and their maximum
  have cr := clamp_spec (tie 0) r
  have cg := clamp_spec (tie 1) g
  have cb := clamp_spec (tie 2) b
  generalize clamp0Max (tie 0) r = r' at *
  generalize clamp0Max (tie 1) g = g' at *
  generalize clamp0Max (tie 2) b = b' at *
  obtain ⟨c1, m1r, m1g⟩ := fmax_clamped (tie 3) r' g' cr cg
  obtain ⟨cm, m2, m2b⟩ := fmax_clamped (tie 4) _ b' c1 cb
  have mr : mag r' ≤ mag (fmax (tie 4) (fmax (tie 3) r' g') b') := Nat.le_trans m1r m2
  have mg : mag g' ≤ mag (fmax (tie 4) (fmax (tie 3) r' g') b') := Nat.le_trans m1g m2
  generalize fmax (tie 4) (fmax (tie 3) r' g') b' = mx at *
  clear m1r m1g m2 c1
  by_cases hz : (isZero mx || isSubnormal mx) = true
  · rw [if_pos hz]
    exact ⟨0, 0, 0, 0, rfl, by omega, by omega, by omega, by omega⟩
  rw [if_neg hz]
  -- the maximum is a positive normal pattern up to 65408.0
  obtain ⟨_, _, hmC, hmm⟩ := clamped_facts mx cm
  have hmx : 8388608 ≤ mx ∧ mx ≤ c65408 := by
    simp only [Bool.or_eq_true, not_or, isZero, isSubnormal, Bool.and_eq_true, beq_iff_eq,
      bne_iff_ne, ne_eq, not_and, Decidable.not_not] at hz
    obtain ⟨z1, z2⟩ := hz
    have hmag : mag mx = mx := by
      rcases hmm with h | h
      · exact absurd h z1
      · exact h.symm
    rw [hmag] at hmC
    rw [expField_eq, fracField_eq] at z2
    refine ⟨?_, hmC⟩
    apply Classical.byContradiction
    intro hlt
    have e0 : mx / 8388608 % 256 = 0 := by omega
    have := z2 e0
    unfold mag at hmag
    omega
  have hmagmx : mag mx = mx := by
    unfold mag; apply Nat.mod_eq_of_lt; simp only [c65408, signBit] at *; omega
  rw [hmagmx] at mr mg m2b
  have hraw : mx >>> 23 &&& 255 = expField mx := by
    rw [show (255 : Nat) = 2 ^ 8 - 1 from rfl, Nat.and_two_pow_sub_one_eq_mod]; rfl
  rw [hraw]
  have hR1 : 1 ≤ expField mx := by rw [expField_eq]; simp only [c65408] at hmx; omega
  have hR2 : expField mx ≤ 142 := by rw [expField_eq]; simp only [c65408] at hmx; omega
  -- the shared exponent
  generalize hexp : (max ((expField mx : Int) - 127 + 16) 0).toNat = exp
  have he31 : exp ≤ 31 := by omega
  have heX : expField mx ≤ exp + 111 := by omega
  rw [if_neg (by omega), scaleOf_eq exp (by omega)]
  dsimp only
  -- first pass
  have first : ∀ c, Clamped c → mag c ≤ mx → mantOf c (twoPowi (24 - exp)) ≤ 512 ∧
      (exp = 31 → mantOf c (twoPowi (24 - exp)) ≤ 511) ∧
      mantOf c (twoPowi (24 - ((exp + 1 : Nat) : Int))) ≤ 256 := by
    intro c hc hm
    rcases chan_cases c mx hc hm hmx.2 with h0 | ⟨h1, h2, h3⟩
    · rw [mantOf_zero c _ h0 (by omega) (by omega), mantOf_zero c _ h0 (by omega) (by omega)]
      exact ⟨by omega, fun _ => by omega, by omega⟩
    · refine ⟨mantOf_le_first c exp h1 h2 he31 (by omega), ?_,
        mantOf_le_second c (exp + 1) h1 h2 (by omega) (by omega)⟩
      intro h31
      subst h31
      exact mantOf_le_top c h1 h2
  obtain ⟨r1, r2, r3⟩ := first r' cr mr
  obtain ⟨g1, g2, g3⟩ := first g' cg mg
  obtain ⟨b1, b2, b3⟩ := first b' cb m2b
  by_cases h512 : (mantOf r' (twoPowi (24 - exp)) == 512 || mantOf g' (twoPowi (24 - exp)) == 512 ||
      mantOf b' (twoPowi (24 - exp)) == 512) = true
  · -- second pass: the exponent is below 31, the mantissas come back to at most 256
    rw [if_pos h512]
    have hne : exp ≠ 31 := by
      intro h31
      have := r2 h31; have := g2 h31; have := b2 h31
      simp only [Bool.or_eq_true, beq_iff_eq] at h512
      omega
    rw [if_neg (by omega), scaleOf_eq (exp + 1) (by omega)]
    dsimp only
    unfold finish
    rw [if_pos ⟨by omega, by omega, by omega⟩]
    exact ⟨_, _, _, _, rfl, by omega, by omega, by omega, by omega⟩
  · rw [if_neg h512]
    simp only [Bool.or_eq_true, beq_iff_eq, not_or] at h512
    unfold finish
    rw [if_pos ⟨by omega, by omega, by omega⟩]
    exact ⟨_, _, _, _, rfl, by omega, by omega, by omega, he31⟩

/-! ### the packing -/

theorem shl32_eq (v s w : Nat) (hv : v < 2 ^ w) (hw : s + w ≤ 32) : shl32 v s = v <<< s := by
  unfold shl32
  apply Nat.mod_eq_of_lt
  exact lt_pow_mono _ (s + w) 32 (shiftLeft_lt_pow v s w hv) hw

/-- with mantissas of at most 9 bits and an exponent of at most 5 bits no `u32` shift drops a
bit, and the word is the field packing `pack` of C15 -/
theorem word_eq_pack (rm gm bm e : Nat) (hg : gm ≤ 511) (hb : bm ≤ 511) (he : e ≤ 31) :
    word (rm, gm, bm, e) = pack [(rm, 9), (gm, 9), (bm, 9), (e, 5)] := by
  unfold word
  dsimp only
  rw [shl32_eq gm 9 9 (by omega) (by omega), shl32_eq bm 18 9 (by omega) (by omega),
    shl32_eq e 27 5 (by omega) (by omega)]
  simp only [pack, Nat.shiftLeft_or_distrib, ← Nat.shiftLeft_add, Nat.zero_shiftLeft, Nat.or_zero,
    Nat.or_assoc]

/-- **`rgb9995f::from_f32`, every input.**  For every triple of bit patterns — NaN of any
payload, the infinities, negative values, both zeros, subnormals, huge values — and every choice
of the zero `f32::max` returns on a `±0.0` tie: no `debug_assert!` fails and no `i8` operation
overflows (the result is `some`), `r_mant, g_mant, b_mant ≤ 511`, `exp ≤ 31`, and the returned
word is the packing of these four fields into 9 + 9 + 9 + 5 = 32 bits. -/
theorem fromF32_range (tie : Nat → Bool) (r g b : Nat) :
    ∃ rm gm bm e, fields tie r g b = some (rm, gm, bm, e) ∧
      rm ≤ 511 ∧ gm ≤ 511 ∧ bm ≤ 511 ∧ e ≤ 31 ∧
      fromF32 tie r g b = some (pack [(rm, 9), (gm, 9), (bm, 9), (e, 5)]) ∧
      pack [(rm, 9), (gm, 9), (bm, 9), (e, 5)] < 2 ^ 32 := by
  obtain ⟨rm, gm, bm, e, h, h1, h2, h3, h4⟩ := fields_range tie r g b
  refine ⟨rm, gm, bm, e, h, h1, h2, h3, h4, ?_, ?_⟩
  · unfold fromF32
    rw [h, Option.map_some, word_eq_pack rm gm bm e h2 h3 h4]
  · have := pack_lt [(rm, 9), (gm, 9), (bm, 9), (e, 5)] (by
      simp only [List.mem_cons, List.not_mem_nil, or_false]
      intro f hf
      rcases hf with rfl | rfl | rfl | rfl <;> dsimp only <;> omega)
    exact this

end Dds.EncTotal.SharedExp
