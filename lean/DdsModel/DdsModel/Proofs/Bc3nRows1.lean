/-
BC3n `calc_b` = specification `z8`: rows `r = 32 … 63` (all 256 values of `g` each), by kernel evaluation
of the checker of `Proofs/Bc3nCalc.lean` (GENERATED: the eight files `Bc3nRows0…7` differ only in the range).
-/
import DdsModel.Proofs.Bc3nCalc
namespace Dds.Bc3n
set_option maxRecDepth 100000

theorem chunk32 : rowsChk 32 8 = true := by decide +kernel
theorem chunk40 : rowsChk 40 8 = true := by decide +kernel
theorem chunk48 : rowsChk 48 8 = true := by decide +kernel
theorem chunk56 : rowsChk 56 8 = true := by decide +kernel

theorem rows1 (r g : Nat) (h1 : 32 ≤ r) (h2 : r < 64) (hg : g < 256) : Bc.calcB r g = BcSpec.z8 r g := by
  by_cases a : r < 40
  · exact of_rows 32 8 chunk32 r g (by omega) (by omega) (by omega) hg
  · by_cases b : r < 48
    · exact of_rows 40 8 chunk40 r g (by omega) (by omega) (by omega) hg
    · by_cases c : r < 56
      · exact of_rows 48 8 chunk48 r g (by omega) (by omega) (by omega) hg
      · exact of_rows 56 8 chunk56 r g (by omega) (by omega) (by omega) hg

end Dds.Bc3n
