/-
C03x glue, part 2: the specification's anchor rule (`specIsAnchor`, "number of anchors before pixel i") in terms of
the fix-up indices the code stores with its partition tables.  Finite: complete evaluation over all 64 + 64
partitions and 16 pixels.
-/
import DdsModel.Bc7Spec
import DdsModel.Bc6Spec
import DdsModel.Proofs.BcTables
namespace Dds.Bc7
open Dds.BcTables Dds.Bc7Spec

def b2n (c : Bool) : Nat := if c then 1 else 0

def anchors2Ok : Bool :=
  (List.range 64).all fun p => (List.range 16).all fun i =>
    anchorsBefore 2 p i == b2n (decide (0 < i)) + b2n (decide ((implP2 p).2 < i)) &&
    specIsAnchor 2 p i == (decide (i = 0) || decide (i = (implP2 p).2)) &&
    subset2Index (implP2 p) i == specSubset 2 p i && decide (specSubset 2 p i < 2) &&
    decide (0 < (implP2 p).2) && decide ((implP2 p).2 < 16)

def anchors3Ok : Bool :=
  (List.range 64).all fun p => (List.range 16).all fun i =>
    anchorsBefore 3 p i == b2n (decide (0 < i)) + b2n (decide ((implP3 p).2.1 < i)) + b2n (decide ((implP3 p).2.2 < i)) &&
    specIsAnchor 3 p i == (decide (i = 0) || decide (i = (implP3 p).2.1) || decide (i = (implP3 p).2.2)) &&
    subset3Index (implP3 p) i == specSubset 3 p i && decide (specSubset 3 p i < 3) &&
    decide (0 < (implP3 p).2.1) && decide ((implP3 p).2.1 < (implP3 p).2.2) && decide ((implP3 p).2.2 < 16)

theorem anchors2Ok_true : anchors2Ok = true := by decide +kernel
theorem anchors3Ok_true : anchors3Ok = true := by decide +kernel

theorem anchors2 (p i : Nat) (hp : p < 64) (hi : i < 16) :
    anchorsBefore 2 p i = (if 0 < i then 1 else 0) + (if (implP2 p).2 < i then 1 else 0) ∧
    (specIsAnchor 2 p i = true ↔ (i = 0 ∨ i = (implP2 p).2)) ∧
    subset2Index (implP2 p) i = specSubset 2 p i ∧ specSubset 2 p i < 2 ∧
    0 < (implP2 p).2 ∧ (implP2 p).2 < 16 := by
  have h := anchors2Ok_true
  simp only [anchors2Ok, List.all_eq_true, List.mem_range] at h
  have := h p hp i hi
  simp only [Bool.and_eq_true, beq_iff_eq, decide_eq_true_eq, b2n] at this
  obtain ⟨⟨⟨⟨⟨h1, h2⟩, h3⟩, h4⟩, h5⟩, h6⟩ := this
  refine ⟨?_, ?_, h3, h4, h5, h6⟩
  · rw [h1]
  · rw [h2]; simp only [Bool.or_eq_true, decide_eq_true_eq]

theorem anchors3 (p i : Nat) (hp : p < 64) (hi : i < 16) :
    anchorsBefore 3 p i = (if 0 < i then 1 else 0) + (if (implP3 p).2.1 < i then 1 else 0) +
      (if (implP3 p).2.2 < i then 1 else 0) ∧
    (specIsAnchor 3 p i = true ↔ (i = 0 ∨ i = (implP3 p).2.1 ∨ i = (implP3 p).2.2)) ∧
    subset3Index (implP3 p) i = specSubset 3 p i ∧ specSubset 3 p i < 3 ∧
    0 < (implP3 p).2.1 ∧ (implP3 p).2.1 < (implP3 p).2.2 ∧ (implP3 p).2.2 < 16 := by
  have h := anchors3Ok_true
  simp only [anchors3Ok, List.all_eq_true, List.mem_range] at h
  have := h p hp i hi
  simp only [Bool.and_eq_true, beq_iff_eq, decide_eq_true_eq, b2n] at this
  obtain ⟨⟨⟨⟨⟨⟨h1, h2⟩, h3⟩, h4⟩, h5⟩, h6⟩, h7⟩ := this
  refine ⟨?_, ?_, h3, h4, h5, h6, h7⟩
  · rw [h1]
  · rw [h2]; simp only [Bool.or_eq_true, decide_eq_true_eq, or_assoc]

/-- one subset (any partition number): only pixel 0 is an anchor -/
theorem isAnchor1 (n p j : Nat) (hn : n ≠ 2) (hn' : n ≠ 3) : specIsAnchor n p j = decide (j = 0) := by
  simp [specIsAnchor, hn, hn']

theorem anchors1 (n p i : Nat) (hn : n ≠ 2) (hn' : n ≠ 3) (hi : i < 16) :
    anchorsBefore n p i = (if 0 < i then 1 else 0) ∧ (specIsAnchor n p i = true ↔ i = 0) := by
  have hf : (fun j => specIsAnchor n p j) = fun j => decide (j = 0) := by
    funext j; exact isAnchor1 n p j hn hn'
  refine ⟨?_, by rw [isAnchor1 n p i hn hn']; simp⟩
  unfold anchorsBefore
  rw [hf]
  have : i = 0 ∨ i = 1 ∨ i = 2 ∨ i = 3 ∨ i = 4 ∨ i = 5 ∨ i = 6 ∨ i = 7 ∨ i = 8 ∨ i = 9 ∨ i = 10 ∨
    i = 11 ∨ i = 12 ∨ i = 13 ∨ i = 14 ∨ i = 15 := by omega
  rcases this with h | h | h | h | h | h | h | h | h | h | h | h | h | h | h | h <;> subst h <;> decide

end Dds.Bc7
