/- finite fact (kernel evaluation), slice 2 of 4: 16-bit values through nearest-binary32 -/
import DdsModel.Proofs.QuantFinA0
namespace Dds.Quant
set_option maxRecDepth 100000
theorem holdsF32U16_s4 : allRange holdsF32U16 6 16384 4096 = true := by decide +kernel
theorem holdsF32U16_s5 : allRange holdsF32U16 6 20480 4096 = true := by decide +kernel
theorem holdsF32U16_s6 : allRange holdsF32U16 6 24576 4096 = true := by decide +kernel
theorem holdsF32U16_s7 : allRange holdsF32U16 6 28672 4096 = true := by decide +kernel
end Dds.Quant
