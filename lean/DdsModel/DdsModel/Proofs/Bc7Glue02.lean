/-
C03x glue, part 6: BC7 modes 0 and 2 (three subsets): `Bc7.decodeBlock = Bc7Spec.decodeBlock` for every block of
these modes.
-/
import DdsModel.Proofs.Bc7GlueCommon
set_option linter.unusedSimpArgs false
namespace Dds.Bc7
open Dds.BcTables Dds.Bc7Spec

def r0 : ModeRec := ⟨3, 4, 0, 0, 4, 0, 1, 0, 3, 0⟩
def r2 : ModeRec := ⟨3, 6, 0, 0, 5, 0, 0, 0, 2, 0⟩

theorem eps0 (b : Nat) : getEndPoints6 0 (b >>> 5) = (epTable 0 r0 b 6, b >>> 83) := by
  simp only [getEndPoints6, Nat.reduceEqDiff, if_false, if_true,
    consumeN_at _ _ b _ (by decide : 0 < 4) (by decide : 4 ≤ 8), consumeBitsEach_at,
    range6, List.map, Nat.reduceDiv,
    px_rdN _ _ _ _ _ (by decide : 0 < 6), px_rdN _ _ _ _ _ (by decide : 1 < 6),
    px_rdN _ _ _ _ _ (by decide : 2 < 6), px_rdN _ _ _ _ _ (by decide : 3 < 6),
    px_rdN _ _ _ _ _ (by decide : 4 < 6), px_rdN _ _ _ _ _ (by decide : 5 < 6),
    withP_rd _ _ _ _ (by decide : 4 ≤ 7), promote_rdp _ _ _ _ (by decide : 3 ≤ 4) (by decide : 4 < 7)]
  simp only [epTable, range4, range6, List.map, endpoint, r0, colorStart, alphaStart, pStart,
    Nat.reduceAdd, Nat.reduceMul, Nat.reduceEqDiff, Nat.reduceDiv, false_and, true_and, and_true, and_self,
    if_true, if_false]

theorem eps2 (b : Nat) : getEndPoints6 2 (b >>> 9) = (epTable 2 r2 b 6, b >>> 99) := by
  simp only [getEndPoints6, Nat.reduceEqDiff, if_false, if_true,
    consumeN_at _ _ b _ (by decide : 0 < 5) (by decide : 5 ≤ 8),
    range6, List.map, Nat.reduceDiv,
    px_rdN _ _ _ _ _ (by decide : 0 < 6), px_rdN _ _ _ _ _ (by decide : 1 < 6),
    px_rdN _ _ _ _ _ (by decide : 2 < 6), px_rdN _ _ _ _ _ (by decide : 3 < 6),
    px_rdN _ _ _ _ _ (by decide : 4 < 6), px_rdN _ _ _ _ _ (by decide : 5 < 6),
    promote_rd _ _ _ (by decide : 4 ≤ 5) (by decide : 5 < 8)]
  simp only [epTable, range4, range6, List.map, endpoint, r2, colorStart, alphaStart, pStart,
    Nat.reduceAdd, Nat.reduceMul, Nat.reduceEqDiff, Nat.reduceDiv, false_and, true_and, and_true, and_self,
    if_true, if_false]

theorem mode0_eq (b : Nat) (h : modeOf b = 0) : Bc7.decodeBlock b = Bc7Spec.decodeBlock b := by
  rw [spec_decodeBlock_mode b 0 r0 h rfl]
  simp only [Bc7.decodeBlock, extractMode_eq, h, Nat.reduceEqDiff, if_false, if_true, Nat.reduceAdd, modeSubset3,
    consumeBits_at 4 b 1 (by decide) (by decide), eps0, decodeMode]
  apply map_range16_congr
  intro i hi
  have hp : rd b 1 4 < 64 := Nat.lt_of_lt_of_le (rd_lt b 1 4) (by decide)
  obtain ⟨_, _, hsub, hs2, _, _, _⟩ := anchors3 (rd b 1 4) i hp hi
  have hidx : getIndex (newP3 3 (b >>> 83) (implP3 (rd b 1 4)).2.1 (implP3 (rd b 1 4)).2.2).1 i =
      index1 0 r0 b (rd b 1 r0.partBits) i :=
    index_impl3 3 b 83 _ i (by omega) hi hp
  have hk : index1 0 r0 b (rd b 1 r0.partBits) i < 2 ^ 3 := index1_lt 0 r0 b _ i
  have hm : r0 ∈ modes := by decide
  rw [hidx, hsub]
  generalize index1 0 r0 b (rd b 1 r0.partBits) i = k at hk
  have e1 : specSubset r0.subsets (rd b 1 r0.partBits) i = specSubset 3 (rd b 1 4) i := rfl
  have e2 : specWeights r0.idxBits = specW3 := rfl
  have e3 : rd b (1 + r0.partBits) r0.rotBits = 0 := rd_zero _ _
  have e4 : r0.idx2Bits = 0 := rfl
  rw [e1]
  generalize specSubset 3 (rd b 1 4) i = s at hs2
  have hs : s = 0 ∨ s = 1 ∨ s = 2 := by omega
  rcases hs with hs | hs | hs <;> subst hs <;>
  simp only [e2, e3, e4, if_true, Nat.mul_zero, Nat.zero_add, Nat.reduceMul, Nat.reduceAdd, interpolate23,
    Nat.zero_min, Nat.min_self, Nat.min_def, Nat.reduceLeDiff,
    ep_epTable _ _ _ _ _ (by decide : 0 < 6), ep_epTable _ _ _ _ _ (by decide : 1 < 6),
    ep_epTable _ _ _ _ _ (by decide : 2 < 6), ep_epTable _ _ _ _ _ (by decide : 3 < 6),
    ep_epTable _ _ _ _ _ (by decide : 4 < 6), ep_epTable _ _ _ _ _ (by decide : 5 < 6), px4,
    lerpW3 _ _ _ (endpoint_lt _ _ _ _ _ hm) (endpoint_lt _ _ _ _ _ hm) hk, rotate4, swapChannels,
    Nat.reduceEqDiff, if_false]

theorem mode2_eq (b : Nat) (h : modeOf b = 2) : Bc7.decodeBlock b = Bc7Spec.decodeBlock b := by
  rw [spec_decodeBlock_mode b 2 r2 h rfl]
  simp only [Bc7.decodeBlock, extractMode_eq, h, Nat.reduceEqDiff, if_false, if_true, Nat.reduceAdd, modeSubset3,
    consumeBits_at 6 b 3 (by decide) (by decide), eps2, decodeMode]
  apply map_range16_congr
  intro i hi
  have hp : rd b 3 6 < 64 := Nat.lt_of_lt_of_le (rd_lt b 3 6) (by decide)
  obtain ⟨_, _, hsub, hs2, _, _, _⟩ := anchors3 (rd b 3 6) i hp hi
  have hidx : getIndex (newP3 2 (b >>> 99) (implP3 (rd b 3 6)).2.1 (implP3 (rd b 3 6)).2.2).1 i =
      index1 2 r2 b (rd b 3 r2.partBits) i :=
    index_impl3 2 b 99 _ i (by omega) hi hp
  have hk : index1 2 r2 b (rd b 3 r2.partBits) i < 2 ^ 2 := index1_lt 2 r2 b _ i
  have hm : r2 ∈ modes := by decide
  rw [hidx, hsub]
  generalize index1 2 r2 b (rd b 3 r2.partBits) i = k at hk
  have e1 : specSubset r2.subsets (rd b 3 r2.partBits) i = specSubset 3 (rd b 3 6) i := rfl
  have e2 : specWeights r2.idxBits = specW2 := rfl
  have e3 : rd b (3 + r2.partBits) r2.rotBits = 0 := rd_zero _ _
  have e4 : r2.idx2Bits = 0 := rfl
  rw [e1]
  generalize specSubset 3 (rd b 3 6) i = s at hs2
  have hs : s = 0 ∨ s = 1 ∨ s = 2 := by omega
  rcases hs with hs | hs | hs <;> subst hs <;>
  simp only [e2, e3, e4, if_true, Nat.mul_zero, Nat.zero_add, Nat.reduceMul, Nat.reduceAdd, interpolate23,
    Nat.zero_min, Nat.min_self, Nat.min_def, Nat.reduceLeDiff,
    ep_epTable _ _ _ _ _ (by decide : 0 < 6), ep_epTable _ _ _ _ _ (by decide : 1 < 6),
    ep_epTable _ _ _ _ _ (by decide : 2 < 6), ep_epTable _ _ _ _ _ (by decide : 3 < 6),
    ep_epTable _ _ _ _ _ (by decide : 4 < 6), ep_epTable _ _ _ _ _ (by decide : 5 < 6), px4,
    lerpW2 _ _ _ (endpoint_lt _ _ _ _ _ hm) (endpoint_lt _ _ _ _ _ hm) hk, rotate4, swapChannels,
    Nat.reduceEqDiff, if_false]

end Dds.Bc7
