/-
C15, block-compression encoder sites (`EncBcSites.lean`): general lemmas about the software binary32 that the
site proofs share — the saturating cast is bounded, `fmul` commutes, what `min`/`max`/`clamp` (Rust scalar and
glam SSE2) return, `(K * x + 0.5) as u8` and `(K * x) as u8` are monotone for the order of the values.
-/
import DdsModel.EncBcSites
import DdsModel.Proofs.F32ThrDev
namespace Dds.EncBcSites
open Dds Dds.CF32 Dds.ConvFast Dds.F32Mono Dds.F32Thr
open Dds.F32.Raw (nadd nsub cond_ble)
open Dds.EncTotal.QuantBits (NegR negR_flags toNatSat_neg toNatSat_small fmul_neg fadd_neg_half)
open Dds.EncTotal.SharedExp (isNaN_iff key_of_lt key_of_ge isNaN_of_le)

/-! ### the cast -/

theorem toNatSat_le_max (x M : Nat) : toNatSat x M ≤ M := by
  unfold toNatSat
  simp only [force_eq]
  split
  · exact Nat.zero_le _
  · split
    · exact Nat.zero_le _
    · split
      · exact Nat.le_refl _
      · split <;> split <;> omega

theorem toNatSat_nan (x M : Nat) (h : isNaN x = true) : toNatSat x M = 0 := by
  unfold toNatSat
  simp only [force_eq, h, if_true]

/-! ### classes of patterns -/

/-- a non-NaN pattern is non-negative (`+0 … +∞`) or negative (`-0 … -∞`) -/
theorem cls (x : Nat) (hx : x < 2 ^ 32) (hn : isNaN x = false) : x ≤ 0x7F800000 ∨ NegR x := by
  rcases classify x hx with h | h | h | ⟨h, _⟩ | h
  · left; omega
  · left; omega
  · rw [hn] at h; exact absurd h (by decide)
  · right; exact h
  · right; subst h; exact ⟨by decide, by decide⟩

theorem key_pos (x : Nat) (hx : x ≤ 0x7F800000) : key x = (x : Int) :=
  key_of_lt x (by simp only [signBit]; omega)

theorem key_neg (x : Nat) (hx : NegR x) : key x ≤ 0 := by
  obtain ⟨_, n2⟩ := negR_flags x hx
  unfold key; rw [n2]; simp only [if_true]; omega

theorem nan_of_pos (x : Nat) (hx : x ≤ 0x7F800000) : isNaN x = false :=
  isNaN_of_le x (by simpa [posInf] using hx)

/-! ### `fmul` commutes -/

theorem fmul_comm (a b : Nat) : fmul a b = fmul b a := by
  unfold fmul
  simp only [force_eq]
  rw [Bool.or_comm (isNaN a), Bool.or_comm (isInf a), Bool.or_comm (isZero a), Nat.mul_comm (mant a),
    Int.add_comm (expo a)]
  have : (isNeg a != isNeg b) = (isNeg b != isNeg a) := by
    cases isNeg a <;> cases isNeg b <;> rfl
  rw [this]


/-! ### comparisons, `min`, `max`, `clamp` -/

theorem flt_iff (a b : Nat) : flt a b = true ↔ isNaN a = false ∧ isNaN b = false ∧ key a < key b := by
  unfold flt
  simp only [Bool.and_eq_true, Bool.not_eq_eq_eq_not, Bool.not_true, decide_eq_true_eq, and_assoc]

theorem key_zero : key 0 = 0 := by decide
theorem key_one : key one = 1065353216 := by decide
theorem nan_zero : isNaN 0 = false := by decide
theorem nan_one : isNaN one = false := by decide

/-- a non-NaN pattern with a positive key is a positive pattern up to `+∞` -/
theorem pos_of_key_pos (x : Nat) (hx : x < 2 ^ 32) (hn : isNaN x = false) (hk : 0 < key x) :
    0 < x ∧ x ≤ 0x7F800000 := by
  rcases cls x hx hn with h | h
  · rw [key_pos x h] at hk; omega
  · have := key_neg x h; omega

/-- a non-NaN pattern with key 0 … key 1.0 is `-0.0` or a pattern `+0 … 1.0` -/
theorem unit_of_key (x : Nat) (hx : x < 2 ^ 32) (hn : isNaN x = false) (h0 : 0 ≤ key x) (h1 : key x ≤ key one) :
    x = signBit ∨ x ≤ one := by
  rcases cls x hx hn with h | h
  · right; rw [key_pos x h, key_one] at h1; simp only [one]; omega
  · left
    have h1 := h.1
    have := key_of_ge x h.1
    omega

/-- glam's SSE2 `clamp(ZERO, ONE)` lane: the result is a pattern `+0.0 … 1.0` for EVERY input
(NaN ↦ +0.0, −0.0 ↦ +0.0, −∞ ↦ +0.0, +∞ ↦ 1.0) -/
theorem sseClamp01_le (x : Nat) (hx : x < 2 ^ 32) : sseClamp01 x ≤ one := by
  unfold sseClamp01 sseMax
  by_cases h : flt 0 x = true
  · rw [if_pos h]
    obtain ⟨_, hn, hk⟩ := (flt_iff 0 x).mp h
    rw [key_zero] at hk
    obtain ⟨_, hp⟩ := pos_of_key_pos x hx hn hk
    unfold sseMin
    by_cases h2 : flt x one = true
    · rw [if_pos h2]
      obtain ⟨_, _, hk2⟩ := (flt_iff x one).mp h2
      rw [key_pos x hp, key_one] at hk2
      simp only [one]; omega
    · rw [if_neg h2]; exact Nat.le_refl _
  · rw [if_neg h]
    decide

theorem sseMin_cases (a b : Nat) : sseMin a b = b ∨ (sseMin a b = a ∧ isNaN a = false ∧ isNaN b = false ∧ key a < key b) := by
  unfold sseMin
  by_cases h : flt a b = true
  · rw [if_pos h]; right; exact ⟨rfl, (flt_iff a b).mp h⟩
  · rw [if_neg h]; left; rfl

theorem sseMax_cases (a b : Nat) : sseMax a b = b ∨ (sseMax a b = a ∧ isNaN a = false ∧ isNaN b = false ∧ key b < key a) := by
  unfold sseMax
  by_cases h : flt b a = true
  · rw [if_pos h]; right
    obtain ⟨h1, h2, h3⟩ := (flt_iff b a).mp h
    exact ⟨rfl, h2, h1, h3⟩
  · rw [if_neg h]; left; rfl

/-- `f32::min` against a non-NaN constant: the constant, or the operand when it is smaller -/
theorem fmin_cases (a k : Nat) (hk : isNaN k = false) :
    fmin a k = k ∨ (fmin a k = a ∧ isNaN a = false ∧ key a ≤ key k) := by
  unfold fmin
  by_cases hn : isNaN a = true
  · rw [if_pos hn]; left; rfl
  · rw [if_neg hn, if_neg (by rw [hk]; decide)]
    have hn' : isNaN a = false := by simpa using hn
    by_cases h : flt k a = true
    · rw [if_pos h]; left; rfl
    · rw [if_neg h]; right
      refine ⟨rfl, hn', ?_⟩
      have f := flt_iff k a
      simp only [hk, hn', true_and] at f
      have : ¬ key k < key a := fun hh => h (f.mpr hh)
      omega

/-- `e0.min(e1)` and `e0.max(e1)`: both NaN, or both not NaN and ordered -/
theorem fminmax_spec (t1 t2 : Bool) (e0 e1 : Nat) (h0 : e0 < 2 ^ 32) (h1 : e1 < 2 ^ 32) :
    fminT t1 e0 e1 < 2 ^ 32 ∧ fmaxT t2 e0 e1 < 2 ^ 32 ∧
    ((isNaN (fminT t1 e0 e1) = true ∧ isNaN (fmaxT t2 e0 e1) = true) ∨
     (isNaN (fminT t1 e0 e1) = false ∧ isNaN (fmaxT t2 e0 e1) = false ∧
       key (fminT t1 e0 e1) ≤ key (fmaxT t2 e0 e1))) := by
  unfold fminT fmaxT
  by_cases n0 : isNaN e0 = true
  · rw [if_pos n0, if_pos n0]
    refine ⟨h1, h1, ?_⟩
    by_cases n1 : isNaN e1 = true
    · left; exact ⟨n1, n1⟩
    · right; have : isNaN e1 = false := by simpa using n1
      exact ⟨this, this, Int.le_refl _⟩
  · rw [if_neg n0, if_neg n0]
    have n0' : isNaN e0 = false := by simpa using n0
    by_cases n1 : isNaN e1 = true
    · rw [if_pos n1, if_pos n1]
      exact ⟨h0, h0, Or.inr ⟨n0', n0', Int.le_refl _⟩⟩
    · rw [if_neg n1, if_neg n1]
      have n1' : isNaN e1 = false := by simpa using n1
      have f1 := flt_iff e0 e1
      have f2 := flt_iff e1 e0
      simp only [n0', n1', true_and] at f1 f2
      by_cases a : flt e0 e1 = true
      · rw [if_pos a, if_pos a]
        exact ⟨h0, h1, Or.inr ⟨n0', n1', by have := f1.mp a; omega⟩⟩
      · rw [if_neg a, if_neg a]
        by_cases b : flt e1 e0 = true
        · rw [if_pos b, if_pos b]
          exact ⟨h1, h0, Or.inr ⟨n1', n0', by have := f2.mp b; omega⟩⟩
        · rw [if_neg b, if_neg b]
          have k1 : ¬ key e0 < key e1 := fun hh => a (f1.mpr hh)
          have k2 : ¬ key e1 < key e0 := fun hh => b (f2.mpr hh)
          have ke : key e0 = key e1 := by omega
          cases t1 <;> cases t2 <;> simp only [if_true, if_false, Bool.false_eq_true] <;>
            first
              | exact ⟨h0, h0, Or.inr ⟨n0', n0', Int.le_refl _⟩⟩
              | exact ⟨h1, h1, Or.inr ⟨n1', n1', Int.le_refl _⟩⟩
              | exact ⟨h0, h1, Or.inr ⟨n0', n1', by omega⟩⟩
              | exact ⟨h1, h0, Or.inr ⟨n1', n0', by omega⟩⟩

/-- `f32::clamp(0.0, 1.0)`: NaN stays, otherwise the key is clamped to `[0, key 1.0]`; the result is `-0.0`
or a pattern `+0.0 … 1.0` -/
theorem fclamp01_spec (x : Nat) (hx : x < 2 ^ 32) :
    (isNaN x = true ∧ fclamp x 0 one = x) ∨
    (isNaN x = false ∧ isNaN (fclamp x 0 one) = false ∧ fclamp x 0 one < 2 ^ 32 ∧
      (fclamp x 0 one = signBit ∨ fclamp x 0 one ≤ one) ∧
      key (fclamp x 0 one) = max 0 (min (key x) (key one))) := by
  unfold fclamp
  simp only [force_eq]
  by_cases hn : isNaN x = true
  · left
    have a : flt x 0 = false := by unfold flt; simp [hn]
    have b : flt one x = false := by unfold flt; simp [hn]
    simp only [a, b, Bool.false_eq_true, if_false]
    exact ⟨hn, trivial⟩
  · right
    have hn' : isNaN x = false := by simpa using hn
    refine ⟨hn', ?_⟩
    have f1 := flt_iff x 0
    simp only [hn', nan_zero, true_and, key_zero] at f1
    by_cases a : flt x 0 = true
    · have ka := f1.mp a
      rw [if_pos a]
      have b : ¬ flt one 0 = true := by decide
      rw [if_neg b]
      refine ⟨nan_zero, by decide, Or.inr (by decide), ?_⟩
      rw [key_zero, key_one]; omega
    · have ka : ¬ key x < 0 := fun hh => a (f1.mpr hh)
      rw [if_neg a]
      have f2 := flt_iff one x
      simp only [hn', nan_one, true_and] at f2
      by_cases b : flt one x = true
      · have kb := f2.mp b
        rw [if_pos b]
        refine ⟨nan_one, by decide, Or.inr (Nat.le_refl _), ?_⟩
        rw [key_one] at kb ⊢; omega
      · have kb : ¬ key one < key x := fun hh => b (f2.mpr hh)
        rw [if_neg b]
        refine ⟨hn', hx, unit_of_key x hx hn' (by omega) (by omega), ?_⟩
        rw [key_one] at kb ⊢; omega

/-! ### NaN through the operators -/

theorem isNaN_nan : isNaN nan = true := by decide

theorem fmul_nan_right (k x : Nat) (h : isNaN x = true) : fmul k x = nan := by
  unfold fmul; simp only [force_eq, h, Bool.or_true, if_true]

theorem fmul_nan_left (k x : Nat) (h : isNaN x = true) : fmul x k = nan := by
  unfold fmul; simp only [force_eq, h, Bool.true_or, if_true]

theorem fadd_nan_left (x h : Nat) (hn : isNaN x = true) : fadd x h = nan := by
  unfold fadd; simp only [force_eq, hn, Bool.true_or, if_true]

theorem fadd_nan_right (a x : Nat) (hn : isNaN x = true) : fadd a x = nan := by
  unfold fadd; simp only [force_eq, hn, Bool.or_true, if_true]

theorem isNaN_neg (x : Nat) (hx : x < 2 ^ 32) (hn : isNaN x = true) : isNaN (neg x) = true := by
  rw [isNaN_iff] at hn ⊢
  rw [← negR_eq]
  unfold negR
  rw [cond_ble, nsub, nadd]
  split <;> omega

theorem fsub_nan_right (a x : Nat) (hx : x < 2 ^ 32) (hn : isNaN x = true) : fsub a x = nan := by
  unfold fsub; simp only [force_eq]
  exact fadd_nan_right a _ (isNaN_neg x hx hn)

/-! ### subtraction of non-negative finite operands: exact difference, one rounding -/

theorem neg_posfin (c : Nat) (hc : c < 0x7F800000) :
    neg c = c + 0x80000000 ∧ isNaN (c + 0x80000000) = false ∧ isInf (c + 0x80000000) = false ∧
    isNeg (c + 0x80000000) = true ∧ mant (c + 0x80000000) = mantR c ∧
    expo (c + 0x80000000) = (bexpR c : Int) - 1000 := by
  obtain ⟨c1, c2, c3, c4, c5⟩ := posfin c hc
  have hE : expField (c + 0x80000000) = expField c := by
    rw [ConvFast.expField_eq, ConvFast.expField_eq]; omega
  have hF : fracField (c + 0x80000000) = fracField c := by unfold fracField; omega
  refine ⟨?_, ?_, ?_, ?_, ?_, ?_⟩
  · rw [← negR_eq]; unfold negR; rw [cond_ble, nadd, if_neg (by omega)]
  · unfold isNaN at c1 ⊢; rw [hE, hF]; exact c1
  · unfold isInf at c2 ⊢; rw [hE, hF]; exact c2
  · unfold isNeg signBit; simp
  · rw [← c4]; unfold mant; rw [hE, hF]
  · rw [← c5]; unfold expo; rw [hE]

theorem fsub_pval (a c : Nat) (ha : a < 0x7F800000) (hc : c < 0x7F800000) :
    fsub a c = if pval c ≤ pval a then rpU (pval a - pval c) 851
      else 0x80000000 + rpU (pval c - pval a) 851 := by
  obtain ⟨a1, a2, a3, a4, a5⟩ := posfin a ha
  obtain ⟨n0, n1, n2, n3, n4, n5⟩ := neg_posfin c hc
  unfold fsub
  rw [force_eq, n0]
  unfold fadd
  simp only [force_eq, forceI_eq, a1, a2, a3, a4, a5, n1, n2, n3, n4, n5, Bool.or_self, Bool.false_eq_true,
    if_false, if_true, Bool.false_and]
  have ea := bexpR_ge a
  have ec := bexpR_ge c
  unfold pval
  generalize bexpR a = A at *
  generalize bexpR c = C at *
  generalize mantR a = ma
  generalize mantR c = mc
  clear a1 a2 a3 a4 a5 n0 n1 n2 n3 n4 n5
  generalize hE : min A C = E
  have hmin : min ((A : Int) - 1000) ((C : Int) - 1000) = (E : Int) - 1000 := by omega
  have s1 : ((A : Int) - 1000 - ((E : Int) - 1000)).toNat = A - E := by omega
  have s2 : ((C : Int) - 1000 - ((E : Int) - 1000)).toNat = C - E := by omega
  rw [hmin, s1, s2, Nat.shiftLeft_eq, Nat.shiftLeft_eq]
  have pa : ma * 2 ^ (A - 851) = ma * 2 ^ (A - E) * 2 ^ (E - 851) := by
    have e : A - E + (E - 851) = A - 851 := by omega
    rw [Nat.mul_assoc, ← Nat.pow_add, e]
  have pc : mc * 2 ^ (C - 851) = mc * 2 ^ (C - E) * 2 ^ (E - 851) := by
    have e : C - E + (E - 851) = C - 851 := by omega
    rw [Nat.mul_assoc, ← Nat.pow_add, e]
  rw [pa, pc]
  generalize ma * 2 ^ (A - E) = X
  generalize mc * 2 ^ (C - E) = Y
  have hp := two_pow_pos (E - 851)
  have e851 : 851 + (E - 851) = E := by omega
  by_cases hle : Y ≤ X
  · have hle' : Y * 2 ^ (E - 851) ≤ X * 2 ^ (E - 851) := Nat.mul_le_mul_right _ hle
    rw [if_pos hle', ← Nat.sub_mul, rpU_scale, e851, ← roundPack_eq_rpU]
    by_cases h0 : X = Y
    · subst h0
      have : ((X : Int) + -(X : Int) == 0) = true := by rw [Int.add_right_neg]; rfl
      rw [if_pos this, Nat.sub_self, ConvFast.roundPack_zero]; rfl
    · have hne : ¬ ((X : Int) + -(Y : Int) == 0) = true := by simp; omega
      have hlt : ¬ ((X : Int) + -(Y : Int) < 0) := by omega
      have hab : ((X : Int) + -(Y : Int)).natAbs = X - Y := by omega
      rw [if_neg hne, decide_eq_false hlt, hab]
  · have hlt' : ¬ Y * 2 ^ (E - 851) ≤ X * 2 ^ (E - 851) := by
      intro h; exact hle (Nat.le_of_mul_le_mul_right h hp)
    rw [if_neg hlt', ← Nat.sub_mul, rpU_scale, e851, ← roundPack_eq_rpU]
    have hne : ¬ ((X : Int) + -(Y : Int) == 0) = true := by simp; omega
    have hlt : ((X : Int) + -(Y : Int) < 0) := by omega
    have hab : ((X : Int) + -(Y : Int)).natAbs = Y - X := by omega
    rw [if_neg hne, decide_eq_true hlt, hab, roundPack_sign]; rfl

end Dds.EncBcSites
