/-
No i32 operation of BC6H `unquantize` / interpolate / `finish_unquantize` overflows.

`Bc6.lean` models the release build: every `+`, `*`, `<<`, unary `-` is followed by `wrap32`.  Here the same
functions are mirrored with every `wrap32 e` (including the one inside `shl32 x s = wrap32 (x * 2^s)`) replaced by
the trapping check `ck32 e` of the overflow-checking build, in the same nesting / evaluation order.  The theorems
say: on the decode path the checked evaluation never traps and returns exactly what the wrapping model returns.
-/
import DdsModel.Proofs.Bc6GlueArith
namespace Dds.Bc6
open Dds.BcTables Dds.Bc6Spec

/-- an i32 operation of the overflow-checking build: `none` = the result does not fit i32 (trap) -/
def ck32 (x : Int) : Option Int := if -2147483648 ≤ x ∧ x < 2147483648 then some x else none

/-- checked mirror of `Bc6.shl32` (`i32 << s`): `shl32 x s = wrap32 (x * 2^s)` -/
def shlCk (x : Int) (s : Nat) : Option Int := ck32 (x * (2 ^ s : Nat))

/-- checked mirror of `Bc6.unquantize`: same branch structure and order of operations, one `ck32` per `wrap32`
(`shlCk` for `shl32`) -/
def unquantizeCk (component : Int) (bits : Nat) (signed : Bool) : Option Int :=
  if !signed then
    if bits ≥ 15 then some component
    else if component = 0 then some 0
    else do
      -- `component = wrap32 (shl32 1 bits - 1)`
      let one ← shlCk 1 bits
      let m ← ck32 (one - 1)
      if component = m then some 0xFFFF
      else do
        -- `sar32 (wrap32 (shl32 component 16 + 0x8000)) bits`
        let sh ← shlCk component 16
        let t ← ck32 (sh + 0x8000)
        some (sar32 t bits)
  else
    if bits ≥ 16 then some component
    else do
      -- `let s := component < 0; let component := if s then wrap32 (-component) else component`
      let comp ← if component < 0 then ck32 (-component) else some component
      let unq ←
        if comp = 0 then some 0
        else do
          -- `component ≥ wrap32 (shl32 1 (bits - 1) - 1)`
          let one ← shlCk 1 (bits - 1)
          let m ← ck32 (one - 1)
          if comp ≥ m then some 0x7FFF
          else do
            -- `sar32 (wrap32 (shl32 component 15 + 0x4000)) (bits - 1)`
            let sh ← shlCk comp 15
            let t ← ck32 (sh + 0x4000)
            some (sar32 t (bits - 1))
      -- `if s then wrap32 (-unq) else unq`
      if component < 0 then ck32 (-unq) else some unq

/-- checked mirror of `Bc6.finishUnquantize`: one `ck32` per `wrap32`, same nesting order -/
def finishUnquantizeCk (component : Int) (signed : Bool) : Option Nat :=
  if !signed then do
    -- `toU32 (sar32 (wrap32 (component * 31)) 6) % U16`
    let p ← ck32 (component * 31)
    some (toU32 (sar32 p 6) % U16)
  else do
    let c ←
      if component < 0 then do
        -- `wrap32 (-(sar32 (wrap32 (wrap32 (-component) * 31)) 5))`
        let n ← ck32 (-component)
        let p ← ck32 (n * 31)
        ck32 (-(sar32 p 5))
      else do
        -- `sar32 (wrap32 (component * 31)) 5`
        let p ← ck32 (component * 31)
        some (sar32 p 5)
    let s : Nat := if c < 0 then 0x8000 else 0
    -- `if c < 0 then wrap32 (-c) else c`
    let c' ← if c < 0 then ck32 (-c) else some c
    some ((s ||| toU32 c') % U16)

/-- checked mirror of `Bc6.paletteEntry`:
`finishUnquantize (sar32 (wrap32 (wrap32 (wrap32 (a * wrap32 (64 - w)) + wrap32 (b * w)) + 32)) 6) signed` -/
def paletteEntryCk (a b : Int) (w : Nat) (signed : Bool) : Option Nat := do
  let iw ← ck32 (64 - (w : Int))
  let aw ← ck32 (a * iw)
  let bw ← ck32 (b * (w : Int))
  let s ← ck32 (aw + bw)
  let t ← ck32 (s + 32)
  finishUnquantizeCk (sar32 t 6) signed

/-! ### the checks never fire on the decode path -/

theorem ck32_some (x : Int) (h1 : -2147483648 ≤ x) (h2 : x < 2147483648) : ck32 x = some x := by
  unfold ck32; rw [if_pos ⟨h1, h2⟩]

/-- a passing check returns what the wrapping operation returns -/
theorem ck32_eq_wrap (x : Int) (h1 : -2147483648 ≤ x) (h2 : x < 2147483648) : ck32 x = some (wrap32 x) := by
  rw [ck32_some x h1 h2, wrap32_id x h1 h2]

theorem ck32_none (x : Int) (h : x < -2147483648 ∨ 2147483648 ≤ x) : ck32 x = none := by
  unfold ck32; rw [if_neg (by omega)]

/-- one step of the proofs below: remove passing checks / identity wraps, reduce binds, split an `if` -/
macro "ck_step" : tactic =>
  `(tactic| first
    | rfl
    | simp (disch := omega) only [ck32_some, wrap32_id, Option.bind_eq_bind, Option.bind_some, Option.pure_def]
    | split)

/-- `unquantize` in the overflow-checking build never traps and returns what the wrapping model returns -/
theorem unquantizeCk_some (signed : Bool) (bits : Nat) (c : Int)
    (hbits : bits = 6 ∨ bits = 7 ∨ bits = 8 ∨ bits = 9 ∨ bits = 10 ∨ bits = 11 ∨ bits = 12 ∨ bits = 16)
    (hc : inRange signed bits c) : unquantizeCk c bits signed = some (Bc6.unquantize c bits signed) := by
  cases signed <;> rcases hbits with h | h | h | h | h | h | h | h <;> subst h <;>
    simp only [inRange, unquantizeCk, Bc6.unquantize, shlCk, shl32, sar32, Nat.reducePow, Nat.reduceSub,
      Int.cast_ofNat_Int, Bool.not_true, Bool.not_false, Bool.false_eq_true, if_false, if_true,
      Nat.reduceLeDiff, ge_iff_le, Int.one_mul] at hc ⊢ <;>
    repeat' ck_step

/-- `finish_unquantize` in the overflow-checking build never traps -/
theorem finishUnquantizeCk_some (signed : Bool) (e : Int)
    (he : if signed then -32768 ≤ e ∧ e ≤ 32767 else 0 ≤ e ∧ e ≤ 65535) :
    finishUnquantizeCk e signed = some (finishUnquantize e signed) := by
  cases signed <;>
    simp only [finishUnquantizeCk, finishUnquantize, sar32, Nat.reducePow, Int.cast_ofNat_Int, Bool.not_true,
      Bool.not_false, Bool.false_eq_true, if_false, if_true] at he ⊢ <;>
    repeat' ck_step

/-- interpolate + `finish_unquantize` in the overflow-checking build never trap and return what the wrapping
model returns, for every weight 0..64 -/
theorem paletteEntryCk_some (signed : Bool) (a b : Int) (w : Nat) (hw : w ≤ 64)
    (ha : if signed then -32768 ≤ a ∧ a ≤ 32767 else 0 ≤ a ∧ a ≤ 65535)
    (hb : if signed then -32768 ≤ b ∧ b ≤ 32767 else 0 ≤ b ∧ b ≤ 65535) :
    paletteEntryCk a b w signed = some (paletteEntry a b w signed) := by
  have hw0 : (0 : Int) ≤ 64 - (w : Int) := by omega
  have hw1 : (0 : Int) ≤ (w : Int) := by omega
  have hA : -32768 * (64 - (w : Int)) ≤ a * (64 - (w : Int)) ∧ a * (64 - (w : Int)) ≤ 65535 * (64 - (w : Int)) ∧
      (signed = true → a * (64 - (w : Int)) ≤ 32767 * (64 - (w : Int))) ∧
      (signed = false → 0 ≤ a * (64 - (w : Int))) := by
    cases signed <;> simp only [Bool.false_eq_true, if_false, if_true] at ha
    · have h1 := Int.mul_le_mul_of_nonneg_right ha.2 hw0
      have h2 := Int.mul_le_mul_of_nonneg_right ha.1 hw0
      refine ⟨by omega, by omega, fun h => (by cases h), fun _ => by omega⟩
    · have h1 := Int.mul_le_mul_of_nonneg_right ha.2 hw0
      have h2 := Int.mul_le_mul_of_nonneg_right ha.1 hw0
      refine ⟨by omega, by omega, fun _ => by omega, fun h => (by cases h)⟩
  have hB : -32768 * (w : Int) ≤ b * (w : Int) ∧ b * (w : Int) ≤ 65535 * (w : Int) ∧
      (signed = true → b * (w : Int) ≤ 32767 * (w : Int)) ∧ (signed = false → 0 ≤ b * (w : Int)) := by
    cases signed <;> simp only [Bool.false_eq_true, if_false, if_true] at hb
    · have h1 := Int.mul_le_mul_of_nonneg_right hb.2 hw1
      have h2 := Int.mul_le_mul_of_nonneg_right hb.1 hw1
      refine ⟨by omega, by omega, fun h => (by cases h), fun _ => by omega⟩
    · have h1 := Int.mul_le_mul_of_nonneg_right hb.2 hw1
      have h2 := Int.mul_le_mul_of_nonneg_right hb.1 hw1
      refine ⟨by omega, by omega, fun _ => by omega, fun h => (by cases h)⟩
  have c1 := ck32_some (64 - (w : Int)) (by omega) (by omega)
  have w1 := wrap32_id (64 - (w : Int)) (by omega) (by omega)
  generalize hAe : a * (64 - (w : Int)) = A at hA
  generalize hBe : b * (w : Int) = B at hB
  have c2 := ck32_some A (by omega) (by omega)
  have w2 := wrap32_id A (by omega) (by omega)
  have c3 := ck32_some B (by omega) (by omega)
  have w3 := wrap32_id B (by omega) (by omega)
  have c4 := ck32_some (A + B) (by omega) (by omega)
  have w4 := wrap32_id (A + B) (by omega) (by omega)
  have c5 := ck32_some (A + B + 32) (by omega) (by omega)
  have w5 := wrap32_id (A + B + 32) (by omega) (by omega)
  have hs : sar32 (A + B + 32) 6 = (A + B + 32) / 64 := by
    simp only [sar32, Nat.reducePow, Int.cast_ofNat_Int]
  simp only [paletteEntryCk, paletteEntry, Option.bind_eq_bind, Option.bind_some, c1, w1, hAe, hBe, c2, w2, c3,
    w3, c4, w4, c5, w5]
  apply finishUnquantizeCk_some
  rw [hs]
  cases signed <;> simp only [Bool.false_eq_true, if_false, if_true]
  · have := hA.2.2.2 rfl
    have := hB.2.2.2 rfl
    omega
  · have := hA.2.2.1 rfl
    have := hB.2.2.1 rfl
    omega

/-! ### instances, and the checks are not vacuous -/

example : unquantizeCk 2047 11 false = some (Bc6.unquantize 2047 11 false) :=
  unquantizeCk_some false 11 2047 (by omega) (by unfold inRange; decide)

example : unquantizeCk (-1024) 11 true = some (Bc6.unquantize (-1024) 11 true) :=
  unquantizeCk_some true 11 (-1024) (by omega) (by unfold inRange; decide)

example : paletteEntryCk (-32768) 32767 43 true = some (paletteEntry (-32768) 32767 43 true) :=
  paletteEntryCk_some true (-32768) 32767 43 (by omega) (by decide) (by decide)

example : paletteEntryCk 65535 65535 64 false = some (paletteEntry 65535 65535 64 false) :=
  paletteEntryCk_some false 65535 65535 64 (by omega) (by decide) (by decide)

/-- the concrete values -/
example : unquantizeCk 2047 11 false = some 65535 ∧ unquantizeCk (-1024) 11 true = some (-32767) ∧
    paletteEntryCk (-32768) 32767 43 true = some 0x2A9F ∧ paletteEntryCk 65535 65535 64 false = some 0x7BFF := by
  decide

/-- outside the decode path's ranges the mirror DOES trap: `a * 64`, `component << 16`, `-(i32::MIN)` -/
example : paletteEntryCk 2147483647 1 0 false = none := by decide
example : unquantizeCk 70000 6 false = none := by decide
example : finishUnquantizeCk (-2147483648) true = none := by decide

end Dds.Bc6
