/-
C15, bc4.rs sites (`EncBcSites.lean`): `1.0 - x` is antitone on [0, 1]; `(K·x) as u8 + (K·(1.0 − x)) as u8 ≤ K` for
K = 255, 254 (monotone × antitone + 256 checked cut points, `decide +kernel`), hence the `debug_assert!(min < max)` of
`EndPoints::quantize` / `new_inter6` holds and the `u8` subtractions do not underflow, for EVERY pair of patterns.
-/
import DdsModel.Proofs.EncBcSites
namespace Dds.EncBcSites
open Dds Dds.CF32 Dds.ConvFast Dds.F32Mono Dds.F32Thr
open Dds.F32.Raw (nadd nsub cond_ble)
open Dds.EncTotal.QuantBits (NegR negR_flags toNatSat_neg toNatSat_small fmul_neg fadd_neg_half)
open Dds.EncTotal.SharedExp (isNaN_iff key_of_lt key_of_ge isNaN_of_le)

/-! ### `1.0 - x` -/

theorem one_lt_posInf : one < 0x7F800000 := by decide

theorem fsub_one_le (x : Nat) (hx : x ≤ one) : fsub one x = rpU (pval one - pval x) 851 := by
  rw [fsub_pval one x one_lt_posInf (Nat.lt_of_le_of_lt hx one_lt_posInf), if_pos (pval_mono hx)]

/-- `x ↦ 1.0 - x` is antitone on the patterns `+0.0 … 1.0` and stays there -/
theorem fsub_one_anti {x y : Nat} (hxy : x ≤ y) (hy : y ≤ one) : fsub one y ≤ fsub one x ∧ fsub one x ≤ one := by
  have hx : x ≤ one := Nat.le_trans hxy hy
  have h0 : fsub one 0 = one := by decide +kernel
  constructor
  · rw [fsub_one_le x hx, fsub_one_le y hy]
    apply rpU_mono_m
    have := pval_mono hxy
    omega
  · have hp0 : pval 0 = 0 := by decide +kernel
    have h := rpU_mono_m 851 (show pval one - pval x ≤ pval one - pval 0 by omega)
    rw [← fsub_one_le x hx, ← fsub_one_le 0 (Nat.zero_le _), h0] at h
    exact h

/-- above 1.0 (up to `+∞`) the difference is negative -/
theorem fsub_one_gt (x : Nat) (h1 : one < x) (h2 : x ≤ 0x7F800000) : NegR (fsub one x) := by
  by_cases hi : x = 0x7F800000
  · subst hi
    have : fsub one 0x7F800000 = 0xFF800000 := by decide +kernel
    rw [this]; exact ⟨by decide, by decide⟩
  · have hx : x < 0x7F800000 := by omega
    have hp : pval one < pval (one + 1) := by decide +kernel
    have hm : pval (one + 1) ≤ pval x := pval_mono (by omega)
    rw [fsub_pval one x one_lt_posInf hx, if_neg (by omega)]
    have := rpU_le (pval x - pval one) 851
    exact ⟨by simp only [signBit]; omega, by simp only [signBit, posInf]; omega⟩

/-! ### `(K * x + 0.5) as u8`, `(K * x) as u8`, `(K * (1.0 - x)) as u8` -/

theorem roundK_eq (k x : Nat) : roundK k x = pipe k half 255 x := by
  unfold roundK pipe; rw [fmul_comm]

theorem roundK_nan (k x : Nat) (h : isNaN x = true) : roundK k x = 0 := by
  rw [roundK_eq]; exact pipe_nan k half 255 x h

theorem roundK_mono (k a b : Nat) (hk : k < 0x7F800000) (hk0 : 0 < k) (ha : a < 2 ^ 32) (hb : b < 2 ^ 32)
    (hna : isNaN a = false) (hnb : isNaN b = false) (h : key a ≤ key b) : roundK k a ≤ roundK k b := by
  rw [roundK_eq, roundK_eq]; exact pipe_mono_key k 255 a b hk hk0 ha hb hna hnb h

theorem floorK_nan (k x : Nat) (h : isNaN x = true) : floorK k x = 0 := by
  unfold floorK; rw [fmul_nan_right k x h]; exact toNatSat_nan _ _ isNaN_nan

theorem floorK_neg (k x : Nat) (hk : k < 0x7F800000) (hk0 : 0 < k) (h : NegR x) : floorK k x = 0 := by
  unfold floorK; rw [fmul_comm]
  exact toNatSat_neg _ _ (fmul_neg x k h hk (isZero_false k hk hk0))

theorem floorK_mono_nonneg (k a b : Nat) (hk : k < 0x7F800000) (hk0 : 0 < k) (hab : a ≤ b) (hb : b ≤ 0x7F800000) :
    floorK k a ≤ floorK k b := by
  unfold floorK; rw [fmul_comm k a, fmul_comm k b]
  obtain ⟨m1, m2⟩ := fmul_mono_nonneg hab hb hk hk0
  exact toNatSat_mono_nonneg 255 m1 m2

theorem floorK_zero (k : Nat) (hk : k < 0x7F800000) : floorK k 0 = 0 := by
  unfold floorK
  have h0 : pval 0 = 0 := by decide +kernel
  rw [fmul_comm, fmul_pval 0 k (by decide) hk, h0, Nat.zero_mul, rpU_zero]
  decide

theorem floorK_mono (k a b : Nat) (hk : k < 0x7F800000) (hk0 : 0 < k) (ha : a < 2 ^ 32) (hb : b < 2 ^ 32)
    (hna : isNaN a = false) (hnb : isNaN b = false) (h : key a ≤ key b) : floorK k a ≤ floorK k b := by
  rcases cls a ha hna with ha' | ha'
  · rcases cls b hb hnb with hb' | hb'
    · rw [key_pos a ha', key_pos b hb'] at h
      exact floorK_mono_nonneg k a b hk hk0 (by omega) hb'
    · have := key_neg b hb'
      rw [key_pos a ha'] at h
      have ha0 : a = 0 := by omega
      rw [ha0, floorK_zero k hk]; exact Nat.zero_le _
  · rw [floorK_neg k a hk hk0 ha']; exact Nat.zero_le _

theorem ceilTermK_nan (k x : Nat) (hx : x < 2 ^ 32) (h : isNaN x = true) : ceilTermK k x = 0 := by
  unfold ceilTermK; rw [fsub_nan_right one x hx h, fmul_nan_right k nan isNaN_nan]
  exact toNatSat_nan _ _ isNaN_nan

theorem ceilTermK_anti (k x y : Nat) (hk : k < 0x7F800000) (hk0 : 0 < k) (hxy : x ≤ y) (hy : y ≤ one) :
    ceilTermK k y ≤ ceilTermK k x := by
  unfold ceilTermK
  obtain ⟨a1, a2⟩ := fsub_one_anti hxy hy
  rw [fmul_comm k, fmul_comm k]
  obtain ⟨m1, m2⟩ := fmul_mono_nonneg a1 (Nat.le_trans a2 (Nat.le_of_lt one_lt_posInf)) hk hk0
  exact toNatSat_mono_nonneg 255 m1 m2

theorem ceilTermK_gt (k x : Nat) (hk : k < 0x7F800000) (hk0 : 0 < k) (h1 : one < x) (h2 : x ≤ 0x7F800000) :
    ceilTermK k x = 0 := by
  unfold ceilTermK; rw [fmul_comm]
  exact toNatSat_neg _ _ (fmul_neg _ k (fsub_one_gt x h1 h2) hk (isZero_false k hk hk0))

/-! ### checked cut points: `f` monotone, `g` antitone ⇒ `f x + g x ≤ K` on every interval between cuts -/

def chkCuts (f g : Nat → Nat) (K : Nat) : Nat → List Nat → Nat → Bool
  | lo, [], top => decide (f top + g lo ≤ K)
  | lo, c :: cs, top => decide (c ≤ top) && decide (f (c - 1) + g lo ≤ K) && chkCuts f g K c cs top

theorem chkCuts_sound (f g : Nat → Nat) (K top : Nat) (hf : ∀ a b, a ≤ b → b ≤ top → f a ≤ f b)
    (hg : ∀ a b, a ≤ b → b ≤ top → g b ≤ g a) :
    ∀ (l : List Nat) (lo : Nat), chkCuts f g K lo l top = true → ∀ x, lo ≤ x → x ≤ top → f x + g x ≤ K
  | [], lo, h, x, h1, h2 => by
    unfold chkCuts at h
    have := of_decide_eq_true h
    have := hf x top h2 (Nat.le_refl _)
    have := hg lo x h1 h2
    omega
  | c :: cs, lo, h, x, h1, h2 => by
    unfold chkCuts at h
    simp only [Bool.and_eq_true, decide_eq_true_eq] at h
    obtain ⟨⟨hc, hs⟩, hr⟩ := h
    by_cases hx : x < c
    · have := hf x (c - 1) (by omega) (by omega)
      have := hg lo x h1 h2
      omega
    · exact chkCuts_sound f g K top hf hg cs c hr x (by omega) h2

def cuts255 : List Nat := [
  998277249, 1006665857, 1010876609, 1015054465, 1017159841, 1019265217, 1021370593, 1023443073, 1024495761, 1025548449,
  1026601137, 1027653825, 1028706513, 1029759201, 1030811889, 1031831681, 1032358025, 1032884369, 1033410713, 1033937057,
  1034463401, 1034989745, 1035516089, 1036042433, 1036568777, 1037095121, 1037621465, 1038147809, 1038674153, 1039200497,
  1039726841, 1040220289, 1040483461, 1040746633, 1041009805, 1041272977, 1041536149, 1041799321, 1042062493, 1042325665,
  1042588837, 1042852009, 1043115181, 1043378353, 1043641525, 1043904697, 1044167869, 1044431041, 1044694213, 1044957385,
  1045220557, 1045483729, 1045746901, 1046010073, 1046273245, 1046536417, 1046799589, 1047062761, 1047325933, 1047589105,
  1047852277, 1048115449, 1048378621, 1048608897, 1048740483, 1048872069, 1049003655, 1049135241, 1049266827, 1049398413,
  1049529999, 1049661585, 1049793171, 1049924757, 1050056343, 1050187929, 1050319515, 1050451101, 1050582687, 1050714273,
  1050845859, 1050977445, 1051109031, 1051240617, 1051372203, 1051503789, 1051635375, 1051766961, 1051898547, 1052030133,
  1052161719, 1052293305, 1052424891, 1052556477, 1052688063, 1052819649, 1052951235, 1053082821, 1053214407, 1053345993,
  1053477579, 1053609165, 1053740751, 1053872337, 1054003923, 1054135509, 1054267095, 1054398681, 1054530267, 1054661853,
  1054793439, 1054925025, 1055056611, 1055188197, 1055319783, 1055451369, 1055582955, 1055714541, 1055846127, 1055977713,
  1056109299, 1056240885, 1056372471, 1056504057, 1056635643, 1056767229, 1056898815, 1056997505, 1057063298, 1057129091,
  1057194884, 1057260677, 1057326470, 1057392263, 1057458056, 1057523849, 1057589642, 1057655435, 1057721228, 1057787021,
  1057852814, 1057918607, 1057984400, 1058050193, 1058115986, 1058181779, 1058247572, 1058313365, 1058379158, 1058444951,
  1058510744, 1058576537, 1058642330, 1058708123, 1058773916, 1058839709, 1058905502, 1058971295, 1059037088, 1059102881,
  1059168674, 1059234467, 1059300260, 1059366053, 1059431846, 1059497639, 1059563432, 1059629225, 1059695018, 1059760811,
  1059826604, 1059892397, 1059958190, 1060023983, 1060089776, 1060155569, 1060221362, 1060287155, 1060352948, 1060418741,
  1060484534, 1060550327, 1060616120, 1060681913, 1060747706, 1060813499, 1060879292, 1060945085, 1061010878, 1061076671,
  1061142464, 1061208257, 1061274050, 1061339843, 1061405636, 1061471429, 1061537222, 1061603015, 1061668808, 1061734601,
  1061800394, 1061866187, 1061931980, 1061997773, 1062063566, 1062129359, 1062195152, 1062260945, 1062326738, 1062392531,
  1062458324, 1062524117, 1062589910, 1062655703, 1062721496, 1062787289, 1062853082, 1062918875, 1062984668, 1063050461,
  1063116254, 1063182047, 1063247840, 1063313633, 1063379426, 1063445219, 1063511012, 1063576805, 1063642598, 1063708391,
  1063774184, 1063839977, 1063905770, 1063971563, 1064037356, 1064103149, 1064168942, 1064234735, 1064300528, 1064366321,
  1064432114, 1064497907, 1064563700, 1064629493, 1064695286, 1064761079, 1064826872, 1064892665, 1064958458, 1065024251,
  1065090044, 1065155837, 1065221630, 1065287423, 1065353216]

def cuts254 : List Nat := [
  998310404, 1006699012, 1010926342, 1015087620, 1017201285, 1019314950, 1021428615, 1023476228, 1024533061, 1025589893,
  1026646726, 1027703558, 1028760391, 1029817223, 1030874056, 1031864836, 1032393252, 1032921669, 1033450085, 1033978501,
  1034506917, 1035035334, 1035563750, 1036092166, 1036620582, 1037148999, 1037677415, 1038205831, 1038734247, 1039262664,
  1039791080, 1040253444, 1040517652, 1040781860, 1041046068, 1041310277, 1041574485, 1041838693, 1042102901, 1042367109,
  1042631317, 1042895525, 1043159733, 1043423942, 1043688150, 1043952358, 1044216566, 1044480774, 1044744982, 1045009190,
  1045273398, 1045537607, 1045801815, 1046066023, 1046330231, 1046594439, 1046858647, 1047122855, 1047387063, 1047651272,
  1047915480, 1048179688, 1048443896, 1048642052, 1048774156, 1048906260, 1049038364, 1049170468, 1049302572, 1049434676,
  1049566780, 1049698885, 1049830989, 1049963093, 1050095197, 1050227301, 1050359405, 1050491509, 1050623613, 1050755717,
  1050887821, 1051019925, 1051152029, 1051284133, 1051416237, 1051548341, 1051680445, 1051812550, 1051944654, 1052076758,
  1052208862, 1052340966, 1052473070, 1052605174, 1052737278, 1052869382, 1053001486, 1053133590, 1053265694, 1053397798,
  1053529902, 1053662006, 1053794110, 1053926215, 1054058319, 1054190423, 1054322527, 1054454631, 1054586735, 1054718839,
  1054850943, 1054983047, 1055115151, 1055247255, 1055379359, 1055511463, 1055643567, 1055775671, 1055907775, 1056039880,
  1056171984, 1056304088, 1056436192, 1056568296, 1056700400, 1056832504, 1056964608, 1057030660, 1057096712, 1057162764,
  1057228816, 1057294868, 1057360920, 1057426972, 1057493024, 1057559076, 1057625128, 1057691180, 1057757232, 1057823284,
  1057889336, 1057955388, 1058021440, 1058087493, 1058153545, 1058219597, 1058285649, 1058351701, 1058417753, 1058483805,
  1058549857, 1058615909, 1058681961, 1058748013, 1058814065, 1058880117, 1058946169, 1059012221, 1059078273, 1059144325,
  1059210377, 1059276429, 1059342481, 1059408533, 1059474585, 1059540637, 1059606689, 1059672741, 1059738793, 1059804845,
  1059870897, 1059936949, 1060003001, 1060069053, 1060135106, 1060201158, 1060267210, 1060333262, 1060399314, 1060465366,
  1060531418, 1060597470, 1060663522, 1060729574, 1060795626, 1060861678, 1060927730, 1060993782, 1061059834, 1061125886,
  1061191938, 1061257990, 1061324042, 1061390094, 1061456146, 1061522198, 1061588250, 1061654302, 1061720354, 1061786406,
  1061852458, 1061918510, 1061984562, 1062050614, 1062116666, 1062182718, 1062248771, 1062314823, 1062380875, 1062446927,
  1062512979, 1062579031, 1062645083, 1062711135, 1062777187, 1062843239, 1062909291, 1062975343, 1063041395, 1063107447,
  1063173499, 1063239551, 1063305603, 1063371655, 1063437707, 1063503759, 1063569811, 1063635863, 1063701915, 1063767967,
  1063834019, 1063900071, 1063966123, 1064032175, 1064098227, 1064164279, 1064230331, 1064296383, 1064362436, 1064428488,
  1064494540, 1064560592, 1064626644, 1064692696, 1064758748, 1064824800, 1064890852, 1064956904, 1065022956, 1065089008,
  1065155060, 1065221112, 1065287164, 1065353216]

theorem k255_lt : k255 < 0x7F800000 := by decide
theorem k254_lt : k254 < 0x7F800000 := by decide

set_option maxRecDepth 100000 in
theorem chk255 : chkCuts (floorK k255) (ceilTermK k255) 255 0 cuts255 one = true := by decide +kernel
set_option maxRecDepth 100000 in
theorem chk254 : chkCuts (floorK k254) (ceilTermK k254) 254 0 cuts254 one = true := by decide +kernel


/-! ### `floor(K·x) + floor(K·(1 − x)) ≤ K` -/

theorem sum_unit (k kN : Nat) (cuts : List Nat) (hk : k < 0x7F800000) (hk0 : 0 < k)
    (hc : chkCuts (floorK k) (ceilTermK k) kN 0 cuts one = true) (x : Nat) (hx : x ≤ one) :
    floorK k x + ceilTermK k x ≤ kN :=
  chkCuts_sound (floorK k) (ceilTermK k) kN one
    (fun a b hab hb => floorK_mono_nonneg k a b hk hk0 hab (Nat.le_trans hb (Nat.le_of_lt one_lt_posInf)))
    (fun a b hab hb => ceilTermK_anti k a b hk hk0 hab hb) cuts 0 hc x (Nat.zero_le _) hx

theorem k255_pos : 0 < k255 := by decide
theorem k254_pos : 0 < k254 := by decide

/-- unorm: every non-NaN pattern -/
theorem sum255 (x : Nat) (hx : x < 2 ^ 32) (hn : isNaN x = false) : floorK k255 x + ceilTermK k255 x ≤ 255 := by
  rcases cls x hx hn with h | h
  · by_cases h1 : x ≤ one
    · exact sum_unit k255 255 cuts255 k255_lt k255_pos chk255 x h1
    · rw [ceilTermK_gt k255 x k255_lt k255_pos (by omega) h]
      have := toNatSat_le_max (fmul k255 x) 255
      unfold floorK; omega
  · rw [floorK_neg k255 x k255_lt k255_pos h]
    have := toNatSat_le_max (fmul k255 (fsub one x)) 255
    unfold ceilTermK; omega

/-- snorm: the clamped values -/
theorem sum254 (x : Nat) (h : x = signBit ∨ x ≤ one) : floorK k254 x + ceilTermK k254 x ≤ 254 := by
  rcases h with h | h
  · subst h; decide +kernel
  · exact sum_unit k254 254 cuts254 k254_lt k254_pos chk254 x h

/-! ### `endsNorm` -/

theorem endsNorm_some (k kN mn mx : Nat) (H1 : roundK k mn ≤ roundK k mx)
    (H2 : floorK k mn + ceilTermK k mx ≤ kN) (H3 : roundK k mx ≤ kN) (hkN : 1 ≤ kN) :
    ∃ a b, endsNorm k kN mn mx = some (a, b) ∧ a < b ∧ b ≤ kN := by
  unfold endsNorm assertLt
  generalize roundK k mn = r1 at *
  generalize roundK k mx = r2 at *
  generalize floorK k mn = f1 at *
  generalize ceilTermK k mx = c2 at *
  by_cases e : r1 = r2
  · rw [if_pos e, if_neg (by omega)]
    by_cases e2 : f1 = kN - c2
    · rw [if_pos e2]
      by_cases e3 : f1 = 0
      · rw [if_pos e3, if_pos (by omega)]; exact ⟨0, 1, rfl, by omega, by omega⟩
      · rw [if_neg e3, if_pos (by omega)]; exact ⟨_, _, rfl, by omega, by omega⟩
    · rw [if_neg e2, if_pos (by omega)]; exact ⟨_, _, rfl, by omega, by omega⟩
  · rw [if_neg e, if_pos (by omega)]; exact ⟨_, _, rfl, by omega, by omega⟩

/-- the hypotheses of `endsNorm_some` for an ordered pair -/
theorem ends_hyps (k kN mn mx : Nat) (hk : k < 0x7F800000) (hk0 : 0 < k) (hmn : mn < 2 ^ 32) (hmx : mx < 2 ^ 32)
    (hc : (isNaN mn = true ∧ isNaN mx = true) ∨ (isNaN mn = false ∧ isNaN mx = false ∧ key mn ≤ key mx))
    (hsum : isNaN mx = false → floorK k mx + ceilTermK k mx ≤ kN) :
    roundK k mn ≤ roundK k mx ∧ floorK k mn + ceilTermK k mx ≤ kN := by
  rcases hc with ⟨n1, n2⟩ | ⟨n1, n2, hkey⟩
  · rw [roundK_nan k mn n1, roundK_nan k mx n2, floorK_nan k mn n1, ceilTermK_nan k mx hmx n2]
    exact ⟨Nat.le_refl _, Nat.zero_le _⟩
  · refine ⟨roundK_mono k mn mx hk hk0 hmn hmx n1 n2 hkey, ?_⟩
    have := floorK_mono k mn mx hk hk0 hmn hmx n1 n2 hkey
    have := hsum n2
    omega

theorem roundK_le_unit (k kN x : Nat) (hk : k < 0x7F800000) (hk0 : 0 < k) (hone : roundK k one = kN) (hx : x ≤ one) :
    roundK k x ≤ kN := by
  rw [← hone, roundK_eq, roundK_eq]
  exact pipe_mono hk hk0 (by decide) hx (Nat.le_of_lt one_lt_posInf)

theorem roundK254_one : roundK k254 one = 254 := by decide +kernel
theorem roundK254_negz : roundK k254 signBit = 0 := by decide +kernel

/-! ### the sites -/

theorem s8FromNorm_some (x : Nat) (h : x ≤ 254) : s8FromNorm x = some ((x + 1 + 128) % 256) := by
  unfold s8FromNorm; rw [if_pos h]

/-- `EndPoints::quantize` for every pair of patterns -/
theorem quantizeEnds_some (t1 t2 snorm : Bool) (e0 e1 : Nat) (h0 : e0 < 2 ^ 32) (h1 : e1 < 2 ^ 32) :
    ∃ c0 c1, quantizeEnds t1 t2 snorm e0 e1 = some (c0, c1) ∧ c0 < 256 ∧ c1 < 256 ∧ c0 ≠ c1 ∧
      (snorm = false → c1 < c0) ∧ (snorm = true → asI8 c0 ≠ asI8 c1) := by
  obtain ⟨b0, b1, hc⟩ := fminmax_spec t1 t2 e0 e1 h0 h1
  unfold quantizeEnds
  generalize fminT t1 e0 e1 = mn at *
  generalize fmaxT t2 e0 e1 = mx at *
  cases snorm
  · -- unorm: no clamp
    rw [if_neg Bool.false_ne_true]
    obtain ⟨H1, H2⟩ := ends_hyps k255 255 mn mx k255_lt k255_pos b0 b1 hc (fun hn => sum255 mx b1 hn)
    obtain ⟨a, b, he, hab, hb⟩ := endsNorm_some k255 255 mn mx H1 H2
      (by unfold roundK; exact toNatSat_le_max _ _) (by decide)
    rw [he]
    exact ⟨b, a, rfl, by omega, by omega, by omega, fun _ => hab, nofun⟩
  · rw [if_pos rfl]
    -- snorm: `f32::clamp(0.0, 1.0)` first
    have hcl : (isNaN (fclamp mn 0 one) = true ∧ isNaN (fclamp mx 0 one) = true) ∨
        (isNaN (fclamp mn 0 one) = false ∧ isNaN (fclamp mx 0 one) = false ∧
          key (fclamp mn 0 one) ≤ key (fclamp mx 0 one)) := by
      rcases hc with ⟨n1, n2⟩ | ⟨n1, n2, hkey⟩
      · left
        rcases fclamp01_spec mn b0 with ⟨_, e⟩ | ⟨c, _⟩
        · rcases fclamp01_spec mx b1 with ⟨_, e'⟩ | ⟨c', _⟩
          · rw [e, e']; exact ⟨n1, n2⟩
          · rw [n2] at c'; cases c'
        · rw [n1] at c; cases c
      · right
        rcases fclamp01_spec mn b0 with ⟨c, _⟩ | ⟨_, m1, _, _, m2⟩
        · rw [n1] at c; cases c
        · rcases fclamp01_spec mx b1 with ⟨c', _⟩ | ⟨_, x1, _, _, x2⟩
          · rw [n2] at c'; cases c'
          · refine ⟨m1, x1, ?_⟩
            rw [m2, x2]; omega
    have hb0 : fclamp mn 0 one < 2 ^ 32 := by
      rcases fclamp01_spec mn b0 with ⟨_, e⟩ | ⟨_, _, m, _⟩
      · rw [e]; exact b0
      · exact m
    have hb1 : fclamp mx 0 one < 2 ^ 32 := by
      rcases fclamp01_spec mx b1 with ⟨_, e⟩ | ⟨_, _, m, _⟩
      · rw [e]; exact b1
      · exact m
    have hunit : isNaN (fclamp mx 0 one) = false → fclamp mx 0 one = signBit ∨ fclamp mx 0 one ≤ one := by
      intro hn
      rcases fclamp01_spec mx b1 with ⟨c, e⟩ | ⟨_, _, _, m, _⟩
      · rw [e, c] at hn; cases hn
      · exact m
    have H3 : roundK k254 (fclamp mx 0 one) ≤ 254 := by
      by_cases hn : isNaN (fclamp mx 0 one) = true
      · rw [roundK_nan _ _ hn]; exact Nat.zero_le _
      · rcases hunit (by simpa using hn) with e | e
        · rw [e, roundK254_negz]; exact Nat.zero_le _
        · exact roundK_le_unit k254 254 _ k254_lt k254_pos roundK254_one e
    generalize fclamp mn 0 one = mn' at *
    generalize fclamp mx 0 one = mx' at *
    obtain ⟨H1, H2⟩ := ends_hyps k254 254 mn' mx' k254_lt k254_pos hb0 hb1 hcl (fun hn => sum254 mx' (hunit hn))
    obtain ⟨a, b, he, hab, hb⟩ := endsNorm_some k254 254 mn' mx' H1 H2 H3 (by decide)
    rw [he]
    simp only [s8FromNorm_some b hb, s8FromNorm_some a (by omega)]
    have hne : (b + 1 + 128) % 256 ≠ (a + 1 + 128) % 256 := by omega
    rw [if_neg hne]
    refine ⟨_, _, rfl, Nat.mod_lt _ (by decide), Nat.mod_lt _ (by decide), hne, nofun, fun _ => ?_⟩
    unfold asI8
    split <;> split <;> omega

/-- `EndPoints::new_inter6` for every pair of patterns -/
theorem newInter6_some (t1 t2 snorm : Bool) (e0 e1 : Nat) (h0 : e0 < 2 ^ 32) (h1 : e1 < 2 ^ 32) :
    ∃ c0 c1, newInter6 t1 t2 snorm e0 e1 = some (c0, c1) ∧ c0 < 256 ∧ c1 < 256 ∧
      (snorm = false → c1 < c0) ∧ (snorm = true → asI8 c1 < asI8 c0) := by
  obtain ⟨c0, c1, he, a0, a1, _, hu, hs⟩ := quantizeEnds_some t1 t2 snorm e0 e1 h0 h1
  unfold newInter6
  rw [he]
  cases snorm
  · dsimp only
    rw [Bool.false_and, if_neg Bool.false_ne_true]
    exact ⟨c0, c1, rfl, a0, a1, hu, nofun⟩
  · have hs' := hs rfl
    dsimp only
    rw [Bool.true_and]
    by_cases hle : asI8 c0 ≤ asI8 c1
    · rw [if_pos (decide_eq_true hle)]
      exact ⟨c1, c0, rfl, a1, a0, nofun, fun _ => by omega⟩
    · rw [if_neg (by simpa using hle)]
      exact ⟨c0, c1, rfl, a0, a1, nofun, fun _ => by omega⟩

/-- the single-colour path: `value = (min + max) * 0.5` of clamped block values is again in `[+0, 1]`, and
`new_closest` passes the assertion of `s8::from_norm` -/
theorem singleValue_le (mn mx : Nat) (h1 : mn ≤ one) (h2 : mx ≤ one) : singleValue mn mx ≤ one := by
  unfold singleValue
  have l1 : mn < 0x7F800000 := Nat.lt_of_le_of_lt h1 one_lt_posInf
  have l2 : mx < 0x7F800000 := Nat.lt_of_le_of_lt h2 one_lt_posInf
  have e2 : fadd one one = two := by decide +kernel
  have hs : fadd mn mx ≤ two := by
    rw [← e2, fadd_pval mn mx l1 l2, fadd_pval one one one_lt_posInf one_lt_posInf]
    apply rpU_mono_m
    have := pval_mono h1
    have := pval_mono h2
    omega
  have e1 : fmul two half = one := by decide +kernel
  rw [← e1]
  exact (fmul_mono_nonneg hs (by decide) (by decide) (by decide)).1

theorem newClosest_some (snorm : Bool) (v : Nat) (hv : v ≤ one) :
    ∃ c0 c1, newClosest snorm v = some (c0, c1) ∧ c0 < 256 ∧ c1 < 256 := by
  unfold newClosest
  cases snorm
  · rw [if_neg Bool.false_ne_true]
    have := toNatSat_le_max (fadd (fmul k255 v) half) 255
    exact ⟨_, _, rfl, by omega, by decide⟩
  · rw [if_pos rfl]
    have h := roundK_le_unit k254 254 v k254_lt k254_pos roundK254_one hv
    unfold roundK at h
    rw [s8FromNorm_some _ h, s8FromNorm_some 0 (by decide)]
    exact ⟨_, _, rfl, Nat.mod_lt _ (by decide), by decide⟩

/-- `reference_brute_force`: the loop bounds -/
theorem brute_ok (blockMin blockMax mn : Nat) (h : mn < bruteMinMax blockMax) :
    ∃ lo, bruteInnerLo (bruteMaxMin blockMin) mn = some lo ∧ mn < lo ∧
      ∀ mx, lo ≤ mx → newInter6Unorm mx mn = some (mx, mn) := by
  have hb : bruteMinMax blockMax ≤ 255 := by unfold bruteMinMax; exact toNatSat_le_max _ _
  unfold bruteInnerLo U8
  rw [if_pos (by omega)]
  refine ⟨_, rfl, by omega, fun mx hmx => ?_⟩
  unfold newInter6Unorm
  rw [if_pos (by omega)]

/-- `Inter6Palette::closest`: the index is in range for every `blend` -/
theorem inter6Closest_some (pixel factor1 add1 : Nat) :
    ∃ b v, inter6Closest pixel factor1 add1 = some (b, v) ∧ b ≤ 7 ∧ indexValueOk v = true := by
  unfold inter6Closest
  generalize toNatSat (fadd (fmul pixel factor1) add1) 255 = t
  have hb : min t 7 ≤ 7 := Nat.min_le_right _ _
  generalize min t 7 = b at *
  have : b = 0 ∨ b = 1 ∨ b = 2 ∨ b = 3 ∨ b = 4 ∨ b = 5 ∨ b = 6 ∨ b = 7 := by omega
  rcases this with rfl | rfl | rfl | rfl | rfl | rfl | rfl | rfl <;> exact ⟨_, _, rfl, by decide, by decide⟩

end Dds.EncBcSites
