/-
Complete evaluation of the `f32`-evaluated conversions (software binary32 model of the Rust
expression) against the rational specification rounded by `roundF32` / `toCode`.
-/
import DdsModel.Conv
import DdsModel.ConvSpec
import DdsModel.Proofs.ConvRange
namespace Dds.ConvProofs
open Dds Dds.Conv Dds.Spec Dds.CF32 Dds.ConvRange
set_option maxRecDepth 100000

/-- the `f32` constants of `formats.rs` are the correctly rounded values of their defining
expressions (Rust evaluates `const` float expressions in IEEE arithmetic; every sub-expression
here is exact except the final division / the decimal literal) -/
theorem constants_ok :
    kThird = roundF32 (1 / 3) ∧ k1_n4 = roundF32 (1 / 45) ∧ k1_n5 = roundF32 (1 / 93) ∧
    k1_n6 = roundF32 (1 / 315) ∧ k1_n8 = roundF32 (1 / 765) ∧ k1_n10 = roundF32 (1 / 86955) ∧
    k1_s8 = roundF32 (1 / 7874) ∧ k1_s16 = roundF32 (1 / 4783982) ∧ c0_n16 = roundF32 (1 / 65536) ∧
    c1_n16 = roundF32 (65537 / 281474976710656) ∧ kXr = roundF32 (1 / 510) ∧
    k255 = roundF32 (1 / 255) ∧ k1023 = roundF32 (1 / 1023) ∧ k65535 = roundF32 (1 / 65535) ∧
    kDenorm16 = roundF32 (65535 / 16777216) ∧ kY = roundF32 (1164383 / 1000000) ∧
    kRV = roundF32 (1596027 / 1000000) ∧ kGU = roundF32 (391762 / 1000000) ∧
    kGV = roundF32 (812968 / 1000000) ∧ kBU = roundF32 (2017232 / 1000000) := by decide +kernel

def okF32 (impl : Nat → Nat) (q : Nat → Rat) (x : Nat) : Bool := impl x == roundF32 (q x)

theorem n1f32_ok : ∀ x, x < 2 → okF32 n1f32 (unorm 1) x = true :=
  forall_lt_of_allRange _ 0 2 (by decide +kernel)
theorem n2f32_ok : ∀ x, x < 4 → okF32 n2f32 (unorm 2) x = true :=
  forall_lt_of_allRange _ 0 4 (by decide +kernel)
theorem n4f32_ok : ∀ x, x < 16 → okF32 n4f32 (unorm 4) x = true :=
  forall_lt_of_allRange _ 0 16 (by decide +kernel)
theorem n5f32_ok : ∀ x, x < 32 → okF32 n5f32 (unorm 5) x = true :=
  forall_lt_of_allRange _ 0 32 (by decide +kernel)
theorem n6f32_ok : ∀ x, x < 64 → okF32 n6f32 (unorm 6) x = true :=
  forall_lt_of_allRange _ 0 64 (by decide +kernel)
theorem n8f32_ok : ∀ x, x < 256 → okF32 n8f32 (unorm 8) x = true :=
  forall_lt_of_allRange _ 3 256 (by decide +kernel)
theorem n10f32_ok : ∀ x, x < 1024 → okF32 n10f32 (unorm 10) x = true :=
  forall_lt_of_allRange _ 5 1024 (by decide +kernel)
theorem s8f32_ok : ∀ x, x < 256 → okF32 s8f32 (snorm 8) x = true :=
  forall_lt_of_allRange _ 3 256 (by decide +kernel)
theorem xr10f32_ok : ∀ x, x < 1024 → okF32 xr10f32 xr x = true :=
  forall_lt_of_allRange _ 5 1024 (by decide +kernel)

/-- small floats: finite codes decode to exactly their value (which is representable, so
`roundF32` is the identity on it), `exp = 31` to `+inf` / NaN, and at the integer precisions to the
nearest code of the clamped value (tie up), infinity to the maximum and NaN to 0 -/
def okSmall (mb : Nat) (signed : Bool) (x : Nat) : Bool :=
  match smallFloat mb signed x with
  | some v =>
    smallF32 mb signed x == (if v == 0 then (if signed && (x >>> (mb + 5)) % 2 == 1 then signBit else 0)
      else roundF32 v) &&
    ((smallN8 mb signed x : Int) == toCode 255 v) && ((smallN16 mb signed x : Int) == toCode 65535 v)
  | none =>
    let neg := signed && (x >>> (mb + 5)) % 2 == 1
    if x % 2 ^ mb == 0 then
      smallF32 mb signed x == (if neg then negInf else posInf) &&
      smallN8 mb signed x == (if neg then 0 else 255) && smallN16 mb signed x == (if neg then 0 else 65535)
    else isNaN (smallF32 mb signed x) && smallN8 mb signed x == 0 && smallN16 mb signed x == 0

theorem fp10_ok : ∀ x, x < 1024 → okSmall 5 false x = true :=
  forall_lt_of_allRange _ 5 1024 (by decide +kernel)
theorem fp11_ok : ∀ x, x < 2048 → okSmall 6 false x = true :=
  forall_lt_of_allRange _ 6 2048 (by decide +kernel)

end Dds.ConvProofs
