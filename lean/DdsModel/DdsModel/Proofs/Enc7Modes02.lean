/-
C13 / BC7 writer, T1 for the three-subset modes 0 and 2 (every partition of `PARTITION_SET_3`; mode 0 uses the first 16).
-/
import DdsModel.Proofs.Enc7Modes137
set_option linter.unusedSimpArgs false
namespace Dds.Enc7
open Dds Dds.BcTables

theorem subset3_le (part i : Nat) (hp : part < 64) (hi : i < 16) : subset3Index (implP3 part) i ≤ 2 := by
  have ht := tbl3_all part hp
  simp only [tbl3OK, Bool.and_eq_true, decide_eq_true_eq, beq_iff_eq, List.all_eq_true, List.mem_range] at ht
  exact ht.1.1.1.1.1.1.2 i hi

theorem ep_swapPair4 (sw : Bool) (a b : List Nat) (l : List (List Nat)) : ep (swapPair sw a b ++ l) 4 = ep l 2 := by
  cases sw <;> rfl
theorem ep_swapPair5 (sw : Bool) (a b : List Nat) (l : List (List Nat)) : ep (swapPair sw a b ++ l) 5 = ep l 3 := by
  cases sw <;> rfl
theorem px_swapPair4 (sw : Bool) (a b : Nat) (l : List Nat) : px (swapPair sw a b ++ l) 4 = px l 2 := by
  cases sw <;> rfl
theorem px_swapPair5 (sw : Bool) (a b : Nat) (l : List Nat) : px (swapPair sw a b ++ l) 5 = px l 3 := by
  cases sw <;> rfl

theorem lt6_cases {P : Nat → Prop} (h0 : P 0) (h1 : P 1) (h2 : P 2) (h3 : P 3) (h4 : P 4) (h5 : P 5) :
    ∀ e, e < 6 → P e := by
  intro e he
  have : e = 0 ∨ e = 1 ∨ e = 2 ∨ e = 3 ∨ e = 4 ∨ e = 5 := by omega
  rcases this with h | h | h | h | h | h <;> subst h <;> assumption

theorem sext_range {P : List Nat → Prop} (a b c d e f : List Nat) (s0 s1 s2 : Bool)
    (ha : P a) (hb : P b) (hc : P c) (hd : P d) (he : P e) (hf : P f) :
    ∀ k, k < 6 → P (ep (swapPair s0 a b ++ swapPair s1 c d ++ swapPair s2 e f) k) := by
  rw [List.append_assoc]
  apply lt6_cases
  · rw [ep_swapPair0]; split <;> assumption
  · rw [ep_swapPair1]; split <;> assumption
  · rw [ep_swapPair2, ep_swapPair0]; split <;> assumption
  · rw [ep_swapPair3, ep_swapPair1]; split <;> assumption
  · rw [ep_swapPair4, ep_swapPair2, ep_swapPair0']; split <;> assumption
  · rw [ep_swapPair5, ep_swapPair3, ep_swapPair1']; split <;> assumption

theorem sext_range_px {P : Nat → Prop} (a b c d e f : Nat) (s0 s1 s2 : Bool)
    (ha : P a) (hb : P b) (hc : P c) (hd : P d) (he : P e) (hf : P f) :
    ∀ k, k < 6 → P (px (swapPair s0 a b ++ swapPair s1 c d ++ swapPair s2 e f) k) := by
  rw [List.append_assoc]
  apply lt6_cases
  · rw [px_swapPair0]; split <;> assumption
  · rw [px_swapPair1]; split <;> assumption
  · rw [px_swapPair2, px_swapPair0]; split <;> assumption
  · rw [px_swapPair3, px_swapPair1]; split <;> assumption
  · rw [px_swapPair4, px_swapPair2, px_swapPair0']; split <;> assumption
  · rw [px_swapPair5, px_swapPair3, px_swapPair1']; split <;> assumption

theorem eps0_w (E : List (List Nat)) (P : List Nat) (rest : List (Nat × Nat))
    (hE : ∀ e, e < 6 → ∀ c, c < 3 → px (ep E e) c < 2 ^ 4) (hP : ∀ k, k < 6 → px P k < 2) :
    Bc7.getEndPoints6 0 (fv (writeEndpointsRgb 4 6 E ++ (writeEndpointsP 6 P ++ rest))) =
      ((List.range 6).map (fun i => [Bc7.promote (Bc7.withP (px (ep E i) 0) (px P i)) 5,
        Bc7.promote (Bc7.withP (px (ep E i) 1) (px P i)) 5, Bc7.promote (Bc7.withP (px (ep E i) 2) (px P i)) 5,
        255]), fv rest) := by
  simp only [Bc7.getEndPoints6, Nat.reduceEqDiff, if_false, if_true, writeEndpointsRgb, List.append_assoc]
  rw [consumeN_chan 4 6 E 0 _ (by decide) (by decide) (fun e he => hE e he 0 (by decide))]
  simp only []
  rw [consumeN_chan 4 6 E 1 _ (by decide) (by decide) (fun e he => hE e he 1 (by decide))]
  simp only []
  rw [consumeN_chan 4 6 E 2 _ (by decide) (by decide) (fun e he => hE e he 2 (by decide))]
  simp only []
  rw [consumeBitsEach_p 6 P _ hP]
  simp only [Bc7.range6, List.map, bpx_map_range _ 6 0 (by decide), bpx_map_range _ 6 1 (by decide),
    bpx_map_range _ 6 2 (by decide), bpx_map_range _ 6 3 (by decide), bpx_map_range _ 6 4 (by decide),
    bpx_map_range _ 6 5 (by decide)]
  all_goals rfl

theorem eps2_w (E : List (List Nat)) (rest : List (Nat × Nat))
    (hE : ∀ e, e < 6 → ∀ c, c < 3 → px (ep E e) c < 2 ^ 5) :
    Bc7.getEndPoints6 2 (fv (writeEndpointsRgb 5 6 E ++ rest)) =
      ((List.range 6).map (fun i => [Bc7.promote (px (ep E i) 0) 5,
        Bc7.promote (px (ep E i) 1) 5, Bc7.promote (px (ep E i) 2) 5, 255]), fv rest) := by
  simp only [Bc7.getEndPoints6, Nat.reduceEqDiff, if_false, if_true, writeEndpointsRgb, List.append_assoc]
  rw [consumeN_chan 5 6 E 0 _ (by decide) (by decide) (fun e he => hE e he 0 (by decide))]
  simp only []
  rw [consumeN_chan 5 6 E 1 _ (by decide) (by decide) (fun e he => hE e he 1 (by decide))]
  simp only []
  rw [consumeN_chan 5 6 E 2 _ (by decide) (by decide) (fun e he => hE e he 2 (by decide))]
  simp only [Bc7.range6, List.map, bpx_map_range _ 6 0 (by decide), bpx_map_range _ 6 1 (by decide),
    bpx_map_range _ 6 2 (by decide), bpx_map_range _ 6 3 (by decide), bpx_map_range _ 6 4 (by decide),
    bpx_map_range _ 6 5 (by decide)]
  all_goals rfl

theorem lerp255_2 (k : Nat) (hk : k < 2 ^ 2) : Bc7.lerp 255 255 (Bc7.WEIGHTS_2.getD k 0) = 255 ∧
    Bc7.lerp 255 255 (Bc7.WEIGHTS_2.getD (2 ^ 2 - 1 - k) 0) = 255 := by
  have : ∀ k, k < 2 ^ 2 → Bc7.lerp 255 255 (Bc7.WEIGHTS_2.getD k 0) = 255 ∧
    Bc7.lerp 255 255 (Bc7.WEIGHTS_2.getD (2 ^ 2 - 1 - k) 0) = 255 := by decide
  exact this k hk
theorem lerp255_3 (k : Nat) (hk : k < 2 ^ 3) : Bc7.lerp 255 255 (Bc7.WEIGHTS_3.getD k 0) = 255 ∧
    Bc7.lerp 255 255 (Bc7.WEIGHTS_3.getD (2 ^ 3 - 1 - k) 0) = 255 := by
  have : ∀ k, k < 2 ^ 3 → Bc7.lerp 255 255 (Bc7.WEIGHTS_3.getD k 0) = 255 ∧
    Bc7.lerp 255 255 (Bc7.WEIGHTS_3.getD (2 ^ 3 - 1 - k) 0) = 255 := by decide
  exact this k hk

/-! ### mode 0 -/

theorem mode0_roundtrip (part : Nat) (rgb : List (List Nat)) (p : List Nat) (x : Nat) (hp : part < 16)
    (hE : ∀ e, e < 6 → ∀ c, c < 3 → px (ep rgb e) c < 2 ^ 4) (hP : ∀ k, k < 6 → px p k < 2) (hx : x < 2 ^ 48) :
    Bc7.decodeBlock (mode0 part rgb p x) = (List.range 16).map fun i =>
      let s := subset3Index (implP3 part) i
      interpolateRgb 3 (pPromoteRgb 4 (ep rgb (2 * s)) (px p (2 * s)))
        (pPromoteRgb 4 (ep rgb (2 * s + 1)) (px p (2 * s + 1))) (get 3 x i) ++ [255] := by
  have hp64 : part < 64 := by omega
  obtain ⟨hc, hbits, hnew, hget⟩ := compressP3_spec 3 x part [] (by decide) hx hp64
  unfold mode0
  simp only []
  generalize compressP3 3 x (implP3 part) = ci at *
  have hE' := sext_range (P := fun l => ∀ c, c < 3 → px l c < 2 ^ 4) _ _ _ _ _ _ ci.2.1 ci.2.2.1 ci.2.2.2
    (hE 0 (by decide)) (hE 1 (by decide)) (hE 2 (by decide)) (hE 3 (by decide)) (hE 4 (by decide)) (hE 5 (by decide))
  have hP' := sext_range_px (P := fun v => v < 2) _ _ _ _ _ _ ci.2.1 ci.2.2.1 ci.2.2.2
    (hP 0 (by decide)) (hP 1 (by decide)) (hP 2 (by decide)) (hP 3 (by decide)) (hP 4 (by decide)) (hP 5 (by decide))
  have hok : FieldsOK (writeMode 0 ++ [(part, 4)] ++
      writeEndpointsRgb 4 6 (swapPair ci.2.1 (ep rgb 0) (ep rgb 1) ++ swapPair ci.2.2.1 (ep rgb 2) (ep rgb 3) ++
        swapPair ci.2.2.2 (ep rgb 4) (ep rgb 5)) ++
      writeEndpointsP 6 (swapPair ci.2.1 (px p 0) (px p 1) ++ swapPair ci.2.2.1 (px p 2) (px p 3) ++
        swapPair ci.2.2.2 (px p 4) (px p 5)) ++
      writeIndexes ci.1) := by
    simp only [fieldsOK_append, writeEndpointsRgb, writeIndexes]
    exact ⟨⟨⟨⟨fieldsOK_mode 0 (by decide), fieldsOK_one part 4 (by omega) (by decide)⟩,
      ⟨⟨fieldsOK_chan 4 6 _ 0 (by decide) (fun e he => hE' e he 0 (by decide)),
      fieldsOK_chan 4 6 _ 1 (by decide) (fun e he => hE' e he 1 (by decide))⟩,
      fieldsOK_chan 4 6 _ 2 (by decide) (fun e he => hE' e he 2 (by decide))⟩⟩, fieldsOK_p 6 _ hP'⟩,
      fieldsOK_one _ _ (by rw [hbits]; exact hc) (by rw [hbits]; decide)⟩
  have hw : width (writeMode 0 ++ [(part, 4)] ++
      writeEndpointsRgb 4 6 (swapPair ci.2.1 (ep rgb 0) (ep rgb 1) ++ swapPair ci.2.2.1 (ep rgb 2) (ep rgb 3) ++
        swapPair ci.2.2.2 (ep rgb 4) (ep rgb 5)) ++
      writeEndpointsP 6 (swapPair ci.2.1 (px p 0) (px p 1) ++ swapPair ci.2.2.1 (px p 2) (px p 3) ++
        swapPair ci.2.2.2 (px p 4) (px p 5)) ++
      writeIndexes ci.1) ≤ 128 := by
    simp only [width_append, writeEndpointsRgb, width_chan, width_p, writeMode, writeIndexes, width, hbits]
    decide
  rw [finish_writeAll _ hok hw]
  simp only [Bc7.decodeBlock]
  rw [List.append_assoc (writeMode 0), List.append_assoc (writeMode 0), List.append_assoc (writeMode 0),
    extractMode_fv 0 _ (by decide)]
  simp only [Nat.reduceEqDiff, if_false, if_true, Bc7.modeSubset3, List.cons_append, List.nil_append]
  rw [consumeBits_fv 4 part _ (by decide) (by decide) (by omega)]
  simp only []
  rw [List.append_assoc (writeEndpointsRgb _ _ _), eps0_w _ _ _ hE' hP']
  simp only [writeIndexes]
  rw [hnew]
  apply Bc7.map_range16_congr
  intro i hi
  have hk := get_lt 3 x i (by decide)
  have hs := subset3_le part i hp64 hi
  obtain ⟨hl, hl'⟩ := lerp255_3 _ hk
  simp only [getIndex_eq_get 3 _ i (by decide), hget i hi, Bc7.interpolate23, interpolateRgb, pPromoteRgb,
    pPromoteCh_ne7 4 _ _ (by decide), interpolate3, px3e, Nat.reduceAdd, List.cons_append, List.nil_append,
    Nat.reduceEqDiff, if_false]
  generalize get 3 x i = k at hk hl hl' ⊢
  generalize subset3Index (implP3 part) i = s at hs ⊢
  have hs' : s = 0 ∨ s = 1 ∨ s = 2 := by omega
  rcases hs' with h | h | h <;> subst h
  · cases ci.2.1 <;>
      simp only [List.append_assoc, bep_map_range _ 6 0 (by decide), bep_map_range _ 6 1 (by decide),
        ep_swapPair0, ep_swapPair1, px_swapPair0, px_swapPair1,
        Bool.false_eq_true, if_false, if_true, lerp_sym3 _ _ k hk, Nat.reduceEqDiff, Nat.reduceMul, Nat.min_def,
        Nat.reduceLeDiff, Nat.reduceAdd, Nat.mul_zero, Nat.zero_add, Bc7.px4, hl, hl']
  · cases ci.2.2.1 <;>
      simp only [List.append_assoc, bep_map_range _ 6 2 (by decide), bep_map_range _ 6 3 (by decide),
        ep_swapPair2, ep_swapPair3, px_swapPair2, px_swapPair3, ep_swapPair0, ep_swapPair1, px_swapPair0, px_swapPair1,
        Bool.false_eq_true, if_false, if_true, lerp_sym3 _ _ k hk, Nat.reduceEqDiff, Nat.reduceMul, Nat.min_def,
        Nat.reduceLeDiff, Nat.reduceAdd, Nat.one_ne_zero, Bc7.px4, hl, hl']
  · cases ci.2.2.2 <;>
      simp only [List.append_assoc, bep_map_range _ 6 4 (by decide), bep_map_range _ 6 5 (by decide),
        ep_swapPair4, ep_swapPair5, px_swapPair4, px_swapPair5, ep_swapPair2, ep_swapPair3, px_swapPair2, px_swapPair3,
        ep_swapPair0', ep_swapPair1', px_swapPair0', px_swapPair1',
        Bool.false_eq_true, if_false, if_true, lerp_sym3 _ _ k hk, Nat.reduceEqDiff, Nat.reduceMul, Nat.min_def,
        Nat.reduceLeDiff, Nat.reduceAdd, Bc7.px4, hl, hl']

/-! ### mode 2 (no p-bits) -/

theorem mode2_roundtrip (part : Nat) (rgb : List (List Nat)) (x : Nat) (hp : part < 64)
    (hE : ∀ e, e < 6 → ∀ c, c < 3 → px (ep rgb e) c < 2 ^ 5) (hx : x < 2 ^ 32) :
    Bc7.decodeBlock (mode2 part rgb x) = (List.range 16).map fun i =>
      let s := subset3Index (implP3 part) i
      interpolateRgb 2 (promoteRgb 5 (ep rgb (2 * s))) (promoteRgb 5 (ep rgb (2 * s + 1))) (get 2 x i) ++ [255] := by
  obtain ⟨hc, hbits, hnew, hget⟩ := compressP3_spec 2 x part [] (by decide) hx hp
  unfold mode2
  simp only []
  generalize compressP3 2 x (implP3 part) = ci at *
  have hE' := sext_range (P := fun l => ∀ c, c < 3 → px l c < 2 ^ 5) _ _ _ _ _ _ ci.2.1 ci.2.2.1 ci.2.2.2
    (hE 0 (by decide)) (hE 1 (by decide)) (hE 2 (by decide)) (hE 3 (by decide)) (hE 4 (by decide)) (hE 5 (by decide))
  have hok : FieldsOK (writeMode 2 ++ [(part, 6)] ++
      writeEndpointsRgb 5 6 (swapPair ci.2.1 (ep rgb 0) (ep rgb 1) ++ swapPair ci.2.2.1 (ep rgb 2) (ep rgb 3) ++
        swapPair ci.2.2.2 (ep rgb 4) (ep rgb 5)) ++
      writeIndexes ci.1) := by
    simp only [fieldsOK_append, writeEndpointsRgb, writeIndexes]
    exact ⟨⟨⟨fieldsOK_mode 2 (by decide), fieldsOK_one part 6 (by omega) (by decide)⟩,
      ⟨⟨fieldsOK_chan 5 6 _ 0 (by decide) (fun e he => hE' e he 0 (by decide)),
      fieldsOK_chan 5 6 _ 1 (by decide) (fun e he => hE' e he 1 (by decide))⟩,
      fieldsOK_chan 5 6 _ 2 (by decide) (fun e he => hE' e he 2 (by decide))⟩⟩,
      fieldsOK_one _ _ (by rw [hbits]; exact hc) (by rw [hbits]; decide)⟩
  have hw : width (writeMode 2 ++ [(part, 6)] ++
      writeEndpointsRgb 5 6 (swapPair ci.2.1 (ep rgb 0) (ep rgb 1) ++ swapPair ci.2.2.1 (ep rgb 2) (ep rgb 3) ++
        swapPair ci.2.2.2 (ep rgb 4) (ep rgb 5)) ++
      writeIndexes ci.1) ≤ 128 := by
    simp only [width_append, writeEndpointsRgb, width_chan, writeMode, writeIndexes, width, hbits]
    decide
  rw [finish_writeAll _ hok hw]
  simp only [Bc7.decodeBlock]
  rw [List.append_assoc (writeMode 2), List.append_assoc (writeMode 2), extractMode_fv 2 _ (by decide)]
  simp only [Nat.reduceEqDiff, if_false, if_true, Bc7.modeSubset3, List.cons_append, List.nil_append]
  rw [consumeBits_fv 6 part _ (by decide) (by decide) (by omega)]
  simp only []
  rw [eps2_w _ _ hE']
  simp only [writeIndexes]
  rw [hnew]
  apply Bc7.map_range16_congr
  intro i hi
  have hk := get_lt 2 x i (by decide)
  have hs := subset3_le part i hp hi
  obtain ⟨hl, hl'⟩ := lerp255_2 _ hk
  simp only [getIndex_eq_get 2 _ i (by decide), hget i hi, Bc7.interpolate23, interpolateRgb, promoteRgb,
    promoteCh_ne8 5 _ (by decide), interpolate2, px3e, Nat.reduceAdd, List.cons_append, List.nil_append,
    Nat.reduceEqDiff, if_false, if_true]
  generalize get 2 x i = k at hk hl hl' ⊢
  generalize subset3Index (implP3 part) i = s at hs ⊢
  have hs' : s = 0 ∨ s = 1 ∨ s = 2 := by omega
  rcases hs' with h | h | h <;> subst h
  · cases ci.2.1 <;>
      simp only [List.append_assoc, bep_map_range _ 6 0 (by decide), bep_map_range _ 6 1 (by decide),
        ep_swapPair0, ep_swapPair1,
        Bool.false_eq_true, if_false, if_true, lerp_sym2 _ _ k hk, Nat.reduceEqDiff, Nat.reduceMul, Nat.min_def,
        Nat.reduceLeDiff, Nat.reduceAdd, Nat.mul_zero, Nat.zero_add, Bc7.px4, hl, hl']
  · cases ci.2.2.1 <;>
      simp only [List.append_assoc, bep_map_range _ 6 2 (by decide), bep_map_range _ 6 3 (by decide),
        ep_swapPair2, ep_swapPair3, ep_swapPair0, ep_swapPair1,
        Bool.false_eq_true, if_false, if_true, lerp_sym2 _ _ k hk, Nat.reduceEqDiff, Nat.reduceMul, Nat.min_def,
        Nat.reduceLeDiff, Nat.reduceAdd, Nat.one_ne_zero, Bc7.px4, hl, hl']
  · cases ci.2.2.2 <;>
      simp only [List.append_assoc, bep_map_range _ 6 4 (by decide), bep_map_range _ 6 5 (by decide),
        ep_swapPair4, ep_swapPair5, ep_swapPair2, ep_swapPair3, ep_swapPair0', ep_swapPair1',
        Bool.false_eq_true, if_false, if_true, lerp_sym2 _ _ k hk, Nat.reduceEqDiff, Nat.reduceMul, Nat.min_def,
        Nat.reduceLeDiff, Nat.reduceAdd, Bc7.px4, hl, hl']

end Dds.Enc7
