/-
C01 (codec bodies, BC7): the trapping mirror `TrapBc7.decodeBlockT` returns `some` of the wrapping model
`Bc7.decodeBlock` for every block.
-/
import DdsModel.TrapBc7
namespace Dds.TrapBc7
open Dds Dds.Trap Dds.Bc7 Dds.BcTables

/-! ### generic list / option lemmas -/

theorem mapT_nil {α β} (f : α → Option β) : mapT f [] = some [] := rfl
theorem mapT_cons {α β} (f : α → Option β) (a : α) (l : List α) :
    mapT f (a :: l) = f a >>= fun x => mapT f l >>= fun r => pure (x :: r) := by
  unfold mapT
  simp only [List.map_cons]
  cases f a with
  | none => rfl
  | some x =>
    rw [bind_some']
    simp only [allSome]
    cases allSome (List.map f l) <;> rfl

theorem idx_getD {α} (l : List α) (i : Nat) (d : α) (h : i < l.length) : idx l i = some (l.getD i d) := by
  unfold idx
  simp [List.getD, h]

theorem getD_lt (l : List Nat) (B : Nat) (hB : 0 < B) (h : ∀ w ∈ l, w < B) (i : Nat) : l.getD i 0 < B := by
  by_cases hi : i < l.length
  · have : l.getD i 0 = l[i] := by simp [List.getD, hi]
    rw [this]; exact h _ (List.getElem_mem hi)
  · have : l.getD i 0 = 0 := by simp [List.getD, Nat.le_of_not_lt hi]
    rw [this]; exact hB

/-! ### `BitStream` -/

theorem skipT_eq (n s : Nat) (h : n < 128) : skipT n s = some (s >>> n) := shr_of_lt h

theorem consumeBitT_eq (s : Nat) : consumeBitT s = some (consumeBit s) := by
  unfold consumeBitT consumeBit
  rw [skipT_eq _ _ (by omega), bind_some', pure_some']

theorem consumeBitsT_eq (count s : Nat) (h : 0 < count ∧ count ≤ 8) :
    consumeBitsT count s = some (consumeBits count s) := by
  unfold consumeBitsT consumeBits mask8
  rw [dbgP_of h, bind_some', shl_of_lt (by omega), bind_some', skipT_eq _ _ (by omega), bind_some', pure_some']

theorem consumeBits64T_eq (count s : Nat) (h : 0 < count ∧ count ≤ 64) :
    consumeBits64T count s = some (consumeBits64 count s) := by
  unfold consumeBits64T
  rw [dbgP_of h, bind_some', skipT_eq _ _ (by omega), bind_some', pure_some']
  rfl

theorem consumeNT_eq (k c s : Nat) (h : 0 < c ∧ c ≤ 8) : consumeNT k c s = some (consumeN k c s) := by
  induction k generalizing s with
  | zero => rfl
  | succ k ih =>
    unfold consumeNT consumeN
    rw [consumeBitsT_eq _ _ h, bind_some', ih, bind_some', pure_some']

theorem consumeBitsEachT_eq (k s : Nat) : consumeBitsEachT k s = some (consumeBitsEach k s) := by
  induction k generalizing s with
  | zero => rfl
  | succ k ih =>
    unfold consumeBitsEachT consumeBitsEach
    rw [consumeBitT_eq, bind_some', ih, bind_some', pure_some']

theorem consumeBits_lt (c s : Nat) : (consumeBits c s).1 < 256 := by
  unfold consumeBits
  exact Nat.lt_of_le_of_lt Nat.and_le_left (Nat.mod_lt _ (by decide))

theorem consumeN_length (k c s : Nat) : (consumeN k c s).1.length = k := by
  induction k generalizing s with
  | zero => rfl
  | succ k ih => unfold consumeN; simp only [List.length_cons, ih]

theorem consumeN_lt (k c s : Nat) : ∀ v ∈ (consumeN k c s).1, v < 256 := by
  induction k generalizing s with
  | zero => intro v hv; cases hv
  | succ k ih =>
    unfold consumeN
    intro v hv
    simp only [List.mem_cons] at hv
    rcases hv with h | h
    · subst h; exact consumeBits_lt _ _
    · exact ih _ v h

theorem consumeBitsEach_length (k s : Nat) : (consumeBitsEach k s).1.length = k := by
  induction k generalizing s with
  | zero => rfl
  | succ k ih => unfold consumeBitsEach; simp only [List.length_cons, ih]

theorem consumeBitsEach_lt (k s : Nat) : ∀ v ∈ (consumeBitsEach k s).1, v < 2 := by
  induction k generalizing s with
  | zero => intro v hv; cases hv
  | succ k ih =>
    unfold consumeBitsEach
    intro v hv
    simp only [List.mem_cons] at hv
    rcases hv with h | h
    · subst h; unfold consumeBit; exact Nat.lt_succ_of_le Nat.and_le_right
    · exact ih _ v h

theorem idx_consumeN (k c s i : Nat) (hi : i < k) : idx (consumeN k c s).1 i = some (px (consumeN k c s).1 i) :=
  idx_getD _ _ _ (by rw [consumeN_length]; exact hi)
theorem idx_consumeBitsEach (k s i : Nat) (hi : i < k) :
    idx (consumeBitsEach k s).1 i = some (px (consumeBitsEach k s).1 i) :=
  idx_getD _ _ _ (by rw [consumeBitsEach_length]; exact hi)

theorem px_consumeN_lt (k c s i : Nat) : px (consumeN k c s).1 i < 256 :=
  getD_lt _ _ (by decide) (consumeN_lt k c s) i
theorem px_consumeBitsEach_lt (k s i : Nat) : px (consumeBitsEach k s).1 i < 2 :=
  getD_lt _ _ (by decide) (consumeBitsEach_lt k s) i

/-! ### `Indexes` -/

theorem u64_eq : U64 = 2 ^ 64 := by decide

theorem shl1_u64 (k : Nat) (h : k < 64) : 1 ≤ (1 <<< k) % U64 := by
  have h1 : 1 <<< k = 2 ^ k := Nat.one_shiftLeft k
  have h2 : 2 ^ k < U64 := by rw [u64_eq]; exact Nat.pow_lt_pow_right (by decide) h
  rw [h1, Nat.mod_eq_of_lt h2]
  exact Nat.one_le_two_pow

theorem wsub1 (x : Nat) (h1 : 1 ≤ x) (h2 : x < U64) : (x + U64 - 1) % U64 = x - 1 := by
  unfold U64 at *; omega

theorem getMaskT_eq (bits : Nat) (h : bits < 64) : getMaskT bits = some (getMask bits) := by
  unfold getMaskT getMask
  rw [shl_of_lt h, bind_some', subU_of_le (shl1_u64 _ h), wsub1 _ (shl1_u64 _ h) (Nat.mod_lt _ (by decide))]

theorem decompressSingleIndexT_eq (bits compressed index : Nat) (hb : bits < 64) (hk : index * bits < 64) :
    decompressSingleIndexT bits compressed index = some (decompressSingleIndex bits compressed index) := by
  unfold decompressSingleIndexT decompressSingleIndex
  have e : (index * bits) % U8 = index * bits := Nat.mod_eq_of_lt (by unfold U8; omega)
  rw [e]
  generalize index * bits = k at *
  dsimp only
  rw [getMaskT_eq _ hb, bind_some', ck_of_lt (by omega), bind_some', shl_of_lt hk, bind_some',
    subU_of_le (shl1_u64 _ hk), bind_some', shr_of_lt hk, bind_some', shl_of_lt (by omega), bind_some',
    shr_of_lt (by omega), bind_some', shl_of_lt hk, bind_some', pure_some',
    wsub1 _ (shl1_u64 _ hk) (Nat.mod_lt _ (by decide))]

theorem countT_eq (bits k : Nat) (hb : bits ≤ 4) (hk : k ≤ 16 * bits) : countT bits k = some (16 * bits - k) := by
  unfold countT
  rw [ck_of_lt (by omega), bind_some', subU_of_le hk]

theorem newP1T_eq (bits s : Nat) (hb : 1 ≤ bits ∧ bits ≤ 4) : newP1T bits s = some (newP1 bits s) := by
  unfold newP1T newP1
  rw [countT_eq _ _ hb.2 (by omega), bind_some', consumeBits64T_eq _ _ (by omega), bind_some', dbgP_of hb.2, bind_some',
    decompressSingleIndexT_eq _ _ _ (by omega) (by omega), bind_some', getMaskT_eq _ (by omega), bind_some', pure_some']

theorem newP2T_eq (bits s fix2 : Nat) (hb : 1 ≤ bits ∧ bits ≤ 4) (hf : 0 < fix2 ∧ fix2 < 16) :
    newP2T bits s fix2 = some (newP2 bits s fix2) := by
  have hk : fix2 * bits < 64 := by
    have := Nat.mul_le_mul (Nat.le_of_lt_succ hf.2) hb.2; omega
  unfold newP2T newP2
  rw [countT_eq _ _ hb.2 (by omega), bind_some', consumeBits64T_eq _ _ (by omega), bind_some', dbgP_of hb.2, bind_some',
    dbgP_of hf.1, bind_some', decompressSingleIndexT_eq _ _ _ (by omega) (by omega), bind_some',
    decompressSingleIndexT_eq _ _ _ (by omega) hk, bind_some', getMaskT_eq _ (by omega), bind_some', pure_some']

theorem newP3T_eq (bits s fix2 fix3 : Nat) (hb : 1 ≤ bits ∧ bits ≤ 4) (hf : 0 < fix2 ∧ fix2 < fix3 ∧ fix3 < 16) :
    newP3T bits s fix2 fix3 = some (newP3 bits s fix2 fix3) := by
  have hk2 : fix2 * bits < 64 := by
    have := Nat.mul_le_mul (show fix2 ≤ 15 by omega) hb.2; omega
  have hk3 : fix3 * bits < 64 := by
    have := Nat.mul_le_mul (show fix3 ≤ 15 by omega) hb.2; omega
  unfold newP3T newP3
  rw [countT_eq _ _ hb.2 (by omega), bind_some', consumeBits64T_eq _ _ (by omega), bind_some', dbgP_of hb.2, bind_some',
    dbgP_of ⟨hf.1, hf.2.1⟩, bind_some', decompressSingleIndexT_eq _ _ _ (by omega) (by omega), bind_some',
    decompressSingleIndexT_eq _ _ _ (by omega) hk2, bind_some', decompressSingleIndexT_eq _ _ _ (by omega) hk3, bind_some',
    getMaskT_eq _ (by omega), bind_some', pure_some']

theorem getIndexT_eq (ix : Indexes) (pixel : Nat) (hp : pixel < 16) (hb : ix.bits ≤ 4) :
    getIndexT ix pixel = some (getIndex ix pixel) := by
  have hk : pixel * ix.bits < 64 := by
    have := Nat.mul_le_mul (show pixel ≤ 15 by omega) hb; omega
  unfold getIndexT getIndex
  rw [dbgP_of hp, bind_some', ck_of_lt (by omega), bind_some', shr_of_lt hk, bind_some', pure_some']

/-! ### bc7.rs scalars -/

theorem tz_le (x : Nat) : trailingZeros8 x ≤ 8 := by
  unfold trailingZeros8
  repeat' split
  all_goals omega

theorem extractModeT_eq (s : Nat) : extractModeT s = some (extractMode s) := by
  unfold extractModeT extractMode
  have := tz_le (s % U8)
  dsimp only
  rw [ck_of_lt (by omega), bind_some', skipT_eq _ _ (by omega), bind_some', pure_some']

theorem extractMode_le (s : Nat) : (extractMode s).1 ≤ 8 := tz_le _

theorem promoteT_eq (number bits : Nat) (h : 4 ≤ bits ∧ bits < 8) : promoteT number bits = some (promote number bits) := by
  unfold promoteT promote
  rw [dbgP_of h, bind_some', subU_of_le (by omega), bind_some', shl_of_lt (by omega), bind_some', shr_of_lt (by omega),
    bind_some', pure_some']

theorem withPT_eq (x p : Nat) : withPT x p = some (withP x p) := by
  unfold withPT withP
  rw [shl_of_lt (by omega), bind_some', pure_some']

theorem u8_eq : U8 = 2 ^ 8 := by decide

theorem promote_lt (number bits : Nat) : promote number bits < 256 := by
  unfold promote
  have h1 : (number <<< (8 - bits)) % U8 < 2 ^ 8 := by rw [← u8_eq]; exact Nat.mod_lt _ (by decide)
  have h2 : ((number <<< (8 - bits)) % U8) >>> bits < 2 ^ 8 := Nat.lt_of_le_of_lt (Nat.shiftRight_le _ _) h1
  exact Nat.or_lt_two_pow h1 h2

theorem withP_lt (x p : Nat) (hp : p < 2) : withP x p < 256 := by
  unfold withP
  have h1 : (x <<< 1) % U8 < 2 ^ 8 := by rw [← u8_eq]; exact Nat.mod_lt _ (by decide)
  have h2 : p < 2 ^ 8 := by omega
  exact Nat.or_lt_two_pow h1 h2

theorem lerpT_eq (e0 e1 w : Nat) (h0 : e0 < 256) (h1 : e1 < 256) (hw : w ≤ 256) : lerpT e0 e1 w = some (lerp e0 e1 w) := by
  have m0 := Nat.mul_le_mul_left (256 - w) (Nat.le_of_lt_succ h0)
  have m1 := Nat.mul_le_mul_left w (Nat.le_of_lt_succ h1)
  have e : (256 + U16 - w) % U16 = 256 - w := by unfold U16; omega
  unfold lerpT lerp
  dsimp only
  rw [e]
  generalize hA : (256 - w) * e0 = A at *
  generalize hB : w * e1 = B at *
  rw [subU_of_le hw, bind_some', hA, ck_of_lt (by omega), bind_some', ck_of_lt (by omega), bind_some',
    ck_of_lt (by omega), bind_some', ck_of_lt (by omega), bind_some', shr_of_lt (by omega), bind_some', pure_some']
  unfold U16
  rw [Nat.mod_eq_of_lt (by omega : A < 65536), Nat.mod_eq_of_lt (by omega : B < 65536),
    Nat.mod_eq_of_lt (by omega : A + B < 65536), Nat.mod_eq_of_lt (by omega : A + B + 128 < 65536)]

theorem weights_le : (∀ w ∈ WEIGHTS_2, w < 257) ∧ (∀ w ∈ WEIGHTS_3, w < 257) ∧ (∀ w ∈ WEIGHTS_4, w < 257) := by
  decide

theorem w2_le (i : Nat) : WEIGHTS_2.getD i 0 ≤ 256 := Nat.le_of_lt_succ (getD_lt _ _ (by decide) weights_le.1 i)
theorem w3_le (i : Nat) : WEIGHTS_3.getD i 0 ≤ 256 := Nat.le_of_lt_succ (getD_lt _ _ (by decide) weights_le.2.1 i)
theorem w4_le (i : Nat) : WEIGHTS_4.getD i 0 ≤ 256 := Nat.le_of_lt_succ (getD_lt _ _ (by decide) weights_le.2.2 i)

theorem idx_w2 (i : Nat) (h : i < 4) : idx WEIGHTS_2 i = some (WEIGHTS_2.getD i 0) := idx_getD _ _ _ h
theorem idx_w3 (i : Nat) (h : i < 8) : idx WEIGHTS_3 i = some (WEIGHTS_3.getD i 0) := idx_getD _ _ _ h
theorem idx_w4 (i : Nat) (h : i < 16) : idx WEIGHTS_4 i = some (WEIGHTS_4.getD i 0) := idx_getD _ _ _ h

theorem interpolate23T_eq (e0 e1 index bits : Nat) (h0 : e0 < 256) (h1 : e1 < 256)
    (hb : (bits = 2 ∧ index < 4) ∨ (bits = 3 ∧ index < 8)) :
    interpolate23T e0 e1 index bits = some (interpolate23 e0 e1 index bits) := by
  unfold interpolate23T interpolate23
  rcases hb with ⟨rfl, hi⟩ | ⟨rfl, hi⟩
  · rw [if_pos rfl, if_pos rfl, idx_w2 _ hi, bind_some']
    exact lerpT_eq _ _ _ h0 h1 (w2_le _)
  · rw [if_neg (by decide), if_pos rfl, if_neg (by decide), idx_w3 _ hi, bind_some']
    exact lerpT_eq _ _ _ h0 h1 (w3_le _)

/-- every channel of every endpoint is a `u8` -/
def EpLt (e : List (List Nat)) : Prop := ∀ c ∈ e, ∀ v ∈ c, v < 256

theorem px_ep_lt (e : List (List Nat)) (he : EpLt e) (i j : Nat) : px (ep e i) j < 256 := by
  apply getD_lt _ _ (by decide)
  unfold ep
  by_cases hi : i < e.length
  · have : e.getD i [] = e[i] := by simp [List.getD, hi]
    rw [this]; exact he _ (List.getElem_mem hi)
  · have : e.getD i [] = [] := by simp [List.getD, Nat.le_of_not_lt hi]
    rw [this]; intro v hv; cases hv

theorem idx_ep (e : List (List Nat)) (i : Nat) (h : i < e.length) : idx e i = some (ep e i) := idx_getD _ _ _ h

theorem interpolateColorsAlphaT_eq (c0 c1 : List Nat) (cw aw : Nat) (h0 : ∀ j, px c0 j < 256) (h1 : ∀ j, px c1 j < 256)
    (hc : cw ≤ 256) (ha : aw ≤ 256) :
    interpolateColorsAlphaT c0 c1 cw aw = some (interpolateColorsAlpha c0 c1 cw aw) := by
  unfold interpolateColorsAlphaT interpolateColorsAlpha
  rw [lerpT_eq _ _ _ (h0 0) (h1 0) hc, bind_some', lerpT_eq _ _ _ (h0 1) (h1 1) hc, bind_some',
    lerpT_eq _ _ _ (h0 2) (h1 2) hc, bind_some', lerpT_eq _ _ _ (h0 3) (h1 3) ha, bind_some', pure_some']

/-! ### endpoints -/

theorem range2 : List.range 2 = [0, 1] := by decide
theorem range4 : List.range 4 = [0, 1, 2, 3] := by decide
theorem range6 : List.range 6 = [0, 1, 2, 3, 4, 5] := by decide

macro "ep_simp" : tactic =>
  `(tactic| simp (disch := omega) only [getEndPoints2T, getEndPoints2, getEndPoints4T, getEndPoints4, getEndPoints6T,
      getEndPoints6, consumeNT_eq, consumeBitsEachT_eq, bind_some', pure_some', range2, range4, range6, mapT_cons,
      mapT_nil, idx_consumeN, idx_consumeBitsEach, promoteT_eq, withPT_eq, List.map, ↓reduceIte, Nat.reduceEqDiff,
      Nat.reduceDiv])

theorem getEndPoints2T_eq (mode s : Nat) (h : mode = 4 ∨ mode = 5 ∨ mode = 6) :
    getEndPoints2T mode s = some (getEndPoints2 mode s) := by
  rcases h with rfl | rfl | rfl
  · ep_simp
  · ep_simp
  · ep_simp
    rfl

theorem getEndPoints4T_eq (mode s : Nat) (h : mode = 1 ∨ mode = 3 ∨ mode = 7) :
    getEndPoints4T mode s = some (getEndPoints4 mode s) := by
  rcases h with rfl | rfl | rfl <;> ep_simp

theorem getEndPoints6T_eq (mode s : Nat) (h : mode = 0 ∨ mode = 2) :
    getEndPoints6T mode s = some (getEndPoints6 mode s) := by
  rcases h with rfl | rfl <;> ep_simp

theorem list4_lt {a b c d : Nat} (ha : a < 256) (hb : b < 256) (hc : c < 256) (hd : d < 256) :
    ∀ v ∈ [a, b, c, d], v < 256 := by
  intro v hv
  simp only [List.mem_cons, List.not_mem_nil, or_false] at hv
  rcases hv with h | h | h | h <;> subst h <;> assumption

theorem epLt_map (n : Nat) (g : Nat → List Nat) (h : ∀ i, ∀ v ∈ g i, v < 256) : EpLt ((List.range n).map g) := by
  intro c hc
  obtain ⟨i, _, rfl⟩ := List.mem_map.mp hc
  exact h i

theorem consumeBit_lt (s : Nat) : (consumeBit s).1 < 2 := Nat.lt_succ_of_le Nat.and_le_right

theorem px_pair_lt (a b i : Nat) (ha : a < 2) (hb : b < 2) : px [a, b] i < 2 := by
  apply getD_lt _ _ (by decide)
  intro v hv
  simp only [List.mem_cons, List.not_mem_nil, or_false] at hv
  rcases hv with h | h <;> subst h <;> assumption

macro "ep_lt" : tactic =>
  `(tactic| (apply epLt_map; intro i; apply list4_lt <;> first
      | exact promote_lt _ _
      | exact px_consumeN_lt _ _ _ _
      | exact withP_lt _ _ (px_consumeBitsEach_lt _ _ _)
      | exact withP_lt _ _ (px_pair_lt _ _ _ (consumeBit_lt _) (consumeBit_lt _))
      | decide))

theorem getEndPoints2_lt (mode s : Nat) : EpLt (getEndPoints2 mode s).1 := by
  unfold getEndPoints2
  split
  · ep_lt
  · split
    · ep_lt
    · ep_lt
theorem getEndPoints4_lt (mode s : Nat) : EpLt (getEndPoints4 mode s).1 := by
  unfold getEndPoints4
  split
  · ep_lt
  · split
    · ep_lt
    · ep_lt
theorem getEndPoints6_lt (mode s : Nat) : EpLt (getEndPoints6 mode s).1 := by
  unfold getEndPoints6
  split
  · ep_lt
  · ep_lt

theorem getEndPoints2_len (mode s : Nat) : (getEndPoints2 mode s).1.length = 2 := by
  unfold getEndPoints2; split
  · simp
  · split <;> simp
theorem getEndPoints6_len (mode s : Nat) : (getEndPoints6 mode s).1.length = 6 := by
  unfold getEndPoints6; split <;> simp

/-! ### modes -/

theorem extractPartitionSetIdT_eq (mode s : Nat) (h : mode = 0 ∨ mode = 1 ∨ mode = 2 ∨ mode = 3 ∨ mode = 7) :
    extractPartitionSetIdT mode s = some (consumeBits (if mode = 0 then 4 else 6) s) := by
  unfold extractPartitionSetIdT
  rw [dbgP_of h, bind_some']
  exact consumeBitsT_eq _ _ (by split <;> omega)

theorem consumeBits6_lt (s : Nat) : (consumeBits 6 s).1 < 64 := by
  unfold consumeBits
  have : mask8 6 = 63 := by decide
  rw [this]
  exact Nat.lt_succ_of_le Nat.and_le_right
theorem consumeBits4_lt (s : Nat) : (consumeBits 4 s).1 < 16 := by
  unfold consumeBits
  have : mask8 4 = 15 := by decide
  rw [this]
  exact Nat.lt_succ_of_le Nat.and_le_right

theorem implP2_fix : ∀ i, i < 64 → 0 < (implP2 i).2 ∧ (implP2 i).2 < 16 := by decide +kernel
theorem implP3_fix : ∀ i, i < 64 → 0 < (implP3 i).2.1 ∧ (implP3 i).2.1 < (implP3 i).2.2 ∧ (implP3 i).2.2 < 16 := by
  decide +kernel

theorem getIndex_le (ix : Indexes) (pixel : Nat) : getIndex ix pixel ≤ ix.mask := by
  unfold getIndex
  exact Nat.le_trans (Nat.mod_le _ _) Nat.and_le_right

theorem getMask_vals : getMask 2 = 3 ∧ getMask 3 = 7 ∧ getMask 4 = 15 := by decide

theorem modeSubset2T_eq (mode s : Nat) (hm : mode = 1 ∨ mode = 3 ∨ mode = 7) :
    modeSubset2T mode s = some (modeSubset2 mode s) := by
  have hne : mode ≠ 0 := by omega
  have hpid := consumeBits6_lt s
  have hfix := implP2_fix _ hpid
  have hib : indexBits2T mode = some (if mode = 1 then 3 else 2) := by
    rcases hm with rfl | rfl | rfl <;> rfl
  have hbits : 1 ≤ (if mode = 1 then 3 else 2) ∧ (if mode = 1 then 3 else 2) ≤ 4 := by split <;> omega
  have hE := getEndPoints4_lt mode (consumeBits 6 s).2
  unfold modeSubset2T modeSubset2
  rw [dbgP_of hm, bind_some', extractPartitionSetIdT_eq _ _ (by omega), bind_some', if_neg hne, idxF_of_lt hpid, bind_some',
    getEndPoints4T_eq _ _ hm, bind_some', hib, bind_some', newP2T_eq _ _ _ hbits hfix, bind_some']
  apply mapT_eq_some
  intro pixel hp
  have hp : pixel < 16 := List.mem_range.mp hp
  dsimp only
  generalize getEndPoints4 mode (consumeBits 6 s).2 = e at *
  generalize hix : newP2 (if mode = 1 then 3 else 2) e.2 (implP2 (consumeBits 6 s).1).2 = ix
  have hixb : ix.1.bits = (if mode = 1 then 3 else 2) := by rw [← hix]; rfl
  have hixm : ix.1.mask = getMask (if mode = 1 then 3 else 2) := by rw [← hix]; rfl
  have hidx := getIndex_le ix.1 pixel
  have hI : ((if mode = 1 then 3 else 2) = 2 ∧ getIndex ix.1 pixel < 4) ∨
      ((if mode = 1 then 3 else 2) = 3 ∧ getIndex ix.1 pixel < 8) := by
    rw [hixm] at hidx
    have := getMask_vals
    by_cases h1 : mode = 1
    · rw [if_pos h1] at hidx ⊢; right; omega
    · rw [if_neg h1] at hidx ⊢; left; omega
  have hc0 : ∀ j, px (if subset2Index (implP2 (consumeBits 6 s).1) pixel = 0 then ep e.1 0 else ep e.1 2) j < 256 := by
    intro j; split <;> exact px_ep_lt _ hE _ _
  have hc1 : ∀ j, px (if subset2Index (implP2 (consumeBits 6 s).1) pixel = 0 then ep e.1 1 else ep e.1 3) j < 256 := by
    intro j; split <;> exact px_ep_lt _ hE _ _
  rw [dbgP_of hp, bind_some', getIndexT_eq _ _ hp (by rw [hixb]; exact hbits.2), bind_some',
    interpolate23T_eq _ _ _ _ (hc0 0) (hc1 0) hI, bind_some', interpolate23T_eq _ _ _ _ (hc0 1) (hc1 1) hI, bind_some',
    interpolate23T_eq _ _ _ _ (hc0 2) (hc1 2) hI, bind_some', interpolate23T_eq _ _ _ _ (hc0 3) (hc1 3) hI, bind_some',
    bind_some', pure_some']

theorem modeSubset3T_eq (mode s : Nat) (hm : mode = 0 ∨ mode = 2) :
    modeSubset3T mode s = some (modeSubset3 mode s) := by
  have hpid : (consumeBits (if mode = 0 then 4 else 6) s).1 < 64 := by
    split
    · have := consumeBits4_lt s; omega
    · exact consumeBits6_lt s
  have hfix := implP3_fix _ hpid
  have hib : indexBits3T mode = some (if mode = 0 then 3 else 2) := by
    rcases hm with rfl | rfl <;> rfl
  have hbits : 1 ≤ (if mode = 0 then 3 else 2) ∧ (if mode = 0 then 3 else 2) ≤ 4 := by split <;> omega
  have hE := getEndPoints6_lt mode (consumeBits (if mode = 0 then 4 else 6) s).2
  have hL := getEndPoints6_len mode (consumeBits (if mode = 0 then 4 else 6) s).2
  unfold modeSubset3T modeSubset3
  rw [dbgP_of hm, bind_some', extractPartitionSetIdT_eq _ _ (by omega), bind_some', idxF_of_lt hpid, bind_some',
    getEndPoints6T_eq _ _ hm, bind_some', hib, bind_some', newP3T_eq _ _ _ _ hbits hfix, bind_some']
  apply mapT_eq_some
  intro pixel hp
  have hp : pixel < 16 := List.mem_range.mp hp
  dsimp only
  generalize consumeBits (if mode = 0 then 4 else 6) s = pid at *
  generalize getEndPoints6 mode pid.2 = e at *
  generalize hix : newP3 (if mode = 0 then 3 else 2) e.2 (implP3 pid.1).2.1 (implP3 pid.1).2.2 = ix
  have hixb : ix.1.bits = (if mode = 0 then 3 else 2) := by rw [← hix]; rfl
  have hixm : ix.1.mask = getMask (if mode = 0 then 3 else 2) := by rw [← hix]; rfl
  have hidx := getIndex_le ix.1 pixel
  have hI : ((if mode = 0 then 3 else 2) = 2 ∧ getIndex ix.1 pixel < 4) ∨
      ((if mode = 0 then 3 else 2) = 3 ∧ getIndex ix.1 pixel < 8) := by
    rw [hixm] at hidx
    have := getMask_vals
    by_cases h1 : mode = 0
    · rw [if_pos h1] at hidx ⊢; right; omega
    · rw [if_neg h1] at hidx ⊢; left; omega
  have hsub : min (subset3Index (implP3 pid.1) pixel) 2 ≤ 2 := Nat.min_le_right _ _
  generalize min (subset3Index (implP3 pid.1) pixel) 2 = sub at *
  have hc0 : ∀ j, px (ep e.1 (2 * sub)) j < 256 := fun j => px_ep_lt _ hE _ _
  have hc1 : ∀ j, px (ep e.1 (2 * sub + 1)) j < 256 := fun j => px_ep_lt _ hE _ _
  rw [dbgP_of hp, bind_some', ck_of_lt (by omega), bind_some', idx_ep _ _ (by omega), bind_some', idx_ep _ _ (by omega),
    bind_some', getIndexT_eq _ _ hp (by rw [hixb]; exact hbits.2), bind_some',
    interpolate23T_eq _ _ _ _ (hc0 0) (hc1 0) hI, bind_some', interpolate23T_eq _ _ _ _ (hc0 1) (hc1 1) hI, bind_some',
    interpolate23T_eq _ _ _ _ (hc0 2) (hc1 2) hI, bind_some', interpolate23T_eq _ _ _ _ (hc0 3) (hc1 3) hI, bind_some',
    bind_some', pure_some']

theorem newP1_bits (bits s : Nat) : (newP1 bits s).1.bits = bits ∧ (newP1 bits s).1.mask = getMask bits := ⟨rfl, rfl⟩

theorem mode4T_eq (s : Nat) : mode4T s = some (mode4 s) := by
  have hE := getEndPoints2_lt 4 (consumeBits 3 s).2
  unfold mode4T mode4
  rw [consumeBitsT_eq _ _ (by omega), bind_some', getEndPoints2T_eq _ _ (by omega), bind_some',
    newP1T_eq _ _ (by omega), bind_some', newP1T_eq _ _ (by omega), bind_some']
  apply mapT_eq_some
  intro pixel hp
  have hp : pixel < 16 := List.mem_range.mp hp
  dsimp only
  generalize getEndPoints2 4 (consumeBits 3 s).2 = e at *
  have hc := newP1_bits 2 e.2
  have ha := newP1_bits 3 (newP1 2 e.2).2
  generalize newP1 3 (newP1 2 e.2).2 = ai at *
  generalize newP1 2 e.2 = ci at *
  have h1 := getIndex_le ci.1 pixel
  have h2 := getIndex_le ai.1 pixel
  have := getMask_vals
  rw [hc.2] at h1
  rw [ha.2] at h2
  rw [getIndexT_eq _ _ hp (by rw [hc.1]; omega), bind_some', getIndexT_eq _ _ hp (by rw [ha.1]; omega), bind_some',
    idx_w2 _ (by omega), bind_some', idx_w3 _ (by omega), bind_some', dbgP_of hp, bind_some',
    interpolateColorsAlphaT_eq _ _ _ _ (fun j => px_ep_lt _ hE _ _) (fun j => px_ep_lt _ hE _ _)
      (by split; exact w3_le _; exact w2_le _) (by split; exact w2_le _; exact w3_le _), bind_some', pure_some']

theorem mode5T_eq (s : Nat) : mode5T s = some (mode5 s) := by
  have hE := getEndPoints2_lt 5 (consumeBits 2 s).2
  unfold mode5T mode5
  rw [consumeBitsT_eq _ _ (by omega), bind_some', getEndPoints2T_eq _ _ (by omega), bind_some',
    newP1T_eq _ _ (by omega), bind_some', newP1T_eq _ _ (by omega), bind_some']
  apply mapT_eq_some
  intro pixel hp
  have hp : pixel < 16 := List.mem_range.mp hp
  dsimp only
  generalize getEndPoints2 5 (consumeBits 2 s).2 = e at *
  have hc := newP1_bits 2 e.2
  have ha := newP1_bits 2 (newP1 2 e.2).2
  generalize newP1 2 (newP1 2 e.2).2 = ai at *
  generalize newP1 2 e.2 = ci at *
  have h1 := getIndex_le ci.1 pixel
  have h2 := getIndex_le ai.1 pixel
  have := getMask_vals
  rw [hc.2] at h1
  rw [ha.2] at h2
  rw [getIndexT_eq _ _ hp (by rw [hc.1]; omega), bind_some', getIndexT_eq _ _ hp (by rw [ha.1]; omega), bind_some',
    idx_w2 _ (by omega), bind_some', idx_w2 _ (by omega), bind_some', dbgP_of hp, bind_some',
    interpolateColorsAlphaT_eq _ _ _ _ (fun j => px_ep_lt _ hE _ _) (fun j => px_ep_lt _ hE _ _) (w2_le _) (w2_le _),
    bind_some', pure_some']

theorem mode6T_eq (s : Nat) : mode6T s = some (mode6 s) := by
  have hE := getEndPoints2_lt 6 s
  unfold mode6T mode6
  rw [getEndPoints2T_eq _ _ (by omega), bind_some', newP1T_eq _ _ (by omega), bind_some']
  apply mapT_eq_some
  intro pixel hp
  have hp : pixel < 16 := List.mem_range.mp hp
  dsimp only
  generalize getEndPoints2 6 s = e at *
  have hc := newP1_bits 4 e.2
  generalize newP1 4 e.2 = ix at *
  have h1 := getIndex_le ix.1 pixel
  have := getMask_vals
  rw [hc.2] at h1
  rw [getIndexT_eq _ _ hp (by rw [hc.1]; omega), bind_some', idx_w4 _ (by omega), bind_some', dbgP_of hp, bind_some',
    interpolateColorsAlphaT_eq _ _ _ _ (fun j => px_ep_lt _ hE _ _) (fun j => px_ep_lt _ hE _ _) (w4_le _) (w4_le _)]

/-- **BC7 body**: for every block the trapping mirror returns the 16 pixels of the wrapping model -/
theorem decodeBlockT_eq (b : Nat) : decodeBlockT b = some (decodeBlock b) := by
  unfold decodeBlockT decodeBlock
  rw [extractModeT_eq, bind_some']
  dsimp only
  generalize extractMode b = m
  by_cases h0 : m.1 = 0
  · rw [if_pos h0, if_pos h0]; exact modeSubset3T_eq _ _ (by omega)
  rw [if_neg h0, if_neg h0]
  by_cases h1 : m.1 = 1
  · rw [if_pos h1, if_pos h1]; exact modeSubset2T_eq _ _ (by omega)
  rw [if_neg h1, if_neg h1]
  by_cases h2 : m.1 = 2
  · rw [if_pos h2, if_pos h2]; exact modeSubset3T_eq _ _ (by omega)
  rw [if_neg h2, if_neg h2]
  by_cases h3 : m.1 = 3
  · rw [if_pos h3, if_pos h3]; exact modeSubset2T_eq _ _ (by omega)
  rw [if_neg h3, if_neg h3]
  by_cases h4 : m.1 = 4
  · rw [if_pos h4, if_pos h4]; exact mode4T_eq _
  rw [if_neg h4, if_neg h4]
  by_cases h5 : m.1 = 5
  · rw [if_pos h5, if_pos h5]; exact mode5T_eq _
  rw [if_neg h5, if_neg h5]
  by_cases h6 : m.1 = 6
  · rw [if_pos h6, if_pos h6]; exact mode6T_eq _
  rw [if_neg h6, if_neg h6]
  by_cases h7 : m.1 = 7
  · rw [if_pos h7, if_pos h7]; exact modeSubset2T_eq _ _ (by omega)
  rw [if_neg h7, if_neg h7]

/-! ### output range and the precision wrappers -/

theorem lerp_lt (e0 e1 w : Nat) : lerp e0 e1 w < 256 := Nat.mod_lt _ (by decide)
theorem interpolate23_lt (e0 e1 i b : Nat) : interpolate23 e0 e1 i b < 256 := lerp_lt _ _ _

theorem ica_lt (c0 c1 : List Nat) (cw aw : Nat) : ∀ v ∈ interpolateColorsAlpha c0 c1 cw aw, v < 256 :=
  list4_lt (lerp_lt _ _ _) (lerp_lt _ _ _) (lerp_lt _ _ _) (lerp_lt _ _ _)

theorem swapChannels_lt (p : List Nat) (r : Nat) (h : ∀ v ∈ p, v < 256) : ∀ v ∈ swapChannels p r, v < 256 := by
  have hp : ∀ i, px p i < 256 := getD_lt _ _ (by decide) h
  unfold swapChannels
  repeat' split
  all_goals first | exact h | exact list4_lt (hp _) (hp _) (hp _) (hp _)

theorem mode4_lt (s : Nat) : EpLt (mode4 s) := by
  unfold mode4; dsimp only; apply epLt_map; intro i; exact swapChannels_lt _ _ (ica_lt _ _ _ _)

theorem decodeBlock_lt (b : Nat) : EpLt (decodeBlock b) := by
  unfold decodeBlock
  dsimp only
  repeat' split
  all_goals first
    | (unfold modeSubset3; apply epLt_map; intro i
       exact list4_lt (interpolate23_lt ..) (interpolate23_lt ..) (interpolate23_lt ..) (interpolate23_lt ..))
    | (unfold modeSubset2; apply epLt_map; intro i
       exact list4_lt (interpolate23_lt ..) (interpolate23_lt ..) (interpolate23_lt ..) (interpolate23_lt ..))
    | (unfold mode4; dsimp only; apply epLt_map; intro i; exact swapChannels_lt _ _ (ica_lt _ _ _ _))
    | (unfold mode5; dsimp only; apply epLt_map; intro i; exact swapChannels_lt _ _ (ica_lt _ _ _ _))
    | (unfold mode6; dsimp only; apply epLt_map; intro i; exact ica_lt _ _ _ _)
    | (intro c hc v hv
       have hce : c = [0, 0, 0, 0] := List.eq_of_mem_replicate hc
       rw [hce] at hv
       exact list4_lt (by decide) (by decide) (by decide) (by decide) v hv)

/-- `bc7_u8_rgba` / `bc7_u16_rgba` / `bc7_f32_rgba`: no trap, `U16 = v * 257`, `F32 = n8::f32` -/
theorem decodeT_eq (prec : Nat) (f : Nat → Nat) (b : Nat) :
    decodeT prec f b = some (if prec = 0 then decodeBlock b
      else if prec = 1 then (decodeBlock b).map (List.map (· * 257)) else (decodeBlock b).map (List.map f)) := by
  unfold decodeT
  rw [decodeBlockT_eq, bind_some']
  by_cases h0 : prec = 0
  · rw [if_pos h0, if_pos h0, pure_some']
  rw [if_neg h0, if_neg h0]
  by_cases h1 : prec = 1
  · rw [if_pos h1, if_pos h1]
    apply mapT_eq_some
    intro c hc
    apply mapT_eq_some
    intro v hv
    have := decodeBlock_lt b c hc v hv
    exact ck_of_lt (by omega)
  · rw [if_neg h1, if_neg h1, pure_some']

end Dds.TrapBc7
