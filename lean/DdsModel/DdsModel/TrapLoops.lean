/-
Trapping mirrors of the generic decode loops of `src/decode/read_write.rs` (property C01), part 1:
the vocabulary (slices, events), `ImageViewMut` row access (`src/lib.rs`), `UntypedLineBuffer`,
`ChannelConversionBuffer::process_pixels`, `for_each_pixel_untyped`, `for_each_pixel_rect_untyped`,
`read_exact_image`, `for_each_slice` and the whole-image COPY decoders of `uncompressed.rs`.
Part 2 (`TrapLoopsBlock.lean`): the block helpers, `process_blocks`, the two block loops.
Part 3 (`TrapLoopsPlanar.lean`): `process_bi_planar_helper`, `process_bi_planar`, the two bi-planar loops.

What a mirror is.  The function written once more, line by line, in the `Option` monad: `none` = a panic of the
`checked` profile (overflow-checks + debug-assertions).  Every `a..b` slice is `Sl.range` (`a ≤ b ∧ b ≤ len`), every
`[..b]` / `[a..]` `Sl.upto` / `Sl.drop`, every plain `usize` `+ *` is `ckU` (`< 2^64`), every plain `u32` `+ *` `ck32`,
every unsigned `-` `subU`, every `/` and `%` by a run-time value `div` / `modT`, every `assert!` / `debug_assert!` /
`expect` / `unwrap` `dbgP` or a `match … | none => none`, `step_by(0)` and `chunks_mut(0)` are `dbgP (… ≠ 0)`;
`as` casts truncate (`% 256`, `% 2^32`); `saturating_*`, `min`, `clamp`'s comparison chain and `div_ceil` on a
non-zero divisor do not trap.  The per-unit decode functions (the codec bodies, total by
`bc*_body_trapfree` / `uncompressed_bodies_trapfree` / …) contribute nothing but the fixed size of their result
arrays, so they do not appear; what appears is every index into those arrays.

A slice is (buffer, offset, length); the result of a mirror is the list of observable events in program order:
reader / allocator operations (`Stream.Op`, the vocabulary of C06's traces) and the byte ranges written.  An I/O
error or a memory-limit refusal is an early `return Err(..)`: the operations executed are then a PREFIX of the
list, so `some` for the whole list covers every failing run as well (the reader's data never influences an index).
Loops whose trip count is decided by the line buffer (`while let Some(line) = next_line()`) carry a fuel; running
out of fuel is `none` too, so the theorems also show that these loops terminate within `lines + 1` calls.

The tuning constants come from `SrcConsts` (regenerated from the source on every run).
-/
import DdsModel.Trap
import DdsModel.TrapUnc
import DdsModel.Addr
import DdsModel.Stream
import DdsModel.SrcConsts
namespace Dds.TrapLoops
open Dds Dds.Trap

/-- `usize::MAX + 1` (64-bit target) -/
def USIZE : Nat := 18446744073709551616
/-- `u32::MAX + 1` -/
def U32B : Nat := 4294967296

/-- result of a plain `usize` / `u64` `+` or `*` -/
def ckU (x : Nat) : Option Nat := ck USIZE x
/-- result of a plain `u32` `+` or `*` -/
def ck32 (x : Nat) : Option Nat := ck U32B x
/-- `a % b` with a run-time divisor -/
def modT (a b : Nat) : Option Nat := if b = 0 then none else some (a % b)
/-- `a.div_ceil(b)` on an unsigned type: traps only for `b = 0` (`d + 1` cannot overflow when `r > 0`) -/
def divCeilT (a b : Nat) : Option Nat := if b = 0 then none else some (divCeil a b)
/-- `u32::saturating_add` -/
def satAdd32 (a b : Nat) : Nat := if a + b < U32B then a + b else U32B - 1

theorem ckU_of_lt {x : Nat} (h : x < USIZE) : ckU x = some x := ck_of_lt h
theorem ck32_of_lt {x : Nat} (h : x < U32B) : ck32 x = some x := ck_of_lt h
theorem modT_of_ne {a b : Nat} (h : b ≠ 0) : modT a b = some (a % b) := if_neg h
theorem divCeilT_of_ne {a b : Nat} (h : b ≠ 0) : divCeilT a b = some (divCeil a b) := if_neg h

/-- the buffers a decode touches -/
inductive Buf where
  /-- `image.data` of the output view -/
  | out
  /-- `ChannelConversionBuffer::buffer` (3072 bytes) -/
  | tmp
  /-- `UntypedLineBuffer::buf` -/
  | line
  /-- the `row` box of `for_each_pixel_rect_untyped` -/
  | row
  /-- the `plane1` box of the bi-planar loops -/
  | plane1
deriving DecidableEq, Repr

/-- a (sub-)slice: `len` bytes (or elements) starting at `off` of buffer `buf` -/
structure Sl where
  buf : Buf
  off : Nat
  len : Nat
deriving DecidableEq, Repr

/-- `s[a..b]` -/
def Sl.range (s : Sl) (a b : Nat) : Option Sl :=
  if a ≤ b ∧ b ≤ s.len then some ⟨s.buf, s.off + a, b - a⟩ else none
/-- `s[..b]` -/
def Sl.upto (s : Sl) (b : Nat) : Option Sl := s.range 0 b
/-- `s[a..]` -/
def Sl.drop (s : Sl) (a : Nat) : Option Sl := s.range a s.len

theorem Sl.range_of {s : Sl} {a b : Nat} (h : a ≤ b ∧ b ≤ s.len) : s.range a b = some ⟨s.buf, s.off + a, b - a⟩ :=
  if_pos h
theorem Sl.upto_of {s : Sl} {b : Nat} (h : b ≤ s.len) : s.upto b = some ⟨s.buf, s.off, b⟩ := by
  unfold Sl.upto; rw [Sl.range_of ⟨Nat.zero_le _, h⟩]; rfl
theorem Sl.drop_of {s : Sl} {a : Nat} (h : a ≤ s.len) : s.drop a = some ⟨s.buf, s.off + a, s.len - a⟩ := by
  unfold Sl.drop; rw [Sl.range_of ⟨h, Nat.le_refl _⟩]

attribute [irreducible] ckU ck32 modT divCeilT Sl.range Sl.upto Sl.drop

/-- observable events of a decode, in program order -/
inductive Ev where
  /-- a reader / allocator operation (`context.alloc`, `io_skip_exact`, `read_exact`, `alloc_read`) -/
  | io (o : Stream.Op)
  /-- the bytes of this slice are (over)written -/
  | wr (s : Sl)
deriving DecidableEq, Repr

/-- the reader / allocator trace of an event list -/
def ios : List Ev → List Stream.Op
  | [] => []
  | .io o :: t => o :: ios t
  | .wr _ :: t => ios t

/-- the slices of the output view that are written -/
def outWrites : List Ev → List Sl
  | [] => []
  | .wr s :: t => if s.buf = .out then s :: outWrites t else outWrites t
  | .io _ :: t => outWrites t

/-- a loop whose body may panic and whose iterations do not depend on each other: all events in order -/
def forT {α} (body : α → Option (List Ev)) (l : List α) : Option (List Ev) :=
  match mapT body l with
  | some r => some r.flatten
  | none => none

/-! ### colour formats and the output view (`src/color/mod.rs`, `src/lib.rs`) -/

/-- `ColorFormat`: channels and `size_of` of the precision (1, 2, 4) -/
structure Color where
  ch : Unc.Channels
  psz : Nat
deriving DecidableEq, Repr

/-- `channels.count() * precision.size()` -/
def Color.bpp (c : Color) : Nat := TrapUnc.chanCount c.ch * c.psz
/-- `ColorFormat::bytes_per_pixel` (color/mod.rs:87): a `u8` product -/
def Color.bppT (c : Color) : Option Nat := ck 256 (c.bpp)

/-- `ImageViewMut` (lib.rs:345): `data.len()`, size, row pitch, colour -/
structure Img where
  len : Nat
  w : Nat
  h : Nat
  pitch : Nat
  color : Color
deriving DecidableEq, Repr

/-- `image.data()` -/
def Img.data (i : Img) : Sl := ⟨.out, 0, i.len⟩

/-- what `ImageViewMut::new` / `new_with` / `cropped` guarantee for a non-empty view (C20's `Inv`): sizes are
`u32`s, the pitch is a `usize` that covers a row, the data slice is exactly the addressable length, and it is a Rust
slice (at most `isize::MAX` bytes, as the language guarantees for every slice) -/
structure Img.Ok (i : Img) : Prop where
  w_pos : 0 < i.w
  w_lt : i.w < U32B
  h_pos : 0 < i.h
  h_lt : i.h < U32B
  psz : i.color.psz = 1 ∨ i.color.psz = 2 ∨ i.color.psz = 4
  pitch_ge : i.w * i.color.bpp ≤ i.pitch
  pitch_lt : i.pitch < USIZE
  len_eq : i.len = i.pitch * (i.h - 1) + i.w * i.color.bpp
  len_le : i.len ≤ I64MAX

instance (i : Img) : Decidable i.Ok :=
  decidable_of_iff (0 < i.w ∧ i.w < U32B ∧ 0 < i.h ∧ i.h < U32B ∧ (i.color.psz = 1 ∨ i.color.psz = 2 ∨ i.color.psz = 4) ∧
    i.w * i.color.bpp ≤ i.pitch ∧ i.pitch < USIZE ∧ i.len = i.pitch * (i.h - 1) + i.w * i.color.bpp ∧ i.len ≤ I64MAX)
    ⟨fun ⟨a, b, c, d, e, f, g, h, k⟩ => ⟨a, b, c, d, e, f, g, h, k⟩, fun ⟨a, b, c, d, e, f, g, h, k⟩ => ⟨a, b, c, d, e, f, g, h, k⟩⟩

/-- `bytes_per_row` (lib.rs:436): `self.width() as usize * self.color.bytes_per_pixel() as usize` -/
def Img.bytesPerRowT (i : Img) : Option Nat := do
  let b ← i.color.bppT
  ckU (i.w * b)

/-- `get_row(y)` (lib.rs:505) -/
def Img.getRowT (i : Img) (y : Nat) : Option Sl := do
  let start ← ckU (y * i.pitch)
  let bpr ← i.bytesPerRowT
  let stop ← ckU (start + bpr)
  i.data.range start stop

/-- `get_row_range(y, height)` (lib.rs:510) -/
def Img.getRowRangeT (i : Img) (y height : Nat) : Option Sl := do
  dbgP (height > 0)
  let start ← ckU (y * i.pitch)
  let h1 ← subU height 1
  let m ← ckU (h1 * i.pitch)
  let a ← ckU (start + m)
  let bpr ← i.bytesPerRowT
  let stop ← ckU (a + bpr)
  i.data.range start stop

/-- `is_contiguous` (lib.rs:440): `self.row_pitch * self.height() as usize == self.data.len()` -/
def Img.isContiguousT (i : Img) : Option Bool := do
  let m ← ckU (i.pitch * i.h)
  pure (m == i.len)

/-- number of items of `rows_mut()` (lib.rs:497): `data.chunks_mut(row_pitch.max(1))` yields `ceil(len / p)` chunks -/
def Img.rowsMutCount (i : Img) : Nat := (i.len + max i.pitch 1 - 1) / max i.pitch 1

/-- the `k`-th item of `rows_mut()`: chunk `k` (the last one may be shorter), cut to `[..bytes_per_row]` -/
def Img.rowsMutItemT (i : Img) (bpr k : Nat) : Option Sl :=
  let p := max i.pitch 1
  (Sl.mk .out (k * p) (min p (i.len - k * p))).upto bpr

/-! ### `UntypedLineBuffer` (read_write.rs:990–1044) -/

structure LB where
  /-- `buf.len()` -/
  bufLen : Nat
  bufFilled : Nat
  bpl : Nat
  linesOnDisk : Nat
  cur : Nat
deriving DecidableEq, Repr

/-- `Ord::clamp(q, 1, height)` after its `assert!(min <= max)` -/
def clampLines (q height : Nat) : Nat := if q < 1 then 1 else if height < q then height else q

/-- `UntypedLineBuffer::new` (:1002): the division (:1009), `clamp`'s assertion, the `usize` product (:1010) and the
allocation (:1011; a refusal is `Err(MemoryLimitExceeded)`, not a panic) -/
def LB.newT (bpl height : Nat) : Option (LB × List Ev) := do
  let q ← div SrcConsts.TARGET_BUFFER_SIZE bpl
  dbgP (1 ≤ height)
  let bufLen ← ckU (clampLines q height * bpl)
  pure (⟨bufLen, 0, bpl, height, bufLen⟩, [.io (.alloc bufLen)])

/-- the tail of `next_line` (:1039–1042): `line_end`, `&self.buf[current_line_start..line_end]` -/
def LB.lineT (b : LB) (evs : List Ev) : Option (Option Sl × LB × List Ev) := do
  let lineEnd ← ckU (b.cur + b.bpl)
  let line ← (Sl.mk .line 0 b.bufLen).range b.cur lineEnd
  pure (some line, { b with cur := lineEnd }, evs)

/-- `UntypedLineBuffer::next_line` (:1023): `Ok(None)` when everything was handed out, else a refill
(`buf.len() / bytes_per_line`, `lines_on_disk -= …`, `lines_to_read * bytes_per_line`, `&mut self.buf[..buf_filled]`,
`read_exact`) if the buffer is used up, then the next line -/
def LB.nextLineT (b : LB) : Option (Option Sl × LB × List Ev) :=
  if b.cur ≥ b.bufFilled then
    if b.linesOnDisk = 0 then some (none, b, [])
    else do
      let q ← div b.bufLen b.bpl
      let n := min q b.linesOnDisk
      let rest ← subU b.linesOnDisk n
      let filled ← ckU (n * b.bpl)
      let s ← (Sl.mk .line 0 b.bufLen).upto filled
      LB.lineT { b with linesOnDisk := rest, bufFilled := filled, cur := 0 } [.io (.read s.len)]
  else LB.lineT b []

/-- `while let Some(line) = line_buffer.next_line(r)? { body }` with the loop variables `σ`.  The fuel bounds the number
of `next_line` calls; running out of it is `none` (the theorems show `lines + 1` calls always suffice). -/
def whileLinesT {σ : Type} (body : σ → Sl → Option (σ × List Ev)) : Nat → LB → σ → Option (List Ev)
  | 0, _, _ => none
  | fuel + 1, lb, st =>
    match lb.nextLineT with
    | none => none
    | some (none, _, e1) => some e1
    | some (some line, lb', e1) =>
      match body st line with
      | none => none
      | some (st', e2) =>
        match whileLinesT body fuel lb' st' with
        | none => none
        | some e3 => some (e1 ++ e2 ++ e3)

/-! ### pixel functions (`ProcessPixelsFn`, uncompressed.rs) and `convert_channels_for` -/

/-- the three shapes of `ProcessPixelsFn` in `uncompressed.rs`: `process_pixels_helper::<In, Out>` with element sizes
`a`, `b` (whole pixels for the closures of the `$f:expr` macro arm, single channels for `N8_TO_U16` …), `PROCESS_COPY`,
and `process_pixels_helper_unroll::<4, In, Out>` (`F16_TO_U16`, `F16_TO_F32`) -/
inductive PxFn where
  | helper (a b : Nat)
  | copy
  | unroll (a b : Nat)
deriving DecidableEq, Repr

/-- a `ProcessPixelsFn` applied to `(encoded, decoded)`; mirrors of the bodies: `TrapUnc.processPixelsT`,
`processPixelsUnrollT`; `PROCESS_COPY` (uncompressed.rs:123): `debug_assert!(encoded.len() == decoded.len())`,
`copy_from_slice` (panics on unequal lengths) -/
def PxFn.runT (f : PxFn) (enc dec : Sl) : Option (List Ev) :=
  match f with
  | .helper a b => do
    let n ← TrapUnc.processPixelsT a b enc.len dec.len
    pure [.wr ⟨dec.buf, dec.off, n * b⟩]
  | .copy => do
    dbgP (enc.len = dec.len)
    dbgP (dec.len = enc.len)
    pure [.wr dec]
  | .unroll a b => do
    TrapUnc.processPixelsUnrollT 4 a b enc.len dec.len
    pure [.wr dec]

/-- the function is instantiated for pixels of `encSize` encoded and `decSize` decoded bytes: `c` elements per pixel -/
def PxFn.Fits (f : PxFn) (encSize decSize : Nat) : Prop :=
  match f with
  | .helper a b => 0 < a ∧ 0 < b ∧ ∃ c, c ≤ 16 ∧ encSize = c * a ∧ decSize = c * b
  | .copy => encSize = decSize
  | .unroll a b => a = 2 ∧ (b = 2 ∨ b = 4) ∧ ∃ c, c ≤ 16 ∧ encSize = c * a ∧ decSize = c * b

/-- `convert_channels_for(from, to, from_buffer, to_buffer)` (color/mod.rs:314): dispatch on the precision to
`convert_channels::<u8 | u16 | f32>` (mirror `TrapUnc.convertChannelsT`); every arm writes the whole `to_buffer` -/
def convertChannelsForT (native : Color) (target : Unc.Channels) (src dst : Sl) : Option (List Ev) := do
  TrapUnc.convertChannelsT native.ch target native.psz src.len dst.len
  pure [.wr dst]

/-- `ChannelConversionBuffer::BUFFER_BYTES` -/
def BUFFER_BYTES : Nat := SrcConsts.CONVERSION_BUFFER_BYTES
/-- `cast::as_bytes_mut(&mut self.buffer)`: `[u32; BUFFER_BYTES / 4]` viewed as bytes (cast.rs:26, no check) -/
def tmpBuffer : Sl := ⟨.tmp, 0, BUFFER_BYTES / 4 * 4⟩

/-- `ChannelConversionBuffer::process_pixels` (:750) -/
def convPixelsT (native : Color) (target : Unc.Channels) (f : PxFn) (enc out : Sl) : Option (List Ev) :=
  if native.ch = target then f.runT enc out                              -- :752
  else do
    let obpp ← (Color.mk target native.psz).bppT                         -- :757
    let pixels ← div out.len obpp                                        -- :759
    let ebpp ← div enc.len pixels                                        -- :760
    let m ← modT obpp (TrapUnc.chanCount target)                         -- :761
    dbgP (m = 0)
    let nbpp ← native.bppT                                               -- :762
    let bufPx ← div BUFFER_BYTES nbpp                                    -- :763
    dbgP (bufPx ≠ 0)                                                     -- :767 `step_by(0)` panics
    forT (fun cs => do
      let t ← ckU (cs + bufPx)                                           -- :768
      let ce := min t pixels
      let csz ← subU ce cs                                               -- :769
      let a ← ckU (cs * ebpp)
      let b ← ckU (ce * ebpp)
      let encChunk ← enc.range a b                                       -- :771
      let c ← ckU (cs * obpp)
      let d ← ckU (ce * obpp)
      let outChunk ← out.range c d                                       -- :773
      let e ← ckU (csz * nbpp)
      let bufChunk ← tmpBuffer.upto e                                    -- :775
      let w1 ← f.runT encChunk bufChunk                                  -- :778
      let w2 ← convertChannelsForT native target bufChunk outChunk       -- :781
      pure (w1 ++ w2)) (Addr.stepStarts pixels bufPx)

/-! ### `for_each_pixel_untyped` (:87) -/

/-- the `for buf in image.rows_mut()` loop (:106–113): item `k` of `rows_mut`, `next_line(r)?.expect(..)`,
`debug_assert!(line.len() % size_of_in == 0)`, `process_pixels` -/
def pixelRowsT (img : Img) (native : Color) (encSize : Nat) (f : PxFn) (bpr : Nat) : List Nat → LB → Option (List Ev)
  | [], _ => some []
  | k :: ks, lb => do
    let buf ← img.rowsMutItemT bpr k
    match lb.nextLineT with
    | none => none
    | some (none, _, _) => none                                          -- :109 `expect`
    | some (some line, lb', e1) => do
      let m ← modT line.len encSize                                      -- :110
      dbgP (m = 0)
      let e2 ← convPixelsT native img.color.ch f line buf                -- :112
      let e3 ← pixelRowsT img native encSize f bpr ks lb'
      pure (e1 ++ e2 ++ e3)

/-- `for_each_pixel_untyped` (the surface size is the image size) -/
def pixelFullT (img : Img) (native : Color) (encSize decSize : Nat) (f : PxFn) : Option (List Ev) := do
  dbgP (img.color.psz = native.psz)                                      -- :95
  let nb ← native.bppT
  dbgP (nb = decSize)                                                    -- :96
  let bpl ← ckU (img.w * encSize)                                        -- :101
  let (lb, e0) ← LB.newT bpl img.h                                       -- :100
  let bpr ← img.bytesPerRowT                                             -- lib.rs:498
  dbgP (max img.pitch 1 ≠ 0)                                             -- lib.rs:502 `chunks_mut(0)` panics
  let e1 ← pixelRowsT img native encSize f bpr (List.range img.rowsMutCount) lb
  pure (e0 ++ e1)

/-! ### `for_each_pixel_rect_untyped` (:120) -/

/-- one iteration `y` of the row loop (:161–175) -/
def pixelRectRowT (img : Img) (native : Color) (encSize : Nat) (f : PxFn) (before after : Nat) (row : Sl) (y : Nat) :
    Option (List Ev) := do
  let e0 ← if y > 0 then (do let g ← ckU (before + after); pure [Ev.io (.skip g)]) else pure []   -- :165
  let buf ← img.getRowT y                                                -- :171
  let ibpp ← img.color.bppT                                              -- :148
  let q1 ← div row.len encSize                                           -- :172
  let q2 ← div buf.len ibpp
  dbgP (q1 = q2)
  let e2 ← convPixelsT native img.color.ch f row buf                     -- :174
  pure (e0 ++ [Ev.io (.read row.len)] ++ e2)                             -- :169

/-- `for_each_pixel_rect_untyped`: surface `W × H`, rect = the image at `(ox, oy)` -/
def pixelRectT (img : Img) (W H ox oy : Nat) (native : Color) (encSize decSize : Nat) (f : PxFn) : Option (List Ev) := do
  dbgP (img.color.psz = native.psz)                                      -- :129
  let nb ← native.bppT
  dbgP (nb = decSize)                                                    -- :130
  let px ← ckU (W * H)                                                   -- :138 `Size::pixels`
  dbgP (px * encSize < USIZE ∧ px * encSize ≤ I64MAX)                    -- :137 `assert!(checked_mul … <= i64::MAX)`
  let perRow ← ckU (W * encSize)                                         -- :143
  let before ← ckU (ox * encSize)                                        -- :144
  let t1 ← subU W ox                                                     -- :146 (`u32`)
  let t2 ← subU t1 img.w
  let after ← ckU (t2 * encSize)
  let rowLen ← ckU (img.w * encSize)                                     -- :152
  let row : Sl := ⟨.row, 0, rowLen⟩
  let s1 ← ckU (perRow * oy)                                             -- :157
  let s2 ← ckU (s1 + before)
  let e1 ← forT (pixelRectRowT img native encSize f before after row) (List.range img.h)   -- :161
  let t3 ← subU H oy                                                     -- :181 (`u32`)
  let t4 ← subU t3 img.h
  let m ← ckU (t4 * perRow)
  let s3 ← ckU (after + m)                                               -- :180
  pure ([Ev.io (.alloc rowLen), Ev.io (.skip s2)] ++ e1 ++ [Ev.io (.skip s3)])

/-! ### `read_exact_image`, `for_each_slice` (:1293–1315) and the COPY decoders (uncompressed.rs:93–112, :185–196) -/

/-- `read_exact_image(r, image)`: one `read_exact(image.data())` if contiguous, else one per item of `rows_mut()` -/
def readExactImageT (img : Img) : Option (List Ev) := do
  let c ← img.isContiguousT
  if c then pure [Ev.io (.read img.len), Ev.wr img.data]
  else do
    let bpr ← img.bytesPerRowT
    dbgP (max img.pitch 1 ≠ 0)
    forT (fun k => do
      let row ← img.rowsMutItemT bpr k
      pure [Ev.io (.read row.len), Ev.wr row]) (List.range img.rowsMutCount)

/-- what the whole-image decoders do with every slice after reading: nothing (`COPY_U8`), `cast::slice_le_to_ne_16`
(cast.rs:171 `assert!(buf.len() % 2 == 0)`), `slice_le_to_ne_32` (:187 `assert!(buf.len() % 4 == 0)`), the `s8::n8` map
(`COPY_S8`), the BGRA swap loop (`out.swap(i, i + 2)`, mirror `TrapUnc.bgraSwapT`) -/
inductive SliceFn where
  | nothing | le16 | le32 | s8 | bgraSwap
deriving DecidableEq, Repr

def SliceFn.runT (g : SliceFn) (s : Sl) : Option (List Ev) :=
  match g with
  | .nothing => pure []
  | .le16 => do dbgP (s.len % 2 = 0); pure []            -- little-endian target: no write
  | .le32 => do dbgP (s.len % 4 = 0); pure []
  | .s8 => pure [.wr s]
  | .bgraSwap => do TrapUnc.bgraSwapT s.len; pure [.wr s]

/-- `for_each_slice(image, f)` -/
def forEachSliceT (img : Img) (g : SliceFn) : Option (List Ev) := do
  let c ← img.isContiguousT
  if c then g.runT img.data
  else do
    let bpr ← img.bytesPerRowT
    dbgP (max img.pitch 1 ≠ 0)
    forT (fun k => do
      let row ← img.rowsMutItemT bpr k
      g.runT row) (List.range img.rowsMutCount)

/-- `COPY_U8` / `COPY_U16` / `COPY_U32` / `COPY_S8` / the `B8G8R8A8_UNORM` swap decoder -/
def copyFullT (img : Img) (g : SliceFn) : Option (List Ev) := do
  let e1 ← readExactImageT img
  let e2 ← if g = .nothing then pure [] else forEachSliceT img g
  pure (e1 ++ e2)

/-- the colour a whole-image decoder is registered for (`add_specialized`): `COPY_U16` only for U16 colours, `COPY_U32`
only for F32 colours, the swap only for RGBA U8, `COPY_U8` / `COPY_S8` for U8 colours -/
def SliceFn.Fits (g : SliceFn) (c : Color) : Prop :=
  match g with
  | .nothing => c.psz = 1
  | .le16 => c.psz = 2
  | .le32 => c.psz = 4
  | .s8 => c.psz = 1
  | .bgraSwap => c = ⟨.rgba, 1⟩

/-! ### glue table: the `process_fn = …` uses of uncompressed.rs (format, encoded pixel size, native colour, function) -/

def N8_TO_U8 : PxFn := .copy
def N8_TO_U16 : PxFn := .helper 1 2
def N8_TO_F32 : PxFn := .helper 1 4
def S8_TO_U8 : PxFn := .helper 1 1
def S8_TO_U16 : PxFn := .helper 1 2
def S8_TO_F32 : PxFn := .helper 1 4
def N16_TO_U8 : PxFn := .helper 2 1
def N16_TO_U16 : PxFn := .helper 2 2
def N16_TO_F32 : PxFn := .helper 2 4
def S16_TO_U8 : PxFn := .helper 2 1
def S16_TO_U16 : PxFn := .helper 2 2
def S16_TO_F32 : PxFn := .helper 2 4
def F16_TO_U8 : PxFn := .helper 2 1
def F16_TO_U16 : PxFn := .unroll 2 2
def F16_TO_F32 : PxFn := .unroll 2 4
def F32_TO_U8 : PxFn := .helper 4 1
def F32_TO_U16 : PxFn := .helper 4 2
def F32_TO_F32 : PxFn := .helper 4 4

/-- every decoder of `uncompressed.rs` built with `process_fn = F` (the other decoders use the `$f:expr` macro arm:
`process_pixels_helper::<InPixel, OutPixel>` with `PIXEL_SIZE` taken from the same two types, i.e. `.helper e d` for
pixel sizes `(e, d)`, which fits by construction) -/
def processFnUses : List (String × Nat × Color × PxFn) := [
  ("R8G8B8_UNORM", 3, ⟨.rgb, 1⟩, N8_TO_U8), ("R8G8B8_UNORM", 3, ⟨.rgb, 2⟩, N8_TO_U16), ("R8G8B8_UNORM", 3, ⟨.rgb, 4⟩, N8_TO_F32),
  ("R8G8B8A8_UNORM", 4, ⟨.rgba, 1⟩, N8_TO_U8), ("R8G8B8A8_UNORM", 4, ⟨.rgba, 2⟩, N8_TO_U16),
  ("R8G8B8A8_UNORM", 4, ⟨.rgba, 4⟩, N8_TO_F32),
  ("R8G8B8A8_SNORM", 4, ⟨.rgba, 1⟩, S8_TO_U8), ("R8G8B8A8_SNORM", 4, ⟨.rgba, 2⟩, S8_TO_U16),
  ("R8G8B8A8_SNORM", 4, ⟨.rgba, 4⟩, S8_TO_F32),
  ("R8_UNORM", 1, ⟨.gray, 1⟩, N8_TO_U8), ("R8_UNORM", 1, ⟨.gray, 2⟩, N8_TO_U16), ("R8_UNORM", 1, ⟨.gray, 4⟩, N8_TO_F32),
  ("R8_SNORM", 1, ⟨.gray, 1⟩, S8_TO_U8), ("R8_SNORM", 1, ⟨.gray, 2⟩, S8_TO_U16), ("R8_SNORM", 1, ⟨.gray, 4⟩, S8_TO_F32),
  ("A8_UNORM", 1, ⟨.alpha, 1⟩, N8_TO_U8), ("A8_UNORM", 1, ⟨.alpha, 2⟩, N8_TO_U16), ("A8_UNORM", 1, ⟨.alpha, 4⟩, N8_TO_F32),
  ("R16_UNORM", 2, ⟨.gray, 2⟩, N16_TO_U16), ("R16_UNORM", 2, ⟨.gray, 1⟩, N16_TO_U8), ("R16_UNORM", 2, ⟨.gray, 4⟩, N16_TO_F32),
  ("R16_SNORM", 2, ⟨.gray, 2⟩, S16_TO_U16), ("R16_SNORM", 2, ⟨.gray, 1⟩, S16_TO_U8), ("R16_SNORM", 2, ⟨.gray, 4⟩, S16_TO_F32),
  ("R16G16B16A16_UNORM", 8, ⟨.rgba, 2⟩, N16_TO_U16), ("R16G16B16A16_UNORM", 8, ⟨.rgba, 1⟩, N16_TO_U8),
  ("R16G16B16A16_UNORM", 8, ⟨.rgba, 4⟩, N16_TO_F32),
  ("R16G16B16A16_SNORM", 8, ⟨.rgba, 2⟩, S16_TO_U16), ("R16G16B16A16_SNORM", 8, ⟨.rgba, 1⟩, S16_TO_U8),
  ("R16G16B16A16_SNORM", 8, ⟨.rgba, 4⟩, S16_TO_F32),
  ("R16_FLOAT", 2, ⟨.gray, 4⟩, F16_TO_F32), ("R16_FLOAT", 2, ⟨.gray, 1⟩, F16_TO_U8), ("R16_FLOAT", 2, ⟨.gray, 2⟩, F16_TO_U16),
  ("R16G16B16A16_FLOAT", 8, ⟨.rgba, 4⟩, F16_TO_F32), ("R16G16B16A16_FLOAT", 8, ⟨.rgba, 1⟩, F16_TO_U8),
  ("R16G16B16A16_FLOAT", 8, ⟨.rgba, 2⟩, F16_TO_U16),
  ("R32_FLOAT", 4, ⟨.gray, 4⟩, F32_TO_F32), ("R32_FLOAT", 4, ⟨.gray, 1⟩, F32_TO_U8), ("R32_FLOAT", 4, ⟨.gray, 2⟩, F32_TO_U16),
  ("R32G32B32_FLOAT", 12, ⟨.rgb, 4⟩, F32_TO_F32), ("R32G32B32_FLOAT", 12, ⟨.rgb, 1⟩, F32_TO_U8),
  ("R32G32B32_FLOAT", 12, ⟨.rgb, 2⟩, F32_TO_U16),
  ("R32G32B32A32_FLOAT", 16, ⟨.rgba, 4⟩, F32_TO_F32), ("R32G32B32A32_FLOAT", 16, ⟨.rgba, 1⟩, F32_TO_U8),
  ("R32G32B32A32_FLOAT", 16, ⟨.rgba, 2⟩, F32_TO_U16)]

/-- decidable form of `PxFn.Fits` for the table check -/
def PxFn.fitsB (f : PxFn) (encSize decSize : Nat) : Bool :=
  match f with
  | .helper a b => decide (0 < a) && decide (0 < b) && (List.range 17).any fun c => encSize == c * a && decSize == c * b
  | .copy => encSize == decSize
  | .unroll a b => a == 2 && (b == 2 || b == 4) && (List.range 17).any fun c => encSize == c * a && decSize == c * b

/-- the whole-image decoders of uncompressed.rs: (format, colour, function) -/
def copyUses : List (String × Color × SliceFn) := [
  ("R8G8B8_UNORM", ⟨.rgb, 1⟩, .nothing), ("R8G8B8A8_UNORM", ⟨.rgba, 1⟩, .nothing), ("R8G8B8A8_SNORM", ⟨.rgba, 1⟩, .s8),
  ("B8G8R8A8_UNORM", ⟨.rgba, 1⟩, .bgraSwap), ("R8_UNORM", ⟨.gray, 1⟩, .nothing), ("R8_SNORM", ⟨.gray, 1⟩, .s8),
  ("A8_UNORM", ⟨.alpha, 1⟩, .nothing), ("R16_UNORM", ⟨.gray, 2⟩, .le16), ("R16G16B16A16_UNORM", ⟨.rgba, 2⟩, .le16),
  ("R32_FLOAT", ⟨.gray, 4⟩, .le32), ("R32G32B32_FLOAT", ⟨.rgb, 4⟩, .le32), ("R32G32B32A32_FLOAT", ⟨.rgba, 4⟩, .le32)]

end Dds.TrapLoops
