/-
C15 — the float → integer sites of the block-compression encoders
(src/encode/bc4.rs, bc1.rs, bc7.rs; bc.rs and bcn_util.rs contain none of their own, see notes/C15.md).

Every site is a *trapping mirror* on binary32 bit patterns (`Nat < 2^32`): each Rust `f32` operator is the
software binary32 operator of `ConvF32.lean` (one correct rounding per operator, ties to even, gradual
underflow, saturating `as u8` with NaN → 0), the integer consumer of the cast is written with its checks:
`none` = a panic of the overflow-checking / debug-assertion profile (a `u8` over/underflow, an index out of
range, a failing `debug_assert!`).  `Theorems/C15.lean` proves `some v` with `v` in the range the consumer
needs for every bit pattern of the guaranteed input set of the site (all 2^32 where nothing is guaranteed).

glam (`Vec4`, `Vec3A`): glam 0.33.7 is compiled with its SSE2 backend on x86-64 (default features): a lane
operation is the scalar operation per lane, EXCEPT `min`, `max`, `clamp`, which are `_mm_min_ps`,
`_mm_max_ps` (`sseMin`, `sseMax` below: the SECOND operand when either is NaN or both are zeros).

Only core and `ConvF32`/`Mach` are imported.
-/
import DdsModel.ConvF32
import DdsModel.Mach
namespace Dds.EncBcSites
open Dds Dds.CF32

/-! ### operators that `ConvF32.lean` does not have -/

/-- `_mm_min_ps(a, b)` per lane: `a < b ? a : b` — `b` when either is NaN, `b` for `±0` against `±0` -/
def sseMin (a b : Nat) : Nat := if flt a b then a else b
/-- `_mm_max_ps(a, b)` per lane: `a > b ? a : b` -/
def sseMax (a b : Nat) : Nat := if flt b a then a else b
/-- one lane of glam's `Vec4::clamp(Vec4::ZERO, Vec4::ONE)` / `Vec3A::clamp(ZERO, ONE)` (SSE2):
`self.max(min).min(max)` -/
def sseClamp01 (x : Nat) : Nat := sseMin (sseMax x 0) one

/-- `f32::min`: a NaN operand is ignored; on a tie (only `-0.0` against `+0.0` matters) Rust may return
either operand: `tie` picks it, the theorems hold for both choices -/
def fminT (tie : Bool) (a b : Nat) : Nat :=
  if isNaN a then b else if isNaN b then a else
  if flt a b then a else if flt b a then b else if tie then a else b
/-- `f32::max`, likewise -/
def fmaxT (tie : Bool) (a b : Nat) : Nat :=
  if isNaN a then b else if isNaN b then a else
  if flt a b then b else if flt b a then a else if tie then a else b

/-- `f32::abs`: the sign bit is cleared (NaN stays NaN) -/
def fabs (x : Nat) : Nat := if isNeg x then x - signBit else x

/-- the literals -/
def k255 : Nat := 0x437F0000
def k254 : Nat := 0x437E0000
def k127 : Nat := 0x42FE0000
def k63 : Nat := 0x427C0000
def k31 : Nat := 0x41F80000
def k15 : Nat := 0x41700000
def k7 : Nat := 0x40E00000
def two : Nat := 0x40000000
/-- `R5G6B5Color::ROUND_CEIL = 0.999995_f32` -/
def roundCeil : Nat := 0x3F7FFFAC
/-- `CEIL = 0.9999_f32` of `channel_ceil` -/
def ceil9999 : Nat := 0x3F7FF972
/-- `1.0 / 255.0` -/
def inv255 : Nat := 0x3B808081

/-- `debug_assert!(a < b)` on integers -/
def assertLt (a b : Nat) : Option (Nat × Nat) := if a < b then some (a, b) else none

/-! ### bc4.rs -/

/-- `reference_brute_force` (bc4.rs:126): `min_max = (block_max * 255. + 2.) as u8` -/
def bruteMinMax (blockMax : Nat) : Nat := toNatSat (fadd (fmul blockMax k255) two) 255
/-- `max_min = (block_min * 255. - 1.) as u8` -/
def bruteMaxMin (blockMin : Nat) : Nat := toNatSat (fsub (fmul blockMin k255) one) 255
/-- the lower end of the inner loop `max_min.max(min + 1)..=255`: `none` = `min + 1` overflows `u8` -/
def bruteInnerLo (maxMin min : Nat) : Option Nat :=
  if min + 1 < U8 then some (max maxMin (min + 1)) else none
/-- `EndPoints::new_inter6_unorm(c0, c1)`: `debug_assert!(c0 > c1)` -/
def newInter6Unorm (c0 c1 : Nat) : Option (Nat × Nat) := if c1 < c0 then some (c0, c1) else none

/-- `s8::from_norm` (src/color/formats.rs:374): `debug_assert!(x <= 254); (x + 1).wrapping_sub(128)` -/
def s8FromNorm (x : Nat) : Option Nat := if x ≤ 254 then some ((x + 1 + 128) % 256) else none

/-- `(min + max) * 0.5`: the value handed to `single_color` (bc4.rs:98) -/
def singleValue (mn mx : Nat) : Nat := fmul (fadd mn mx) half

/-- `EndPoints::new_closest(value, snorm)` (bc4.rs:401): the pair `(c0, c1)`.  snorm:
`closest_s8_norm = (254.0 * value + 0.5) as u8` goes through `s8::from_norm`; unorm: `(255.0 * value + 0.5) as u8`
is stored.  (`debug_assert!(c1_f == 0.0)`: `s8::uf32(s8::from_norm(0)) = (0 as f32 * 31.0) * K1 = 0.0`, constants only.) -/
def newClosest (snorm : Bool) (value : Nat) : Option (Nat × Nat) :=
  if snorm then
    match s8FromNorm (toNatSat (fadd (fmul k254 value) half) 255), s8FromNorm 0 with
    | some c0, some c1 => some (c0, c1)
    | _, _ => none
  else some (toNatSat (fadd (fmul k255 value) half) 255, 0)

/-- `(K * x + 0.5) as u8` -/
def roundK (k x : Nat) : Nat := toNatSat (fadd (fmul k x) half) 255
/-- `(K * x) as u8` -/
def floorK (k x : Nat) : Nat := toNatSat (fmul k x) 255
/-- `(K * (1.0 - x)) as u8` -/
def ceilTermK (k x : Nat) : Nat := toNatSat (fmul k (fsub one x)) 255

/-- the common part of `EndPoints::quantize` and `EndPoints::new_inter6` (bc4.rs:436–455, 467–486, 502–521,
537–556), `k` the pattern of `254.0` / `255.0`, `kN` the same number as `u8`:

    let mut mn = (K * min + 0.5) as u8;  let mut mx = (K * max + 0.5) as u8;
    if mn == mx { mn = (K * min) as u8;  mx = kN - (K * (1.0 - max)) as u8;        // u8 subtraction
                  if mn == mx { if mn == 0 { mx = 1 } else { mn -= 1 } } }         // u8 subtraction
    debug_assert!(mn < mx);

returns `(mn, mx)` -/
def endsNorm (k kN mn mx : Nat) : Option (Nat × Nat) :=
  if roundK k mn = roundK k mx then
    if kN < ceilTermK k mx then none else
    if floorK k mn = kN - ceilTermK k mx then
      (if floorK k mn = 0 then assertLt 0 1 else assertLt (floorK k mn - 1) (kN - ceilTermK k mx))
    else assertLt (floorK k mn) (kN - ceilTermK k mx)
  else assertLt (roundK k mn) (roundK k mx)

/-- the codes `(c0, c1)` behind `EndPoints::quantize((e0, e1), snorm)` (bc4.rs:425; it returns their
`n8::f32` / `s8::uf32`): `min = e0.min(e1)`, `max = e0.max(e1)`; snorm: both `f32::clamp(0.0, 1.0)` (NaN stays
NaN, `-0.0` stays `-0.0`), `endsNorm` with 254, `c0 = s8::from_norm(max)`, `c1 = s8::from_norm(min)`,
`debug_assert!(c0 != c1)`; unorm: NO clamp, `endsNorm` with 255, `(max_u8, min_u8)` -/
def quantizeEnds (t1 t2 : Bool) (snorm : Bool) (e0 e1 : Nat) : Option (Nat × Nat) :=
  if snorm then
    match endsNorm k254 254 (fclamp (fminT t1 e0 e1) 0 one) (fclamp (fmaxT t2 e0 e1) 0 one) with
    | none => none
    | some (a, b) =>
      match s8FromNorm b, s8FromNorm a with
      | some c0, some c1 => if c0 = c1 then none else some (c0, c1)
      | _, _ => none
  else
    match endsNorm k255 255 (fminT t1 e0 e1) (fmaxT t2 e0 e1) with
    | none => none
    | some (a, b) => some (b, a)

/-- `x as i8` of a `u8` -/
def asI8 (x : Nat) : Int := if x < 128 then (x : Int) else (x : Int) - 256

/-- `EndPoints::new_inter6(e0, e1, snorm)` (bc4.rs:492): the same computation; snorm additionally swaps
`if c0 as i8 <= c1 as i8` (no check of its own) -/
def newInter6 (t1 t2 : Bool) (snorm : Bool) (e0 e1 : Nat) : Option (Nat × Nat) :=
  match quantizeEnds t1 t2 snorm e0 e1 with
  | none => none
  | some (c0, c1) => if snorm && decide (asI8 c0 ≤ asI8 c1) then some (c1, c0) else some (c0, c1)

/-- `Inter6Palette::INDEX_MAP` -/
def indexMap : List Nat := [1, 7, 6, 5, 4, 3, 2, 0]

/-- `Inter6Palette::closest` (bc4.rs:758): `blend = pixel * factor1 + add1; blend7 = (blend as u8).min(7);
INDEX_MAP[blend7 as usize]`: `(blend7, index_value)`, `none` = index out of bounds -/
def inter6Closest (pixel factor1 add1 : Nat) : Option (Nat × Nat) :=
  let blend7 := min (toNatSat (fadd (fmul pixel factor1) add1) 255) 7
  match indexMap[blend7]? with
  | some v => some (blend7, v)
  | none => none

/-- `IndexList::set(index, value)` of bc4.rs:630: `debug_assert!(value < 8)` -/
def indexValueOk (v : Nat) : Bool := decide (v < 8)

/-! ### bc1.rs -/

/-- `R5G6B5Color::new`: `debug_assert!(r < 32); debug_assert!(g < 64); debug_assert!(b < 32)` -/
def r5g6b5New (r g b : Nat) : Option (Nat × Nat × Nat) :=
  if r < 32 ∧ g < 64 ∧ b < 32 then some (r, g, b) else none

/-- one lane of `(v * COMPONENT_MAX + h).min(COMPONENT_MAX)` then `as u8`; `sse = true`: glam's SSE2
`_mm_min_ps`, `false`: the scalar backend's `f32::min` -/
def q565Lane (sse : Bool) (k : Nat) (h : Option Nat) (v : Nat) : Nat :=
  let p := fmul v k
  let s := match h with | some h => fadd p h | none => p
  toNatSat (if sse then sseMin s k else fmin s k) 255

/-- `R5G6B5Color::round` (bc1.rs:637) -/
def r5g6b5Round (sse : Bool) (x y z : Nat) : Option (Nat × Nat × Nat) :=
  r5g6b5New (q565Lane sse k31 (some half) x) (q565Lane sse k63 (some half) y) (q565Lane sse k31 (some half) z)
/-- `R5G6B5Color::floor` (bc1.rs:642) -/
def r5g6b5Floor (sse : Bool) (x y z : Nat) : Option (Nat × Nat × Nat) :=
  r5g6b5New (q565Lane sse k31 none x) (q565Lane sse k63 none y) (q565Lane sse k31 none z)
/-- `R5G6B5Color::ceil` (bc1.rs:647) -/
def r5g6b5Ceil (sse : Bool) (x y z : Nat) : Option (Nat × Nat × Nat) :=
  r5g6b5New (q565Lane sse k31 (some roundCeil) x) (q565Lane sse k63 (some roundCeil) y)
    (q565Lane sse k31 (some roundCeil) z)

/-- `optimal_channel` (bc1.rs:379): `c0_max = max.min((color * max as f32) as u8)` -/
def optC0Max (color mx : Nat) : Nat := min mx (toNatSat (fmul color (ofNat mx)) 255)

/-- one iteration of its loop (bc1.rs:399–401): `c1_ideal = (color - c0 as f32 * w0) / w1;
c1_floor = max.min(c1_ideal as u8); c1_ceil = max.min(c1_floor + 1)`; `none` = `c1_floor + 1` overflows `u8` -/
def optC1 (color w0 w1 mx c0 : Nat) : Option (Nat × Nat) :=
  let c1Ideal := fdiv (fsub color (fmul (ofNat c0) w0)) w1
  let c1Floor := min mx (toNatSat c1Ideal 255)
  if c1Floor + 1 < U8 then some (c1Floor, min mx (c1Floor + 1)) else none

/-! ### bc7.rs -/

/-- `promote(number, number_bits)` (bc7.rs:2259) on `u8`: `number <<= 8 - bits; number |= number >> bits`
(`<<=` on `u8` drops the bits shifted out; the shift amounts are below 8) -/
def promote (n bits : Nat) : Nat :=
  let s := (n <<< (8 - bits)) % 256
  s ||| (s >>> bits)

/-- `channel_to_vec::<B>(c)`: `u as f32 * (1.0 / 255.0)` -/
def chanToVec (B c : Nat) : Nat := fmul (ofNat (if B = 8 then c else promote c B)) inv255

/-- `max as f32` for `max = (1 << B) - 1` -/
def maxF (B : Nat) : Nat := ofNat (2 ^ B - 1)

/-- `channel_round::<B>` (bc7.rs:2197).  The `nearest - 1` / `nearest + 1` stand behind `nearest > 0 &&` /
`nearest < max &&` (short-circuit), which is what the guards of the `if`s say; `none` = `unreachable!()` -/
def channelRound (B v : Nat) : Option Nat :=
  if B = 8 then some (toNatSat (fadd (fmul v k255) half) 255)
  else if B = 4 then some (toNatSat (fmin (fadd (fmul v k15) half) k15) 255)
  else if 5 ≤ B ∧ B ≤ 7 then
    let mx := 2 ^ B - 1
    let v := fclamp v 0 one
    let nearest := toNatSat (fadd (fmul v (maxF B)) half) 255
    let err := fabs (fsub (chanToVec B nearest) v)
    if 0 < nearest ∧ flt (fabs (fsub (chanToVec B (nearest - 1)) v)) err = true then some (nearest - 1)
    else if nearest < mx ∧ flt (fabs (fsub (chanToVec B (nearest + 1)) v)) err = true then
      (if nearest + 1 < U8 then some (nearest + 1) else none)
    else some nearest
  else none

/-- `channel_floor::<B>` (bc7.rs:2216) -/
def channelFloor (B v : Nat) : Option Nat :=
  if B = 8 then some (toNatSat (fmul v k255) 255)
  else if B = 4 then some (toNatSat (fmin (fmul v k15) k15) 255)
  else if 5 ≤ B ∧ B ≤ 7 then
    let mx := 2 ^ B - 1
    let v := fclamp v 0 one
    let fl := toNatSat (fmul v (maxF B)) 255
    if 0 < fl ∧ flt v (chanToVec B fl) = true then some (fl - 1)
    else if fl < mx ∧ flt (chanToVec B (fl + 1)) v = true then
      (if fl + 1 < U8 then some (fl + 1) else none)
    else some fl
  else none

/-- `channel_ceil::<B>` (bc7.rs:2234) -/
def channelCeil (B v : Nat) : Option Nat :=
  if B = 8 then some (toNatSat (fadd (fmul v k255) ceil9999) 255)
  else if B = 4 then some (toNatSat (fmin (fadd (fmul v k15) ceil9999) k15) 255)
  else if 5 ≤ B ∧ B ≤ 7 then
    let mx := 2 ^ B - 1
    let v := fclamp v 0 one
    let ce := toNatSat (fmin (fadd (fmul v (maxF B)) ceil9999) (maxF B)) 255
    if ce < mx ∧ flt (chanToVec B ce) v = true then
      (if ce + 1 < U8 then some (ce + 1) else none)
    else if 0 < ce ∧ flt v (chanToVec B (ce - 1)) = true then some (ce - 1)
    else some ce
  else none

/-- `Rgb::<B>::new` / `Rgba::<B>::new` / `Alpha::<B>::new`: `debug_assert!(x <= Self::MAX)` per channel -/
def chanNew (B x : Nat) : Option Nat := if x ≤ 2 ^ B - 1 then some x else none

/-- `Alpha::<B>::round(v)`, one channel of `Rgb::<B>::round` / `Rgba::<B>::round` -/
def quantRound (B v : Nat) : Option Nat :=
  match channelRound B v with | some x => chanNew B x | none => none
def quantFloor (B v : Nat) : Option Nat :=
  match channelFloor B v with | some x => chanNew B x | none => none
def quantCeil (B v : Nat) : Option Nat :=
  match channelCeil B v with | some x => chanNew B x | none => none

/-! ### the flat-block paths, end to end (tied to the real encoders by the `T` cases of the C15 harness)

A 4×4 block whose 16 pixels are one colour takes a path that consists of modelled operations only: the glam
clamp, `(min + max) * 0.5`, the quantisers above and two integer → float conversions.  The driver prints the
bytes these definitions predict and check.py compares them with the bytes `dds::encode` writes: this ties the
constants, the operand order, the SSE2 `min`/`max` semantics on NaN and `-0.0`, and `s8::from_norm` to the code. -/

def three : Nat := 0x40400000
/-- `n8::f32` (src/color/formats.rs:270): `(x as f32 * 3.0) * (1.0 / (255.0 * 3.0))` -/
def n8F32 (x : Nat) : Nat := fmul (fmul (ofNat x) three) (fdiv one (fmul k255 three))
/-- `s8::uf32` after `s8::norm` (formats.rs:354): `(n as f32 * 31.0) * (1.0 / (254.0 * 31.0))`;
`s8::norm(s8::from_norm(n)) = n` for `n ≤ 254` -/
def s8Uf32Norm (n : Nat) : Nat := fmul (fmul (ofNat n) k31) (fdiv one (fmul k254 k31))
/-- `BC4_EPSILON = 1. / 65536.` -/
def eps16 : Nat := 0x37800000

/-- `compress_bc4_block` (quality below Unreasonable) on a block of 16 equal values `x`: `from_raw` clamps,
`min = max`, `diff = max - min = 0.0 < BC4_EPSILON`, `single_color((min + max) * 0.5)`; if
`(closest.c0_f - value).abs() < BC4_EPSILON` the block is `[c0, c1, 0, 0, 0, 0, 0, 0]` (`some (some …)`), otherwise the
palette search decides (`some none`: no prediction); `none` = a panic of the checked profile -/
def bc4Flat (snorm : Bool) (x : Nat) : Option (Option (List Nat)) :=
  let v := sseClamp01 x
  let value := singleValue v v
  match newClosest snorm value with
  | none => none
  | some (c0, c1) =>
    let c0f := if snorm then s8Uf32Norm (toNatSat (fadd (fmul k254 value) half) 255) else n8F32 c0
    if flt (fabs (fsub c0f value)) eps16 then some (some [c0, c1, 0, 0, 0, 0, 0, 0]) else some none

/-- the same block when the early return is not taken: `single_color` goes on with
`EndPoints::new_inter6(value, value, snorm)` (bc4.rs:172) and emits these endpoints, in this order or swapped
(`inter6_to_inter4`), with indexes chosen by the float error comparison: the unordered pair of the first two bytes is
predicted (`min = max`, so the rounded codes are equal and the second stage of `endsNorm` always runs) -/
def bc4FlatSearch (snorm : Bool) (x : Nat) : Option (Nat × Nat) :=
  let v := sseClamp01 x
  newInter6 false false snorm (singleValue v v) (singleValue v v)

/-- `compress_bc1_block` (opaque, quality ≤ Normal: P4 only) on a block of 16 equal colours: glam clamp,
`get_single_color` = `(min + max) * 0.5`, `compress_single_color`: if `R5G6B5Color::floor(color) ==
R5G6B5Color::ceil(color)` the endpoints are `new_p4(BLACK, max)`: bytes `c0.to_u16()`, `c1.to_u16()` little endian =
`[lo, hi, 0, 0]`, and `[1, 0, 0, 0]` for black (`c0.b = 1`); otherwise the candidate search decides -/
def bc1Flat (r g b : Nat) : Option (Option (List Nat)) :=
  let x := sseClamp01 r
  let y := sseClamp01 g
  let z := sseClamp01 b
  match r5g6b5Floor true (singleValue x x) (singleValue y y) (singleValue z z),
        r5g6b5Ceil true (singleValue x x) (singleValue y y) (singleValue z z) with
  | some lo, some hi =>
    if lo = hi then
      let u := (hi.1 <<< 11) ||| (hi.2.1 <<< 5) ||| hi.2.2
      if u = 0 then some (some [1, 0, 0, 0]) else some (some [u % 256, u / 256, 0, 0])
    else some none
  | _, _ => none

end Dds.EncBcSites
