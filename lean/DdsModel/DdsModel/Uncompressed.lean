/-
Per-format wiring of the 45 non-block-compressed formats (35 uncompressed, 7 sub-sampled,
3 bi-planar) and the decoding of whole surfaces.

* `formats` is the *pinned* table: one record per format with the byte size of an encoded unit, the
  bit fields (component, owning pixel, bit offset, width, kind), the colour model, the native
  channels and the default of an absent blue channel.  It is written from the DXGI / Microsoft
  format descriptions (little-endian unit, components named from the least significant bit up),
  not from the Rust closures; the tie (exhaustive per field) compares it with
  `src/decode/uncompressed.rs`, `sub_sampled.rs`, `bi_planar.rs`.
* `decodePx` interprets a record: field extraction, scalar conversion (`Conv.lean`), defaults.
* `process2x1`, `process8x1`, `biPlanarRow`, `biPlanarRows` are implementation-shaped models of
  `process_2x1_blocks_helper`, `process_8x1_blocks_helper` (via `general_process_blocks`),
  `process_bi_planar_helper` and the plane-2 loop of `for_each_bi_planar`
  (`src/decode/read_write.rs`), for a full-surface decode (`width_offset = 0`).
* `specPixel` is the specification-shaped addressing: pixel `(x, y)` is pixel `x % n` of unit
  `x / n` of its row, resp. luma `(x, y)` with chroma `(x / 2, y / 2)`.
-/
import DdsModel.Conv
namespace Dds.Unc
open Dds.Conv Dds.CF32

inductive Comp | R | G | B | A | Y | U | V | E
  deriving DecidableEq, Repr

inductive Kind | unorm | snorm | half | f11 | f10 | f32 | xr | mant | exp | yuv
  deriving DecidableEq, Repr

structure Field where
  comp : Comp
  /-- pixel of the unit that owns the field; `none`: shared by all pixels of the unit -/
  px : Option Nat
  off : Nat
  width : Nat
  kind : Kind
  deriving DecidableEq, Repr

inductive Channels | gray | alpha | rgb | rgba
  deriving DecidableEq, Repr

inductive Color | direct | yuv (bits : Nat) | sharedExp
  deriving DecidableEq, Repr

inductive Default | zero | half | one
  deriving DecidableEq, Repr

structure Fmt where
  name : String
  /-- bytes of one encoded unit: a pixel, a 2×1 / 8×1 block, or (bi-planar) plane-1 element
  followed by plane-2 element -/
  unitBytes : Nat
  pxPerUnit : Nat
  fields : List Field
  color : Color
  native : Channels
  /-- value of the blue channel when the format has none -/
  blue : Default := .zero
  /-- bi-planar: bytes of a plane-1 element and of a plane-2 element (2×2 sub-sampling) -/
  planar : Option (Nat × Nat) := none

def fu (c : Comp) (off w : Nat) : Field := ⟨c, none, off, w, .unorm⟩
def fk (k : Kind) (c : Comp) (off w : Nat) : Field := ⟨c, none, off, w, k⟩
def fy (c : Comp) (px : Option Nat) (off w : Nat) : Field := ⟨c, px, off, w, .yuv⟩
open Comp in
def formats : List Fmt := [
  -- uncompressed
  { name := "R8G8B8_UNORM", unitBytes := 3, pxPerUnit := 1, color := .direct, native := .rgb,
    fields := [fu R 0 8, fu G 8 8, fu B 16 8] },
  { name := "B8G8R8_UNORM", unitBytes := 3, pxPerUnit := 1, color := .direct, native := .rgb,
    fields := [fu B 0 8, fu G 8 8, fu R 16 8] },
  { name := "R8G8B8A8_UNORM", unitBytes := 4, pxPerUnit := 1, color := .direct, native := .rgba,
    fields := [fu R 0 8, fu G 8 8, fu B 16 8, fu A 24 8] },
  { name := "R8G8B8A8_SNORM", unitBytes := 4, pxPerUnit := 1, color := .direct, native := .rgba,
    fields := [fk .snorm R 0 8, fk .snorm G 8 8, fk .snorm B 16 8, fk .snorm A 24 8] },
  { name := "B8G8R8A8_UNORM", unitBytes := 4, pxPerUnit := 1, color := .direct, native := .rgba,
    fields := [fu B 0 8, fu G 8 8, fu R 16 8, fu A 24 8] },
  { name := "B8G8R8X8_UNORM", unitBytes := 4, pxPerUnit := 1, color := .direct, native := .rgb,
    fields := [fu B 0 8, fu G 8 8, fu R 16 8] },
  { name := "B5G6R5_UNORM", unitBytes := 2, pxPerUnit := 1, color := .direct, native := .rgb,
    fields := [fu B 0 5, fu G 5 6, fu R 11 5] },
  { name := "B5G5R5A1_UNORM", unitBytes := 2, pxPerUnit := 1, color := .direct, native := .rgba,
    fields := [fu B 0 5, fu G 5 5, fu R 10 5, fu A 15 1] },
  { name := "B4G4R4A4_UNORM", unitBytes := 2, pxPerUnit := 1, color := .direct, native := .rgba,
    fields := [fu B 0 4, fu G 4 4, fu R 8 4, fu A 12 4] },
  { name := "A4B4G4R4_UNORM", unitBytes := 2, pxPerUnit := 1, color := .direct, native := .rgba,
    fields := [fu A 0 4, fu B 4 4, fu G 8 4, fu R 12 4] },
  { name := "R8_SNORM", unitBytes := 1, pxPerUnit := 1, color := .direct, native := .gray,
    fields := [fk .snorm R 0 8] },
  { name := "R8_UNORM", unitBytes := 1, pxPerUnit := 1, color := .direct, native := .gray,
    fields := [fu R 0 8] },
  { name := "R8G8_UNORM", unitBytes := 2, pxPerUnit := 1, color := .direct, native := .rgb,
    fields := [fu R 0 8, fu G 8 8] },
  { name := "R8G8_SNORM", unitBytes := 2, pxPerUnit := 1, color := .direct, native := .rgb,
    blue := .half, fields := [fk .snorm R 0 8, fk .snorm G 8 8] },
  { name := "A8_UNORM", unitBytes := 1, pxPerUnit := 1, color := .direct, native := .alpha,
    fields := [fu A 0 8] },
  { name := "R16_UNORM", unitBytes := 2, pxPerUnit := 1, color := .direct, native := .gray,
    fields := [fu R 0 16] },
  { name := "R16_SNORM", unitBytes := 2, pxPerUnit := 1, color := .direct, native := .gray,
    fields := [fk .snorm R 0 16] },
  { name := "R16G16_UNORM", unitBytes := 4, pxPerUnit := 1, color := .direct, native := .rgb,
    fields := [fu R 0 16, fu G 16 16] },
  { name := "R16G16_SNORM", unitBytes := 4, pxPerUnit := 1, color := .direct, native := .rgb,
    blue := .half, fields := [fk .snorm R 0 16, fk .snorm G 16 16] },
  { name := "R16G16B16A16_UNORM", unitBytes := 8, pxPerUnit := 1, color := .direct, native := .rgba,
    fields := [fu R 0 16, fu G 16 16, fu B 32 16, fu A 48 16] },
  { name := "R16G16B16A16_SNORM", unitBytes := 8, pxPerUnit := 1, color := .direct, native := .rgba,
    fields := [fk .snorm R 0 16, fk .snorm G 16 16, fk .snorm B 32 16, fk .snorm A 48 16] },
  { name := "R10G10B10A2_UNORM", unitBytes := 4, pxPerUnit := 1, color := .direct, native := .rgba,
    fields := [fu R 0 10, fu G 10 10, fu B 20 10, fu A 30 2] },
  { name := "R11G11B10_FLOAT", unitBytes := 4, pxPerUnit := 1, color := .direct, native := .rgb,
    fields := [fk .f11 R 0 11, fk .f11 G 11 11, fk .f10 B 22 10] },
  { name := "R9G9B9E5_SHAREDEXP", unitBytes := 4, pxPerUnit := 1, color := .sharedExp, native := .rgb,
    fields := [fk .mant R 0 9, fk .mant G 9 9, fk .mant B 18 9, fk .exp E 27 5] },
  { name := "R16_FLOAT", unitBytes := 2, pxPerUnit := 1, color := .direct, native := .gray,
    fields := [fk .half R 0 16] },
  { name := "R16G16_FLOAT", unitBytes := 4, pxPerUnit := 1, color := .direct, native := .rgb,
    fields := [fk .half R 0 16, fk .half G 16 16] },
  { name := "R16G16B16A16_FLOAT", unitBytes := 8, pxPerUnit := 1, color := .direct, native := .rgba,
    fields := [fk .half R 0 16, fk .half G 16 16, fk .half B 32 16, fk .half A 48 16] },
  { name := "R32_FLOAT", unitBytes := 4, pxPerUnit := 1, color := .direct, native := .gray,
    fields := [fk .f32 R 0 32] },
  { name := "R32G32_FLOAT", unitBytes := 8, pxPerUnit := 1, color := .direct, native := .rgb,
    fields := [fk .f32 R 0 32, fk .f32 G 32 32] },
  { name := "R32G32B32_FLOAT", unitBytes := 12, pxPerUnit := 1, color := .direct, native := .rgb,
    fields := [fk .f32 R 0 32, fk .f32 G 32 32, fk .f32 B 64 32] },
  { name := "R32G32B32A32_FLOAT", unitBytes := 16, pxPerUnit := 1, color := .direct, native := .rgba,
    fields := [fk .f32 R 0 32, fk .f32 G 32 32, fk .f32 B 64 32, fk .f32 A 96 32] },
  { name := "R10G10B10_XR_BIAS_A2_UNORM", unitBytes := 4, pxPerUnit := 1, color := .direct,
    native := .rgba, fields := [fk .xr R 0 10, fk .xr G 10 10, fk .xr B 20 10, fu A 30 2] },
  { name := "AYUV", unitBytes := 4, pxPerUnit := 1, color := .yuv 8, native := .rgba,
    fields := [fy V none 0 8, fy U none 8 8, fy Y none 16 8, fu A 24 8] },
  { name := "Y410", unitBytes := 4, pxPerUnit := 1, color := .yuv 10, native := .rgba,
    fields := [fy U none 0 10, fy Y none 10 10, fy V none 20 10, fu A 30 2] },
  { name := "Y416", unitBytes := 8, pxPerUnit := 1, color := .yuv 16, native := .rgba,
    fields := [fy U none 0 16, fy Y none 16 16, fy V none 32 16, fu A 48 16] },
  -- sub-sampled
  { name := "R1_UNORM", unitBytes := 1, pxPerUnit := 8, color := .direct, native := .gray,
    fields := (List.range 8).map fun i => ⟨R, some i, 7 - i, 1, .unorm⟩ },
  { name := "R8G8_B8G8_UNORM", unitBytes := 4, pxPerUnit := 2, color := .direct, native := .rgb,
    fields := [fu R 0 8, ⟨G, some 0, 8, 8, .unorm⟩, fu B 16 8, ⟨G, some 1, 24, 8, .unorm⟩] },
  { name := "G8R8_G8B8_UNORM", unitBytes := 4, pxPerUnit := 2, color := .direct, native := .rgb,
    fields := [⟨G, some 0, 0, 8, .unorm⟩, fu R 8 8, ⟨G, some 1, 16, 8, .unorm⟩, fu B 24 8] },
  { name := "UYVY", unitBytes := 4, pxPerUnit := 2, color := .yuv 8, native := .rgb,
    fields := [fy U none 0 8, fy Y (some 0) 8 8, fy V none 16 8, fy Y (some 1) 24 8] },
  { name := "YUY2", unitBytes := 4, pxPerUnit := 2, color := .yuv 8, native := .rgb,
    fields := [fy Y (some 0) 0 8, fy U none 8 8, fy Y (some 1) 16 8, fy V none 24 8] },
  { name := "Y210", unitBytes := 8, pxPerUnit := 2, color := .yuv 10, native := .rgb,
    fields := [fy Y (some 0) 6 10, fy U none 22 10, fy Y (some 1) 38 10, fy V none 54 10] },
  { name := "Y216", unitBytes := 8, pxPerUnit := 2, color := .yuv 16, native := .rgb,
    fields := [fy Y (some 0) 0 16, fy U none 16 16, fy Y (some 1) 32 16, fy V none 48 16] },
  -- bi-planar (unit = luma element ++ chroma element)
  { name := "NV12", unitBytes := 3, pxPerUnit := 1, color := .yuv 8, native := .rgb,
    planar := some (1, 2), fields := [fy Y none 0 8, fy U none 8 8, fy V none 16 8] },
  { name := "P010", unitBytes := 6, pxPerUnit := 1, color := .yuv 10, native := .rgb,
    planar := some (2, 4), fields := [fy Y none 6 10, fy U none 22 10, fy V none 38 10] },
  { name := "P016", unitBytes := 6, pxPerUnit := 1, color := .yuv 16, native := .rgb,
    planar := some (2, 4), fields := [fy Y none 0 16, fy U none 16 16, fy V none 32 16] }
]

def findFmt (name : String) : Option Fmt := formats.find? (·.name == name)

/-! ### one pixel -/

def fieldVal (word : Nat) (f : Field) : Nat := (word >>> f.off) % 2 ^ f.width

def findField (fm : Fmt) (c : Comp) (p : Nat) : Option Field :=
  fm.fields.find? fun f => f.comp == c && (f.px == none || f.px == some p)

/-- value of a default at precision `prec` (0 = U8, 1 = U16, 2 = F32): `Norm::ZERO/HALF/ONE` -/
def defaultVal (d : Default) (prec : Nat) : Nat :=
  match d with
  | .zero => 0
  | .half => if prec == 0 then 128 else if prec == 1 then 32768 else CF32.half
  | .one => if prec == 0 then 255 else if prec == 1 then 65535 else CF32.one

/-- UNORM field of `w` bits to the precision -/
def unormTo (w prec v : Nat) : Nat :=
  match w, prec with
  | 1, 0 => n1n8 v | 1, 1 => n1n16 v | 1, _ => n1f32 v
  | 2, 0 => n2n8 v | 2, 1 => n2n16 v | 2, _ => n2f32 v
  | 4, 0 => n4n8 v | 4, 1 => n4n16 v | 4, _ => n4f32 v
  | 5, 0 => n5n8 v | 5, 1 => n5n16 v | 5, _ => n5f32 v
  | 6, 0 => n6n8 v | 6, 1 => n6n16 v | 6, _ => n6f32 v
  | 8, 0 => v | 8, 1 => n8n16 v | 8, _ => n8f32 v
  | 10, 0 => n10n8 v | 10, 1 => n10n16 v | 10, _ => n10f32 v
  | 16, 0 => n16n8 v | 16, 1 => v | 16, _ => n16f32 v
  | _, _ => 0

def convField (k : Kind) (w prec v : Nat) : Nat :=
  match k with
  | .unorm => unormTo w prec v
  | .snorm =>
    if w == 8 then (if prec == 0 then s8n8 v else if prec == 1 then s8n16 v else s8f32 v)
    else (if prec == 0 then s16n8 v else if prec == 1 then s16n16 v else s16f32 v)
  | .half => if prec == 0 then smallN8 10 true v else if prec == 1 then smallN16 10 true v
      else smallF32 10 true v
  | .f11 => if prec == 0 then smallN8 6 false v else if prec == 1 then smallN16 6 false v
      else smallF32 6 false v
  | .f10 => if prec == 0 then smallN8 5 false v else if prec == 1 then smallN16 5 false v
      else smallF32 5 false v
  | .f32 => if prec == 0 then fpn8 v else if prec == 1 then fpn16 v else v
  | .xr => if prec == 0 then xr10n8 v else if prec == 1 then xr10n16 v else xr10f32 v
  | .mant | .exp | .yuv => v

def compOf (fm : Fmt) (word p : Nat) (c : Comp) : Option Nat :=
  (findField fm c p).map (fieldVal word)

def chanComps : Channels → List Comp
  | .gray => [.R] | .alpha => [.A] | .rgb => [.R, .G, .B] | .rgba => [.R, .G, .B, .A]

def compDefault (fm : Fmt) : Comp → Default
  | .B => fm.blue
  | .A => .one
  | _ => .zero

/-- pixel `p` of the unit `word`, in the native channel order of the format -/
def decodePx (fm : Fmt) (prec word p : Nat) : List Nat :=
  let direct (c : Comp) : Nat :=
    match findField fm c p with
    | some f => convField f.kind f.width prec (fieldVal word f)
    | none => defaultVal (compDefault fm c) prec
  match fm.color with
  | .direct => (chanComps fm.native).map direct
  | .yuv bits =>
    let g c := (compOf fm word p c).getD 0
    yuvTo bits prec (g .Y) (g .U) (g .V) ++ (if fm.native == .rgba then [direct .A] else [])
  | .sharedExp =>
    let g c := (compOf fm word p c).getD 0
    [Comp.R, .G, .B].map fun c =>
      if prec == 0 then sharedN8 (g .E) (g c) else if prec == 1 then sharedN16 (g .E) (g c)
      else sharedF32 (g .E) (g c)

/-- `convert_channels` (`src/color/mod.rs`, `ch.rs`) on one pixel -/
def convertChannels (src dst : Channels) (prec : Nat) (v : List Nat) : List Nat :=
  let z0 := defaultVal .zero prec
  let one := defaultVal .one prec
  let at' i := v.getD i 0
  match src, dst with
  | .gray, .gray | .alpha, .alpha | .rgb, .rgb | .rgba, .rgba => v
  | .gray, .alpha | .rgb, .alpha => [one]
  | .alpha, .gray => [z0]
  | .alpha, .rgb => [z0, z0, z0]
  | .gray, .rgb => [at' 0, at' 0, at' 0]
  | .gray, .rgba => [at' 0, at' 0, at' 0, one]
  | .alpha, .rgba => [z0, z0, z0, at' 0]
  | .rgb, .gray | .rgba, .gray => [at' 0]
  | .rgb, .rgba => [at' 0, at' 1, at' 2, one]
  | .rgba, .alpha => [at' 3]
  | .rgba, .rgb => [at' 0, at' 1, at' 2]

/-! ### rows: implementation shape -/

/-- the first `n` full pairs: the `zip` loop of `process_2x1_blocks_helper` -/
def pairs {α} (g : Nat → α × α) : Nat → List α
  | 0 => []
  | n + 1 => pairs g n ++ [(g n).1, (g n).2]

/-- `process_2x1_blocks_helper` with `width_offset = 0`: `width / 2` full pairs, then, for an odd
width, the first pixel of the *last* block (`encoded_blocks.last()`, index `⌈width/2⌉ - 1`) -/
def process2x1 {α} (g : Nat → α × α) (width : Nat) : List α :=
  pairs g (width / 2) ++ (if width % 2 == 1 then [(g ((width + 1) / 2 - 1)).1] else [])

/-- `general_process_blocks::<8, 1, ..>` with `width_offset = 0`, one row:
block `i` contributes its first `min 8 (width - 8 i)` pixels -/
def blocks8 {α} (g : Nat → List α) (width : Nat) : Nat → List α
  | 0 => []
  | n + 1 => blocks8 g width n ++ (g n).take (min 8 (width - 8 * n))

def process8x1 {α} (g : Nat → List α) (width : Nat) : List α :=
  blocks8 g width ((width + 7) / 8)

/-- `process_bi_planar_helper` with `range.offset = 0`: `width / 2` full macro pixels, then a rest
of one luma sample (the second is `Plane1::default()` and its output is dropped) paired with chroma
sample `full` -/
def biPlanarRow {α} (f : Nat → Nat → α) (luma chroma : Nat → Nat) (width : Nat) : List α :=
  pairs (fun i => (f (luma (2 * i)) (chroma i), f (luma (2 * i + 1)) (chroma i))) (width / 2) ++
    (if width - (width / 2) * 2 > 0 then [f (luma ((width / 2) * 2)) (chroma (width / 2))] else [])

/-- the plane-2 loop of `for_each_bi_planar`: for every chroma line, up to two luma rows
(`if y >= height { break }`), `y` counting up.  State: rows produced so far (their count is `y`). -/
def biPlanarRows {α} (row : Nat → Nat → α) (height : Nat) (uvLines : Nat) : List α :=
  (List.range uvLines).foldl (fun acc uv =>
    let acc := if acc.length < height then acc ++ [row acc.length uv] else acc
    if acc.length < height then acc ++ [row acc.length uv] else acc) []

/-! ### surfaces -/

/-- the encoded surface as a function from unit index to unit value (for bi-planar formats two
functions: plane-1 element index, plane-2 element index) -/
structure Surface where
  w : Nat
  h : Nat
  unit : Nat → Nat
  unit2 : Nat → Nat := fun _ => 0

def pair2 (l : List (List Nat)) : List Nat × List Nat := (l.getD 0 [], l.getD 1 [])

/-- implementation-shaped full decode; one list of channel values per pixel, row-major -/
def decodeSurface (fm : Fmt) (prec : Nat) (s : Surface) : List (List Nat) :=
  match fm.planar with
  | some (p1, _) =>
    let cw := (s.w + 1) / 2
    let px (l c : Nat) := decodePx fm prec (l + c <<< (8 * p1)) 0
    (biPlanarRows (fun y uv =>
        biPlanarRow px (fun x => s.unit (y * s.w + x)) (fun x => s.unit2 (uv * cw + x)) s.w)
      s.h ((s.h + 1) / 2)).flatten
  | none =>
    if fm.pxPerUnit == 1 then
      (List.range (s.w * s.h)).map fun i => decodePx fm prec (s.unit i) 0
    else if fm.pxPerUnit == 2 then
      let bw := (s.w + 1) / 2
      ((List.range s.h).map fun y =>
        process2x1 (fun i => let u := s.unit (y * bw + i); (decodePx fm prec u 0, decodePx fm prec u 1))
          s.w).flatten
    else
      let bw := (s.w + 7) / 8
      ((List.range s.h).map fun y =>
        process8x1 (fun i => (List.range 8).map (decodePx fm prec (s.unit (y * bw + i)))) s.w).flatten

/-- specification-shaped addressing: the value of pixel `(x, y)` -/
def specPixel (fm : Fmt) (prec : Nat) (s : Surface) (x y : Nat) : List Nat :=
  match fm.planar with
  | some (p1, _) =>
    decodePx fm prec (s.unit (y * s.w + x) + s.unit2 ((y / 2) * ((s.w + 1) / 2) + x / 2) <<< (8 * p1)) 0
  | none =>
    let n := fm.pxPerUnit
    decodePx fm prec (s.unit (y * ((s.w + n - 1) / n) + x / n)) (x % n)

end Dds.Unc
