/-
C12: the binary32 UNORM / SNORM8 quantisers of src/color/formats.rs ON BIT PATTERNS, operator by operator on the
software binary32 of `ConvF32.lean`.

`n2, n4, n5, n6, n10::from_f32` (`(x.min(1.0) * MAX + 0.5) as uN`) and `s8::from_uf32` are the definitions of
`EncTotal.QuantBits` (shared with C15); `n8::from_f32` and `n16::from_f32` (`(x * MAX + 0.5) as uN`, the saturating
cast doing the clamp) are added here.  `field` is the dispatcher used by the driver (`q32` case lines).
Model files import only core and other model files.
-/
import DdsModel.EncTotal
namespace Dds.QuantF32
open Dds.CF32 Dds.EncTotal

/-- the literals `255.0`, `65535.0` -/
def k255 : Nat := 0x437F0000
def k65535 : Nat := 0x477FFF00

/-- `n8::from_f32`: `(x * 255.0 + 0.5) as u8` -/
def n8 (x : Nat) : Nat := toNatSat (fadd (fmul x k255) half) 255
/-- `n16::from_f32`: `(x * 65535.0 + 0.5) as u16` -/
def n16 (x : Nat) : Nat := toNatSat (fadd (fmul x k65535) half) 65535

/-- the "norm" value `0 … 254` of `s8::from_uf32` (before `from_norm`) -/
def s8norm (x : Nat) : Nat := QuantBits.unorm QuantBits.k254 255 x

/-- quantiser by name on a binary32 bit pattern: the stored field value (`s8`: the stored byte) -/
def field (name : String) (x : Nat) : Option Nat :=
  match name with
  | "n2" => some (QuantBits.n2 x)
  | "n4" => some (QuantBits.n4 x)
  | "n5" => some (QuantBits.n5 x)
  | "n6" => some (QuantBits.n6 x)
  | "n8" => some (n8 x)
  | "n10" => some (QuantBits.n10 x)
  | "n16" => some (n16 x)
  | "s8" => QuantBits.s8 x
  | _ => none

end Dds.QuantF32
