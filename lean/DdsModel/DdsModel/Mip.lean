/-
Model of automatic mipmap generation.

* src/encoder.rs `Encoder::write_surface_impl`: the look-ahead gather of the mipmap sizes
  (`gatherSizes`), `MipmapCache::generate` (`selectStrategy`), `generate_from_source`,
  `generate_from_previous`, `generate_from_previous_two` as index bookkeeping (`plan`: from which
  earlier image every level is resized; image 0 is the source, image k the k-th generated level).
* src/resize.rs `resize_into`: the plain path (`Pixel<[T; N]>`: every channel on its own,
  `(acc + 0.5) as T`) and the straight-alpha path (`StraightAlpha<[T; 4]>`: premultiply,
  resize, divide by the resized alpha, with each precision's zero-alpha rule).

The external `resize` crate is a PARAMETER of the model (`Kernel`): for a filter and a pair of
sizes it yields, per output pixel, a list of taps (source pixel index, weight); the output
accumulator is `Σ wᵢ·xᵢ`. Assumed (trusted base, §4 of DESIGN.md): the taps address pixels of the
source and the weights sum to one (`Kernel.Normalised`); for Point/Box/Triangle they are also
non-negative (`Kernel.Convex`). Arithmetic is exact (`Rat`): binary32 rounding inside the
resizer is not modelled. `Aligner::align` only copies the pixel values into an aligned
contiguous buffer; in the model an image IS its pixel values, so alignment and row pitch do not
exist (the tie checks that they do not matter).
-/
import DdsModel.Encoder
namespace Dds
namespace Mip

/-- `ResizeFilter` -/
inductive Filter where
  | nearest | box | triangle | mitchell | lanczos3
deriving DecidableEq, Repr, Inhabited

/-- the three branches of `MipmapCache::generate` -/
inductive Strategy where
  | fromSource | fromPrevious | fromPreviousTwo
deriving DecidableEq, Repr, Inhabited

abbrev Sz := Nat × Nat

/-- `u32::is_power_of_two` (exactly one bit set) -/
def isPow2 (n : Nat) : Bool := n != 0 && 2 ^ n.log2 == n

/-- the look-ahead loop of `write_surface_impl`:
`while let Some(m) = lookahead.current() { if !m.is_mipmap() { break }; sizes.push(m.size()); lookahead.advance() }`.
`none` = panic inside the iterator; the fuel (255 ≥ number of levels) is never exhausted
(`C16.levels_and_sizes`). -/
def gatherSizes : Nat → SurfIter → Option (List Sz)
  | 0, _ => some []
  | fuel + 1, it =>
    match it.currentP with
    | none => none
    | some none => some []
    | some (some s) =>
      if s.level = 0 then some []
      else
        match it.advanceP with
        | none => none
        | some it' => (gatherSizes fuel it').map ((s.w, s.h) :: ·)

/-- `sizes.iter().chain(&[image.size]).all(|s| s.width.is_power_of_two() && s.height.is_power_of_two())` -/
def allPow2 (src : Sz) (sizes : List Sz) : Bool :=
  (sizes ++ [src]).all fun s => isPow2 s.1 && isPow2 s.2

/-- the decision in `MipmapCache::generate` -/
def selectStrategy (f : Filter) (src : Sz) (sizes : List Sz) : Strategy :=
  if f = .nearest then .fromSource
  else if allPow2 src sizes then
    if f = .box then .fromPrevious else .fromPreviousTwo
  else .fromSource

/-- `generate_from_source`: every level from image 0 -/
def planSource (sizes : List Sz) : List (Sz × Nat) := sizes.map fun s => (s, 0)

/-- the `for` loops of `generate_from_previous{,_two}`: the image resized next is number `from`,
and the variable holding it is replaced by the image generated one step later -/
def planLoop : List Sz → Nat → List (Sz × Nat)
  | [], _ => []
  | s :: rest, src => (s, src) :: planLoop rest (src + 1)

/-- `generate_from_previous`; `none` = panic of `sizes[0]` -/
def planPrevious : List Sz → Option (List (Sz × Nat))
  | [] => none
  | s0 :: rest => some ((s0, 0) :: planLoop rest 1)

/-- `generate_from_previous_two`; `none` = panic of `sizes[0]` -/
def planPreviousTwo : List Sz → Option (List (Sz × Nat))
  | [] => none
  | [s0] => some [(s0, 0)]
  | s0 :: s1 :: rest => some ((s0, 0) :: (s1, 0) :: planLoop rest 1)

/-- `MipmapCache::generate` as bookkeeping: the emitted levels in order, each with its size and
the number of the image it is resized from -/
def plan (f : Filter) (src : Sz) (sizes : List Sz) : Option (List (Sz × Nat)) :=
  match selectStrategy f src sizes with
  | .fromSource => some (planSource sizes)
  | .fromPrevious => planPrevious sizes
  | .fromPreviousTwo => planPreviousTwo sizes

/-! ### pixel values -/

/-- `Precision` -/
inductive Prec where
  | u8 | u16 | f32
deriving DecidableEq, Repr, Inhabited

/-- the value of "fully opaque" -/
def Prec.maxVal : Prec → Rat
  | .u8 => 255
  | .u16 => 65535
  | .f32 => 1

/-- Rust `x as uN` for a float `x`: truncate toward zero, saturate -/
def castSat (m : Nat) (v : Rat) : Rat := ((min m v.floor.toNat : Nat) : Rat)

/-- `IntoAccumulator::to_value` for one channel: `(acc + 0.5) as u8|u16`, the accumulator itself
for `f32` -/
def Prec.quant : Prec → Rat → Rat
  | .u8, v => castSat 255 (v + 1 / 2)
  | .u16, v => castSat 65535 (v + 1 / 2)
  | .f32, v => v

/-- one channel of an image, row-major -/
abbrev Plane := List Rat

structure Img where
  w : Nat
  h : Nat
  planes : List Plane
deriving Repr, Inhabited

abbrev Taps := List (Nat × Rat)

/-- the accumulator of one output pixel: `Σ wᵢ · x(i)` -/
def dot (t : Taps) (x : Nat → Rat) : Rat := (t.map fun iw => iw.2 * x iw.1).sum

def Plane.at (p : Plane) (i : Nat) : Rat := p.getD i 0

/-- the `resize` crate: taps of every output pixel (row-major) for a filter, a source size and a
destination size -/
structure Kernel where
  taps : Filter → (sw sh dw dh : Nat) → List Taps

def Taps.InRange (t : Taps) (n : Nat) : Prop := ∀ iw ∈ t, iw.1 < n
def Taps.sumW (t : Taps) : Rat := (t.map (·.2)).sum
def Taps.NonNeg (t : Taps) : Prop := ∀ iw ∈ t, 0 ≤ iw.2

/-- ASSUMPTION about every filter of the `resize` crate: one tap list per output pixel, taps
address source pixels, weights sum to one -/
def Kernel.Normalised (K : Kernel) (f : Filter) : Prop :=
  ∀ sw sh dw dh, (K.taps f sw sh dw dh).length = dw * dh ∧
    ∀ t ∈ K.taps f sw sh dw dh, t.InRange (sw * sh) ∧ t.sumW = 1

/-- ASSUMPTION about Point, Box and Triangle: additionally no negative weight -/
def Kernel.Convex (K : Kernel) (f : Filter) : Prop :=
  K.Normalised f ∧ ∀ sw sh dw dh, ∀ t ∈ K.taps f sw sh dw dh, t.NonNeg

/-- `resize_typed::<Pixel<[T; N]>>` restricted to one channel -/
def resizePlane (p : Prec) (ts : List Taps) (pl : Plane) : Plane :=
  ts.map fun t => p.quant (dot t pl.at)

/-- colour sample of `IntoStraightAlphaAccumulator::to_value`: `accC` = accumulated
premultiplied colour, `accA` = accumulated alpha -/
def saColour (p : Prec) (accC accA : Rat) : Rat :=
  match p with
  | .u8 => p.quant (accC * (if accA < 1 / 2 / 255 then 0 else 1 / accA))
  | .u16 => if p.quant accA = 0 then 0 else p.quant (accC * (1 / accA))
  | .f32 => if accA ≤ 0 then 0 else accC * (1 / accA)

/-- alpha sample of `IntoStraightAlphaAccumulator::to_value` -/
def saAlpha (p : Prec) (accA : Rat) : Rat :=
  match p with
  | .u8 => p.quant accA
  | .u16 => p.quant accA
  | .f32 => if accA ≤ 0 then 0 else accA

/-- `resize_typed::<StraightAlpha<[T; 4]>>`, one colour channel -/
def resizeColourSA (p : Prec) (ts : List Taps) (c a : Plane) : Plane :=
  ts.map fun t => saColour p (dot t fun i => c.at i * a.at i) (dot t a.at)

def resizeAlphaSA (p : Prec) (ts : List Taps) (a : Plane) : Plane :=
  ts.map fun t => saAlpha p (dot t a.at)

/-- `resize_into`: the straight-alpha path is taken iff the option is set and the colour format
is RGBA -/
def resizeImg (K : Kernel) (f : Filter) (p : Prec) (sa : Bool) (src : Img) (s : Sz) : Img :=
  let ts := K.taps f src.w src.h s.1 s.2
  match sa, src.planes with
  | true, [r, g, b, a] =>
    ⟨s.1, s.2, [resizeColourSA p ts r a, resizeColourSA p ts g a, resizeColourSA p ts b a,
                resizeAlphaSA p ts a]⟩
  | _, pls => ⟨s.1, s.2, pls.map (resizePlane p ts)⟩

/-- execute a plan: `acc` = levels generated so far; image number 0 is the source -/
def runPlan (R : Img → Sz → Img) (src : Img) : List (Sz × Nat) → List Img → List Img
  | [], acc => acc
  | (s, j) :: rest, acc => runPlan R src rest (acc ++ [R ((src :: acc).getD j src) s])

/-- `MipmapCache::generate`: the images handed to the callback, in order; `none` = panic -/
def generate (K : Kernel) (f : Filter) (p : Prec) (sa : Bool) (src : Img) (sizes : List Sz) :
    Option (List Img) :=
  (plan f (src.w, src.h) sizes).map fun pl => runPlan (resizeImg K f p sa) src pl []

/-! ### the mipmap part of `write_surface_impl` -/

/-- `get_maximum_mipmap_count` (`Header::with_mipmaps`) -/
def maxMipCount (n : Nat) : Nat := if n = 0 then 1 else n.log2 + 1

/-- What a generating `write_surface` call emits after the main surface: the state is the
encoder after `encode(main)` + `iter.advance()`. Result: sizes and source numbers of the levels
passed to `encode`, in order. `none` = panic. -/
def emitted (it : SurfIter) (f : Filter) (src : Sz) : Option (List (Sz × Nat)) :=
  match gatherSizes 255 it with
  | none => none
  | some sizes => plan f src sizes

end Mip
end Dds
