/-
Trapping mirror of the BC7 block decoder: `src/decode/bc7.rs` in full and the parts of
`src/decode/bcn_util.rs` (`BitStream`, `Indexes`) and `src/bcn_data.rs` (`get_subset_index`) it uses,
written with the trapping operators of `Trap.lean` over the definitions of `Bc7.lean`.

Panic sites mirrored (file:line of /repo/src):
* bcn_util.rs:19 `self.state >>= n` (`u128 >> u8`), :31 `debug_assert!(0 < count && count <= 8)`,
  :32 `1_u16 << count`, :39 `debug_assert!(0 < count && count <= 64)`, :84 `(1 << bits) - 1` (`u64`),
  :88/:91/:96 `16 * bits - k` (`u8`), :102/:111/:112/:122/:123 the `debug_assert!`s of `from_compressed_p*`,
  :136 `index * bits` (`u8`), :137 `(1 << keep_count) - 1`, :138 `>>= keep_count`, :139 `<<= 1`, :141 `first >> 1`,
  :142 `<<= keep_count`, :148 `debug_assert!(pixel_index < 16)`, :150 `pixel_index * self.bits`, `>>`
* bcn_data.rs:16/:74 `debug_assert!(pixel_index < 16)`, :75 `pixel_index as u32 * 2`
* bc7.rs:40/:78 `debug_assert!(MODE == …)`, :43/:81 `PARTITION_SET_n[partition_set_id as usize]`,
  :51/:89 `unreachable!()`, :104/:105 `endpoints[2 * subset_index as usize (+ 1)]`,
  :73/:114/:142/:164/:179 `output[pixel_index as usize]`, :186 `mode + 1`, :190 `debug_assert!(matches!(mode, …))`,
  :197 `debug_assert!((4..8).contains(&number_bits))`, :198 `number <<= 8 - number_bits`, :199 `number >> number_bits`,
  :215/:230/:249/:270–:281/… `r[i]`, `r[i0]`, `output[i]` in the endpoint loops, :242 `(r[i] << 1) | p`,
  :252/:325/:361 `unreachable!()`, :396/:397/:407/:411/:415 `WEIGHTS_n[index as usize]`, :398 `unreachable!()`,
  :400/:419/:435/:437 `256 - weight`, :402/:422–:425/:440–:443 `w0 * e0 as u16 + w1 * e1 as u16 + 128`, `>> 8`.
Not traps: `wrapping_sub`, `wrapping_shl`, `wrapping_shr`, `as u8`, `trailing_zeros`, `p.swap(0, 3)` and reads
`color0[k]` with literal `k`, array patterns `let [a, b, c, d] = …`.

`Theorems/C01.lean` (`bc7_body_trapfree`): `decodeBlockT b = some (Bc7.decodeBlock b)` for every block.
-/
import DdsModel.Trap
import DdsModel.Bc7
namespace Dds.TrapBc7
open Dds Dds.Trap Dds.Bc7 Dds.BcTables

/-! ### `BitStream` -/

/-- `BitStream::skip(n)` : `self.state >>= n` (`u128`, `n : u8`) -/
def skipT (n s : Nat) : Option Nat := shr 128 s n

/-- `BitStream::consume_bit` -/
def consumeBitT (s : Nat) : Option (Nat × Nat) := do
  let s' ← skipT 1 s
  pure ((s % U8) &&& 1, s')

/-- `BitStream::consume_bits(count)` -/
def consumeBitsT (count s : Nat) : Option (Nat × Nat) := do
  dbgP (0 < count ∧ count ≤ 8)
  let one ← shl 16 U16 1 count
  let mask := ((one + U16 - 1) % U16) % U8
  let s' ← skipT count s
  pure ((s % U8) &&& mask, s')

/-- `BitStream::consume_bits_64(count)`; the mask is built with `wrapping_shl` / `wrapping_sub` -/
def consumeBits64T (count s : Nat) : Option (Nat × Nat) := do
  dbgP (0 < count ∧ count ≤ 64)
  let s' ← skipT count s
  pure ((consumeBits64 count s).1, s')

/-- `[0_u8; k].map(|_| stream.consume_bits(count))` -/
def consumeNT : Nat → Nat → Nat → Option (List Nat × Nat)
  | 0, _, s => some ([], s)
  | k + 1, c, s => do
    let r ← consumeBitsT c s
    let rest ← consumeNT k c r.2
    pure (r.1 :: rest.1, rest.2)

/-- `k` successive `consume_bit` -/
def consumeBitsEachT : Nat → Nat → Option (List Nat × Nat)
  | 0, s => some ([], s)
  | k + 1, s => do
    let r ← consumeBitT s
    let rest ← consumeBitsEachT k r.2
    pure (r.1 :: rest.1, rest.2)

/-! ### `Indexes` -/

/-- `Indexes::get_mask` : `(1 << bits) - 1` in `u64` -/
def getMaskT (bits : Nat) : Option Nat := do
  let x ← shl 64 U64 1 bits
  subU x 1

/-- `Indexes::decompress_single_index` -/
def decompressSingleIndexT (bits compressed index : Nat) : Option Nat := do
  let mask ← getMaskT bits
  let keepCount ← ck 256 (index * bits)
  let one ← shl 64 U64 1 keepCount
  let km ← subU one 1
  let keep := compressed &&& km
  let c ← shr 64 compressed keepCount
  let c ← shl 64 U64 c 1
  let first := c &&& mask
  let f1 ← shr 64 first 1
  let c := (c &&& (U64 - 1 - mask)) ||| f1
  let c ← shl 64 U64 c keepCount
  pure (c ||| keep)

/-- `16 * bits - k` in `u8` -/
def countT (bits k : Nat) : Option Nat := do
  let m ← ck 256 (16 * bits)
  subU m k

/-- `Indexes::new_p1` + `from_compressed_p1` -/
def newP1T (bits s : Nat) : Option (Indexes × Nat) := do
  let cnt ← countT bits 1
  let r ← consumeBits64T cnt s
  dbgP (bits ≤ 4)
  let c ← decompressSingleIndexT bits r.1 0
  let mask ← getMaskT bits
  pure (⟨c, bits, mask⟩, r.2)
/-- `Indexes::new_p2` + `from_compressed_p2` -/
def newP2T (bits s fix2 : Nat) : Option (Indexes × Nat) := do
  let cnt ← countT bits 2
  let r ← consumeBits64T cnt s
  dbgP (bits ≤ 4)
  dbgP (0 < fix2)
  let c ← decompressSingleIndexT bits r.1 0
  let c ← decompressSingleIndexT bits c fix2
  let mask ← getMaskT bits
  pure (⟨c, bits, mask⟩, r.2)
/-- `Indexes::new_p3` + `from_compressed_p3` -/
def newP3T (bits s fix2 fix3 : Nat) : Option (Indexes × Nat) := do
  let cnt ← countT bits 3
  let r ← consumeBits64T cnt s
  dbgP (bits ≤ 4)
  dbgP (0 < fix2 ∧ fix2 < fix3)
  let c ← decompressSingleIndexT bits r.1 0
  let c ← decompressSingleIndexT bits c fix2
  let c ← decompressSingleIndexT bits c fix3
  let mask ← getMaskT bits
  pure (⟨c, bits, mask⟩, r.2)

/-- `Indexes::get_index(pixel_index)` -/
def getIndexT (ix : Indexes) (pixel : Nat) : Option Nat := do
  dbgP (pixel < 16)
  let sh ← ck 256 (pixel * ix.bits)
  let v ← shr 64 ix.unc sh
  pure ((v &&& ix.mask) % U8)

/-! ### bc7.rs -/

/-- `extract_mode` : `stream.skip(mode + 1)` -/
def extractModeT (s : Nat) : Option (Nat × Nat) := do
  let mode := trailingZeros8 (s % U8)
  let m1 ← ck 256 (mode + 1)
  let s' ← skipT m1 s
  pure (mode, s')

/-- `extract_partition_set_id(mode, stream)` -/
def extractPartitionSetIdT (mode s : Nat) : Option (Nat × Nat) := do
  dbgP (mode = 0 ∨ mode = 1 ∨ mode = 2 ∨ mode = 3 ∨ mode = 7)
  consumeBitsT (if mode = 0 then 4 else 6) s

/-- `promote(number, number_bits)` -/
def promoteT (number bits : Nat) : Option Nat := do
  dbgP (4 ≤ bits ∧ bits < 8)
  let d ← subU 8 bits
  let n ← shl 8 U8 number d
  let r ← shr 8 n bits
  pure (n ||| r)

/-- `(x << 1) | p` on `u8` -/
def withPT (x p : Nat) : Option Nat := do
  let y ← shl 8 U8 x 1
  pure (y ||| p)

/-- `((w0 * e0 as u16 + w1 * e1 as u16 + 128) >> 8) as u8` with `w0 = 256 - weight` -/
def lerpT (e0 e1 weight : Nat) : Option Nat := do
  let w0 ← subU 256 weight
  let a ← ck 65536 (w0 * e0)
  let b ← ck 65536 (weight * e1)
  let c ← ck 65536 (a + b)
  let d ← ck 65536 (c + 128)
  let r ← shr 16 d 8
  pure (r % U8)

/-- `interpolate_2_or_3` -/
def interpolate23T (e0 e1 index indexBits : Nat) : Option Nat := do
  let weight ← if indexBits = 2 then idx WEIGHTS_2 index else if indexBits = 3 then idx WEIGHTS_3 index else none
  lerpT e0 e1 weight

/-- `interpolate_colors_alpha` (and `interpolate_colors` with `cw = aw`) -/
def interpolateColorsAlphaT (c0 c1 : List Nat) (cw aw : Nat) : Option (List Nat) := do
  let r ← lerpT (px c0 0) (px c1 0) cw
  let g ← lerpT (px c0 1) (px c1 1) cw
  let b ← lerpT (px c0 2) (px c1 2) cw
  let a ← lerpT (px c0 3) (px c1 3) aw
  pure [r, g, b, a]

/-- `get_end_points_2(mode, stream)` -/
def getEndPoints2T (mode s : Nat) : Option (List (List Nat) × Nat) :=
  if mode = 4 then do
    let r ← consumeNT 2 5 s
    let g ← consumeNT 2 5 r.2
    let b ← consumeNT 2 5 g.2
    let a ← consumeNT 2 6 b.2
    let out ← mapT (fun i => do
      let r' ← idx r.1 i >>= (promoteT · 5)
      let g' ← idx g.1 i >>= (promoteT · 5)
      let b' ← idx b.1 i >>= (promoteT · 5)
      let a' ← idx a.1 i >>= (promoteT · 6)
      pure [r', g', b', a']) (List.range 2)
    pure (out, a.2)
  else if mode = 5 then do
    let r ← consumeNT 2 7 s
    let g ← consumeNT 2 7 r.2
    let b ← consumeNT 2 7 g.2
    let a ← consumeNT 2 8 b.2
    let out ← mapT (fun i => do
      let r' ← idx r.1 i >>= (promoteT · 7)
      let g' ← idx g.1 i >>= (promoteT · 7)
      let b' ← idx b.1 i >>= (promoteT · 7)
      let a' ← idx a.1 i
      pure [r', g', b', a']) (List.range 2)
    pure (out, a.2)
  else if mode = 6 then do
    let r ← consumeNT 2 7 s
    let g ← consumeNT 2 7 r.2
    let b ← consumeNT 2 7 g.2
    let a ← consumeNT 2 7 b.2
    let p ← consumeBitsEachT 2 a.2
    let out ← mapT (fun i => do
      let pi ← idx p.1 i
      let r' ← idx r.1 i >>= (withPT · pi)
      let g' ← idx g.1 i >>= (withPT · pi)
      let b' ← idx b.1 i >>= (withPT · pi)
      let a' ← idx a.1 i >>= (withPT · pi)
      pure [r', g', b', a']) (List.range 2)
    pure (out, p.2)
  else none

/-- `get_end_points_4(mode, stream)`; mode 1: the p-bit of subset `i` goes to endpoints `i * 2`, `i * 2 + 1`, i.e.
endpoint `j` takes `p[j / 2]` -/
def getEndPoints4T (mode s : Nat) : Option (List (List Nat) × Nat) :=
  if mode = 1 then do
    let r ← consumeNT 4 6 s
    let g ← consumeNT 4 6 r.2
    let b ← consumeNT 4 6 g.2
    let p ← consumeBitsEachT 2 b.2
    let out ← mapT (fun i => do
      let pi ← idx p.1 (i / 2)
      let r' ← idx r.1 i >>= (withPT · pi) >>= (promoteT · 7)
      let g' ← idx g.1 i >>= (withPT · pi) >>= (promoteT · 7)
      let b' ← idx b.1 i >>= (withPT · pi) >>= (promoteT · 7)
      pure [r', g', b', 255]) (List.range 4)
    pure (out, p.2)
  else if mode = 3 then do
    let r ← consumeNT 4 7 s
    let g ← consumeNT 4 7 r.2
    let b ← consumeNT 4 7 g.2
    let p ← consumeBitsEachT 4 b.2
    let out ← mapT (fun i => do
      let pi ← idx p.1 i
      let r' ← idx r.1 i >>= (withPT · pi)
      let g' ← idx g.1 i >>= (withPT · pi)
      let b' ← idx b.1 i >>= (withPT · pi)
      pure [r', g', b', 255]) (List.range 4)
    pure (out, p.2)
  else if mode = 7 then do
    let r ← consumeNT 4 5 s
    let g ← consumeNT 4 5 r.2
    let b ← consumeNT 4 5 g.2
    let a ← consumeNT 4 5 b.2
    let p ← consumeBitsEachT 4 a.2
    let out ← mapT (fun i => do
      let pi ← idx p.1 i
      let r' ← idx r.1 i >>= (withPT · pi) >>= (promoteT · 6)
      let g' ← idx g.1 i >>= (withPT · pi) >>= (promoteT · 6)
      let b' ← idx b.1 i >>= (withPT · pi) >>= (promoteT · 6)
      let a' ← idx a.1 i >>= (withPT · pi) >>= (promoteT · 6)
      pure [r', g', b', a']) (List.range 4)
    pure (out, p.2)
  else none

/-- `get_end_points_6(mode, stream)` -/
def getEndPoints6T (mode s : Nat) : Option (List (List Nat) × Nat) :=
  if mode = 0 then do
    let r ← consumeNT 6 4 s
    let g ← consumeNT 6 4 r.2
    let b ← consumeNT 6 4 g.2
    let p ← consumeBitsEachT 6 b.2
    let out ← mapT (fun i => do
      let pi ← idx p.1 i
      let r' ← idx r.1 i >>= (withPT · pi) >>= (promoteT · 5)
      let g' ← idx g.1 i >>= (withPT · pi) >>= (promoteT · 5)
      let b' ← idx b.1 i >>= (withPT · pi) >>= (promoteT · 5)
      pure [r', g', b', 255]) (List.range 6)
    pure (out, p.2)
  else if mode = 2 then do
    let r ← consumeNT 6 5 s
    let g ← consumeNT 6 5 r.2
    let b ← consumeNT 6 5 g.2
    let out ← mapT (fun i => do
      let r' ← idx r.1 i >>= (promoteT · 5)
      let g' ← idx g.1 i >>= (promoteT · 5)
      let b' ← idx b.1 i >>= (promoteT · 5)
      pure [r', g', b', 255]) (List.range 6)
    pure (out, b.2)
  else none

/-- `let index_bits = match MODE { 1 => 3, 3 | 7 => 2, _ => unreachable!() }` (bc7.rs:48) -/
def indexBits2T (mode : Nat) : Option Nat :=
  if mode = 1 then some 3 else if mode = 3 ∨ mode = 7 then some 2 else none
/-- `let index_bits = match MODE { 0 => 3, 2 => 2, _ => unreachable!() }` (bc7.rs:86) -/
def indexBits3T (mode : Nat) : Option Nat :=
  if mode = 0 then some 3 else if mode = 2 then some 2 else none

/-- `mode_subset_2::<MODE>` -/
def modeSubset2T (mode s : Nat) : Option (List (List Nat)) := do
  dbgP (mode = 1 ∨ mode = 3 ∨ mode = 7)
  let pid ← extractPartitionSetIdT mode s
  let map ← idxF 64 implP2 pid.1
  let e ← getEndPoints4T mode pid.2
  let indexBits ← indexBits2T mode
  let ix ← newP2T indexBits e.2 map.2
  mapT (fun pixel => do
    dbgP (pixel < 16)
    let sub := subset2Index map pixel
    let c0 := if sub = 0 then ep e.1 0 else ep e.1 2
    let c1 := if sub = 0 then ep e.1 1 else ep e.1 3
    let index ← getIndexT ix.1 pixel
    let r ← interpolate23T (px c0 0) (px c1 0) index indexBits
    let g ← interpolate23T (px c0 1) (px c1 1) index indexBits
    let b ← interpolate23T (px c0 2) (px c1 2) index indexBits
    let a ← interpolate23T (px c0 3) (px c1 3) index indexBits
    dbgP (pixel < 16)
    pure [r, g, b, a]) (List.range 16)

/-- `mode_subset_3::<MODE>` -/
def modeSubset3T (mode s : Nat) : Option (List (List Nat)) := do
  dbgP (mode = 0 ∨ mode = 2)
  let pid ← extractPartitionSetIdT mode s
  let map ← idxF 64 implP3 pid.1
  let e ← getEndPoints6T mode pid.2
  let indexBits ← indexBits3T mode
  let ix ← newP3T indexBits e.2 map.2.1 map.2.2
  mapT (fun pixel => do
    dbgP (pixel < 16)
    let _ ← ck 4294967296 (pixel * 2)
    let sub := min (subset3Index map pixel) 2
    let c0 ← idx e.1 (2 * sub)
    let c1 ← idx e.1 (2 * sub + 1)
    let index ← getIndexT ix.1 pixel
    let r ← interpolate23T (px c0 0) (px c1 0) index indexBits
    let g ← interpolate23T (px c0 1) (px c1 1) index indexBits
    let b ← interpolate23T (px c0 2) (px c1 2) index indexBits
    let a ← interpolate23T (px c0 3) (px c1 3) index indexBits
    dbgP (pixel < 16)
    pure [r, g, b, a]) (List.range 16)

/-- `mode_4` -/
def mode4T (s : Nat) : Option (List (List Nat)) := do
  let ri ← consumeBitsT 3 s
  let rotation := ri.1 &&& 3
  let indexMode := (ri.1 &&& 4) ≠ 0
  let e ← getEndPoints2T 4 ri.2
  let ci ← newP1T 2 e.2
  let ai ← newP1T 3 ci.2
  mapT (fun pixel => do
    let cidx ← getIndexT ci.1 pixel
    let aidx ← getIndexT ai.1 pixel
    let cw ← idx WEIGHTS_2 cidx
    let aw ← idx WEIGHTS_3 aidx
    let cw' := if indexMode then aw else cw
    let aw' := if indexMode then cw else aw
    dbgP (pixel < 16)
    let c ← interpolateColorsAlphaT (ep e.1 0) (ep e.1 1) cw' aw'
    pure (swapChannels c rotation)) (List.range 16)

/-- `mode_5` -/
def mode5T (s : Nat) : Option (List (List Nat)) := do
  let rot ← consumeBitsT 2 s
  let e ← getEndPoints2T 5 rot.2
  let ci ← newP1T 2 e.2
  let ai ← newP1T 2 ci.2
  mapT (fun pixel => do
    let cidx ← getIndexT ci.1 pixel
    let aidx ← getIndexT ai.1 pixel
    let cw ← idx WEIGHTS_2 cidx
    let aw ← idx WEIGHTS_2 aidx
    dbgP (pixel < 16)
    let c ← interpolateColorsAlphaT (ep e.1 0) (ep e.1 1) cw aw
    pure (swapChannels c rot.1)) (List.range 16)

/-- `mode_6` -/
def mode6T (s : Nat) : Option (List (List Nat)) := do
  let e ← getEndPoints2T 6 s
  let ix ← newP1T 4 e.2
  mapT (fun pixel => do
    let i ← getIndexT ix.1 pixel
    let w ← idx WEIGHTS_4 i
    dbgP (pixel < 16)
    interpolateColorsAlphaT (ep e.1 0) (ep e.1 1) w w) (List.range 16)

/-- `decode_bc7_block(block)`; 16 RGBA pixels or `none` = panic -/
def decodeBlockT (block : Nat) : Option (List (List Nat)) := do
  let m ← extractModeT block
  if m.1 = 0 then modeSubset3T 0 m.2
  else if m.1 = 1 then modeSubset2T 1 m.2
  else if m.1 = 2 then modeSubset3T 2 m.2
  else if m.1 = 3 then modeSubset2T 3 m.2
  else if m.1 = 4 then mode4T m.2
  else if m.1 = 5 then mode5T m.2
  else if m.1 = 6 then mode6T m.2
  else if m.1 = 7 then modeSubset2T 7 m.2
  else some (List.replicate 16 [0, 0, 0, 0])

/-- `bc7_u8_rgba`, `bc7_u16_rgba`, `bc7_f32_rgba` (bc.rs:613–621): precision 0 = U8, 1 = U16 (`n8::n16`:
`x as u16 * 257`), 2 = F32 (`n8::f32`, float); `f32of` is the float conversion of the value model -/
def decodeT (prec : Nat) (f32of : Nat → Nat) (block : Nat) : Option (List (List Nat)) := do
  let px ← decodeBlockT block
  if prec = 0 then pure px
  else if prec = 1 then mapT (mapT fun v => ck 65536 (v * 257)) px
  else pure (px.map (List.map f32of))

end Dds.TrapBc7
