/-
Trapping mirror of the BC6H block decoder: `src/decode/bc6.rs` in full, the parts of
`src/decode/bcn_util.rs` it adds to BC7's (`consume_bits_32`, `consume_bits_rev`), and the half → f32 / u16 / u8
conversions the six BC6H decoders of `src/decode/bc.rs` apply (`fp16::*`, `bc6h_uf16::*` of
`src/color/formats.rs`, `two_powi` of `src/util.rs`), written with the trapping operators of `Trap.lean` over the
definitions of `Bc6.lean`.

Panic sites mirrored (file:line of /repo/src):
* bcn_util.rs:50 `debug_assert!(0 < count && count <= 31)`, :51 `1_u32 << count`, :53 skip; :59 `debug_assert!(count <= 8)`,
  :60 `1_u16 << count`, :62 skip, :64 `bits.reverse_bits() >> (8 - count)` (`u8` subtraction and shift)
* bc6.rs:155/:160/:175 `consume_bits`, :171/:185/:189 `unreachable!()`, :194 `consume_bits(5)`,
  :195 `debug_assert!(partition < 32)`, :196 `PARTITION_SET_2[partition as usize]`, :146/:278 `20 - a0_bit_count`,
  :280 `a0_bit_count - 10` (`u8`), :271–:287 the reads of `extract_compressed_endpoints_one`, :347/:350 the two forms of
  `consume!` (`consume_bits_32(1) << $index`, `consume_bits_32($high + 1)`) in all ten sequences,
  :310/:605 `(1 << a_bit_count) - 1` (`i32`), :321/:322/:325 the three `debug_assert!`s of `sign_extend`,
  :327 `32 - bit_count` (`u8`), :328 `(x << shift) >> shift`, :628 `(1 << u_bits_per_comp) - 1`,
  :631 `((component << 16) + 0x8000) >> u_bits_per_comp`, :641/:653 `-component`, `-unq`,
  :646 `(1 << (u_bits_per_comp - 1)) - 1`, :649 `((component << 15) + 0x4000) >> (u_bits_per_comp - 1)`,
  :665 `(component * 31) >> 6`, :670/:672 `-(((-component) * 31) >> 5)`, `(component * 31) >> 5`, :677 `-component`,
  :709–:711/:737–:739 `(a.r * (64 - w) + b.r * w + 32) >> 6`, :38 `palette[index as usize]`,
  :58 `palette[subset_index as usize][index as usize]`, :40/:60 `output[pixel_index as usize]`, and the
  `Indexes` sites of BC7 (`new_p1(4, …)`, `new_p2(3, …)`, `get_index`)
* formats.rs:663/:664, :675/:676, :693/:694 the `debug_assert!`s of `bc6h_uf16::{n8,n16,f32}` (`x & 0x8000 == 0`,
  `exp < 31`), :516/:545/:573/:667/:684/:701 `exp as i8 - 25` (`i8`); util.rs:59 `debug_assert!(-126 <= exponent)`,
  :61 `(((exponent as i32) + 127) as u32) << 23`.
Not traps: `wrapping_add` of `IntColor + IntColor`, `&`, `|`, `as` casts, `reverse_bits`, `wrapping_sub`, shifts by a
literal amount below the width (`<< 10`, `<< 2`), and the float arithmetic / float → integer casts of the conversions.
`i32 << s` traps only for `s ≥ 32` (bits shifted out are lost silently, as in Rust).

`Theorems/C01.lean` (`bc6_body_trapfree`): `decodeT signed prec b = some (…)` of the wrapping model, every block.
-/
import DdsModel.Trap
import DdsModel.Bc6
import DdsModel.TrapBc7
namespace Dds.TrapBc6
open Dds Dds.Trap Dds.Bc6 Dds.BcTables

/-! ### `i32` shifts -/

/-- `x << s` on `i32`: traps iff `s ≥ 32` -/
def shlI32 (x : Int) (s : Nat) : Option Int := if s < 32 then some (shl32 x s) else none
/-- `x >> s` on `i32` (arithmetic): traps iff `s ≥ 32` -/
def sarI32 (x : Int) (s : Nat) : Option Int := if s < 32 then some (sar32 x s) else none

/-! ### `BitStream` -/

/-- `BitStream::consume_bits_32(count)` -/
def consumeBits32T (count s : Nat) : Option (Nat × Nat) := do
  dbgP (0 < count ∧ count ≤ 31)
  let one ← shl 32 U32 1 count
  let mask := (one + U32 - 1) % U32
  let s' ← TrapBc7.skipT count s
  pure ((s % U32) &&& mask, s')

/-- `BitStream::consume_bits_rev(count)` -/
def consumeBitsRevT (count s : Nat) : Option (Nat × Nat) := do
  dbgP (count ≤ 8)
  let one ← shl 16 U16 1 count
  let mask := ((one + U16 - 1) % U16) % U8
  let bits := (s % U8) &&& mask
  let s' ← TrapBc7.skipT count s
  if count ≥ 2 then do
    let d ← subU 8 count
    let r ← shr 8 (reverseBits8 bits) d
    pure (r, s')
  else pure (bits, s')

/-! ### modes -/

/-- `match bits { 0b00010 => M11_544, …, 0b11110 => M6_666, _ => unreachable!() }` (bc6.rs:162) -/
def modeTwoOfBitsT (bits : Nat) : Option ModeTwo :=
  if bits = 2 then some .M11_544 else if bits = 6 then some .M11_454 else if bits = 10 then some .M11_445
  else if bits = 14 then some .M9_555 else if bits = 18 then some .M8_655 else if bits = 22 then some .M8_565
  else if bits = 26 then some .M8_556 else if bits = 30 then some .M6_666 else none
/-- `match high2 { 0b00 => M10_10, 0b01 => M11_9, 0b10 => M12_8, 0b11 => M16_4, _ => unreachable!() }` (bc6.rs:180) -/
def modeOneOfBitsT (high2 : Nat) : Option ModeOne :=
  if high2 = 0 then some .M10_10 else if high2 = 1 then some .M11_9 else if high2 = 2 then some .M12_8
  else if high2 = 3 then some .M16_4 else none

/-- the arms `0b10` and `0b11` of `extract_mode` after `low2` -/
def extractModeHighT (low2 s : Nat) : Option (Mode × Nat) :=
  if low2 = 2 then do
    let high3 ← TrapBc7.consumeBitsT 3 s
    let m ← modeTwoOfBitsT (((high3.1 <<< 2) % U8) ||| 2)
    pure (.two m, high3.2)
  else if low2 = 3 then do
    let high3 ← TrapBc7.consumeBitsT 3 s
    if high3.1 &&& 4 ≠ 0 then pure (.invalid, high3.2)
    else do
      let m ← modeOneOfBitsT (high3.1 &&& 3)
      pure (.one m, high3.2)
  else none

/-- `extract_mode` (bc6.rs:154) -/
def extractModeT (s : Nat) : Option (Mode × Nat) := do
  let low2 ← TrapBc7.consumeBitsT 2 s
  if low2.1 = 0 then pure (.two .M10_555, low2.2)
  else if low2.1 = 1 then pure (.two .M7_666, low2.2)
  else extractModeHighT low2.1 low2.2

/-! ### compressed endpoints -/

/-- one `consume!` -/
def stepOpT (st : List Nat × Nat) (op : Op) : Option (List Nat × Nat) :=
  if op.range then do
    let r ← consumeBits32T (op.bit + 1) st.2
    pure (accOr st.1 op.ep op.chan r.1, r.2)
  else do
    let r ← consumeBits32T 1 st.2
    let v ← shl 32 U32 r.1 op.bit
    pure (accOr st.1 op.ep op.chan v, r.2)

/-- the `consume!` sequence of a mode, in order -/
def foldOpsT : List Op → List Nat × Nat → Option (List Nat × Nat)
  | [], st => some st
  | op :: ops, st => do
    let st' ← stepOpT st op
    foldOpsT ops st'

/-- `extract_compressed_endpoints_two` -/
def extractTwoT (m : ModeTwo) (s : Nat) : Option (List Nat × Nat) :=
  foldOpsT (modeTwoOps m) (List.replicate 12 0, s)

/-- `extract_compressed_endpoints_one` -/
def extractOneT (m : ModeOne) (s : Nat) : Option (List Nat × Nat) := do
  let ar ← consumeBits32T 10 s
  let ag ← consumeBits32T 10 ar.2
  let ab ← consumeBits32T 10 ag.2
  let bcount ← subU 20 m.a0BitCount
  let ext ← subU m.a0BitCount 10
  let br ← consumeBits32T bcount ab.2
  let arx ← consumeBitsRevT ext br.2
  let bg ← consumeBits32T bcount arx.2
  let agx ← consumeBitsRevT ext bg.2
  let bb ← consumeBits32T bcount agx.2
  let abx ← consumeBitsRevT ext bb.2
  pure ([ar.1 ||| (arx.1 <<< 10) % U32, ag.1 ||| (agx.1 <<< 10) % U32, ab.1 ||| (abx.1 <<< 10) % U32,
    br.1, bg.1, bb.1], abx.2)

/-- `extract_partition` : the 5-bit id and the stream; the table row is `implP2 id` -/
def extractPartitionT (s : Nat) : Option (Nat × Nat) := do
  let part ← TrapBc7.consumeBitsT 5 s
  dbgP (part.1 < 32)
  let _ ← idxF 64 implP2 part.1
  pure part

/-! ### endpoint decompression -/

/-- `sign_extend(x, bit_count)` with its three `debug_assert!`s; the third is
`debug_assert_eq!(x & !((1 << bit_count) - 1), 0)` -/
def signExtendT (x : Int) (bitCount : Nat) : Option Int := do
  dbgP (bitCount > 0)
  dbgP (bitCount < 32)
  let one ← shlI32 1 bitCount
  let m ← ckI32 (one - 1)
  dbgP (and32 x (toU32 (-m - 1)) = 0)
  let shift ← subU 32 bitCount
  let y ← shlI32 x shift
  sarI32 y shift

/-- `let mask = (1 << a_bit_count) - 1;` (`i32`): the checks; the value is `Bc6.maskOf` -/
def maskT (bits : Nat) : Option Unit := do
  let one ← shlI32 1 bits
  let _ ← ckI32 (one - 1)
  pure ()

/-- `decompress_endpoints_two`, one channel -/
def decompressTwoChanT (m : ModeTwo) (signed : Bool) (d : Nat) (w x y z : Int) : Option (List Int) := do
  let abits := m.a0BitCount
  let w ← if signed then signExtendT w abits else some w
  let se := m.transformed || signed
  let x ← if se then signExtendT x d else some x
  let y ← if se then signExtendT y d else some y
  let z ← if se then signExtendT z d else some z
  if m.transformed then do
    maskT abits
    let mask := maskOf abits
    let x := addMask x w mask
    let y := addMask y w mask
    let z := addMask z w mask
    if signed then do
      let x ← signExtendT x abits
      let y ← signExtendT y abits
      let z ← signExtendT z abits
      pure [w, x, y, z]
    else pure [w, x, y, z]
  else pure [w, x, y, z]

/-- `decompress_endpoints_one`, one channel -/
def decompressOneChanT (m : ModeOne) (signed : Bool) (a b : Int) : Option (List Int) := do
  let abits := m.a0BitCount
  let bbits ← subU 20 m.a0BitCount
  let a ← if signed then signExtendT a abits else some a
  let b ← if m.transformed || signed then signExtendT b bbits else some b
  if m.transformed then do
    maskT abits
    let b := addMask a b (maskOf abits)
    if signed then do
      let b ← signExtendT b abits
      pure [a, b]
    else pure [a, b]
  else pure [a, b]

/-! ### unquantize / interpolate / finish -/

/-- `(1 << k) - 1` on `i32` -/
def onesT (k : Nat) : Option Int := do
  let one ← shlI32 1 k
  ckI32 (one - 1)

/-- `unquantize` (bc6.rs:620) -/
def unquantizeT (component : Int) (bits : Nat) (signed : Bool) : Option Int :=
  if !signed then
    if bits ≥ 15 then some component
    else if component = 0 then some 0
    else do
      let m ← onesT bits
      if component = m then some 0xFFFF
      else do
        let sh ← shlI32 component 16
        let t ← ckI32 (sh + 0x8000)
        sarI32 t bits
  else
    if bits ≥ 16 then some component
    else do
      let comp ← if component < 0 then ckI32 (-component) else some component
      let unq ←
        if comp = 0 then some 0
        else do
          let b1 ← subU bits 1
          let m ← onesT b1
          if comp ≥ m then some 0x7FFF
          else do
            let sh ← shlI32 comp 15
            let t ← ckI32 (sh + 0x4000)
            let b1 ← subU bits 1
            sarI32 t b1
      if component < 0 then ckI32 (-unq) else some unq

/-- `finish_unquantize` (bc6.rs:662) -/
def finishUnquantizeT (component : Int) (signed : Bool) : Option Nat :=
  if !signed then do
    let p ← ckI32 (component * 31)
    let q ← sarI32 p 6
    pure (toU32 q % U16)
  else do
    let c ←
      if component < 0 then do
        let n ← ckI32 (-component)
        let p ← ckI32 (n * 31)
        let q ← sarI32 p 5
        ckI32 (-q)
      else do
        let p ← ckI32 (component * 31)
        sarI32 p 5
    let s : Nat := if c < 0 then 0x8000 else 0
    let c' ← if c < 0 then ckI32 (-c) else some c
    pure ((s ||| toU32 c') % U16)

/-- `finish_unquantize((a * (64 - w) + b * w + 32) >> 6, format)` -/
def paletteEntryT (a b : Int) (w : Nat) (signed : Bool) : Option Nat := do
  let iw ← ckI32 (64 - (w : Int))
  let aw ← ckI32 (a * iw)
  let bw ← ckI32 (b * (w : Int))
  let s ← ckI32 (aw + bw)
  let t ← ckI32 (s + 32)
  let q ← sarI32 t 6
  finishUnquantizeT q signed

/-- `generate_palette_unquantized_{one,two}`, one channel -/
def paletteT (weights : List Nat) (c1 c2 : Int) (prec : Nat) (signed : Bool) : Option (List Nat) := do
  let a ← unquantizeT c1 prec signed
  let b ← unquantizeT c2 prec signed
  mapT (fun w => paletteEntryT a b w signed) weights

/-! ### block -/

/-- `decode_bc6_block(block, format)` : 16 × RGB half patterns, or `none` = panic -/
def decodeBlockT (signed : Bool) (block : Nat) : Option (List (List Nat)) := do
  let md ← extractModeT block
  match md.1 with
  | .one m => do
    let e ← extractOneT m md.2
    let ix ← TrapBc7.newP1T 4 e.2
    let prec := m.a0BitCount
    let pal ← mapT (fun c => do
      let ab ← decompressOneChanT m signed (e.1.getD c 0) (e.1.getD (3 + c) 0)
      paletteT implW6_4 (getI ab 0) (getI ab 1) prec signed) (List.range 3)
    mapT (fun pixel => do
      let index ← TrapBc7.getIndexT ix.1 pixel
      dbgP (pixel < 16)
      mapT (fun c => do
        let p ← idx pal c
        idx p index) (List.range 3)) (List.range 16)
  | .two m => do
    let e ← extractTwoT m md.2
    let part ← extractPartitionT e.2
    let map := implP2 part.1
    let ix ← TrapBc7.newP2T 3 part.2 map.2
    let prec := m.a0BitCount
    let d := m.deltaBitCount
    let pal ← mapT (fun c => do
      let dc := if c = 0 then d.1 else if c = 1 then d.2.1 else d.2.2
      let ws ← decompressTwoChanT m signed dc (accGet e.1 0 c) (accGet e.1 1 c) (accGet e.1 2 c) (accGet e.1 3 c)
      let p0 ← paletteT implW6_3 (getI ws 0) (getI ws 1) prec signed
      let p1 ← paletteT implW6_3 (getI ws 2) (getI ws 3) prec signed
      pure [p0, p1]) (List.range 3)
    mapT (fun pixel => do
      let index ← TrapBc7.getIndexT ix.1 pixel
      dbgP (pixel < 16)
      let sub := subset2Index map pixel
      dbgP (pixel < 16)
      mapT (fun c => do
        let pc ← idx pal c
        let ps ← idx pc sub
        idx ps index) (List.range 3)) (List.range 16)
  | .invalid => some (List.replicate 16 [0, 0, 0])

/-! ### the six decoders of `bc.rs` -/

/-- the two `debug_assert!`s of `bc6h_uf16::{n8, n16, f32}` -/
def uf16AssertT (x : Nat) : Option Unit := do
  dbgP (x &&& 0x8000 = 0)
  dbgP ((x >>> 10) &&& 31 < 31)

/-- precision index: 0 = U8, 1 = U16, 2 = F32.  The values are those of `Bc6.lean`'s conversion models. -/
def convT (signed : Bool) (prec : Nat) (x : Nat) : Option Nat := do
  let exp := (x >>> 10) &&& 31
  if signed then
    -- `fp16::n8` / `fp16::n16` / `fp16::f32`
    if prec = 0 then do
      if exp ≠ 31 then twoPowiT exp 25 else pure ()
      pure (fp16N8 x)
    else if prec = 1 then do
      if exp = 0 then pure () else if exp ≠ 31 then twoPowiT exp 25 else pure ()
      pure (fp16N16 x)
    else do
      if exp = 0 then twoPowiT 1 25 else if exp ≠ 31 then twoPowiT exp 25 else pure ()
      pure (fp16F32 x)
  else do
    -- `bc6h_uf16::n8` / `n16` / `f32`
    uf16AssertT x
    if prec = 0 then do
      twoPowiT exp 25
      pure (uf16N8 x)
    else if prec = 1 then do
      if exp = 0 then pure () else twoPowiT exp 25
      pure (uf16N16 x)
    else do
      if exp = 0 then twoPowiT 1 25 else twoPowiT exp 25
      pure (uf16F32 x)

/-- the model's conversion of one half at the precision -/
def conv (signed : Bool) (prec : Nat) (x : Nat) : Nat :=
  if signed then (if prec = 0 then fp16N8 x else if prec = 1 then fp16N16 x else fp16F32 x)
  else (if prec = 0 then uf16N8 x else if prec = 1 then uf16N16 x else uf16F32 x)

/-- `bc6_{s,u}_{u8,u16,f32}` (bc.rs:587–610) -/
def decodeT (signed : Bool) (prec : Nat) (block : Nat) : Option (List (List Nat)) := do
  let px ← decodeBlockT signed block
  mapT (mapT (convT signed prec)) px

end Dds.TrapBc6
