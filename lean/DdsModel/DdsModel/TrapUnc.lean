/-
Trapping mirror of the per-pixel bodies of the 45 non-block-compressed formats
(`src/decode/uncompressed.rs`, `sub_sampled.rs`, `bi_planar.rs`) and of the scalar conversions of
`src/color/formats.rs` they call, plus `convert_channels` of `src/color/mod.rs`.

Where the panic sites are.  The decoder closures themselves only unpack bit fields with literal shifts and masks
(`(rgba >> 10) & 0x3FF`, `low & 0xF`, `c >> 6`), array patterns (`let [r, g] = …`) and literal indices (`rg[0]`):
nothing there can panic.  Every possible panic is inside a conversion function:
* formats.rs:122/131/140 `n1::*` `debug_assert!(x <= 1)`; :161–:171 `n2::*` `debug_assert!(x <= 3)`, `x * 85` (`u8`),
  `x as u16 * 21845`; :186–:196 `n4::*` `debug_assert!(x <= 15)`, `x * 17`, `x as u16 * 4369`; :213–:223 `n5::*`
  `debug_assert!(x <= 31)`, `x as u16 * 2108 + 92`, `x as u32 * 138547200`; :240–:250 `n6::*` `debug_assert!(x <= 63)`,
  `x as u16 * 1036 + 132`, `x as u32 * 68173056 + 30976`; :267 `n8::n16` `x as u16 * 257`; :286–:296 `n10::*`
  `debug_assert!(x <= 1023)`, `x as u32 * 16336 + 32656`, `x as u32 * 4198340 + 32660`; :313 `n16::n8`
  `x as u32 * 255 + 32895`; :345/:350 `s8::n8/n16`; :392/:397 `s16::n8/n16` `x as u32 * 65282 + 8388354`,
  `x as u32 * 65538 + 2`; :464–:484 `xr10::*` `x as i16 - 0x180` (`i16`), `(x + 1) >> 1`, `x as u32 * 8421376 + 65535`;
  :516/:545/:571/:573 `fp16::*`, :771/:792/:811/:813 `fp11::*`, :892/:913/:932/:934 `fp10::*`: `exp as i8 - bias`
  (`i8`) and `two_powi` (util.rs:59 `debug_assert!(-126 <= exponent)`, :61 `(exponent as i32 + 127) as u32) << 23`),
  :790 `(mant + 7) >> 4`, :911 `(mant + 3) >> 3` (`u16`); :963/:983/:1001 `rgb9995f::*` `two_powi(exp as i8 - 24)`;
* sub_sampled.rs:183 `r1_bits`: `out[i] = (bits >> (7 - i)) & 1` (`usize` subtraction, `u8 >> usize`, index);
* color/mod.rs:266/268/281 `cast::from_bytes(..).expect(..)`, :269 `debug_assert!(from_chunked.len() == to_chunked.len())`,
  :289–:294 the three `debug_assert!`s of `convert_channels`, :298 `copy_from_slice` (equal lengths).
`fp::n8/n16`, `n*::f32`, `s*::uf32`, `n16::f32`, the YUV matrices, `clamp`: float arithmetic and saturating
float → integer casts, no panic.

The wiring "which conversion is applied to which bit field" is C04's pinned table `Unc.formats` (tied to the closures
exhaustively per field by C04's correspondence check); `decodePxT` is `Unc.decodePx` with every conversion replaced
by its trapping mirror.
-/
import DdsModel.Trap
import DdsModel.Uncompressed
namespace Dds.TrapUnc
open Dds.Trap Dds.Conv Dds.Unc Dds.CF32

/-! ### UNORM -/

/-- `n1::n8` / `n1::n16` / `n1::f32` -/
def n1T (prec x : Nat) : Option Nat := do
  dbgP (x ≤ 1)
  pure (if prec = 0 then n1n8 x else if prec = 1 then n1n16 x else n1f32 x)
/-- `n2::n8`: `debug_assert!(x <= 3); x * 85` (`u8`) -/
def n2n8T (x : Nat) : Option Nat := do
  dbgP (x ≤ 3)
  ck 256 (x * 85)
/-- `n2::n16`: `x as u16 * 21845` -/
def n2n16T (x : Nat) : Option Nat := do
  dbgP (x ≤ 3)
  ck 65536 (x * 21845)
def n2f32T (x : Nat) : Option Nat := do
  dbgP (x ≤ 3)
  pure (n2f32 x)
/-- `n4::n8`: `x * 17` (`u8`) -/
def n4n8T (x : Nat) : Option Nat := do
  dbgP (x ≤ 15)
  ck 256 (x * 17)
/-- `n4::n16`: `x as u16 * 4369` -/
def n4n16T (x : Nat) : Option Nat := do
  dbgP (x ≤ 15)
  ck 65536 (x * 4369)
def n4f32T (x : Nat) : Option Nat := do
  dbgP (x ≤ 15)
  pure (n4f32 x)
/-- `n5::n8`: `((x as u16 * 2108 + 92) >> 8) as u8` -/
def n5n8T (x : Nat) : Option Nat := do
  dbgP (x ≤ 31)
  let m ← ck 65536 (x * 2108)
  let a ← ck 65536 (m + 92)
  pure ((a >>> 8) % 256)
/-- `n5::n16`: `((x as u32 * 138547200) >> 16) as u16` -/
def n5n16T (x : Nat) : Option Nat := do
  dbgP (x ≤ 31)
  let m ← ck 4294967296 (x * 138547200)
  pure ((m >>> 16) % 65536)
def n5f32T (x : Nat) : Option Nat := do
  dbgP (x ≤ 31)
  pure (n5f32 x)
/-- `n6::n8`: `((x as u16 * 1036 + 132) >> 8) as u8` -/
def n6n8T (x : Nat) : Option Nat := do
  dbgP (x ≤ 63)
  let m ← ck 65536 (x * 1036)
  let a ← ck 65536 (m + 132)
  pure ((a >>> 8) % 256)
/-- `n6::n16`: `((x as u32 * 68173056 + 30976) >> 16) as u16` -/
def n6n16T (x : Nat) : Option Nat := do
  dbgP (x ≤ 63)
  let m ← ck 4294967296 (x * 68173056)
  let a ← ck 4294967296 (m + 30976)
  pure ((a >>> 16) % 65536)
def n6f32T (x : Nat) : Option Nat := do
  dbgP (x ≤ 63)
  pure (n6f32 x)
/-- `n8::n16`: `x as u16 * 257` -/
def n8n16T (x : Nat) : Option Nat := ck 65536 (x * 257)
/-- `n10::n8`: `((x as u32 * 16336 + 32656) >> 16) as u8` -/
def n10n8T (x : Nat) : Option Nat := do
  dbgP (x ≤ 1023)
  let m ← ck 4294967296 (x * 16336)
  let a ← ck 4294967296 (m + 32656)
  pure ((a >>> 16) % 256)
/-- `n10::n16`: `((x as u32 * 4198340 + 32660) >> 16) as u16` -/
def n10n16T (x : Nat) : Option Nat := do
  dbgP (x ≤ 1023)
  let m ← ck 4294967296 (x * 4198340)
  let a ← ck 4294967296 (m + 32660)
  pure ((a >>> 16) % 65536)
def n10f32T (x : Nat) : Option Nat := do
  dbgP (x ≤ 1023)
  pure (n10f32 x)
/-- `n16::n8`: `((x as u32 * 255 + 32895) >> 16) as u8` -/
def n16n8T (x : Nat) : Option Nat := do
  let m ← ck 4294967296 (x * 255)
  let a ← ck 4294967296 (m + 32895)
  pure ((a >>> 16) % 256)

/-- UNORM field of `w` bits to the precision: the dispatch of `Unc.unormTo` (an `if` chain rather than a `match`, so
that proofs reduce it by rewriting: the kernel must never be asked to unfold a `ck` chain) -/
def unormToT (w prec v : Nat) : Option Nat :=
  if w = 1 then n1T prec v
  else if w = 2 then (if prec = 0 then n2n8T v else if prec = 1 then n2n16T v else n2f32T v)
  else if w = 4 then (if prec = 0 then n4n8T v else if prec = 1 then n4n16T v else n4f32T v)
  else if w = 5 then (if prec = 0 then n5n8T v else if prec = 1 then n5n16T v else n5f32T v)
  else if w = 6 then (if prec = 0 then n6n8T v else if prec = 1 then n6n16T v else n6f32T v)
  else if w = 8 then (if prec = 0 then some v else if prec = 1 then n8n16T v else some (n8f32 v))
  else if w = 10 then (if prec = 0 then n10n8T v else if prec = 1 then n10n16T v else n10f32T v)
  else if w = 16 then (if prec = 0 then n16n8T v else if prec = 1 then some v else some (n16f32 v))
  else some 0

/-! ### SNORM, XR_BIAS -/

/-- `s8::n8` -/
def s8n8T (x : Nat) : Option Nat := do
  let m ← ck 65536 (s8norm x * 258)
  let a ← ck 65536 (m + 2)
  pure ((a >>> 8) % 256)
/-- `s8::n16` -/
def s8n16T (x : Nat) : Option Nat := do
  let m ← ck 4294967296 (s8norm x * 16909064)
  let a ← ck 4294967296 (m + 32520)
  pure ((a >>> 16) % 65536)
/-- `s16::n8`: `((x as u32 * 65282 + 8388354) >> 24) as u8` -/
def s16n8T (x : Nat) : Option Nat := do
  let m ← ck 4294967296 (s16norm x * 65282)
  let a ← ck 4294967296 (m + 8388354)
  pure ((a >>> 24) % 256)
/-- `s16::n16`: `((x as u32 * 65538 + 2) >> 16) as u16` -/
def s16n16T (x : Nat) : Option Nat := do
  let m ← ck 4294967296 (s16norm x * 65538)
  let a ← ck 4294967296 (m + 2)
  pure ((a >>> 16) % 65536)

/-- `x as i16` -/
def asI16 (x : Nat) : Int := if x % 65536 < 32768 then ((x % 65536 : Nat) : Int) else ((x % 65536 : Nat) : Int) - 65536

/-- `x as i16 - 0x180` (xr10, formats.rs:464/:473/:484) -/
def xrSubT (x : Nat) : Option Int := ckI16 (asI16 x - 384)

/-- `xr10::n8` -/
def xr10n8T (x : Nat) : Option Nat := do
  let _ ← xrSubT x
  let a ← ck 65536 (xrClamp x + 1)
  pure ((a >>> 1) % 256)
/-- `xr10::n16` -/
def xr10n16T (x : Nat) : Option Nat := do
  let _ ← xrSubT x
  let m ← ck 4294967296 (xrClamp x * 8421376)
  let a ← ck 4294967296 (m + 65535)
  pure ((a >>> 16) % 65536)
/-- `xr10::f32` -/
def xr10f32T (x : Nat) : Option Nat := do
  let _ ← xrSubT x
  pure (xr10f32 x)

/-! ### small floats -/

/-- `fp16::{n8,n16,f32}` (`mb = 10`, sign), `fp11::*` (`mb = 6`), `fp10::*` (`mb = 5`): the checks of each branch,
then the value of the float model.  `two_powi(exp as i8 - (15 + mb))`; the denormal branches use the literal
`two_powi(-(14 + mb))` (f32), integer arithmetic `(mant + 7) >> 4` / `(mant + 3) >> 3` (fp11/fp10 n16) or floats. -/
def smallT (mb : Nat) (signed : Bool) (prec x : Nat) : Option Nat := do
  let exp := (x >>> mb) % 32
  let mant := x % (2 ^ mb)
  if prec = 0 then do
    if exp != 31 then twoPowiT exp (15 + mb : Nat) else pure ()
    pure (smallN8 mb signed x)
  else if prec = 1 then do
    if exp == 0 then
      (if mb == 10 then pure ()
       else if mb == 6 then do let _ ← ck 65536 (mant + 7); pure ()
       else do let _ ← ck 65536 (mant + 3); pure ())
    else if exp != 31 then twoPowiT exp (15 + mb : Nat) else pure ()
    pure (smallN16 mb signed x)
  else do
    if exp == 0 then twoPowiT 1 (15 + mb : Nat) else if exp != 31 then twoPowiT exp (15 + mb : Nat) else pure ()
    pure (smallF32 mb signed x)

/-! ### one field -/

/-- the dispatch of `Unc.convField` with trapping conversions -/
def convFieldT (k : Kind) (w prec v : Nat) : Option Nat :=
  if k = .unorm then unormToT w prec v
  else if k = .snorm then
    (if w = 8 then (if prec = 0 then s8n8T v else if prec = 1 then s8n16T v else some (s8f32 v))
     else (if prec = 0 then s16n8T v else if prec = 1 then s16n16T v else some (s16f32 v)))
  else if k = .half then smallT 10 true prec v
  else if k = .f11 then smallT 6 false prec v
  else if k = .f10 then smallT 5 false prec v
  else if k = .xr then (if prec = 0 then xr10n8T v else if prec = 1 then xr10n16T v else xr10f32T v)
  else some (convField k w prec v)

/-! ### one pixel -/

/-- a directly stored channel: converted field or the default -/
def directT (fm : Fmt) (prec word p : Nat) (c : Comp) : Option Nat :=
  match findField fm c p with
  | some f => convFieldT f.kind f.width prec (fieldVal word f)
  | none => some (defaultVal (compDefault fm c) prec)

/-- pixel `p` of the unit `word`, or `none` = panic -/
def decodePxT (fm : Fmt) (prec word p : Nat) : Option (List Nat) :=
  match fm.color with
  | .direct => mapT (directT fm prec word p) (chanComps fm.native)
  | .yuv bits => do
    let g c := (compOf fm word p c).getD 0
    let a ← if fm.native == .rgba then (do let a ← directT fm prec word p .A; pure [a]) else some []
    pure (yuvTo bits prec (g .Y) (g .U) (g .V) ++ a)
  | .sharedExp => do
    let g c := (compOf fm word p c).getD 0
    -- `two_powi(exp as i8 - 24)` in `rgb9995f::{f32,n8,n16}`
    twoPowiT (g .E) 24
    pure ([Comp.R, .G, .B].map fun c =>
      if prec == 0 then sharedN8 (g .E) (g c) else if prec == 1 then sharedN16 (g .E) (g c)
      else sharedF32 (g .E) (g c))

/-! ### sub-sampled / bi-planar units -/

/-- `r1_bits(bits)` (sub_sampled.rs:179): `for i in 0..8 { out[i] = (bits >> (7 - i)) & 1; }` -/
def r1BitsT (bits : Nat) : Option (List Nat) :=
  mapT (fun i => do
    let d ← subU 7 i
    let v ← shr 8 bits d
    dbgP (i < 8)
    pure (v &&& 1)) (List.range 8)

/-- all pixels of one encoded unit (2×1 / 8×1 block, or a luma sample with its chroma pair): the closures of
`sub_sampled.rs` / `bi_planar.rs` call the pixel conversion once per output pixel; `R1_UNORM` first runs `r1_bits` -/
def unitT (fm : Fmt) (prec word : Nat) : Option (List (List Nat)) := do
  if fm.pxPerUnit = 8 then (do let _ ← r1BitsT (word % 256); pure ()) else pure ()
  mapT (decodePxT fm prec word) (List.range fm.pxPerUnit)

/-! ### `convert_channels` -/

def chanCount : Channels → Nat
  | .gray => 1 | .alpha => 1 | .rgb => 3 | .rgba => 4

/-- `cast::from_bytes::<[u8; n]>(buf).expect(..)`: the length must be a multiple of the chunk size (the alignment of
a byte array is 1); result: number of chunks -/
def fromBytesT (len chunk : Nat) : Option Nat :=
  if chunk ≠ 0 ∧ len % chunk = 0 then some (len / chunk) else none

/-- `convert_channels::<Precision>(from, to, from_buffer, to_buffer)` on buffers of `fromLen` / `toLen` bytes,
`size` = `size_of::<Precision>()`; only the checks (the pixel values are `Unc.convertChannels`) -/
def convertChannelsT (src dst : Channels) (size fromLen toLen : Nat) : Option Unit := do
  dbgP (fromLen % (size * chanCount src) = 0)
  dbgP (toLen % (size * chanCount dst) = 0)
  let a ← div fromLen (chanCount src)
  let b ← div toLen (chanCount dst)
  dbgP (a = b)
  if src = dst then do
    -- `to_buffer.copy_from_slice(from_buffer)`
    dbgP (fromLen = toLen)
  else if (src = .gray ∧ dst = .alpha) ∨ (src = .rgb ∧ dst = .alpha) ∨ (src = .alpha ∧ dst = .gray) ∨
      (src = .alpha ∧ dst = .rgb) then
    -- `fill(to_buffer, ONE / ZERO)`
    let _ ← fromBytesT toLen size
    pure ()
  else do
    -- `map(from_buffer, to_buffer, f)`
    let n ← fromBytesT fromLen (size * chanCount src)
    let m ← fromBytesT toLen (size * chanCount dst)
    dbgP (n = m)

/-! ### the pixel-loop wrappers of `read_write.rs` / `uncompressed.rs` (lengths only) -/

/-- `process_pixels_helper::<InPixel, OutPixel>` (read_write.rs:33): the two `cast::from_bytes(..).expect(..)`; the
loop is a `zip` (stops at the shorter side, no check).  Returns the number of pixels processed. -/
def processPixelsT (inSize outSize encLen decLen : Nat) : Option Nat := do
  let n ← fromBytesT encLen inSize
  let m ← fromBytesT decLen outSize
  pure (min n m)

/-- `process_pixels_helper_unroll::<UNROLL, InPixel, OutPixel, _>` (read_write.rs:49): the `usize` products, the two
range slices `[..encoded_chunks_bytes]` / `[..decoded_chunks_bytes]`, the inner helper on `[InPixel; UNROLL]`, the two
`expect`s on the rest and `debug_assert!(encoded.len() == decoded.len())` (chunk counts of the rest) -/
def processPixelsUnrollT (unroll inSize outSize encLen decLen : Nat) : Option Unit := do
  let pixels := encLen / inSize
  let rolled := pixels / unroll
  let encBytes ← ck 18446744073709551616 (rolled * (unroll * inSize))
  let decBytes ← ck 18446744073709551616 (rolled * (unroll * outSize))
  dbgP (encBytes ≤ encLen)
  dbgP (decBytes ≤ decLen)
  let _ ← processPixelsT (unroll * inSize) (unroll * outSize) encBytes decBytes
  let n ← fromBytesT (encLen - encBytes) inSize
  let m ← fromBytesT (decLen - decBytes) outSize
  dbgP (n = m)

/-- the specialised `B8G8R8A8_UNORM` → RGBA U8 path (uncompressed.rs:193): `for i in (0..out.len()).step_by(4)
{ out.swap(i, i + 2) }` — `swap` indexes `i + 2` -/
def bgraSwapT (len : Nat) : Option Unit := do
  let _ ← mapT (fun k => dbgP (4 * k + 2 < len)) (List.range ((len + 3) / 4))
  pure ()

end Dds.TrapUnc
