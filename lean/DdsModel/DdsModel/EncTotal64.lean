/-
C15: `s16::from_uf32` (src/color/formats.rs) at the bit level.  It is the one quantiser of the
crate that computes in binary64:

    pub fn from_uf32(x: f32) -> u16 {
        let x = x.min(1.0) as f64;
        let norm = (x * 65534.0 + 0.5) as u16;
        (norm + 1).wrapping_sub(32768)
    }

Operator by operator: `f32::min` (`CF32.fmin`, a NaN operand is ignored), the exact widening
`as f64` (`CF64.ofF32`), one binary64 multiplication, one binary64 addition (`CF64.fmul`,
`CF64.fadd`: exact result, one rounding to nearest even), the saturating cast `as u16`
(`CF64.toNatSat`), then `from_norm` as for `s8` (`snormFromNorm`: `none` = `norm + 1` overflows
`u16`, a panic in the checked profile).  Used by R16_SNORM, R16G16_SNORM, R16G16B16A16_SNORM
(src/encode/uncompressed.rs, `universal!(…, gray|rg|rgba = s16::from_uf32)`).
Only model files are imported (core only).
-/
import DdsModel.EncTotal
import DdsModel.ConvF64
import DdsModel.Quant
namespace Dds.EncTotal.QuantBits
open Dds.CF32

/-- `norm` of `s16::from_uf32`: `(x.min(1.0) as f64 * 65534.0 + 0.5) as u16` for the binary32
pattern `x` -/
def s16Norm (x : Nat) : Nat :=
  CF64.toNatSat (CF64.fadd (CF64.fmul (CF64.ofF32 (fmin x one)) CF64.k65534) CF64.half) 65535

/-- `s16::from_uf32`; `none` = the `u16` overflow of `norm + 1` -/
def s16 (x : Nat) : Option Nat := snormFromNorm 16 (s16Norm x)

/-- The real number `s16::from_uf32` quantises, for the specification side: the value of a finite
pattern; a NaN is replaced by the other operand of `x.min(1.0)`, i.e. 1; `+∞` is above 1 and
`-∞` below 0 (both are clamped like every other value outside `[0, 1]`). -/
def uvalue (x : Nat) : Rat :=
  if isNaN x then 1 else if isInf x then (if isNeg x then -1 else 2) else toRat x

/-- the encoded little-endian number of a pixel of R16_SNORM (`r`), R16G16_SNORM (`r`, `g`) and
R16G16B16A16_SNORM from the bit patterns of an RGBA `f32` pixel -/
def encode16 (fmt : String) (r g b a : Nat) : Option Nat :=
  match fmt with
  | "R16_SNORM" => s16 r
  | "R16G16_SNORM" =>
    match s16 r, s16 g with
    | some r, some g => some (r ||| (g <<< 16))
    | _, _ => none
  | "R16G16B16A16_SNORM" =>
    match s16 r, s16 g, s16 b, s16 a with
    | some r, some g, some b, some a => some (r ||| (g <<< 16) ||| (b <<< 32) ||| (a <<< 48))
    | _, _, _, _ => none
  | _ => none

end Dds.EncTotal.QuantBits
