/-
Machine arithmetic used by all models.

Values are `Nat`; every Rust operator of the source is modelled by one of
* `ck*`  : `checked_*`            → `Option`
* `w*`   : the plain operator in the release profile (wrapping modulo 2^n)
and the theorems show that the ideal (unbounded) result is below the bound, so
that the release result equals the ideal one and the overflow-checking profile
does not trap.
-/
namespace Dds

def U8  : Nat := 256
def U16 : Nat := 65536
def U32 : Nat := 4294967296
def U64 : Nat := 18446744073709551616
def I64MAX : Nat := 9223372036854775807

/-- `u64::checked_mul` -/
def ckMul (a b : Nat) : Option Nat := if a * b < U64 then some (a * b) else none
/-- `u64::checked_add` -/
def ckAdd (a b : Nat) : Option Nat := if a + b < U64 then some (a + b) else none
/-- `u64::checked_sub` -/
def ckSub (a b : Nat) : Option Nat := if b ≤ a then some (a - b) else none
/-- `u32::checked_mul` -/
def ckMul32 (a b : Nat) : Option Nat := if a * b < U32 then some (a * b) else none
/-- plain `*` on `u64`, release profile -/
def wMul (a b : Nat) : Nat := (a * b) % U64
/-- plain `+` on `u64`, release profile -/
def wAdd (a b : Nat) : Nat := (a + b) % U64
/-- plain `-` on `u64`, release profile -/
def wSub (a b : Nat) : Nat := (a + U64 - b % U64) % U64
/-- `u32::div_ceil` / `usize::div_ceil` as implemented in `core` (no overflow) -/
def divCeil (a b : Nat) : Nat := if a % b > 0 then a / b + 1 else a / b
/-- `u32::saturating_add` -/
def satAdd32 (a b : Nat) : Nat := if a + b < U32 then a + b else U32 - 1
/-- `u64::saturating_add` -/
def satAdd64 (a b : Nat) : Nat := if a + b < U64 then a + b else U64 - 1

theorem wAdd_eq {a b : Nat} (h : a + b < U64) : wAdd a b = a + b := by
  unfold wAdd; exact Nat.mod_eq_of_lt h
theorem wMul_eq {a b : Nat} (h : a * b < U64) : wMul a b = a * b := by
  unfold wMul; exact Nat.mod_eq_of_lt h
theorem wSub_eq {a b : Nat} (ha : a < U64) (h : b ≤ a) : wSub a b = a - b := by
  unfold wSub
  have hb : b < U64 := Nat.lt_of_le_of_lt h ha
  rw [Nat.mod_eq_of_lt hb]
  have : a + U64 - b = (a - b) + U64 := by omega
  rw [this, Nat.add_mod_right]
  exact Nat.mod_eq_of_lt (by omega)

theorem divCeil_eq (a b : Nat) (hb : 0 < b) : divCeil a b = (a + b - 1) / b := by
  unfold divCeil
  have h1 := Nat.div_add_mod a b
  by_cases h : a % b > 0
  · simp only [h, if_true]
    have : a + b - 1 = (a % b - 1) + (a / b + 1) * b := by
      rw [Nat.add_mul, Nat.one_mul, Nat.mul_comm]; omega
    rw [this, Nat.add_mul_div_right _ _ hb]
    have : (a % b - 1) / b = 0 := Nat.div_eq_of_lt (by have := Nat.mod_lt a hb; omega)
    omega
  · simp only [h, if_false]
    have h0 : a % b = 0 := by omega
    have : a + b - 1 = (b - 1) + (a / b) * b := by
      rw [Nat.mul_comm]; omega
    rw [this, Nat.add_mul_div_right _ _ hb]
    have : (b - 1) / b = 0 := Nat.div_eq_of_lt (by omega)
    omega

/-- `divCeil a b` is the least `q` with `a ≤ q * b`. -/
theorem divCeil_spec (a b : Nat) (hb : 0 < b) :
    a ≤ divCeil a b * b ∧ (divCeil a b - 1) * b < a + (if a = 0 then 1 else 0) := by
  unfold divCeil
  have h1 := Nat.div_add_mod a b
  have h2 := Nat.mod_lt a hb
  by_cases h : a % b > 0
  · simp only [h, if_true]
    have hne : a ≠ 0 := by intro h0; simp [h0] at h
    simp only [hne, if_false, Nat.add_sub_cancel, Nat.add_zero]
    constructor
    · rw [Nat.add_mul, Nat.one_mul, Nat.mul_comm]; omega
    · rw [Nat.mul_comm]; omega
  · simp only [h, if_false]
    have h0 : a % b = 0 := by omega
    constructor
    · rw [Nat.mul_comm]; omega
    · by_cases ha : a = 0
      · simp [ha]
      · simp only [ha, if_false, Nat.add_zero]
        have hpos : 0 < a / b := by
          apply Nat.pos_of_ne_zero; intro hz; rw [hz] at h1; omega
        have : (a / b - 1) * b = b * (a / b) - b := by
          rw [Nat.sub_mul, Nat.one_mul, Nat.mul_comm]
        rw [this]
        have : b ≤ b * (a / b) := Nat.le_mul_of_pos_right b hpos
        omega

end Dds
