/-
Implementation-shaped model of the BC7 block decoder:
`src/decode/bc7.rs` (decode_bc7_block and everything it calls) and the parts of
`src/decode/bcn_util.rs` it uses (`BitStream`, `Indexes`).

Values are `Nat`; every Rust integer type is made explicit by a reduction modulo its size where the
operation could leave the type (`u8` shifts, `u16` weights, `u64` index words, the `u128` stream).
The stream is the `u128` state itself (`state >>= n` on every read), exactly as in the code.
-/
import DdsModel.Mach
import DdsModel.BcTables
namespace Dds.Bc7
open Dds.BcTables

/-! ### `BitStream` (bcn_util.rs) -/

/-- `(1_u16 << count).wrapping_sub(1) as u8` -/
def mask8 (count : Nat) : Nat := (((1 <<< count) % U16 + U16 - 1) % U16) % U8

/-- `BitStream::consume_bits(count) -> u8` : (bits, new state) -/
def consumeBits (count s : Nat) : Nat × Nat := ((s % U8) &&& mask8 count, s >>> count)

/-- `BitStream::consume_bit() -> bool` (as 0/1) -/
def consumeBit (s : Nat) : Nat × Nat := ((s % U8) &&& 1, s >>> 1)

/-- `BitStream::consume_bits_64(count) -> u64` -/
def consumeBits64 (count s : Nat) : Nat × Nat :=
  let bits := s % U64
  let bits := if count < 64 then bits &&& (((1 <<< count) % U64 + U64 - 1) % U64) else bits
  (bits, s >>> count)

/-- `[0_u8; k].map(|_| stream.consume_bits(count))` : `k` reads in array order -/
def consumeN : Nat → Nat → Nat → List Nat × Nat
  | 0, _, s => ([], s)
  | k + 1, c, s =>
    let r := consumeBits c s
    let rest := consumeN k c r.2
    (r.1 :: rest.1, rest.2)

/-! ### `Indexes` (bcn_util.rs) -/

/-- `Indexes::get_mask` : `(1 << bits) - 1` in `u64` -/
def getMask (bits : Nat) : Nat := ((1 <<< bits) % U64 + U64 - 1) % U64

/-- `Indexes::decompress_single_index(bits, compressed, index) -> u64` -/
def decompressSingleIndex (bits compressed index : Nat) : Nat :=
  let mask := getMask bits
  let keepCount := (index * bits) % U8
  let keep := compressed &&& (((1 <<< keepCount) % U64 + U64 - 1) % U64)
  let c := compressed >>> keepCount
  let c := (c <<< 1) % U64
  let first := c &&& mask
  let c := (c &&& (U64 - 1 - mask)) ||| (first >>> 1)
  let c := (c <<< keepCount) % U64
  c ||| keep

/-- `Indexes { uncompressed, bits, mask }` -/
structure Indexes where
  unc : Nat
  bits : Nat
  mask : Nat

/-- `Indexes::new_p1` -/
def newP1 (bits s : Nat) : Indexes × Nat :=
  let r := consumeBits64 (16 * bits - 1) s
  (⟨decompressSingleIndex bits r.1 0, bits, getMask bits⟩, r.2)
/-- `Indexes::new_p2` -/
def newP2 (bits s fix2 : Nat) : Indexes × Nat :=
  let r := consumeBits64 (16 * bits - 2) s
  let c := decompressSingleIndex bits r.1 0
  let c := decompressSingleIndex bits c fix2
  (⟨c, bits, getMask bits⟩, r.2)
/-- `Indexes::new_p3` -/
def newP3 (bits s fix2 fix3 : Nat) : Indexes × Nat :=
  let r := consumeBits64 (16 * bits - 3) s
  let c := decompressSingleIndex bits r.1 0
  let c := decompressSingleIndex bits c fix2
  let c := decompressSingleIndex bits c fix3
  (⟨c, bits, getMask bits⟩, r.2)
/-- `Indexes::get_index(pixel_index) -> u8` -/
def getIndex (ix : Indexes) (pixel : Nat) : Nat := ((ix.unc >>> (pixel * ix.bits)) &&& ix.mask) % U8

/-! ### bc7.rs -/

/-- `u8::trailing_zeros` (8 for 0) -/
def trailingZeros8 (x : Nat) : Nat :=
  if x % 2 = 1 then 0 else if x % 4 = 2 then 1 else if x % 8 = 4 then 2 else if x % 16 = 8 then 3
  else if x % 32 = 16 then 4 else if x % 64 = 32 then 5 else if x % 128 = 64 then 6
  else if x % 256 = 128 then 7 else 8

/-- `extract_mode` : (mode, state after `skip(mode + 1)`) -/
def extractMode (s : Nat) : Nat × Nat :=
  let mode := trailingZeros8 (s % U8)
  (mode, s >>> (mode + 1))

/-- `promote(number, number_bits)` on `u8` -/
def promote (number bits : Nat) : Nat :=
  let n := (number <<< (8 - bits)) % U8
  n ||| (n >>> bits)

/-- `(x << 1) | p` on `u8` -/
def withP (x p : Nat) : Nat := ((x <<< 1) % U8) ||| p

def WEIGHTS_2 : List Nat := implW7_2
def WEIGHTS_3 : List Nat := implW7_3
def WEIGHTS_4 : List Nat := implW7_4

/-- `((w0 * e0 as u16 + w1 * e1 as u16 + 128) >> 8) as u8` with `w0 = 256 - weight` in `u16` -/
def lerp (e0 e1 weight : Nat) : Nat :=
  let w0 := (256 + U16 - weight) % U16
  (((((w0 * e0) % U16 + (weight * e1) % U16) % U16 + 128) % U16) >>> 8) % U8

/-- `interpolate_2_or_3` -/
def interpolate23 (e0 e1 index indexBits : Nat) : Nat :=
  let weight := if indexBits = 2 then WEIGHTS_2.getD index 0 else WEIGHTS_3.getD index 0
  lerp e0 e1 weight

def px (c : List Nat) (i : Nat) : Nat := c.getD i 0

/-- `swap_channels` for one pixel -/
def swapChannels (p : List Nat) (rotation : Nat) : List Nat :=
  if rotation = 1 then [px p 3, px p 1, px p 2, px p 0]
  else if rotation = 2 then [px p 0, px p 3, px p 2, px p 1]
  else if rotation = 3 then [px p 0, px p 1, px p 3, px p 2]
  else p

/-- `get_end_points_2(mode, stream)` for modes 4, 5, 6 : two RGBA endpoints -/
def getEndPoints2 (mode s : Nat) : List (List Nat) × Nat :=
  if mode = 4 then
    let r := consumeN 2 5 s
    let g := consumeN 2 5 r.2
    let b := consumeN 2 5 g.2
    let a := consumeN 2 6 b.2
    ((List.range 2).map (fun i => [promote (px r.1 i) 5, promote (px g.1 i) 5, promote (px b.1 i) 5,
        promote (px a.1 i) 6]), a.2)
  else if mode = 5 then
    let r := consumeN 2 7 s
    let g := consumeN 2 7 r.2
    let b := consumeN 2 7 g.2
    let a := consumeN 2 8 b.2
    ((List.range 2).map (fun i => [promote (px r.1 i) 7, promote (px g.1 i) 7, promote (px b.1 i) 7,
        px a.1 i]), a.2)
  else
    let r := consumeN 2 7 s
    let g := consumeN 2 7 r.2
    let b := consumeN 2 7 g.2
    let a := consumeN 2 7 b.2
    let p0 := consumeBit a.2
    let p1 := consumeBit p0.2
    let p := [p0.1, p1.1]
    ((List.range 2).map (fun i => [withP (px r.1 i) (px p i), withP (px g.1 i) (px p i),
        withP (px b.1 i) (px p i), withP (px a.1 i) (px p i)]), p1.2)

/-- `k` successive `consume_bit` -/
def consumeBitsEach : Nat → Nat → List Nat × Nat
  | 0, s => ([], s)
  | k + 1, s =>
    let r := consumeBit s
    let rest := consumeBitsEach k r.2
    (r.1 :: rest.1, rest.2)

/-- `get_end_points_4(mode, stream)` for modes 1, 3, 7 : four RGBA endpoints -/
def getEndPoints4 (mode s : Nat) : List (List Nat) × Nat :=
  if mode = 1 then
    let r := consumeN 4 6 s
    let g := consumeN 4 6 r.2
    let b := consumeN 4 6 g.2
    let p := consumeBitsEach 2 b.2
    -- p is shared between the endpoints of one subset: endpoint i uses p[i / 2]
    ((List.range 4).map (fun i => [promote (withP (px r.1 i) (px p.1 (i / 2))) 7,
        promote (withP (px g.1 i) (px p.1 (i / 2))) 7, promote (withP (px b.1 i) (px p.1 (i / 2))) 7, 255]), p.2)
  else if mode = 3 then
    let r := consumeN 4 7 s
    let g := consumeN 4 7 r.2
    let b := consumeN 4 7 g.2
    let p := consumeBitsEach 4 b.2
    ((List.range 4).map (fun i => [withP (px r.1 i) (px p.1 i), withP (px g.1 i) (px p.1 i),
        withP (px b.1 i) (px p.1 i), 255]), p.2)
  else
    let r := consumeN 4 5 s
    let g := consumeN 4 5 r.2
    let b := consumeN 4 5 g.2
    let a := consumeN 4 5 b.2
    let p := consumeBitsEach 4 a.2
    ((List.range 4).map (fun i => [promote (withP (px r.1 i) (px p.1 i)) 6, promote (withP (px g.1 i) (px p.1 i)) 6,
        promote (withP (px b.1 i) (px p.1 i)) 6, promote (withP (px a.1 i) (px p.1 i)) 6]), p.2)

/-- `get_end_points_6(mode, stream)` for modes 0, 2 : six RGBA endpoints -/
def getEndPoints6 (mode s : Nat) : List (List Nat) × Nat :=
  if mode = 0 then
    let r := consumeN 6 4 s
    let g := consumeN 6 4 r.2
    let b := consumeN 6 4 g.2
    let p := consumeBitsEach 6 b.2
    ((List.range 6).map (fun i => [promote (withP (px r.1 i) (px p.1 i)) 5, promote (withP (px g.1 i) (px p.1 i)) 5,
        promote (withP (px b.1 i) (px p.1 i)) 5, 255]), p.2)
  else
    let r := consumeN 6 5 s
    let g := consumeN 6 5 r.2
    let b := consumeN 6 5 g.2
    ((List.range 6).map (fun i => [promote (px r.1 i) 5, promote (px g.1 i) 5, promote (px b.1 i) 5, 255]), b.2)

def ep (e : List (List Nat)) (i : Nat) : List Nat := e.getD i []

/-- `mode_subset_2::<MODE>` (modes 1, 3, 7) -/
def modeSubset2 (mode s : Nat) : List (List Nat) :=
  let pid := consumeBits 6 s
  let map := implP2 pid.1
  let e := getEndPoints4 mode pid.2
  let indexBits := if mode = 1 then 3 else 2
  let ix := newP2 indexBits e.2 map.2
  (List.range 16).map fun pixel =>
    let sub := subset2Index map pixel
    let c0 := if sub = 0 then ep e.1 0 else ep e.1 2
    let c1 := if sub = 0 then ep e.1 1 else ep e.1 3
    let index := getIndex ix.1 pixel
    [interpolate23 (px c0 0) (px c1 0) index indexBits, interpolate23 (px c0 1) (px c1 1) index indexBits,
     interpolate23 (px c0 2) (px c1 2) index indexBits, interpolate23 (px c0 3) (px c1 3) index indexBits]

/-- `mode_subset_3::<MODE>` (modes 0, 2) -/
def modeSubset3 (mode s : Nat) : List (List Nat) :=
  let pid := consumeBits (if mode = 0 then 4 else 6) s
  let map := implP3 pid.1
  let e := getEndPoints6 mode pid.2
  let indexBits := if mode = 0 then 3 else 2
  let ix := newP3 indexBits e.2 map.2.1 map.2.2
  (List.range 16).map fun pixel =>
    let sub := min (subset3Index map pixel) 2
    let c0 := ep e.1 (2 * sub)
    let c1 := ep e.1 (2 * sub + 1)
    let index := getIndex ix.1 pixel
    [interpolate23 (px c0 0) (px c1 0) index indexBits, interpolate23 (px c0 1) (px c1 1) index indexBits,
     interpolate23 (px c0 2) (px c1 2) index indexBits, interpolate23 (px c0 3) (px c1 3) index indexBits]

/-- `interpolate_colors_alpha` -/
def interpolateColorsAlpha (c0 c1 : List Nat) (cw aw : Nat) : List Nat :=
  [lerp (px c0 0) (px c1 0) cw, lerp (px c0 1) (px c1 1) cw, lerp (px c0 2) (px c1 2) cw,
   lerp (px c0 3) (px c1 3) aw]

/-- `mode_4` -/
def mode4 (s : Nat) : List (List Nat) :=
  let ri := consumeBits 3 s
  let rotation := ri.1 &&& 3
  let indexMode := (ri.1 &&& 4) ≠ 0
  let e := getEndPoints2 4 ri.2
  let ci := newP1 2 e.2
  let ai := newP1 3 ci.2
  (List.range 16).map fun pixel =>
    let cw := WEIGHTS_2.getD (getIndex ci.1 pixel) 0
    let aw := WEIGHTS_3.getD (getIndex ai.1 pixel) 0
    let cw' := if indexMode then aw else cw
    let aw' := if indexMode then cw else aw
    swapChannels (interpolateColorsAlpha (ep e.1 0) (ep e.1 1) cw' aw') rotation

/-- `mode_5` -/
def mode5 (s : Nat) : List (List Nat) :=
  let rot := consumeBits 2 s
  let e := getEndPoints2 5 rot.2
  let ci := newP1 2 e.2
  let ai := newP1 2 ci.2
  (List.range 16).map fun pixel =>
    let cw := WEIGHTS_2.getD (getIndex ci.1 pixel) 0
    let aw := WEIGHTS_2.getD (getIndex ai.1 pixel) 0
    swapChannels (interpolateColorsAlpha (ep e.1 0) (ep e.1 1) cw aw) rot.1

/-- `mode_6` (`interpolate_colors`) -/
def mode6 (s : Nat) : List (List Nat) :=
  let e := getEndPoints2 6 s
  let ix := newP1 4 e.2
  (List.range 16).map fun pixel =>
    let w := WEIGHTS_4.getD (getIndex ix.1 pixel) 0
    interpolateColorsAlpha (ep e.1 0) (ep e.1 1) w w

/-- `decode_bc7_block(block) -> [[u8; 4]; 16]`, `block` = `u128::from_le_bytes` -/
def decodeBlock (block : Nat) : List (List Nat) :=
  let m := extractMode block
  if m.1 = 0 then modeSubset3 0 m.2
  else if m.1 = 1 then modeSubset2 1 m.2
  else if m.1 = 2 then modeSubset3 2 m.2
  else if m.1 = 3 then modeSubset2 3 m.2
  else if m.1 = 4 then mode4 m.2
  else if m.1 = 5 then mode5 m.2
  else if m.1 = 6 then mode6 m.2
  else if m.1 = 7 then modeSubset2 7 m.2
  else List.replicate 16 [0, 0, 0, 0]

end Dds.Bc7
