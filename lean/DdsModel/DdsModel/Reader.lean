/-
C01 — the composed reader: bytes → words → header → format → layout → iterator → decode calls over a
stream that may be short or faulty.

Nothing here is a new model of library code: the file only *composes* the existing models
* `Header.lean` / `HeaderTables.lean`   `Header::read` (strict and permissive), `PixelInfo::from_header`
* `FormatTables.lean`                   `Format::from_header`, `impl From<Format> for PixelInfo`
* `Layout.lean`                         `DataLayout::from_header_with`
* `Iter.lean`                           `SurfaceIterator`
* `Stream.lean`                         `decode` / `decode_rect` / `io_skip_exact` over an `Env`
in the order in which src/decoder.rs calls them:

  `Decoder::new_with_options` = `Header::read` ; `Format::from_header` ; `DataLayout::from_header_with`
                                ; `SurfaceIterator::new`
  `Decoder::{read_surface, read_surface_rect, skip_surface, skip_mipmaps, read_cube_map,
             rewind_to_previous_surface, rewind_to_start}`

`Decoder.lean` (C08) models the same calls over an ideal, long enough reader; here the reader is the
`Stream.Env` (any length, optional hard error, optional early end of file, either `seek` behaviour),
so a call can also end in an I/O error, and the reader position is absolute.
`R.panic` / `OpenErr.panic` stand for a Rust panic (`unwrap`, `expect`, index, `assert!`, overflow
trap); `Theorems/C01.lean` shows they are never produced.
-/
import DdsModel.HeaderTables
import DdsModel.FormatTables
import DdsModel.Stream
import DdsModel.Decoder
namespace Dds.Reader
open Dds Dds.Stream

/-- the part of a header `Format::from_header` looks at -/
def hdrOf : Header → C19.Hdr
  | .dx9 x =>
    match x.pixelFormat with
    | .fourCC c => .fourCC c
    | .mask m => .mask ⟨m.flags, m.rgbBitCount.toU32, m.rMask, m.gMask, m.bMask, m.aMask⟩
  | .dx10 x => .dx10 x.dxgiFormat x.alphaMode.toU32

inductive OpenErr where
  | header (e : HeaderErr)
  | format (e : C19.FmtErr)
  | layout (e : LayoutErr)
  /-- a Rust panic (an `unwrap()` in `impl From<Format> for PixelInfo`, `get_decoders`, the layout code) -/
  | panic
deriving Repr, Inhabited

/-- a successfully created `Decoder` -/
structure Opened where
  header : Header
  format : C19.Format
  /-- the helper family `get_decoders(format)` dispatches to -/
  fam : Fam
  /-- `PixelInfo::from(format)` -/
  px : PixelInfo
  layout : DataLayout
  /-- the unread words: the data section -/
  rest : List Nat

/-- `Decoder::new_with_options` on a stream of `u32` words -/
def openWords (opts : ParseOptions) (ws : List Nat) : Except OpenErr Opened :=
  match Header.read pixelInfoOf opts ws with
  | .error e => .error (.header e)
  | .ok (h, rest) =>
    match C19.formatOfHeader (hdrOf h) with
    | .error e => .error (.format e)
    | .ok f =>
      match C19.formatPixelInfoP f, lookupFormat f.name with
      | some px, some fam =>
        match layoutOf h.toLayoutHeader px with
        | none => .error .panic
        | some (.error e) => .error (.layout e)
        | some (.ok L) => .ok ⟨h, f, fam, px, L, rest⟩
      | _, _ => .error .panic

/-- ... on a byte string -/
def openBytes (opts : ParseOptions) (bs : List Nat) : Except OpenErr Opened :=
  openWords opts (leWords bs)

/-- `DataLayout::from_header`: `PixelInfo::from_header` then `from_header_with`; outer `none` = panic,
`some none` = the format error of `PixelInfo::from_header` -/
def layoutFromHeader (h : Header) : Option (Option (Except LayoutErr DataLayout)) :=
  match pixelInfoOf h with
  | none => some none
  | some px => (layoutOf h.toLayoutHeader px).map some

/-! ### decoder calls over an arbitrary stream -/

/-- result kinds of the `Decoder` calls -/
inductive R where
  | ok | io | noMoreSurfaces | unexpectedSurfaceSize | rectOutOfBounds
  | cannotSkipMipmapsInVolume | notACubeMap | memoryLimitExceeded | panic
deriving DecidableEq, Repr, Inhabited

def ofRes : Res → R
  | .ok => .ok
  | .ioError => .io
  | .memLimit => .memoryLimitExceeded
  | .rectOutOfBounds => .rectOutOfBounds
  | .panic => .panic

/-- the mutable part of a `Decoder`: iterator, absolute reader position, `options.memory_limit` -/
structure RS where
  iter : SurfIter
  pos : Nat
  limit : Nat
deriving Repr, Inhabited

inductive Op where
  | read (w h : Nat) (c : Colour)
  | rect (ox oy w h : Nat) (c : Colour)
  | skipSurface
  | skipMipmaps
  | cube (w h : Nat) (c : Colour)
  | setLimit (l : Nat)
  | rewindPrev
  | rewindStart
deriving Repr, Inhabited

/-- the operations C01 speaks about (the rewinding calls document a panic for data sections above
`i64::MAX` bytes and are not in its list) -/
def Op.inC01 : Op → Bool
  | .rewindPrev => false
  | .rewindStart => false
  | _ => true

/-- the static part of a `Decoder` together with the stream it reads -/
structure Cfg where
  env : Env
  fam : Fam
  layout : DataLayout

/-- `decode` / `decode_rect` at the current reader position -/
def decodeCall (k : Cfg) (c : Colour) (call : Call) (s : RS) : R × Nat :=
  let r := Stream.run k.env [] (plan k.fam c call) s.pos s.limit
  (ofRes r.1, r.2.pos)

/-- `Decoder::read_surface` -/
def readSurface (k : Cfg) (s : RS) (w h : Nat) (c : Colour) : RS × R :=
  match s.iter.currentP with
  | none => (s, .panic)
  | some none => (s, .noMoreSurfaces)
  | some (some cur) =>
    if normSize w h ≠ (cur.w, cur.h) then (s, .unexpectedSurfaceSize) else
    let r := decodeCall k c (.full (normSize w h).1 (normSize w h).2) s
    match r.1 with
    | .ok =>
      match s.iter.advanceP with
      | none => ({ s with pos := r.2 }, .panic)
      | some it => ({ s with iter := it, pos := r.2 }, .ok)
    | e => ({ s with pos := r.2 }, e)

/-- `Decoder::read_surface_rect` -/
def readRect (k : Cfg) (s : RS) (ox oy w h : Nat) (c : Colour) : RS × R :=
  match s.iter.currentP with
  | none => (s, .panic)
  | some none => (s, .noMoreSurfaces)
  | some (some cur) =>
    let r := decodeCall k c (.rect cur.w cur.h ox oy (normSize w h).1 (normSize w h).2) s
    match r.1 with
    | .ok =>
      match s.iter.advanceP with
      | none => ({ s with pos := r.2 }, .panic)
      | some it => ({ s with iter := it, pos := r.2 }, .ok)
    | e => ({ s with pos := r.2 }, e)

/-- `Decoder::skip_surface` -/
def skipSurface (k : Cfg) (s : RS) : RS × R :=
  match s.iter.currentP with
  | none => (s, .panic)
  | some none => (s, .noMoreSurfaces)
  | some (some cur) =>
    let r := skipExact k.env s.pos cur.len
    if r.1 then
      match s.iter.advanceP with
      | none => ({ s with pos := r.2 }, .panic)
      | some it => ({ s with iter := it, pos := r.2 }, .ok)
    else ({ s with pos := r.2 }, .io)

/-- `Decoder::skip_mipmaps`: the iterator moves first, then the reader is asked to skip -/
def skipMipmaps (k : Cfg) (s : RS) : RS × R :=
  match s.iter.skipMipmapsP with
  | none => (s, .panic)
  | some (.error _) => (s, .cannotSkipMipmapsInVolume)
  | some (.ok (it, n)) =>
    let r := skipExact k.env s.pos n
    ({ s with iter := it, pos := r.2 }, if r.1 then .ok else .io)

/-- the loop over the present faces in `Decoder::read_cube_map` -/
def cubeLoop (k : Cfg) (faces fw fh : Nat) (c : Colour) : List (Nat × Nat × Nat) → RS → RS × R
  | [], s => (s, .ok)
  | (bit, _, _) :: rest, s =>
    if !hasFace faces bit then cubeLoop k faces fw fh c rest s else
    match s.iter.currentP with
    | none => (s, .panic)
    | some none => (s, .noMoreSurfaces)
    | some (some cur) =>
      if (cur.w, cur.h) ≠ (fw, fh) then (s, .unexpectedSurfaceSize) else
      -- the crop `ImageViewMut::new_with(image.cropped_data(..), ..).expect(..)` is C20's `crop_spec`
      match readSurface k s fw fh c with
      | (s1, .ok) =>
        match skipMipmaps k s1 with
        | (s2, .ok) => cubeLoop k faces fw fh c rest s2
        | (s2, e) => (s2, e)
      | (s1, e) => (s1, e)

/-- `Decoder::read_cube_map` -/
def readCubeMap (k : Cfg) (s : RS) (w h : Nat) (c : Colour) : RS × R :=
  match k.layout with
  | .textureArray a =>
    let faces? : Option Nat := match a.kind with
      | .textures => none
      | .cubeMaps => some 63
      | .partialCubeMap f => some f
    match faces? with
    | none => (s, .notACubeMap)
    | some faces =>
      if ckMul32 a.w 4 ≠ some (normSize w h).1 ∨ ckMul32 a.h 3 ≠ some (normSize w h).2 then
        (s, .unexpectedSurfaceSize)
      else cubeLoop k faces a.w a.h c faceOffsets s
  | _ => (s, .notACubeMap)

/-- `reader.seek(SeekFrom::Current(-delta))`: the target may be negative (`InvalidInput`) -/
def seekBack (e : Env) (pos delta : Nat) : Bool × Nat :=
  if pos < delta then (false, pos)
  else if seekFails e (pos - delta) then (false, pos)
  else (true, seekLand e pos (pos - delta))

/-- one call of the decoder -/
def step (k : Cfg) (s : RS) : Op → RS × R
  | .read w h c => readSurface k s w h c
  | .rect ox oy w h c => readRect k s ox oy w h c
  | .skipSurface => skipSurface k s
  | .skipMipmaps => skipMipmaps k s
  | .cube w h c => readCubeMap k s w h c
  | .setLimit l => ({ s with limit := l }, .ok)
  | .rewindPrev =>
    match s.iter.elapsedP, s.iter.rewindP with
    | some cur, some it =>
      match it.elapsedP with
      | none => (s, .panic)
      | some prev =>
        let delta := wSub cur prev
        if delta > I64MAX then ({ s with iter := it }, .panic)
        else
          let r := seekBack k.env s.pos delta
          ({ s with iter := it, pos := r.2 }, if r.1 then .ok else .io)
    | _, _ => (s, .panic)
  | .rewindStart =>
    match s.iter.elapsedP with
    | none => (s, .panic)
    | some el =>
      if el > I64MAX then (s, .panic)
      else
        let r := seekBack k.env s.pos el
        if r.1 then ({ s with iter := SurfIter.new k.layout, pos := r.2 }, .ok)
        else ({ s with pos := r.2 }, .io)

/-- a whole call sequence -/
def runOps (k : Cfg) : RS → List Op → RS × List R
  | s, [] => (s, [])
  | s, op :: rest =>
    let r := step k s op
    let t := runOps k r.1 rest
    (t.1, r.2 :: t.2)

end Dds.Reader
