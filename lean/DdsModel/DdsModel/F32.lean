/-
Software IEEE-754 binary32, used in two roles:

* specification side: `roundF32 : Rat → Nat` is "the bit pattern of the binary32 value nearest to q"
  (round to nearest, ties to even, gradual underflow, overflow to infinity);
* implementation side: every Rust `f32` operation `a ∘ b` is modelled as `roundF32 (toRat a ∘ toRat b)`,
  which is what IEEE-754 prescribes for `+ - * /` and `sqrt` (correct rounding).

Lean's `Float`/`Float32` are never used.  NaN / infinities as *operands* and the sign of zero are not
modelled (they do not occur in the decoders that use this file).
-/
namespace Dds.F32

/-- `n/d ≥ 2^e` -/
def geTwoPow (n d : Nat) (e : Int) : Bool :=
  if e ≥ 0 then decide (d <<< e.toNat ≤ n) else decide (d ≤ n <<< (-e).toNat)

/-- the `e` with `2^e ≤ n/d < 2^(e+1)` (for `n, d > 0`) -/
def ilog2Q (n d : Nat) : Int :=
  let e0 : Int := (Nat.log2 n : Int) - (Nat.log2 d : Int)
  if geTwoPow n d e0 then e0 else e0 - 1

/-- bit pattern of the binary32 nearest to `n/d ≥ 0` (`d > 0`), ties to even -/
def roundF32Q (n d : Nat) : Nat :=
  if n = 0 then 0 else
  let e := ilog2Q n d
  let ee : Int := if e < -126 then -126 else e       -- exponent of the binade (subnormals share -126)
  let sh : Int := 23 - ee                            -- significand = n/d * 2^sh
  let num := if sh ≥ 0 then n <<< sh.toNat else n
  let den := if sh ≥ 0 then d else d <<< (-sh).toNat
  let q := num / den
  let r := num % den
  let m := if 2 * r > den ∨ (2 * r = den ∧ q % 2 = 1) then q + 1 else q
  -- normal: (ee+127) <<< 23 + (m - 2^23); subnormal: m; a carry to 2^24 moves into the exponent
  let bits := (ee + 126).toNat * 8388608 + m
  if bits ≥ 0x7F800000 then 0x7F800000 else bits

/-- bit pattern of the binary32 nearest to `q` -/
def roundF32 (q : Rat) : Nat :=
  if q.num < 0 then 0x80000000 + roundF32Q q.num.natAbs q.den else roundF32Q q.num.natAbs q.den

/-- `2^e` -/
def pow2 (e : Int) : Rat :=
  if e ≥ 0 then ((2 ^ e.toNat : Nat) : Rat) else 1 / ((2 ^ (-e).toNat : Nat) : Rat)

/-- value of a finite binary32 bit pattern -/
def toRat (b : Nat) : Rat :=
  let ex := (b / 8388608) % 256
  let m := b % 8388608
  let mag : Rat :=
    if ex = 0 then (m : Rat) * pow2 (-149) else ((8388608 + m : Nat) : Rat) * pow2 ((ex : Int) - 150)
  if b / 2147483648 % 2 = 1 then -mag else mag

/-- `x as f32` for an integer (`u8`/`u16`: exact) -/
def ofNat (x : Nat) : Nat := roundF32 (x : Rat)
def mul (a b : Nat) : Nat := roundF32 (toRat a * toRat b)
def add (a b : Nat) : Nat := roundF32 (toRat a + toRat b)
def sub (a b : Nat) : Nat := roundF32 (toRat a - toRat b)
/-- IEEE-754 division is correctly rounded (modelling assumption; `b ≠ 0`) -/
def div (a b : Nat) : Nat := roundF32 (toRat a / toRat b)
/-- a constant expression `x / y` of two literals, evaluated in `f32` -/
def divLit (x y : Nat) : Nat := roundF32 ((x : Rat) / (y : Rat))
/-- `a.max(0.0)` -/
def max0 (a : Nat) : Nat := if toRat a < 0 then 0 else a

/-- correctly rounded square root of a non-negative finite value -/
def sqrt (a : Nat) : Nat :=
  let ex := (a / 8388608) % 256
  let m0 := a % 8388608
  if a ≥ 0x80000000 ∨ (ex = 0 ∧ m0 = 0) then 0 else
  -- value = m * 2^e
  let m := if ex = 0 then m0 else 8388608 + m0
  let e : Int := if ex = 0 then -149 else (ex : Int) - 150
  -- make the exponent even
  let odd := e % 2 ≠ 0
  let m := if odd then 2 * m else m
  let e := if odd then e - 1 else e
  -- sqrt (m * 2^e) = sqrt (m * 2^60) * 2^(e/2 - 30); ≥ 41 significant bits in `s`
  let big := m <<< 60
  let s := Nat.sqrt big
  let sticky := if s * s = big then 0 else 1
  -- (2s + sticky) / 2 rounds like the true root at 24 bits
  let h : Int := e / 2 - 31
  if h ≥ 0 then roundF32Q ((2 * s + sticky) <<< h.toNat) 1 else roundF32Q (2 * s + sticky) (1 <<< (-h).toNat)

/-- `x as u8` for a finite value: truncate toward zero, saturate -/
def toU8 (a : Nat) : Nat :=
  let q := toRat a
  if q < 0 then 0 else
  let f := q.floor.toNat
  if f > 255 then 255 else f

/-- distance in units in the last place between two non-negative finite patterns -/
def ulpDist (a b : Nat) : Nat := if a ≤ b then b - a else a - b

end Dds.F32
