/-
C13 — the DISCRETE logic of the block-compression encoders that fixes which blocks can be emitted
(`src/encode/bc1.rs`, `bc.rs`, `bc4.rs`, `bc7.rs`), the emitted-block predicate `Portable`, and the
per-format quantisation step bounds used by the oracle.

NOT modelled (float code): endpoint search (line fit, least squares, refinement, quantisation choice),
palette construction and closest-entry search in f32/Oklab, BC7 mode / partition / p-bit search, dithering.
What is modelled is everything the property's portability clauses rest on, plus the encoders' fully
discrete single-colour paths (BC7 all colours; BC4-type UNORM 8-bit values; 5:6:5 corner colours),
which are compared byte for byte with `dds::encode` in the tie.
-/
import DdsModel.Bc
import DdsModel.BcSpec
import DdsModel.Bc7
namespace Dds.Enc13
open Dds Dds.Bc

/-! ### `R5G6B5Color`, `EndPoints::new_p4`, `EndPoints::new_p3_default` (bc1.rs) -/

/-- `struct R5G6B5Color { r: u8, g: u8, b: u8 }` -/
structure C565 where
  r : Nat
  g : Nat
  b : Nat
  deriving DecidableEq, Repr

/-- `debug_check`: `r < 32`, `g < 64`, `b < 32` -/
def C565.Valid (c : C565) : Prop := c.r < 32 ∧ c.g < 64 ∧ c.b < 32

instance (c : C565) : Decidable c.Valid := by unfold C565.Valid; infer_instance

/-- `to_u16`: `((r as u16) << 11) | ((g as u16) << 5) | b as u16` -/
def C565.toU16 (c : C565) : Nat := w16 (c.r <<< 11) ||| w16 (c.g <<< 5) ||| c.b

/-- `EndPoints::new_p4(c0, c1)` → `(c0, c1)` after the swap / tie-break.
`c1.b -= 1` is a `u8` subtraction guarded by `c1.b != 0`. -/
def newP4 (c0 c1 : C565) : C565 × C565 :=
  let c0u := c0.toU16
  let c1u := c1.toU16
  if c0u < c1u then (c1, c0)
  else if c0u = c1u then
    if c1.b = 0 then ({ c0 with b := 1 }, c1) else (c0, { c1 with b := w8 (c1.b + 256 - 1) })
  else (c0, c1)

/-- `EndPoints::new_p3_default(c0, c1)` -/
def newP3Default (c0 c1 : C565) : C565 × C565 :=
  if c0.toU16 > c1.toU16 then (c1, c0) else (c0, c1)

/-- `EndPoints::with_indexes`: the 8 bytes of a colour block -/
def withIndexes (e : C565 × C565) (indexes : Nat) : List Nat :=
  let c0 := e.1.toU16
  let c1 := e.2.toU16
  [c0 % 256, c0 / 256, c1 % 256, c1 / 256,
   indexes % 256, indexes / 256 % 256, indexes / 65536 % 256, indexes / 16777216 % 256]

/-! ### alpha map and mode choice of `compress_bc1_block` / `compress` (bc1.rs), options of bc.rs -/

/-- `pixel[3] >= ALPHA_THRESHOLD` (0.5) for an 8-bit input alpha `a` (`n8::f32(a) = a/255`, and
`a/255 ≥ 1/2 ⟺ 2a ≥ 255`; no 8-bit value is within 1/510 of the threshold, so f32 rounding is immaterial;
an f32 input alpha of exactly 0.5 is OPAQUE: the comparison is `>=`) -/
def opaque8 (a : Nat) : Bool := decide (2 * a ≥ 255)

/-- `get_alpha_map`: bit `i` = pixel `i` is opaque (`set_opaque_if`, `u16`) -/
def alphaMap (alphas : List Nat) : Nat :=
  (List.range alphas.length).foldl (fun m i => m ||| w16 ((if opaque8 (alphas.getD i 0) then 1 else 0) <<< i)) 0

def ALL_OPAQUE : Nat := 65535
def ALL_TRANSPARENT : Nat := 0

/-- `TRANSPARENT_BLOCK` -/
def TRANSPARENT_BLOCK : List Nat := [0, 0, 0xFF, 0xFF, 0xFF, 0xFF, 0xFF, 0xFF]

/-- which palettes `compress_bc1_block` + `compress` may emit -/
inductive Choice
  | transparentBlock  -- the constant `TRANSPARENT_BLOCK`
  | p3                -- `compress_p3_default` only (there are transparent pixels)
  | p4                -- `compress_p4` only
  | best              -- both, `if p4_error < p3_error { p4 } else { p3 }`
  deriving DecidableEq, Repr

/-- `Bc1Options` fields that drive the choice: `no_p3_default` (⇒ `assume_opaque`), `opaque_always_p4` -/
def choice (noP3Default opaqueAlwaysP4 : Bool) (alphas : List Nat) : Choice :=
  let map := if noP3Default then ALL_OPAQUE else alphaMap alphas
  if map = ALL_TRANSPARENT then .transparentBlock
  else if map ≠ ALL_OPAQUE then .p3
  else if noP3Default || opaqueAlwaysP4 then .p4
  else .best

inductive Quality | fast | normal | high | unreasonable
  deriving DecidableEq, Repr

/-- `get_bc1_options`: `opaque_always_p4 = quality <= Normal`; `no_p3_default` stays `false` -/
def bc1Options (q : Quality) : Bool × Bool := (false, decide (q = .fast ∨ q = .normal))
/-- `get_bc3_options`: `no_p3_default = true` (BC2, BC2 premultiplied, BC3, BC3 premultiplied, RXGB, BC3n) -/
def bc3Options (q : Quality) : Bool × Bool := (true, (bc1Options q).2)

/-! ### `Palette::block_closest` index of transparent pixels -/

/-- `transparent_index()` of the P3 palette -/
def transparentIndex : Nat := 3

/-! ### the emitted-block predicate -/

/-- 2-bit index of pixel `p` in the colour block starting at byte `o` -/
def colourIndex (blk : Nat → Nat) (o p : Nat) : Nat := (le32 blk (o + 4) >>> (p * 2)) &&& 3

/-- A block the encoder may emit, in the sense of the property:
* BC1: four-colour mode, or index 3 only at pixels of the mask `ok3` (bit p = pixel p of the input is
  transparent or lies outside the image);
* BC2 / BC3 family: `colour0 > colour1` in the colour block (bytes 8..15);
* BC4 / BC5: no unspecified cases;
* BC7 (`none`): not the reserved mode (first byte 0). -/
def Portable (f : Option Fmt) (blk : Nat → Nat) (ok3 : Nat) : Bool :=
  match f with
  | some .bc1 =>
    decide (le16 blk 0 > le16 blk 2) ||
      (List.range 16).all fun p => colourIndex blk 0 p != 3 || ok3.testBit p
  | some .bc4u | some .bc4s | some .bc5u | some .bc5s => true
  | some _ => decide (le16 blk 8 > le16 blk 10)
  | none => blk 0 != 0

/-! ### quantisation step bounds (decoded 8-bit units) used by the oracle (harness/src/c13.rs) -/

/-- 5-bit endpoint channel: largest gap between adjacent decoded levels (`n5::n8`) -/
def STEP5 : Nat := 9
/-- 6-bit endpoint channel (`n6::n8`) -/
def STEP6 : Nat := 5
/-- BC2 explicit alpha (`n4::n8`, ×17) -/
def STEP4 : Nat := 17
/-- 8-bit UNORM endpoints -/
def STEP8U : Nat := 1
/-- 8-bit SNORM endpoints shown at 8 bit (`s8::n8`): 255 levels on 256 values -/
def STEP8S : Nat := 2
/-- BC7 colour: coarsest endpoint grid (mode 0: 4 bits + p-bit, `promote(·, 5)`) -/
def STEP7C : Nat := 9
/-- BC7 alpha: coarsest alpha grid (mode 4: `promote(·, 6)`) -/
def STEP7A : Nat := 5

/-- largest gap between consecutive values of `f` on `0..n` -/
def maxGap (f : Nat → Nat) (n : Nat) : Nat :=
  (List.range n).foldl (fun m k => max m (f (k + 1) - f k)) 0

/-! ### BC7 single-colour blocks (`compress_single_color`, `Compressed::mode5`, `BitStream`) -/

/-- `optimize(c)`: `(c >> 1, (if c < 128 { c + 1 } else { c - 1 }) >> 1)` on `u8` -/
def optimize (c : Nat) : Nat × Nat := (c >>> 1, (if c < 128 then w8 (c + 1) else w8 (c + 256 - 1)) >>> 1)

/-- `IndexList::<2>::constant(1)` -/
def constant1 : Nat := 0x55555555
/-- `compress_p1` of `constant(1)`: the MSB of index 0 is 0 (no swap); bit 1 is dropped -/
def compressP1 (indexes : Nat) : Nat × Bool :=
  let msb := 2
  let swap := indexes &&& msb != 0
  let indexes := if swap then indexes ^^^ 0xFFFFFFFF else indexes
  ((indexes &&& (msb - 1)) ||| ((indexes &&& (((0xFFFFFFFFFFFFFFFF - (msb - 1)) * 2) % U64)) >>> 1), swap)

/-- the `u128` of `compress_single_color(color).block`: mode 5, rotation 0, 7-bit colour endpoints
`optimize(c)`, 8-bit alpha endpoints `a, a`, colour and alpha indexes `constant(1)`.
`BitStream::write_u64(v, bits)`: `data |= v << self.bits; self.bits += bits`. -/
def bc7Single (r g b a : Nat) : Nat :=
  let w (st : Nat × Nat) (v bits : Nat) : Nat × Nat := (st.1 ||| (v <<< st.2), st.2 + bits)
  let ci := compressP1 constant1
  let ai := compressP1 constant1
  let (r0, r1) := optimize r
  let (g0, g1) := optimize g
  let (b0, b1) := optimize b
  -- color.swap(0, 1) if color_swap (never: see `C13.bc7_single_no_swap`)
  let (r0, r1) := if ci.2 then (r1, r0) else (r0, r1)
  let (g0, g1) := if ci.2 then (g1, g0) else (g0, g1)
  let (b0, b1) := if ci.2 then (b1, b0) else (b0, b1)
  let st := w (0, 0) (1 <<< 5) 6          -- write_mode(5)
  let st := w st 0 2                       -- write_rotation(Rotation::None)
  let st := w st r0 7
  let st := w st r1 7
  let st := w st g0 7
  let st := w st g1 7
  let st := w st b0 7
  let st := w st b1 7
  let st := w st a 8
  let st := w st a 8
  let st := w st ci.1 31
  let st := w st ai.1 31
  st.1

/-- little-endian bytes of a `u128` -/
def le128Bytes (v : Nat) : List Nat := (List.range 16).map fun i => v / 256 ^ i % 256

/-! ### BC4-type single values (`single_color`, `EndPoints::new_closest`, UNORM) -/

/-- `single_color(v/255, snorm = false)` for an 8-bit input `v`: `closest = (255·value + 0.5) as u8 = v`,
`|n8::f32(v) − value| < BC4_EPSILON`, so the block is `closest.with_indexes(IndexList::new_all(0))`
with `c1 = 0`.  (Not the path at `Unreasonable`, where `reference_brute_force` runs first.) -/
def bc4uSingle (v : Nat) : List Nat := [v, 0, 0, 0, 0, 0, 0, 0]

/-! ### BC4 endpoint pairs (`EndPoints::new_inter6`, `quantize`, `inter6_to_inter4`) -/

/-- the "make sure they are different" step of `EndPoints::new_inter6` / `quantize` on the rounded values
(`min_u8`, `max_u8`) with the floor / ceiling fall-backs -/
def fixDistinct (minR maxR minF maxC : Nat) : Nat × Nat :=
  if minR = maxR then
    if minF = maxC then (if minF = 0 then (minF, 1) else (minF - 1, maxC)) else (minF, maxC)
  else (minR, maxR)

/-! ### 5:6:5 single colours that are exactly representable (`compress_single_color`, `min == max`) -/

def BLACK : C565 := ⟨0, 0, 0⟩

/-- `compress_single_color` when `floor(color) == ceil(color) = c`:
`endpoints = create_endpoints(BLACK, c)`, all pixels get the index of the palette entry equal to the
colour (first minimum of `closest`): in P4 `c` is `c0` after the swap (index 0) unless `c` is black
(tie-break: `c0.b = 1`, the colour is `c1`, index 1); in P3 the colour is `c1` (index 1), black: index 0. -/
def exactSingle (p4 : Bool) (c : C565) : List Nat :=
  if p4 then
    withIndexes (newP4 BLACK c) (if c.toU16 = 0 then 0x55555555 else 0)
  else
    withIndexes (newP3Default BLACK c) (if c.toU16 = 0 then 0 else 0x55555555)

/-! ### specification-level palettes (over `BcSpec`) -/

/-- decoded 8-bit value of entry `k` of a one-channel BC1-type palette with `m`-level endpoints -/
def entry8 (four : Bool) (k e0 e1 m : Nat) : Nat := BcSpec.chan8 four k e0 e1 m

/-- smallest `|entry − g|` over all endpoint pairs `e0, e1 ≤ m` and entries `k < 4` of the four-colour palette -/
def bestErr (m g : Nat) : Nat :=
  (List.range (m + 1)).foldl (fun best e0 =>
    (List.range (m + 1)).foldl (fun best e1 =>
      (List.range 4).foldl (fun best k =>
        let v := entry8 true k e0 e1 m
        min best (if v ≥ g then v - g else g - v)) best) best) 256

/-! ### which bytes of a single-colour block the discrete model predicts -/

/-- corner value of an 8-bit channel as an `m`-level endpoint (`none`: not exactly representable; the
encoder tests `floor(v·m) == ceil(v·m)`, which for `v = e/255` holds iff `e ∈ {0, 255}`) -/
def corner (e m : Nat) : Option Nat := if e = 0 then some 0 else if e = 255 then some m else none

def corner565 (r g b : Nat) : Option C565 :=
  match corner r 31, corner g 63, corner b 31 with
  | some r, some g, some b => some ⟨r, g, b⟩
  | _, _, _ => none

/-- `(byte offset, bytes)` pieces of the block emitted for a 4×4 block of the single 8-bit colour
`(r, g, b, a)` (RGBA8 input, no dithering) that follow from the discrete logic alone. -/
def predictSingle (f : Option Fmt) (q : Quality) (r g b a : Nat) : List (Nat × List Nat) :=
  let bc4 (o v : Nat) : List (Nat × List Nat) := if q = .unreasonable then [] else [(o, bc4uSingle v)]
  let col (o : Nat) (p4 : Bool) (c : Option C565) : List (Nat × List Nat) :=
    match c with
    | some c => [(o, exactSingle p4 c)]
    | none => []
  match f with
  | none => [(0, le128Bytes (bc7Single r g b a))]
  | some .bc1 =>
    if opaque8 a then col 0 (bc1Options q).2 (corner565 r g b) else [(0, TRANSPARENT_BLOCK)]
  | some .bc2 => col 8 true (corner565 r g b)
  | some .bc2p => if a = 255 then col 8 true (corner565 r g b) else []
  | some .bc3 => bc4 0 a ++ col 8 true (corner565 r g b)
  | some .bc3p => bc4 0 a ++ (if a = 255 then col 8 true (corner565 r g b) else [])
  | some .rxgb => bc4 0 r ++ col 8 true (corner565 255 g b)
  | some .bc3n => bc4 0 r ++ col 8 true (corner565 255 g 0)
  | some .bc4u => bc4 0 r
  | some .bc5u => bc4 0 r ++ bc4 8 g
  | some _ => []

end Dds.Enc13
