/-
C13 — the DISCRETE logic of the block-compression encoders that fixes which blocks can be emitted
(`src/encode/bc1.rs`, `bc.rs`, `bc4.rs`, `bc7.rs`), the emitted-block predicate `Portable`, and the
per-format quantisation step bounds used by the oracle.

NOT modelled (float code): endpoint search (line fit, least squares, refinement, quantisation choice),
palette construction and closest-entry search in f32/Oklab, BC7 mode / partition / p-bit search, dithering.
What is modelled is everything the property's portability clauses rest on, plus the encoders' fully
discrete paths, which are compared with `dds::encode` in the tie on every run (`predictBlock`: bytes; `bc7Rule`:
constraints on the header fields of the emitted BC7 block):
  * single colours (BC7 all colours; BC4-type UNORM 8-bit values; 5:6:5 corner colours; BC1 transparent block);
  * BC2 explicit alpha of EVERY block (`bc2AlphaBlock`), border replication of partial blocks (`blockSrc`);
  * BC4-type UNORM / SNORM blocks of a constant channel (`bc4uSingle`, `bc4sSingle8`: the `closest` branch);
  * BC7 control flow: modes tried (`bc7ModesTried`), forced p-bits of opaque subsets (`possiblePBits`,
    `pickBestStates`, `subsetPBits`), rotations (`bc7RotationForced`, `bc7RotationsAllowed`), the constant separated
    channel of modes 4 / 5 (`singleAlpha`, `sepEndpoints`).
The f32 expressions that occur on these paths for 8-bit inputs (`n4::from_f32`, `closest_s8_norm` and the
`BC4_EPSILON` guard, `channel_round/floor/ceil`) are transcribed over the software binary32 of `F32.lean`; the closed
forms used beside them are proved equal on the whole 8-bit domain in `Proofs/Enc13F32.lean`, `Proofs/Enc13Sep.lean`.
-/
import DdsModel.Bc
import DdsModel.BcSpec
import DdsModel.Bc7
import DdsModel.Bc7Spec
import DdsModel.F32
namespace Dds.Enc13
open Dds Dds.Bc

/-! ### `R5G6B5Color`, `EndPoints::new_p4`, `EndPoints::new_p3_default` (bc1.rs) -/

/-- `struct R5G6B5Color { r: u8, g: u8, b: u8 }` -/
structure C565 where
  r : Nat
  g : Nat
  b : Nat
  deriving DecidableEq, Repr

/-- `debug_check`: `r < 32`, `g < 64`, `b < 32` -/
def C565.Valid (c : C565) : Prop := c.r < 32 ∧ c.g < 64 ∧ c.b < 32

instance (c : C565) : Decidable c.Valid := by unfold C565.Valid; infer_instance

/-- `to_u16`: `((r as u16) << 11) | ((g as u16) << 5) | b as u16` -/
def C565.toU16 (c : C565) : Nat := w16 (c.r <<< 11) ||| w16 (c.g <<< 5) ||| c.b

/-- `EndPoints::new_p4(c0, c1)` → `(c0, c1)` after the swap / tie-break.
`c1.b -= 1` is a `u8` subtraction guarded by `c1.b != 0`. -/
def newP4 (c0 c1 : C565) : C565 × C565 :=
  let c0u := c0.toU16
  let c1u := c1.toU16
  if c0u < c1u then (c1, c0)
  else if c0u = c1u then
    if c1.b = 0 then ({ c0 with b := 1 }, c1) else (c0, { c1 with b := w8 (c1.b + 256 - 1) })
  else (c0, c1)

/-- `EndPoints::new_p3_default(c0, c1)` -/
def newP3Default (c0 c1 : C565) : C565 × C565 :=
  if c0.toU16 > c1.toU16 then (c1, c0) else (c0, c1)

/-- `EndPoints::with_indexes`: the 8 bytes of a colour block -/
def withIndexes (e : C565 × C565) (indexes : Nat) : List Nat :=
  let c0 := e.1.toU16
  let c1 := e.2.toU16
  [c0 % 256, c0 / 256, c1 % 256, c1 / 256,
   indexes % 256, indexes / 256 % 256, indexes / 65536 % 256, indexes / 16777216 % 256]

/-! ### alpha map and mode choice of `compress_bc1_block` / `compress` (bc1.rs), options of bc.rs -/

/-- `pixel[3] >= ALPHA_THRESHOLD` (0.5) for an 8-bit input alpha `a` (`n8::f32(a) = a/255`, and
`a/255 ≥ 1/2 ⟺ 2a ≥ 255`; no 8-bit value is within 1/510 of the threshold, so f32 rounding is immaterial;
an f32 input alpha of exactly 0.5 is OPAQUE: the comparison is `>=`) -/
def opaque8 (a : Nat) : Bool := decide (2 * a ≥ 255)

/-- `get_alpha_map`: bit `i` = pixel `i` is opaque (`set_opaque_if`, `u16`) -/
def alphaMap (alphas : List Nat) : Nat :=
  (List.range alphas.length).foldl (fun m i => m ||| w16 ((if opaque8 (alphas.getD i 0) then 1 else 0) <<< i)) 0

def ALL_OPAQUE : Nat := 65535
def ALL_TRANSPARENT : Nat := 0

/-- `TRANSPARENT_BLOCK` -/
def TRANSPARENT_BLOCK : List Nat := [0, 0, 0xFF, 0xFF, 0xFF, 0xFF, 0xFF, 0xFF]

/-- which palettes `compress_bc1_block` + `compress` may emit -/
inductive Choice
  | transparentBlock  -- the constant `TRANSPARENT_BLOCK`
  | p3                -- `compress_p3_default` only (there are transparent pixels)
  | p4                -- `compress_p4` only
  | best              -- both, `if p4_error < p3_error { p4 } else { p3 }`
  deriving DecidableEq, Repr

/-- `Bc1Options` fields that drive the choice: `no_p3_default` (⇒ `assume_opaque`), `opaque_always_p4` -/
def choice (noP3Default opaqueAlwaysP4 : Bool) (alphas : List Nat) : Choice :=
  let map := if noP3Default then ALL_OPAQUE else alphaMap alphas
  if map = ALL_TRANSPARENT then .transparentBlock
  else if map ≠ ALL_OPAQUE then .p3
  else if noP3Default || opaqueAlwaysP4 then .p4
  else .best

inductive Quality | fast | normal | high | unreasonable
  deriving DecidableEq, Repr

/-- `get_bc1_options`: `opaque_always_p4 = quality <= Normal`; `no_p3_default` stays `false` -/
def bc1Options (q : Quality) : Bool × Bool := (false, decide (q = .fast ∨ q = .normal))
/-- `get_bc3_options`: `no_p3_default = true` (BC2, BC2 premultiplied, BC3, BC3 premultiplied, RXGB, BC3n) -/
def bc3Options (q : Quality) : Bool × Bool := (true, (bc1Options q).2)

/-! ### `Palette::block_closest` index of transparent pixels -/

/-- `transparent_index()` of the P3 palette -/
def transparentIndex : Nat := 3

/-! ### the emitted-block predicate -/

/-- 2-bit index of pixel `p` in the colour block starting at byte `o` -/
def colourIndex (blk : Nat → Nat) (o p : Nat) : Nat := (le32 blk (o + 4) >>> (p * 2)) &&& 3

/-- A block the encoder may emit, in the sense of the property:
* BC1: four-colour mode, or index 3 only at pixels of the mask `ok3` (bit p = pixel p of the input is
  transparent or lies outside the image);
* BC2 / BC3 family: `colour0 > colour1` in the colour block (bytes 8..15);
* BC4 / BC5: no unspecified cases;
* BC7 (`none`): not the reserved mode (first byte 0). -/
def Portable (f : Option Fmt) (blk : Nat → Nat) (ok3 : Nat) : Bool :=
  match f with
  | some .bc1 =>
    decide (le16 blk 0 > le16 blk 2) ||
      (List.range 16).all fun p => colourIndex blk 0 p != 3 || ok3.testBit p
  | some .bc4u | some .bc4s | some .bc5u | some .bc5s => true
  | some _ => decide (le16 blk 8 > le16 blk 10)
  | none => blk 0 != 0

/-! ### quantisation step bounds (decoded 8-bit units) used by the oracle (harness/src/c13.rs) -/

/-- 5-bit endpoint channel: largest gap between adjacent decoded levels (`n5::n8`) -/
def STEP5 : Nat := 9
/-- 6-bit endpoint channel (`n6::n8`) -/
def STEP6 : Nat := 5
/-- BC2 explicit alpha (`n4::n8`, ×17) -/
def STEP4 : Nat := 17
/-- 8-bit UNORM endpoints -/
def STEP8U : Nat := 1
/-- 8-bit SNORM endpoints shown at 8 bit (`s8::n8`): 255 levels on 256 values -/
def STEP8S : Nat := 2
/-- BC7 colour: coarsest endpoint grid (mode 0: 4 bits + p-bit, `promote(·, 5)`) -/
def STEP7C : Nat := 9
/-- BC7 alpha: coarsest alpha grid (mode 4: `promote(·, 6)`) -/
def STEP7A : Nat := 5

/-- largest gap between consecutive values of `f` on `0..n` -/
def maxGap (f : Nat → Nat) (n : Nat) : Nat :=
  (List.range n).foldl (fun m k => max m (f (k + 1) - f k)) 0

/-! ### BC7 single-colour blocks (`compress_single_color`, `Compressed::mode5`, `BitStream`) -/

/-- `optimize(c)`: `(c >> 1, (if c < 128 { c + 1 } else { c - 1 }) >> 1)` on `u8` -/
def optimize (c : Nat) : Nat × Nat := (c >>> 1, (if c < 128 then w8 (c + 1) else w8 (c + 256 - 1)) >>> 1)

/-- `IndexList::<2>::constant(1)` -/
def constant1 : Nat := 0x55555555
/-- `compress_p1` of `constant(1)`: the MSB of index 0 is 0 (no swap); bit 1 is dropped -/
def compressP1 (indexes : Nat) : Nat × Bool :=
  let msb := 2
  let swap := indexes &&& msb != 0
  let indexes := if swap then indexes ^^^ 0xFFFFFFFF else indexes
  ((indexes &&& (msb - 1)) ||| ((indexes &&& (((0xFFFFFFFFFFFFFFFF - (msb - 1)) * 2) % U64)) >>> 1), swap)

/-- the `u128` of `compress_single_color(color).block`: mode 5, rotation 0, 7-bit colour endpoints
`optimize(c)`, 8-bit alpha endpoints `a, a`, colour and alpha indexes `constant(1)`.
`BitStream::write_u64(v, bits)`: `data |= v << self.bits; self.bits += bits`. -/
def bc7Single (r g b a : Nat) : Nat :=
  let w (st : Nat × Nat) (v bits : Nat) : Nat × Nat := (st.1 ||| (v <<< st.2), st.2 + bits)
  let ci := compressP1 constant1
  let ai := compressP1 constant1
  let (r0, r1) := optimize r
  let (g0, g1) := optimize g
  let (b0, b1) := optimize b
  -- color.swap(0, 1) if color_swap (never: see `C13.bc7_single_no_swap`)
  let (r0, r1) := if ci.2 then (r1, r0) else (r0, r1)
  let (g0, g1) := if ci.2 then (g1, g0) else (g0, g1)
  let (b0, b1) := if ci.2 then (b1, b0) else (b0, b1)
  let st := w (0, 0) (1 <<< 5) 6          -- write_mode(5)
  let st := w st 0 2                       -- write_rotation(Rotation::None)
  let st := w st r0 7
  let st := w st r1 7
  let st := w st g0 7
  let st := w st g1 7
  let st := w st b0 7
  let st := w st b1 7
  let st := w st a 8
  let st := w st a 8
  let st := w st ci.1 31
  let st := w st ai.1 31
  st.1

/-- little-endian bytes of a `u128` -/
def le128Bytes (v : Nat) : List Nat := (List.range 16).map fun i => v / 256 ^ i % 256

/-! ### BC4-type single values (`single_color`, `EndPoints::new_closest`, UNORM) -/

/-- `single_color(v/255, snorm = false)` for an 8-bit input `v`: `closest = (255·value + 0.5) as u8 = v`,
`|n8::f32(v) − value| < BC4_EPSILON`, so the block is `closest.with_indexes(IndexList::new_all(0))`
with `c1 = 0`.  (Not the path at `Unreasonable`, where `reference_brute_force` runs first.) -/
def bc4uSingle (v : Nat) : List Nat := [v, 0, 0, 0, 0, 0, 0, 0]

/-! ### BC4 endpoint pairs (`EndPoints::new_inter6`, `quantize`, `inter6_to_inter4`) -/

/-- the "make sure they are different" step of `EndPoints::new_inter6` / `quantize` on the rounded values
(`min_u8`, `max_u8`) with the floor / ceiling fall-backs -/
def fixDistinct (minR maxR minF maxC : Nat) : Nat × Nat :=
  if minR = maxR then
    if minF = maxC then (if minF = 0 then (minF, 1) else (minF - 1, maxC)) else (minF, maxC)
  else (minR, maxR)

/-! ### 5:6:5 single colours that are exactly representable (`compress_single_color`, `min == max`) -/

def BLACK : C565 := ⟨0, 0, 0⟩

/-- `compress_single_color` when `floor(color) == ceil(color) = c`:
`endpoints = create_endpoints(BLACK, c)`, all pixels get the index of the palette entry equal to the
colour (first minimum of `closest`): in P4 `c` is `c0` after the swap (index 0) unless `c` is black
(tie-break: `c0.b = 1`, the colour is `c1`, index 1); in P3 the colour is `c1` (index 1), black: index 0. -/
def exactSingle (p4 : Bool) (c : C565) : List Nat :=
  if p4 then
    withIndexes (newP4 BLACK c) (if c.toU16 = 0 then 0x55555555 else 0)
  else
    withIndexes (newP3Default BLACK c) (if c.toU16 = 0 then 0 else 0x55555555)

/-! ### specification-level palettes (over `BcSpec`) -/

/-- decoded 8-bit value of entry `k` of a one-channel BC1-type palette with `m`-level endpoints -/
def entry8 (four : Bool) (k e0 e1 m : Nat) : Nat := BcSpec.chan8 four k e0 e1 m

/-- smallest `|entry − g|` over all endpoint pairs `e0, e1 ≤ m` and entries `k < 4` of the four-colour palette -/
def bestErr (m g : Nat) : Nat :=
  (List.range (m + 1)).foldl (fun best e0 =>
    (List.range (m + 1)).foldl (fun best e1 =>
      (List.range 4).foldl (fun best k =>
        let v := entry8 true k e0 e1 m
        min best (if v ≥ g then v - g else g - v)) best) best) 256

/-! ### block geometry: which input pixel feeds position `p` of block `(bx, by)` -/

/-- `block_universal` (bc.rs, "handle last partial block") + `for_each_f32_rgba_rows` (write_util.rs, "fill missing
rows"): a column beyond the image repeats the LAST pixel of its row (`row[block_width..].fill(last)`), a row beyond
the image repeats the FIRST row of the block strip (`intermediate_buffer.copy_within(..width, i * width)`).
Source `(x, y)` of position `p = 4·i + j` of block `(bx, byy)` of a `w × h` image. -/
def blockSrc (w h bx byy p : Nat) : Nat × Nat :=
  let x := bx * 4 + p % 4
  let y := byy * 4 + p / 4
  (if x < w then x else w - 1, if y < h then y else byy * 4)

/-- an RGBA8 pixel -/
structure Px where
  r : Nat
  g : Nat
  b : Nat
  a : Nat
  deriving DecidableEq, Repr

def Px.chan (p : Px) (c : Nat) : Nat := if c = 0 then p.r else if c = 1 then p.g else if c = 2 then p.b else p.a

/-- `some v` when channel `c` has the value `v` at every pixel (`stats.min.get(c) == stats.max.get(c)`) -/
def chanConst (px : List Px) (c : Nat) : Option Nat :=
  match px with
  | [] => none
  | p :: rest => if rest.all (fun q => q.chan c == p.chan c) then some (p.chan c) else none

/-- `BlockStats::new`: minimum / maximum of a channel -/
def chanMin (px : List Px) (c : Nat) : Nat := px.foldl (fun m p => min m (p.chan c)) 255
def chanMax (px : List Px) (c : Nat) : Nat := px.foldl (fun m p => max m (p.chan c)) 0

/-- `BlockStats::single_color`: `min == max` in all four channels -/
def singleColour (px : List Px) : Option Px :=
  match px with
  | [] => none
  | p :: rest => if rest.all (fun q => q == p) then some p else none

/-- `u8::abs_diff` -/
def absDiff (a b : Nat) : Nat := if a ≥ b then a - b else b - a

/-! ### binary32 helpers (`F32.lean`: every operation is the correctly rounded one) -/

/-- the constant `0.5` -/
def fHalf : Nat := F32.divLit 1 2
/-- value of `x.abs()` -/
def fabs (x : Nat) : Rat := let d := F32.toRat x; if d < 0 then -d else d
/-- `x.min(1.0)` -/
def fmin1 (x : Nat) : Nat := if F32.toRat x > 1 then F32.ofNat 1 else x
/-- `x.clamp(0.0, 1.0)` -/
def fclamp01 (x : Nat) : Nat := if F32.toRat x < 0 then 0 else fmin1 x

/-! ### BC2 explicit alpha (`bc2_alpha`, bc.rs; `n4::from_f32`, color/formats.rs) -/

/-- `n4::from_f32(x) = (x.min(1.0) * 15.0 + 0.5) as u8`, evaluated in binary32 -/
def n4FromF32 (x : Nat) : Nat := F32.toU8 (F32.add (F32.mul (fmin1 x) (F32.ofNat 15)) fHalf)

/-- closed form of `n4::from_f32(n8::f32(a))` for an 8-bit input alpha `a`: `15·a/255 + 1/2 = a/17 + 1/2`, floor =
`(2a + 17) / 34`.  `2a + 17` is odd, so `a/17 + 1/2` is never within 1/34 of an integer and the three f32 roundings
cannot change the floor; PROVED equal to the binary32 evaluation `n4FromF32 (n8f32 a)` for all 256 values
(`Proofs/Enc13Single.n4FromU8_is_f32`). -/
def n4FromU8 (a : Nat) : Nat := (2 * a + 17) / 34

/-- `bc2_alpha` without alpha dithering: `indexes |= (value as u64) << (i * 4)` for the 16 pixels in block order,
`indexes.to_le_bytes()`; `alphas` = the 16 8-bit input alphas (missing entries read as 0) -/
def bc2AlphaBlock (alphas : List Nat) : List Nat :=
  let indexes := (List.range 16).foldl (fun ix i => (ix ||| (n4FromU8 (alphas.getD i 0) <<< (i * 4))) % U64) 0
  (List.range 8).map fun k => indexes / 256 ^ k % 256

/-- `bc2_alpha` on a block of constant alpha `a` -/
def bc2AlphaSingle (a : Nat) : List Nat := bc2AlphaBlock (List.replicate 16 a)

/-! ### BC4 / BC5 SNORM: the `closest` branch of `single_color` (bc4.rs) -/

/-- `s8::from_norm`: `(x + 1).wrapping_sub(128)` for `x ≤ 254` -/
def fromNorm (x : Nat) : Nat := w8 (x + 1 + 128)

/-- `single_color(value, snorm = true)` when `(closest.c0_f - value).abs() < BC4_EPSILON`:
`closest.with_indexes(IndexList::new_all(0))` with `c0 = s8::from_norm(n)`, `c1 = s8::from_norm(0)`, where
`n = closest_s8_norm = (254.0 * value + 0.5) as u8`. -/
def bc4sClosest (n : Nat) : List Nat := [fromNorm n, fromNorm 0, 0, 0, 0, 0, 0, 0]

/-- the value handed to `single_color` for a block whose 16 values are the 8-bit input `v`: `Block::from_raw` clamps
`n8::f32(v)` to [0, 1] (no effect), `min = max`, `diff = max − min = 0 < BC4_EPSILON`, `value = (min + max) * 0.5` -/
def bc4ValueOfU8 (v : Nat) : Nat := F32.mul (F32.add (fclamp01 (n8f32 v)) (fclamp01 (n8f32 v))) fHalf

/-- `closest_s8_norm = (254.0 * value + 0.5) as u8` in binary32 -/
def snormClosestF32 (value : Nat) : Nat := F32.toU8 (F32.add (F32.mul (F32.ofNat 254) value) fHalf)

/-- `s8::uf32(c)`: `(norm(c) as f32 * 31.0) * (1.0 / (254.0 * 31.0))` -/
def s8uf32 (c : Nat) : Nat := F32.mul (F32.mul (F32.ofNat (s8norm c)) (F32.ofNat 31)) (F32.divLit 1 7874)

/-- the guard `(closest.c0_f - value).abs() < BC4_EPSILON` (`BC4_EPSILON = 1/65536`) in binary32 -/
def snormGuardF32 (value : Nat) : Bool :=
  decide (fabs (F32.sub (s8uf32 (fromNorm (snormClosestF32 value))) value) < F32.toRat (F32.divLit 1 65536))

/-- closed form of `closest_s8_norm` for the 8-bit input `v`: `round(254·v/255)` -/
def snormOfU8 (v : Nat) : Nat := (2 * 254 * v + 255) / 510

/-- closed form of the guard for the 8-bit input `v`, in exact arithmetic: `|n/254 − v/255| < 1/65536` with
`n = snormOfU8 v`.  It holds exactly for `v ∈ {0, 255}` (the smallest other distance is 1/64770, at `v = 1` and
`v = 254`).  PROVED equal to the binary32 evaluation `snormGuardF32 (bc4ValueOfU8 v)`, and `snormOfU8 v` to
`snormClosestF32 (bc4ValueOfU8 v)`, for all 256 values (`Proofs/Enc13Single.snorm8_is_f32`). -/
def snormGuard8 (v : Nat) : Bool := decide (absDiff (255 * snormOfU8 v) (254 * v) * 65536 < 254 * 255)

/-- the block `single_color` emits for a channel that is the 8-bit value `v` at all 16 pixels when the `closest`
branch is taken (BC4_SNORM: red; BC5_SNORM: red and green independently, `handle_bc5`); `none`: the guard fails and
the float palette search (`new_inter6` / `new_inter4`, `closest`) decides -/
def bc4sSingle8 (v : Nat) : Option (List Nat) := if snormGuard8 v then some (bc4sClosest (snormOfU8 v)) else none

/-! ### BC7: which modes are tried (`compress_bc7_block`; presets: `BC7_UNORM` in bc.rs) -/

/-- `Bc7Modes::MODEk` (bit flags) -/
def MODE (k : Nat) : Nat := 1 <<< k

/-- `allowed_modes` of the quality presets (`BC7_UNORM` in bc.rs); `force_modes` is always empty there -/
def bc7Allowed : Quality → Nat
  | .fast => MODE 0 ||| MODE 4 ||| MODE 6
  | .normal => MODE 1 ||| MODE 3 ||| MODE 4 ||| MODE 5 ||| MODE 6 ||| MODE 7
  | .high => 255
  | .unreasonable => 255

/-- the mode set after filtering, from `stats.min.a`, `stats.max.a`, `allowed_modes`, `force_modes`
(`opaque() = (min.a == 255)`, `single_alpha().is_some() = (min.a == max.a)`) -/
def bc7ModesTried (minA maxA allowed force : Nat) : Nat :=
  let modes := MODE 4 ||| MODE 5
  let modes := if minA = 255 then modes ||| (MODE 0 ||| MODE 1 ||| MODE 2 ||| MODE 3) else modes ||| MODE 7
  let modes :=
    if minA = maxA ∨ maxA ≠ 255 ∨ (minA ≠ 255 ∧ allowed &&& (MODE 4 ||| MODE 5 ||| MODE 7) = 0) then modes ||| MODE 6
    else modes
  let modes := modes &&& allowed
  let modes := if modes = 0 then allowed else modes
  if force ≠ 0 then force else modes

/-! ### BC7: p-bits of `compress_rgba` (modes 6 and 7), `PBitHandling::pick_best` -/

/-- `UniquePBits::ALL` -/
def ALL_UNIQUE : List (Bool × Bool) := [(false, false), (false, true), (true, false), (true, true)]

/-- `let possible_p_bits = if opaque { Some(&[[true, true]]) } else { None }` (`opaque` = all pixels of the
subset have `a == 255`) -/
def possiblePBits (allOpaque : Bool) : Option (List (Bool × Bool)) := if allOpaque then some [(true, true)] else none

/-- `PBitHandling::pick_best`: the states handed to `pick_best_of_directly`.  `best1`, `best2` stand for
`get_best` / `get_best_2` (f32 estimates, not modelled). -/
def pickBestStates {S : Type} (all : Option (List S)) (ALL : List S) (maxComb : Nat) (best1 : List S → S)
    (best2 : List S → List S) : List S :=
  let all := all.getD ALL
  if all.length = 1 ∨ all.length ≤ maxComb then all
  else if maxComb = 1 then [best1 all]
  else if maxComb = 2 then best2 all
  else ALL

/-- `pick_best_of_directly`: the first state of strictly smallest error.  `err` stands for the `u32` error that the
float search `f` returns for a state (not modelled); `none` = `possibilities[0]` panics. -/
def pickBestOfDirectly {S : Type} (poss : List S) (err : S → Nat) : Option S :=
  match poss with
  | [] => none
  | p :: rest => some (rest.foldl (fun (best : Nat × S) p => if err p < best.1 then (err p, p) else best) (err p, p)).2

/-- `p.swap(0, 1)` together with the endpoints when the anchor index needs it (`Compressed::mode6`, `mode7`) -/
def pSwap (p : Bool × Bool) (swap : Bool) : Bool × Bool := if swap then (p.2, p.1) else p

/-- `max_p_bit_combinations` of the presets (`BC7_UNORM`) -/
def bc7MaxPBitCombinations : Quality → Nat
  | .fast => 1
  | .normal => 1
  | .high => 2
  | .unreasonable => 4

/-- what `compress_rgba` + `Compressed::mode6/7` can store as the two p-bits of a subset: `some p` when the list
handed to `pick_best_of_directly` is the single state `p` and `p` is invariant under the endpoint swap — then the
stored bits are `p` whatever the f32 estimates and errors are (`get_best` / `get_best_2` are instantiated here by
"first" / "first two"; for a one-element list they are never consulted: `Proofs/Enc13Opaque.opaque_pbits`,
`subsetPBits_spec`); `none`: the choice depends on the float search. -/
def subsetPBits (q : Quality) (allOpaque : Bool) : Option (Bool × Bool) :=
  match pickBestStates (possiblePBits allOpaque) ALL_UNIQUE (bc7MaxPBitCombinations q) (fun l => l.headD (false, false))
      (fun l => l.take 2) with
  | [s] => if (possiblePBits allOpaque).isSome ∧ pSwap s true = s then some s else none
  | _ => none

/-! ### BC7: rotations of modes 4 and 5 (`RotationSelect`) -/

/-- `RotationSelect::get_forced_rotation` with `allow_color_rotation = true` (every preset): `true` =
`Some(Rotation::None)` — the alpha range exceeds `ALPHA_THRESHOLD = 16`, or every pixel is approximately grey
(`max(|g − r|, |g − b|) < COLOR_VARIANCE_THRESHOLD = 8`); `false` = `None`, nothing forced -/
def bc7RotationForced (px : List Px) : Bool :=
  decide (absDiff (chanMax px 3) (chanMin px 3) > 16) ||
    px.all fun p => decide (max (absDiff p.g p.r) (absDiff p.g p.b) < 8)

/-- `Rotation::channel` of a rotation field value (0 None → alpha, 1 AR → red, 2 AG → green, 3 AB → blue) -/
def rotChannel (rot : Nat) : Nat := if rot = 1 then 0 else if rot = 2 then 1 else if rot = 3 then 2 else 3

/-- the rotations `RotationSelect::pick_best` can hand to the compressor: the forced one, else those whose channel
is not constant (`continue` on `stats.min.get(channel) == stats.max.get(channel)`); which of them are among the
first `max_color_rotations` of the f32 ranking (`get_rotations`) is not modelled -/
def bc7RotationsAllowed (px : List Px) : List Nat :=
  if bc7RotationForced px then [0] else [0, 1, 2, 3].filter fun r => (chanConst px (rotChannel r)).isNone

/-! ### BC7: constant separated channel in modes 4 and 5 (`compress_color_separate_alpha_with_rotation`) -/

/-- `Alpha::<A>::promote` -/
def promoteAlpha (A v : Nat) : Nat := if A = 8 then v else Bc7.promote v A

/-- the single-alpha branch: `round`, `floor`, `ceil` are the results of `Alpha::<A>::round/floor/ceil(a·(1/255))`.
Returns the two endpoints and whether the exact branch (`IndexList::constant(0)`, error 0) was taken; in the other
branch the indexes come from `closest_alpha` (integer search, not modelled). -/
def singleAlpha (A a round floor ceil : Nat) : (Nat × Nat) × Bool :=
  if promoteAlpha A round = a then ((round, round), true) else ((floor, ceil), false)

/-- `a as f32 * (1.0 / 255.0)` -/
def alphaF32 (a : Nat) : Nat := F32.mul (F32.ofNat a) (F32.divLit 1 255)

/-- `channel_to_vec::<B>(c)`: `promote(c, B) as f32 * (1.0 / 255.0)` (`B = 8`: `c` itself) -/
def channelToVec (B c : Nat) : Nat := F32.mul (F32.ofNat (promoteAlpha B c)) (F32.divLit 1 255)

/-- `channel_round::<B>(v)` for `B = 8` and `B ∈ 5..=7`, in binary32 -/
def channelRoundF32 (B v : Nat) : Nat :=
  if B = 8 then F32.toU8 (F32.add (F32.mul v (F32.ofNat 255)) fHalf)
  else
    let max := 2 ^ B - 1
    let v := fclamp01 v
    let nearest := F32.toU8 (F32.add (F32.mul v (F32.ofNat max)) fHalf)
    let err := fabs (F32.sub (channelToVec B nearest) v)
    if nearest > 0 ∧ fabs (F32.sub (channelToVec B (nearest - 1)) v) < err then nearest - 1
    else if nearest < max ∧ fabs (F32.sub (channelToVec B (nearest + 1)) v) < err then nearest + 1
    else nearest

/-- `channel_floor::<B>(v)` -/
def channelFloorF32 (B v : Nat) : Nat :=
  if B = 8 then F32.toU8 (F32.mul v (F32.ofNat 255))
  else
    let max := 2 ^ B - 1
    let v := fclamp01 v
    let floor := F32.toU8 (F32.mul v (F32.ofNat max))
    if floor > 0 ∧ F32.toRat (channelToVec B floor) > F32.toRat v then floor - 1
    else if floor < max ∧ F32.toRat (channelToVec B (floor + 1)) < F32.toRat v then floor + 1
    else floor

/-- `channel_ceil::<B>(v)`, `CEIL = 0.9999` -/
def channelCeilF32 (B v : Nat) : Nat :=
  let CEIL := F32.divLit 9999 10000
  if B = 8 then F32.toU8 (F32.add (F32.mul v (F32.ofNat 255)) CEIL)
  else
    let max := 2 ^ B - 1
    let v := fclamp01 v
    let s := F32.add (F32.mul v (F32.ofNat max)) CEIL
    let ceil := F32.toU8 (if F32.toRat s > (max : Rat) then F32.ofNat max else s)
    if ceil < max ∧ F32.toRat (channelToVec B ceil) < F32.toRat v then ceil + 1
    else if ceil > 0 ∧ F32.toRat (channelToVec B (ceil - 1)) > F32.toRat v then ceil - 1
    else ceil

/-- the two stored endpoints of the separated channel of modes 4 (`A = 6`) and 5 (`A = 8`) when that channel is the
8-bit constant `a`, before the anchor-index swap of `Compressed::mode4/5`, and whether the exact branch was taken
(then the separated index list is `constant(0)`) -/
def sepEndpoints (A a : Nat) : (Nat × Nat) × Bool :=
  singleAlpha A a (channelRoundF32 A (alphaF32 a)) (channelFloorF32 A (alphaF32 a)) (channelCeilF32 A (alphaF32 a))

/-! ### BC7: reading the header fields back from an emitted block (positions: `Bc7Spec`) -/

/-- mode, partition, rotation, index-selection bit, the p-bits in stored order, the raw alpha endpoint fields in
stored order (`[]` for modes 0–3) -/
structure Bc7Fields where
  mode : Nat
  part : Nat
  rot : Nat
  sel : Nat
  pbits : List Nat
  alpha : List Nat
  deriving DecidableEq, Repr

def bc7Fields (b : Nat) : Option Bc7Fields :=
  let m := Bc7Spec.modeOf b
  match Bc7Spec.modes[m]? with
  | none => none
  | some r =>
    some {
      mode := m
      part := Bc7Spec.rd b (m + 1) r.partBits
      rot := Bc7Spec.rd b (m + 1 + r.partBits) r.rotBits
      sel := Bc7Spec.rd b (m + 1 + r.partBits + r.rotBits) r.selBits
      pbits := (List.range (Bc7Spec.pBitCount r)).map fun i => Bc7Spec.rd b (Bc7Spec.pStart m r + i) 1
      alpha := if r.alphaBits = 0 then [] else
        (List.range (2 * r.subsets)).map fun e => Bc7Spec.rd b (Bc7Spec.alphaStart m r + e * r.alphaBits) r.alphaBits }

/-! ### BC7: what the discrete rules allow for a block of RGBA8 pixels (no dithering) -/

/-- constraint on the header fields of the block emitted for the 16 pixels `px` at quality `q`:
* `modes`: the admissible modes — `[5]` for a single-coloured block (`compress_single_color`), else the members of
  `bc7ModesTried min.a max.a (bc7Allowed q) 0` (`best.better(…)` only ever holds a tried mode);
and, for the mode / partition / rotation the block shows,
* `rots`: admissible rotation fields (modes 4, 5; `none` = the mode has no such field);
* `sel`: mode 4 with a constant separated channel returns the `C3A2` candidate alone (index-selection bit 1);
* `pbits`: per stored p-bit `some 1` = forced to 1 (mode 6: opaque block; mode 7: per opaque subset), `none` = free;
  `inside` marks the positions that lie inside the image: a subset of mode 7 that contains a padded position is left
  free, so that the rule does not depend on WHICH pixel of the block the padding repeats (every other ingredient —
  minima, maxima, constancy, the grey test — is a function of the set of pixel values, which padding does not change);
* `alpha`: the alpha endpoint fields as an unordered pair when the separated channel of modes 4 / 5 is constant. -/
structure Bc7Rule where
  modes : List Nat
  rots : Option (List Nat)
  sel : Option Nat
  pbits : List (Option Nat)
  alpha : Option (Nat × Nat)
  deriving DecidableEq, Repr

def pbitRule (p : Option (Bool × Bool)) : List (Option Nat) :=
  match p with
  | some (a, b) => [some (if a then 1 else 0), some (if b then 1 else 0)]
  | none => [none, none]

def bc7Rule (q : Quality) (px : List Px) (inside : List Bool) (mode part rot : Nat) : Bc7Rule :=
  match singleColour px with
  | some c => { modes := [5], rots := some [0], sel := none, pbits := [], alpha := some (c.a, c.a) }
  | none =>
    let minA := chanMin px 3
    let maxA := chanMax px 3
    let tried := bc7ModesTried minA maxA (bc7Allowed q) 0
    let modes := (List.range 8).filter fun k => tried &&& MODE k != 0
    let free (n : Nat) : List (Option Nat) := List.replicate n none
    if mode = 4 ∨ mode = 5 then
      let sep := chanConst px (rotChannel rot)
      { modes := modes
        rots := some (bc7RotationsAllowed px)
        sel := if mode = 4 ∧ sep.isSome then some 1 else none
        pbits := []
        alpha := sep.map fun a =>
          let e := (sepEndpoints (if mode = 4 then 6 else 8) a).1
          (min e.1 e.2, max e.1 e.2) }
    else if mode = 6 then
      { modes := modes, rots := none, sel := none, pbits := pbitRule (subsetPBits q (decide (minA = 255))), alpha := none }
    else if mode = 7 then
      let opaqueSubset (s : Nat) : Bool :=
        (List.range 16).all fun i => BcTables.specSubset 2 part i != s ||
          (inside.getD i false && (px.getD i ⟨0, 0, 0, 0⟩).a == 255)
      { modes := modes, rots := none, sel := none,
        pbits := pbitRule (subsetPBits q (opaqueSubset 0)) ++ pbitRule (subsetPBits q (opaqueSubset 1)), alpha := none }
    else
      { modes := modes, rots := none, sel := none,
        pbits := free (match Bc7Spec.modes[mode]? with | some r => Bc7Spec.pBitCount r | none => 0), alpha := none }

/-- does an emitted block meet the rule (the check `tools/propcfg/C13.py` performs on the printed forms) -/
def bc7Meets (rule : Bc7Rule) (f : Bc7Fields) : Bool :=
  rule.modes.contains f.mode &&
  (match rule.rots with | some l => l.contains f.rot | none => true) &&
  (match rule.sel with | some s => f.sel == s | none => true) &&
  (rule.pbits.length == f.pbits.length &&
    (List.range f.pbits.length).all fun i => match rule.pbits.getD i none with | some v => f.pbits.getD i 0 == v | none => true) &&
  (match rule.alpha with
   | some (lo, hi) => f.alpha.length == 2 && min (f.alpha.getD 0 0) (f.alpha.getD 1 0) == lo &&
       max (f.alpha.getD 0 0) (f.alpha.getD 1 0) == hi
   | none => true)

/-! ### which bytes of a single-colour block the discrete model predicts -/

/-- corner value of an 8-bit channel as an `m`-level endpoint (`none`: not exactly representable; the
encoder tests `floor(v·m) == ceil(v·m)`, which for `v = e/255` holds iff `e ∈ {0, 255}`) -/
def corner (e m : Nat) : Option Nat := if e = 0 then some 0 else if e = 255 then some m else none

def corner565 (r g b : Nat) : Option C565 :=
  match corner r 31, corner g 63, corner b 31 with
  | some r, some g, some b => some ⟨r, g, b⟩
  | _, _, _ => none

/-- `(byte offset, bytes)` pieces of the block emitted for a 4×4 block of the single 8-bit colour
`(r, g, b, a)` (RGBA8 input, no dithering) that follow from the discrete logic alone. -/
def predictSingle (f : Option Fmt) (q : Quality) (r g b a : Nat) : List (Nat × List Nat) :=
  let bc4 (o v : Nat) : List (Nat × List Nat) := if q = .unreasonable then [] else [(o, bc4uSingle v)]
  let col (o : Nat) (p4 : Bool) (c : Option C565) : List (Nat × List Nat) :=
    match c with
    | some c => [(o, exactSingle p4 c)]
    | none => []
  match f with
  | none => [(0, le128Bytes (bc7Single r g b a))]
  | some .bc1 =>
    if opaque8 a then col 0 (bc1Options q).2 (corner565 r g b) else [(0, TRANSPARENT_BLOCK)]
  | some .bc2 => col 8 true (corner565 r g b)
  | some .bc2p => if a = 255 then col 8 true (corner565 r g b) else []
  | some .bc3 => bc4 0 a ++ col 8 true (corner565 r g b)
  | some .bc3p => bc4 0 a ++ (if a = 255 then col 8 true (corner565 r g b) else [])
  | some .rxgb => bc4 0 r ++ col 8 true (corner565 255 g b)
  | some .bc3n => bc4 0 r ++ col 8 true (corner565 255 g 0)
  | some .bc4u => bc4 0 r
  | some .bc5u => bc4 0 r ++ bc4 8 g
  | some _ => []

/-- `(byte offset, bytes)` pieces of the block emitted for the 16 RGBA8 pixels `px` (after `blockSrc` replication)
that follow from the discrete logic alone; `dc`, `da` = colour / alpha dithering requested:
* single-coloured block, no dithering: `predictSingle`;
* BC2 / BC2 premultiplied without alpha dithering: the eight alpha bytes of EVERY block (`bc2AlphaBlock`; the
  premultiplied encoder keeps `a`: `pre_multiply_alpha` stores `clamp(a)`);
* BC4-type UNORM block of a constant channel (BC3 / BC3p alpha; RXGB / BC3n / BC4U red; BC5U red, green), no
  dithering, not `Unreasonable` (there `reference_brute_force` runs first): `bc4uSingle` whatever the other channels;
* BC4S (red) / BC5S (red, green) block of a constant channel that passes the `closest` guard: `bc4sSingle8`, at every
  quality and dithering (`single_color` returns before it looks at `options.dither`; `brute_force` excludes SNORM). -/
def predictBlock (f : Option Fmt) (q : Quality) (dc da : Bool) (px : List Px) : List (Nat × List Nat) :=
  let single : List (Nat × List Nat) :=
    match singleColour px with
    | some c => if dc ∨ da then [] else predictSingle f q c.r c.g c.b c.a
    | none => []
  let u (o c : Nat) : List (Nat × List Nat) :=
    match chanConst px c with
    | some v => if dc ∨ da ∨ q = .unreasonable then [] else [(o, bc4uSingle v)]
    | none => []
  let s (o c : Nat) : List (Nat × List Nat) :=
    match (chanConst px c).bind bc4sSingle8 with
    | some blk => [(o, blk)]
    | none => []
  let extra : List (Nat × List Nat) :=
    match f with
    | some .bc2 | some .bc2p => if da then [] else [(0, bc2AlphaBlock (px.map (·.a)))]
    | some .bc3 | some .bc3p => u 0 3
    | some .rxgb | some .bc3n | some .bc4u => u 0 0
    | some .bc5u => u 0 0 ++ u 8 1
    | some .bc4s => s 0 0
    | some .bc5s => s 0 0 ++ s 8 1
    | _ => []
  -- a piece of `single` and a piece of `extra` at the same offset are the same prediction (`bc4uSingle`)
  let all := single ++ extra.filter fun e => !(single.any fun p => p.1 == e.1)
  all.filter (·.1 == 0) ++ all.filter (·.1 != 0)

end Dds.Enc13
