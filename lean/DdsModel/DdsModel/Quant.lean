/-
Quantisers of the uncompressed encoders (property C12), specification level in exact `Rat`,
plus implementation-shaped integer models of the code paths that are pure integer arithmetic,
plus `pickEncoder` over the pinned encoder-flag table.

Anchors: /repo/src/color/formats.rs (`n1..n16::from_f32`, `s8/s16::from_uf32`, `s8::from_n8`,
`s16::from_n16`, `n8::n16`, `n16::n8`, `fp16::from_f32`, `f32_to_unsigned_fp_e5`, `rgb9995f::from_f32`,
`xr10::from_f32`, `yuv8/10/16::from_rgb_f32`), /repo/src/encode/encoder.rs (`Flags`,
`EncoderSet::pick_encoder`), /repo/src/encode/{uncompressed,sub_sampled,bi_planar}.rs (tables).

The binary32 evaluation of the float quantisers is NOT modelled; the specification below says what
the ideal (real-number) computation yields, and the exhaustive tie establishes the agreement.
Model files import only core.
-/
namespace Dds.Quant

/-! ## UNORM / SNORM -/

/-- `util::clamp_0_1` on reals: clamp to `[0,1]` (NaN is handled where binary32 is parsed: NaN ↦ 0). -/
def clamp01 (x : Rat) : Rat := if x < 0 then 0 else if 1 < x then 1 else x

/-- `(y + 0.5) as uN` for `y ≥ 0`: round half up (the tie rule of every `from_f32` in formats.rs). -/
def roundHalfUp (y : Rat) : Nat := (y + 1/2).floor.toNat

/-- quantiser onto `L+1` levels `0/L … L/L` -/
def qL (L : Nat) (x : Rat) : Nat := roundHalfUp (clamp01 x * (L : Rat))
def deqL (L : Nat) (u : Nat) : Rat := (u : Rat) / (L : Rat)

def maxCode (m : Nat) : Nat := 2 ^ m - 1
/-- `nM::from_f32`: `round(clamp(x)·(2^m−1))`, ties up -/
def q (m : Nat) (x : Rat) : Nat := qL (maxCode m) x
/-- `nM::f32` as a real number: `u/(2^m−1)` -/
def deq (m : Nat) (u : Nat) : Rat := deqL (maxCode m) u

/-- SNORM: `2^m − 2` steps between −1.0 and 1.0 (stored, as in this crate, on the unsigned scale 0..1) -/
def snormLevels (m : Nat) : Nat := 2 ^ m - 2
/-- `sM::from_uf32` up to the bias: the "norm" value in `0 … 2^m−2` -/
def sq (m : Nat) (x : Rat) : Nat := qL (snormLevels m) x
/-- `s8::from_norm`: `(x + 1).wrapping_sub(2^(m−1))` as an m-bit pattern -/
def snormOfNorm (m t : Nat) : Nat := (t + 1 + 2 ^ (m - 1)) % 2 ^ m
/-- `s8::norm` / `s16::norm`: `x.wrapping_add(2^(m−1)).saturating_sub(1)`; both minimum codes give 0 -/
def snormNorm (m c : Nat) : Nat := (c + 2 ^ (m - 1)) % 2 ^ m - 1
def sencode (m : Nat) (x : Rat) : Nat := snormOfNorm m (sq m x)
def sdeq (m c : Nat) : Rat := deqL (snormLevels m) (snormNorm m c)

/-! ## implementation-shaped integer paths (formats.rs) -/

/-- `n8::n16` -/
def n8_n16 (x : Nat) : Nat := x * 257
/-- `n16::n8` -/
def n16_n8 (x : Nat) : Nat := (x * 255 + 32895) >>> 16
/-- `n10::n8`, `n10::n16` -/
def n10_n8 (x : Nat) : Nat := (x * 16336 + 32656) >>> 16
def n10_n16 (x : Nat) : Nat := (x * 4198340 + 32660) >>> 16
/-- `s8::from_n8` before the bias: `round(x/255·254)` -/
def s8_norm_from_n8 (x : Nat) : Nat := (x * 254 + 254) >>> 8
def s8_from_n8 (x : Nat) : Nat := snormOfNorm 8 (s8_norm_from_n8 x)
/-- `s16::from_n16` -/
def s16_norm_from_n16 (x : Nat) : Nat := (x * 65534 + 65534) >>> 16
def s16_from_n16 (x : Nat) : Nat := snormOfNorm 16 (s16_norm_from_n16 x)
/-- `s8::n8`, `s8::n16`, `s16::n8`, `s16::n16` (decoders on the round-trip path) -/
def s8_n8 (c : Nat) : Nat := (snormNorm 8 c * 258 + 2) >>> 8
def s8_n16 (c : Nat) : Nat := (snormNorm 8 c * 16909064 + 32520) >>> 16
def s16_n8 (c : Nat) : Nat := (snormNorm 16 c * 65282 + 8388354) >>> 24
def s16_n16 (c : Nat) : Nat := (snormNorm 16 c * 65538 + 2) >>> 16
/-- `xr10::n8`: `((clamp(x − 0x180, 0, 510) + 1) >> 1)` -/
def xr10_n8 (c : Nat) : Nat := (min (c - 384) 510 + 1) >>> 1

/-- closed form of `qL L (a/b)` in integers (proved equal in Proofs/Quant.lean) -/
def qRatio (L a b : Nat) : Nat := (2 * a * L + b) / (2 * b)

/-! ## float fields: nearest binary16 / 11-bit / 10-bit float, shared exponent, XR bias -/

/-- `⌊log2 (a/b)⌋` for `a, b > 0` -/
def floorLog2 (a b : Nat) : Int :=
  if b ≤ a then (Nat.log2 (a / b) : Int)
  else
    let k := Nat.log2 (b / a)
    if b ≤ a * 2 ^ k then -(k : Int) else -(k : Int) - 1

def pow2 (e : Int) : Rat := if 0 ≤ e then ((2 ^ e.toNat : Nat) : Rat) else 1 / ((2 ^ (-e).toNat : Nat) : Rat)

/-- integer nearest of the non-negative rational `n/d`; ties to even or up (integer arithmetic) -/
def roundTieNat (even : Bool) (n d : Nat) : Nat :=
  let f := n / d
  let r2 := 2 * (n % d)
  if r2 < d then f else if d < r2 then f + 1 else if even then (if f % 2 = 0 then f else f + 1) else f + 1

/-- nearest integer of `(a/b) / 2^s` -/
def roundScaled (even : Bool) (a b : Nat) (s : Int) : Nat :=
  if 0 ≤ s then roundTieNat even a (b * 2 ^ s.toNat) else roundTieNat even (a * 2 ^ (-s).toNat) b

/-- Nearest value of a small float format with `mb` mantissa bits, 5 exponent bits (bias 15):
returns the magnitude bits `exp<<mb | mant`; `x ≥ 0`. Overflow gives the infinity pattern. -/
def roundSmallFloat (mb : Nat) (even : Bool) (x : Rat) : Nat :=
  if x ≤ 0 then 0 else
  let a := x.num.toNat; let b := x.den
  let e := max (floorLog2 a b) (-14)
  let m := roundScaled even a b (e - (mb : Int))       -- in [0, 2^(mb+1)]
  -- `biased<<mb + (m - 2^mb)` = `(biased-1)<<mb + m`; a carry into the exponent is automatic
  let biased1 := (e + 14).toNat                        -- biased exponent − 1 (0 for subnormals)
  let bits := biased1 * 2 ^ mb + m
  min bits (31 * 2 ^ mb)

/-- value of magnitude bits of the small float format (finite patterns) -/
def smallFloatVal (mb : Nat) (bits : Nat) : Rat :=
  let e : Nat := bits / 2 ^ mb
  let m : Nat := bits % 2 ^ mb
  if e = 0 then (m : Rat) * pow2 (-14 - (mb : Int))
  else ((m + 2 ^ mb : Nat) : Rat) * pow2 ((e : Int) - 15 - (mb : Int))

/-- `fp16::from_f32` on a real of magnitude `x` (ties to even) -/
def half (x : Rat) : Nat := roundSmallFloat 10 true x
def halfVal (bits : Nat) : Rat := smallFloatVal 10 bits
/-- `fp11::from_f32`, `fp10::from_f32`: nearest, ties up (`f32_mantissa_round_half_up`), negatives to 0 -/
def fp11 (x : Rat) : Nat := roundSmallFloat 6 false x
def fp10 (x : Rat) : Nat := roundSmallFloat 5 false x

/-- `f32_mantissa_round_half_up(n, x)` on a positive real: round to `n` mantissa bits at the value's
own exponent, ties up (no lower exponent limit: binary32 normals reach 2^-126) -/
def roundMantHalfUp (n : Nat) (x : Rat) : Rat :=
  if x ≤ 0 then 0 else
  let e := floorLog2 x.num.toNat x.den
  (roundHalfUp (x / pow2 (e - (n : Int))) : Rat) * pow2 (e - (n : Int))

/-- Implementation-shaped `f32_to_unsigned_fp_e5(n, x)` for finite positive `x` that is a binary32
normal: mantissa rounding, then `fp16::from_f32`, then `exp << n | mant >> (10 − n)`. Below 2^-14
the final shift truncates (known finding F12); from 2^-14 on it equals `roundSmallFloat n false`. -/
def fpSmallImpl (n : Nat) (x : Rat) : Nat :=
  if x ≤ 0 then 0
  else if x < pow2 (-126) then 0                       -- `!x.is_normal()`: fp16 of a binary32 subnormal is 0
  else half (roundMantHalfUp n x) / 2 ^ (10 - n)

/-- nearest binary32 of a non-negative real (ties to even): the value `nN::f32` is pinned to by the
crate's unit tests, and what a colour buffer of precision F32 "carrying v/(2^n−1)" contains. -/
def f32Bits (x : Rat) : Nat :=
  if x ≤ 0 then 0 else
  let a := x.num.toNat; let b := x.den
  let e := max (floorLog2 a b) (-126)
  let m := roundScaled true a b (e - 23)
  min ((e + 126).toNat * 2 ^ 23 + m) (255 * 2 ^ 23)
/-- value of a finite non-negative binary32 pattern as numerator / denominator -/
def f32Num (bits : Nat) : Nat :=
  let e : Nat := bits / 2 ^ 23 % 256
  let m : Nat := bits % 2 ^ 23
  if e = 0 then m else (m + 2 ^ 23) * 2 ^ (e - 150)
def f32Den (bits : Nat) : Nat :=
  let e : Nat := bits / 2 ^ 23 % 256
  if e = 0 then 2 ^ 149 else 2 ^ (150 - e)
def f32Val (bits : Nat) : Rat := (f32Num bits : Rat) / (f32Den bits : Rat)

/-- `rgb9995f::from_f32` on reals: clamp to `[0, 65408]`, shared exponent from the maximum -/
def e9Clamp (x : Rat) : Rat := if x < 0 then 0 else if 65408 < x then 65408 else x
/-- biased shared exponent for maximum channel `mx > 0` (after the carry when the mantissa rounds to 512) -/
def e9Exp (mx : Rat) : Nat :=
  let e := (max (floorLog2 mx.num.toNat mx.den) (-16) + 16).toNat
  if roundHalfUp (mx * pow2 (24 - (e : Int))) = 512 then e + 1 else e
def e9Mant (exp : Nat) (c : Rat) : Nat := roundHalfUp (c * pow2 (24 - (exp : Int)))
def max3 (a b c : Rat) : Rat := max (max a b) c
def e9Encode (r g b : Rat) : Nat :=
  let r := e9Clamp r; let g := e9Clamp g; let b := e9Clamp b
  let mx := max3 r g b
  if mx * pow2 24 < 1/2 then 0 else       -- everything rounds to mantissa 0 at the smallest exponent
  let e := e9Exp mx
  e9Mant e r + e9Mant e g * 2 ^ 9 + e9Mant e b * 2 ^ 18 + e * 2 ^ 27
/-- `rgb9995f::f32` -/
def e9Val (exp mant : Nat) : Rat := (mant : Rat) * pow2 ((exp : Int) - 24)

/-- `xr10::from_f32`: `min(1023, sat(x·510 + 384.5))` -/
def xr10 (x : Rat) : Nat :=
  let y := x * 510 + 384
  if y < 0 then 0 else min 1023 (roundHalfUp y)
def xr10Val (c : Nat) : Rat := ((c : Int) - 384 : Int) / (510 : Rat)

/-! ## YUV (BT.601 constants exactly as printed in formats.rs, as decimals) -/

def yuvCoef : List (List Int) :=
  [[256788, 504129, 97906], [-148223, -290993, 439216], [439216, -367788, -71427]]
/-- ideal pre-rounding component `i ∈ {0,1,2}` in code units of the m-bit format -/
def yuvIdeal (m : Nat) (i : Nat) (r g b : Rat) : Rat :=
  let row := yuvCoef.getD i []
  let c (j : Nat) : Rat := ((row.getD j 0 : Int) : Rat) / 1000000
  (c 0 * r + c 1 * g + c 2 * b) * (maxCode m : Rat) + ((if i = 0 then 16 else 128) * 2 ^ (m - 8) : Nat)
/-- `(… + off + 0.5) as uM` (saturating), for Y410 additionally `.min(1023)` -/
def yuvCode (m : Nat) (i : Nat) (r g b : Rat) : Nat :=
  let s := yuvIdeal m i r g b + 1/2
  if s < 0 then 0 else min (maxCode m) s.floor.toNat

/-! ## encoder selection (`EncoderSet::pick_encoder`, `Flags`) -/

def EXACT_U8 : Nat := 0x1
def EXACT_U16 : Nat := 0x2 ||| EXACT_U8
def EXACT_F32 : Nat := 0x4 ||| EXACT_U16
def DITHER_COLOR : Nat := 0x8
/-- sic: `0x16`, not `0x10` — overlaps the exactness bits 0x2 and 0x4 -/
def DITHER_ALPHA : Nat := 0x16
def DITHER_ALL : Nat := DITHER_COLOR ||| DITHER_ALPHA

/-- bitflags `contains` -/
def contains (flags f : Nat) : Bool := flags &&& f == f

inductive Prec | u8 | u16 | f32 deriving DecidableEq, Repr
inductive Chan | gray | alpha | rgb | rgba deriving DecidableEq, Repr
structure Color where
  ch : Chan
  p : Prec
  deriving DecidableEq, Repr

def exactFor : Prec → Nat
  | .u8 => EXACT_U8 | .u16 => EXACT_U16 | .f32 => EXACT_F32

/-- what an encoder does (ground truth for "is exact", independent of its flags) -/
inductive Kind
  | copy (c : Color)                 -- `Encoder::copy`: memcpy of exactly this colour format
  | convert (p : Prec) (snorm : Bool) -- `color_convert!` / hand-written channel shuffles: integer path at precision p
  | universal                         -- through RGBA f32 and the format's quantisers
  | dither                            -- `universal_dither!`
  deriving DecidableEq, Repr

structure Enc where
  kind : Kind
  /-- declared exactness bits -/
  exact : Nat
  /-- declared dithering bits -/
  dither : Nat
  deriving Repr

/-- the `Flags` value the code tests: the union of both declarations -/
def Enc.flags (e : Enc) : Nat := e.exact ||| e.dither

def Enc.accepts (e : Enc) (c : Color) : Bool :=
  match e.kind with
  | .copy c' => c = c'
  | .convert p _ => c.p = p
  | .universal | .dither => true

def encCopy (c : Color) : Enc := ⟨.copy c, exactFor c.p, 0⟩
def encConv (p : Prec) (snorm : Bool := false) : Enc := ⟨.convert p snorm, exactFor p, 0⟩
def encUni (extra : Nat := 0) : Enc := ⟨.universal, extra, 0⟩
def encDither (fl : Nat) : Enc := ⟨.dither, 0, fl⟩

/-- `get_dithering` of a flag set: (color, alpha) -/
def getDithering (flags : Nat) : Bool × Bool := (contains flags DITHER_COLOR, contains flags DITHER_ALPHA)

/-- `EncoderSet::pick_encoder` with `Dithering::None` (the second loop is skipped);
`dith = (color, alpha)` requested. `none` = the `expect` would panic. -/
def pickEncoder (encs : List Enc) (c : Color) (dith : Bool × Bool := (false, false)) : Option Enc :=
  let cands := encs.filter (·.accepts c)
  match cands.find? (fun e => contains e.flags (exactFor c.p)) with
  | some e => some e
  | none =>
    let byDither :=
      if dith ≠ (false, false) then
        cands.find? (fun e => let d := getDithering e.flags; (d.1 && dith.1) || (d.2 && dith.2))
      else none
    match byDither with
    | some e => some e
    | none => cands.head?

/-- the pinned encoder table (uncompressed.rs / sub_sampled.rs / bi_planar.rs), in source order -/
def encoderTable (name : String) : List Enc :=
  let g8 : Color := ⟨.gray, .u8⟩
  let uni := encUni
  match name with
  | "R8G8B8_UNORM" => [encCopy ⟨.rgb, .u8⟩, encConv .u8, uni, encDither DITHER_COLOR]
  | "B8G8R8_UNORM" => [encConv .u8, uni, encDither DITHER_COLOR]
  | "R8G8B8A8_UNORM" => [encCopy ⟨.rgba, .u8⟩, encConv .u8, uni, encDither DITHER_ALL]
  | "R8G8B8A8_SNORM" => [encConv .u8 true, uni, encDither DITHER_ALL]
  | "B8G8R8A8_UNORM" => [encConv .u8, uni, encDither DITHER_ALL]
  | "B8G8R8X8_UNORM" => [encConv .u8, uni, encDither DITHER_COLOR]
  | "B5G6R5_UNORM" => [uni, encDither DITHER_COLOR]
  | "B5G5R5A1_UNORM" | "B4G4R4A4_UNORM" | "A4B4G4R4_UNORM" => [uni, encDither DITHER_ALL]
  | "R8_UNORM" => [encCopy g8, encConv .u8, uni, encDither DITHER_COLOR]
  | "R8_SNORM" => [encConv .u8 true, uni, encDither DITHER_COLOR]
  | "R8G8_UNORM" | "R8G8_SNORM" => [encUni EXACT_U8, encDither DITHER_COLOR]
  | "A8_UNORM" => [encCopy ⟨.alpha, .u8⟩, encConv .u8, uni, encDither DITHER_ALPHA]
  | "R16_UNORM" => [encCopy ⟨.gray, .u16⟩, encConv .u16, uni, encDither DITHER_COLOR]
  | "R16_SNORM" => [encConv .u16 true, uni, encDither DITHER_COLOR]
  | "R16G16_UNORM" | "R16G16_SNORM" => [encUni EXACT_U16, encDither DITHER_COLOR]
  | "R16G16B16A16_UNORM" => [encCopy ⟨.rgba, .u16⟩, encConv .u16, uni, encDither DITHER_ALL]
  | "R16G16B16A16_SNORM" => [encConv .u16 true, uni, encDither DITHER_ALL]
  | "R10G10B10A2_UNORM" | "R10G10B10_XR_BIAS_A2_UNORM" => [uni, encDither DITHER_ALL]
  | "R11G11B10_FLOAT" => [uni, encDither DITHER_COLOR]
  | "R9G9B9E5_SHAREDEXP" => [encUni EXACT_U8, encDither DITHER_COLOR]
  | "R16_FLOAT" | "R16G16_FLOAT" => [encUni EXACT_U8, encDither DITHER_COLOR]
  | "R16G16B16A16_FLOAT" => [encUni EXACT_U8, encDither DITHER_ALL]
  | "R32_FLOAT" => [encCopy ⟨.gray, .f32⟩, encConv .f32, uni]
  | "R32G32_FLOAT" => [encUni EXACT_F32]
  | "R32G32B32_FLOAT" => [encCopy ⟨.rgb, .f32⟩, encConv .f32, uni]
  | "R32G32B32A32_FLOAT" => [encCopy ⟨.rgba, .f32⟩, encConv .f32, uni]
  | "AYUV" | "Y410" => [uni, encDither DITHER_ALL]
  | "Y416" => [encUni EXACT_U8, encDither DITHER_ALL]
  | "R1_UNORM" => [uni, encDither DITHER_COLOR]
  | "R8G8_B8G8_UNORM" | "G8R8_G8B8_UNORM" | "Y210" | "Y216" => [encUni EXACT_U8]
  | "UYVY" | "YUY2" | "NV12" | "P010" | "P016" => [uni]
  | _ => []


def allColors : List Color :=
  [⟨.gray, .u8⟩, ⟨.alpha, .u8⟩, ⟨.rgb, .u8⟩, ⟨.rgba, .u8⟩, ⟨.gray, .u16⟩, ⟨.alpha, .u16⟩, ⟨.rgb, .u16⟩, ⟨.rgba, .u16⟩,
   ⟨.gray, .f32⟩, ⟨.alpha, .f32⟩, ⟨.rgb, .f32⟩, ⟨.rgba, .f32⟩]

def formatNames : List String :=
  ["R8G8B8_UNORM", "B8G8R8_UNORM", "R8G8B8A8_UNORM", "R8G8B8A8_SNORM", "B8G8R8A8_UNORM", "B8G8R8X8_UNORM",
   "B5G6R5_UNORM", "B5G5R5A1_UNORM", "B4G4R4A4_UNORM", "A4B4G4R4_UNORM", "R8_SNORM", "R8_UNORM", "R8G8_UNORM",
   "R8G8_SNORM", "A8_UNORM", "R16_UNORM", "R16_SNORM", "R16G16_UNORM", "R16G16_SNORM", "R16G16B16A16_UNORM",
   "R16G16B16A16_SNORM", "R10G10B10A2_UNORM", "R11G11B10_FLOAT", "R9G9B9E5_SHAREDEXP", "R16_FLOAT", "R16G16_FLOAT",
   "R16G16B16A16_FLOAT", "R32_FLOAT", "R32G32_FLOAT", "R32G32B32_FLOAT", "R32G32B32A32_FLOAT",
   "R10G10B10_XR_BIAS_A2_UNORM", "AYUV", "Y410", "Y416", "R1_UNORM", "R8G8_B8G8_UNORM", "G8R8_G8B8_UNORM", "UYVY",
   "YUY2", "Y210", "Y216", "NV12", "P010", "P016"]

end Dds.Quant
