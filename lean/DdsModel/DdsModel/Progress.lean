/-
Model of progress reporting and cancellation:

* `src/progress.rs`: `ProgressRange::{FULL, from_to, sub_range, project}`, `Progress::{report,
  check_cancelled, checked_report, checked_report_if}`, `ParallelProgress::{new, submit,
  check_cancelled}`, `CancellationToken` — progress values are exact rationals (`Rat`), the `f32`
  rounding of the real computation is outside the model;
* `src/encoder.rs`: `write_surface_impl` (`get_level_progress_range`, the per-level `sub_range`s, the
  check between the levels, the final `checked_report(1.0)`);
* `src/encode/mod.rs`: `encode`, `encode_parallel` (entry check, single-fragment shortcut,
  per-fragment checks and `submit`, the write-out loop with its checks, `checked_report(1.0)`);
* the per-chunk `checked_report_if` calls of every encoder family (`encoder.rs copy_directly`,
  `uncompressed.rs`, `sub_sampled.rs`, `bi_planar.rs`, `bc.rs`) as event traces
  `check | report p | write` in program order, as a function of the geometry;
* `EncoderSet::pick_encoder` over the encoder lists of the formats used by the tie.
-/
import DdsModel.Split
namespace Dds

/-! ## `ProgressRange` -/

structure ProgressRange where
  start : Rat
  length : Rat
  deriving Repr, Inhabited

namespace ProgressRange

/-- `ProgressRange::FULL` -/
def full : ProgressRange := ⟨0, 1⟩
/-- `ProgressRange::from_to` -/
def fromTo (a b : Rat) : ProgressRange := ⟨a, b - a⟩
/-- `ProgressRange::sub_range` -/
def subRange (self other : ProgressRange) : ProgressRange :=
  ⟨self.start + other.start * self.length, other.length * self.length⟩
/-- `ProgressRange::project` -/
def project (r : ProgressRange) (p : Rat) : Rat := r.start + r.length * p
/-- the end of the range, `project 1` -/
def stop (r : ProgressRange) : Rat := r.start + r.length

end ProgressRange

/-- `get_level_progress_range(level)` of `Encoder::write_surface_impl`:
`FULL` when no mipmaps are generated, else `from_to(1 - 0.4^level, 1 - 0.4^(level+1))`
(`main_surface = 0.6`). -/
def levelRange (mipmapsToGenerate level : Nat) : ProgressRange :=
  if mipmapsToGenerate = 0 then .full
  else .fromTo (1 - (2 / 5 : Rat) ^ level) (1 - (2 / 5 : Rat) ^ (level + 1))

/-! ## events and traces -/

/-- what a call does that matters for the property, in program order:
`check` = a `check_cancelled()?`, `report p` = the reporter closure is called with `p`,
`write` = a `write_all` on the output -/
inductive Ev where
  | check
  | report (p : Rat)
  | write
  deriving Repr, Inhabited

/-- the values the reporter closure receives -/
def reports : List Ev → List Rat
  | [] => []
  | .report p :: t => p :: reports t
  | _ :: t => reports t

def writes : List Ev → Nat
  | [] => 0
  | .write :: t => writes t + 1
  | _ :: t => writes t

/-- `Progress::report` through a `sub_range`: the value is projected -/
def Ev.project (r : ProgressRange) : Ev → Ev
  | .report p => .report (r.project p)
  | e => e

/-- `progress.checked_report_if(i % f == 0, i as f32 / n as f32)?` -/
def reportIf (i f n : Nat) : List Ev :=
  if i % f = 0 then [.check, .report ((i : Rat) / (n : Rat))] else [.check]

/-- a loop of `n` steps; step `i` does `checked_report_if(i % f == 0, i / n)` and then the events
`extra i` (which never report) -/
def loopTrace (n f : Nat) (extra : Nat → Nat) : List Ev :=
  (List.range n).flatMap fun i => reportIf i f n ++ List.replicate (extra i) .write

/-- the encoder families (the functions an `Encoder::encode` pointer can be) with the geometry their
reporting depends on -/
inductive Family where
  /-- `copy_directly`: `checked_report(0.0)`, then `w` writes (1 for a contiguous view) -/
  | copy (w : Nat)
  /-- `uncompressed_untyped` / `uncompressed_universal` / `uncompressed_universal_dither` /
  `uncompressed_universal_subsample`: `n` chunks, report every `f`-th chunk, one write per chunk -/
  | chunked (n f : Nat)
  /-- `bi_planar_universal`: `groups` line groups (report every `f`-th, one write each), then
  `check_cancelled` and the write of plane 2 -/
  | biPlanar (groups f : Nat)
  /-- `block_universal`: `rows` block rows of `bw` blocks, `checked_report_if` per block with a
  running block index, one write per block row -/
  | block (bw rows f : Nat)
  deriving Repr, Inhabited

/-- the events of `(encoder.encode)(args)` -/
def Family.trace : Family → List Ev
  | .copy w => [.check, .report 0] ++ List.replicate w .write
  | .chunked n f => loopTrace n f (fun _ => 1)
  | .biPlanar g f => loopTrace g f (fun _ => 1) ++ [.check, .write]
  | .block bw rows f => loopTrace (bw * rows) f (fun i => if (i + 1) % bw = 0 then 1 else 0)

/-- the fragment jobs of `encode_parallel` in the order in which they submit; a job does
`check_cancelled` (start), encodes silently, `check_cancelled`, `submit(height)`;
`submit` is atomic under the mutex: `done += k; report(project(done / total))`.
With a single-threaded reporter (`mt = false`) `ParallelProgress` has no reporter. -/
def parJobs (mt : Bool) : List Nat → Nat → Nat → List Ev
  | [], _, _ => []
  | k :: ks, total, done =>
    [.check, .check] ++ (if mt then [.report (((done + k : Nat) : Rat) / (total : Rat))] else []) ++
      parJobs mt ks total (done + k)

/-- one call `encode(writer, image, format, Some(progress), options)` -/
inductive LevelRun where
  /-- `options.parallel = false`: entry check, the encoder, exit check -/
  | seq (fam : Family)
  /-- `options.parallel = true` but `split.single()` is `Some`: `encode_parallel` calls `encode`
  again with `parallel = false` (a second entry check) -/
  | parSingle (fam : Family)
  /-- `encode_parallel` with at least two fragments: `incs` are the fragment heights in submission
  order, `total = image.height() + 1` -/
  | par (mt : Bool) (incs : List Nat) (total : Nat)
  deriving Repr, Inhabited

def LevelRun.trace : LevelRun → List Ev
  | .seq fam => [.check] ++ fam.trace ++ [.check]
  | .parSingle fam => [.check, .check] ++ fam.trace ++ [.check]
  | .par mt incs total =>
    [.check] ++ parJobs mt incs total 0 ++ (incs.flatMap fun _ => [.check, .write]) ++
      [.check, .report 1]

/-- `encode` of the mip levels `level, level+1, …` through `progress.sub_range(level range)` -/
def levelsTrace (m : Nat) : Nat → List LevelRun → List Ev
  | _, [] => []
  | l, x :: xs => x.trace.map (Ev.project (levelRange m l)) ++ levelsTrace m (l + 1) xs

/-- `Encoder::write_surface_impl`: the main surface, then (if mipmaps are generated) a check and
the generated levels, then `checked_report(1.0)` -/
def surfaceTrace (lv0 : LevelRun) (mips : List LevelRun) : List Ev :=
  let m := mips.length
  lv0.trace.map (Ev.project (levelRange m 0)) ++
    (if m = 0 then [] else .check :: levelsTrace m 1 mips) ++ [.check, .report 1]

/-! ## execution with a cancellation token -/

structure Outcome where
  /-- `true`: the call returned `Ok(())`; `false`: `Err(EncodingError::Cancelled)` -/
  ok : Bool
  reports : List Rat
  writes : Nat
  deriving Repr, Inhabited

/-- runs a trace: `cancelled` is the state of the token, `k` the number of reports made so far;
the reporter closure cancels the token when it receives report number `cancelAt` -/
def exec (cancelAt : Option Nat) : List Ev → Bool → Nat → Outcome
  | [], _, _ => ⟨true, [], 0⟩
  | .check :: t, c, k => if c then ⟨false, [], 0⟩ else exec cancelAt t c k
  | .report p :: t, c, k =>
    let o := exec cancelAt t (c || cancelAt == some k) (k + 1)
    { o with reports := p :: o.reports }
  | .write :: t, c, k =>
    let o := exec cancelAt t c k
    { o with writes := o.writes + 1 }

/-! ## which encoder runs: `EncoderSet::pick_encoder` -/

inductive Precision where | u8 | u16 | f32 deriving DecidableEq, Repr, Inhabited
inductive Channels where | gray | alpha | rgb | rgba deriving DecidableEq, Repr, Inhabited
structure ColorFormat where
  channels : Channels
  precision : Precision
  deriving DecidableEq, Repr, Inhabited

def Precision.size : Precision → Nat | .u8 => 1 | .u16 => 2 | .f32 => 4
def Channels.count : Channels → Nat | .gray => 1 | .alpha => 1 | .rgb => 3 | .rgba => 4
def ColorFormat.bytesPerPixel (c : ColorFormat) : Nat := c.channels.count * c.precision.size

/-- `Flags` bits of src/encode/encoder.rs — `DITHER_ALPHA` really is `0x16` -/
def fExactU8 : Nat := 0x1
def fExactU16 : Nat := 0x2 ||| fExactU8
def fExactF32 : Nat := 0x4 ||| fExactU16
def fDitherColor : Nat := 0x8
def fDitherAlpha : Nat := 0x16
def fDitherAll : Nat := fDitherColor ||| fDitherAlpha
def flagsContain (a b : Nat) : Bool := a &&& b == b
def exactFor : Precision → Nat | .u8 => fExactU8 | .u16 => fExactU16 | .f32 => fExactF32
/-- `Flags::get_dithering` -/
def flagsDithering (fl : Nat) : Dithering :=
  match flagsContain fl fDitherColor, flagsContain fl fDitherAlpha with
  | true, true => .colorAndAlpha | true, false => .color | false, true => .alpha
  | false, false => .none

inductive ColorSet where
  | all | ofPrecision (p : Precision) | single (c : ColorFormat)
  deriving Repr, Inhabited
def ColorSet.contains : ColorSet → ColorFormat → Bool
  | .all, _ => true
  | .ofPrecision p, c => c.precision == p
  | .single d, c => c == d

/-- which `encode` function an `Encoder` holds -/
inductive EncKind where
  | copy
  | untyped (bytesPerEncodedPixel : Nat)
  | universal
  | dither (encodedPixelSize : Nat)
  | subsample (blockWidth : Nat)
  | biPlanar
  | block
  deriving Repr, Inhabited

structure PgEnc where
  colors : ColorSet
  flags : Nat
  kind : EncKind
  deriving Repr, Inhabited

def encCopy (c : ColorFormat) : PgEnc := ⟨.single c, exactFor c.precision, .copy⟩
/-- `color_convert!(target)` -/
def encConvert (c : ColorFormat) : PgEnc :=
  ⟨.ofPrecision c.precision, exactFor c.precision, .untyped c.bytesPerPixel⟩
def encUniversal (fl : Nat := 0) : PgEnc := ⟨.all, fl, .universal⟩
def encDither (size fl : Nat) : PgEnc := ⟨.all, fl, .dither size⟩

def rgbaU8 : ColorFormat := ⟨.rgba, .u8⟩
def rgbU8 : ColorFormat := ⟨.rgb, .u8⟩
def grayU8 : ColorFormat := ⟨.gray, .u8⟩
def alphaU8 : ColorFormat := ⟨.alpha, .u8⟩
def grayU16 : ColorFormat := ⟨.gray, .u16⟩
def rgbaU16 : ColorFormat := ⟨.rgba, .u16⟩
def grayF32 : ColorFormat := ⟨.gray, .f32⟩
def rgbF32 : ColorFormat := ⟨.rgb, .f32⟩
def rgbaF32 : ColorFormat := ⟨.rgba, .f32⟩

/-- the encoder lists (in source order) of the formats the C17 tie uses -/
def encodersOf (name : String) : Option (List PgEnc) :=
  let bc (fl : Nat) : List PgEnc := [⟨.all, fl, .block⟩]
  match name with
  | "R8G8B8_UNORM" => some [encCopy rgbU8, encConvert rgbU8, encUniversal, encDither 3 fDitherColor]
  | "R8G8B8A8_UNORM" => some [encCopy rgbaU8, encConvert rgbaU8, encUniversal, encDither 4 fDitherAll]
  | "R8G8B8A8_SNORM" => some [encConvert rgbaU8, encUniversal, encDither 4 fDitherAll]
  | "B8G8R8A8_UNORM" =>
    some [⟨.ofPrecision .u8, fExactU8, .untyped 4⟩, encUniversal, encDither 4 fDitherAll]
  | "B5G6R5_UNORM" => some [encUniversal, encDither 2 fDitherColor]
  | "B4G4R4A4_UNORM" => some [encUniversal, encDither 2 fDitherAll]
  | "R8_UNORM" => some [encCopy grayU8, encConvert grayU8, encUniversal, encDither 1 fDitherColor]
  | "A8_UNORM" => some [encCopy alphaU8, encConvert alphaU8, encUniversal, encDither 1 fDitherAlpha]
  | "R16_UNORM" => some [encCopy grayU16, encConvert grayU16, encUniversal, encDither 2 fDitherColor]
  | "R16G16B16A16_UNORM" =>
    some [encCopy rgbaU16, encConvert rgbaU16, encUniversal, encDither 8 fDitherAll]
  | "R16G16B16A16_FLOAT" => some [encUniversal fExactU8, encDither 8 fDitherAll]
  | "R9G9B9E5_SHAREDEXP" => some [encUniversal fExactU8, encDither 4 fDitherColor]
  | "R10G10B10A2_UNORM" => some [encUniversal, encDither 4 fDitherAll]
  | "R32_FLOAT" => some [encCopy grayF32, encConvert grayF32, encUniversal]
  | "R32G32B32_FLOAT" => some [encCopy rgbF32, encConvert rgbF32, encUniversal]
  | "R32G32B32A32_FLOAT" => some [encCopy rgbaF32, encConvert rgbaF32, encUniversal]
  | "AYUV" => some [encUniversal, encDither 4 fDitherAll]
  | "R1_UNORM" => some [⟨.all, 0, .subsample 8⟩, ⟨.all, fDitherColor, .subsample 8⟩]
  | "R8G8_B8G8_UNORM" | "G8R8_G8B8_UNORM" | "Y210" | "Y216" =>
    some [⟨.all, fExactU8, .subsample 2⟩]
  | "YUY2" | "UYVY" => some [⟨.all, 0, .subsample 2⟩]
  | "NV12" | "P010" | "P016" => some [⟨.all, 0, .biPlanar⟩]
  | "BC1_UNORM" | "BC2_UNORM" | "BC2_UNORM_PREMULTIPLIED_ALPHA" | "BC3_UNORM"
  | "BC3_UNORM_PREMULTIPLIED_ALPHA" | "BC7_UNORM" => some (bc fDitherAll)
  | "BC3_UNORM_RXGB" | "BC3_UNORM_NORMAL" | "BC4_UNORM" | "BC4_SNORM" | "BC5_UNORM"
  | "BC5_SNORM" => some (bc fDitherColor)
  | _ => none

/-- `EncoderSet::pick_encoder`: the three searches in source order -/
def pickEncoder (encs : List PgEnc) (color : ColorFormat) (dith : Dithering) : Option PgEnc :=
  let cands := encs.filter (·.colors.contains color)
  match cands.find? (fun e => flagsContain e.flags (exactFor color.precision)) with
  | some e => some e
  | none =>
    let byDither :=
      if dith ≠ .none then
        cands.find? (fun e => decide ((flagsDithering e.flags).intersect dith ≠ .none))
      else none
    match byDither with
    | some e => some e
    | none => cands.head?

/-- report frequency of `block_universal` -/
def blockFrequency : Quality → Nat
  | .fast => 8192 | .normal => 4096 | .high => 2048 | .unreasonable => 256

/-- geometry → family, for a contiguous view of `w × h` pixels in color format `color` -/
def familyOf (k : EncKind) (w h : Nat) (color : ColorFormat) (q : Quality) : Family :=
  let bpp := color.bytesPerPixel
  match k with
  | .copy => .copy 1
  | .untyped bpep => .chunked (divCeil (w * h) (4096 / bpep)) 2048
  | .universal => .chunked (divCeil (w * h) 512) 2048
  | .dither eps =>
    let chunkPixels := min 512 (4096 / eps)
    .chunked (h * divCeil (w * bpp) (chunkPixels * bpp)) 2048
  | .subsample bw =>
    let chunkPixels := 512 / bw * bw
    .chunked (h * divCeil (w * bpp) (chunkPixels * bpp)) 4096
  | .biPlanar => .biPlanar (divCeil h 2) (divCeil (1024 * 1024) (max (w * 2) 1))
  | .block => .block (divCeil w 4) (divCeil h 4) (blockFrequency q)

end Dds
