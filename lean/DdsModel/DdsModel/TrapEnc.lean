/-
Trapping mirrors of the ENCODER loops, part 1: slice / `usize` operators, image rows, and the chunk loops of the
uncompressed encoders.

A mirror is the loop written once more with operators that return `Option` (`none` = the Rust code panics in the
`checked` profile — overflow checks and debug assertions on; slice bounds, `copy_from_slice`, `chunks(0)`,
`split_at`, `expect` and `assert!` panic in every profile).  Only LENGTHS are modelled: whether a slice operation
panics depends on nothing else, so a `&[T]` is the number of its elements.  What is computed per pixel / per block
(`process`, `f`, `encode_block`, the quantisers) does not occur — those are total functions of their inputs (C15's
quantiser theorems; the BC encoders' float bodies are C15's sampled part).  A mirror returns the byte counts of its
successive `write_all` calls, in program order; the writer is the one of `EncTotal.lean` (`runWrites`): since a
mirror evaluates every operation of the complete run, `some` implies that every prefix of the run (a writer that
fails after `k` bytes, a cancellation) is panic-free as well.

Mirrored here (file:line of /repo/src):
* `ImageView::is_contiguous` (lib.rs:288), `ImageView::rows` (lib.rs:327)
* `as_rgba_f32`, `convert_to_rgba_f32`, `convert_t_to_rgba_f32` (color/mod.rs:327–404), `convert_channels` is
  `TrapUnc.convertChannelsT`
* `cast::ToLe::to_le` (cast.rs:171–243)
* `Progress::checked_report_if` → `ProgressRange::project` (progress.rs:46, :198)
* `for_each_chunk` (encode/write_util.rs:66–116), both branches
* `copy_directly` (encode/encoder.rs:257–291)
* `uncompressed_untyped` (encode/uncompressed.rs:157–198) with `simple_color_convert` (:199–227) and the
  `process_line`s of B8G8R8 / B8G8R8A8 / B8G8R8X8 (:401, :442, :471)
* `uncompressed_universal` (:19–63) with `process_line` of `universal!` (:260)
* `uncompressed_universal_dither` (:73–155) with `process_chunk` of `universal_dither!` (:283–323)

Buffer sizes and cadences are `SrcConsts.*` (regenerated from the source on every check run).
`Theorems/C15.lean` (`chunk_loops_trapfree`, `dither_loop_trapfree`) shows: every mirror is `some` of the write
sizes of `EncLen.lean`, for every view satisfying C20's invariant.
-/
import DdsModel.Trap
import DdsModel.EncLen
import DdsModel.View
import DdsModel.TrapUnc
import DdsModel.SrcConsts
namespace Dds.TrapEnc
open Dds Dds.Trap

/-! ## `usize` and slice operators -/

/-- plain `a * b` on `usize` (64 bit) -/
def mulU (a b : Nat) : Option Nat := if a * b < 18446744073709551616 then some (a * b) else none
/-- plain `a + b` on `usize` -/
def addU (a b : Nat) : Option Nat := if a + b < 18446744073709551616 then some (a + b) else none
/-- plain `a % b` -/
def remU (a b : Nat) : Option Nat := if b = 0 then none else some (a % b)
/-- `usize::div_ceil(a, b)` (core: `d = a / b; r = a % b; if r > 0 { d + 1 } else { d }`): only the zero divisor -/
def divCeilU (a b : Nat) : Option Nat := if b = 0 then none else some (divCeil a b)
/-- `&s[..e]` on a slice of `len` elements: the new length -/
def sliceTo (len e : Nat) : Option Nat := if e ≤ len then some e else none
/-- `&s[a..]` -/
def sliceFrom (len a : Nat) : Option Nat := if a ≤ len then some (len - a) else none
/-- `&s[a..b]` -/
def sliceRange (len a b : Nat) : Option Nat := if a ≤ b ∧ b ≤ len then some (b - a) else none
/-- `s[i]` -/
def idxLen (len i : Nat) : Option Unit := if i < len then some () else none
/-- `s.chunks(n)`: panics for `n = 0` (also on an empty slice); the chunk lengths -/
def chunksT (len n : Nat) : Option (List Nat) := if n = 0 then none else some (chunkLens n len len)
/-- `dst.copy_from_slice(src)`: the lengths must be equal -/
def copyFromSliceT (dst src : Nat) : Option Unit := if dst = src then some () else none
/-- `s.split_at(mid)` / `split_at_mut` -/
def splitAtT (len mid : Nat) : Option (Nat × Nat) := if mid ≤ len then some (mid, len - mid) else none
/-- `Vec::with_capacity(n)` / `vec![x; n]` of elements of `size` bytes: "capacity overflow" beyond `isize::MAX`
bytes (an allocation FAILURE aborts, it is not a panic; the allocator is an external) -/
def allocT (n size : Nat) : Option Unit := if n * size ≤ 9223372036854775807 then some () else none
/-- a loop `for (i, x) in xs.enumerate()` whose body may panic -/
def mapIdxT {α β} (f : Nat → α → Option β) (l : List α) : Option (List β) :=
  mapT (fun p => f p.2 p.1) l.zipIdx

theorem mulU_of_lt {a b : Nat} (h : a * b < 18446744073709551616) : mulU a b = some (a * b) := if_pos h
theorem addU_of_lt {a b : Nat} (h : a + b < 18446744073709551616) : addU a b = some (a + b) := if_pos h
theorem remU_of_ne {a b : Nat} (h : b ≠ 0) : remU a b = some (a % b) := if_neg h
theorem divCeilU_of_ne {a b : Nat} (h : b ≠ 0) : divCeilU a b = some (divCeil a b) := if_neg h
theorem sliceTo_of_le {len e : Nat} (h : e ≤ len) : sliceTo len e = some e := if_pos h
theorem sliceFrom_of_le {len a : Nat} (h : a ≤ len) : sliceFrom len a = some (len - a) := if_pos h
theorem sliceRange_of {len a b : Nat} (h : a ≤ b ∧ b ≤ len) : sliceRange len a b = some (b - a) := if_pos h
theorem idxLen_of_lt {len i : Nat} (h : i < len) : idxLen len i = some () := if_pos h
theorem chunksT_of_ne {len n : Nat} (h : n ≠ 0) : chunksT len n = some (chunkLens n len len) := if_neg h
theorem copyFromSliceT_of_eq {dst src : Nat} (h : dst = src) : copyFromSliceT dst src = some () := if_pos h
theorem splitAtT_of_le {len mid : Nat} (h : mid ≤ len) : splitAtT len mid = some (mid, len - mid) := if_pos h
theorem allocT_of_le {n size : Nat} (h : n * size ≤ 9223372036854775807) : allocT n size = some () := if_pos h

/- opaque to the elaborator from here on (see `Trap.lean`); proofs use the `…_of_…` lemmas -/
attribute [irreducible] mulU addU remU divCeilU sliceTo sliceFrom sliceRange idxLen chunksT copyFromSliceT splitAtT
  allocT

/-! ## colour formats -/

/-- `ColorFormat`: channels and `Precision::size()` (1, 2, 4) -/
structure Color where
  ch : Unc.Channels
  psize : Nat
deriving DecidableEq, Repr

/-- `ColorFormat::bytes_per_pixel` (`u8 * u8`, at most 4 · 4) -/
def Color.bpp (c : Color) : Nat := TrapUnc.chanCount c.ch * c.psize

/-- the 12 colour formats -/
def Color.all : List Color :=
  [⟨.gray, 1⟩, ⟨.alpha, 1⟩, ⟨.rgb, 1⟩, ⟨.rgba, 1⟩, ⟨.gray, 2⟩, ⟨.alpha, 2⟩, ⟨.rgb, 2⟩, ⟨.rgba, 2⟩,
   ⟨.gray, 4⟩, ⟨.alpha, 4⟩, ⟨.rgb, 4⟩, ⟨.rgba, 4⟩]

/-! ## `ImageView` -/

/-- `ImageView::is_contiguous` (lib.rs:288): `self.row_pitch * self.height() as usize == self.data.len()` -/
def isContiguousT (v : View) : Option Bool := do
  let p ← mulU v.pitch v.h
  pure (decide (p = v.len))

/-- `ImageView::rows` (lib.rs:327–341): `bytes_per_row = width as usize * bytes_per_pixel as usize`, then for
`y in 0..height` (0 for an empty size) `start = y * row_pitch`, `end = start + bytes_per_row`, `&data[start..end]`.
The lengths of the rows. -/
def rowsT (v : View) : Option (List Nat) := do
  let height := if v.w = 0 ∨ v.h = 0 then 0 else v.h
  let bpr ← mulU v.w v.bpp
  mapT (fun y => do
    let start ← mulU y v.pitch
    let stop ← addU start bpr
    sliceRange v.len start stop) (List.range height)

/-! ## conversions of a run of pixels -/

/-- `convert_t_to_rgba_f32::map::<C, T>` (color/mod.rs:381–396): `cast::from_bytes::<[T::Bytes; C]>(from).expect(..)`
and `debug_assert!(from_chunked.len() == to_buffer.len())` -/
def convertTToRgbaF32T (c : Color) (fromLen toLen : Nat) : Option Unit := do
  let n ← TrapUnc.fromBytesT fromLen (c.psize * TrapUnc.chanCount c.ch)
  dbgP (n = toLen)

/-- `convert_to_rgba_f32(from, from_buffer, to_buffer)` (color/mod.rs:341–372); `toLen` in pixels -/
def convertToRgbaF32T (c : Color) (fromLen toLen : Nat) : Option Unit := do
  let r ← remU fromLen (c.psize * TrapUnc.chanCount c.ch)            -- :349
  dbgP (r = 0)
  let q ← div fromLen (c.psize * TrapUnc.chanCount c.ch)             -- :350
  dbgP (q = toLen)
  if c.psize = 4 then
    -- :364 `convert_channels::<f32>(channels, Rgba, from_buffer, cast::as_bytes_mut(to_buffer))`
    TrapUnc.convertChannelsT c.ch .rgba 4 fromLen (toLen * 16)
  else
    convertTToRgbaF32T c fromLen toLen                               -- :359, :360

/-- `as_rgba_f32(from, from_buffer, to_buffer)` (color/mod.rs:327–340): the length of the returned slice.  For
`RGBA_F32` input whose bytes happen to be 4-aligned (`aligned`, a fact about the caller's pointer) the input is
returned re-cast and `to_buffer` is not looked at. -/
def asRgbaF32T (c : Color) (aligned : Bool) (fromLen toLen : Nat) : Option Nat :=
  if c.ch = .rgba ∧ c.psize = 4 ∧ aligned = true ∧ fromLen % 16 = 0 then some (fromLen / 16)
  else do
    convertToRgbaF32T c fromLen toLen
    pure toLen

/-- `cast::ToLe::to_le(buffer)` on `bytes` bytes of elements built from a primitive of `prim` bytes
(cast.rs:214–243): `u8` does nothing; `u16` / `u32` / `f32` go through `slice_ne_to_le_16/32`:
`assert!(buf.len() % 2 == 0)` / `% 4` (cast.rs:172, :188); arrays are flattened first (`as_flattened_mut`:
`from_bytes_mut(as_bytes_mut(..)).unwrap()`, a multiple of the element size and aligned by construction). -/
def toLeT (prim bytes : Nat) : Option Unit :=
  if prim = 1 then some () else dbgP (bytes % prim = 0)

/-- `cast::slice_ne_to_le(precision, buffer)` (cast.rs:206) -/
def sliceNeToLeT (psize bytes : Nat) : Option Unit := toLeT psize bytes

/-- `progress.checked_report_if(index % freq == 0, index as f32 / count as f32)?; index += 1` — the reporting
idiom of every loop.  `Progress::report` → `ProgressRange::project` (progress.rs:47) has
`debug_assert!((0.0..=1.0).contains(&progress))`: for `0 ≤ index ≤ count`, `count ≠ 0` the `f32` quotient of the
two (monotonically) rounded integers is in `[0, 1]`; `0 / 0` would be NaN and fail.  Stated on the integers. -/
def progT (index count freq : Nat) : Option Unit := do
  let r ← remU index freq
  if r = 0 then dbgP (index ≤ count ∧ count ≠ 0) else pure ()
  let _ ← addU index 1
  pure ()

/-! ## `for_each_chunk` (encode/write_util.rs:66–116) -/

/-- the inner `while !row.is_empty()` loop (write_util.rs:90–107) on a row of `rowLen` bytes.  `buffer` = length of
the buffer (elements), `fill` = `fill_pixels`.  Returns the lengths handed to `process_chunk` by the flushes, and
the new fill.  Running out of `fuel` with a non-empty row = the loop made no progress = `none`. -/
def fillRowT (bufferPixels buffer bpp epp : Nat) (copyT : Nat → Nat → Option Unit) :
    (fuel rowLen fill : Nat) → Option (List Nat × Nat)
  | 0, rowLen, fill => if rowLen = 0 then some ([], fill) else none
  | fuel + 1, rowLen, fill =>
    if rowLen = 0 then some ([], fill) else do
    -- :91–95 `if fill_pixels == buffer_pixels { process_chunk(buffer)?; fill_pixels = 0; }`
    let flushed := if fill = bufferPixels then [buffer] else []
    let fill := if fill = bufferPixels then 0 else fill
    let r ← remU rowLen bpp                                  -- :97 debug_assert!(row.len() % bytes_per_pixel == 0)
    dbgP (r = 0)
    let rowPixels ← div rowLen bpp                           -- :98
    let room ← subU bufferPixels fill                        -- :99
    let writePixels := min rowPixels room
    let srcEnd ← mulU writePixels bpp                        -- :101
    let src ← sliceTo rowLen srcEnd
    let a ← mulU fill epp                                    -- :102
    let e ← addU fill writePixels                            -- :103
    let b ← mulU e epp
    let dst ← sliceRange buffer a b
    copyT src dst                                            -- :100
    let fill' ← addU fill writePixels                        -- :105
    let cut ← mulU writePixels bpp                           -- :106
    let rest ← sliceFrom rowLen cut
    let r ← fillRowT bufferPixels buffer bpp epp copyT fuel rest fill'
    pure (flushed ++ r.1, r.2)

/-- `for mut row in image.rows() { while … }` -/
def fillRowsT (bufferPixels buffer bpp epp : Nat) (copyT : Nat → Nat → Option Unit) :
    (rows : List Nat) → (fill : Nat) → Option (List Nat × Nat)
  | [], fill => some ([], fill)
  | row :: rest, fill => do
    let r ← fillRowT bufferPixels buffer bpp epp copyT (row + 1) row fill
    let s ← fillRowsT bufferPixels buffer bpp epp copyT rest r.2
    pure (r.1 ++ s.1, s.2)

/-- write_util.rs:109–112 `if fill_pixels > 0 { process_chunk(&mut buffer[..fill_pixels * buffer_elements_per_pixel])?; }` -/
def finishT (buffer epp : Nat) (r : List Nat × Nat) : Option (List Nat) :=
  if r.2 > 0 then do
    let m ← mulU r.2 epp
    let last ← sliceTo buffer m
    pure (r.1 ++ [last])
  else pure r.1

/-- `for_each_chunk(image, buffer, buffer_elements_per_pixel, copy_to_buffer, process_chunk)`.
`bufLen` = `buffer.len()`, `epp` = `buffer_elements_per_pixel`; `copyT src dst` = what `copy_to_buffer` itself
checks on a source of `src` bytes and a destination of `dst` elements.  Returns the lengths (elements) of the
slices handed to `process_chunk`, in order; the caller runs its `process_chunk` mirror over them. -/
def forEachChunkT (v : View) (bufLen epp : Nat) (copyT : Nat → Nat → Option Unit) : Option (List Nat) := do
  let bufferPixels ← div bufLen epp                          -- :73
  let n ← mulU bufferPixels epp                              -- :74
  let buffer ← sliceTo bufLen n
  let bpp := v.bpp                                           -- :75
  let contiguous ← isContiguousT v                           -- :77
  if contiguous then do
    let cs ← mulU bufferPixels bpp                           -- :79
    let chunks ← chunksT v.len cs
    mapT (fun chunk => do
      let pixels ← div chunk bpp                             -- :80
      let m ← mulU pixels epp                                -- :81
      let chunkBuffer ← sliceTo buffer m
      copyT chunk chunkBuffer                                -- :82
      pure chunkBuffer) chunks                               -- :83
  else do
    let rows ← rowsT v                                       -- :89
    let r ← fillRowsT bufferPixels buffer bpp epp copyT rows 0
    finishT buffer epp r

/-! ## `copy_directly` (encode/encoder.rs:257–291) -/

/-- `copy_directly`: one `write_all(image.data())` for a contiguous image (little endian), else `for_each_chunk`
over a `[0_u8; 4096]` with `bytes_per_pixel` elements per pixel -/
def copyDirectlyT (v : View) (c : Color) : Option (List Nat) := do
  let contiguous ← isContiguousT v                           -- :269
  if contiguous then pure [v.len]                            -- :271
  else do
    let lens ← forEachChunkT v SrcConsts.COPY_BUFFER_BYTES c.bpp (fun chunk buffer => do
      dbgP (chunk = buffer)                                  -- :280 debug_assert_eq!
      copyFromSliceT buffer chunk)                           -- :281
    mapT (fun buffer => do
      let r ← remU buffer c.psize                            -- :284 debug_assert!(buffer.len() % precision.size() == 0)
      dbgP (r = 0)
      sliceNeToLeT c.psize buffer                            -- :285
      pure buffer) lens                                      -- :286 write_all(buffer)

/-! ## `uncompressed_untyped` (encode/uncompressed.rs:157–198) -/

/-- the `f(partial, color, encoded)` closures handed to `uncompressed_untyped` -/
inductive UntypedLine where
  /-- `color_convert!(target, snorm)` → `simple_color_convert(line, color, out, target, snorm)` (:199–227) -/
  | convert (target : Color) (snorm : Bool)
  /-- `process_line` of B8G8R8 (`n = 3`), B8G8R8A8 / B8G8R8X8 (`n = 4`): `assert!(precision == U8)`,
  `convert_channels::<u8>(.., Rgb | Rgba, line, out)`, `as_array_chunks_mut::<n>(out).expect(..)` (:401–409) -/
  | bgr (n : Nat)
deriving DecidableEq, Repr

/-- bytes per encoded pixel the macro / call site passes along (`$target.bytes_per_pixel()`, `3`, `4`) -/
def UntypedLine.bpe : UntypedLine → Nat
  | .convert t _ => t.bpp
  | .bgr n => n

def untypedLineT (k : UntypedLine) (c : Color) (line out : Nat) : Option Unit :=
  match k with
  | .convert target snorm => do
    dbgP (c.psize = target.psize)                            -- :206 assert!(color.precision == target.precision)
    TrapUnc.convertChannelsT c.ch target.ch c.psize line out -- :208 convert_channels_for
    if snorm then
      (if target.psize = 2 then do                           -- :216 as_array_chunks_mut::<2>(out).expect(..)
        let _ ← TrapUnc.fromBytesT out 2
        pure ()
      else dbgP (target.psize = 1))                          -- :222 unreachable!() for F32
    else pure ()
    sliceNeToLeT target.psize out                            -- :226
  | .bgr n => do
    dbgP (c.psize = 1)                                       -- :402
    TrapUnc.convertChannelsT c.ch (if n = 3 then .rgb else .rgba) 1 line out   -- :403
    let _ ← TrapUnc.fromBytesT out n                         -- :406
    pure ()

/-- `uncompressed_untyped(args, bytes_per_encoded_pixel, f)` -/
def uncompressedUntypedT (v : View) (c : Color) (k : UntypedLine) : Option (List Nat) := do
  let encodedBuffer := SrcConsts.UNTYPED_BUFFER_BYTES        -- :170–171
  let per ← div encodedBuffer k.bpe                          -- :175
  let chunkCount ← divCeilU (v.w * v.h) per                  -- :173 (`pixels()` is a `u64` product of two `u32`)
  let lens ← forEachChunkT v encodedBuffer k.bpe (untypedLineT k c)   -- :179–183
  mapIdxT (fun chunkIndex encoded => do
    progT chunkIndex chunkCount SrcConsts.UNC_REPORT_FREQUENCY        -- :186–190
    pure encoded) lens                                       -- :192 write_all(encoded)

/-! ## `uncompressed_universal` (encode/uncompressed.rs:19–63) -/

/-- `uncompressed_universal::<EncodedPixel>(args, process)`; `size` = `size_of::<EncodedPixel>()`, `prim` = size of
the primitive it is built from (`[u16; 4]`: 8 and 2) -/
def uncompressedUniversalT (v : View) (c : Color) (aligned : Bool) (size prim : Nat) : Option (List Nat) := do
  let bufferPixels := SrcConsts.UNIVERSAL_BUFFER_PIXELS      -- :34–36
  let chunkCount ← divCeilU (v.w * v.h) bufferPixels         -- :38
  let lens ← forEachChunkT v bufferPixels 1 (fun part encoded => do
    let intermediate ← sliceTo bufferPixels encoded          -- :45 &mut intermediate_buffer[..encoded.len()]
    let line ← asRgbaF32T c aligned part intermediate     -- :46
    dbgP (line = encoded))                                   -- :261 debug_assert!(line.len() == out.len())
  mapIdxT (fun chunkIndex encoded => do
    progT chunkIndex chunkCount SrcConsts.UNC_REPORT_FREQUENCY        -- :50–54
    let bytes ← mulU encoded size                            -- cast::as_bytes
    toLeT prim bytes                                         -- :56
    pure bytes) lens                                         -- :57

/-! ## `uncompressed_universal_dither` (encode/uncompressed.rs:73–155) -/

/-- `process_chunk` of `universal_dither!` (:283–323) on `chunk` pixels, `encoded` bytes, the two error slices -/
def ditherProcessChunkT (size prim chunk encoded curErr nextErr : Nat) : Option Unit := do
  -- :291 `cast::from_bytes_mut::<Out>(encoded).expect(..)`: whole elements (the alignment is the `assert!` at :92
  -- together with the offset 0 into the `u64` buffer)
  let enc ← TrapUnc.fromBytesT encoded size
  dbgP (chunk = enc)                                         -- :294
  dbgP (chunk = curErr)                                      -- :295
  dbgP (chunk + 2 = nextErr)                                 -- :296
  -- :300–318 `zip` of three iterators (stops at the shortest); `error_offset` runs from 1
  let n := min (min chunk enc) curErr
  let _ ← mapT (fun i => do
    let off ← addU 1 i                                       -- :317 error_offset += 1 (accumulated)
    let a ← subU off 1                                       -- :312
    idxLen nextErr a
    idxLen nextErr off                                       -- :313
    let b ← addU off 1                                       -- :314
    idxLen nextErr b) (List.range n)
  toLeT prim encoded                                         -- :320

/-- the chunk loop of one row (:124–151): `error_offset` threaded through -/
def ditherRowT (c : Color) (aligned : Bool) (size prim bufferPixels encodedBytes curErr nextErr chunkCount : Nat) :
    (lines : List Nat) → (chunkIndex errorOffset : Nat) → Option (List Nat × Nat)
  | [], chunkIndex, _ => some ([], chunkIndex)
  | line :: rest, chunkIndex, errorOffset => do
    progT chunkIndex chunkCount SrcConsts.UNC_REPORT_FREQUENCY        -- :126–130
    let r ← remU line c.bpp                                  -- :132
    dbgP (r = 0)
    let pixels ← div line c.bpp                              -- :133
    let intermediate ← sliceTo bufferPixels pixels           -- :135
    let eb ← mulU pixels size                                -- :136
    let encoded ← sliceTo encodedBytes eb
    let inter ← asRgbaF32T c aligned line intermediate       -- :137
    let ce ← addU errorOffset pixels                         -- :144
    let cur ← sliceRange curErr errorOffset ce
    let na ← subU errorOffset 1                              -- :145
    let nb0 ← addU errorOffset pixels
    let nb ← addU nb0 1
    let next ← sliceRange nextErr na nb
    ditherProcessChunkT size prim inter encoded cur next     -- :139
    let errorOffset' ← addU errorOffset pixels               -- :147
    toLeT 1 encoded                                          -- :149 (`u8`)
    let s ← ditherRowT c aligned size prim bufferPixels encodedBytes curErr nextErr chunkCount rest (chunkIndex + 1) errorOffset'
    pure (encoded :: s.1, s.2)                               -- :150

def ditherRowsT (c : Color) (aligned : Bool) (size prim bufferPixels encodedBytes chunkSize chunkCount rowBytes : Nat) :
    (rows : List Nat) → (chunkIndex curErr nextErr : Nat) → Option (List Nat)
  | [], _, _, _ => some []
  | row :: rest, chunkIndex, curErr, nextErr => do
    dbgP (row = rowBytes)                                    -- :116
    -- :119 `std::mem::swap(&mut current_line_error, &mut next_line_error)`
    let cur := nextErr
    let next := curErr
    let lines ← chunksT row chunkSize                        -- :124
    let r ← ditherRowT c aligned size prim bufferPixels encodedBytes cur next chunkCount lines chunkIndex
      SrcConsts.DITHER_ERROR_PADDING                         -- :121
    let s ← ditherRowsT c aligned size prim bufferPixels encodedBytes chunkSize chunkCount rowBytes rest r.2 cur next
    pure (r.1 ++ s)

/-- `uncompressed_universal_dither(args, encoded_pixel_size, encoded_pixel_align, process_chunk)` -/
def ditherT (v : View) (c : Color) (aligned : Bool) (size align prim : Nat) : Option (List Nat) := do
  dbgP (align ≤ SrcConsts.DITHER_ENCODED_ELEM_BYTES)         -- :92
  let pad := SrcConsts.DITHER_ERROR_PADDING                  -- :94
  let p2 ← mulU pad 2                                        -- :95
  let l1 ← addU v.w p2
  let errTotal ← mulU 2 l1
  allocT errTotal 16
  let p2' ← mulU pad 2                                       -- :97
  let mid ← addU v.w p2'
  let halves ← splitAtT errTotal mid
  let bufferPixels := SrcConsts.DITHER_BUFFER_PIXELS         -- :106
  let encodedBytes ← mulU bufferPixels SrcConsts.DITHER_ENCODED_ELEM_BYTES   -- :108–109
  let q ← div encodedBytes size                              -- :111
  let chunkPixels := min bufferPixels q
  let chunkSize ← mulU chunkPixels c.bpp                     -- :112
  let rowBytes ← mulU v.w c.bpp                              -- :113
  let perRow ← divCeilU rowBytes chunkSize
  let chunkCount ← mulU v.h perRow
  let rows ← rowsT v                                         -- :115
  ditherRowsT c aligned size prim bufferPixels encodedBytes chunkSize chunkCount rowBytes rows 0 halves.1 halves.2

end Dds.TrapEnc
