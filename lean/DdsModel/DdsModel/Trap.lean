/-
Trapping machine arithmetic: the semantics of the Rust operators in the `checked` build profile
(`overflow-checks = on`, `debug-assertions = on`).

Every operation that can panic in that profile returns `Option`; `none` = panic.  The mirrors in
`TrapBc.lean`, `TrapBc7.lean`, `TrapBc6.lean`, `TrapUnc.lean` are the codec bodies written with these
operators, and `Theorems/C01.lean` shows that each mirror returns `some` of what the wrapping
(release-profile) model of C03 / C03x / C04 computes — for every block / encoded pixel.

What panics in Rust (and only that is `none` here):
* `+ - *` on an integer type whose ideal result leaves the type (`ck`, `subU`, `ckI32`, `negI32`);
* `<<` / `>>` with a shift amount ≥ the bit width of the LEFT operand (`shl`, `shr`, `shlI32`, `sarI32`);
  bits shifted out are lost silently, as in Rust (no trap);
* `/` by zero (`div`);
* slice / array indexing out of range (`idx`); `unwrap` / `expect` on `None`;
* `assert!` / `debug_assert!` / `unreachable!()` (`dbg`, `none`).
NOT a panic: `wrapping_*`, `saturating_*`, `as` casts between integer types (truncation), float
arithmetic and float → integer casts (saturating, NaN → 0).
-/
namespace Dds.Trap

/-- result `x` of a plain `+` / `*` on an unsigned type with `bound = 2^bits` values -/
def ck (bound x : Nat) : Option Nat := if x < bound then some x else none
/-- plain `a - b` on an unsigned type -/
def subU (a b : Nat) : Option Nat := if b ≤ a then some (a - b) else none
/-- `x << s` on an unsigned type of `width` bits (`bound = 2^width`): traps iff `s ≥ width` -/
def shl (width bound x s : Nat) : Option Nat := if s < width then some ((x <<< s) % bound) else none
/-- `x >> s` on an unsigned type of `width` bits: traps iff `s ≥ width` -/
def shr (width x s : Nat) : Option Nat := if s < width then some (x >>> s) else none
/-- `a / b` -/
def div (a b : Nat) : Option Nat := if b = 0 then none else some (a / b)
/-- `l[i]` -/
def idx {α} (l : List α) (i : Nat) : Option α := l[i]?
/-- `assert!(c)` / `debug_assert!(c)` -/
def dbg (c : Bool) : Option Unit := if c then some () else none

/-- `assert!(p)` / `debug_assert!(p)` for a decidable proposition -/
def dbgP (p : Prop) [Decidable p] : Option Unit := if p then some () else none
/-- `a[i]` for an array of `n` elements given as a function -/
def idxF {α} (n : Nat) (a : Nat → α) (i : Nat) : Option α := if i < n then some (a i) else none

/-- all results, or `none` if one of them is a panic -/
def allSome {α} : List (Option α) → Option (List α)
  | [] => some []
  | none :: _ => none
  | some a :: l => match allSome l with
    | some r => some (a :: r)
    | none => none
/-- a loop / `array.map(f)` whose body may panic: the results in order, or the panic -/
def mapT {α β} (f : α → Option β) (l : List α) : Option (List β) := allSome (l.map f)

/-- result `x` of a plain `+ - *` on `i32` -/
def ckI32 (x : Int) : Option Int := if -2147483648 ≤ x ∧ x ≤ 2147483647 then some x else none
/-- result of a plain `+ - *` on `i16` / `i8` -/
def ckI16 (x : Int) : Option Int := if -32768 ≤ x ∧ x ≤ 32767 then some x else none
def ckI8 (x : Int) : Option Int := if -128 ≤ x ∧ x ≤ 127 then some x else none

/-- `two_powi(exp as i8 - bias)` (util.rs:56) for a small non-negative `exp`: the `i8` subtraction at the call site
(formats.rs: `two_powi(exp as i8 - 25)` …), `debug_assert!(-126 <= exponent)`, `(exponent as i32) + 127` and the
`u32` shift `<< 23`.  Only the checks; the value is computed by the float models. -/
def twoPowiT (exp : Nat) (bias : Int) : Option Unit :=
  match ckI8 ((exp : Int) - bias) with
  | none => none
  | some e =>
    match dbgP (-126 ≤ e) with
    | none => none
    | some _ =>
      match ckI32 (e + 127) with
      | none => none
      | some s =>
        match shl 32 4294967296 s.toNat 23 with
        | none => none
        | some _ => some ()

theorem ck_of_lt {bound x : Nat} (h : x < bound) : ck bound x = some x := if_pos h
theorem subU_of_le {a b : Nat} (h : b ≤ a) : subU a b = some (a - b) := if_pos h
theorem shl_of_lt {width bound x s : Nat} (h : s < width) : shl width bound x s = some ((x <<< s) % bound) :=
  if_pos h
theorem shr_of_lt {width x s : Nat} (h : s < width) : shr width x s = some (x >>> s) := if_pos h
theorem div_of_ne {a b : Nat} (h : b ≠ 0) : div a b = some (a / b) := if_neg h
theorem dbg_of_true {c : Bool} (h : c = true) : dbg c = some () := by subst h; rfl
theorem dbgP_of {p : Prop} [Decidable p] (h : p) : dbgP p = some () := if_pos h
theorem idxF_of_lt {α} {n : Nat} {a : Nat → α} {i : Nat} (h : i < n) : idxF n a i = some (a i) := if_pos h

theorem mapT_eq_some {α β} (f : α → Option β) (g : α → β) (l : List α) (h : ∀ x ∈ l, f x = some (g x)) :
    mapT f l = some (l.map g) := by
  induction l with
  | nil => rfl
  | cons a l ih =>
    have ha := h a (List.mem_cons_self ..)
    have hl := ih (fun x hx => h x (List.mem_cons_of_mem _ hx))
    simp only [mapT, List.map_cons, ha, allSome] at hl ⊢
    rw [hl]

theorem ckI32_of_range {x : Int} (h : -2147483648 ≤ x ∧ x ≤ 2147483647) : ckI32 x = some x := if_pos h
theorem ckI16_of_range {x : Int} (h : -32768 ≤ x ∧ x ≤ 32767) : ckI16 x = some x := if_pos h
theorem ckI8_of_range {x : Int} (h : -128 ≤ x ∧ x ≤ 127) : ckI8 x = some x := if_pos h

theorem twoPowiT_of {exp : Nat} {bias : Int} (h : -126 ≤ (exp : Int) - bias ∧ (exp : Int) - bias ≤ 127) :
    twoPowiT exp bias = some () := by
  unfold twoPowiT
  rw [ckI8_of_range (by omega)]
  simp only []
  rw [dbgP_of h.1]
  simp only []
  rw [ckI32_of_range (by omega)]
  simp only []
  rw [shl_of_lt (by omega)]

/-! Sequencing lemmas with NON-definitional proofs.  `Option.bind_some` is a `rfl` lemma: `simp` then rewrites
definitionally and leaves the kernel to re-check `(some a).bind f ≡ f a` by unfolding, and the kernel's
argument-first heuristic starts to compare `some a` with the NEXT `ck …` application, i.e. to decide
`x + 32520 < 4294967296` for a variable `x` by peeling `Nat.ble` 32 520 times (minutes, then "deep recursion").
With a proof term the kernel only checks the instance. -/
theorem bind_some' {α β} (a : α) (f : α → Option β) : (some a >>= f) = f a := by
  cases h : f a <;> exact h
theorem pure_some' {α} (a : α) : (pure a : Option α) = some a := Eq.trans rfl rfl

/-- unfold the Option monad of a mirror and discharge every trap condition by `omega` -/
macro "trap_simp" "[" ls:Lean.Parser.Tactic.simpLemma,* "]" : tactic =>
  `(tactic| simp (disch := omega) only [$ls,*, Dds.Trap.ck_of_lt, Dds.Trap.subU_of_le, Dds.Trap.shr_of_lt,
      Dds.Trap.shl_of_lt, Dds.Trap.div_of_ne, Dds.Trap.dbgP_of, Dds.Trap.idxF_of_lt, Dds.Trap.bind_some',
      Dds.Trap.pure_some', Nat.mod_eq_of_lt])

/- The operators are opaque to the elaborator from here on (the unifier would otherwise try to decide
`x + 32520 < 4294967296` for a variable `x` by unfolding `Nat.ble` 32 520 times); proofs go through the
`…_of_…` lemmas above, evaluation (`decide +kernel`, the compiled driver) is unaffected. -/
attribute [irreducible] ck subU shl shr div dbg dbgP idxF ckI32 ckI16 ckI8

end Dds.Trap
