/-
Specification-side predicates for the YUV decoders of C04 (three channels, tie tolerance).  A separate model file so
that `ConvSpec.lean` (imported by the large kernel-evaluation modules) stays untouched.  Core only.
-/
import DdsModel.ConvSpec
namespace Dds.Spec
open Dds.CF32

/-- an F32 output `b` (bit pattern) is finite and within `eps` of `q` -/
def nearF32 (eps q : Rat) (b : Nat) : Bool :=
  expField b != 255 && (let d := toRat b - q; decide (-eps ≤ d ∧ d ≤ eps))

/-- admissible F32 outputs under the tie tolerance (the oracle's reading for float-evaluated YUV channels,
`harness/src/c04.rs` `check_channel`, `Class::Tol`): finite and `|value − clamp01 q| ≤ τ + 2^-24`, `τ = 2^-12 / 255` -/
def admissibleF32 (q : Rat) (b : Nat) : Bool := nearF32 (1 / (4096 * 255) + 1 / 16777216) (clamp01 q) b

/-- all three channels of a YUV result satisfy `P ideal output` (and there are exactly three) -/
def yuvAll (P : Rat → Nat → Bool) (q : Rat × Rat × Rat) (l : List Nat) : Bool :=
  match l with
  | [r, g, b] => P q.1 r && P q.2.1 g && P q.2.2 b
  | _ => false

end Dds.Spec
