/-
Specification-side predicates for the YUV decoders of C04 (three channels, tie tolerance).  A separate model file so
that `ConvSpec.lean` (imported by the large kernel-evaluation modules) stays untouched.  Core only.
-/
import DdsModel.ConvSpec
namespace Dds.Spec
open Dds.CF32

/-- an F32 output `b` (bit pattern) is finite and within `eps` of `q` -/
def nearF32 (eps q : Rat) (b : Nat) : Bool :=
  expField b != 255 && (let d := toRat b - q; decide (-eps ≤ d ∧ d ≤ eps))

/-- admissible F32 outputs under the tie tolerance (the oracle's reading for float-evaluated YUV channels,
`harness/src/c04.rs` `check_channel`, `Class::Tol`): finite and `|value − clamp01 q| ≤ τ + 2^-24`, `τ = 2^-12 / 255` -/
def admissibleF32 (q : Rat) (b : Nat) : Bool := nearF32 (1 / (4096 * 255) + 1 / 16777216) (clamp01 q) b

/-- all three channels of a YUV result satisfy `P ideal output` (and there are exactly three) -/
def yuvAll (P : Rat → Nat → Bool) (q : Rat × Rat × Rat) (l : List Nat) : Bool :=
  match l with
  | [r, g, b] => P q.1 r && P q.2.1 g && P q.2.2 b
  | _ => false

/-- the unclamped normalised ideal values of the three channels (`yuv = clamp01 ∘ yuvRaw`, `yuv_eq_clamp_raw`) -/
def yuvRaw (bits y u v : Nat) : Rat × Rat × Rat :=
  let (oy, oc, mx) : Int × Int × Int :=
    if bits == 8 then (16, 128, 255) else if bits == 10 then (64, 512, 1023) else (4096, 32768, 65535)
  let c : Rat := (((y : Int) - oy : Int) : Rat)
  let d : Rat := (((u : Int) - oc : Int) : Rat)
  let e : Rat := (((v : Int) - oc : Int) : Rat)
  let k (n : Nat) : Rat := (n : Rat) / 1000000
  ((k 1164383 * c + k 1596027 * e) / (mx : Rat),
   (k 1164383 * c - k 391762 * d - k 812968 * e) / (mx : Rat),
   (k 1164383 * c + k 2017232 * d) / (mx : Rat))

theorem yuv_eq_clamp_raw (bits y u v : Nat) :
    yuv bits y u v = (clamp01 (yuvRaw bits y u v).1, clamp01 (yuvRaw bits y u v).2.1, clamp01 (yuvRaw bits y u v).2.2) := rfl

/-- saturation: an unclamped ideal value of at least `1 + 2^-20` gives exactly the maximum (255 / 65535 / the float
1.0), one of at most `−2^-20` exactly 0 (`prec` 0 = U8, 1 = U16, 2 = F32) -/
def satOk (prec : Nat) (raw : Rat) (out : Nat) : Bool :=
  (!decide (1 + 1 / 1048576 ≤ raw) || out == (if prec == 0 then 255 else if prec == 1 then 65535 else one)) &&
  (!decide (raw ≤ -(1 / 1048576)) || out == 0)

end Dds.Spec
