/-
Model of src/encoder.rs (`Encoder`): cursor and byte accounting of `write_surface`,
`finish`, and the `mipmaps.generate` option, over an ideal fault-free writer.

`encode` is represented by its contract: it rejects a pre-cancelled call and a size that is
not a multiple of the format's size multiple BEFORE writing anything, and otherwise writes
exactly the encoded length of the surface (C10 / C15). `written` counts the data bytes
written after the header. The model is of the code AFTER the repair F13 (the cursor moves
past a generated mipmap only once that mipmap has been encoded).
-/
import DdsModel.Iter
namespace Dds

inductive EncOp where
  /-- `write_surface` with an image of the given size -/
  | write (w h : Nat)
  /-- `write_surface_with_progress` with an already cancelled token -/
  | writeCancelled (w h : Nat)
  /-- `encoder.mipmaps.generate = b` -/
  | setGenerate (b : Bool)
  /-- `finish()` (consumes the encoder; modelled as a query) -/
  | finish
deriving DecidableEq, Repr, Inhabited

inductive EncRes where
  | ok | tooManySurfaces | unexpectedSurfaceSize | cancelled
  /-- `InvalidSize` for the surface passed by the caller: nothing was written -/
  | invalidSize
  /-- `InvalidSize` for a generated mipmap: the surfaces before it were written -/
  | invalidSizeMip
  | missingSurfaces | panic
deriving DecidableEq, Repr, Inhabited

structure Enc where
  layout : DataLayout
  iter : SurfIter
  written : Nat
  generate : Bool
  /-- the format's size multiple ((1,1) when it has none) -/
  mulW : Nat
  mulH : Nat
deriving DecidableEq, Repr, Inhabited

def Enc.new (L : DataLayout) (mulW mulH : Nat) : Enc :=
  ⟨L, SurfIter.new L, 0, true, mulW, mulH⟩

def DataLayout.isVolume : DataLayout → Bool
  | .volume _ => true
  | _ => false

def Enc.sizeOk (e : Enc) (w h : Nat) : Bool := w % e.mulW = 0 && h % e.mulH = 0

/-- encode the generated mipmaps: while the current surface is a mipmap, encode it and
advance; at most `fuel` (≤ 255 levels) iterations -/
def Enc.genLoop (e : Enc) : Nat → Enc × EncRes
  | 0 => (e, .ok)
  | fuel + 1 =>
    match e.iter.currentP with
    | none => (e, .panic)
    | some none => (e, .ok)
    | some (some s) =>
      if s.level = 0 then (e, .ok)
      else if !e.sizeOk s.w s.h then (e, .invalidSizeMip)
      else
        match e.iter.advanceP with
        | none => (e, .panic)
        | some it => ({ e with iter := it, written := e.written + s.len }).genLoop fuel

/-- image views normalise empty sizes to 0x0 -/
def normSizeE (w h : Nat) : Nat × Nat := if w = 0 ∨ h = 0 then (0, 0) else (w, h)

/-- `mipmaps_to_generate` -/
def Enc.toGen (e : Enc) (s : SurfInfo) : Nat :=
  if e.generate && !e.layout.isVolume then e.layout.mips - ((s.level + 1) % U8) else 0

/-- `write_surface_impl` -/
def Enc.write (e : Enc) (w h : Nat) (preCancelled : Bool) : Enc × EncRes :=
  match e.iter.currentP with
  | none => (e, .panic)
  | some none => (e, .tooManySurfaces)
  | some (some s) =>
    if (s.w, s.h) ≠ normSizeE w h then (e, .unexpectedSurfaceSize)
    else if preCancelled then (e, .cancelled)
    else if !e.sizeOk s.w s.h then (e, .invalidSize)
    else
      match e.iter.advanceP with
      | none => (e, .panic)
      | some it =>
        if e.toGen s > 0 then
          ({ e with iter := it, written := e.written + s.len } : Enc).genLoop 255
        else ({ e with iter := it, written := e.written + s.len }, .ok)

/-- `finish` -/
def Enc.finish (e : Enc) : EncRes :=
  match e.iter.currentP with
  | none => .panic
  | some none => .ok
  | some (some _) => .missingSurfaces

def Enc.step (e : Enc) : EncOp → Enc × EncRes
  | .write w h => e.write w h false
  | .writeCancelled w h => e.write w h true
  | .setGenerate b => ({ e with generate := b }, .ok)
  | .finish => (e, e.finish)

end Dds
