/-
Software IEEE-754 binary64 (`f64`), on bit patterns (`Nat < 2^64`): exactly the operations that
`s16::from_uf32` (src/color/formats.rs) uses —

    let x = x.min(1.0) as f64;                 // `f32::min` is `CF32.fmin`; `as f64` is `ofF32`
    let norm = (x * 65534.0 + 0.5) as u16;     // `fmul`, `fadd`, `toNatSat`

Written like `ConvF32.lean`: every Rust operator is one correctly rounded IEEE operation, i.e.
"exact dyadic result, then one rounding to nearest (ties to even), with gradual underflow and
overflow to infinity" = `roundPack`.  Rust evaluates every `f64` operator separately in binary64
(no contraction into FMA, no excess precision on x86-64/SSE2).  Nothing here uses Lean's `Float`.
Only core is imported.
-/
import DdsModel.ConvF32
namespace Dds.CF64
open Dds.CF32 (force forceI force_eq forceI_eq)

def signBit : Nat := 0x8000000000000000
def posInf : Nat := 0x7FF0000000000000
def negInf : Nat := 0xFFF0000000000000
/-- canonical NaN of the arithmetic operators (Rust's `f64::NAN`); NaN payloads never reach a
compared result: every NaN is cast to 0 by `as u16` -/
def nan : Nat := 0x7FF8000000000000
/-- the quiet bit of a binary64 NaN -/
def quietBit : Nat := 0x0008000000000000

def expField (b : Nat) : Nat := (b >>> 52) % 2048
def fracField (b : Nat) : Nat := b % 0x10000000000000
def isNeg (b : Nat) : Bool := b ≥ signBit
def isNaN (b : Nat) : Bool := expField b == 2047 && fracField b != 0
def isInf (b : Nat) : Bool := expField b == 2047 && fracField b == 0
def isZero (b : Nat) : Bool := b % signBit == 0

/-- magnitude of a finite pattern as `m * 2^e` -/
def mant (b : Nat) : Nat := if expField b == 0 then fracField b else fracField b + 0x10000000000000
def expo (b : Nat) : Int := if expField b == 0 then -1074 else (expField b : Int) - 1075

/-- Round the exact non-negative dyadic `m * 2^e` to binary64 (round to nearest, ties to even) and
attach the sign.  Subnormals and overflow to infinity are handled; `m = 0` gives a signed zero.
(`CF32.roundPack` with 52 fraction bits, minimum normal exponent −1022.) -/
def roundPack (sign : Bool) (m : Nat) (e : Int) : Nat :=
  force m fun m => forceI e fun e =>
  let s := if sign then signBit else 0
  if m == 0 then s else
  forceI ((Nat.log2 m : Int) + e) fun E =>          -- value in [2^E, 2^(E+1))
  forceI (if E ≥ -1022 then E - 52 else -1074) fun q => -- exponent of the unit in the last place
  forceI (q - e) fun sh =>
  force (if sh ≤ 0 then m <<< (-sh).toNat
    else
      force sh.toNat fun k =>
      force (m >>> k) fun hi =>
      force (m % (2 ^ k)) fun rem =>
      force (2 ^ (k - 1)) fun half =>
      if rem > half ∨ (rem == half ∧ hi % 2 == 1) then hi + 1 else hi) fun mant' =>
  -- `mant'` contains the hidden bit for normal numbers, so adding it to (E+1022)<<52 yields the
  -- biased exponent E+1023 and lets a rounding carry propagate into the exponent
  force (if E ≥ -1022 then ((E + 1022).toNat <<< 52) + mant' else mant') fun bits =>
  if bits ≥ posInf then s + posInf else s + bits

/-- `x as f64` for an `f32` bit pattern `x < 2^32`: the widening conversion is exact for every
finite value (24-bit significand, exponent −149 … 127: always a normal binary64, so `roundPack`
does not round; proved in `Proofs/ConvF64.lean`), keeps the sign of zeros and infinities, and for
a NaN keeps the sign, moves the payload to the top of the fraction and sets the quiet bit
(`cvtss2sd`). -/
def ofF32 (x : Nat) : Nat :=
  force x fun x =>
  let s := if CF32.isNeg x then signBit else 0
  if CF32.isNaN x then s + posInf + (quietBit ||| (CF32.fracField x <<< 29)) else
  if CF32.isInf x then s + posInf else
  roundPack (CF32.isNeg x) (CF32.mant x) (CF32.expo x)

/-- `a * b` -/
def fmul (a b : Nat) : Nat :=
  force a fun a => force b fun b =>
  if isNaN a || isNaN b then nan else
  let sign := isNeg a != isNeg b
  if isInf a || isInf b then
    if isZero a || isZero b then nan else (if sign then negInf else posInf)
  else roundPack sign (mant a * mant b) (expo a + expo b)

/-- `a + b` -/
def fadd (a b : Nat) : Nat :=
  force a fun a => force b fun b =>
  if isNaN a || isNaN b then nan else
  if isInf a then (if isInf b && isNeg a != isNeg b then nan else a) else
  if isInf b then b else
  forceI (min (expo a) (expo b)) fun e =>
  let A : Int := (mant a <<< (expo a - e).toNat : Nat)
  let B : Int := (mant b <<< (expo b - e).toNat : Nat)
  forceI ((if isNeg a then -A else A) + (if isNeg b then -B else B)) fun S =>
  if S == 0 then (if isNeg a && isNeg b then signBit else 0)
  else roundPack (S < 0) S.natAbs e

/-- `x as uN` (saturating float→int cast; NaN → 0), `max = 2^N - 1` -/
def toNatSat (x : Nat) (max : Nat) : Nat :=
  force x fun x =>
  if isNaN x then 0 else
  if isNeg x then 0 else
  if isInf x then max else
  let e := expo x
  let v := if e ≥ 0 then mant x <<< e.toNat else mant x >>> (-e).toNat
  if v > max then max else v

def one : Nat := 0x3FF0000000000000
def half : Nat := 0x3FE0000000000000
/-- the literal `65534.0`: `0xFFFE · 2^37 · 2^-37`, biased exponent `1023 + 15` -/
def k65534 : Nat := 0x40EFFFC000000000

end Dds.CF64
