/-
The discrete core of the BC1–BC5 ENCODERS: `src/encode/bc1.rs` (BC1 and the colour half of BC2 / BC3 / RXGB / BC3n),
`src/encode/bc4.rs` (BC4, BC5, BC3 alpha, the red channel of RXGB / BC3n) and the wiring of `src/encode/bc.rs`.

The float ENDPOINT SEARCH is not here (line fit, least squares, refinement, quantisation choice, Oklab, dithering): its
results — two 5:6:5 colours, two 8-bit endpoints — are parameters.  What is here, code-shaped, with the Rust function
cited at every definition:

* bc1.rs: `IndexList` (a `u32`, 2 bits × 16, the three `debug_assert!`s of `set` as `Option`), `AlphaMap`,
  `Palette::transparent_index`, `PaletteInfo::create_endpoints` (over `Enc13.newP4` / `newP3Default`), the index
  bookkeeping of `Palette::block_closest` / `block_dither`, `EndPoints::with_indexes` (`Enc13.withIndexes`), the strict-`<`
  scan of `Palette::closest`, and the encoder's OWN palette in binary32: `R5G6B5Color::to_vec`, `Palette::new_p4`,
  `Palette::new_p3`, `ErrorMetric::error_sq` of `Uniform` (glam `Vec3A::distance_squared`);
* bc4.rs: `IndexList` (a `u64`, 3 bits × 16, `new_all`), `EndPoints::{new_closest, new_inter6, new_inter4,
  new_inter6_unorm, inter6_to_inter4, with_indexes}` (the float roundings that produce the integers are parameters),
  `Inter6Palette::{new, closest}` with `INDEX_MAP`, `Inter4Palette::{new, closest}`, `Palette::block_closest`,
  `single_color`, `BC4_EPSILON`;
* bc.rs: `concat_blocks`, the BC2 / BC3 / RXGB / BC3n / BC5 wiring (which channel feeds which half, which half comes
  first), `pre_multiply_alpha`, `get_bc1_options`, `get_bc3_options`, `get_bc4_options` and the per-format overrides.

There is NO re-mapping of indexes when `new_p4` / `new_p3_default` exchange the endpoints: the endpoints are ordered
FIRST (`create_endpoints`), the palette is built from the ordered pair and the indexes are selected against that palette.
`f32` values are bit patterns evaluated with the software binary32 of `ConvF32.lean` (every Rust operator is one correctly
rounded operation); `n5::f32`, `n6::f32`, `n8::f32`, `s8::uf32` are the models of `Conv.lean` (tied exhaustively in C04).
Only core is imported, so the compiled driver runs these definitions.
-/
import DdsModel.Enc13
import DdsModel.Conv
namespace Dds.Enc15
open Dds Dds.Bc Dds.Enc13

/-! ## index lists (bc1.rs `IndexList`: `u32`, 2 bits; bc4.rs `IndexList`: `u64`, 3 bits) -/

/-- `get(index)`: `((self.data >> (index * I)) & (2^I − 1)) as u8` -/
def idxGet (I data index : Nat) : Nat := ((data >>> (index * I)) &&& (2 ^ I - 1)) % U8

/-- the assignment of `set`: `self.data |= (value as uW) << (index * I)` (bits shifted beyond the word are dropped) -/
def idxSetRaw (I W data index value : Nat) : Nat := data ||| (value <<< (index * I)) % W

/-- `set(index, value)` with its `debug_assert!`s (`index < 16`, `value < 2^I`, `self.get(index) == 0` "Cannot set an
index twice"); `none` = the assertion fires (checked profile) -/
def idxSet (I W data index value : Nat) : Option Nat :=
  if index < 16 ∧ value < 2 ^ I ∧ idxGet I data index = 0 then some (idxSetRaw I W data index value) else none

/-- sixteen `set(i, f i)` calls on `new_empty()`, `i = 0..16` in order (how `block_closest` / `block_dither` of both
files fill a list) -/
def idxFill (I W : Nat) (f : Nat → Option Nat) : Option Nat :=
  (List.range 16).foldl (fun acc i => acc.bind fun d => (f i).bind fun v => idxSet I W d i v) (some 0)

/-- bc4.rs `IndexList::new_all(value)`: `(value as u64) * MASK`, `MASK = Σ 1 << (i * 3)` -/
def MASK3 : Nat := (List.range 16).foldl (fun m i => m ||| (1 <<< (i * 3)) % U64) 0
def newAll (value : Nat) : Option Nat := if value < 8 then some ((value * MASK3) % U64) else none

/-! ## bc1.rs -/

/-- `enum PaletteMode { P4, P3 }` -/
inductive PaletteMode | p4 | p3
  deriving DecidableEq, Repr

/-- `AlphaMap::is_transparent(index)`: `(self.data & (1 << index)) == 0` (`u16`) -/
def isTransparent (alphaMap index : Nat) : Bool := alphaMap &&& ((1 <<< index) % U16) == 0
/-- `AlphaMap::is_opaque` -/
def isOpaque (alphaMap index : Nat) : Bool := !isTransparent alphaMap index
/-- `AlphaMap::set_opaque_if(index, cond)`: `self.data |= (cond as u16) << index` -/
def setOpaqueIf (alphaMap index : Nat) (cond : Bool) : Nat := alphaMap ||| ((if cond then 1 else 0) <<< index) % U16

/-- `Palette::transparent_index()`: `3`, `debug_assert!(self.mode == PaletteMode::P3)` -/
def transparentIndex (mode : PaletteMode) : Option Nat := if mode = .p3 then some 3 else none

/-- `PaletteInfo::create_endpoints(e0, e1)` -/
def createEndpoints (mode : PaletteMode) (e0 e1 : C565) : C565 × C565 :=
  match mode with
  | .p4 => newP4 e0 e1
  | .p3 => newP3Default e0 e1

/-- `Palette::closest(color).0`: `best_index = 0; min_error = err 0; for i in 1..4 { if i == 3 && P3 { break }; if err i <
min_error { best_index = i; min_error = err i } }` — `err i` is a key of the f32 `error_sq(color, colors[i])` whose order
is the order of the floats (for non-negative non-NaN floats: the bit pattern) -/
def closestIdx (mode : PaletteMode) (err : Nat → Nat) : Nat :=
  let n := if mode = .p3 then 3 else 4
  ((List.range n).foldl (fun (best : Nat × Nat) i => if i ≠ 0 ∧ err i < best.2 then (i, err i) else best) (0, err 0)).1

/-- index bookkeeping of `Palette::block_closest` and `Palette::block_dither`: an opaque pixel gets `sel i`, the index
`closest` returned for it (a float decision: parameter), a transparent pixel gets `transparent_index()` -/
def blockIndexes (mode : PaletteMode) (alphaMap : Nat) (sel : Nat → Nat) : Option Nat :=
  idxFill 2 U32 fun i => if isOpaque alphaMap i then some (sel i) else transparentIndex mode

/-- the tail of `compress_with_palette`, `compress_single_color` and `CandidateList::add`: `create_endpoints`, the index
list of `PaletteInfo::block`, `endpoints.with_indexes(indexes)`; `none` = a `debug_assert!` fires -/
def emitColour (mode : PaletteMode) (e0 e1 : C565) (alphaMap : Nat) (sel : Nat → Nat) : Option (List Nat) :=
  (blockIndexes mode alphaMap sel).map fun idx => withIndexes (createEndpoints mode e0 e1) idx

/-! ### the encoder's own palette (binary32) -/

/-- `R5G6B5Color::to_vec`: `Vec3A::new(n5::f32(r), n6::f32(g), n5::f32(b))` -/
def toVec (c : C565) : List Nat := [Conv.n5f32 c.r, Conv.n6f32 c.g, Conv.n5f32 c.b]

/-- the literals `2. / 3.`, `1. / 3.`, `0.5` (constant-folded in f32) -/
def K23 : Nat := 0x3F2AAAAB
def K13 : Nat := 0x3EAAAAAB

/-- one channel of `Palette::new_p4(..).colors[k]` (`Uniform`: `srgb_to_color_space` is the identity):
`[c0, c1, c0 * (2/3) + c1 * (1/3), c0 * (1/3) + c1 * (2/3)]` -/
def p4Entry (c0 c1 k : Nat) : Nat :=
  match k with
  | 0 => c0
  | 1 => c1
  | 2 => CF32.fadd (CF32.fmul c0 K23) (CF32.fmul c1 K13)
  | _ => CF32.fadd (CF32.fmul c0 K13) (CF32.fmul c1 K23)

/-- one channel of `Palette::new_p3(..).colors[k]`: `[c0, c1, (c0 + c1) * 0.5, c0]` (the fourth entry is the filler
that `closest` never selects) -/
def p3Entry (c0 c1 k : Nat) : Nat :=
  match k with
  | 0 => c0
  | 1 => c1
  | 2 => CF32.fmul (CF32.fadd c0 c1) CF32.half
  | _ => c0

def paletteEntry (mode : PaletteMode) (c0 c1 k : Nat) : Nat :=
  match mode with
  | .p4 => p4Entry c0 c1 k
  | .p3 => p3Entry c0 c1 k

/-- `Palette::new_p4 / new_p3 (endpoints, Uniform).colors`: four `Vec3A` -/
def paletteF32 (mode : PaletteMode) (e : C565 × C565) : List (List Nat) :=
  (List.range 4).map fun k => (List.range 3).map fun c => paletteEntry mode ((toVec e.1).getD c 0) ((toVec e.2).getD c 0) k

/-- `Uniform::error_sq(a, b) = a.distance_squared(b)`: glam `Vec3A` (SSE2 `dot3_in_x`): `d = a − b` lane-wise, then
`(d.x·d.x + d.y·d.y) + d.z·d.z` -/
def errorSq (a b : List Nat) : Nat :=
  let d (c : Nat) : Nat := CF32.fsub (a.getD c 0) (b.getD c 0)
  CF32.fadd (CF32.fadd (CF32.fmul (d 0) (d 0)) (CF32.fmul (d 1) (d 1))) (CF32.fmul (d 2) (d 2))

/-- `Palette::closest(color).0` over the binary32 palette: the strict-`<` scan on the f32 errors (`a < b` for the
non-negative, non-NaN values that occur is `CF32.flt`) -/
def closestF32 (mode : PaletteMode) (pal : List (List Nat)) (color : List Nat) : Nat :=
  let n := if mode = .p3 then 3 else 4
  ((List.range n).foldl (fun (best : Nat × Nat) i =>
      let e := errorSq color (pal.getD i [])
      if i ≠ 0 ∧ CF32.flt e best.2 then (i, e) else best) (0, errorSq color (pal.getD 0 []))).1

/-- the colour a BC1-family encoder sees for an RGBA8 pixel: `n8::f32` per channel, `Vec3A::clamp(ZERO, ONE)` -/
def colourOfRgb8 (r g b : Nat) : List Nat :=
  [r, g, b].map fun v => CF32.fclamp (Conv.n8f32 v) 0 CF32.one

/-- `BC1_EPSILON = 1.0 / 255.0 / 2.0` (constant-folded in f32) -/
def BC1_EPSILON : Nat := 0x3B008081

/-- `f32::max` for non-NaN operands -/
def fmaxBits (a b : Nat) : Nat := if CF32.flt a b then b else a

/-- `get_single_color(block, alpha_map)`: per channel the minimum and maximum over the OPAQUE pixels (from `INFINITY` /
`NEG_INFINITY`), `diff = (max - min).abs()`, `if diff.max_element() < BC1_EPSILON { Some((min + max) * 0.5) }` -/
def getSingleColor (colours : List (List Nat)) (alphaMap : Nat) : Option (List Nat) :=
  let chan (c : Nat) : Nat × Nat :=
    (List.range 16).foldl (fun (mm : Nat × Nat) i =>
      if isOpaque alphaMap i then
        let v := (colours.getD i []).getD c 0
        (CF32.fmin mm.1 v, fmaxBits mm.2 v)
      else mm) (CF32.posInf, CF32.negInf)
  let mm := (List.range 3).map chan
  if mm.all (fun m => CF32.flt (fabsBits' (CF32.fsub m.2 m.1)) BC1_EPSILON) then
    some (mm.map fun m => CF32.fmul (CF32.fadd m.1 m.2) CF32.half)
  else none
where fabsBits' (x : Nat) : Nat := x % CF32.signBit

/-- the whole colour block as `compress_with_palette` / `compress_single_color` finish it when colour dithering is off and
the metric is `Uniform`: endpoints as given (the float search's result); a block whose opaque pixels are within
`BC1_EPSILON` of each other (`get_single_color`) is compressed as sixteen copies of `(min + max) * 0.5`; indexes by
`block_closest` -/
def emitColourF32 (mode : PaletteMode) (e0 e1 : C565) (alphaMap : Nat) (colours : List (List Nat)) : Option (List Nat) :=
  let e := createEndpoints mode e0 e1
  let pal := paletteF32 mode e
  match getSingleColor colours alphaMap with
  | some c => CF32.force (closestF32 mode pal c) fun k => emitColour mode e0 e1 alphaMap fun _ => k
  | none => emitColour mode e0 e1 alphaMap fun i => closestF32 mode pal (colours.getD i [])

/-! ## bc4.rs -/

/-- `Inter6Palette::INDEX_MAP` -/
def INDEX_MAP : List Nat := [1, 7, 6, 5, 4, 3, 2, 0]

/-- `struct EndPoints { c0, c1, c0_f, c1_f }` -/
structure EndPoints4 where
  c0 : Nat
  c1 : Nat
  c0f : Nat
  c1f : Nat
  deriving DecidableEq, Repr

/-- `x as i8 <= y as i8` -/
def i8le (x y : Nat) : Bool := decide (asI8 x ≤ asI8 y)

/-- `EndPoints::new_closest(value, snorm)`; `closest = (254.0 * value + 0.5) as u8` resp. `(255.0 * value + 0.5) as u8`
is the parameter `n` (≤ 254 under SNORM for `value ≤ 1`) -/
def newClosest (snorm : Bool) (n : Nat) : EndPoints4 :=
  if snorm then ⟨fromNorm n, fromNorm 0, Conv.s8f32 (fromNorm n), Conv.s8f32 (fromNorm 0)⟩
  else ⟨n, 0, Conv.n8f32 n, 0⟩

/-- `EndPoints::new_inter6(e0, e1, snorm)` after the float roundings: `minR`, `maxR` = round to nearest of min / max,
`minF` = floor of min, `maxC` = ceiling of max (`255 − ((255·(1 − max)) as u8)`), all as parameters; the "make sure they
are different" step is `Enc13.fixDistinct`; SNORM: `from_norm`, and the swap `if c0 as i8 <= c1 as i8` -/
def newInter6 (snorm : Bool) (minR maxR minF maxC : Nat) : EndPoints4 :=
  let mm := fixDistinct minR maxR minF maxC
  if snorm then
    let c0 := fromNorm mm.2
    let c1 := fromNorm mm.1
    let (c0, c1) := if i8le c0 c1 then (c1, c0) else (c0, c1)
    ⟨c0, c1, Conv.s8f32 c0, Conv.s8f32 c1⟩
  else ⟨mm.2, mm.1, Conv.n8f32 mm.2, Conv.n8f32 mm.1⟩

/-- `EndPoints::inter6_to_inter4` -/
def inter6ToInter4 (e : EndPoints4) : EndPoints4 := ⟨e.c1, e.c0, e.c1f, e.c0f⟩

/-- `EndPoints::new_inter4` -/
def newInter4 (snorm : Bool) (minR maxR minF maxC : Nat) : EndPoints4 := inter6ToInter4 (newInter6 snorm minR maxR minF maxC)

/-- `EndPoints::new_inter6_unorm(c0, c1)` (`reference_brute_force`), `debug_assert!(c0 > c1)` -/
def newInter6Unorm (c0 c1 : Nat) : Option EndPoints4 :=
  if c0 > c1 then some ⟨c0, c1, Conv.n8f32 c0, Conv.n8f32 c1⟩ else none

/-- the endpoint record the palette of an EMITTED block was built from (what `from_endpoints` reads): the bytes and
their `n8::f32` / `s8::uf32` -/
def endpointsOfBytes (snorm : Bool) (c0 c1 : Nat) : EndPoints4 :=
  if snorm then ⟨c0, c1, Conv.s8f32 c0, Conv.s8f32 c1⟩ else ⟨c0, c1, Conv.n8f32 c0, Conv.n8f32 c1⟩

/-- `EndPoints::with_indexes(indexes)`: `[c0, c1, index_bytes[0..6]]` of `indexes.data.to_le_bytes()` -/
def withIndexes4 (c0 c1 data : Nat) : List Nat :=
  [c0, c1, data % 256, data / 256 % 256, data / 65536 % 256, data / 16777216 % 256, data / 4294967296 % 256,
   data / 1099511627776 % 256]

/-! ### `Inter6Palette` (binary32) -/

/-- the literal `1.0 / 7.0` -/
def K17 : Nat := 0x3E124925

structure Inter6Palette where
  c0 : Nat
  c1 : Nat
  factor1 : Nat
  factor2 : Nat
  add1 : Nat
  deriving Repr

/-- `Inter6Palette::new(c0, c1)`: `factor1 = 7.0 / (c0 - c1)`, `factor2 = (1.0 / 7.0) * (c0 - c1)`,
`add1 = 0.5 - c1 * factor1` -/
def Inter6Palette.new (c0 c1 : Nat) : Inter6Palette :=
  let d := CF32.fsub c0 c1
  let factor1 := CF32.fdiv (CF32.ofNat 7) d
  ⟨c0, c1, factor1, CF32.fmul K17 d, CF32.fsub CF32.half (CF32.fmul c1 factor1)⟩

/-- the interpolation step of `Inter6Palette::closest(pixel)`: `blend7 = ((pixel * factor1 + add1) as u8).min(7)` -/
def Inter6Palette.blend7 (p : Inter6Palette) (pixel : Nat) : Nat :=
  min (CF32.toNatSat (CF32.fadd (CF32.fmul pixel p.factor1) p.add1) 255) 7

/-- the palette value of interpolation step `j` as `closest` computes it: `j as f32 * factor2 + c1` -/
def Inter6Palette.stepValue (p : Inter6Palette) (j : Nat) : Nat := CF32.fadd (CF32.fmul (CF32.ofNat j) p.factor2) p.c1

/-- `Inter6Palette::closest(pixel)`: (`INDEX_MAP[blend7]`, `blend7 as f32 * factor2 + c1`, `|pixel − closest|`) -/
def Inter6Palette.closest (p : Inter6Palette) (pixel : Nat) : Nat × Nat × Nat :=
  let b := p.blend7 pixel
  let closest := p.stepValue b
  let error := CF32.fsub pixel closest
  (INDEX_MAP.getD b 0, closest, error % CF32.signBit)

/-! ### `Inter4Palette` (binary32) -/

/-- the literals `0.8`, `0.6`, `0.4`, `0.2` -/
def K08 : Nat := 0x3F4CCCCD
def K06 : Nat := 0x3F19999A
def K04 : Nat := 0x3ECCCCCD
def K02 : Nat := 0x3E4CCCCD

/-- `Inter4Palette::new(c0, c1).colors` -/
def inter4Colors (c0 c1 : Nat) : List Nat :=
  [c0, c1,
   CF32.fadd (CF32.fmul c0 K08) (CF32.fmul c1 K02),
   CF32.fadd (CF32.fmul c0 K06) (CF32.fmul c1 K04),
   CF32.fadd (CF32.fmul c0 K04) (CF32.fmul c1 K06),
   CF32.fadd (CF32.fmul c0 K02) (CF32.fmul c1 K08),
   0, CF32.one]

/-- `x.abs()` -/
def fabsBits (x : Nat) : Nat := x % CF32.signBit

/-- `Inter4Palette::closest(pixel)`: start with index 7 / 6 (`pixel >= 0.5`: error `1.0 - pixel` / `pixel`), then the
strict-`<` scan over `colors[0..6]`; (`index`, `colors[index]`, `min_error`) -/
def inter4Closest (colors : List Nat) (pixel : Nat) : Nat × Nat × Nat :=
  let start : Nat × Nat :=
    if !CF32.flt pixel CF32.half && !CF32.isNaN pixel then (7, CF32.fsub CF32.one pixel) else (6, pixel)
  let r := (List.range 6).foldl (fun (best : Nat × Nat) i =>
      let e := fabsBits (CF32.fsub pixel (colors.getD i 0))
      if CF32.flt e best.2 then (i, e) else best) start
  (r.1, colors.getD r.1 0, r.2)

/-- `Palette::block_closest(block).0` for the palette an endpoint record is decoded with: six interpolants iff
`six`; `pixels` = the sixteen `f32` values of `Block::from_raw` in block order -/
def blockClosest4 (six : Bool) (e : EndPoints4) (pixels : List Nat) : Option Nat :=
  if six then
    let p := Inter6Palette.new e.c0f e.c1f
    idxFill 3 U64 fun i => some (p.closest (pixels.getD i 0)).1
  else
    let colors := inter4Colors e.c0f e.c1f
    idxFill 3 U64 fun i => some (inter4Closest colors (pixels.getD i 0)).1

/-- the interpolation mode the DECODER applies to a pair of endpoint bytes (`c0 > c1`; SNORM: as `i8`) -/
def sixOfBytes (snorm : Bool) (c0 c1 : Nat) : Bool := if snorm then decide (asI8 c0 > asI8 c1) else decide (c0 > c1)

/-- a BC4-type block as `compress_inter6_impl` / `compress_inter4` / `reference_brute_force` finish it without
dithering: endpoint bytes as given (the float search's result), the palette of the mode their order selects, indexes by
`block_closest` -/
def emitBc4 (snorm : Bool) (c0 c1 : Nat) (pixels : List Nat) : Option (List Nat) :=
  (blockClosest4 (sixOfBytes snorm c0 c1) (endpointsOfBytes snorm c0 c1) pixels).map (withIndexes4 c0 c1)

/-! ### `single_color` (binary32; no dithering) -/

/-- `BC4_EPSILON = 1. / 65536.` -/
def BC4_EPSILON : Nat := 0x37800000

/-- `(k · v + 0.5) as u8` -/
def roundK (k v : Nat) : Nat := CF32.toNatSat (CF32.fadd (CF32.fmul (CF32.ofNat k) v) CF32.half) 255
/-- `(k · v) as u8` -/
def floorK (k v : Nat) : Nat := CF32.toNatSat (CF32.fmul (CF32.ofNat k) v) 255

/-- the four integers `new_inter6(e0, e1, snorm)` derives from its arguments: `k = 254` (SNORM, after
`clamp(0.0, 1.0)`) or `255`; (`minR`, `maxR`, `minF`, `maxC`) -/
def inter6Ints (snorm : Bool) (e0 e1 : Nat) : Nat × Nat × Nat × Nat :=
  let mn := CF32.fmin e0 e1
  let mx := if CF32.flt e0 e1 then e1 else e0
  let k := if snorm then 254 else 255
  let mn := if snorm then CF32.fclamp mn 0 CF32.one else mn
  let mx := if snorm then CF32.fclamp mx 0 CF32.one else mx
  (roundK k mn, roundK k mx, floorK k mn, k - floorK k (CF32.fsub CF32.one mx))

/-- `single_color(value, options)` with `options.dither = false`: the `closest` shortcut, else the better of the inter4 /
inter6 palettes of `new_inter6(value, value)` with `new_all(closest index)` -/
def singleColor (snorm : Bool) (value : Nat) : Option (List Nat) :=
  let closest := newClosest snorm (roundK (if snorm then 254 else 255) value)
  if CF32.flt (fabsBits (CF32.fsub closest.c0f value)) BC4_EPSILON then
    (newAll 0).map (withIndexes4 closest.c0 closest.c1)
  else
    let q := inter6Ints snorm value value
    let e6 := newInter6 snorm q.1 q.2.1 q.2.2.1 q.2.2.2
    let p6 := Inter6Palette.new e6.c0f e6.c1f
    let e4 := inter6ToInter4 e6
    let r4 := inter4Closest (inter4Colors e4.c0f e4.c1f) value
    let r6 := p6.closest value
    if CF32.flt r4.2.2 r6.2.2 then (newAll r4.1).map (withIndexes4 e4.c0 e4.c1)
    else (newAll r6.1).map (withIndexes4 e6.c0 e6.c1)

/-- the value `compress_bc4_block` hands to `single_color` for sixteen equal pixels `v`: `Block::from_raw` clamps,
`(min + max) * 0.5` -/
def singleValue (v : Nat) : Nat :=
  let c := CF32.fclamp v 0 CF32.one
  CF32.fmul (CF32.fadd c c) CF32.half

/-! ## bc.rs: wiring and options -/

/-- `concat_blocks(left, right)` -/
def concatBlocks (left right : List Nat) : List Nat := left ++ right

inductive Dithering | none | color | alpha | colorAndAlpha
  deriving DecidableEq, Repr
def Dithering.hasColor (d : Dithering) : Bool := d = .color ∨ d = .colorAndAlpha
def Dithering.hasAlpha (d : Dithering) : Bool := d = .alpha ∨ d = .colorAndAlpha

/-- `enum Quantization` (bcn_util.rs), as far as `get_bc1_options` selects it -/
inductive Quantization | channelWise | channelWiseOptimized
  deriving DecidableEq, Repr

/-- `struct Bc1Options` -/
structure Bc1Options where
  dither : Bool
  noP3Default : Bool
  perceptual : Bool
  opaqueAlwaysP4 : Bool
  fitOptimal : Bool
  refine : Bool
  refineMaxIter : Nat
  refineLineMaxIter : Nat
  quantization : Quantization
  deriving DecidableEq, Repr

def qRank : Quality → Nat
  | .fast => 0 | .normal => 1 | .high => 2 | .unreasonable => 3

/-- `get_bc1_options(options)` (the rest from `Bc1Options::default()`) -/
def getBc1Options (q : Quality) (d : Dithering) (perceptual : Bool) : Bc1Options :=
  { dither := d.hasColor
    noP3Default := false
    perceptual := perceptual
    opaqueAlwaysP4 := decide (qRank q ≤ 1)
    fitOptimal := decide (qRank q ≥ 1)
    refine := decide (qRank q ≥ 1)
    refineMaxIter := match q with | .fast => 0 | .normal => 0 | .high => 4 | .unreasonable => 10
    refineLineMaxIter := 3
    quantization := if q = .fast then .channelWiseOptimized else .channelWise }

inductive Bc4Quantization | round | mediumQuality | highQuality
  deriving DecidableEq, Repr

/-- `struct Bc4Options` -/
structure Bc4Options where
  dither : Bool
  snorm : Bool
  bruteForce : Bool
  useInter4 : Bool
  useInter4Heuristic : Bool
  quantization : Bc4Quantization
  fastIter : Bool
  maxRefineIter : Nat
  sizeVariations : Bool
  deriving DecidableEq, Repr

/-- `get_bc4_options(options)` -/
def getBc4Options (q : Quality) (d : Dithering) : Bc4Options :=
  { dither := d.hasColor
    snorm := false
    bruteForce := decide (q = .unreasonable)
    useInter4 := decide (qRank q > 0)
    useInter4Heuristic := decide (qRank q < 2)
    quantization := match q with | .fast => .round | .normal => .mediumQuality | _ => .highQuality
    fastIter := decide (qRank q ≤ 1)
    maxRefineIter := match q with | .fast => 0 | .normal => 2 | _ => 10
    sizeVariations := decide (qRank q ≥ 2) }

/-- `get_bc3_options(options)`: `no_p3_default = true`, `snorm = false` -/
def getBc3Options (q : Quality) (d : Dithering) (perceptual : Bool) : Bc1Options × Bc4Options :=
  ({ getBc1Options q d perceptual with noP3Default := true }, { getBc4Options q d with snorm := false })

/-- the options each format's closure hands to `compress_bc1_block` / `compress_bc4_block` (`BC1_UNORM` …
`BC5_SNORM` in bc.rs): BC3 / BC3 premultiplied set `bc4_options.dither = options.dithering.alpha()`; RXGB / BC3n keep
the colour flag; BC4 / BC5 set `snorm` -/
def fmtBc1Options (f : Fmt) (q : Quality) (d : Dithering) (perceptual : Bool) : Option Bc1Options :=
  match f with
  | .bc1 => some (getBc1Options q d perceptual)
  | .bc2 | .bc2p | .bc3 | .bc3p | .rxgb | .bc3n => some (getBc3Options q d perceptual).1
  | _ => none

def fmtBc4Options (f : Fmt) (q : Quality) (d : Dithering) (perceptual : Bool) : Option Bc4Options :=
  match f with
  | .bc3 | .bc3p => some { (getBc3Options q d perceptual).2 with dither := d.hasAlpha }
  | .rxgb | .bc3n => some (getBc3Options q d perceptual).2
  | .bc4u | .bc5u => some { getBc4Options q d with snorm := false }
  | .bc4s | .bc5s => some { getBc4Options q d with snorm := true }
  | _ => none

/-- `compress_bc4_block`: the reference path runs first iff `brute_force && !dither && !snorm` -/
def usesBruteForce (o : Bc4Options) : Bool := o.bruteForce && !o.dither && !o.snorm

/-- which input channel feeds the BC4-type half at byte offset `o` of a block of format `f` (bc.rs closures:
`get_alpha`, `get_4x4_select_channel::<0/1>`, `get_4x4_grayscale` = red) -/
def bc4Channel (f : Fmt) (o : Nat) : Option Nat :=
  match f, o with
  | .bc3, 0 | .bc3p, 0 => some 3
  | .rxgb, 0 | .bc3n, 0 | .bc4u, 0 | .bc4s, 0 | .bc5u, 0 | .bc5s, 0 => some 0
  | .bc5u, 8 | .bc5s, 8 => some 1
  | _, _ => none

/-- byte offset of the 5:6:5 colour block (`concat_blocks(alpha_or_bc4_block, bc1_block)`) -/
def colourOffset (f : Fmt) : Option Nat :=
  match f with
  | .bc1 => some 0
  | .bc2 | .bc2p | .bc3 | .bc3p | .rxgb | .bc3n => some 8
  | _ => none

/-- the RGB the colour half is compressed from, for an RGBA8 pixel: BC1 / BC2 / BC3 as is; premultiplied:
`pre_multiply_alpha` (`clamp_0_1` of all four, `r * a`); RXGB: `pixel[0] = 1.0`; BC3n: `(1.0, g, 0.0)`; then
`compress_bc1_block` clamps again -/
def colourInput (f : Fmt) (p : Px) : List Nat :=
  let c (v : Nat) : Nat := Conv.n8f32 v
  let cl (x : Nat) : Nat := CF32.fclamp x 0 CF32.one
  let raw : List Nat :=
    match f with
    | .bc2p | .bc3p => [CF32.fmul (cl (c p.r)) (cl (c p.a)), CF32.fmul (cl (c p.g)) (cl (c p.a)), CF32.fmul (cl (c p.b)) (cl (c p.a))]
    | .rxgb => [CF32.one, c p.g, c p.b]
    | .bc3n => [CF32.one, c p.g, 0]
    | _ => [c p.r, c p.g, c p.b]
  raw.map cl

/-! ## specification predicates of the theorems (no Rust counterpart) -/

/-- the index `block_closest` / `block_dither` store for pixel `p` -/
def indexAt (alphaMap : Nat) (sel : Nat → Nat) (p : Nat) : Nat := if isOpaque alphaMap p then sel p else 3

/-- what index `k` of the palette the encoder built over the ORDERED 5:6:5 pair `e` in mode `mode` stands for, as the
8-bit RGB the format specification assigns to it: the exact rational entry (`c0`, `c1`, `(2·c0 + c1)/3`, `(c0 + 2·c1)/3`
in P4; `c0`, `c1`, `(c0 + c1)/2`, black in P3) per channel over `e/31`, `e/63`, nearest 8-bit value (`BcSpec.chan8`) -/
def intendedRgb (mode : PaletteMode) (e : C565 × C565) (k : Nat) : List Nat :=
  let four := decide (mode = .p4)
  [BcSpec.chan8 four k e.1.r e.2.r 31, BcSpec.chan8 four k e.1.g e.2.g 63, BcSpec.chan8 four k e.1.b e.2.b 31]

/-- the alpha of entry `k`: 0 only for the transparent entry (index 3 of P3) -/
def intendedA (mode : PaletteMode) (k : Nat) : Nat := if mode = .p3 ∧ k = 3 then 0 else 255

/-- RGBA of entry `k` (BC1) -/
def intendedColour (mode : PaletteMode) (e : C565 × C565) (k : Nat) : List Nat := intendedRgb mode e k ++ [intendedA mode k]

/-- the weights `(w0, w1)` of palette entry `k`: the entry is `(w0·c0 + w1·c1)/(w0 + w1)` (entry 3 of P3 is the filler
`c0` of `Palette::new_p3`, never selected) -/
def paletteWeights (mode : PaletteMode) (k : Nat) : Nat × Nat :=
  match mode, k with
  | _, 0 => (1, 0)
  | _, 1 => (0, 1)
  | .p4, 2 => (2, 1)
  | .p4, _ => (1, 2)
  | .p3, 2 => (1, 1)
  | .p3, _ => (1, 0)

/-- the value in [0, 1] index `k` of a BC4-type palette stands for: endpoints `e0/m`, `e1/m` (`m = 255`: the bytes;
`m = 254`: the SNORM levels `0..254` shown as `(v + 1)/2`), `six` = the eight-value palette -/
def intended4 (six : Bool) (e0 e1 m k : Nat) : Rat := BcSpec.bc4Entry six k e0 e1 m

/-- the SNORM level `0..254` of an endpoint byte (`-128` and `-127` are both level 0) -/
def levelOfByte (snorm : Bool) (c : Nat) : Nat := if snorm then BcSpec.snormU c else c

/-- the exact value of a binary32 pattern `v` that is finite, non-negative and has a negative exponent (every palette
value: `0 ≤ v < 2^24 ulp`), as a fraction of integers: `mant · 2^expo = mant / 2^(−expo)`
(`Proofs/EncBc15Palette.f32Frac_spec`: this is `CF32.toRat v`) -/
def f32Frac (v : Nat) : Nat × Nat := (CF32.mant v, 2 ^ (-(CF32.expo v)).toNat)

/-- the side condition of `f32Frac` -/
def f32Small (v : Nat) : Bool := decide (v < CF32.posInf) && decide (CF32.expo v < 0)

/-- `⌊255·v + 1/2⌋`: the nearest 8-bit UNORM value of the f32 `v` (an exact tie goes up, as in `BcSpec.rnd`) -/
def f32Nearest8 (v : Nat) : Nat := (510 * (f32Frac v).1 + (f32Frac v).2) / (2 * (f32Frac v).2)

/-- `|v − n/d| ≤ 2^-22` (four units in the last place of 1.0) -/
def f32Within22 (v n d : Nat) : Bool :=
  decide (absDiff ((f32Frac v).1 * d) (n * (f32Frac v).2) * 4194304 ≤ d * (f32Frac v).2)

end Dds.Enc15
