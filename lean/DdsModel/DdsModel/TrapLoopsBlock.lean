/-
Trapping mirrors of the generic decode loops of `src/decode/read_write.rs` (C01), part 2: the block family.
`general_process_blocks` (:452), `handle_width_offset` (:406), `process_4x4_blocks_helper` (:312) with its aligned fast
path, `process_2x1_blocks_helper` (:237), `process_8x1_blocks_helper` (:292), `ChannelConversionBuffer::process_blocks`
(:786), `for_each_block_untyped` (:509) and `for_each_block_rect_untyped` (:604).  Conventions: `TrapLoops.lean`.

The per-block decode function `process_block` is total (C01 section 6) and returns `[OutPixel; BX * BY]`; the only thing
the loops do with it is index it, and every such index is checked here.  `OutPixel` is `[u8 | u16 | f32; channels]`:
`size` = `size_of::<OutPixel>()`.  Whether `cast::from_bytes_mut::<OutPixel>` finds the slice aligned depends on the
caller's buffer address: an arbitrary oracle `al : Sl → Bool` (the theorems hold for every oracle).
-/
import DdsModel.TrapLoops
namespace Dds.TrapLoops
open Dds Dds.Trap
open Dds.Addr (PRange)

/-- the `for y in range.rows.iter()` loop of `general_process_blocks` (:490–503) for one block -/
def generalRowsT (bx by_ size : Nat) (dec : Sl) (stride : Nat) (r : PRange) (pixelX blockW pox : Nat) :
    Option (List Ev) :=
  forT (fun y => do
    let d ← subU y r.rs                                                  -- :492 (`u8`)
    let e ← ckU (d * stride)
    let g ← ckU (pixelX * size)
    let rowStart ← ckU (e + g)
    let h ← ckU (blockW * size)                                          -- :493
    let rowEnd ← ckU (rowStart + h)
    let row ← dec.range rowStart rowEnd
    let n ← TrapUnc.fromBytesT row.len size                              -- :495 `expect("Invalid output buffer")`
    dbgP (n = blockW)                                                    -- :496
    -- :498–501 `row[x] = block[y as usize * BX + x + pixel_offset_x]` for `x in 0..block_w`
    dbgP (∀ x, x < blockW → x < n ∧ y * bx + x + pox < bx * by_)
    pure [Ev.wr row]) (List.range' r.rs (r.re - r.rs))

/-- the block loop of `general_process_blocks` (:473–506) with the accumulator `pixel_x` -/
def generalLoopT (bx by_ size : Nat) (dec : Sl) (stride : Nat) (r : PRange) : List Nat → Nat → Option (List Ev)
  | [], _ => some []
  | bi :: rest, pixelX => do
    let pox := if bi = 0 then r.wo else 0                                -- :474
    let a ← subU bx pox                                                  -- :479
    let t ← ckU (r.width + r.wo)                                         -- :482
    let m ← ckU (bi * bx)                                                -- :483
    let c ← subU t m
    let blockW := min (min a r.width) c
    let e1 ← generalRowsT bx by_ size dec stride r pixelX blockW pox
    let px' ← ckU (pixelX + blockW)                                      -- :505
    let e2 ← generalLoopT bx by_ size dec stride r rest px'
    pure (e1 ++ e2)

/-- `general_process_blocks::<BX, BY, BX * BY, BPB, OutPixel>` (:452).  `debug_assert_eq!(BX * BY, BLOCK_PIXELS)` (:465)
holds by instantiation (astc.rs:69, the literals of the 4×4 / 8×1 helpers). -/
def generalT (bx by_ bpb size : Nat) (enc dec : Sl) (stride : Nat) (r : PRange) : Option (List Ev) := do
  dbgP (r.wo < bx)                                                       -- :466
  let nb ← TrapUnc.fromBytesT enc.len bpb                                -- :470 `expect("Invalid block buffer")`
  generalLoopT bx by_ size dec stride r (List.range nb) 0

/-- `handle_width_offset` (:406): (remaining blocks, bytes of `decoded` to skip, adjusted range, events) -/
def handleWidthOffsetT (bx by_ bpb size : Nat) (enc dec : Sl) (stride : Nat) (r : PRange) :
    Option (Sl × Nat × PRange × List Ev) := do
  dbgP (r.wo < bx)                                                       -- :421
  let a ← subU bx r.wo                                                   -- :422 (`u8`)
  let pixelW := min a r.width
  if pixelW = 0 then pure (enc, 0, r, [])                                -- :423
  else do
    let enc0 ← enc.upto bpb                                              -- :428
    let e ← generalT bx by_ bpb size enc0 dec stride ⟨pixelW, r.wo, r.rs, r.re⟩
    let w' ← subU r.width pixelW                                         -- :440
    let enc' ← enc.drop bpb                                              -- :443
    let skip ← ckU (pixelW * size)                                       -- :445
    pure (enc', skip, ⟨w', 0, r.rs, r.re⟩, e)

/-- the aligned fast path of `process_4x4_blocks_helper` (:353–389); `decoded` is a slice of `OutPixel`s here -/
def fast4T (bpb size : Nat) (enc dec : Sl) (stride width : Nat) : Option (List Ev) := do
  let nb ← TrapUnc.fromBytesT enc.len bpb                                -- :354 `expect`
  let n := dec.len / size
  let stride' := stride / size                                           -- :356 (a non-zero constant)
  let full := width / 4                                                  -- :357
  dbgP (full ≤ nb)                                                       -- :359 `encoded_blocks[..full_blocks]`
  let e1 ← forT (fun bi => do
    let pi ← ckU (bi * 4)                                                -- :360
    forT (fun y => do
      let a ← ckU (stride' * y)                                          -- :365
      let rs ← ckU (a + pi)
      let re ← ckU (rs + 4)                                              -- :366
      dbgP (rs ≤ re ∧ re ≤ n)
      pure [Ev.wr ⟨dec.buf, dec.off + rs * size, 4 * size⟩]) (List.range 4)) (List.range full)
  let e2 ← if width % 4 ≠ 0 then (do                                     -- :373
      dbgP (full < nb)                                                   -- :374 `encoded_blocks[full_blocks]`
      let pi ← ckU (full * 4)                                            -- :375
      let bw ← subU width pi                                             -- :376
      forT (fun y => do
        let a ← ckU (stride' * y)                                        -- :381
        let rs ← ckU (a + pi)
        let re ← ckU (rs + bw)                                           -- :382
        dbgP (rs ≤ re ∧ re ≤ n)
        dbgP (∀ x, x < bw → x < re - rs ∧ y * 4 + x < 16)               -- :384 `row[x] = block[y * 4 + x]`
        pure [Ev.wr ⟨dec.buf, dec.off + rs * size, bw * size⟩]) (List.range 4))
    else pure []
  pure (e1 ++ e2)

/-- the part of `process_4x4_blocks_helper` after the width offset has been handled (:350–400) -/
def proc4TailT (bpb size : Nat) (al : Sl → Bool) (enc dec : Sl) (stride : Nat) (r : PRange) : Option (List Ev) := do
  let rl' ← subU r.re r.rs                                               -- `rows.len()`
  if rl' = 4 ∧ stride % size = 0 ∧ al dec = true ∧ dec.len % size = 0 then   -- :351–352
    fast4T bpb size enc dec stride r.width
  else generalT 4 4 bpb size enc dec stride r                            -- :394

/-- `process_4x4_blocks_helper::<BPB, OutPixel>` (:312) -/
def proc4T (bpb size : Nat) (al : Sl → Bool) (enc dec : Sl) (stride : Nat) (r : PRange) : Option (List Ev) := do
  let rl ← subU r.re r.rs                                                -- `rows.len()`: `end - start` (`u8`)
  dbgP (rl ≤ 4)                                                          -- :322
  let m ← modT enc.len bpb                                               -- :323
  dbgP (m = 0)
  let q ← div enc.len bpb                                                -- :325
  let t ← ck32 (r.wo + r.width)                                          -- :326 (`u32`)
  let dc ← divCeilT t 4
  dbgP (q = dc)                                                          -- :324
  let a ← subU rl 1                                                      -- :330
  let b ← ckU (stride * a)
  let c ← ckU (r.width * size)                                           -- :331
  let d ← ckU (b + c)
  dbgP (dec.len ≥ d)                                                     -- :328
  if r.wo ≠ 0 then do                                                    -- :338
    let (enc', skip, r', e0) ← handleWidthOffsetT 4 4 bpb size enc dec stride r
    let dec' ← dec.drop skip                                             -- :347
    let e1 ← proc4TailT bpb size al enc' dec' stride r'
    pure (e0 ++ e1)
  else proc4TailT bpb size al enc dec stride r

/-- the part of `process_2x1_blocks_helper` after the lone first pixel (:270–287): `width` pixels left, `nb` blocks left,
`n` output pixels left, which start at pixel `off` of `decoded` -/
def proc2TailT (size : Nat) (dec : Sl) (width nb n off : Nat) : Option (List Ev) := do
  dbgP (nb = divCeil width 2)                                            -- :270
  let half := width / 2                                                  -- :271
  let hh ← ckU (half * 2)                                                -- :275
  dbgP (hh ≤ n)                                                          --   `&mut decoded[..(width_half * 2)]`
  let _ ← TrapUnc.fromBytesT (hh * size) (2 * size)                      --   `as_array_chunks_mut(..).unwrap()`
  let pairs := min nb half                                               -- :276 `zip`
  let e1 := if pairs = 0 then [] else [Ev.wr ⟨dec.buf, dec.off + off * size, pairs * (2 * size)⟩]
  let e2 ← if width % 2 = 1 then (do                                     -- :283
      dbgP (0 < nb)                                                      -- :284 `expect("invalid block buffer")`
      let i ← subU width 1                                               -- :286
      dbgP (i < n)
      pure [Ev.wr ⟨dec.buf, dec.off + (off + i) * size, size⟩])
    else pure []
  pure (e1 ++ e2)

/-- `process_2x1_blocks_helper::<BPB, OutPixel>` (:237); it ignores the stride and the row range -/
def proc2T (bpb size : Nat) (enc dec : Sl) (r : PRange) : Option (List Ev) := do
  let nb ← TrapUnc.fromBytesT enc.len bpb                                -- :248 `expect`
  let a ← ckU (r.width * size)                                           -- :252
  let d0 ← dec.upto a
  let n ← TrapUnc.fromBytesT d0.len size                                 -- `expect`
  dbgP (n = r.width)                                                     -- :254
  if r.wo = 1 then do                                                    -- :257
    dbgP (r.width > 0)                                                   -- :259
    dbgP (0 < nb)                                                        -- :261 `encoded_blocks[0]`
    dbgP (0 < n)                                                         -- :262 `decoded[0]`
    let w' ← subU r.width 1                                              -- :265
    dbgP (1 ≤ nb)                                                        -- :266 `&encoded_blocks[1..]`
    dbgP (1 ≤ n)                                                         -- :267 `&mut decoded[1..]`
    let e1 ← proc2TailT size dec w' (nb - 1) (n - 1) 1
    pure (Ev.wr ⟨dec.buf, dec.off, size⟩ :: e1)
  else proc2TailT size dec r.width nb n 0

/-- which `ProcessBlocksFn` a decoder uses: `general_process_blocks::<bx, by>` (ASTC), `process_4x4_blocks_helper`
(BC1–7), `process_2x1_blocks_helper` (packed 4:2:2), `process_8x1_blocks_helper` (`R1_UNORM`) -/
inductive BlkFn where
  | general (bx by_ : Nat)
  | four
  | two
  | eight
deriving DecidableEq, Repr

def BlkFn.bx : BlkFn → Nat
  | .general bx _ => bx | .four => 4 | .two => 2 | .eight => 8
def BlkFn.by_ : BlkFn → Nat
  | .general _ b => b | .four => 4 | .two => 1 | .eight => 1

/-- a `ProcessBlocksFn` applied to `(encoded_blocks, decoded, row_pitch, range)` -/
def BlkFn.runT (p : BlkFn) (bpb size : Nat) (al : Sl → Bool) (enc dec : Sl) (stride : Nat) (r : PRange) :
    Option (List Ev) :=
  match p with
  | .general bx b => generalT bx b bpb size enc dec stride r
  | .four => proc4T bpb size al enc dec stride r
  | .two => proc2T bpb size enc dec r
  | .eight => generalT 8 1 1 size enc dec stride r                       -- :302 `general_process_blocks::<8, 1, 8, 1, _>`

/-! ### `ChannelConversionBuffer::process_blocks` (:786) -/

/-- the `for y in 0..height` loops (:836–841, :879–884): `cw` pixels per row -/
def convBlockRowsT (native : Color) (target : Unc.Channels) (height bufStride rowPitch cw obpp : Nat) (buf out : Sl) :
    Option (List Ev) :=
  forT (fun y => do
    let a ← ckU (y * bufStride)
    let y1 ← ckU (y + 1)
    let b ← ckU (y1 * bufStride)
    let bufRow ← buf.range a b
    let c ← ckU (y * rowPitch)
    let d' ← ckU (cw * obpp)
    let d ← ckU (c + d')
    let outRow ← out.range c d
    convertChannelsForT native target bufRow outRow) (List.range height)

/-- one chunk of the main loop (:852–885); `add` is the `u32` addition of :853 -/
def convBlockChunkT (add : Nat → Nat → Option Nat) (native : Color) (target : Unc.Channels) (p : BlkFn) (bpb : Nat)
    (al : Sl → Bool) (blockBytes blockWidth nbpp obpp height pref width rowPitch : Nat) (r : PRange) (enc out : Sl)
    (cs : Nat) : Option (List Ev) := do
  let t ← add cs pref                                                    -- :853
  let ce := min t width
  let csz ← subU ce cs                                                   -- :856 (`u32`)
  let bo ← div cs blockWidth                                             -- :858
  let bc ← divCeilT csz blockWidth                                       -- :859
  let a ← ckU (bo * blockBytes)                                          -- :861
  let s ← ckU (bo + bc)
  let b ← ckU (s * blockBytes)
  let encChunk ← enc.range a b
  let c ← ckU (cs * obpp)                                                -- :863
  let outChunk ← out.drop c
  let bufStride ← ckU (csz * nbpp)                                       -- :865
  let e ← ckU (bufStride * height)                                       -- :866
  let bufChunk ← tmpBuffer.upto e
  let w1 ← p.runT bpb nbpp al encChunk bufChunk bufStride ⟨csz, 0, r.rs, r.re⟩            -- :869
  let w2 ← convBlockRowsT native target height bufStride rowPitch csz obpp bufChunk outChunk  -- :881
  pure (w1 ++ w2)

/-- the main loop of `process_blocks` (:850–885) on what is left after the width offset -/
def convBlocksMainT (add : Nat → Nat → Option Nat) (native : Color) (target : Unc.Channels) (p : BlkFn) (bpb : Nat)
    (al : Sl → Bool) (blockBytes blockWidth nbpp obpp height bufW rowPitch : Nat) (r : PRange) (enc out : Sl)
    (width : Nat) : Option (List Ev) := do
  let rm ← modT bufW blockWidth                                          -- :851 `round_down_to_multiple`
  let pref ← subU bufW rm
  dbgP (pref ≠ 0)                                                        -- :852 `step_by(0)` panics
  forT (convBlockChunkT add native target p bpb al blockBytes blockWidth nbpp obpp height pref width
    rowPitch r enc out) (Addr.stepStarts width pref)

/-- `process_blocks` with the addition of :853 as a parameter -/
def convBlocksWithT (add : Nat → Nat → Option Nat) (native : Color) (target : Unc.Channels) (p : BlkFn) (bpb : Nat)
    (al : Sl → Bool) (blockBytes blockWidth : Nat) (enc out : Sl) (rowPitch : Nat) (r : PRange) : Option (List Ev) :=
  if native.ch = target then p.runT bpb native.bpp al enc out rowPitch r  -- :797
  else do
    let height ← subU r.re r.rs                                          -- :802 `rows.len()` (`u8`)
    dbgP (height > 0)                                                    -- :803
    let nbpp ← native.bppT                                               -- :804
    let m ← ckU (nbpp * height)                                          -- :806
    let q ← div BUFFER_BYTES m
    let bufW := q % U32B                                                 --   `as u32`
    dbgP (bufW ≥ blockWidth)                                             -- :809
    let obpp ← (Color.mk target native.psz).bppT                         -- :810
    if r.wo ≠ 0 then do                                                  -- :817
      let a ← subU blockWidth r.wo                                       -- :818 (`u32`)
      let ow := min a r.width
      let bufStride ← ckU (ow * nbpp)                                    -- :820
      let e ← ckU (bufStride * height)                                   -- :821
      let buf ← tmpBuffer.upto e
      let enc0 ← enc.upto blockBytes                                     -- :825
      let w1 ← p.runT bpb nbpp al enc0 buf bufStride ⟨ow, r.wo, r.rs, r.re⟩            -- :824
      let w2 ← convBlockRowsT native target height bufStride rowPitch ow obpp buf out   -- :836
      let width' ← subU r.width ow                                       -- :845
      let enc' ← enc.drop blockBytes                                     -- :846
      let g ← ckU (ow * obpp)                                            -- :847
      let out' ← out.drop g
      let e1 ← convBlocksMainT add native target p bpb al blockBytes blockWidth nbpp obpp height bufW rowPitch r
        enc' out' width'
      pure (w1 ++ w2 ++ e1)
    else convBlocksMainT add native target p bpb al blockBytes blockWidth nbpp obpp height bufW rowPitch r enc out r.width

/-- **`ChannelConversionBuffer::process_blocks` as it is** (after repair F17, /repo f7a7af9):
`chunk_start.saturating_add(preferred_chunk_size).min(range.width)` -/
def convBlocksT := convBlocksWithT (fun a b => some (satAdd32 a b))

/-- the line as it was before F17: the plain `u32` addition `chunk_start + preferred_chunk_size` -/
def convBlocksUnrepairedT := convBlocksWithT (fun a b => ck32 (a + b))

/-! ### `for_each_block_untyped` (:509) -/

/-- the body of `while let Some(block_line) = line_buffer.next_line(r)?` (:558–582); loop variable `block_y` (`u32`) -/
def blockFullBodyT (img : Img) (native : Color) (p : BlkFn) (bpb : Nat) (al : Sl → Bool) (blockY : Nat) (line : Sl) :
    Option (Nat × List Ev) := do
  let m ← ck32 (blockY * p.by_)                                          -- :561
  let d ← subU img.h m
  let pixelRows := min p.by_ d
  let m' ← ck32 (blockY * p.by_)                                         -- :563
  let buf ← img.getRowRangeT m' pixelRows
  dbgP (0 < pixelRows % 256)                                             -- :568 `RowRange::new(0, pixel_rows as u8)`
  let e ← convBlocksT native img.color.ch p bpb al bpb p.bx line buf img.pitch ⟨img.w, 0, 0, pixelRows % 256⟩  -- :571
  let by' ← ck32 (blockY + 1)                                            -- :581
  pure (by', e)

/-- `for_each_block_untyped::<BX, BY, BPB, OutPixel>` (the surface size is the image size) -/
def blockFullT (img : Img) (native : Color) (p : BlkFn) (bpb size : Nat) (al : Sl → Bool) : Option (List Ev) := do
  dbgP (img.color.psz = native.psz)                                      -- :586
  let nb ← native.bppT
  dbgP (nb = size)                                                       -- :587
  dbgP (¬ (img.w = 0 ∨ img.h = 0))                                       -- :540
  let wb ← divCeilT img.w p.bx                                           -- :544
  let hb ← divCeilT img.h p.by_                                          -- :545
  let bpl ← ckU (wb * bpb)                                               -- :548
  let (lb, e0) ← LB.newT bpl hb                                          -- :547
  let e1 ← whileLinesT (blockFullBodyT img native p bpb al) (hb + 1) lb 0
  pure (e0 ++ e1)

/-! ### `for_each_block_rect_untyped` (:604) -/

/-- the body of the `while let` loop (:676–710); loop variables `(block_line_y, pixel_row)` -/
def blockRectBodyT (img : Img) (oy : Nat) (native : Color) (p : BlkFn) (bpb : Nat) (al : Sl → Bool) (rs re wo : Nat)
    (st : Nat × Nat) (line : Sl) : Option ((Nat × Nat) × List Ev) := do
  let bl ← line.range rs re                                              -- :678
  let m ← ck32 (st.1 * p.by_)                                            -- :680
  let relStart := oy - m                                                 --   `saturating_sub`
  let t ← ck32 (oy + img.h)                                              -- :681
  let m2 ← ck32 (st.1 * p.by_)
  let relEnd ← subU t m2
  dbgP (relStart < p.by_)                                                -- :682
  dbgP (relEnd > 0)                                                      -- :683
  let rowStart := relStart % 256                                         -- :685 `as u8`
  let rowEnd := min relEnd p.by_ % 256                                   -- :686
  dbgP (rowStart < rowEnd)                                               -- :687 `RowRange::new`
  let o ← ckU (st.2 * img.pitch)                                         -- :696
  let out ← img.data.drop o
  let e ← convBlocksT native img.color.ch p bpb al bpb p.bx bl out img.pitch ⟨img.w, wo, rowStart, rowEnd⟩  -- :698
  let bly' ← ck32 (st.1 + 1)                                             -- :708
  let len ← subU rowEnd rowStart                                         -- :709 `rows.len()` (`u8`)
  let pr' ← ckU (st.2 + len)
  pure ((bly', pr'), e)

/-- `for_each_block_rect_untyped::<BX, BY, BPB>`: surface `W × H`, rect = the image at `(ox, oy)` -/
def blockRectT (img : Img) (W H ox oy : Nat) (native : Color) (p : BlkFn) (bpb : Nat) (al : Sl → Bool) :
    Option (List Ev) := do
  dbgP (img.color.psz = native.psz)                                      -- :721
  let perLine ← divCeilT W p.bx                                          -- :636
  let before ← div oy p.by_                                              -- :639
  let t ← ck32 (img.h + oy)                                              -- :642
  let dc ← divCeilT t p.by_
  let toRead ← subU dc before
  let hbs ← divCeilT H p.by_                                             -- :644
  let t2 ← subU hbs before
  let after ← subU t2 toRead
  let bpl ← ckU (perLine * bpb)                                          -- :651
  let (lb, e0) ← LB.newT bpl toRead                                      -- :650
  let s1 ← ckU (perLine * before)                                        -- :659 (`u64`)
  let s1' ← ckU (s1 * bpb)
  let brs ← div ox p.bx                                                  -- :666
  let t3 ← ck32 (ox + img.w)                                             -- :667
  let bre ← divCeilT t3 p.bx
  let rs ← ckU (brs * bpb)                                               -- :668
  let re ← ckU (bre * bpb)                                               -- :669
  let wo ← modT ox p.bx                                                  -- :672
  let e1 ← whileLinesT (blockRectBodyT img oy native p bpb al rs re (wo % 256)) (toRead + 1) lb (before, 0)
  let s2 ← ckU (perLine * after)                                         -- :715 (`u64`)
  let s2' ← ckU (s2 * bpb)
  pure (e0 ++ [Ev.io (.skip s1')] ++ e1 ++ [Ev.io (.skip s2')])

end Dds.TrapLoops
