/-
Implementation-shaped model of the BC6H block decoder `src/decode/bc6.rs` (decode_bc6_block and
everything it calls) plus the half -> f32 / u16 / u8 conversions of `src/color/formats.rs`
(`fp16::{f32,n16,n8}`, `bc6h_uf16::{f32,n16,n8}`) that the BC6H outputs go through.

`i32` values are `Int`; every `+`, `*`, `<<`, unary `-` of the code is followed by `wrap32`
(release semantics); `Theorems/C03x.lean` shows that no wrap ever changes a value on the decode path
(so the overflow-checking build does not trap) except in `sign_extend`, whose `<<` is meant to discard bits.
The `f32` arithmetic of the integer conversions is modelled exactly: every product / sum is a dyadic
rational `n * 2^e` rounded to 24 significant bits, ties to even (`rnd24`), which is IEEE binary32
arithmetic as long as no overflow / subnormal occurs (the operands here lie in [2^-25, 2^28)).
-/
import DdsModel.Mach
import DdsModel.BcTables
import DdsModel.Bc7
namespace Dds.Bc6
open Dds.BcTables

/-! ### machine integers -/

def wrap32 (x : Int) : Int := (x + 2147483648) % 4294967296 - 2147483648
/-- `i32 as u32` -/
def toU32 (x : Int) : Nat := (x % 4294967296).toNat
/-- `u32 as i32` -/
def ofU32 (n : Nat) : Int := if n < 2147483648 then (n : Int) else (n : Int) - 4294967296
/-- `i32 << s` -/
def shl32 (x : Int) (s : Nat) : Int := wrap32 (x * (2 ^ s : Nat))
/-- `i32 >> s` (arithmetic) -/
def sar32 (x : Int) (s : Nat) : Int := x / ((2 ^ s : Nat) : Int)
/-- `i32 & mask` for a non-negative mask -/
def and32 (x : Int) (mask : Nat) : Int := ofU32 (toU32 x &&& mask)

/-! ### BitStream -/

/-- `BitStream::consume_bits_32(count) -> i32` (count ≤ 31, value non-negative) -/
def consumeBits32 (count s : Nat) : Nat × Nat :=
  ((s % U32) &&& (((1 <<< count) % U32 + U32 - 1) % U32), s >>> count)

/-- `u8::reverse_bits` -/
def reverseBits8 (x : Nat) : Nat :=
  (List.range 8).foldl (fun acc i => acc ||| (((x >>> i) &&& 1) <<< (7 - i))) 0

/-- `BitStream::consume_bits_rev(count) -> u8` -/
def consumeBitsRev (count s : Nat) : Nat × Nat :=
  let bits := (s % U8) &&& Bc7.mask8 count
  (if count ≥ 2 then reverseBits8 bits >>> (8 - count) else bits, s >>> count)

/-! ### modes -/

inductive ModeTwo | M10_555 | M7_666 | M11_544 | M11_454 | M11_445 | M9_555 | M8_655 | M8_565 | M8_556 | M6_666
deriving DecidableEq, Repr
inductive ModeOne | M10_10 | M11_9 | M12_8 | M16_4
deriving DecidableEq, Repr
inductive Mode | one (m : ModeOne) | two (m : ModeTwo) | invalid
deriving DecidableEq, Repr

def ModeTwo.a0BitCount : ModeTwo → Nat
  | .M10_555 => 10 | .M7_666 => 7 | .M11_544 => 11 | .M11_454 => 11 | .M11_445 => 11
  | .M9_555 => 9 | .M8_655 => 8 | .M8_565 => 8 | .M8_556 => 8 | .M6_666 => 6
def ModeTwo.deltaBitCount : ModeTwo → Nat × Nat × Nat
  | .M10_555 => (5, 5, 5) | .M7_666 => (6, 6, 6) | .M11_544 => (5, 4, 4) | .M11_454 => (4, 5, 4)
  | .M11_445 => (4, 4, 5) | .M9_555 => (5, 5, 5) | .M8_655 => (6, 5, 5) | .M8_565 => (5, 6, 5)
  | .M8_556 => (5, 5, 6) | .M6_666 => (6, 6, 6)
def ModeTwo.transformed (m : ModeTwo) : Bool := m ≠ .M6_666
def ModeOne.a0BitCount : ModeOne → Nat
  | .M10_10 => 10 | .M11_9 => 11 | .M12_8 => 12 | .M16_4 => 16
def ModeOne.b0BitCount (m : ModeOne) : Nat := 20 - m.a0BitCount
def ModeOne.transformed (m : ModeOne) : Bool := m ≠ .M10_10

/-- `extract_mode` -/
def extractMode (s : Nat) : Mode × Nat :=
  let low2 := Bc7.consumeBits 2 s
  if low2.1 = 0 then (.two .M10_555, low2.2)
  else if low2.1 = 1 then (.two .M7_666, low2.2)
  else if low2.1 = 2 then
    let high3 := Bc7.consumeBits 3 low2.2
    let bits := ((high3.1 <<< 2) % U8) ||| 2
    (.two (if bits = 2 then .M11_544 else if bits = 6 then .M11_454 else if bits = 10 then .M11_445
      else if bits = 14 then .M9_555 else if bits = 18 then .M8_655 else if bits = 22 then .M8_565
      else if bits = 26 then .M8_556 else .M6_666), high3.2)
  else
    let high3 := Bc7.consumeBits 3 low2.2
    if high3.1 &&& 4 ≠ 0 then (.invalid, high3.2)
    else
      let high2 := high3.1 &&& 3
      (.one (if high2 = 0 then .M10_10 else if high2 = 1 then .M11_9 else if high2 = 2 then .M12_8 else .M16_4),
       high3.2)

/-! ### compressed endpoints.  Colours are `[r, g, b]`; an endpoint set is `[w, x, y, z]` -/

/-- one `consume!` invocation: channel (0 r, 1 g, 2 b), endpoint (0 w, 1 x, 2 y, 3 z), and either a single
bit index `consume!(c, e, k)` (`hi = none`) or a range `consume!(c, e, hi..0)` -/
structure Op where
  chan : Nat
  ep : Nat
  bit : Nat        -- single-bit form: destination bit; range form: high bit `hi`
  range : Bool
deriving DecidableEq, Repr

def b1 (c e k : Nat) : Op := ⟨c, e, k, false⟩
def rg (c e hi : Nat) : Op := ⟨c, e, hi, true⟩

/-- the macro bodies of `extract_compressed_endpoints_two`, per mode, in source order -/
def modeTwoOps : ModeTwo → List Op
  | .M10_555 => [b1 1 2 4, b1 2 2 4, b1 2 3 4, rg 0 0 9, rg 1 0 9, rg 2 0 9, rg 0 1 4, b1 1 3 4, rg 1 2 3,
      rg 1 1 4, b1 2 3 0, rg 1 3 3, rg 2 1 4, b1 2 3 1, rg 2 2 3, rg 0 2 4, b1 2 3 2, rg 0 3 4, b1 2 3 3]
  | .M7_666 => [b1 1 2 5, b1 1 3 4, b1 1 3 5, rg 0 0 6, b1 2 3 0, b1 2 3 1, b1 2 2 4, rg 1 0 6, b1 2 2 5,
      b1 2 3 2, b1 1 2 4, rg 2 0 6, b1 2 3 3, b1 2 3 5, b1 2 3 4, rg 0 1 5, rg 1 2 3, rg 1 1 5, rg 1 3 3,
      rg 2 1 5, rg 2 2 3, rg 0 2 5, rg 0 3 5]
  | .M11_544 => [rg 0 0 9, rg 1 0 9, rg 2 0 9, rg 0 1 4, b1 0 0 10, rg 1 2 3, rg 1 1 3, b1 1 0 10, b1 2 3 0,
      rg 1 3 3, rg 2 1 3, b1 2 0 10, b1 2 3 1, rg 2 2 3, rg 0 2 4, b1 2 3 2, rg 0 3 4, b1 2 3 3]
  | .M11_454 => [rg 0 0 9, rg 1 0 9, rg 2 0 9, rg 0 1 3, b1 0 0 10, b1 1 3 4, rg 1 2 3, rg 1 1 4, b1 1 0 10,
      rg 1 3 3, rg 2 1 3, b1 2 0 10, b1 2 3 1, rg 2 2 3, rg 0 2 3, b1 2 3 0, b1 2 3 2, rg 0 3 3, b1 1 2 4,
      b1 2 3 3]
  | .M11_445 => [rg 0 0 9, rg 1 0 9, rg 2 0 9, rg 0 1 3, b1 0 0 10, b1 2 2 4, rg 1 2 3, rg 1 1 3, b1 1 0 10,
      b1 2 3 0, rg 1 3 3, rg 2 1 4, b1 2 0 10, rg 2 2 3, rg 0 2 3, b1 2 3 1, b1 2 3 2, rg 0 3 3, b1 2 3 4,
      b1 2 3 3]
  | .M9_555 => [rg 0 0 8, b1 2 2 4, rg 1 0 8, b1 1 2 4, rg 2 0 8, b1 2 3 4, rg 0 1 4, b1 1 3 4, rg 1 2 3,
      rg 1 1 4, b1 2 3 0, rg 1 3 3, rg 2 1 4, b1 2 3 1, rg 2 2 3, rg 0 2 4, b1 2 3 2, rg 0 3 4, b1 2 3 3]
  | .M8_655 => [rg 0 0 7, b1 1 3 4, b1 2 2 4, rg 1 0 7, b1 2 3 2, b1 1 2 4, rg 2 0 7, b1 2 3 3, b1 2 3 4,
      rg 0 1 5, rg 1 2 3, rg 1 1 4, b1 2 3 0, rg 1 3 3, rg 2 1 4, b1 2 3 1, rg 2 2 3, rg 0 2 5, rg 0 3 5]
  | .M8_565 => [rg 0 0 7, b1 2 3 0, b1 2 2 4, rg 1 0 7, b1 1 2 5, b1 1 2 4, rg 2 0 7, b1 1 3 5, b1 2 3 4,
      rg 0 1 4, b1 1 3 4, rg 1 2 3, rg 1 1 5, rg 1 3 3, rg 2 1 4, b1 2 3 1, rg 2 2 3, rg 0 2 4, b1 2 3 2,
      rg 0 3 4, b1 2 3 3]
  | .M8_556 => [rg 0 0 7, b1 2 3 1, b1 2 2 4, rg 1 0 7, b1 2 2 5, b1 1 2 4, rg 2 0 7, b1 2 3 5, b1 2 3 4,
      rg 0 1 4, b1 1 3 4, rg 1 2 3, rg 1 1 4, b1 2 3 0, rg 1 3 3, rg 2 1 5, rg 2 2 3, rg 0 2 4, b1 2 3 2,
      rg 0 3 4, b1 2 3 3]
  | .M6_666 => [rg 0 0 5, b1 1 3 4, b1 2 3 0, b1 2 3 1, b1 2 2 4, rg 1 0 5, b1 1 2 5, b1 2 2 5, b1 2 3 2,
      b1 1 2 4, rg 2 0 5, b1 1 3 5, b1 2 3 3, b1 2 3 5, b1 2 3 4, rg 0 1 5, rg 1 2 3, rg 1 1 5, rg 1 3 3,
      rg 2 1 5, rg 2 2 3, rg 0 2 5, rg 0 3 5]

/-- accumulators `w, x, y, z` × `r, g, b` as a flat list of 12, index `ep * 3 + chan` -/
def accGet (acc : List Nat) (e c : Nat) : Nat := acc.getD (e * 3 + c) 0
def accOr (acc : List Nat) (e c v : Nat) : List Nat := acc.set (e * 3 + c) (accGet acc e c ||| v)

/-- expansion of one `consume!` : `$i2.$i1 |= stream.consume_bits_32(1) << $index` resp.
`$i2.$i1 |= stream.consume_bits_32($high + 1)` -/
def stepOp (st : List Nat × Nat) (op : Op) : List Nat × Nat :=
  if op.range then
    let r := consumeBits32 (op.bit + 1) st.2
    (accOr st.1 op.ep op.chan r.1, r.2)
  else
    let r := consumeBits32 1 st.2
    (accOr st.1 op.ep op.chan ((r.1 <<< op.bit) % U32), r.2)

/-- `extract_compressed_endpoints_two` : 12 accumulators and the stream afterwards -/
def extractTwo (m : ModeTwo) (s : Nat) : List Nat × Nat :=
  (modeTwoOps m).foldl stepOp (List.replicate 12 0, s)

/-- `extract_compressed_endpoints_one` : accumulators `a.r a.g a.b b.r b.g b.b` -/
def extractOne (m : ModeOne) (s : Nat) : List Nat × Nat :=
  let ar := consumeBits32 10 s
  let ag := consumeBits32 10 ar.2
  let ab := consumeBits32 10 ag.2
  let bcount := 20 - m.a0BitCount
  let ext := m.a0BitCount - 10
  let br := consumeBits32 bcount ab.2
  let arx := consumeBitsRev ext br.2
  let bg := consumeBits32 bcount arx.2
  let agx := consumeBitsRev ext bg.2
  let bb := consumeBits32 bcount agx.2
  let abx := consumeBitsRev ext bb.2
  ([ar.1 ||| (arx.1 <<< 10) % U32, ag.1 ||| (agx.1 <<< 10) % U32, ab.1 ||| (abx.1 <<< 10) % U32,
    br.1, bg.1, bb.1], abx.2)

/-! ### endpoint decompression -/

/-- `sign_extend(x, bit_count)` : `(x << shift) >> shift` with `shift = 32 - bit_count` -/
def signExtend (x : Int) (bitCount : Nat) : Int :=
  let shift := 32 - bitCount
  sar32 (shl32 x shift) shift

/-- `IntColor<i32> + IntColor<i32>` (wrapping_add), then `.bit_and(mask)` -/
def addMask (a b : Int) (mask : Nat) : Int := and32 (wrap32 (a + b)) mask

/-- `(1 << a_bit_count) - 1` as `i32` -/
def maskOf (bits : Nat) : Nat := toU32 (wrap32 (shl32 1 bits - 1))

/-- `decompress_endpoints_two` on one channel `c` with delta width `d` : (w, x, y, z) -> (w, x, y, z) -/
def decompressTwoChan (m : ModeTwo) (signed : Bool) (d : Nat) (w x y z : Int) : List Int :=
  let abits := m.a0BitCount
  let w := if signed then signExtend w abits else w
  let se := m.transformed || signed
  let x := if se then signExtend x d else x
  let y := if se then signExtend y d else y
  let z := if se then signExtend z d else z
  if m.transformed then
    let mask := maskOf abits
    let x := addMask x w mask
    let y := addMask y w mask
    let z := addMask z w mask
    if signed then [w, signExtend x abits, signExtend y abits, signExtend z abits] else [w, x, y, z]
  else [w, x, y, z]

/-- `decompress_endpoints_one` on one channel : (a, b) -> (a, b) -/
def decompressOneChan (m : ModeOne) (signed : Bool) (a b : Int) : List Int :=
  let abits := m.a0BitCount
  let bbits := m.b0BitCount
  let a := if signed then signExtend a abits else a
  let b := if m.transformed || signed then signExtend b bbits else b
  if m.transformed then
    let mask := maskOf abits
    let b := addMask a b mask
    if signed then [a, signExtend b abits] else [a, b]
  else [a, b]

/-! ### unquantize / interpolate / finish -/

/-- `unquantize(component, u_bits_per_comp, format)` -/
def unquantize (component : Int) (bits : Nat) (signed : Bool) : Int :=
  if !signed then
    if bits ≥ 15 then component
    else if component = 0 then 0
    else if component = wrap32 (shl32 1 bits - 1) then 0xFFFF
    else sar32 (wrap32 (shl32 component 16 + 0x8000)) bits
  else
    if bits ≥ 16 then component
    else
      let s := component < 0
      let component := if s then wrap32 (-component) else component
      let unq :=
        if component = 0 then 0
        else if component ≥ wrap32 (shl32 1 (bits - 1) - 1) then 0x7FFF
        else sar32 (wrap32 (shl32 component 15 + 0x4000)) (bits - 1)
      if s then wrap32 (-unq) else unq

/-- `finish_unquantize(component, format) -> u16` -/
def finishUnquantize (component : Int) (signed : Bool) : Nat :=
  if !signed then
    toU32 (sar32 (wrap32 (component * 31)) 6) % U16
  else
    let c := if component < 0 then wrap32 (-(sar32 (wrap32 (wrap32 (-component) * 31)) 5))
             else sar32 (wrap32 (component * 31)) 5
    let s : Nat := if c < 0 then 0x8000 else 0
    let c := if c < 0 then wrap32 (-c) else c
    (s ||| toU32 c) % U16

/-- one palette entry: `finish_unquantize((a * (64 - w) + b * w + 32) >> 6, format)` -/
def paletteEntry (a b : Int) (w : Nat) (signed : Bool) : Nat :=
  finishUnquantize (sar32 (wrap32 (wrap32 (wrap32 (a * wrap32 (64 - (w : Int))) + wrap32 (b * (w : Int))) + 32)) 6) signed

/-- `generate_palette_unquantized_{one,two}` for one channel : `weights.map ...` -/
def palette (weights : List Nat) (c1 c2 : Int) (prec : Nat) (signed : Bool) : List Nat :=
  let a := unquantize c1 prec signed
  let b := unquantize c2 prec signed
  weights.map fun w => paletteEntry a b w signed

/-! ### block -/

def getI (l : List Int) (i : Nat) : Int := l.getD i 0

/-- `decode_bc6_block(block, format) -> [[u16; 3]; 16]` (half bit patterns) -/
def decodeBlock (signed : Bool) (block : Nat) : List (List Nat) :=
  let md := extractMode block
  match md.1 with
  | .one m =>
    let e := extractOne m md.2
    let ix := Bc7.newP1 4 e.2
    let prec := m.a0BitCount
    let pal := (List.range 3).map fun c =>
      let ab := decompressOneChan m signed (e.1.getD c 0) (e.1.getD (3 + c) 0)
      palette implW6_4 (getI ab 0) (getI ab 1) prec signed
    (List.range 16).map fun pixel =>
      let index := Bc7.getIndex ix.1 pixel
      (List.range 3).map fun c => (pal.getD c []).getD index 0
  | .two m =>
    let e := extractTwo m md.2
    let part := Bc7.consumeBits 5 e.2
    let map := implP2 part.1
    let ix := Bc7.newP2 3 part.2 map.2
    let prec := m.a0BitCount
    let d := m.deltaBitCount
    let pal := (List.range 3).map fun c =>
      let dc := if c = 0 then d.1 else if c = 1 then d.2.1 else d.2.2
      let ws := decompressTwoChan m signed dc (accGet e.1 0 c) (accGet e.1 1 c) (accGet e.1 2 c) (accGet e.1 3 c)
      [palette implW6_3 (getI ws 0) (getI ws 1) prec signed, palette implW6_3 (getI ws 2) (getI ws 3) prec signed]
    (List.range 16).map fun pixel =>
      let index := Bc7.getIndex ix.1 pixel
      let sub := subset2Index map pixel
      (List.range 3).map fun c => ((pal.getD c []).getD sub []).getD index 0
  | .invalid => List.replicate 16 [0, 0, 0]

/-! ### half -> f32 / u16 / u8  (`src/color/formats.rs`) -/

/-- bit length -/
def bitLen (n : Nat) : Nat := if n = 0 then 0 else Nat.log2 n + 1

/-- a positive dyadic rational `n * 2^e` -/
structure Dy where
  n : Nat
  e : Int
deriving Repr

/-- round to 24 significant bits, ties to even (binary32 rounding in the normal range) -/
def rnd24 (x : Dy) : Dy :=
  let l := bitLen x.n
  if l ≤ 24 then x else
    let k := l - 24
    let q := x.n >>> k
    let r := x.n % 2 ^ k
    let half := 2 ^ (k - 1)
    let q := if r > half ∨ (r = half ∧ q % 2 = 1) then q + 1 else q
    ⟨q, x.e + k⟩

def Dy.mul (a b : Dy) : Dy := rnd24 ⟨a.n * b.n, a.e + b.e⟩
def Dy.add (a b : Dy) : Dy :=
  let e := min a.e b.e
  rnd24 ⟨a.n * 2 ^ (a.e - e).toNat + b.n * 2 ^ (b.e - e).toNat, e⟩
/-- `f32 as u16 / u8` : truncate toward zero, saturate at `max` -/
def Dy.toUInt (a : Dy) (max : Nat) : Nat :=
  let v := if a.e ≥ 0 then a.n * 2 ^ a.e.toNat else a.n / 2 ^ (-a.e).toNat
  if v > max then max else v

/-- `(mant as f32 + 1024_f32) * two_powi(exp as i8 - 25) * MAX + 0.5` truncated -/
def normToInt (exp mant max : Nat) : Nat :=
  let v : Dy := Dy.mul ⟨mant + 1024, 0⟩ ⟨1, (exp : Int) - 25⟩
  ((v.mul ⟨max, 0⟩).add ⟨1, -1⟩).toUInt max

/-- `fp16::n8` -/
def fp16N8 (x : Nat) : Nat :=
  let exp := (x >>> 10) &&& 31
  let mant := x &&& 1023
  let val := if exp ≠ 31 then normToInt exp mant 255 else if mant = 0 then 255 else 0
  if x &&& 0x8000 ≠ 0 then 0 else val

/-- `fp16::n16` -/
def fp16N16 (x : Nat) : Nat :=
  let exp := (x >>> 10) &&& 31
  let mant := x &&& 1023
  let val :=
    if exp = 0 then ((Dy.mul ⟨mant, 0⟩ ⟨65535, -24⟩).add ⟨1, -1⟩).toUInt 65535
    else if exp ≠ 31 then normToInt exp mant 65535
    else if mant = 0 then 65535 else 0
  if x &&& 0x8000 ≠ 0 then 0 else val

/-- magnitude part of `fp16::f32` as binary32 bits -/
def halfMagToF32 (exp mant : Nat) : Nat :=
  if exp = 0 then
    if mant = 0 then 0
    else
      -- mant * 2^-24, exact: normalise
      let t := Nat.log2 mant
      ((103 + t) <<< 23) ||| ((mant - 2 ^ t) <<< (23 - t))
  else if exp ≠ 31 then ((exp + 112) <<< 23) ||| (mant <<< 13)
  else if mant = 0 then 0x7F800000 else 0x7FC00000

/-- `fp16::f32` (bit pattern of the result) -/
def fp16F32 (x : Nat) : Nat :=
  let exp := (x >>> 10) &&& 31
  let mant := x &&& 1023
  let v := halfMagToF32 exp mant
  if x &&& 0x8000 ≠ 0 then v ||| 0x80000000 else v

/-- `bc6h_uf16::n8` (no sign / Inf / NaN handling: the code only `debug_assert`s their absence) -/
def uf16N8 (x : Nat) : Nat := normToInt ((x >>> 10) &&& 31) (x &&& 1023) 255
/-- `bc6h_uf16::n16` -/
def uf16N16 (x : Nat) : Nat :=
  let exp := (x >>> 10) &&& 31
  let mant := x &&& 1023
  if exp = 0 then ((Dy.mul ⟨mant, 0⟩ ⟨65535, -24⟩).add ⟨1, -1⟩).toUInt 65535 else normToInt exp mant 65535
/-- `bc6h_uf16::f32` -/
def uf16F32 (x : Nat) : Nat :=
  let exp := (x >>> 10) &&& 31
  let mant := x &&& 1023
  if exp = 0 then halfMagToF32 0 mant else ((exp + 112) <<< 23) ||| (mant <<< 13)

end Dds.Bc6
