/-
Model of the writer loops of the encoders: the sizes (in bytes) of the successive
`write_all` calls, in program order, as a function of the image geometry.

* `for_each_chunk` (src/encode/write_util.rs) — contiguous and row-wise paths — used by
  `uncompressed_universal`, `uncompressed_untyped`, `copy_directly`
* the per-row chunk loops of `uncompressed_universal_dither` and
  `uncompressed_universal_subsample` (src/encode/uncompressed.rs, sub_sampled.rs)
* `for_each_f32_rgba_rows` + `block_universal` (src/encode/write_util.rs, bc.rs)
* `bi_planar_universal` (src/encode/bi_planar.rs)

`Theorems/C10.lean` proves that the sizes add up to the layout length of the surface for
EVERY width, height and buffer size.
-/
import DdsModel.Layout
namespace Dds

/-- `slice.chunks(n)`: the lengths of the chunks of a slice of length `len` (`n ≥ 1`) -/
def chunkLens (n : Nat) : (fuel len : Nat) → List Nat
  | 0, _ => []
  | fuel + 1, len => if len = 0 then [] else min n len :: chunkLens n fuel (len - min n len)

/-- contiguous path of `for_each_chunk`: `data.chunks(buffer_pixels * bpp)`, one
`process_chunk` (= one write of `pixels * encodedBpp` bytes) per chunk -/
def chunksContig (totalPx bufPx encBpp : Nat) : List Nat :=
  (chunkLens bufPx totalPx totalPx).map (· * encBpp)

/-- the inner `while !row.is_empty()` loop of the row-wise path: state = pixels in the buffer;
returns the flushes (in pixels) and the new fill -/
def fillRow (bufPx : Nat) : (fuel rowPx fill : Nat) → List Nat × Nat
  | 0, _, fill => ([], fill)
  | fuel + 1, rowPx, fill =>
    if rowPx = 0 then ([], fill) else
    if fill = bufPx then
      -- buffer full: flush, then continue with an empty buffer
      let w := min rowPx bufPx
      let r := fillRow bufPx fuel (rowPx - w) w
      (bufPx :: r.1, r.2)
    else
      let w := min rowPx (bufPx - fill)
      fillRow bufPx fuel (rowPx - w) (fill + w)

/-- row-wise path of `for_each_chunk`: all rows, then the final flush -/
def chunksRowsAux (bufPx w : Nat) : (rows fill : Nat) → List Nat
  | 0, fill => if fill > 0 then [fill] else []
  | rows + 1, fill =>
    let r := fillRow bufPx (w + 1) w fill
    r.1 ++ chunksRowsAux bufPx w rows r.2

def chunksRows (w h bufPx encBpp : Nat) : List Nat :=
  (chunksRowsAux bufPx w h 0).map (· * encBpp)

/-- `uncompressed_universal_dither`: every row is cut into chunks of `chunkPx` pixels -/
def chunksPerRow (w h chunkPx encBpp : Nat) : List Nat :=
  ((List.range h).map fun _ => (chunkLens chunkPx w w).map (· * encBpp)).flatten

/-- `uncompressed_universal_subsample`: every row is cut into chunks of `chunkPx` pixels
(a multiple of the block width); a chunk of `p` pixels writes `ceil(p / bw)` blocks -/
def chunksSubsample (w h chunkPx bw blockBytes : Nat) : List Nat :=
  ((List.range h).map fun _ =>
    (chunkLens chunkPx w w).map fun p => divCeil p bw * blockBytes).flatten

/-- `for_each_f32_rgba_rows`: the number of calls of the closure -/
def rowGroups (h bh : Nat) : Nat := h / bh + (if h % bh > 0 then 1 else 0)

/-- `block_universal`: per row group one write of `ceil(w / bw)` blocks -/
def writesBlock (w h bw bh blockBytes : Nat) : List Nat :=
  (List.range (rowGroups h bh)).map fun _ => divCeil w bw * blockBytes

/-- `bi_planar_universal` (sizes are multiples of 2x2): per row group one write of plane 1
(`w * 2` samples), at the end one write of plane 2 -/
def writesBiPlanar (w h p1 p2 : Nat) : List Nat :=
  ((List.range (rowGroups h 2)).map fun _ => w * 2 * p1) ++ [(w / 2) * (h / 2) * p2]

def sumList (l : List Nat) : Nat := l.sum

end Dds
