/-
Specification-shaped model of BC1–BC5 decoding (independent formulation: exact rational
interpolation of the endpoints, then the nearest representable output value).

Reading of the format specification (D3D10/11 block compression; see DESIGN.md §5 C03):
* a 16-bit colour is 5:6:5 with red in the top bits; an endpoint channel `e` of width `b` bits has the
  real value `e / (2^b - 1)`;
* BC1: four-colour mode iff `color0 > color1`, else three colours + transparent black for index 3;
  BC2/BC3 colour blocks: *always* four colours, whatever the order of the endpoints;
* palette entries are the exact interpolations `(2·c0 + c1)/3`, `(c0 + 2·c1)/3`, `(c0 + c1)/2`;
* BC2 alpha: 4 explicit bits per pixel, value `a/15`;
* BC4 (and BC3 alpha, BC5 channels): `red0 > red1` selects six interpolants `((7-j)·r0 + j·r1)/7`,
  otherwise four `((5-j)·r0 + j·r1)/5` followed by the constants 0 and 1 (SNORM: -1 and 1);
* SNORM: the byte is a two's complement integer `s`, `-128` is treated as `-127`, value `s/127`; the
  mode is selected by comparing the raw signed bytes; this library presents SNORM values in the
  unsigned range by `(v + 1)/2` (so `-1 ↦ 0`, `0 ↦ 1/2`, `1 ↦ 1`);
* BC1/BC2/BC3 are defined at 8 bit (`nearest integer of 255·v`), 16-bit and float outputs are the exact
  widening of that 8-bit value (`·257`, nearest binary32 of `v/255`); BC4/BC5 are quantised per output
  precision (nearest of `255·v`, `65535·v`, nearest binary32 of `v`);
* nearest = `⌊x + 1/2⌋` (an exact tie goes up; `C03.rnd_nearest` states the tie-free characterisation).
-/
import DdsModel.Bc
namespace Dds.BcSpec
open Dds.Bc (Prec Fmt)

/-- nearest integer, exact ties upward -/
def rnd (q : Rat) : Nat := (q + 1/2).floor.toNat

/-- exact interpolation `(w0·e0 + w1·e1)/(w0 + w1)` of two endpoints with real values `e0/m`, `e1/m` -/
def interp (w0 w1 e0 e1 m : Nat) : Rat :=
  ((w0 * e0 + w1 * e1 : Nat) : Rat) / (((w0 + w1) * m : Nat) : Rat)

/-- quantisation per output precision (BC4/BC5) -/
def quant (pr : Prec) (v : Rat) : Nat :=
  match pr with
  | .u8 => rnd (255 * v)
  | .u16 => rnd (65535 * v)
  | .f32 => F32.roundF32 v

/-- exact widening of an 8-bit UNORM value (BC1/BC2/BC3) -/
def widen (pr : Prec) (v8 : Nat) : Nat :=
  match pr with
  | .u8 => v8
  | .u16 => v8 * 257
  | .f32 => F32.roundF32 ((v8 : Rat) / 255)

/-- little-endian word of `n` bytes starting at offset `o` -/
def leWord (blk : Nat → Nat) (o : Nat) : Nat → Nat
  | 0 => 0
  | n + 1 => blk o + 256 * leWord blk (o + 1) n

/-! ### colour blocks -/

/-- palette entry `k` of one colour channel; `none` = the transparent-black entry -/
def colorEntry (four : Bool) (k e0 e1 m : Nat) : Option Rat :=
  match k, four with
  | 0, _ => some (interp 1 0 e0 e1 m)
  | 1, _ => some (interp 0 1 e0 e1 m)
  | 2, true => some (interp 2 1 e0 e1 m)
  | 2, false => some (interp 1 1 e0 e1 m)
  | _, true => some (interp 1 2 e0 e1 m)
  | _, false => none

def chan8 (four : Bool) (k e0 e1 m : Nat) : Nat :=
  match colorEntry four k e0 e1 m with
  | some v => rnd (255 * v)
  | none => 0

/-- four-colour mode? `bc1 = true`: selected by the endpoint order; BC2/BC3: always -/
def fourMode (bc1 : Bool) (color0 color1 : Nat) : Bool := !bc1 || decide (color0 > color1)

/-- 8-bit RGBA of pixel `p` of the colour block at byte offset `o` -/
def colorPx (bc1 : Bool) (blk : Nat → Nat) (o p : Nat) : Nat × Nat × Nat × Nat :=
  let color0 := leWord blk o 2
  let color1 := leWord blk (o + 2) 2
  let k := leWord blk (o + 4) 4 / 4 ^ p % 4
  let four := fourMode bc1 color0 color1
  (chan8 four k (color0 / 2048) (color1 / 2048) 31,
   chan8 four k (color0 / 32 % 64) (color1 / 32 % 64) 63,
   chan8 four k (color0 % 32) (color1 % 32) 31,
   if !four && k == 3 then 0 else 255)

/-- BC2 explicit alpha of pixel `p` (alpha word at offset 0) -/
def bc2Alpha (blk : Nat → Nat) (p : Nat) : Nat :=
  rnd (255 * (((leWord blk 0 8 / 16 ^ p % 16 : Nat) : Rat) / 15))

/-! ### BC4 -/

/-- palette entry `k` of a BC4 block with endpoints `e0/m`, `e1/m` -/
def bc4Entry (six : Bool) (k e0 e1 m : Nat) : Rat :=
  match k with
  | 0 => interp 1 0 e0 e1 m
  | 1 => interp 0 1 e0 e1 m
  | k =>
    if six then interp (8 - k) (k - 1) e0 e1 m
    else if k = 6 then 0
    else if k = 7 then 1
    else interp (6 - k) (k - 1) e0 e1 m

/-- two's complement reading of a byte -/
def sraw (x : Nat) : Int := if x < 128 then (x : Int) else (x : Int) - 256
/-- SNORM numerator in `-127..127` shifted to `0..254` (`-128` is treated as `-127`) -/
def snormU (x : Nat) : Nat := ((if sraw x < -127 then -127 else sraw x) + 127).toNat

/-- value in [0,1] of pixel `p` of the BC4 UNORM block at offset `o` -/
def bc4uVal (blk : Nat → Nat) (o p : Nat) : Rat :=
  bc4Entry (decide (blk o > blk (o + 1))) (leWord blk (o + 2) 6 / 8 ^ p % 8) (blk o) (blk (o + 1)) 255

/-- value, mapped to [0,1] by `(v+1)/2`, of pixel `p` of the BC4 SNORM block at offset `o` -/
def bc4sVal (blk : Nat → Nat) (o p : Nat) : Rat :=
  bc4Entry (decide (sraw (blk o) > sraw (blk (o + 1)))) (leWord blk (o + 2) 6 / 8 ^ p % 8)
    (snormU (blk o)) (snormU (blk (o + 1))) 254

/-! ### variants -/

/-- DXT2/DXT4: colour divided by alpha, as the decoder documents it in code: truncating, saturated,
alpha 0 leaves the colour unchanged -/
def straight (c a : Nat) : Nat := if a = 0 then c else min 255 (c * 255 / a)

/-- BC3n: `255·z` with `z = ½·√(1 − (2r/255 − 1)² − (2g/255 − 1)²) + ½`, nearest integer (ties up):
`⌊(√D + 256)/2⌋` with `D = max 0 (255² − (2r − 255)² − (2g − 255)²)` -/
def zD (r g : Nat) : Nat :=
  (65025 - (2 * (r : Int) - 255) * (2 * (r : Int) - 255) - (2 * (g : Int) - 255) * (2 * (g : Int) - 255)).toNat
/-- integer square root of `n < 65536`, bit by bit (`C03.z8_nearest` checks the result without any root) -/
def isqrtBits (n : Nat) : Nat → Nat → Nat
  | 0, acc => acc
  | b + 1, acc => if (acc + 2 ^ b) * (acc + 2 ^ b) ≤ n then isqrtBits n b (acc + 2 ^ b) else isqrtBits n b acc
def z8 (r g : Nat) : Nat := (isqrtBits (zD r g) 8 0 + 256) / 2

/-- `k` is a nearest 8-bit value of `255·z` (tie-agnostic, no square root):
`2k − 256 ≤ √D ≤ 2k − 254` -/
def zNearest (r g k : Nat) : Prop :=
  (2 * k ≤ 256 ∨ (2 * k - 256) * (2 * k - 256) ≤ zD r g) ∧ (254 ≤ 2 * k ∧ zD r g ≤ (2 * k - 254) * (2 * k - 254))

/-! ### whole pixels -/

def px8 (f : Fmt) (blk : Nat → Nat) (p : Nat) : List Nat :=
  let a3 := rnd (255 * bc4uVal blk 0 p)
  match f with
  | .bc1 => let c := colorPx true blk 0 p; [c.1, c.2.1, c.2.2.1, c.2.2.2]
  | .bc2 => let c := colorPx false blk 8 p; [c.1, c.2.1, c.2.2.1, bc2Alpha blk p]
  | .bc2rgb => let c := colorPx false blk 8 p; [c.1, c.2.1, c.2.2.1]
  | .bc2p => let c := colorPx false blk 8 p; let a := bc2Alpha blk p
             [straight c.1 a, straight c.2.1 a, straight c.2.2.1 a, a]
  | .bc3 => let c := colorPx false blk 8 p; [c.1, c.2.1, c.2.2.1, a3]
  | .bc3rgb => let c := colorPx false blk 8 p; [c.1, c.2.1, c.2.2.1]
  | .bc3p => let c := colorPx false blk 8 p
             [straight c.1 a3, straight c.2.1 a3, straight c.2.2.1 a3, a3]
  | .rxgb => let c := colorPx false blk 8 p; [a3, c.2.1, c.2.2.1]
  | .bc3n => let c := colorPx false blk 8 p; [a3, c.2.1, z8 a3 c.2.1]
  | _ => []

def px (f : Fmt) (pr : Prec) (blk : Nat → Nat) (p : Nat) : List Nat :=
  match f with
  | .bc4u => [quant pr (bc4uVal blk 0 p)]
  | .bc4s => [quant pr (bc4sVal blk 0 p)]
  | .bc5u => [quant pr (bc4uVal blk 0 p), quant pr (bc4uVal blk 8 p), quant pr 0]
  | .bc5s => [quant pr (bc4sVal blk 0 p), quant pr (bc4sVal blk 8 p), quant pr (1 / 2)]
  | f => (px8 f blk p).map (widen pr)

/-- the 16 pixels the specification defines for a block -/
def decodeBlock (f : Fmt) (pr : Prec) (blk : Nat → Nat) : List (List Nat) :=
  (List.range 16).map (px f pr blk)

end Dds.BcSpec
