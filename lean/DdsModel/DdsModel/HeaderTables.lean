/-
Format tables of src/header.rs (`DxgiFormat`), src/pixel.rs (`TryFrom<DxgiFormat> for PixelInfo`,
`From<Format> for PixelInfo`, `PixelInfo::from_header`), src/detect.rs (`dxgi_format_to_supported`,
`four_cc_to_dxgi`, `dxgi_to_four_cc`, `four_cc_to_supported`, `KNOWN_PIXEL_FORMATS`, `special_cases`)
and src/format.rs (`TryFrom<Format> for DxgiFormat / FourCC / MaskPixelFormat / Dx9PixelFormat`),
and on top of them the `Header` constructors and `to_dx9` / `to_dx10`.

The ROWS of the tables follow the source: they are taken from `SrcTables.lean`, which tools/extract_tables.py
regenerates from /repo's working tree on every check run (the translator half of the tie). So the theorems of
`Theorems/C09.lean` / `C18.lean` about them (`dx_conversion_*`, `dxgi_table_complete`, `constructed_wf`,
`pinned_pixel_infos_wf`) are re-checked by the kernel for the rows the code has NOW. What stays pinned: the
`Format` inductive (FormatEnum.lean; the translator fails when the source's enum differs) and everything that is
code rather than a table (the lookup functions below, the constructors, `to_dx9` / `to_dx10`). The correspondence
run still compares every row with the implementation (case kinds TD / TF / TM of C09: all codes 0..300, every known
four CC and 0..129, every `Format`) — that now validates the translator.
-/
import DdsModel.Header
import DdsModel.FormatEnum
namespace Dds

/-- `impl TryFrom<Format> for DxgiFormat` (rows translated: `SrcTables.formatToDxgi`) -/
def Format.toDxgi (f : Format) : Option Nat := SrcTables.formatToDxgi.lookup f

/-- `impl TryFrom<Format> for FourCC` (rows translated: `SrcTables.formatToFourCC`) -/
def Format.toFourCC (f : Format) : Option Nat := SrcTables.formatToFourCC.lookup f

/-- one row per named `DxgiFormat` constant: `PixelInfo::try_from`, `to_linear`, `has_alpha`,
`detect::dxgi_format_to_supported` (fields `code name px linear hasAlpha supported`) -/
abbrev DxgiRow := SrcTables.DxgiRow

/-- the rows, translated from `define_dxgi_formats!` and the four `match`es over `DxgiFormat`
(`C09.dxgi_table_complete`: the named constants are exactly the accepted codes, each named once) -/
def dxgiRows : List DxgiRow := SrcTables.dxgiNamed

def dxgiRow? (c : Nat) : Option DxgiRow := dxgiRows.find? (·.code == c)

/-- `impl TryFrom<DxgiFormat> for PixelInfo` -/
def dxgiPixelInfo (c : Nat) : Option PixelInfo := (dxgiRow? c).bind (·.px)
/-- `DxgiFormat::to_linear` -/
def dxgiToLinear (c : Nat) : Nat := ((dxgiRow? c).map (·.linear)).getD c
/-- `DxgiFormat::has_alpha` -/
def dxgiHasAlpha (c : Nat) : Bool := ((dxgiRow? c).map (·.hasAlpha)).getD false
/-- `detect::dxgi_format_to_supported` -/
def dxgiToSupported (c : Nat) : Option Format := (dxgiRow? c).bind (·.supported)

def DXGI_BC2_UNORM : Nat := 74
def DXGI_BC3_UNORM : Nat := 77

/-- `detect::four_cc_to_dxgi` (rows translated) -/
def fourCCToDxgiTable : List (Nat × Nat) := SrcTables.fourCCToDxgi
def fourCCToDxgi (c : Nat) : Option Nat := fourCCToDxgiTable.lookup c

/-- `detect::dxgi_to_four_cc` (rows translated) -/
def dxgiToFourCCTable : List (Nat × Nat) := SrcTables.dxgiToFourCC
def dxgiToFourCC (d : Nat) : Option Nat := dxgiToFourCCTable.lookup d

/-- `detect::four_cc_to_supported`: through the DXGI code first, then the four CCs without one (rows translated;
the translator checks that the function still has this two-stage shape) -/
def fourCCToSupported (c : Nat) : Option Format :=
  match fourCCToDxgi c with
  | some d => dxgiToSupported d
  | none => SrcTables.fourCCDirect.lookup c

/-- `detect::KNOWN_PIXEL_FORMATS` (rows translated; the bit count of a row is one of the four `RgbBitCount`s —
`parse_bit_count` would not compile otherwise — and `knownPixelFormats_complete` re-checks that no row is dropped) -/
def knownPixelFormats : List (MaskPixelFormat × Option Nat × Format) :=
  SrcTables.knownPixelFormats.filterMap fun r =>
    (RgbBitCount.ofU32 r.bitCount).map fun bc =>
      ({ flags := r.flags, rgbBitCount := bc, rMask := r.r, gMask := r.g, bMask := r.b, aMask := r.a }, r.dxgi, r.fmt)

/-- `detect::masked_to_dxgi` -/
def maskedToDxgi (m : MaskPixelFormat) : Option Nat :=
  knownPixelFormats.findSome? fun (p, d, _) => if p = m then d else none
/-- `detect::masked_to_supported` -/
def maskedToSupported (m : MaskPixelFormat) : Option Format :=
  knownPixelFormats.findSome? fun (p, _, f) => if p = m then some f else none
/-- `detect::dxgi_to_masked` -/
def dxgiToMasked (d : Nat) : Option MaskPixelFormat :=
  knownPixelFormats.findSome? fun (p, d', _) => if d' = some d then some p else none
/-- `detect::supported_to_masked` -/
def Format.toMask (f : Format) : Option MaskPixelFormat :=
  knownPixelFormats.findSome? fun (p, _, f') => if f' = f then some p else none

/-- `impl From<Format> for PixelInfo`; `none` = the `unwrap()`s panic -/
def Format.pixelInfo (f : Format) : Option PixelInfo :=
  match SrcTables.formatPixelInfoDirect.lookup f with
  | some p => some p          -- the explicit arms (rows translated)
  | none => f.toDxgi.bind dxgiPixelInfo

/-- `PixelInfo::from_header` (the `Err` cases are `none`) -/
def pixelInfoOf : Header → Option PixelInfo
  | .dx9 x =>
    match x.pixelFormat with
    | .fourCC c => (fourCCToSupported c).bind Format.pixelInfo
    | .mask m => some (.fixed (m.rgbBitCount.toU32 / 8))
  | .dx10 x => dxgiPixelInfo x.dxgiFormat

/-! ### Constructors -/

/-- `impl TryFrom<Format> for Dx9PixelFormat` -/
def Format.toDx9PixelFormat (f : Format) : Option Dx9PixelFormat :=
  match f.toFourCC with
  | some c => some (.fourCC c)
  | none => f.toMask.map .mask

/-- `Dx10Header::pick_alpha_mode` -/
def pickAlphaMode (dxgi : Nat) : AlphaMode := if dxgiHasAlpha dxgi then .straight else .unknown

inductive CtorKind where
  | image | volume | cubeMap
deriving DecidableEq, Repr, Inhabited

/-- `Dx10Header::{new_image,new_volume,new_cube_map}` -/
def Dx10Header.new (k : CtorKind) (w h d dxgi : Nat) : Dx10Header :=
  { height := h, width := w, depth := (match k with | .volume => some d | _ => none),
    mipmapCount := 1, dxgiFormat := dxgi,
    resourceDimension := (match k with | .volume => .tex3D | _ => .tex2D),
    miscFlag := (match k with | .cubeMap => MISC_TEXTURE_CUBE | _ => 0),
    arraySize := 1, alphaMode := pickAlphaMode dxgi }

/-- `Dx9Header::{new_image,new_volume,new_cube_map}` -/
def Dx9Header.new (k : CtorKind) (w h d : Nat) (p : Dx9PixelFormat) : Dx9Header :=
  { height := h, width := w, depth := (match k with | .volume => some d | _ => none),
    mipmapCount := 1,
    caps2 := (match k with
              | .image => 0
              | .volume => CAPS2_VOLUME
              | .cubeMap => CAPS2_CUBE_MAP ||| CAPS2_ALL_FACES),
    pixelFormat := p }

/-- `Header::{new_image,new_volume,new_cube_map}`; `none` = the `unwrap()` panics -/
def Header.new (k : CtorKind) (w h d : Nat) (f : Format) : Option Header :=
  match f.toDxgi with
  | some dxgi => some (.dx10 (Dx10Header.new k w h d dxgi))
  | none => f.toDx9PixelFormat.map fun p => .dx9 (Dx9Header.new k w h d p)

/-! ### Builder methods of `Dx9Header` / `Dx10Header` (the struct-level setters) -/

/-- the bits `bitflags` knows of `Caps2` (`!x` truncates to them) -/
def CAPS2_KNOWN : Nat := CAPS2_CUBE_MAP ||| CAPS2_ALL_FACES ||| CAPS2_VOLUME

inductive StructOp where
  /-- `with_size(Size)` of both structs: depth becomes `None` -/
  | withSize (w h : Nat)
  /-- `with_dimensions(w, h, depth)` of both structs -/
  | withDimensions (w h : Nat) (d : Option Nat)
  /-- `with_mipmap_count(NonZeroU32)` of both structs -/
  | withMipmapCount (m : Nat)
  /-- `Dx9Header::with_cube_map_faces(CubeMapFaces)`; the argument is the `u8` behind the flags -/
  | withCubeMapFaces (faces : Nat)
  /-- `Dx9Header::with_pixel_format` -/
  | withPixelFormat (p : Dx9PixelFormat)
  /-- `Dx10Header::with_dxgi_format`: also re-picks the alpha mode -/
  | withDxgiFormat (c : Nat)
  /-- `Dx10Header::with_resource_dimension` -/
  | withResourceDimension (r : ResDim)
  /-- `Dx10Header::with_misc_flags` -/
  | withMiscFlags (m : Nat)
  /-- `Dx10Header::with_array_size` -/
  | withArraySize (a : Nat)
  /-- `Dx10Header::with_alpha_mode` -/
  | withAlphaMode (a : AlphaMode)
deriving DecidableEq, Repr, Inhabited

/-- the arguments are what the Rust types can hold (`u32`, `NonZeroU32`, `u8`, a valid `DxgiFormat`, a pixel
format that is not the `DX10` marker) -/
def StructOp.InRange : StructOp → Prop
  | .withSize w h => w < U32 ∧ h < U32
  | .withDimensions w h d => w < U32 ∧ h < U32 ∧ optLt d U32
  | .withMipmapCount m => 1 ≤ m ∧ m < U32
  | .withCubeMapFaces f => f < 256
  | .withPixelFormat p => p.WF
  | .withDxgiFormat c => dxgiValid c = true
  | .withResourceDimension _ => True
  | .withMiscFlags m => m < U32
  | .withArraySize a => a < U32
  | .withAlphaMode _ => True

instance (op : StructOp) : Decidable op.InRange := by
  cases op <;> unfold StructOp.InRange <;> exact inferInstance

/-- one setter of `Dx9Header`; `none` = the struct has no such method -/
def Dx9Header.applyStructOp (x : Dx9Header) : StructOp → Option Dx9Header
  | .withSize w h => some { x with width := w, height := h, depth := none }
  | .withDimensions w h d => some { x with width := w, height := h, depth := d }
  | .withMipmapCount m => some { x with mipmapCount := m }
  | .withCubeMapFaces f =>
    -- `(self.caps2 & !Caps2::CUBE_MAP_ALL_FACES) | Caps2::CUBE_MAP | Caps2::from(faces)`; `!` keeps known bits only
    some { x with caps2 := (x.caps2 &&& (CAPS2_KNOWN - CAPS2_ALL_FACES)) ||| CAPS2_CUBE_MAP ||| ((f % 64) <<< 10) }
  | .withPixelFormat p => some { x with pixelFormat := p }
  | _ => none

/-- one setter of `Dx10Header`; `none` = the struct has no such method -/
def Dx10Header.applyStructOp (x : Dx10Header) : StructOp → Option Dx10Header
  | .withSize w h => some { x with width := w, height := h, depth := none }
  | .withDimensions w h d => some { x with width := w, height := h, depth := d }
  | .withMipmapCount m => some { x with mipmapCount := m }
  | .withDxgiFormat c => some { x with dxgiFormat := c, alphaMode := pickAlphaMode c }
  | .withResourceDimension r => some { x with resourceDimension := r }
  | .withMiscFlags m => some { x with miscFlag := m }
  | .withArraySize a => some { x with arraySize := a }
  | .withAlphaMode a => some { x with alphaMode := a }
  | _ => none

def Header.applyStructOp (h : Header) (op : StructOp) : Option Header :=
  match h with
  | .dx9 x => (x.applyStructOp op).map .dx9
  | .dx10 x => (x.applyStructOp op).map .dx10

/-- a chain of struct-level setters -/
def Header.applyStructOps (h : Header) : List StructOp → Option Header
  | [] => some h
  | op :: ops =>
    match h.applyStructOp op with
    | none => none
    | some h' => h'.applyStructOps ops

/-! ### DX9 <-> DX10 -/

/-- `Dx9Header::alpha_mode` -/
def Dx9Header.alphaMode (x : Dx9Header) : AlphaMode :=
  match x.pixelFormat with
  | .fourCC c => if c = FOURCC_DXT2 ∨ c = FOURCC_DXT4 then .premultiplied else .unknown
  | .mask _ => .unknown

/-- `caps2.contains(CUBE_MAP_ALL_FACES)` (bits 10..15 all set) -/
def hasAllFaces (caps2 : Nat) : Bool := cubeFacesOfCaps2 caps2 == 63

/-- the format part of `Dx9Header::to_dx10` -/
def Dx9PixelFormat.toDxgi? : Dx9PixelFormat → Option Nat
  | .fourCC c =>
    if c = FOURCC_DXT2 then some DXGI_BC2_UNORM
    else if c = FOURCC_DXT4 then some DXGI_BC3_UNORM
    else fourCCToDxgi c
  | .mask m => maskedToDxgi m

/-- `Dx9Header::to_dx10` -/
def Dx9Header.toDx10 (x : Dx9Header) : Option Dx10Header :=
  match x.pixelFormat.toDxgi? with
  | none => none
  | some dxgi =>
    if bitSet x.caps2 CAPS2_CUBE_MAP && !hasAllFaces x.caps2 then none else
    some { height := x.height, width := x.width, depth := x.depth, mipmapCount := x.mipmapCount,
           dxgiFormat := dxgi,
           resourceDimension := if bitSet x.caps2 CAPS2_VOLUME then .tex3D else .tex2D,
           miscFlag := if bitSet x.caps2 CAPS2_CUBE_MAP then MISC_TEXTURE_CUBE else 0,
           arraySize := 1, alphaMode := x.alphaMode }

/-- the local `to_dx9_format` of `Dx10Header::to_dx9` -/
def toDx9Format (dxgi : Nat) (alpha : AlphaMode) : Option Dx9PixelFormat :=
  let lin := dxgiToLinear dxgi
  if alpha = .premultiplied ∧ lin = DXGI_BC2_UNORM then some (.fourCC FOURCC_DXT2)
  else if alpha = .premultiplied ∧ lin = DXGI_BC3_UNORM then some (.fourCC FOURCC_DXT4)
  else
    match dxgiToFourCC lin with
    | some c => some (.fourCC c)
    | none => (dxgiToMasked lin).map .mask

/-- `Dx10Header::to_dx9` -/
def Dx10Header.toDx9 (x : Dx10Header) : Option Dx9Header :=
  if x.arraySize ≠ 1 then none else
  if bitSet x.miscFlag MISC_TEXTURE_CUBE && x.resourceDimension != .tex2D then none else
  let c0 := if x.resourceDimension = .tex3D then CAPS2_VOLUME else 0
  let caps2 := if bitSet x.miscFlag MISC_TEXTURE_CUBE then c0 ||| (CAPS2_CUBE_MAP ||| CAPS2_ALL_FACES) else c0
  (toDx9Format x.dxgiFormat x.alphaMode).map fun p =>
    { height := x.height, width := x.width, depth := x.depth, mipmapCount := x.mipmapCount,
      caps2, pixelFormat := p }

/-- `Header::to_dx9` -/
def Header.toDx9 : Header → Option Dx9Header
  | .dx9 x => some x
  | .dx10 x => x.toDx9
/-- `Header::to_dx10` -/
def Header.toDx10 : Header → Option Dx10Header
  | .dx9 x => x.toDx10
  | .dx10 x => some x

end Dds
