/-
Pinned format tables of src/header.rs (`DxgiFormat`), src/pixel.rs (`TryFrom<DxgiFormat> for PixelInfo`,
`From<Format> for PixelInfo`, `PixelInfo::from_header`), src/detect.rs (`dxgi_format_to_supported`,
`four_cc_to_dxgi`, `dxgi_to_four_cc`, `four_cc_to_supported`, `KNOWN_PIXEL_FORMATS`, `special_cases`)
and src/format.rs (`TryFrom<Format> for DxgiFormat / FourCC / MaskPixelFormat / Dx9PixelFormat`),
and on top of them the `Header` constructors and `to_dx9` / `to_dx10`.

The tables are literal data: they do not follow the source.  The correspondence run compares
every row with the implementation (case kinds TD / TF / TM of C09: all codes 0..300, every known
four CC and 0..129, every `Format`), so a change of a table in the crate shows up as a
disagreement, and the theorems of `Theorems/C09.lean` (`dx_conversion_*`) are statements about
these pinned rows.
-/
import DdsModel.Header
import DdsModel.FormatEnum
namespace Dds

/-- `impl TryFrom<Format> for DxgiFormat` -/
def Format.toDxgi : Format → Option Nat
  | .R8G8B8A8_UNORM => some 28
  | .R8G8B8A8_SNORM => some 31
  | .B8G8R8A8_UNORM => some 87
  | .B8G8R8X8_UNORM => some 88
  | .B5G6R5_UNORM => some 85
  | .B5G5R5A1_UNORM => some 86
  | .B4G4R4A4_UNORM => some 115
  | .A4B4G4R4_UNORM => some 191
  | .R8_SNORM => some 63
  | .R8_UNORM => some 61
  | .R8G8_UNORM => some 49
  | .R8G8_SNORM => some 51
  | .A8_UNORM => some 65
  | .R16_UNORM => some 56
  | .R16_SNORM => some 58
  | .R16G16_UNORM => some 35
  | .R16G16_SNORM => some 37
  | .R16G16B16A16_UNORM => some 11
  | .R16G16B16A16_SNORM => some 13
  | .R10G10B10A2_UNORM => some 24
  | .R11G11B10_FLOAT => some 26
  | .R9G9B9E5_SHAREDEXP => some 67
  | .R16_FLOAT => some 54
  | .R16G16_FLOAT => some 34
  | .R16G16B16A16_FLOAT => some 10
  | .R32_FLOAT => some 41
  | .R32G32_FLOAT => some 16
  | .R32G32B32_FLOAT => some 6
  | .R32G32B32A32_FLOAT => some 2
  | .R10G10B10_XR_BIAS_A2_UNORM => some 89
  | .AYUV => some 100
  | .Y410 => some 101
  | .Y416 => some 102
  | .R1_UNORM => some 66
  | .R8G8_B8G8_UNORM => some 68
  | .G8R8_G8B8_UNORM => some 69
  | .YUY2 => some 107
  | .Y210 => some 108
  | .Y216 => some 109
  | .NV12 => some 103
  | .P010 => some 104
  | .P016 => some 105
  | .BC1_UNORM => some 71
  | .BC2_UNORM => some 74
  | .BC3_UNORM => some 77
  | .BC4_UNORM => some 80
  | .BC4_SNORM => some 81
  | .BC5_UNORM => some 83
  | .BC5_SNORM => some 84
  | .BC6H_UF16 => some 95
  | .BC6H_SF16 => some 96
  | .BC7_UNORM => some 98
  | .ASTC_4X4_UNORM => some 134
  | .ASTC_5X4_UNORM => some 138
  | .ASTC_5X5_UNORM => some 142
  | .ASTC_6X5_UNORM => some 146
  | .ASTC_6X6_UNORM => some 150
  | .ASTC_8X5_UNORM => some 154
  | .ASTC_8X6_UNORM => some 158
  | .ASTC_8X8_UNORM => some 162
  | .ASTC_10X5_UNORM => some 166
  | .ASTC_10X6_UNORM => some 170
  | .ASTC_10X8_UNORM => some 174
  | .ASTC_10X10_UNORM => some 178
  | .ASTC_12X10_UNORM => some 182
  | .ASTC_12X12_UNORM => some 186
  | .BC3_UNORM_NORMAL => some 77
  | _ => none

/-- `impl TryFrom<Format> for FourCC` -/
def Format.toFourCC : Format → Option Nat
  | .R8G8_B8G8_UNORM => some FOURCC_RGBG
  | .G8R8_G8B8_UNORM => some FOURCC_GRGB
  | .UYVY => some FOURCC_UYVY
  | .YUY2 => some FOURCC_YUY2
  | .BC1_UNORM => some FOURCC_DXT1
  | .BC2_UNORM => some FOURCC_DXT3
  | .BC2_UNORM_PREMULTIPLIED_ALPHA => some FOURCC_DXT2
  | .BC3_UNORM => some FOURCC_DXT5
  | .BC3_UNORM_PREMULTIPLIED_ALPHA => some FOURCC_DXT4
  | .BC4_UNORM => some FOURCC_BC4U
  | .BC4_SNORM => some FOURCC_BC4S
  | .BC5_UNORM => some FOURCC_BC5U
  | .BC5_SNORM => some FOURCC_BC5S
  | .BC3_UNORM_RXGB => some FOURCC_RXGB
  | _ => none

/-- one row per valid `DxgiFormat` code: `PixelInfo::try_from`, `to_linear`, `has_alpha`,
`detect::dxgi_format_to_supported` -/
structure DxgiRow where
  code : Nat
  px : Option PixelInfo
  linear : Nat
  hasAlpha : Bool
  supported : Option Format
deriving Repr, Inhabited

def dxgiRows : List DxgiRow := [
  ⟨0, none, 0, false, none⟩,
  ⟨1, some (.fixed 16), 1, true, some .R32G32B32A32_FLOAT⟩,
  ⟨2, some (.fixed 16), 2, true, some .R32G32B32A32_FLOAT⟩,
  ⟨3, some (.fixed 16), 3, true, none⟩,
  ⟨4, some (.fixed 16), 4, true, none⟩,
  ⟨5, some (.fixed 12), 5, false, some .R32G32B32_FLOAT⟩,
  ⟨6, some (.fixed 12), 6, false, some .R32G32B32_FLOAT⟩,
  ⟨7, some (.fixed 12), 7, false, none⟩,
  ⟨8, some (.fixed 12), 8, false, none⟩,
  ⟨9, some (.fixed 8), 9, true, some .R16G16B16A16_UNORM⟩,
  ⟨10, some (.fixed 8), 10, true, some .R16G16B16A16_FLOAT⟩,
  ⟨11, some (.fixed 8), 11, true, some .R16G16B16A16_UNORM⟩,
  ⟨12, some (.fixed 8), 12, true, none⟩,
  ⟨13, some (.fixed 8), 13, true, some .R16G16B16A16_SNORM⟩,
  ⟨14, some (.fixed 8), 14, true, none⟩,
  ⟨15, some (.fixed 8), 15, false, some .R32G32_FLOAT⟩,
  ⟨16, some (.fixed 8), 16, false, some .R32G32_FLOAT⟩,
  ⟨17, some (.fixed 8), 17, false, none⟩,
  ⟨18, some (.fixed 8), 18, false, none⟩,
  ⟨19, some (.fixed 8), 19, false, none⟩,
  ⟨20, some (.fixed 8), 20, false, none⟩,
  ⟨21, some (.fixed 8), 21, false, none⟩,
  ⟨22, some (.fixed 8), 22, false, none⟩,
  ⟨23, some (.fixed 4), 23, true, some .R10G10B10A2_UNORM⟩,
  ⟨24, some (.fixed 4), 24, true, some .R10G10B10A2_UNORM⟩,
  ⟨25, some (.fixed 4), 25, true, none⟩,
  ⟨26, some (.fixed 4), 26, false, some .R11G11B10_FLOAT⟩,
  ⟨27, some (.fixed 4), 27, true, some .R8G8B8A8_UNORM⟩,
  ⟨28, some (.fixed 4), 28, true, some .R8G8B8A8_UNORM⟩,
  ⟨29, some (.fixed 4), 28, true, some .R8G8B8A8_UNORM⟩,
  ⟨30, some (.fixed 4), 30, true, none⟩,
  ⟨31, some (.fixed 4), 31, true, some .R8G8B8A8_SNORM⟩,
  ⟨32, some (.fixed 4), 32, true, none⟩,
  ⟨33, some (.fixed 4), 33, false, some .R16G16_UNORM⟩,
  ⟨34, some (.fixed 4), 34, false, some .R16G16_FLOAT⟩,
  ⟨35, some (.fixed 4), 35, false, some .R16G16_UNORM⟩,
  ⟨36, some (.fixed 4), 36, false, none⟩,
  ⟨37, some (.fixed 4), 37, false, some .R16G16_SNORM⟩,
  ⟨38, some (.fixed 4), 38, false, none⟩,
  ⟨39, some (.fixed 4), 39, false, some .R32_FLOAT⟩,
  ⟨40, some (.fixed 4), 40, false, none⟩,
  ⟨41, some (.fixed 4), 41, false, some .R32_FLOAT⟩,
  ⟨42, some (.fixed 4), 42, false, none⟩,
  ⟨43, some (.fixed 4), 43, false, none⟩,
  ⟨44, some (.fixed 4), 44, false, none⟩,
  ⟨45, some (.fixed 4), 45, false, none⟩,
  ⟨46, some (.fixed 4), 46, false, none⟩,
  ⟨47, some (.fixed 4), 47, false, none⟩,
  ⟨48, some (.fixed 2), 48, false, none⟩,
  ⟨49, some (.fixed 2), 49, false, some .R8G8_UNORM⟩,
  ⟨50, some (.fixed 2), 50, false, none⟩,
  ⟨51, some (.fixed 2), 51, false, some .R8G8_SNORM⟩,
  ⟨52, some (.fixed 2), 52, false, none⟩,
  ⟨53, some (.fixed 2), 53, false, some .R16_UNORM⟩,
  ⟨54, some (.fixed 2), 54, false, some .R16_FLOAT⟩,
  ⟨55, some (.fixed 2), 55, false, none⟩,
  ⟨56, some (.fixed 2), 56, false, some .R16_UNORM⟩,
  ⟨57, some (.fixed 2), 57, false, none⟩,
  ⟨58, some (.fixed 2), 58, false, some .R16_SNORM⟩,
  ⟨59, some (.fixed 2), 59, false, none⟩,
  ⟨60, some (.fixed 1), 60, false, some .R8_UNORM⟩,
  ⟨61, some (.fixed 1), 61, false, some .R8_UNORM⟩,
  ⟨62, some (.fixed 1), 62, false, none⟩,
  ⟨63, some (.fixed 1), 63, false, some .R8_SNORM⟩,
  ⟨64, some (.fixed 1), 64, false, none⟩,
  ⟨65, some (.fixed 1), 65, true, some .A8_UNORM⟩,
  ⟨66, some (.block 1 8 1), 66, false, some .R1_UNORM⟩,
  ⟨67, some (.fixed 4), 67, false, some .R9G9B9E5_SHAREDEXP⟩,
  ⟨68, some (.block 4 2 1), 68, false, some .R8G8_B8G8_UNORM⟩,
  ⟨69, some (.block 4 2 1), 69, false, some .G8R8_G8B8_UNORM⟩,
  ⟨70, some (.block 8 4 4), 70, true, some .BC1_UNORM⟩,
  ⟨71, some (.block 8 4 4), 71, true, some .BC1_UNORM⟩,
  ⟨72, some (.block 8 4 4), 71, true, some .BC1_UNORM⟩,
  ⟨73, some (.block 16 4 4), 73, true, some .BC2_UNORM⟩,
  ⟨74, some (.block 16 4 4), 74, true, some .BC2_UNORM⟩,
  ⟨75, some (.block 16 4 4), 74, true, some .BC2_UNORM⟩,
  ⟨76, some (.block 16 4 4), 76, true, some .BC3_UNORM⟩,
  ⟨77, some (.block 16 4 4), 77, true, some .BC3_UNORM⟩,
  ⟨78, some (.block 16 4 4), 77, true, some .BC3_UNORM⟩,
  ⟨79, some (.block 8 4 4), 79, false, some .BC4_UNORM⟩,
  ⟨80, some (.block 8 4 4), 80, false, some .BC4_UNORM⟩,
  ⟨81, some (.block 8 4 4), 81, false, some .BC4_SNORM⟩,
  ⟨82, some (.block 16 4 4), 82, false, some .BC5_UNORM⟩,
  ⟨83, some (.block 16 4 4), 83, false, some .BC5_UNORM⟩,
  ⟨84, some (.block 16 4 4), 84, false, some .BC5_SNORM⟩,
  ⟨85, some (.fixed 2), 85, false, some .B5G6R5_UNORM⟩,
  ⟨86, some (.fixed 2), 86, true, some .B5G5R5A1_UNORM⟩,
  ⟨87, some (.fixed 4), 87, true, some .B8G8R8A8_UNORM⟩,
  ⟨88, some (.fixed 4), 88, false, some .B8G8R8X8_UNORM⟩,
  ⟨89, some (.fixed 4), 89, true, some .R10G10B10_XR_BIAS_A2_UNORM⟩,
  ⟨90, some (.fixed 4), 90, true, some .B8G8R8A8_UNORM⟩,
  ⟨91, some (.fixed 4), 87, true, some .B8G8R8A8_UNORM⟩,
  ⟨92, some (.fixed 4), 92, false, some .B8G8R8X8_UNORM⟩,
  ⟨93, some (.fixed 4), 88, false, some .B8G8R8X8_UNORM⟩,
  ⟨94, some (.block 16 4 4), 94, false, some .BC6H_UF16⟩,
  ⟨95, some (.block 16 4 4), 95, false, some .BC6H_UF16⟩,
  ⟨96, some (.block 16 4 4), 96, false, some .BC6H_SF16⟩,
  ⟨97, some (.block 16 4 4), 97, true, some .BC7_UNORM⟩,
  ⟨98, some (.block 16 4 4), 98, true, some .BC7_UNORM⟩,
  ⟨99, some (.block 16 4 4), 98, true, some .BC7_UNORM⟩,
  ⟨100, some (.fixed 4), 100, true, some .AYUV⟩,
  ⟨101, some (.fixed 4), 101, false, some .Y410⟩,
  ⟨102, some (.fixed 8), 102, false, some .Y416⟩,
  ⟨103, some (.biPlanar 1 2 2 2), 103, false, some .NV12⟩,
  ⟨104, some (.biPlanar 2 4 2 2), 104, false, some .P010⟩,
  ⟨105, some (.biPlanar 2 4 2 2), 105, false, some .P016⟩,
  ⟨106, some (.biPlanar 1 2 2 2), 106, false, none⟩,
  ⟨107, some (.block 4 2 1), 107, false, some .YUY2⟩,
  ⟨108, some (.block 8 2 1), 108, false, some .Y210⟩,
  ⟨109, some (.block 8 2 1), 109, false, some .Y216⟩,
  ⟨110, some (.biPlanar 1 2 4 1), 110, false, none⟩,
  ⟨111, some (.fixed 1), 111, true, none⟩,
  ⟨112, some (.fixed 1), 112, true, none⟩,
  ⟨113, some (.fixed 1), 113, false, none⟩,
  ⟨114, some (.fixed 2), 114, true, none⟩,
  ⟨115, some (.fixed 2), 115, true, some .B4G4R4A4_UNORM⟩,
  ⟨130, some (.biPlanar 1 2 2 1), 130, false, none⟩,
  ⟨131, none, 131, false, none⟩,
  ⟨132, some (.fixed 4), 132, false, none⟩,
  ⟨133, some (.block 16 4 4), 133, true, some .ASTC_4X4_UNORM⟩,
  ⟨134, some (.block 16 4 4), 134, true, some .ASTC_4X4_UNORM⟩,
  ⟨135, some (.block 16 4 4), 134, true, some .ASTC_4X4_UNORM⟩,
  ⟨137, some (.block 16 5 4), 137, true, some .ASTC_5X4_UNORM⟩,
  ⟨138, some (.block 16 5 4), 138, true, some .ASTC_5X4_UNORM⟩,
  ⟨139, some (.block 16 5 4), 138, true, some .ASTC_5X4_UNORM⟩,
  ⟨141, some (.block 16 5 5), 141, true, some .ASTC_5X5_UNORM⟩,
  ⟨142, some (.block 16 5 5), 142, true, some .ASTC_5X5_UNORM⟩,
  ⟨143, some (.block 16 5 5), 142, true, some .ASTC_5X5_UNORM⟩,
  ⟨145, some (.block 16 6 5), 145, true, some .ASTC_6X5_UNORM⟩,
  ⟨146, some (.block 16 6 5), 146, true, some .ASTC_6X5_UNORM⟩,
  ⟨147, some (.block 16 6 5), 146, true, some .ASTC_6X5_UNORM⟩,
  ⟨149, some (.block 16 6 6), 149, true, some .ASTC_6X6_UNORM⟩,
  ⟨150, some (.block 16 6 6), 150, true, some .ASTC_6X6_UNORM⟩,
  ⟨151, some (.block 16 6 6), 150, true, some .ASTC_6X6_UNORM⟩,
  ⟨153, some (.block 16 8 5), 153, true, some .ASTC_8X5_UNORM⟩,
  ⟨154, some (.block 16 8 5), 154, true, some .ASTC_8X5_UNORM⟩,
  ⟨155, some (.block 16 8 5), 154, true, some .ASTC_8X5_UNORM⟩,
  ⟨157, some (.block 16 8 6), 157, true, some .ASTC_8X6_UNORM⟩,
  ⟨158, some (.block 16 8 6), 158, true, some .ASTC_8X6_UNORM⟩,
  ⟨159, some (.block 16 8 6), 158, true, some .ASTC_8X6_UNORM⟩,
  ⟨161, some (.block 16 8 8), 161, true, some .ASTC_8X8_UNORM⟩,
  ⟨162, some (.block 16 8 8), 162, true, some .ASTC_8X8_UNORM⟩,
  ⟨163, some (.block 16 8 8), 162, true, some .ASTC_8X8_UNORM⟩,
  ⟨165, some (.block 16 10 5), 165, true, some .ASTC_10X5_UNORM⟩,
  ⟨166, some (.block 16 10 5), 166, true, some .ASTC_10X5_UNORM⟩,
  ⟨167, some (.block 16 10 5), 166, true, some .ASTC_10X5_UNORM⟩,
  ⟨169, some (.block 16 10 6), 169, true, some .ASTC_10X6_UNORM⟩,
  ⟨170, some (.block 16 10 6), 170, true, some .ASTC_10X6_UNORM⟩,
  ⟨171, some (.block 16 10 6), 170, true, some .ASTC_10X6_UNORM⟩,
  ⟨173, some (.block 16 10 8), 173, true, some .ASTC_10X8_UNORM⟩,
  ⟨174, some (.block 16 10 8), 174, true, some .ASTC_10X8_UNORM⟩,
  ⟨175, some (.block 16 10 8), 174, true, some .ASTC_10X8_UNORM⟩,
  ⟨177, some (.block 16 10 10), 177, true, some .ASTC_10X10_UNORM⟩,
  ⟨178, some (.block 16 10 10), 178, true, some .ASTC_10X10_UNORM⟩,
  ⟨179, some (.block 16 10 10), 178, true, some .ASTC_10X10_UNORM⟩,
  ⟨181, some (.block 16 12 10), 181, true, some .ASTC_12X10_UNORM⟩,
  ⟨182, some (.block 16 12 10), 182, true, some .ASTC_12X10_UNORM⟩,
  ⟨183, some (.block 16 12 10), 182, true, some .ASTC_12X10_UNORM⟩,
  ⟨185, some (.block 16 12 12), 185, true, some .ASTC_12X12_UNORM⟩,
  ⟨186, some (.block 16 12 12), 186, true, some .ASTC_12X12_UNORM⟩,
  ⟨187, some (.block 16 12 12), 186, true, some .ASTC_12X12_UNORM⟩,
  ⟨191, some (.fixed 2), 191, true, some .A4B4G4R4_UNORM⟩]

def dxgiRow? (c : Nat) : Option DxgiRow := dxgiRows.find? (·.code == c)

/-- `impl TryFrom<DxgiFormat> for PixelInfo` -/
def dxgiPixelInfo (c : Nat) : Option PixelInfo := (dxgiRow? c).bind (·.px)
/-- `DxgiFormat::to_linear` -/
def dxgiToLinear (c : Nat) : Nat := ((dxgiRow? c).map (·.linear)).getD c
/-- `DxgiFormat::has_alpha` -/
def dxgiHasAlpha (c : Nat) : Bool := ((dxgiRow? c).map (·.hasAlpha)).getD false
/-- `detect::dxgi_format_to_supported` -/
def dxgiToSupported (c : Nat) : Option Format := (dxgiRow? c).bind (·.supported)

def DXGI_BC2_UNORM : Nat := 74
def DXGI_BC3_UNORM : Nat := 77

/-- `detect::four_cc_to_dxgi` -/
def fourCCToDxgiTable : List (Nat × Nat) :=
  [(FOURCC_DXT1, 71), (FOURCC_DXT3, 74), (FOURCC_DXT5, 77),
   (FOURCC_ATI1, 80), (FOURCC_BC4U, 80), (FOURCC_BC4S, 81),
   (FOURCC_ATI2, 83), (FOURCC_BC5U, 83), (FOURCC_BC5S, 84),
   (FOURCC_RGBG, 68), (FOURCC_GRGB, 69), (FOURCC_YUY2, 107),
   (36, 11), (110, 13), (111, 54), (112, 34), (113, 10), (114, 41), (115, 16), (116, 2)]
def fourCCToDxgi (c : Nat) : Option Nat := fourCCToDxgiTable.lookup c

/-- `detect::dxgi_to_four_cc` -/
def dxgiToFourCCTable : List (Nat × Nat) :=
  [(71, FOURCC_DXT1), (74, FOURCC_DXT3), (77, FOURCC_DXT5), (80, FOURCC_BC4U), (81, FOURCC_BC4S),
   (83, FOURCC_BC5U), (84, FOURCC_BC5S), (68, FOURCC_RGBG), (69, FOURCC_GRGB), (107, FOURCC_YUY2),
   (11, 36), (13, 110), (54, 111), (34, 112), (10, 113), (41, 114), (16, 115), (2, 116)]
def dxgiToFourCC (d : Nat) : Option Nat := dxgiToFourCCTable.lookup d

/-- `detect::four_cc_to_supported` -/
def fourCCToSupported (c : Nat) : Option Format :=
  match fourCCToDxgi c with
  | some d => dxgiToSupported d
  | none =>
    if c = FOURCC_DXT2 then some .BC2_UNORM_PREMULTIPLIED_ALPHA
    else if c = FOURCC_DXT4 then some .BC3_UNORM_PREMULTIPLIED_ALPHA
    else if c = FOURCC_RXGB then some .BC3_UNORM_RXGB
    else if c = FOURCC_UYVY then some .UYVY
    else none

private def pf (flags : Nat) (bc : RgbBitCount) (r g b a : Nat) : MaskPixelFormat :=
  { flags, rgbBitCount := bc, rMask := r, gMask := g, bMask := b, aMask := a }

/-- `detect::KNOWN_PIXEL_FORMATS` -/
def knownPixelFormats : List (MaskPixelFormat × Option Nat × Format) :=
  [ (pf PF_ALPHA .c8 0 0 0 0xFF, some 65, .A8_UNORM),
    (pf PF_LUMINANCE .c8 0xFF 0 0 0, some 61, .R8_UNORM),
    (pf (PF_RGB ||| PF_LUMINANCE) .c8 0xFF 0 0 0, some 61, .R8_UNORM),
    (pf PF_LUMINANCE .c16 0xFFFF 0 0 0, some 56, .R16_UNORM),
    (pf PF_RGB .c16 0xF800 0x07E0 0x001F 0, some 85, .B5G6R5_UNORM),
    (pf PF_RGB .c32 0xFF0000 0xFF00 0xFF 0, some 88, .B8G8R8X8_UNORM),
    (pf PF_RGB .c32 0xFFFF 0xFFFF0000 0 0, some 35, .R16G16_UNORM),
    (pf PF_RGB .c16 0xFF 0xFF00 0 0, some 49, .R8G8_UNORM),
    (pf PF_RGB .c24 0xFF0000 0xFF00 0xFF 0, none, .B8G8R8_UNORM),
    (pf PF_RGB .c24 0xFF 0xFF00 0xFF0000 0, none, .R8G8B8_UNORM),
    (pf (PF_RGB ||| PF_ALPHAPIXELS) .c16 0xF00 0xF0 0xF 0xF000, some 115, .B4G4R4A4_UNORM),
    (pf (PF_RGB ||| PF_ALPHAPIXELS) .c16 0x7C00 0x3E0 0x1F 0x8000, some 86, .B5G5R5A1_UNORM),
    (pf (PF_RGB ||| PF_ALPHAPIXELS) .c32 0xFF0000 0xFF00 0xFF 0xFF000000, some 87, .B8G8R8A8_UNORM),
    (pf (PF_RGB ||| PF_ALPHAPIXELS) .c32 0xFF 0xFF00 0xFF0000 0xFF000000, some 28, .R8G8B8A8_UNORM),
    (pf (PF_RGB ||| PF_ALPHAPIXELS) .c32 0x3FF00000 0xFFC00 0x3FF 0xC0000000, some 24,
      .R10G10B10A2_UNORM),
    (pf PF_BUMP_DUDV .c32 0xFF 0xFF00 0xFF0000 0xFF000000, some 31, .R8G8B8A8_SNORM),
    (pf PF_BUMP_DUDV .c16 0xFF 0xFF00 0 0, some 51, .R8G8_SNORM),
    (pf PF_BUMP_DUDV .c32 0xFFFF 0xFFFF0000 0 0, some 37, .R16G16_SNORM),
    (pf (PF_LUMINANCE ||| PF_ALPHAPIXELS) .c16 0xFF 0 0 0xFF00, some 49, .R8G8_UNORM) ]

/-- `detect::masked_to_dxgi` -/
def maskedToDxgi (m : MaskPixelFormat) : Option Nat :=
  knownPixelFormats.findSome? fun (p, d, _) => if p = m then d else none
/-- `detect::masked_to_supported` -/
def maskedToSupported (m : MaskPixelFormat) : Option Format :=
  knownPixelFormats.findSome? fun (p, _, f) => if p = m then some f else none
/-- `detect::dxgi_to_masked` -/
def dxgiToMasked (d : Nat) : Option MaskPixelFormat :=
  knownPixelFormats.findSome? fun (p, d', _) => if d' = some d then some p else none
/-- `detect::supported_to_masked` -/
def Format.toMask (f : Format) : Option MaskPixelFormat :=
  knownPixelFormats.findSome? fun (p, _, f') => if f' = f then some p else none

/-- `impl From<Format> for PixelInfo`; `none` = the `unwrap()`s panic -/
def Format.pixelInfo (f : Format) : Option PixelInfo :=
  match f with
  | .R8G8B8_UNORM | .B8G8R8_UNORM => some (.fixed 3)
  | .UYVY => some (.block 4 2 1)
  | .BC2_UNORM_PREMULTIPLIED_ALPHA | .BC3_UNORM_PREMULTIPLIED_ALPHA | .BC3_UNORM_RXGB =>
    some (.block 16 4 4)
  | f => f.toDxgi.bind dxgiPixelInfo

/-- `PixelInfo::from_header` (the `Err` cases are `none`) -/
def pixelInfoOf : Header → Option PixelInfo
  | .dx9 x =>
    match x.pixelFormat with
    | .fourCC c => (fourCCToSupported c).bind Format.pixelInfo
    | .mask m => some (.fixed (m.rgbBitCount.toU32 / 8))
  | .dx10 x => dxgiPixelInfo x.dxgiFormat

/-! ### Constructors -/

/-- `impl TryFrom<Format> for Dx9PixelFormat` -/
def Format.toDx9PixelFormat (f : Format) : Option Dx9PixelFormat :=
  match f.toFourCC with
  | some c => some (.fourCC c)
  | none => f.toMask.map .mask

/-- `Dx10Header::pick_alpha_mode` -/
def pickAlphaMode (dxgi : Nat) : AlphaMode := if dxgiHasAlpha dxgi then .straight else .unknown

inductive CtorKind where
  | image | volume | cubeMap
deriving DecidableEq, Repr, Inhabited

/-- `Dx10Header::{new_image,new_volume,new_cube_map}` -/
def Dx10Header.new (k : CtorKind) (w h d dxgi : Nat) : Dx10Header :=
  { height := h, width := w, depth := (match k with | .volume => some d | _ => none),
    mipmapCount := 1, dxgiFormat := dxgi,
    resourceDimension := (match k with | .volume => .tex3D | _ => .tex2D),
    miscFlag := (match k with | .cubeMap => MISC_TEXTURE_CUBE | _ => 0),
    arraySize := 1, alphaMode := pickAlphaMode dxgi }

/-- `Dx9Header::{new_image,new_volume,new_cube_map}` -/
def Dx9Header.new (k : CtorKind) (w h d : Nat) (p : Dx9PixelFormat) : Dx9Header :=
  { height := h, width := w, depth := (match k with | .volume => some d | _ => none),
    mipmapCount := 1,
    caps2 := (match k with
              | .image => 0
              | .volume => CAPS2_VOLUME
              | .cubeMap => CAPS2_CUBE_MAP ||| CAPS2_ALL_FACES),
    pixelFormat := p }

/-- `Header::{new_image,new_volume,new_cube_map}`; `none` = the `unwrap()` panics -/
def Header.new (k : CtorKind) (w h d : Nat) (f : Format) : Option Header :=
  match f.toDxgi with
  | some dxgi => some (.dx10 (Dx10Header.new k w h d dxgi))
  | none => f.toDx9PixelFormat.map fun p => .dx9 (Dx9Header.new k w h d p)

/-! ### Builder methods of `Dx9Header` / `Dx10Header` (the struct-level setters) -/

/-- the bits `bitflags` knows of `Caps2` (`!x` truncates to them) -/
def CAPS2_KNOWN : Nat := CAPS2_CUBE_MAP ||| CAPS2_ALL_FACES ||| CAPS2_VOLUME

inductive StructOp where
  /-- `with_size(Size)` of both structs: depth becomes `None` -/
  | withSize (w h : Nat)
  /-- `with_dimensions(w, h, depth)` of both structs -/
  | withDimensions (w h : Nat) (d : Option Nat)
  /-- `with_mipmap_count(NonZeroU32)` of both structs -/
  | withMipmapCount (m : Nat)
  /-- `Dx9Header::with_cube_map_faces(CubeMapFaces)`; the argument is the `u8` behind the flags -/
  | withCubeMapFaces (faces : Nat)
  /-- `Dx9Header::with_pixel_format` -/
  | withPixelFormat (p : Dx9PixelFormat)
  /-- `Dx10Header::with_dxgi_format`: also re-picks the alpha mode -/
  | withDxgiFormat (c : Nat)
  /-- `Dx10Header::with_resource_dimension` -/
  | withResourceDimension (r : ResDim)
  /-- `Dx10Header::with_misc_flags` -/
  | withMiscFlags (m : Nat)
  /-- `Dx10Header::with_array_size` -/
  | withArraySize (a : Nat)
  /-- `Dx10Header::with_alpha_mode` -/
  | withAlphaMode (a : AlphaMode)
deriving DecidableEq, Repr, Inhabited

/-- the arguments are what the Rust types can hold (`u32`, `NonZeroU32`, `u8`, a valid `DxgiFormat`, a pixel
format that is not the `DX10` marker) -/
def StructOp.InRange : StructOp → Prop
  | .withSize w h => w < U32 ∧ h < U32
  | .withDimensions w h d => w < U32 ∧ h < U32 ∧ optLt d U32
  | .withMipmapCount m => 1 ≤ m ∧ m < U32
  | .withCubeMapFaces f => f < 256
  | .withPixelFormat p => p.WF
  | .withDxgiFormat c => dxgiValid c = true
  | .withResourceDimension _ => True
  | .withMiscFlags m => m < U32
  | .withArraySize a => a < U32
  | .withAlphaMode _ => True

instance (op : StructOp) : Decidable op.InRange := by
  cases op <;> unfold StructOp.InRange <;> exact inferInstance

/-- one setter of `Dx9Header`; `none` = the struct has no such method -/
def Dx9Header.applyStructOp (x : Dx9Header) : StructOp → Option Dx9Header
  | .withSize w h => some { x with width := w, height := h, depth := none }
  | .withDimensions w h d => some { x with width := w, height := h, depth := d }
  | .withMipmapCount m => some { x with mipmapCount := m }
  | .withCubeMapFaces f =>
    -- `(self.caps2 & !Caps2::CUBE_MAP_ALL_FACES) | Caps2::CUBE_MAP | Caps2::from(faces)`; `!` keeps known bits only
    some { x with caps2 := (x.caps2 &&& (CAPS2_KNOWN - CAPS2_ALL_FACES)) ||| CAPS2_CUBE_MAP ||| ((f % 64) <<< 10) }
  | .withPixelFormat p => some { x with pixelFormat := p }
  | _ => none

/-- one setter of `Dx10Header`; `none` = the struct has no such method -/
def Dx10Header.applyStructOp (x : Dx10Header) : StructOp → Option Dx10Header
  | .withSize w h => some { x with width := w, height := h, depth := none }
  | .withDimensions w h d => some { x with width := w, height := h, depth := d }
  | .withMipmapCount m => some { x with mipmapCount := m }
  | .withDxgiFormat c => some { x with dxgiFormat := c, alphaMode := pickAlphaMode c }
  | .withResourceDimension r => some { x with resourceDimension := r }
  | .withMiscFlags m => some { x with miscFlag := m }
  | .withArraySize a => some { x with arraySize := a }
  | .withAlphaMode a => some { x with alphaMode := a }
  | _ => none

def Header.applyStructOp (h : Header) (op : StructOp) : Option Header :=
  match h with
  | .dx9 x => (x.applyStructOp op).map .dx9
  | .dx10 x => (x.applyStructOp op).map .dx10

/-- a chain of struct-level setters -/
def Header.applyStructOps (h : Header) : List StructOp → Option Header
  | [] => some h
  | op :: ops =>
    match h.applyStructOp op with
    | none => none
    | some h' => h'.applyStructOps ops

/-! ### DX9 <-> DX10 -/

/-- `Dx9Header::alpha_mode` -/
def Dx9Header.alphaMode (x : Dx9Header) : AlphaMode :=
  match x.pixelFormat with
  | .fourCC c => if c = FOURCC_DXT2 ∨ c = FOURCC_DXT4 then .premultiplied else .unknown
  | .mask _ => .unknown

/-- `caps2.contains(CUBE_MAP_ALL_FACES)` (bits 10..15 all set) -/
def hasAllFaces (caps2 : Nat) : Bool := cubeFacesOfCaps2 caps2 == 63

/-- the format part of `Dx9Header::to_dx10` -/
def Dx9PixelFormat.toDxgi? : Dx9PixelFormat → Option Nat
  | .fourCC c =>
    if c = FOURCC_DXT2 then some DXGI_BC2_UNORM
    else if c = FOURCC_DXT4 then some DXGI_BC3_UNORM
    else fourCCToDxgi c
  | .mask m => maskedToDxgi m

/-- `Dx9Header::to_dx10` -/
def Dx9Header.toDx10 (x : Dx9Header) : Option Dx10Header :=
  match x.pixelFormat.toDxgi? with
  | none => none
  | some dxgi =>
    if bitSet x.caps2 CAPS2_CUBE_MAP && !hasAllFaces x.caps2 then none else
    some { height := x.height, width := x.width, depth := x.depth, mipmapCount := x.mipmapCount,
           dxgiFormat := dxgi,
           resourceDimension := if bitSet x.caps2 CAPS2_VOLUME then .tex3D else .tex2D,
           miscFlag := if bitSet x.caps2 CAPS2_CUBE_MAP then MISC_TEXTURE_CUBE else 0,
           arraySize := 1, alphaMode := x.alphaMode }

/-- the local `to_dx9_format` of `Dx10Header::to_dx9` -/
def toDx9Format (dxgi : Nat) (alpha : AlphaMode) : Option Dx9PixelFormat :=
  let lin := dxgiToLinear dxgi
  if alpha = .premultiplied ∧ lin = DXGI_BC2_UNORM then some (.fourCC FOURCC_DXT2)
  else if alpha = .premultiplied ∧ lin = DXGI_BC3_UNORM then some (.fourCC FOURCC_DXT4)
  else
    match dxgiToFourCC lin with
    | some c => some (.fourCC c)
    | none => (dxgiToMasked lin).map .mask

/-- `Dx10Header::to_dx9` -/
def Dx10Header.toDx9 (x : Dx10Header) : Option Dx9Header :=
  if x.arraySize ≠ 1 then none else
  if bitSet x.miscFlag MISC_TEXTURE_CUBE && x.resourceDimension != .tex2D then none else
  let c0 := if x.resourceDimension = .tex3D then CAPS2_VOLUME else 0
  let caps2 := if bitSet x.miscFlag MISC_TEXTURE_CUBE then c0 ||| (CAPS2_CUBE_MAP ||| CAPS2_ALL_FACES) else c0
  (toDx9Format x.dxgiFormat x.alphaMode).map fun p =>
    { height := x.height, width := x.width, depth := x.depth, mipmapCount := x.mipmapCount,
      caps2, pixelFormat := p }

/-- `Header::to_dx9` -/
def Header.toDx9 : Header → Option Dx9Header
  | .dx9 x => some x
  | .dx10 x => x.toDx9
/-- `Header::to_dx10` -/
def Header.toDx10 : Header → Option Dx10Header
  | .dx9 x => x.toDx10
  | .dx10 x => some x

end Dds
