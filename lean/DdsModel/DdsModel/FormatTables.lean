/-
C19 — pinned format tables and the detection / metadata decision procedures.

Model of
  * src/header.rs   `DxgiFormat` (valid codes, names), `FourCC` constants, `MaskPixelFormat`,
                    `RgbBitCount`, `PixelFormatFlags` bit values
  * src/pixel.rs    `TryFrom<DxgiFormat> for PixelInfo`, `From<Format> for PixelInfo`,
                    `PixelInfo::from_header`, `PixelInfo::bits_per_pixel`
  * src/format.rs   `Format`, `Format::from_header`, `TryFrom<Format> for DxgiFormat / FourCC`,
                    `Format::color`, `Format::encoding_support`
  * src/detect.rs   `special_cases`, `dxgi_format_to_supported`, `four_cc_to_dxgi`,
                    `four_cc_to_supported`, `KNOWN_PIXEL_FORMATS`, `masked_to_supported`,
                    `supported_to_masked`
  * src/encode/encoder.rs  `Flags` (bit values incl. `DITHER_ALPHA = 0x16`), `Flags::exact_for`,
                    `Flags::get_dithering`, `EncoderSet::{new,new_bc,new_bi_planar,
                    encoding_support,pick_encoder}`
  * src/encode/mod.rs      `get_encoders`, `EncodingSupport::supports_size`, `Dithering`
  * src/encode/{uncompressed,sub_sampled,bi_planar,bc}.rs  the encoder lists (colour sets, flags,
                    which kind of body each encoder has)

The tables are PINNED: they are literal Lean data, never read from the Rust source.  They are
compared with the library exhaustively on every run (cases `M`, `H` of the C19 stream).
-/
import DdsModel.Layout
namespace Dds.C19
open Dds

/-- src/format.rs `Format` (73 variants, declaration order of the harness list) -/
inductive Format where
  | R8G8B8_UNORM | B8G8R8_UNORM | R8G8B8A8_UNORM | R8G8B8A8_SNORM
  | B8G8R8A8_UNORM | B8G8R8X8_UNORM | B5G6R5_UNORM | B5G5R5A1_UNORM
  | B4G4R4A4_UNORM | A4B4G4R4_UNORM | R8_SNORM | R8_UNORM
  | R8G8_UNORM | R8G8_SNORM | A8_UNORM | R16_UNORM
  | R16_SNORM | R16G16_UNORM | R16G16_SNORM | R16G16B16A16_UNORM
  | R16G16B16A16_SNORM | R10G10B10A2_UNORM | R11G11B10_FLOAT | R9G9B9E5_SHAREDEXP
  | R16_FLOAT | R16G16_FLOAT | R16G16B16A16_FLOAT | R32_FLOAT
  | R32G32_FLOAT | R32G32B32_FLOAT | R32G32B32A32_FLOAT | R10G10B10_XR_BIAS_A2_UNORM
  | AYUV | Y410 | Y416 | R1_UNORM
  | R8G8_B8G8_UNORM | G8R8_G8B8_UNORM | UYVY | YUY2
  | Y210 | Y216 | NV12 | P010
  | P016 | BC1_UNORM | BC2_UNORM | BC2_UNORM_PREMULTIPLIED_ALPHA
  | BC3_UNORM | BC3_UNORM_PREMULTIPLIED_ALPHA | BC4_UNORM | BC4_SNORM
  | BC5_UNORM | BC5_SNORM | BC6H_UF16 | BC6H_SF16
  | BC7_UNORM | ASTC_4X4_UNORM | ASTC_5X4_UNORM | ASTC_5X5_UNORM
  | ASTC_6X5_UNORM | ASTC_6X6_UNORM | ASTC_8X5_UNORM | ASTC_8X6_UNORM
  | ASTC_8X8_UNORM | ASTC_10X5_UNORM | ASTC_10X6_UNORM | ASTC_10X8_UNORM
  | ASTC_10X10_UNORM | ASTC_12X10_UNORM | ASTC_12X12_UNORM | BC3_UNORM_RXGB
  | BC3_UNORM_NORMAL
deriving DecidableEq, Repr, Inhabited

/-- every format, in the order used by the case lines (`M <n>`, `D <n> ..`) -/
def Format.all : List Format :=
  [.R8G8B8_UNORM, .B8G8R8_UNORM, .R8G8B8A8_UNORM, .R8G8B8A8_SNORM,
   .B8G8R8A8_UNORM, .B8G8R8X8_UNORM, .B5G6R5_UNORM, .B5G5R5A1_UNORM,
   .B4G4R4A4_UNORM, .A4B4G4R4_UNORM, .R8_SNORM, .R8_UNORM,
   .R8G8_UNORM, .R8G8_SNORM, .A8_UNORM, .R16_UNORM,
   .R16_SNORM, .R16G16_UNORM, .R16G16_SNORM, .R16G16B16A16_UNORM,
   .R16G16B16A16_SNORM, .R10G10B10A2_UNORM, .R11G11B10_FLOAT, .R9G9B9E5_SHAREDEXP,
   .R16_FLOAT, .R16G16_FLOAT, .R16G16B16A16_FLOAT, .R32_FLOAT,
   .R32G32_FLOAT, .R32G32B32_FLOAT, .R32G32B32A32_FLOAT, .R10G10B10_XR_BIAS_A2_UNORM,
   .AYUV, .Y410, .Y416, .R1_UNORM,
   .R8G8_B8G8_UNORM, .G8R8_G8B8_UNORM, .UYVY, .YUY2,
   .Y210, .Y216, .NV12, .P010,
   .P016, .BC1_UNORM, .BC2_UNORM, .BC2_UNORM_PREMULTIPLIED_ALPHA,
   .BC3_UNORM, .BC3_UNORM_PREMULTIPLIED_ALPHA, .BC4_UNORM, .BC4_SNORM,
   .BC5_UNORM, .BC5_SNORM, .BC6H_UF16, .BC6H_SF16,
   .BC7_UNORM, .ASTC_4X4_UNORM, .ASTC_5X4_UNORM, .ASTC_5X5_UNORM,
   .ASTC_6X5_UNORM, .ASTC_6X6_UNORM, .ASTC_8X5_UNORM, .ASTC_8X6_UNORM,
   .ASTC_8X8_UNORM, .ASTC_10X5_UNORM, .ASTC_10X6_UNORM, .ASTC_10X8_UNORM,
   .ASTC_10X10_UNORM, .ASTC_12X10_UNORM, .ASTC_12X12_UNORM, .BC3_UNORM_RXGB,
   .BC3_UNORM_NORMAL]

/-- src/color/mod.rs `Channels` -/
inductive Channels where
  | gray | alpha | rgb | rgba
deriving DecidableEq, Repr, Inhabited

/-- src/color/mod.rs `Precision` -/
inductive Precision where
  | u8 | u16 | f32
deriving DecidableEq, Repr, Inhabited

structure ColorFormat where
  channels : Channels
  precision : Precision
deriving DecidableEq, Repr, Inhabited

/-- the 12 colour formats in the order of the case lines -/
def ColorFormat.all : List ColorFormat :=
  [⟨.gray, .u8⟩, ⟨.alpha, .u8⟩, ⟨.rgb, .u8⟩, ⟨.rgba, .u8⟩,
   ⟨.gray, .u16⟩, ⟨.alpha, .u16⟩, ⟨.rgb, .u16⟩, ⟨.rgba, .u16⟩,
   ⟨.gray, .f32⟩, ⟨.alpha, .f32⟩, ⟨.rgb, .f32⟩, ⟨.rgba, .f32⟩]

/-! ## Format rows: name, pixel layout, native colour, canonical DXGI code, FourCC written -/

structure FormatRow where
  name : String
  /-- the layout of the format as the format definition gives it (DXGI documentation) -/
  px : PixelInfo
  /-- native colour of the decoder (`Format::color`) -/
  color : ColorFormat
  /-- `TryFrom<Format> for DxgiFormat` -/
  dxgi : Option Nat
  /-- `TryFrom<Format> for FourCC` -/
  fourCC : Option Nat

def Format.row : Format → FormatRow
  | .R8G8B8_UNORM => ⟨"R8G8B8_UNORM", .fixed 3, ⟨.rgb, .u8⟩, none, none⟩
  | .B8G8R8_UNORM => ⟨"B8G8R8_UNORM", .fixed 3, ⟨.rgb, .u8⟩, none, none⟩
  | .R8G8B8A8_UNORM => ⟨"R8G8B8A8_UNORM", .fixed 4, ⟨.rgba, .u8⟩, some 28, none⟩
  | .R8G8B8A8_SNORM => ⟨"R8G8B8A8_SNORM", .fixed 4, ⟨.rgba, .u8⟩, some 31, none⟩
  | .B8G8R8A8_UNORM => ⟨"B8G8R8A8_UNORM", .fixed 4, ⟨.rgba, .u8⟩, some 87, none⟩
  | .B8G8R8X8_UNORM => ⟨"B8G8R8X8_UNORM", .fixed 4, ⟨.rgb, .u8⟩, some 88, none⟩
  | .B5G6R5_UNORM => ⟨"B5G6R5_UNORM", .fixed 2, ⟨.rgb, .u8⟩, some 85, none⟩
  | .B5G5R5A1_UNORM => ⟨"B5G5R5A1_UNORM", .fixed 2, ⟨.rgba, .u8⟩, some 86, none⟩
  | .B4G4R4A4_UNORM => ⟨"B4G4R4A4_UNORM", .fixed 2, ⟨.rgba, .u8⟩, some 115, none⟩
  | .A4B4G4R4_UNORM => ⟨"A4B4G4R4_UNORM", .fixed 2, ⟨.rgba, .u8⟩, some 191, none⟩
  | .R8_SNORM => ⟨"R8_SNORM", .fixed 1, ⟨.gray, .u8⟩, some 63, none⟩
  | .R8_UNORM => ⟨"R8_UNORM", .fixed 1, ⟨.gray, .u8⟩, some 61, none⟩
  | .R8G8_UNORM => ⟨"R8G8_UNORM", .fixed 2, ⟨.rgb, .u8⟩, some 49, none⟩
  | .R8G8_SNORM => ⟨"R8G8_SNORM", .fixed 2, ⟨.rgb, .u8⟩, some 51, none⟩
  | .A8_UNORM => ⟨"A8_UNORM", .fixed 1, ⟨.alpha, .u8⟩, some 65, none⟩
  | .R16_UNORM => ⟨"R16_UNORM", .fixed 2, ⟨.gray, .u16⟩, some 56, none⟩
  | .R16_SNORM => ⟨"R16_SNORM", .fixed 2, ⟨.gray, .u16⟩, some 58, none⟩
  | .R16G16_UNORM => ⟨"R16G16_UNORM", .fixed 4, ⟨.rgb, .u16⟩, some 35, none⟩
  | .R16G16_SNORM => ⟨"R16G16_SNORM", .fixed 4, ⟨.rgb, .u16⟩, some 37, none⟩
  | .R16G16B16A16_UNORM => ⟨"R16G16B16A16_UNORM", .fixed 8, ⟨.rgba, .u16⟩, some 11, none⟩
  | .R16G16B16A16_SNORM => ⟨"R16G16B16A16_SNORM", .fixed 8, ⟨.rgba, .u16⟩, some 13, none⟩
  | .R10G10B10A2_UNORM => ⟨"R10G10B10A2_UNORM", .fixed 4, ⟨.rgba, .u16⟩, some 24, none⟩
  | .R11G11B10_FLOAT => ⟨"R11G11B10_FLOAT", .fixed 4, ⟨.rgb, .f32⟩, some 26, none⟩
  | .R9G9B9E5_SHAREDEXP => ⟨"R9G9B9E5_SHAREDEXP", .fixed 4, ⟨.rgb, .f32⟩, some 67, none⟩
  | .R16_FLOAT => ⟨"R16_FLOAT", .fixed 2, ⟨.gray, .f32⟩, some 54, none⟩
  | .R16G16_FLOAT => ⟨"R16G16_FLOAT", .fixed 4, ⟨.rgb, .f32⟩, some 34, none⟩
  | .R16G16B16A16_FLOAT => ⟨"R16G16B16A16_FLOAT", .fixed 8, ⟨.rgba, .f32⟩, some 10, none⟩
  | .R32_FLOAT => ⟨"R32_FLOAT", .fixed 4, ⟨.gray, .f32⟩, some 41, none⟩
  | .R32G32_FLOAT => ⟨"R32G32_FLOAT", .fixed 8, ⟨.rgb, .f32⟩, some 16, none⟩
  | .R32G32B32_FLOAT => ⟨"R32G32B32_FLOAT", .fixed 12, ⟨.rgb, .f32⟩, some 6, none⟩
  | .R32G32B32A32_FLOAT => ⟨"R32G32B32A32_FLOAT", .fixed 16, ⟨.rgba, .f32⟩, some 2, none⟩
  | .R10G10B10_XR_BIAS_A2_UNORM => ⟨"R10G10B10_XR_BIAS_A2_UNORM", .fixed 4, ⟨.rgba, .f32⟩, some 89, none⟩
  | .AYUV => ⟨"AYUV", .fixed 4, ⟨.rgba, .u8⟩, some 100, none⟩
  | .Y410 => ⟨"Y410", .fixed 4, ⟨.rgba, .u16⟩, some 101, none⟩
  | .Y416 => ⟨"Y416", .fixed 8, ⟨.rgba, .u16⟩, some 102, none⟩
  | .R1_UNORM => ⟨"R1_UNORM", .block 1 8 1, ⟨.gray, .u8⟩, some 66, none⟩
  | .R8G8_B8G8_UNORM => ⟨"R8G8_B8G8_UNORM", .block 4 2 1, ⟨.rgb, .u8⟩, some 68, some 1195525970⟩
  | .G8R8_G8B8_UNORM => ⟨"G8R8_G8B8_UNORM", .block 4 2 1, ⟨.rgb, .u8⟩, some 69, some 1111970375⟩
  | .UYVY => ⟨"UYVY", .block 4 2 1, ⟨.rgb, .u8⟩, none, some 1498831189⟩
  | .YUY2 => ⟨"YUY2", .block 4 2 1, ⟨.rgb, .u8⟩, some 107, some 844715353⟩
  | .Y210 => ⟨"Y210", .block 8 2 1, ⟨.rgb, .u16⟩, some 108, none⟩
  | .Y216 => ⟨"Y216", .block 8 2 1, ⟨.rgb, .u16⟩, some 109, none⟩
  | .NV12 => ⟨"NV12", .biPlanar 1 2 2 2, ⟨.rgb, .u8⟩, some 103, none⟩
  | .P010 => ⟨"P010", .biPlanar 2 4 2 2, ⟨.rgb, .u16⟩, some 104, none⟩
  | .P016 => ⟨"P016", .biPlanar 2 4 2 2, ⟨.rgb, .u16⟩, some 105, none⟩
  | .BC1_UNORM => ⟨"BC1_UNORM", .block 8 4 4, ⟨.rgba, .u8⟩, some 71, some 827611204⟩
  | .BC2_UNORM => ⟨"BC2_UNORM", .block 16 4 4, ⟨.rgba, .u8⟩, some 74, some 861165636⟩
  | .BC2_UNORM_PREMULTIPLIED_ALPHA => ⟨"BC2_UNORM_PREMULTIPLIED_ALPHA", .block 16 4 4, ⟨.rgba, .u8⟩, none, some 844388420⟩
  | .BC3_UNORM => ⟨"BC3_UNORM", .block 16 4 4, ⟨.rgba, .u8⟩, some 77, some 894720068⟩
  | .BC3_UNORM_PREMULTIPLIED_ALPHA => ⟨"BC3_UNORM_PREMULTIPLIED_ALPHA", .block 16 4 4, ⟨.rgba, .u8⟩, none, some 877942852⟩
  | .BC4_UNORM => ⟨"BC4_UNORM", .block 8 4 4, ⟨.gray, .u8⟩, some 80, some 1429488450⟩
  | .BC4_SNORM => ⟨"BC4_SNORM", .block 8 4 4, ⟨.gray, .u8⟩, some 81, some 1395934018⟩
  | .BC5_UNORM => ⟨"BC5_UNORM", .block 16 4 4, ⟨.rgb, .u8⟩, some 83, some 1429553986⟩
  | .BC5_SNORM => ⟨"BC5_SNORM", .block 16 4 4, ⟨.rgb, .u8⟩, some 84, some 1395999554⟩
  | .BC6H_UF16 => ⟨"BC6H_UF16", .block 16 4 4, ⟨.rgb, .f32⟩, some 95, none⟩
  | .BC6H_SF16 => ⟨"BC6H_SF16", .block 16 4 4, ⟨.rgb, .f32⟩, some 96, none⟩
  | .BC7_UNORM => ⟨"BC7_UNORM", .block 16 4 4, ⟨.rgba, .u8⟩, some 98, none⟩
  | .ASTC_4X4_UNORM => ⟨"ASTC_4X4_UNORM", .block 16 4 4, ⟨.rgba, .u8⟩, some 134, none⟩
  | .ASTC_5X4_UNORM => ⟨"ASTC_5X4_UNORM", .block 16 5 4, ⟨.rgba, .u8⟩, some 138, none⟩
  | .ASTC_5X5_UNORM => ⟨"ASTC_5X5_UNORM", .block 16 5 5, ⟨.rgba, .u8⟩, some 142, none⟩
  | .ASTC_6X5_UNORM => ⟨"ASTC_6X5_UNORM", .block 16 6 5, ⟨.rgba, .u8⟩, some 146, none⟩
  | .ASTC_6X6_UNORM => ⟨"ASTC_6X6_UNORM", .block 16 6 6, ⟨.rgba, .u8⟩, some 150, none⟩
  | .ASTC_8X5_UNORM => ⟨"ASTC_8X5_UNORM", .block 16 8 5, ⟨.rgba, .u8⟩, some 154, none⟩
  | .ASTC_8X6_UNORM => ⟨"ASTC_8X6_UNORM", .block 16 8 6, ⟨.rgba, .u8⟩, some 158, none⟩
  | .ASTC_8X8_UNORM => ⟨"ASTC_8X8_UNORM", .block 16 8 8, ⟨.rgba, .u8⟩, some 162, none⟩
  | .ASTC_10X5_UNORM => ⟨"ASTC_10X5_UNORM", .block 16 10 5, ⟨.rgba, .u8⟩, some 166, none⟩
  | .ASTC_10X6_UNORM => ⟨"ASTC_10X6_UNORM", .block 16 10 6, ⟨.rgba, .u8⟩, some 170, none⟩
  | .ASTC_10X8_UNORM => ⟨"ASTC_10X8_UNORM", .block 16 10 8, ⟨.rgba, .u8⟩, some 174, none⟩
  | .ASTC_10X10_UNORM => ⟨"ASTC_10X10_UNORM", .block 16 10 10, ⟨.rgba, .u8⟩, some 178, none⟩
  | .ASTC_12X10_UNORM => ⟨"ASTC_12X10_UNORM", .block 16 12 10, ⟨.rgba, .u8⟩, some 182, none⟩
  | .ASTC_12X12_UNORM => ⟨"ASTC_12X12_UNORM", .block 16 12 12, ⟨.rgba, .u8⟩, some 186, none⟩
  | .BC3_UNORM_RXGB => ⟨"BC3_UNORM_RXGB", .block 16 4 4, ⟨.rgb, .u8⟩, none, some 1111971922⟩
  | .BC3_UNORM_NORMAL => ⟨"BC3_UNORM_NORMAL", .block 16 4 4, ⟨.rgb, .u8⟩, some 77, none⟩

def Format.name (f : Format) : String := f.row.name

/-! ## DXGI codes -/

structure DxgiRow where
  code : Nat
  name : String
  /-- `TryFrom<DxgiFormat> for PixelInfo` (`none` = `Err(())`) -/
  px : Option PixelInfo
  /-- `detect::dxgi_format_to_supported` -/
  fmt : Option Format

/-- all 162 valid `DXGI_FORMAT` codes (`TryFrom<u32> for DxgiFormat` accepts exactly these) -/
def dxgiTable : List DxgiRow := [
  ⟨0, "UNKNOWN", none, none⟩,
  ⟨1, "R32G32B32A32_TYPELESS", some (.fixed 16), some .R32G32B32A32_FLOAT⟩,
  ⟨2, "R32G32B32A32_FLOAT", some (.fixed 16), some .R32G32B32A32_FLOAT⟩,
  ⟨3, "R32G32B32A32_UINT", some (.fixed 16), none⟩,
  ⟨4, "R32G32B32A32_SINT", some (.fixed 16), none⟩,
  ⟨5, "R32G32B32_TYPELESS", some (.fixed 12), some .R32G32B32_FLOAT⟩,
  ⟨6, "R32G32B32_FLOAT", some (.fixed 12), some .R32G32B32_FLOAT⟩,
  ⟨7, "R32G32B32_UINT", some (.fixed 12), none⟩,
  ⟨8, "R32G32B32_SINT", some (.fixed 12), none⟩,
  ⟨9, "R16G16B16A16_TYPELESS", some (.fixed 8), some .R16G16B16A16_UNORM⟩,
  ⟨10, "R16G16B16A16_FLOAT", some (.fixed 8), some .R16G16B16A16_FLOAT⟩,
  ⟨11, "R16G16B16A16_UNORM", some (.fixed 8), some .R16G16B16A16_UNORM⟩,
  ⟨12, "R16G16B16A16_UINT", some (.fixed 8), none⟩,
  ⟨13, "R16G16B16A16_SNORM", some (.fixed 8), some .R16G16B16A16_SNORM⟩,
  ⟨14, "R16G16B16A16_SINT", some (.fixed 8), none⟩,
  ⟨15, "R32G32_TYPELESS", some (.fixed 8), some .R32G32_FLOAT⟩,
  ⟨16, "R32G32_FLOAT", some (.fixed 8), some .R32G32_FLOAT⟩,
  ⟨17, "R32G32_UINT", some (.fixed 8), none⟩,
  ⟨18, "R32G32_SINT", some (.fixed 8), none⟩,
  ⟨19, "R32G8X24_TYPELESS", some (.fixed 8), none⟩,
  ⟨20, "D32_FLOAT_S8X24_UINT", some (.fixed 8), none⟩,
  ⟨21, "R32_FLOAT_X8X24_TYPELESS", some (.fixed 8), none⟩,
  ⟨22, "X32_TYPELESS_G8X24_UINT", some (.fixed 8), none⟩,
  ⟨23, "R10G10B10A2_TYPELESS", some (.fixed 4), some .R10G10B10A2_UNORM⟩,
  ⟨24, "R10G10B10A2_UNORM", some (.fixed 4), some .R10G10B10A2_UNORM⟩,
  ⟨25, "R10G10B10A2_UINT", some (.fixed 4), none⟩,
  ⟨26, "R11G11B10_FLOAT", some (.fixed 4), some .R11G11B10_FLOAT⟩,
  ⟨27, "R8G8B8A8_TYPELESS", some (.fixed 4), some .R8G8B8A8_UNORM⟩,
  ⟨28, "R8G8B8A8_UNORM", some (.fixed 4), some .R8G8B8A8_UNORM⟩,
  ⟨29, "R8G8B8A8_UNORM_SRGB", some (.fixed 4), some .R8G8B8A8_UNORM⟩,
  ⟨30, "R8G8B8A8_UINT", some (.fixed 4), none⟩,
  ⟨31, "R8G8B8A8_SNORM", some (.fixed 4), some .R8G8B8A8_SNORM⟩,
  ⟨32, "R8G8B8A8_SINT", some (.fixed 4), none⟩,
  ⟨33, "R16G16_TYPELESS", some (.fixed 4), some .R16G16_UNORM⟩,
  ⟨34, "R16G16_FLOAT", some (.fixed 4), some .R16G16_FLOAT⟩,
  ⟨35, "R16G16_UNORM", some (.fixed 4), some .R16G16_UNORM⟩,
  ⟨36, "R16G16_UINT", some (.fixed 4), none⟩,
  ⟨37, "R16G16_SNORM", some (.fixed 4), some .R16G16_SNORM⟩,
  ⟨38, "R16G16_SINT", some (.fixed 4), none⟩,
  ⟨39, "R32_TYPELESS", some (.fixed 4), some .R32_FLOAT⟩,
  ⟨40, "D32_FLOAT", some (.fixed 4), none⟩,
  ⟨41, "R32_FLOAT", some (.fixed 4), some .R32_FLOAT⟩,
  ⟨42, "R32_UINT", some (.fixed 4), none⟩,
  ⟨43, "R32_SINT", some (.fixed 4), none⟩,
  ⟨44, "R24G8_TYPELESS", some (.fixed 4), none⟩,
  ⟨45, "D24_UNORM_S8_UINT", some (.fixed 4), none⟩,
  ⟨46, "R24_UNORM_X8_TYPELESS", some (.fixed 4), none⟩,
  ⟨47, "X24_TYPELESS_G8_UINT", some (.fixed 4), none⟩,
  ⟨48, "R8G8_TYPELESS", some (.fixed 2), none⟩,
  ⟨49, "R8G8_UNORM", some (.fixed 2), some .R8G8_UNORM⟩,
  ⟨50, "R8G8_UINT", some (.fixed 2), none⟩,
  ⟨51, "R8G8_SNORM", some (.fixed 2), some .R8G8_SNORM⟩,
  ⟨52, "R8G8_SINT", some (.fixed 2), none⟩,
  ⟨53, "R16_TYPELESS", some (.fixed 2), some .R16_UNORM⟩,
  ⟨54, "R16_FLOAT", some (.fixed 2), some .R16_FLOAT⟩,
  ⟨55, "D16_UNORM", some (.fixed 2), none⟩,
  ⟨56, "R16_UNORM", some (.fixed 2), some .R16_UNORM⟩,
  ⟨57, "R16_UINT", some (.fixed 2), none⟩,
  ⟨58, "R16_SNORM", some (.fixed 2), some .R16_SNORM⟩,
  ⟨59, "R16_SINT", some (.fixed 2), none⟩,
  ⟨60, "R8_TYPELESS", some (.fixed 1), some .R8_UNORM⟩,
  ⟨61, "R8_UNORM", some (.fixed 1), some .R8_UNORM⟩,
  ⟨62, "R8_UINT", some (.fixed 1), none⟩,
  ⟨63, "R8_SNORM", some (.fixed 1), some .R8_SNORM⟩,
  ⟨64, "R8_SINT", some (.fixed 1), none⟩,
  ⟨65, "A8_UNORM", some (.fixed 1), some .A8_UNORM⟩,
  ⟨66, "R1_UNORM", some (.block 1 8 1), some .R1_UNORM⟩,
  ⟨67, "R9G9B9E5_SHAREDEXP", some (.fixed 4), some .R9G9B9E5_SHAREDEXP⟩,
  ⟨68, "R8G8_B8G8_UNORM", some (.block 4 2 1), some .R8G8_B8G8_UNORM⟩,
  ⟨69, "G8R8_G8B8_UNORM", some (.block 4 2 1), some .G8R8_G8B8_UNORM⟩,
  ⟨70, "BC1_TYPELESS", some (.block 8 4 4), some .BC1_UNORM⟩,
  ⟨71, "BC1_UNORM", some (.block 8 4 4), some .BC1_UNORM⟩,
  ⟨72, "BC1_UNORM_SRGB", some (.block 8 4 4), some .BC1_UNORM⟩,
  ⟨73, "BC2_TYPELESS", some (.block 16 4 4), some .BC2_UNORM⟩,
  ⟨74, "BC2_UNORM", some (.block 16 4 4), some .BC2_UNORM⟩,
  ⟨75, "BC2_UNORM_SRGB", some (.block 16 4 4), some .BC2_UNORM⟩,
  ⟨76, "BC3_TYPELESS", some (.block 16 4 4), some .BC3_UNORM⟩,
  ⟨77, "BC3_UNORM", some (.block 16 4 4), some .BC3_UNORM⟩,
  ⟨78, "BC3_UNORM_SRGB", some (.block 16 4 4), some .BC3_UNORM⟩,
  ⟨79, "BC4_TYPELESS", some (.block 8 4 4), some .BC4_UNORM⟩,
  ⟨80, "BC4_UNORM", some (.block 8 4 4), some .BC4_UNORM⟩,
  ⟨81, "BC4_SNORM", some (.block 8 4 4), some .BC4_SNORM⟩,
  ⟨82, "BC5_TYPELESS", some (.block 16 4 4), some .BC5_UNORM⟩,
  ⟨83, "BC5_UNORM", some (.block 16 4 4), some .BC5_UNORM⟩,
  ⟨84, "BC5_SNORM", some (.block 16 4 4), some .BC5_SNORM⟩,
  ⟨85, "B5G6R5_UNORM", some (.fixed 2), some .B5G6R5_UNORM⟩,
  ⟨86, "B5G5R5A1_UNORM", some (.fixed 2), some .B5G5R5A1_UNORM⟩,
  ⟨87, "B8G8R8A8_UNORM", some (.fixed 4), some .B8G8R8A8_UNORM⟩,
  ⟨88, "B8G8R8X8_UNORM", some (.fixed 4), some .B8G8R8X8_UNORM⟩,
  ⟨89, "R10G10B10_XR_BIAS_A2_UNORM", some (.fixed 4), some .R10G10B10_XR_BIAS_A2_UNORM⟩,
  ⟨90, "B8G8R8A8_TYPELESS", some (.fixed 4), some .B8G8R8A8_UNORM⟩,
  ⟨91, "B8G8R8A8_UNORM_SRGB", some (.fixed 4), some .B8G8R8A8_UNORM⟩,
  ⟨92, "B8G8R8X8_TYPELESS", some (.fixed 4), some .B8G8R8X8_UNORM⟩,
  ⟨93, "B8G8R8X8_UNORM_SRGB", some (.fixed 4), some .B8G8R8X8_UNORM⟩,
  ⟨94, "BC6H_TYPELESS", some (.block 16 4 4), some .BC6H_UF16⟩,
  ⟨95, "BC6H_UF16", some (.block 16 4 4), some .BC6H_UF16⟩,
  ⟨96, "BC6H_SF16", some (.block 16 4 4), some .BC6H_SF16⟩,
  ⟨97, "BC7_TYPELESS", some (.block 16 4 4), some .BC7_UNORM⟩,
  ⟨98, "BC7_UNORM", some (.block 16 4 4), some .BC7_UNORM⟩,
  ⟨99, "BC7_UNORM_SRGB", some (.block 16 4 4), some .BC7_UNORM⟩,
  ⟨100, "AYUV", some (.fixed 4), some .AYUV⟩,
  ⟨101, "Y410", some (.fixed 4), some .Y410⟩,
  ⟨102, "Y416", some (.fixed 8), some .Y416⟩,
  ⟨103, "NV12", some (.biPlanar 1 2 2 2), some .NV12⟩,
  ⟨104, "P010", some (.biPlanar 2 4 2 2), some .P010⟩,
  ⟨105, "P016", some (.biPlanar 2 4 2 2), some .P016⟩,
  ⟨106, "OPAQUE_420", some (.biPlanar 1 2 2 2), none⟩,
  ⟨107, "YUY2", some (.block 4 2 1), some .YUY2⟩,
  ⟨108, "Y210", some (.block 8 2 1), some .Y210⟩,
  ⟨109, "Y216", some (.block 8 2 1), some .Y216⟩,
  ⟨110, "NV11", some (.biPlanar 1 2 4 1), none⟩,
  ⟨111, "AI44", some (.fixed 1), none⟩,
  ⟨112, "IA44", some (.fixed 1), none⟩,
  ⟨113, "P8", some (.fixed 1), none⟩,
  ⟨114, "A8P8", some (.fixed 2), none⟩,
  ⟨115, "B4G4R4A4_UNORM", some (.fixed 2), some .B4G4R4A4_UNORM⟩,
  ⟨130, "P208", some (.biPlanar 1 2 2 1), none⟩,
  ⟨131, "V208", none, none⟩,
  ⟨132, "V408", some (.fixed 4), none⟩,
  ⟨133, "ASTC_4X4_TYPELESS", some (.block 16 4 4), some .ASTC_4X4_UNORM⟩,
  ⟨134, "ASTC_4X4_UNORM", some (.block 16 4 4), some .ASTC_4X4_UNORM⟩,
  ⟨135, "ASTC_4X4_UNORM_SRGB", some (.block 16 4 4), some .ASTC_4X4_UNORM⟩,
  ⟨137, "ASTC_5X4_TYPELESS", some (.block 16 5 4), some .ASTC_5X4_UNORM⟩,
  ⟨138, "ASTC_5X4_UNORM", some (.block 16 5 4), some .ASTC_5X4_UNORM⟩,
  ⟨139, "ASTC_5X4_UNORM_SRGB", some (.block 16 5 4), some .ASTC_5X4_UNORM⟩,
  ⟨141, "ASTC_5X5_TYPELESS", some (.block 16 5 5), some .ASTC_5X5_UNORM⟩,
  ⟨142, "ASTC_5X5_UNORM", some (.block 16 5 5), some .ASTC_5X5_UNORM⟩,
  ⟨143, "ASTC_5X5_UNORM_SRGB", some (.block 16 5 5), some .ASTC_5X5_UNORM⟩,
  ⟨145, "ASTC_6X5_TYPELESS", some (.block 16 6 5), some .ASTC_6X5_UNORM⟩,
  ⟨146, "ASTC_6X5_UNORM", some (.block 16 6 5), some .ASTC_6X5_UNORM⟩,
  ⟨147, "ASTC_6X5_UNORM_SRGB", some (.block 16 6 5), some .ASTC_6X5_UNORM⟩,
  ⟨149, "ASTC_6X6_TYPELESS", some (.block 16 6 6), some .ASTC_6X6_UNORM⟩,
  ⟨150, "ASTC_6X6_UNORM", some (.block 16 6 6), some .ASTC_6X6_UNORM⟩,
  ⟨151, "ASTC_6X6_UNORM_SRGB", some (.block 16 6 6), some .ASTC_6X6_UNORM⟩,
  ⟨153, "ASTC_8X5_TYPELESS", some (.block 16 8 5), some .ASTC_8X5_UNORM⟩,
  ⟨154, "ASTC_8X5_UNORM", some (.block 16 8 5), some .ASTC_8X5_UNORM⟩,
  ⟨155, "ASTC_8X5_UNORM_SRGB", some (.block 16 8 5), some .ASTC_8X5_UNORM⟩,
  ⟨157, "ASTC_8X6_TYPELESS", some (.block 16 8 6), some .ASTC_8X6_UNORM⟩,
  ⟨158, "ASTC_8X6_UNORM", some (.block 16 8 6), some .ASTC_8X6_UNORM⟩,
  ⟨159, "ASTC_8X6_UNORM_SRGB", some (.block 16 8 6), some .ASTC_8X6_UNORM⟩,
  ⟨161, "ASTC_8X8_TYPELESS", some (.block 16 8 8), some .ASTC_8X8_UNORM⟩,
  ⟨162, "ASTC_8X8_UNORM", some (.block 16 8 8), some .ASTC_8X8_UNORM⟩,
  ⟨163, "ASTC_8X8_UNORM_SRGB", some (.block 16 8 8), some .ASTC_8X8_UNORM⟩,
  ⟨165, "ASTC_10X5_TYPELESS", some (.block 16 10 5), some .ASTC_10X5_UNORM⟩,
  ⟨166, "ASTC_10X5_UNORM", some (.block 16 10 5), some .ASTC_10X5_UNORM⟩,
  ⟨167, "ASTC_10X5_UNORM_SRGB", some (.block 16 10 5), some .ASTC_10X5_UNORM⟩,
  ⟨169, "ASTC_10X6_TYPELESS", some (.block 16 10 6), some .ASTC_10X6_UNORM⟩,
  ⟨170, "ASTC_10X6_UNORM", some (.block 16 10 6), some .ASTC_10X6_UNORM⟩,
  ⟨171, "ASTC_10X6_UNORM_SRGB", some (.block 16 10 6), some .ASTC_10X6_UNORM⟩,
  ⟨173, "ASTC_10X8_TYPELESS", some (.block 16 10 8), some .ASTC_10X8_UNORM⟩,
  ⟨174, "ASTC_10X8_UNORM", some (.block 16 10 8), some .ASTC_10X8_UNORM⟩,
  ⟨175, "ASTC_10X8_UNORM_SRGB", some (.block 16 10 8), some .ASTC_10X8_UNORM⟩,
  ⟨177, "ASTC_10X10_TYPELESS", some (.block 16 10 10), some .ASTC_10X10_UNORM⟩,
  ⟨178, "ASTC_10X10_UNORM", some (.block 16 10 10), some .ASTC_10X10_UNORM⟩,
  ⟨179, "ASTC_10X10_UNORM_SRGB", some (.block 16 10 10), some .ASTC_10X10_UNORM⟩,
  ⟨181, "ASTC_12X10_TYPELESS", some (.block 16 12 10), some .ASTC_12X10_UNORM⟩,
  ⟨182, "ASTC_12X10_UNORM", some (.block 16 12 10), some .ASTC_12X10_UNORM⟩,
  ⟨183, "ASTC_12X10_UNORM_SRGB", some (.block 16 12 10), some .ASTC_12X10_UNORM⟩,
  ⟨185, "ASTC_12X12_TYPELESS", some (.block 16 12 12), some .ASTC_12X12_UNORM⟩,
  ⟨186, "ASTC_12X12_UNORM", some (.block 16 12 12), some .ASTC_12X12_UNORM⟩,
  ⟨187, "ASTC_12X12_UNORM_SRGB", some (.block 16 12 12), some .ASTC_12X12_UNORM⟩,
  ⟨191, "A4B4G4R4_UNORM", some (.fixed 2), some .A4B4G4R4_UNORM⟩
]

def dxgiRow? (code : Nat) : Option DxgiRow := dxgiTable.find? (·.code == code)

/-- `DxgiFormat::try_from(code).is_ok()`, written as the source's range pattern -/
def dxgiValid (v : Nat) : Bool :=
  v ≤ 115 || (130 ≤ v && v ≤ 135) ||
  (137 ≤ v && v ≤ 187 && v % 4 ≠ 0) || v == 191

/-- `PixelInfo::try_from(dxgi)` -/
def dxgiPixelInfo (code : Nat) : Option PixelInfo := (dxgiRow? code).bind (·.px)

/-- `detect::dxgi_format_to_supported` -/
def dxgiToFormat (code : Nat) : Option Format := (dxgiRow? code).bind (·.fmt)

/-- `detect::special_cases`: alpha mode `Premultiplied = 2` with BC2_UNORM (74) / BC3_UNORM (77) -/
def specialCases (code alphaMode : Nat) : Option Format :=
  if alphaMode = 2 then
    if code = 74 then some .BC2_UNORM_PREMULTIPLIED_ALPHA
    else if code = 77 then some .BC3_UNORM_PREMULTIPLIED_ALPHA
    else none
  else none

/-! ## FourCC -/

/-- little-endian ASCII FourCC -/
def fcc (a b c d : Char) : Nat := a.toNat + 256 * b.toNat + 65536 * c.toNat + 16777216 * d.toNat

def FCC_DXT1 := fcc 'D' 'X' 'T' '1'
def FCC_DXT2 := fcc 'D' 'X' 'T' '2'
def FCC_DXT3 := fcc 'D' 'X' 'T' '3'
def FCC_DXT4 := fcc 'D' 'X' 'T' '4'
def FCC_DXT5 := fcc 'D' 'X' 'T' '5'
def FCC_RXGB := fcc 'R' 'X' 'G' 'B'
def FCC_ATI1 := fcc 'A' 'T' 'I' '1'
def FCC_BC4U := fcc 'B' 'C' '4' 'U'
def FCC_BC4S := fcc 'B' 'C' '4' 'S'
def FCC_ATI2 := fcc 'A' 'T' 'I' '2'
def FCC_BC5U := fcc 'B' 'C' '5' 'U'
def FCC_BC5S := fcc 'B' 'C' '5' 'S'
def FCC_RGBG := fcc 'R' 'G' 'B' 'G'
def FCC_GRGB := fcc 'G' 'R' 'G' 'B'
def FCC_YUY2 := fcc 'Y' 'U' 'Y' '2'
def FCC_UYVY := fcc 'U' 'Y' 'V' 'Y'

/-- `detect::four_cc_to_dxgi` (first stage of `four_cc_to_supported`) -/
def fourCCDxgiTable : List (Nat × Nat) := [
  (FCC_DXT1, 71), (FCC_DXT3, 74), (FCC_DXT5, 77),
  (FCC_ATI1, 80), (FCC_BC4U, 80), (FCC_BC4S, 81),
  (FCC_ATI2, 83), (FCC_BC5U, 83), (FCC_BC5S, 84),
  (FCC_RGBG, 68), (FCC_GRGB, 69), (FCC_YUY2, 107),
  (36, 11), (110, 13), (111, 54), (112, 34), (113, 10), (114, 41), (115, 16), (116, 2)]

/-- second stage of `four_cc_to_supported`: FourCCs without DXGI equivalent -/
def fourCCDirectTable : List (Nat × Format) := [
  (FCC_DXT2, .BC2_UNORM_PREMULTIPLIED_ALPHA), (FCC_DXT4, .BC3_UNORM_PREMULTIPLIED_ALPHA),
  (FCC_RXGB, .BC3_UNORM_RXGB), (FCC_UYVY, .UYVY)]

def fourCCToDxgi (cc : Nat) : Option Nat := (fourCCDxgiTable.find? (·.1 == cc)).map (·.2)

/-- `detect::four_cc_to_supported` = `Format::from_four_cc` -/
def fourCCToFormat (cc : Nat) : Option Format :=
  match fourCCToDxgi cc with
  | some dx => dxgiToFormat dx
  | none => (fourCCDirectTable.find? (·.1 == cc)).map (·.2)

/-! ## Mask pixel formats -/

/-- src/header.rs `MaskPixelFormat`; `bitCount` is the numeric value of `RgbBitCount` -/
structure MaskPF where
  flags : Nat
  bitCount : Nat
  r : Nat
  g : Nat
  b : Nat
  a : Nat
deriving DecidableEq, Repr, Inhabited

structure MaskRow where
  pat : MaskPF
  dxgi : Option Nat
  fmt : Format

-- PixelFormatFlags bit values
def PF_ALPHAPIXELS := 0x1
def PF_ALPHA := 0x2
def PF_RGB := 0x40
def PF_RGBA := 0x41
def PF_LUMINANCE := 0x20000
def PF_LUMINANCE_ALPHA := 0x20001
def PF_BUMP_DUDV := 0x80000

/-- `detect::KNOWN_PIXEL_FORMATS`, in table order (the first matching row wins) -/
def maskRows : List MaskRow := [
  ⟨⟨PF_ALPHA, 8, 0, 0, 0, 0xFF⟩, some 65, .A8_UNORM⟩,
  ⟨⟨PF_LUMINANCE, 8, 0xFF, 0, 0, 0⟩, some 61, .R8_UNORM⟩,
  ⟨⟨PF_RGB + PF_LUMINANCE, 8, 0xFF, 0, 0, 0⟩, some 61, .R8_UNORM⟩,
  ⟨⟨PF_LUMINANCE, 16, 0xFFFF, 0, 0, 0⟩, some 56, .R16_UNORM⟩,
  ⟨⟨PF_RGB, 16, 0xF800, 0x07E0, 0x001F, 0⟩, some 85, .B5G6R5_UNORM⟩,
  ⟨⟨PF_RGB, 32, 0xFF0000, 0xFF00, 0xFF, 0⟩, some 88, .B8G8R8X8_UNORM⟩,
  ⟨⟨PF_RGB, 32, 0xFFFF, 0xFFFF0000, 0, 0⟩, some 35, .R16G16_UNORM⟩,
  ⟨⟨PF_RGB, 16, 0xFF, 0xFF00, 0, 0⟩, some 49, .R8G8_UNORM⟩,
  ⟨⟨PF_RGB, 24, 0xFF0000, 0xFF00, 0xFF, 0⟩, none, .B8G8R8_UNORM⟩,
  ⟨⟨PF_RGB, 24, 0xFF, 0xFF00, 0xFF0000, 0⟩, none, .R8G8B8_UNORM⟩,
  ⟨⟨PF_RGBA, 16, 0xF00, 0xF0, 0xF, 0xF000⟩, some 115, .B4G4R4A4_UNORM⟩,
  ⟨⟨PF_RGBA, 16, 0x7C00, 0x3E0, 0x1F, 0x8000⟩, some 86, .B5G5R5A1_UNORM⟩,
  ⟨⟨PF_RGBA, 32, 0xFF0000, 0xFF00, 0xFF, 0xFF000000⟩, some 87, .B8G8R8A8_UNORM⟩,
  ⟨⟨PF_RGBA, 32, 0xFF, 0xFF00, 0xFF0000, 0xFF000000⟩, some 28, .R8G8B8A8_UNORM⟩,
  ⟨⟨PF_RGBA, 32, 0x3FF00000, 0xFFC00, 0x3FF, 0xC0000000⟩, some 24, .R10G10B10A2_UNORM⟩,
  ⟨⟨PF_BUMP_DUDV, 32, 0xFF, 0xFF00, 0xFF0000, 0xFF000000⟩, some 31, .R8G8B8A8_SNORM⟩,
  ⟨⟨PF_BUMP_DUDV, 16, 0xFF, 0xFF00, 0, 0⟩, some 51, .R8G8_SNORM⟩,
  ⟨⟨PF_BUMP_DUDV, 32, 0xFFFF, 0xFFFF0000, 0, 0⟩, some 37, .R16G16_SNORM⟩,
  ⟨⟨PF_LUMINANCE_ALPHA, 16, 0xFF, 0, 0, 0xFF00⟩, some 49, .R8G8_UNORM⟩]

/-- `PFPattern::matches` -/
def MaskRow.matches (row : MaskRow) (pf : MaskPF) : Bool :=
  pf.flags == row.pat.flags && pf.bitCount == row.pat.bitCount && pf.r == row.pat.r &&
  pf.g == row.pat.g && pf.b == row.pat.b && pf.a == row.pat.a

/-- `detect::masked_to_supported`: `find_map` over the table -/
def maskFind (pf : MaskPF) : List MaskRow → Option Format
  | [] => none
  | row :: rest => if row.matches pf then some row.fmt else maskFind pf rest

def maskToFormat (pf : MaskPF) : Option Format := maskFind pf maskRows

/-- `detect::supported_to_masked`: the first row of the format -/
def formatToMask (f : Format) : Option MaskPF := (maskRows.find? (·.fmt == f)).map (·.pat)

/-- `RgbBitCount::try_from(u32)` accepts exactly these -/
def bitCountValid (n : Nat) : Bool := n == 8 || n == 16 || n == 24 || n == 32

/-! ## `From<Format> for PixelInfo`, headers -/

/-- `impl From<Format> for PixelInfo`: three explicit arms, everything else through the canonical
DXGI code and the DXGI table with two `unwrap()`s; `none` = panic. -/
def formatPixelInfoP (f : Format) : Option PixelInfo :=
  match f with
  | .R8G8B8_UNORM | .B8G8R8_UNORM => some (.fixed 3)
  | .UYVY => some (.block 4 2 1)
  | .BC2_UNORM_PREMULTIPLIED_ALPHA | .BC3_UNORM_PREMULTIPLIED_ALPHA | .BC3_UNORM_RXGB =>
    some (.block 16 4 4)
  | f =>
    match f.row.dxgi with
    | none => none
    | some dx => dxgiPixelInfo dx

/-- the header shapes a format can be detected from (what `Format::from_header` looks at) -/
inductive Hdr where
  /-- `Header::Dx10`: DXGI code and alpha mode (resource dimension, misc flags, array size and
  sizes are not consulted by either function) -/
  | dx10 (code alphaMode : Nat)
  | fourCC (cc : Nat)
  | mask (pf : MaskPF)
deriving Repr, Inhabited

/-- what the typed `Header` guarantees by construction -/
def Hdr.Valid : Hdr → Prop
  | .dx10 code alphaMode => dxgiValid code = true ∧ alphaMode < 5
  | .fourCC _ => True
  | .mask pf => bitCountValid pf.bitCount = true

inductive FmtErr where
  | dxgi | fourCC | mask
deriving DecidableEq, Repr, Inhabited

/-- `Format::from_header` -/
def formatOfHeader : Hdr → Except FmtErr Format
  | .dx10 code alphaMode =>
    match specialCases code alphaMode with
    | some f => .ok f
    | none =>
      match dxgiToFormat code with
      | some f => .ok f
      | none => .error .dxgi
  | .fourCC cc =>
    match fourCCToFormat cc with
    | some f => .ok f
    | none => .error .fourCC
  | .mask pf =>
    match maskToFormat pf with
    | some f => .ok f
    | none => .error .mask

/-- `PixelInfo::from_header`; outer `none` = panic (of the `unwrap`s in `From<Format>`) -/
def pixelInfoOfHeaderP : Hdr → Option (Except FmtErr PixelInfo)
  | .dx10 code _ =>
    match dxgiPixelInfo code with
    | some p => some (.ok p)
    | none => some (.error .dxgi)
  | .fourCC cc =>
    match fourCCToFormat cc with
    | some f => (formatPixelInfoP f).map .ok
    | none => some (.error .fourCC)
  | .mask pf => some (.ok (.fixed ((pf.bitCount % 256) / 8)))

/-- `PixelInfo::bits_per_pixel` -/
def bitsPerPixel : PixelInfo → Nat
  | .fixed b => b * 8
  | .block bytes bw bh => divCeil (bytes * 8) (bw * bh % 256)
  | .biPlanar p1 p2 sx sy => p1 * 8 + divCeil (p2 * 8) (sx * sy)

/-- bits per pixel as the format definition gives them: the limit of `8·bytes/pixels` for large
surfaces, rounded up (evaluated on a surface whose sides are multiples of every block size) -/
def bitsPerPixelSpec (p : PixelInfo) : Nat :=
  let n := 27720 -- lcm(1..12): a multiple of every block width / height / sub-sampling factor
  (8 * p.surfIdeal n n + n * n - 1) / (n * n)

/-! ## Encoders -/

/-- src/encode/mod.rs `Dithering` as the pair (colour, alpha) of `Dithering::new` -/
structure Dithering where
  color : Bool
  alpha : Bool
deriving DecidableEq, Repr, Inhabited

def Dithering.none : Dithering := ⟨false, false⟩
def Dithering.all : List Dithering := [⟨false, false⟩, ⟨true, false⟩, ⟨false, true⟩, ⟨true, true⟩]
/-- `Dithering::intersect` -/
def Dithering.intersect (a b : Dithering) : Dithering := ⟨a.color && b.color, a.alpha && b.alpha⟩
def Dithering.union (a b : Dithering) : Dithering := ⟨a.color || b.color, a.alpha || b.alpha⟩

/-- channel groups -/
inductive Group where
  | color | alpha
deriving DecidableEq, Repr

def Dithering.has (d : Dithering) : Group → Bool
  | .color => d.color
  | .alpha => d.alpha

/-- `ColorFormatSet` as used by the encoder table -/
inductive ColorSet where
  | single (c : ColorFormat)
  | ofPrec (p : Precision)
  | all
deriving DecidableEq, Repr

def ColorSet.contains : ColorSet → ColorFormat → Bool
  | .single c, x => c == x
  | .ofPrec p, x => p == x.precision
  | .all, _ => true

/-- the flags of an encoder as the source *means* them -/
structure SymFlags where
  /-- highest precision encoded exactly (`EXACT_F32` implies `EXACT_U16` implies `EXACT_U8`) -/
  exact : Option Precision
  ditherColor : Bool
  ditherAlpha : Bool
deriving DecidableEq, Repr

-- src/encode/encoder.rs `Flags` bit values, as written in the source
def FLAG_EXACT_U8 : Nat := 0x1
def FLAG_EXACT_U16 : Nat := 0x2 ||| FLAG_EXACT_U8
def FLAG_EXACT_F32 : Nat := 0x4 ||| FLAG_EXACT_U16
def FLAG_DITHER_COLOR : Nat := 0x8
/-- sic: `0x16`, not `0x10` — overlaps the bits `0x2` and `0x4` of `EXACT_U16` / `EXACT_F32` -/
def FLAG_DITHER_ALPHA : Nat := 0x16
def FLAG_DITHER_ALL : Nat := FLAG_DITHER_COLOR ||| FLAG_DITHER_ALPHA

/-- `Flags::exact_for` -/
def exactFor : Precision → Nat
  | .u8 => FLAG_EXACT_U8
  | .u16 => FLAG_EXACT_U16
  | .f32 => FLAG_EXACT_F32

/-- the `u8` actually stored for an encoder -/
def SymFlags.bits (s : SymFlags) : Nat :=
  (match s.exact with | none => 0 | some p => exactFor p) |||
  (if s.ditherColor then FLAG_DITHER_COLOR else 0) |||
  (if s.ditherAlpha then FLAG_DITHER_ALPHA else 0)

/-- bitflags `contains` -/
def flagsContain (a b : Nat) : Bool := a &&& b == b
/-- bitflags `intersects` (NOT used by the source; here for the comparison theorem) -/
def flagsIntersect (a b : Nat) : Bool := a &&& b != 0

/-- `Flags::get_dithering` -/
def getDithering (bits : Nat) : Dithering :=
  ⟨flagsContain bits FLAG_DITHER_COLOR, flagsContain bits FLAG_DITHER_ALPHA⟩

def Precision.rank : Precision → Nat
  | .u8 => 1 | .u16 => 2 | .f32 => 3

/-- the intended meaning of "exact for precision p" -/
def SymFlags.exactAt (s : SymFlags) (p : Precision) : Bool :=
  match s.exact with
  | none => false
  | some q => p.rank ≤ q.rank

/-- which `Dithering` component an encoder body hands to a block encoder -/
inductive Switch where
  | color | alpha
deriving DecidableEq, Repr

def Switch.on (s : Switch) (d : Dithering) : Bool :=
  match s with
  | .color => d.color
  | .alpha => d.alpha

/-- src/encode/bc.rs: which switch reaches which block encoder -/
structure BcWiring where
  /-- switch handed to the encoder(s) of the colour data (`get_bc1_options` / `get_bc4_options`:
  `options.dithering.color()`) -/
  colorBlock : Switch
  /-- switch handed to the encoder of the separately stored alpha block (BC2: `bc2_alpha`,
  BC3: `bc4_options.dither` for `get_alpha(&block)`); `none`: no alpha block is stored -/
  alphaBlock : Option Switch
  /-- `options.dithering.alpha()` rewrites the pixels before the *joint* colour+alpha block is
  compressed (BC1 punch-through alpha, BC7) -/
  alphaJoint : Bool
deriving DecidableEq, Repr

/-- what the body of an encoder does with `options.dithering` -/
inductive EncKind where
  /-- never reads it (`copy_directly`, `uncompressed_untyped`, `uncompressed_universal`,
  `uncompressed_universal_subsample`, `bi_planar_universal`) -/
  | plain
  /-- `uncompressed_universal_dither`: Floyd–Steinberg with `error_mask` from `options.dithering` -/
  | fsDither
  /-- R1_UNORM's second encoder: ordered (Bayer) dithering, unconditional once picked -/
  | bayer
  | bc (w : BcWiring)
deriving DecidableEq, Repr

structure Enc where
  colors : ColorSet
  flags : SymFlags
  kind : EncKind
deriving DecidableEq, Repr

/-- `Encoder::copy(color)` -/
def Enc.copy (c : ColorFormat) : Enc := ⟨.single c, ⟨some c.precision, false, false⟩, .plain⟩
/-- `color_convert!(target)` -/
def Enc.convert (c : ColorFormat) : Enc := ⟨.ofPrec c.precision, ⟨some c.precision, false, false⟩, .plain⟩
/-- `Encoder::new(ColorFormatSet::U8, Flags::EXACT_U8, ..)` -/
def Enc.u8Only : Enc := ⟨.ofPrec .u8, ⟨some .u8, false, false⟩, .plain⟩
/-- `universal!(..)` / `universal_subsample!(..)` / `Encoder::new_universal(..)` -/
def Enc.universal : Enc := ⟨.all, ⟨none, false, false⟩, .plain⟩
/-- `universal!(..).add_flags(Flags::EXACT_x)` -/
def Enc.universalExact (p : Precision) : Enc := ⟨.all, ⟨some p, false, false⟩, .plain⟩
/-- `universal_dither!(..)` with `DITHER_COLOR` (gray, rg, explicit) -/
def Enc.ditherC : Enc := ⟨.all, ⟨none, true, false⟩, .fsDither⟩
/-- `universal_dither!(..)` with `DITHER_ALPHA` -/
def Enc.ditherA : Enc := ⟨.all, ⟨none, false, true⟩, .fsDither⟩
/-- `universal_dither!(..)` with `DITHER_ALL` -/
def Enc.ditherCA : Enc := ⟨.all, ⟨none, true, true⟩, .fsDither⟩
def Enc.bcC (w : BcWiring) : Enc := ⟨.all, ⟨none, true, false⟩, .bc w⟩
def Enc.bcCA (w : BcWiring) : Enc := ⟨.all, ⟨none, true, true⟩, .bc w⟩

/-- which `EncoderSet` constructor -/
inductive SetCtor where
  | plain | bc | biPlanar
deriving DecidableEq, Repr

structure EncSet where
  ctor : SetCtor
  encs : List Enc
deriving Repr

def gU8 : ColorFormat := ⟨.gray, .u8⟩
def aU8 : ColorFormat := ⟨.alpha, .u8⟩
def rgbU8 : ColorFormat := ⟨.rgb, .u8⟩
def rgbaU8 : ColorFormat := ⟨.rgba, .u8⟩
def gU16 : ColorFormat := ⟨.gray, .u16⟩
def rgbaU16 : ColorFormat := ⟨.rgba, .u16⟩
def gF32 : ColorFormat := ⟨.gray, .f32⟩
def rgbF32 : ColorFormat := ⟨.rgb, .f32⟩
def rgbaF32 : ColorFormat := ⟨.rgba, .f32⟩

/-- colour blocks only, colour switch (BC4, BC5, RXGB, NORMAL: every stored block carries colour) -/
def wColorOnly : BcWiring := ⟨.color, none, false⟩
/-- BC2 / BC3 (+ premultiplied): alpha block follows the alpha switch, colour block the colour switch -/
def wSeparate : BcWiring := ⟨.color, some .alpha, false⟩
/-- BC1, BC7: one joint block; alpha dithering rewrites its input -/
def wJoint : BcWiring := ⟨.color, none, true⟩

/-- `encode::get_encoders` with the lists of uncompressed.rs / sub_sampled.rs / bi_planar.rs / bc.rs -/
def encoderSet : Format → Option EncSet
  | .R8G8B8_UNORM => some ⟨.plain, [.copy rgbU8, .convert rgbU8, .universal, .ditherC]⟩
  | .B8G8R8_UNORM => some ⟨.plain, [.u8Only, .universal, .ditherC]⟩
  | .R8G8B8A8_UNORM => some ⟨.plain, [.copy rgbaU8, .convert rgbaU8, .universal, .ditherCA]⟩
  | .R8G8B8A8_SNORM => some ⟨.plain, [.convert rgbaU8, .universal, .ditherCA]⟩
  | .B8G8R8A8_UNORM => some ⟨.plain, [.u8Only, .universal, .ditherCA]⟩
  | .B8G8R8X8_UNORM => some ⟨.plain, [.u8Only, .universal, .ditherC]⟩
  | .B5G6R5_UNORM => some ⟨.plain, [.universal, .ditherC]⟩
  | .B5G5R5A1_UNORM => some ⟨.plain, [.universal, .ditherCA]⟩
  | .B4G4R4A4_UNORM => some ⟨.plain, [.universal, .ditherCA]⟩
  | .A4B4G4R4_UNORM => some ⟨.plain, [.universal, .ditherCA]⟩
  | .R8_SNORM => some ⟨.plain, [.convert gU8, .universal, .ditherC]⟩
  | .R8_UNORM => some ⟨.plain, [.copy gU8, .convert gU8, .universal, .ditherC]⟩
  | .R8G8_UNORM => some ⟨.plain, [.universalExact .u8, .ditherC]⟩
  | .R8G8_SNORM => some ⟨.plain, [.universalExact .u8, .ditherC]⟩
  | .A8_UNORM => some ⟨.plain, [.copy aU8, .convert aU8, .universal, .ditherA]⟩
  | .R16_UNORM => some ⟨.plain, [.copy gU16, .convert gU16, .universal, .ditherC]⟩
  | .R16_SNORM => some ⟨.plain, [.convert gU16, .universal, .ditherC]⟩
  | .R16G16_UNORM => some ⟨.plain, [.universalExact .u16, .ditherC]⟩
  | .R16G16_SNORM => some ⟨.plain, [.universalExact .u16, .ditherC]⟩
  | .R16G16B16A16_UNORM => some ⟨.plain, [.copy rgbaU16, .convert rgbaU16, .universal, .ditherCA]⟩
  | .R16G16B16A16_SNORM => some ⟨.plain, [.convert rgbaU16, .universal, .ditherCA]⟩
  | .R10G10B10A2_UNORM => some ⟨.plain, [.universal, .ditherCA]⟩
  | .R11G11B10_FLOAT => some ⟨.plain, [.universal, .ditherC]⟩
  | .R9G9B9E5_SHAREDEXP => some ⟨.plain, [.universalExact .u8, .ditherC]⟩
  | .R16_FLOAT => some ⟨.plain, [.universalExact .u8, .ditherC]⟩
  | .R16G16_FLOAT => some ⟨.plain, [.universalExact .u8, .ditherC]⟩
  | .R16G16B16A16_FLOAT => some ⟨.plain, [.universalExact .u8, .ditherCA]⟩
  | .R32_FLOAT => some ⟨.plain, [.copy gF32, .convert gF32, .universal]⟩
  | .R32G32_FLOAT => some ⟨.plain, [.universalExact .f32]⟩
  | .R32G32B32_FLOAT => some ⟨.plain, [.copy rgbF32, .convert rgbF32, .universal]⟩
  | .R32G32B32A32_FLOAT => some ⟨.plain, [.copy rgbaF32, .convert rgbaF32, .universal]⟩
  | .R10G10B10_XR_BIAS_A2_UNORM => some ⟨.plain, [.universal, .ditherCA]⟩
  | .AYUV => some ⟨.plain, [.universal, .ditherCA]⟩
  | .Y410 => some ⟨.plain, [.universal, .ditherCA]⟩
  | .Y416 => some ⟨.plain, [.universalExact .u8, .ditherCA]⟩
  | .R1_UNORM => some ⟨.plain, [.universal, ⟨.all, ⟨none, true, false⟩, .bayer⟩]⟩
  | .R8G8_B8G8_UNORM => some ⟨.plain, [.universalExact .u8]⟩
  | .G8R8_G8B8_UNORM => some ⟨.plain, [.universalExact .u8]⟩
  | .UYVY => some ⟨.plain, [.universal]⟩
  | .YUY2 => some ⟨.plain, [.universal]⟩
  | .Y210 => some ⟨.plain, [.universalExact .u8]⟩
  | .Y216 => some ⟨.plain, [.universalExact .u8]⟩
  | .NV12 => some ⟨.biPlanar, [.universal]⟩
  | .P010 => some ⟨.biPlanar, [.universal]⟩
  | .P016 => some ⟨.biPlanar, [.universal]⟩
  | .BC1_UNORM => some ⟨.bc, [.bcCA wJoint]⟩
  | .BC2_UNORM => some ⟨.bc, [.bcCA wSeparate]⟩
  | .BC2_UNORM_PREMULTIPLIED_ALPHA => some ⟨.bc, [.bcCA wSeparate]⟩
  | .BC3_UNORM => some ⟨.bc, [.bcCA wSeparate]⟩
  | .BC3_UNORM_PREMULTIPLIED_ALPHA => some ⟨.bc, [.bcCA wSeparate]⟩
  | .BC4_UNORM => some ⟨.bc, [.bcC wColorOnly]⟩
  | .BC4_SNORM => some ⟨.bc, [.bcC wColorOnly]⟩
  | .BC5_UNORM => some ⟨.bc, [.bcC wColorOnly]⟩
  | .BC5_SNORM => some ⟨.bc, [.bcC wColorOnly]⟩
  | .BC7_UNORM => some ⟨.bc, [.bcCA wJoint]⟩
  | .BC3_UNORM_RXGB => some ⟨.bc, [.bcC wColorOnly]⟩
  | .BC3_UNORM_NORMAL => some ⟨.bc, [.bcC wColorOnly]⟩
  | .BC6H_UF16 | .BC6H_SF16 => none
  | .ASTC_4X4_UNORM | .ASTC_5X4_UNORM | .ASTC_5X5_UNORM | .ASTC_6X5_UNORM | .ASTC_6X6_UNORM
  | .ASTC_8X5_UNORM | .ASTC_8X6_UNORM | .ASTC_8X8_UNORM | .ASTC_10X5_UNORM | .ASTC_10X6_UNORM
  | .ASTC_10X8_UNORM | .ASTC_10X10_UNORM | .ASTC_12X10_UNORM | .ASTC_12X12_UNORM => none

/-- src/encode/mod.rs `EncodingSupport` (public part) -/
structure Support where
  dithering : Dithering
  splitHeight : Option Nat
  localDithering : Bool
  sizeMultiple : Option (Nat × Nat)
deriving DecidableEq, Repr

/-- `EncoderSet::new`: union of the stored flag bytes -/
def EncSet.combinedBits (s : EncSet) : Nat := s.encs.foldl (fun acc e => acc ||| e.flags.bits) 0

/-- `EncoderSet::{new,new_bc,new_bi_planar}` followed by `EncoderSet::encoding_support` -/
def EncSet.support (s : EncSet) : Support :=
  { dithering := getDithering s.combinedBits
    splitHeight := match s.ctor with | .plain => some 1 | .bc => some 4 | .biPlanar => none
    localDithering := s.ctor == .bc
    sizeMultiple := match s.ctor with | .biPlanar => some (2, 2) | _ => none }

/-- `Format::encoding_support` -/
def encodingSupport (f : Format) : Option Support := (encoderSet f).map (·.support)

/-- `EncodingSupport::supports_size` -/
def Support.supportsSize (s : Support) (w h : Nat) : Bool :=
  match s.sizeMultiple with
  | some (mw, mh) => w % mw == 0 && h % mh == 0
  | none => true

/-- `EncoderSet::pick_encoder` over the encoders accepting the colour: index of the chosen
encoder; `none` = the `expect("all color formats to be supported")` panics -/
def pickFrom (cands : List (Enc × Nat)) (c : ColorFormat) (d : Dithering) : Option Nat :=
  match cands.find? (fun e => flagsContain e.1.flags.bits (exactFor c.precision)) with
  | some e => some e.2
  | none =>
    match (if d ≠ Dithering.none then
             cands.find? (fun e => (getDithering e.1.flags.bits).intersect d ≠ Dithering.none)
           else none) with
    | some e => some e.2
    | none => cands.head?.map (·.2)

def EncSet.candidates (s : EncSet) (c : ColorFormat) : List (Enc × Nat) :=
  s.encs.zipIdx.filter (fun e => e.1.colors.contains c)

def EncSet.pick (s : EncSet) (c : ColorFormat) (d : Dithering) : Option Nat :=
  pickFrom (s.candidates c) c d

/-- The channel groups whose stored values an encoder body actually dithers when run with option
`d`.  `fsDither`: `error_mask` has the requested groups and the quantiser closure diffuses only the
groups it encodes, which are the groups of its flags (gray/rg/rgb closures feed constant 1.0 back
for the others).  `bc`: the switches of the wiring. -/
def Enc.effective (e : Enc) (d : Dithering) : Dithering :=
  match e.kind with
  | .plain => Dithering.none
  | .fsDither => d.intersect ⟨e.flags.ditherColor, e.flags.ditherAlpha⟩
  | .bayer => ⟨true, false⟩
  | .bc w =>
    ⟨w.colorBlock.on d,
     (match w.alphaBlock with | some s => s.on d | none => false) || (w.alphaJoint && d.alpha)⟩

/-- effective dithering of encoding colour `c` with option `d` in format `f` -/
def effectiveDithering (f : Format) (c : ColorFormat) (d : Dithering) : Option Dithering :=
  match encoderSet f with
  | none => none
  | some s =>
    match s.pick c d with
    | none => none
    | some i => (s.encs[i]?).map (·.effective d)

/-- does the format store alpha separately from colour (clause (c) of C19)?  Everything that is not
block compressed does (possibly with no alpha bits at all); a BC format does when no switch rewrites
a joint block. -/
def alphaIndependent (f : Format) : Bool :=
  match encoderSet f with
  | none => false
  | some s => s.encs.all fun e =>
      match e.kind with
      | .bc w => !w.alphaJoint
      | _ => true

end Dds.C19
