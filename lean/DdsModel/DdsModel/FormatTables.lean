/-
C19 — pinned format tables and the detection / metadata decision procedures.

Model of
  * src/header.rs   `DxgiFormat` (valid codes, names), `FourCC` constants, `MaskPixelFormat`,
                    `RgbBitCount`, `PixelFormatFlags` bit values
  * src/pixel.rs    `TryFrom<DxgiFormat> for PixelInfo`, `From<Format> for PixelInfo`,
                    `PixelInfo::from_header`, `PixelInfo::bits_per_pixel`
  * src/format.rs   `Format`, `Format::from_header`, `TryFrom<Format> for DxgiFormat / FourCC`,
                    `Format::color`, `Format::encoding_support`
  * src/detect.rs   `special_cases`, `dxgi_format_to_supported`, `four_cc_to_dxgi`,
                    `four_cc_to_supported`, `KNOWN_PIXEL_FORMATS`, `masked_to_supported`,
                    `supported_to_masked`
  * src/encode/encoder.rs  `Flags` (bit values incl. `DITHER_ALPHA = 0x16`), `Flags::exact_for`,
                    `Flags::get_dithering`, `EncoderSet::{new,new_bc,new_bi_planar,
                    encoding_support,pick_encoder}`
  * src/encode/mod.rs      `get_encoders`, `EncodingSupport::supports_size`, `Dithering`
  * src/encode/{uncompressed,sub_sampled,bi_planar,bc}.rs  the encoder lists (colour sets, flags,
                    which kind of body each encoder has)

The ROWS of the header / detection tables follow the source: the DXGI rows (`dxgiTable`, `dxgiValid`),
`specialCases`, the FourCC tables, `maskRows` (= `KNOWN_PIXEL_FORMATS`), `TryFrom<Format> for DxgiFormat / FourCC`
(`Format.row .dxgi / .fourCC`) and the explicit arms of `From<Format> for PixelInfo` are taken from `SrcTables.lean`,
which tools/extract_tables.py regenerates from /repo's working tree on every check run. The theorems of
`Theorems/C19.lean` that are `decide` over them are therefore re-checked for the rows the code has now.
PINNED (literal Lean data): the `Format` inductive, per format the name, the layout the format definition gives
(`Format.spec .px`, the specification side of `metadata_consistent`) and the decoder's native colour, and the
encoder lists (`encoderSet`, transcribed from the macro-built lists of src/encode/*.rs). Everything is compared with
the library exhaustively on every run (cases `M`, `H` of the C19 stream); for the translated rows that comparison
validates the translator.
-/
import DdsModel.Layout
import DdsModel.SrcTables
namespace Dds.C19
open Dds

/-- src/format.rs `Format` (73 variants, declaration order of the harness list) -/
inductive Format where
  | R8G8B8_UNORM | B8G8R8_UNORM | R8G8B8A8_UNORM | R8G8B8A8_SNORM
  | B8G8R8A8_UNORM | B8G8R8X8_UNORM | B5G6R5_UNORM | B5G5R5A1_UNORM
  | B4G4R4A4_UNORM | A4B4G4R4_UNORM | R8_SNORM | R8_UNORM
  | R8G8_UNORM | R8G8_SNORM | A8_UNORM | R16_UNORM
  | R16_SNORM | R16G16_UNORM | R16G16_SNORM | R16G16B16A16_UNORM
  | R16G16B16A16_SNORM | R10G10B10A2_UNORM | R11G11B10_FLOAT | R9G9B9E5_SHAREDEXP
  | R16_FLOAT | R16G16_FLOAT | R16G16B16A16_FLOAT | R32_FLOAT
  | R32G32_FLOAT | R32G32B32_FLOAT | R32G32B32A32_FLOAT | R10G10B10_XR_BIAS_A2_UNORM
  | AYUV | Y410 | Y416 | R1_UNORM
  | R8G8_B8G8_UNORM | G8R8_G8B8_UNORM | UYVY | YUY2
  | Y210 | Y216 | NV12 | P010
  | P016 | BC1_UNORM | BC2_UNORM | BC2_UNORM_PREMULTIPLIED_ALPHA
  | BC3_UNORM | BC3_UNORM_PREMULTIPLIED_ALPHA | BC4_UNORM | BC4_SNORM
  | BC5_UNORM | BC5_SNORM | BC6H_UF16 | BC6H_SF16
  | BC7_UNORM | ASTC_4X4_UNORM | ASTC_5X4_UNORM | ASTC_5X5_UNORM
  | ASTC_6X5_UNORM | ASTC_6X6_UNORM | ASTC_8X5_UNORM | ASTC_8X6_UNORM
  | ASTC_8X8_UNORM | ASTC_10X5_UNORM | ASTC_10X6_UNORM | ASTC_10X8_UNORM
  | ASTC_10X10_UNORM | ASTC_12X10_UNORM | ASTC_12X12_UNORM | BC3_UNORM_RXGB
  | BC3_UNORM_NORMAL
deriving DecidableEq, Repr, Inhabited

/-- every format, in the order used by the case lines (`M <n>`, `D <n> ..`) -/
def Format.all : List Format :=
  [.R8G8B8_UNORM, .B8G8R8_UNORM, .R8G8B8A8_UNORM, .R8G8B8A8_SNORM,
   .B8G8R8A8_UNORM, .B8G8R8X8_UNORM, .B5G6R5_UNORM, .B5G5R5A1_UNORM,
   .B4G4R4A4_UNORM, .A4B4G4R4_UNORM, .R8_SNORM, .R8_UNORM,
   .R8G8_UNORM, .R8G8_SNORM, .A8_UNORM, .R16_UNORM,
   .R16_SNORM, .R16G16_UNORM, .R16G16_SNORM, .R16G16B16A16_UNORM,
   .R16G16B16A16_SNORM, .R10G10B10A2_UNORM, .R11G11B10_FLOAT, .R9G9B9E5_SHAREDEXP,
   .R16_FLOAT, .R16G16_FLOAT, .R16G16B16A16_FLOAT, .R32_FLOAT,
   .R32G32_FLOAT, .R32G32B32_FLOAT, .R32G32B32A32_FLOAT, .R10G10B10_XR_BIAS_A2_UNORM,
   .AYUV, .Y410, .Y416, .R1_UNORM,
   .R8G8_B8G8_UNORM, .G8R8_G8B8_UNORM, .UYVY, .YUY2,
   .Y210, .Y216, .NV12, .P010,
   .P016, .BC1_UNORM, .BC2_UNORM, .BC2_UNORM_PREMULTIPLIED_ALPHA,
   .BC3_UNORM, .BC3_UNORM_PREMULTIPLIED_ALPHA, .BC4_UNORM, .BC4_SNORM,
   .BC5_UNORM, .BC5_SNORM, .BC6H_UF16, .BC6H_SF16,
   .BC7_UNORM, .ASTC_4X4_UNORM, .ASTC_5X4_UNORM, .ASTC_5X5_UNORM,
   .ASTC_6X5_UNORM, .ASTC_6X6_UNORM, .ASTC_8X5_UNORM, .ASTC_8X6_UNORM,
   .ASTC_8X8_UNORM, .ASTC_10X5_UNORM, .ASTC_10X6_UNORM, .ASTC_10X8_UNORM,
   .ASTC_10X10_UNORM, .ASTC_12X10_UNORM, .ASTC_12X12_UNORM, .BC3_UNORM_RXGB,
   .BC3_UNORM_NORMAL]

/-- `Dds.C19.Format` and `Dds.Format` (FormatEnum.lean) are the same enumeration; the translated rows name the latter -/
def Format.toH : Format → Dds.Format
  | .R8G8B8_UNORM => .R8G8B8_UNORM
  | .B8G8R8_UNORM => .B8G8R8_UNORM
  | .R8G8B8A8_UNORM => .R8G8B8A8_UNORM
  | .R8G8B8A8_SNORM => .R8G8B8A8_SNORM
  | .B8G8R8A8_UNORM => .B8G8R8A8_UNORM
  | .B8G8R8X8_UNORM => .B8G8R8X8_UNORM
  | .B5G6R5_UNORM => .B5G6R5_UNORM
  | .B5G5R5A1_UNORM => .B5G5R5A1_UNORM
  | .B4G4R4A4_UNORM => .B4G4R4A4_UNORM
  | .A4B4G4R4_UNORM => .A4B4G4R4_UNORM
  | .R8_SNORM => .R8_SNORM
  | .R8_UNORM => .R8_UNORM
  | .R8G8_UNORM => .R8G8_UNORM
  | .R8G8_SNORM => .R8G8_SNORM
  | .A8_UNORM => .A8_UNORM
  | .R16_UNORM => .R16_UNORM
  | .R16_SNORM => .R16_SNORM
  | .R16G16_UNORM => .R16G16_UNORM
  | .R16G16_SNORM => .R16G16_SNORM
  | .R16G16B16A16_UNORM => .R16G16B16A16_UNORM
  | .R16G16B16A16_SNORM => .R16G16B16A16_SNORM
  | .R10G10B10A2_UNORM => .R10G10B10A2_UNORM
  | .R11G11B10_FLOAT => .R11G11B10_FLOAT
  | .R9G9B9E5_SHAREDEXP => .R9G9B9E5_SHAREDEXP
  | .R16_FLOAT => .R16_FLOAT
  | .R16G16_FLOAT => .R16G16_FLOAT
  | .R16G16B16A16_FLOAT => .R16G16B16A16_FLOAT
  | .R32_FLOAT => .R32_FLOAT
  | .R32G32_FLOAT => .R32G32_FLOAT
  | .R32G32B32_FLOAT => .R32G32B32_FLOAT
  | .R32G32B32A32_FLOAT => .R32G32B32A32_FLOAT
  | .R10G10B10_XR_BIAS_A2_UNORM => .R10G10B10_XR_BIAS_A2_UNORM
  | .AYUV => .AYUV
  | .Y410 => .Y410
  | .Y416 => .Y416
  | .R1_UNORM => .R1_UNORM
  | .R8G8_B8G8_UNORM => .R8G8_B8G8_UNORM
  | .G8R8_G8B8_UNORM => .G8R8_G8B8_UNORM
  | .UYVY => .UYVY
  | .YUY2 => .YUY2
  | .Y210 => .Y210
  | .Y216 => .Y216
  | .NV12 => .NV12
  | .P010 => .P010
  | .P016 => .P016
  | .BC1_UNORM => .BC1_UNORM
  | .BC2_UNORM => .BC2_UNORM
  | .BC2_UNORM_PREMULTIPLIED_ALPHA => .BC2_UNORM_PREMULTIPLIED_ALPHA
  | .BC3_UNORM => .BC3_UNORM
  | .BC3_UNORM_PREMULTIPLIED_ALPHA => .BC3_UNORM_PREMULTIPLIED_ALPHA
  | .BC4_UNORM => .BC4_UNORM
  | .BC4_SNORM => .BC4_SNORM
  | .BC5_UNORM => .BC5_UNORM
  | .BC5_SNORM => .BC5_SNORM
  | .BC6H_UF16 => .BC6H_UF16
  | .BC6H_SF16 => .BC6H_SF16
  | .BC7_UNORM => .BC7_UNORM
  | .ASTC_4X4_UNORM => .ASTC_4X4_UNORM
  | .ASTC_5X4_UNORM => .ASTC_5X4_UNORM
  | .ASTC_5X5_UNORM => .ASTC_5X5_UNORM
  | .ASTC_6X5_UNORM => .ASTC_6X5_UNORM
  | .ASTC_6X6_UNORM => .ASTC_6X6_UNORM
  | .ASTC_8X5_UNORM => .ASTC_8X5_UNORM
  | .ASTC_8X6_UNORM => .ASTC_8X6_UNORM
  | .ASTC_8X8_UNORM => .ASTC_8X8_UNORM
  | .ASTC_10X5_UNORM => .ASTC_10X5_UNORM
  | .ASTC_10X6_UNORM => .ASTC_10X6_UNORM
  | .ASTC_10X8_UNORM => .ASTC_10X8_UNORM
  | .ASTC_10X10_UNORM => .ASTC_10X10_UNORM
  | .ASTC_12X10_UNORM => .ASTC_12X10_UNORM
  | .ASTC_12X12_UNORM => .ASTC_12X12_UNORM
  | .BC3_UNORM_RXGB => .BC3_UNORM_RXGB
  | .BC3_UNORM_NORMAL => .BC3_UNORM_NORMAL

/-- inverse of `Format.toH` -/
def Format.ofH : Dds.Format → Format
  | .R8G8B8_UNORM => .R8G8B8_UNORM
  | .B8G8R8_UNORM => .B8G8R8_UNORM
  | .R8G8B8A8_UNORM => .R8G8B8A8_UNORM
  | .R8G8B8A8_SNORM => .R8G8B8A8_SNORM
  | .B8G8R8A8_UNORM => .B8G8R8A8_UNORM
  | .B8G8R8X8_UNORM => .B8G8R8X8_UNORM
  | .B5G6R5_UNORM => .B5G6R5_UNORM
  | .B5G5R5A1_UNORM => .B5G5R5A1_UNORM
  | .B4G4R4A4_UNORM => .B4G4R4A4_UNORM
  | .A4B4G4R4_UNORM => .A4B4G4R4_UNORM
  | .R8_SNORM => .R8_SNORM
  | .R8_UNORM => .R8_UNORM
  | .R8G8_UNORM => .R8G8_UNORM
  | .R8G8_SNORM => .R8G8_SNORM
  | .A8_UNORM => .A8_UNORM
  | .R16_UNORM => .R16_UNORM
  | .R16_SNORM => .R16_SNORM
  | .R16G16_UNORM => .R16G16_UNORM
  | .R16G16_SNORM => .R16G16_SNORM
  | .R16G16B16A16_UNORM => .R16G16B16A16_UNORM
  | .R16G16B16A16_SNORM => .R16G16B16A16_SNORM
  | .R10G10B10A2_UNORM => .R10G10B10A2_UNORM
  | .R11G11B10_FLOAT => .R11G11B10_FLOAT
  | .R9G9B9E5_SHAREDEXP => .R9G9B9E5_SHAREDEXP
  | .R16_FLOAT => .R16_FLOAT
  | .R16G16_FLOAT => .R16G16_FLOAT
  | .R16G16B16A16_FLOAT => .R16G16B16A16_FLOAT
  | .R32_FLOAT => .R32_FLOAT
  | .R32G32_FLOAT => .R32G32_FLOAT
  | .R32G32B32_FLOAT => .R32G32B32_FLOAT
  | .R32G32B32A32_FLOAT => .R32G32B32A32_FLOAT
  | .R10G10B10_XR_BIAS_A2_UNORM => .R10G10B10_XR_BIAS_A2_UNORM
  | .AYUV => .AYUV
  | .Y410 => .Y410
  | .Y416 => .Y416
  | .R1_UNORM => .R1_UNORM
  | .R8G8_B8G8_UNORM => .R8G8_B8G8_UNORM
  | .G8R8_G8B8_UNORM => .G8R8_G8B8_UNORM
  | .UYVY => .UYVY
  | .YUY2 => .YUY2
  | .Y210 => .Y210
  | .Y216 => .Y216
  | .NV12 => .NV12
  | .P010 => .P010
  | .P016 => .P016
  | .BC1_UNORM => .BC1_UNORM
  | .BC2_UNORM => .BC2_UNORM
  | .BC2_UNORM_PREMULTIPLIED_ALPHA => .BC2_UNORM_PREMULTIPLIED_ALPHA
  | .BC3_UNORM => .BC3_UNORM
  | .BC3_UNORM_PREMULTIPLIED_ALPHA => .BC3_UNORM_PREMULTIPLIED_ALPHA
  | .BC4_UNORM => .BC4_UNORM
  | .BC4_SNORM => .BC4_SNORM
  | .BC5_UNORM => .BC5_UNORM
  | .BC5_SNORM => .BC5_SNORM
  | .BC6H_UF16 => .BC6H_UF16
  | .BC6H_SF16 => .BC6H_SF16
  | .BC7_UNORM => .BC7_UNORM
  | .ASTC_4X4_UNORM => .ASTC_4X4_UNORM
  | .ASTC_5X4_UNORM => .ASTC_5X4_UNORM
  | .ASTC_5X5_UNORM => .ASTC_5X5_UNORM
  | .ASTC_6X5_UNORM => .ASTC_6X5_UNORM
  | .ASTC_6X6_UNORM => .ASTC_6X6_UNORM
  | .ASTC_8X5_UNORM => .ASTC_8X5_UNORM
  | .ASTC_8X6_UNORM => .ASTC_8X6_UNORM
  | .ASTC_8X8_UNORM => .ASTC_8X8_UNORM
  | .ASTC_10X5_UNORM => .ASTC_10X5_UNORM
  | .ASTC_10X6_UNORM => .ASTC_10X6_UNORM
  | .ASTC_10X8_UNORM => .ASTC_10X8_UNORM
  | .ASTC_10X10_UNORM => .ASTC_10X10_UNORM
  | .ASTC_12X10_UNORM => .ASTC_12X10_UNORM
  | .ASTC_12X12_UNORM => .ASTC_12X12_UNORM
  | .BC3_UNORM_RXGB => .BC3_UNORM_RXGB
  | .BC3_UNORM_NORMAL => .BC3_UNORM_NORMAL

/-- src/color/mod.rs `Channels` -/
inductive Channels where
  | gray | alpha | rgb | rgba
deriving DecidableEq, Repr, Inhabited

/-- src/color/mod.rs `Precision` -/
inductive Precision where
  | u8 | u16 | f32
deriving DecidableEq, Repr, Inhabited

structure ColorFormat where
  channels : Channels
  precision : Precision
deriving DecidableEq, Repr, Inhabited

/-- the 12 colour formats in the order of the case lines -/
def ColorFormat.all : List ColorFormat :=
  [⟨.gray, .u8⟩, ⟨.alpha, .u8⟩, ⟨.rgb, .u8⟩, ⟨.rgba, .u8⟩,
   ⟨.gray, .u16⟩, ⟨.alpha, .u16⟩, ⟨.rgb, .u16⟩, ⟨.rgba, .u16⟩,
   ⟨.gray, .f32⟩, ⟨.alpha, .f32⟩, ⟨.rgb, .f32⟩, ⟨.rgba, .f32⟩]

/-! ## Format rows: name, pixel layout, native colour, canonical DXGI code, FourCC written -/

/-- the pinned part of a format's row -/
structure FormatSpec where
  name : String
  /-- the layout of the format as the format definition gives it (DXGI documentation) — specification, pinned -/
  px : PixelInfo
  /-- native colour of the decoder (`Format::color`) -/
  color : ColorFormat

def Format.spec : Format → FormatSpec
  | .R8G8B8_UNORM => ⟨"R8G8B8_UNORM", .fixed 3, ⟨.rgb, .u8⟩⟩
  | .B8G8R8_UNORM => ⟨"B8G8R8_UNORM", .fixed 3, ⟨.rgb, .u8⟩⟩
  | .R8G8B8A8_UNORM => ⟨"R8G8B8A8_UNORM", .fixed 4, ⟨.rgba, .u8⟩⟩
  | .R8G8B8A8_SNORM => ⟨"R8G8B8A8_SNORM", .fixed 4, ⟨.rgba, .u8⟩⟩
  | .B8G8R8A8_UNORM => ⟨"B8G8R8A8_UNORM", .fixed 4, ⟨.rgba, .u8⟩⟩
  | .B8G8R8X8_UNORM => ⟨"B8G8R8X8_UNORM", .fixed 4, ⟨.rgb, .u8⟩⟩
  | .B5G6R5_UNORM => ⟨"B5G6R5_UNORM", .fixed 2, ⟨.rgb, .u8⟩⟩
  | .B5G5R5A1_UNORM => ⟨"B5G5R5A1_UNORM", .fixed 2, ⟨.rgba, .u8⟩⟩
  | .B4G4R4A4_UNORM => ⟨"B4G4R4A4_UNORM", .fixed 2, ⟨.rgba, .u8⟩⟩
  | .A4B4G4R4_UNORM => ⟨"A4B4G4R4_UNORM", .fixed 2, ⟨.rgba, .u8⟩⟩
  | .R8_SNORM => ⟨"R8_SNORM", .fixed 1, ⟨.gray, .u8⟩⟩
  | .R8_UNORM => ⟨"R8_UNORM", .fixed 1, ⟨.gray, .u8⟩⟩
  | .R8G8_UNORM => ⟨"R8G8_UNORM", .fixed 2, ⟨.rgb, .u8⟩⟩
  | .R8G8_SNORM => ⟨"R8G8_SNORM", .fixed 2, ⟨.rgb, .u8⟩⟩
  | .A8_UNORM => ⟨"A8_UNORM", .fixed 1, ⟨.alpha, .u8⟩⟩
  | .R16_UNORM => ⟨"R16_UNORM", .fixed 2, ⟨.gray, .u16⟩⟩
  | .R16_SNORM => ⟨"R16_SNORM", .fixed 2, ⟨.gray, .u16⟩⟩
  | .R16G16_UNORM => ⟨"R16G16_UNORM", .fixed 4, ⟨.rgb, .u16⟩⟩
  | .R16G16_SNORM => ⟨"R16G16_SNORM", .fixed 4, ⟨.rgb, .u16⟩⟩
  | .R16G16B16A16_UNORM => ⟨"R16G16B16A16_UNORM", .fixed 8, ⟨.rgba, .u16⟩⟩
  | .R16G16B16A16_SNORM => ⟨"R16G16B16A16_SNORM", .fixed 8, ⟨.rgba, .u16⟩⟩
  | .R10G10B10A2_UNORM => ⟨"R10G10B10A2_UNORM", .fixed 4, ⟨.rgba, .u16⟩⟩
  | .R11G11B10_FLOAT => ⟨"R11G11B10_FLOAT", .fixed 4, ⟨.rgb, .f32⟩⟩
  | .R9G9B9E5_SHAREDEXP => ⟨"R9G9B9E5_SHAREDEXP", .fixed 4, ⟨.rgb, .f32⟩⟩
  | .R16_FLOAT => ⟨"R16_FLOAT", .fixed 2, ⟨.gray, .f32⟩⟩
  | .R16G16_FLOAT => ⟨"R16G16_FLOAT", .fixed 4, ⟨.rgb, .f32⟩⟩
  | .R16G16B16A16_FLOAT => ⟨"R16G16B16A16_FLOAT", .fixed 8, ⟨.rgba, .f32⟩⟩
  | .R32_FLOAT => ⟨"R32_FLOAT", .fixed 4, ⟨.gray, .f32⟩⟩
  | .R32G32_FLOAT => ⟨"R32G32_FLOAT", .fixed 8, ⟨.rgb, .f32⟩⟩
  | .R32G32B32_FLOAT => ⟨"R32G32B32_FLOAT", .fixed 12, ⟨.rgb, .f32⟩⟩
  | .R32G32B32A32_FLOAT => ⟨"R32G32B32A32_FLOAT", .fixed 16, ⟨.rgba, .f32⟩⟩
  | .R10G10B10_XR_BIAS_A2_UNORM => ⟨"R10G10B10_XR_BIAS_A2_UNORM", .fixed 4, ⟨.rgba, .f32⟩⟩
  | .AYUV => ⟨"AYUV", .fixed 4, ⟨.rgba, .u8⟩⟩
  | .Y410 => ⟨"Y410", .fixed 4, ⟨.rgba, .u16⟩⟩
  | .Y416 => ⟨"Y416", .fixed 8, ⟨.rgba, .u16⟩⟩
  | .R1_UNORM => ⟨"R1_UNORM", .block 1 8 1, ⟨.gray, .u8⟩⟩
  | .R8G8_B8G8_UNORM => ⟨"R8G8_B8G8_UNORM", .block 4 2 1, ⟨.rgb, .u8⟩⟩
  | .G8R8_G8B8_UNORM => ⟨"G8R8_G8B8_UNORM", .block 4 2 1, ⟨.rgb, .u8⟩⟩
  | .UYVY => ⟨"UYVY", .block 4 2 1, ⟨.rgb, .u8⟩⟩
  | .YUY2 => ⟨"YUY2", .block 4 2 1, ⟨.rgb, .u8⟩⟩
  | .Y210 => ⟨"Y210", .block 8 2 1, ⟨.rgb, .u16⟩⟩
  | .Y216 => ⟨"Y216", .block 8 2 1, ⟨.rgb, .u16⟩⟩
  | .NV12 => ⟨"NV12", .biPlanar 1 2 2 2, ⟨.rgb, .u8⟩⟩
  | .P010 => ⟨"P010", .biPlanar 2 4 2 2, ⟨.rgb, .u16⟩⟩
  | .P016 => ⟨"P016", .biPlanar 2 4 2 2, ⟨.rgb, .u16⟩⟩
  | .BC1_UNORM => ⟨"BC1_UNORM", .block 8 4 4, ⟨.rgba, .u8⟩⟩
  | .BC2_UNORM => ⟨"BC2_UNORM", .block 16 4 4, ⟨.rgba, .u8⟩⟩
  | .BC2_UNORM_PREMULTIPLIED_ALPHA => ⟨"BC2_UNORM_PREMULTIPLIED_ALPHA", .block 16 4 4, ⟨.rgba, .u8⟩⟩
  | .BC3_UNORM => ⟨"BC3_UNORM", .block 16 4 4, ⟨.rgba, .u8⟩⟩
  | .BC3_UNORM_PREMULTIPLIED_ALPHA => ⟨"BC3_UNORM_PREMULTIPLIED_ALPHA", .block 16 4 4, ⟨.rgba, .u8⟩⟩
  | .BC4_UNORM => ⟨"BC4_UNORM", .block 8 4 4, ⟨.gray, .u8⟩⟩
  | .BC4_SNORM => ⟨"BC4_SNORM", .block 8 4 4, ⟨.gray, .u8⟩⟩
  | .BC5_UNORM => ⟨"BC5_UNORM", .block 16 4 4, ⟨.rgb, .u8⟩⟩
  | .BC5_SNORM => ⟨"BC5_SNORM", .block 16 4 4, ⟨.rgb, .u8⟩⟩
  | .BC6H_UF16 => ⟨"BC6H_UF16", .block 16 4 4, ⟨.rgb, .f32⟩⟩
  | .BC6H_SF16 => ⟨"BC6H_SF16", .block 16 4 4, ⟨.rgb, .f32⟩⟩
  | .BC7_UNORM => ⟨"BC7_UNORM", .block 16 4 4, ⟨.rgba, .u8⟩⟩
  | .ASTC_4X4_UNORM => ⟨"ASTC_4X4_UNORM", .block 16 4 4, ⟨.rgba, .u8⟩⟩
  | .ASTC_5X4_UNORM => ⟨"ASTC_5X4_UNORM", .block 16 5 4, ⟨.rgba, .u8⟩⟩
  | .ASTC_5X5_UNORM => ⟨"ASTC_5X5_UNORM", .block 16 5 5, ⟨.rgba, .u8⟩⟩
  | .ASTC_6X5_UNORM => ⟨"ASTC_6X5_UNORM", .block 16 6 5, ⟨.rgba, .u8⟩⟩
  | .ASTC_6X6_UNORM => ⟨"ASTC_6X6_UNORM", .block 16 6 6, ⟨.rgba, .u8⟩⟩
  | .ASTC_8X5_UNORM => ⟨"ASTC_8X5_UNORM", .block 16 8 5, ⟨.rgba, .u8⟩⟩
  | .ASTC_8X6_UNORM => ⟨"ASTC_8X6_UNORM", .block 16 8 6, ⟨.rgba, .u8⟩⟩
  | .ASTC_8X8_UNORM => ⟨"ASTC_8X8_UNORM", .block 16 8 8, ⟨.rgba, .u8⟩⟩
  | .ASTC_10X5_UNORM => ⟨"ASTC_10X5_UNORM", .block 16 10 5, ⟨.rgba, .u8⟩⟩
  | .ASTC_10X6_UNORM => ⟨"ASTC_10X6_UNORM", .block 16 10 6, ⟨.rgba, .u8⟩⟩
  | .ASTC_10X8_UNORM => ⟨"ASTC_10X8_UNORM", .block 16 10 8, ⟨.rgba, .u8⟩⟩
  | .ASTC_10X10_UNORM => ⟨"ASTC_10X10_UNORM", .block 16 10 10, ⟨.rgba, .u8⟩⟩
  | .ASTC_12X10_UNORM => ⟨"ASTC_12X10_UNORM", .block 16 12 10, ⟨.rgba, .u8⟩⟩
  | .ASTC_12X12_UNORM => ⟨"ASTC_12X12_UNORM", .block 16 12 12, ⟨.rgba, .u8⟩⟩
  | .BC3_UNORM_RXGB => ⟨"BC3_UNORM_RXGB", .block 16 4 4, ⟨.rgb, .u8⟩⟩
  | .BC3_UNORM_NORMAL => ⟨"BC3_UNORM_NORMAL", .block 16 4 4, ⟨.rgb, .u8⟩⟩

structure FormatRow where
  name : String
  /-- the layout of the format as the format definition gives it (DXGI documentation) -/
  px : PixelInfo
  /-- native colour of the decoder (`Format::color`) -/
  color : ColorFormat
  /-- `TryFrom<Format> for DxgiFormat` (translated: `SrcTables.formatToDxgi`) -/
  dxgi : Option Nat
  /-- `TryFrom<Format> for FourCC` (translated: `SrcTables.formatToFourCC`) -/
  fourCC : Option Nat

def Format.row (f : Format) : FormatRow :=
  { name := f.spec.name, px := f.spec.px, color := f.spec.color,
    dxgi := SrcTables.formatToDxgi.lookup f.toH, fourCC := SrcTables.formatToFourCC.lookup f.toH }

def Format.name (f : Format) : String := f.row.name

/-! ## DXGI codes -/

structure DxgiRow where
  code : Nat
  name : String
  /-- `TryFrom<DxgiFormat> for PixelInfo` (`none` = `Err(())`) -/
  px : Option PixelInfo
  /-- `detect::dxgi_format_to_supported` -/
  fmt : Option Format

/-- one row per named `DxgiFormat` constant (rows translated from `define_dxgi_formats!`, `TryFrom<DxgiFormat> for
PixelInfo` and `dxgi_format_to_supported`); `dxgi_codes_complete`: these are exactly the accepted codes -/
def dxgiTable : List DxgiRow :=
  SrcTables.dxgiNamed.map fun r => ⟨r.code, r.name, r.px, r.supported.map Format.ofH⟩

def dxgiRow? (code : Nat) : Option DxgiRow := dxgiTable.find? (·.code == code)

/-- `DxgiFormat::try_from(code).is_ok()`: the runs of accepted codes, translated from the source's range pattern -/
def dxgiValid (v : Nat) : Bool := SrcTables.dxgiValidRanges.any fun r => decide (r.1 ≤ v) && decide (v ≤ r.2)

/-- `PixelInfo::try_from(dxgi)` -/
def dxgiPixelInfo (code : Nat) : Option PixelInfo := (dxgiRow? code).bind (·.px)

/-- `detect::dxgi_format_to_supported` -/
def dxgiToFormat (code : Nat) : Option Format := (dxgiRow? code).bind (·.fmt)

/-- `detect::special_cases` (rows translated: alpha mode `Premultiplied = 2` with BC2_UNORM (74) / BC3_UNORM (77)) -/
def specialCases (code alphaMode : Nat) : Option Format :=
  (SrcTables.specialCases.find? fun t => t.1 == alphaMode && t.2.1 == code).map fun t => Format.ofH t.2.2

/-! ## FourCC -/

/-- little-endian ASCII FourCC -/
def fcc (a b c d : Char) : Nat := a.toNat + 256 * b.toNat + 65536 * c.toNat + 16777216 * d.toNat

def FCC_DXT1 := fcc 'D' 'X' 'T' '1'
def FCC_DXT2 := fcc 'D' 'X' 'T' '2'
def FCC_DXT3 := fcc 'D' 'X' 'T' '3'
def FCC_DXT4 := fcc 'D' 'X' 'T' '4'
def FCC_DXT5 := fcc 'D' 'X' 'T' '5'
def FCC_RXGB := fcc 'R' 'X' 'G' 'B'
def FCC_ATI1 := fcc 'A' 'T' 'I' '1'
def FCC_BC4U := fcc 'B' 'C' '4' 'U'
def FCC_BC4S := fcc 'B' 'C' '4' 'S'
def FCC_ATI2 := fcc 'A' 'T' 'I' '2'
def FCC_BC5U := fcc 'B' 'C' '5' 'U'
def FCC_BC5S := fcc 'B' 'C' '5' 'S'
def FCC_RGBG := fcc 'R' 'G' 'B' 'G'
def FCC_GRGB := fcc 'G' 'R' 'G' 'B'
def FCC_YUY2 := fcc 'Y' 'U' 'Y' '2'
def FCC_UYVY := fcc 'U' 'Y' 'V' 'Y'

/-- `detect::four_cc_to_dxgi` (first stage of `four_cc_to_supported`; rows translated) -/
def fourCCDxgiTable : List (Nat × Nat) := SrcTables.fourCCToDxgi

/-- second stage of `four_cc_to_supported`: FourCCs without DXGI equivalent (rows translated) -/
def fourCCDirectTable : List (Nat × Format) := SrcTables.fourCCDirect.map fun p => (p.1, Format.ofH p.2)

def fourCCToDxgi (cc : Nat) : Option Nat := (fourCCDxgiTable.find? (·.1 == cc)).map (·.2)

/-- `detect::four_cc_to_supported` = `Format::from_four_cc` -/
def fourCCToFormat (cc : Nat) : Option Format :=
  match fourCCToDxgi cc with
  | some dx => dxgiToFormat dx
  | none => (fourCCDirectTable.find? (·.1 == cc)).map (·.2)

/-! ## Mask pixel formats -/

/-- src/header.rs `MaskPixelFormat`; `bitCount` is the numeric value of `RgbBitCount` -/
structure MaskPF where
  flags : Nat
  bitCount : Nat
  r : Nat
  g : Nat
  b : Nat
  a : Nat
deriving DecidableEq, Repr, Inhabited

structure MaskRow where
  pat : MaskPF
  dxgi : Option Nat
  fmt : Format

-- PixelFormatFlags bit values
def PF_ALPHAPIXELS := 0x1
def PF_ALPHA := 0x2
def PF_RGB := 0x40
def PF_RGBA := 0x41
def PF_LUMINANCE := 0x20000
def PF_LUMINANCE_ALPHA := 0x20001
def PF_BUMP_DUDV := 0x80000

/-- `detect::KNOWN_PIXEL_FORMATS`, in table order (the first matching row wins); rows translated -/
def maskRows : List MaskRow :=
  SrcTables.knownPixelFormats.map fun r => ⟨⟨r.flags, r.bitCount, r.r, r.g, r.b, r.a⟩, r.dxgi, Format.ofH r.fmt⟩

/-- `PFPattern::matches` -/
def MaskRow.matches (row : MaskRow) (pf : MaskPF) : Bool :=
  pf.flags == row.pat.flags && pf.bitCount == row.pat.bitCount && pf.r == row.pat.r &&
  pf.g == row.pat.g && pf.b == row.pat.b && pf.a == row.pat.a

/-- `detect::masked_to_supported`: `find_map` over the table -/
def maskFind (pf : MaskPF) : List MaskRow → Option Format
  | [] => none
  | row :: rest => if row.matches pf then some row.fmt else maskFind pf rest

def maskToFormat (pf : MaskPF) : Option Format := maskFind pf maskRows

/-- `detect::supported_to_masked`: the first row of the format -/
def formatToMask (f : Format) : Option MaskPF := (maskRows.find? (·.fmt == f)).map (·.pat)

/-- `RgbBitCount::try_from(u32)` accepts exactly these -/
def bitCountValid (n : Nat) : Bool := n == 8 || n == 16 || n == 24 || n == 32

/-! ## `From<Format> for PixelInfo`, headers -/

/-- `impl From<Format> for PixelInfo`: the explicit arms (rows translated: `SrcTables.formatPixelInfoDirect`),
everything else through the canonical DXGI code and the DXGI table with two `unwrap()`s; `none` = panic. -/
def formatPixelInfoP (f : Format) : Option PixelInfo :=
  match SrcTables.formatPixelInfoDirect.lookup f.toH with
  | some p => some p
  | none =>
    match f.row.dxgi with
    | none => none
    | some dx => dxgiPixelInfo dx

/-- the header shapes a format can be detected from (what `Format::from_header` looks at) -/
inductive Hdr where
  /-- `Header::Dx10`: DXGI code and alpha mode (resource dimension, misc flags, array size and
  sizes are not consulted by either function) -/
  | dx10 (code alphaMode : Nat)
  | fourCC (cc : Nat)
  | mask (pf : MaskPF)
deriving Repr, Inhabited

/-- what the typed `Header` guarantees by construction -/
def Hdr.Valid : Hdr → Prop
  | .dx10 code alphaMode => dxgiValid code = true ∧ alphaMode < 5
  | .fourCC _ => True
  | .mask pf => bitCountValid pf.bitCount = true

inductive FmtErr where
  | dxgi | fourCC | mask
deriving DecidableEq, Repr, Inhabited

/-- `Format::from_header` -/
def formatOfHeader : Hdr → Except FmtErr Format
  | .dx10 code alphaMode =>
    match specialCases code alphaMode with
    | some f => .ok f
    | none =>
      match dxgiToFormat code with
      | some f => .ok f
      | none => .error .dxgi
  | .fourCC cc =>
    match fourCCToFormat cc with
    | some f => .ok f
    | none => .error .fourCC
  | .mask pf =>
    match maskToFormat pf with
    | some f => .ok f
    | none => .error .mask

/-- `PixelInfo::from_header`; outer `none` = panic (of the `unwrap`s in `From<Format>`) -/
def pixelInfoOfHeaderP : Hdr → Option (Except FmtErr PixelInfo)
  | .dx10 code _ =>
    match dxgiPixelInfo code with
    | some p => some (.ok p)
    | none => some (.error .dxgi)
  | .fourCC cc =>
    match fourCCToFormat cc with
    | some f => (formatPixelInfoP f).map .ok
    | none => some (.error .fourCC)
  | .mask pf => some (.ok (.fixed ((pf.bitCount % 256) / 8)))

/-- `PixelInfo::bits_per_pixel` -/
def bitsPerPixel : PixelInfo → Nat
  | .fixed b => b * 8
  | .block bytes bw bh => divCeil (bytes * 8) (bw * bh % 256)
  | .biPlanar p1 p2 sx sy => p1 * 8 + divCeil (p2 * 8) (sx * sy)

/-- bits per pixel as the format definition gives them: the limit of `8·bytes/pixels` for large
surfaces, rounded up (evaluated on a surface whose sides are multiples of every block size) -/
def bitsPerPixelSpec (p : PixelInfo) : Nat :=
  let n := 27720 -- lcm(1..12): a multiple of every block width / height / sub-sampling factor
  (8 * p.surfIdeal n n + n * n - 1) / (n * n)

/-! ## Encoders -/

/-- src/encode/mod.rs `Dithering` as the pair (colour, alpha) of `Dithering::new` -/
structure Dithering where
  color : Bool
  alpha : Bool
deriving DecidableEq, Repr, Inhabited

def Dithering.none : Dithering := ⟨false, false⟩
def Dithering.all : List Dithering := [⟨false, false⟩, ⟨true, false⟩, ⟨false, true⟩, ⟨true, true⟩]
/-- `Dithering::intersect` -/
def Dithering.intersect (a b : Dithering) : Dithering := ⟨a.color && b.color, a.alpha && b.alpha⟩
def Dithering.union (a b : Dithering) : Dithering := ⟨a.color || b.color, a.alpha || b.alpha⟩

/-- channel groups -/
inductive Group where
  | color | alpha
deriving DecidableEq, Repr

def Dithering.has (d : Dithering) : Group → Bool
  | .color => d.color
  | .alpha => d.alpha

/-- `ColorFormatSet` as used by the encoder table -/
inductive ColorSet where
  | single (c : ColorFormat)
  | ofPrec (p : Precision)
  | all
deriving DecidableEq, Repr

def ColorSet.contains : ColorSet → ColorFormat → Bool
  | .single c, x => c == x
  | .ofPrec p, x => p == x.precision
  | .all, _ => true

/-- the flags of an encoder as the source *means* them -/
structure SymFlags where
  /-- highest precision encoded exactly (`EXACT_F32` implies `EXACT_U16` implies `EXACT_U8`) -/
  exact : Option Precision
  ditherColor : Bool
  ditherAlpha : Bool
deriving DecidableEq, Repr

-- src/encode/encoder.rs `Flags` bit values, as written in the source
def FLAG_EXACT_U8 : Nat := 0x1
def FLAG_EXACT_U16 : Nat := 0x2 ||| FLAG_EXACT_U8
def FLAG_EXACT_F32 : Nat := 0x4 ||| FLAG_EXACT_U16
def FLAG_DITHER_COLOR : Nat := 0x8
/-- sic: `0x16`, not `0x10` — overlaps the bits `0x2` and `0x4` of `EXACT_U16` / `EXACT_F32` -/
def FLAG_DITHER_ALPHA : Nat := 0x16
def FLAG_DITHER_ALL : Nat := FLAG_DITHER_COLOR ||| FLAG_DITHER_ALPHA

/-- `Flags::exact_for` -/
def exactFor : Precision → Nat
  | .u8 => FLAG_EXACT_U8
  | .u16 => FLAG_EXACT_U16
  | .f32 => FLAG_EXACT_F32

/-- the `u8` actually stored for an encoder -/
def SymFlags.bits (s : SymFlags) : Nat :=
  (match s.exact with | none => 0 | some p => exactFor p) |||
  (if s.ditherColor then FLAG_DITHER_COLOR else 0) |||
  (if s.ditherAlpha then FLAG_DITHER_ALPHA else 0)

/-- bitflags `contains` -/
def flagsContain (a b : Nat) : Bool := a &&& b == b
/-- bitflags `intersects` (NOT used by the source; here for the comparison theorem) -/
def flagsIntersect (a b : Nat) : Bool := a &&& b != 0

/-- `Flags::get_dithering` -/
def getDithering (bits : Nat) : Dithering :=
  ⟨flagsContain bits FLAG_DITHER_COLOR, flagsContain bits FLAG_DITHER_ALPHA⟩

def Precision.rank : Precision → Nat
  | .u8 => 1 | .u16 => 2 | .f32 => 3

/-- the intended meaning of "exact for precision p" -/
def SymFlags.exactAt (s : SymFlags) (p : Precision) : Bool :=
  match s.exact with
  | none => false
  | some q => p.rank ≤ q.rank

/-- which `Dithering` component an encoder body hands to a block encoder -/
inductive Switch where
  | color | alpha
deriving DecidableEq, Repr

def Switch.on (s : Switch) (d : Dithering) : Bool :=
  match s with
  | .color => d.color
  | .alpha => d.alpha

/-- src/encode/bc.rs: which switch reaches which block encoder -/
structure BcWiring where
  /-- switch handed to the encoder(s) of the colour data (`get_bc1_options` / `get_bc4_options`:
  `options.dithering.color()`) -/
  colorBlock : Switch
  /-- switch handed to the encoder of the separately stored alpha block (BC2: `bc2_alpha`,
  BC3: `bc4_options.dither` for `get_alpha(&block)`); `none`: no alpha block is stored -/
  alphaBlock : Option Switch
  /-- `options.dithering.alpha()` rewrites the pixels before the *joint* colour+alpha block is
  compressed (BC1 punch-through alpha, BC7) -/
  alphaJoint : Bool
deriving DecidableEq, Repr

/-- what the body of an encoder does with `options.dithering` -/
inductive EncKind where
  /-- never reads it (`copy_directly`, `uncompressed_untyped`, `uncompressed_universal`,
  `uncompressed_universal_subsample`, `bi_planar_universal`) -/
  | plain
  /-- `uncompressed_universal_dither`: Floyd–Steinberg with `error_mask` from `options.dithering` -/
  | fsDither
  /-- R1_UNORM's second encoder: ordered (Bayer) dithering, unconditional once picked -/
  | bayer
  | bc (w : BcWiring)
deriving DecidableEq, Repr

structure Enc where
  colors : ColorSet
  flags : SymFlags
  kind : EncKind
deriving DecidableEq, Repr

/-- `Encoder::copy(color)` -/
def Enc.copy (c : ColorFormat) : Enc := ⟨.single c, ⟨some c.precision, false, false⟩, .plain⟩
/-- `color_convert!(target)` -/
def Enc.convert (c : ColorFormat) : Enc := ⟨.ofPrec c.precision, ⟨some c.precision, false, false⟩, .plain⟩
/-- `Encoder::new(ColorFormatSet::U8, Flags::EXACT_U8, ..)` -/
def Enc.u8Only : Enc := ⟨.ofPrec .u8, ⟨some .u8, false, false⟩, .plain⟩
/-- `universal!(..)` / `universal_subsample!(..)` / `Encoder::new_universal(..)` -/
def Enc.universal : Enc := ⟨.all, ⟨none, false, false⟩, .plain⟩
/-- `universal!(..).add_flags(Flags::EXACT_x)` -/
def Enc.universalExact (p : Precision) : Enc := ⟨.all, ⟨some p, false, false⟩, .plain⟩
/-- `universal_dither!(..)` with `DITHER_COLOR` (gray, rg, explicit) -/
def Enc.ditherC : Enc := ⟨.all, ⟨none, true, false⟩, .fsDither⟩
/-- `universal_dither!(..)` with `DITHER_ALPHA` -/
def Enc.ditherA : Enc := ⟨.all, ⟨none, false, true⟩, .fsDither⟩
/-- `universal_dither!(..)` with `DITHER_ALL` -/
def Enc.ditherCA : Enc := ⟨.all, ⟨none, true, true⟩, .fsDither⟩
def Enc.bcC (w : BcWiring) : Enc := ⟨.all, ⟨none, true, false⟩, .bc w⟩
def Enc.bcCA (w : BcWiring) : Enc := ⟨.all, ⟨none, true, true⟩, .bc w⟩

/-- which `EncoderSet` constructor -/
inductive SetCtor where
  | plain | bc | biPlanar
deriving DecidableEq, Repr

structure EncSet where
  ctor : SetCtor
  encs : List Enc
deriving Repr

def gU8 : ColorFormat := ⟨.gray, .u8⟩
def aU8 : ColorFormat := ⟨.alpha, .u8⟩
def rgbU8 : ColorFormat := ⟨.rgb, .u8⟩
def rgbaU8 : ColorFormat := ⟨.rgba, .u8⟩
def gU16 : ColorFormat := ⟨.gray, .u16⟩
def rgbaU16 : ColorFormat := ⟨.rgba, .u16⟩
def gF32 : ColorFormat := ⟨.gray, .f32⟩
def rgbF32 : ColorFormat := ⟨.rgb, .f32⟩
def rgbaF32 : ColorFormat := ⟨.rgba, .f32⟩

/-- colour blocks only, colour switch (BC4, BC5, RXGB, NORMAL: every stored block carries colour) -/
def wColorOnly : BcWiring := ⟨.color, none, false⟩
/-- BC2 / BC3 (+ premultiplied): alpha block follows the alpha switch, colour block the colour switch -/
def wSeparate : BcWiring := ⟨.color, some .alpha, false⟩
/-- BC1, BC7: one joint block; alpha dithering rewrites its input -/
def wJoint : BcWiring := ⟨.color, none, true⟩

/-- `encode::get_encoders` with the lists of uncompressed.rs / sub_sampled.rs / bi_planar.rs / bc.rs -/
def encoderSet : Format → Option EncSet
  | .R8G8B8_UNORM => some ⟨.plain, [.copy rgbU8, .convert rgbU8, .universal, .ditherC]⟩
  | .B8G8R8_UNORM => some ⟨.plain, [.u8Only, .universal, .ditherC]⟩
  | .R8G8B8A8_UNORM => some ⟨.plain, [.copy rgbaU8, .convert rgbaU8, .universal, .ditherCA]⟩
  | .R8G8B8A8_SNORM => some ⟨.plain, [.convert rgbaU8, .universal, .ditherCA]⟩
  | .B8G8R8A8_UNORM => some ⟨.plain, [.u8Only, .universal, .ditherCA]⟩
  | .B8G8R8X8_UNORM => some ⟨.plain, [.u8Only, .universal, .ditherC]⟩
  | .B5G6R5_UNORM => some ⟨.plain, [.universal, .ditherC]⟩
  | .B5G5R5A1_UNORM => some ⟨.plain, [.universal, .ditherCA]⟩
  | .B4G4R4A4_UNORM => some ⟨.plain, [.universal, .ditherCA]⟩
  | .A4B4G4R4_UNORM => some ⟨.plain, [.universal, .ditherCA]⟩
  | .R8_SNORM => some ⟨.plain, [.convert gU8, .universal, .ditherC]⟩
  | .R8_UNORM => some ⟨.plain, [.copy gU8, .convert gU8, .universal, .ditherC]⟩
  | .R8G8_UNORM => some ⟨.plain, [.universalExact .u8, .ditherC]⟩
  | .R8G8_SNORM => some ⟨.plain, [.universalExact .u8, .ditherC]⟩
  | .A8_UNORM => some ⟨.plain, [.copy aU8, .convert aU8, .universal, .ditherA]⟩
  | .R16_UNORM => some ⟨.plain, [.copy gU16, .convert gU16, .universal, .ditherC]⟩
  | .R16_SNORM => some ⟨.plain, [.convert gU16, .universal, .ditherC]⟩
  | .R16G16_UNORM => some ⟨.plain, [.universalExact .u16, .ditherC]⟩
  | .R16G16_SNORM => some ⟨.plain, [.universalExact .u16, .ditherC]⟩
  | .R16G16B16A16_UNORM => some ⟨.plain, [.copy rgbaU16, .convert rgbaU16, .universal, .ditherCA]⟩
  | .R16G16B16A16_SNORM => some ⟨.plain, [.convert rgbaU16, .universal, .ditherCA]⟩
  | .R10G10B10A2_UNORM => some ⟨.plain, [.universal, .ditherCA]⟩
  | .R11G11B10_FLOAT => some ⟨.plain, [.universal, .ditherC]⟩
  | .R9G9B9E5_SHAREDEXP => some ⟨.plain, [.universalExact .u8, .ditherC]⟩
  | .R16_FLOAT => some ⟨.plain, [.universalExact .u8, .ditherC]⟩
  | .R16G16_FLOAT => some ⟨.plain, [.universalExact .u8, .ditherC]⟩
  | .R16G16B16A16_FLOAT => some ⟨.plain, [.universalExact .u8, .ditherCA]⟩
  | .R32_FLOAT => some ⟨.plain, [.copy gF32, .convert gF32, .universal]⟩
  | .R32G32_FLOAT => some ⟨.plain, [.universalExact .f32]⟩
  | .R32G32B32_FLOAT => some ⟨.plain, [.copy rgbF32, .convert rgbF32, .universal]⟩
  | .R32G32B32A32_FLOAT => some ⟨.plain, [.copy rgbaF32, .convert rgbaF32, .universal]⟩
  | .R10G10B10_XR_BIAS_A2_UNORM => some ⟨.plain, [.universal, .ditherCA]⟩
  | .AYUV => some ⟨.plain, [.universal, .ditherCA]⟩
  | .Y410 => some ⟨.plain, [.universal, .ditherCA]⟩
  | .Y416 => some ⟨.plain, [.universalExact .u8, .ditherCA]⟩
  | .R1_UNORM => some ⟨.plain, [.universal, ⟨.all, ⟨none, true, false⟩, .bayer⟩]⟩
  | .R8G8_B8G8_UNORM => some ⟨.plain, [.universalExact .u8]⟩
  | .G8R8_G8B8_UNORM => some ⟨.plain, [.universalExact .u8]⟩
  | .UYVY => some ⟨.plain, [.universal]⟩
  | .YUY2 => some ⟨.plain, [.universal]⟩
  | .Y210 => some ⟨.plain, [.universalExact .u8]⟩
  | .Y216 => some ⟨.plain, [.universalExact .u8]⟩
  | .NV12 => some ⟨.biPlanar, [.universal]⟩
  | .P010 => some ⟨.biPlanar, [.universal]⟩
  | .P016 => some ⟨.biPlanar, [.universal]⟩
  | .BC1_UNORM => some ⟨.bc, [.bcCA wJoint]⟩
  | .BC2_UNORM => some ⟨.bc, [.bcCA wSeparate]⟩
  | .BC2_UNORM_PREMULTIPLIED_ALPHA => some ⟨.bc, [.bcCA wSeparate]⟩
  | .BC3_UNORM => some ⟨.bc, [.bcCA wSeparate]⟩
  | .BC3_UNORM_PREMULTIPLIED_ALPHA => some ⟨.bc, [.bcCA wSeparate]⟩
  | .BC4_UNORM => some ⟨.bc, [.bcC wColorOnly]⟩
  | .BC4_SNORM => some ⟨.bc, [.bcC wColorOnly]⟩
  | .BC5_UNORM => some ⟨.bc, [.bcC wColorOnly]⟩
  | .BC5_SNORM => some ⟨.bc, [.bcC wColorOnly]⟩
  | .BC7_UNORM => some ⟨.bc, [.bcCA wJoint]⟩
  | .BC3_UNORM_RXGB => some ⟨.bc, [.bcC wColorOnly]⟩
  | .BC3_UNORM_NORMAL => some ⟨.bc, [.bcC wColorOnly]⟩
  | .BC6H_UF16 | .BC6H_SF16 => none
  | .ASTC_4X4_UNORM | .ASTC_5X4_UNORM | .ASTC_5X5_UNORM | .ASTC_6X5_UNORM | .ASTC_6X6_UNORM
  | .ASTC_8X5_UNORM | .ASTC_8X6_UNORM | .ASTC_8X8_UNORM | .ASTC_10X5_UNORM | .ASTC_10X6_UNORM
  | .ASTC_10X8_UNORM | .ASTC_10X10_UNORM | .ASTC_12X10_UNORM | .ASTC_12X12_UNORM => none

/-- src/encode/mod.rs `EncodingSupport` (public part) -/
structure Support where
  dithering : Dithering
  splitHeight : Option Nat
  localDithering : Bool
  sizeMultiple : Option (Nat × Nat)
deriving DecidableEq, Repr

/-- `EncoderSet::new`: union of the stored flag bytes -/
def EncSet.combinedBits (s : EncSet) : Nat := s.encs.foldl (fun acc e => acc ||| e.flags.bits) 0

/-- `EncoderSet::{new,new_bc,new_bi_planar}` followed by `EncoderSet::encoding_support` -/
def EncSet.support (s : EncSet) : Support :=
  { dithering := getDithering s.combinedBits
    splitHeight := match s.ctor with | .plain => some 1 | .bc => some 4 | .biPlanar => none
    localDithering := s.ctor == .bc
    sizeMultiple := match s.ctor with | .biPlanar => some (2, 2) | _ => none }

/-- `Format::encoding_support` -/
def encodingSupport (f : Format) : Option Support := (encoderSet f).map (·.support)

/-- `EncodingSupport::supports_size` -/
def Support.supportsSize (s : Support) (w h : Nat) : Bool :=
  match s.sizeMultiple with
  | some (mw, mh) => w % mw == 0 && h % mh == 0
  | none => true

/-- `EncoderSet::pick_encoder` over the encoders accepting the colour: index of the chosen
encoder; `none` = the `expect("all color formats to be supported")` panics -/
def pickFrom (cands : List (Enc × Nat)) (c : ColorFormat) (d : Dithering) : Option Nat :=
  match cands.find? (fun e => flagsContain e.1.flags.bits (exactFor c.precision)) with
  | some e => some e.2
  | none =>
    match (if d ≠ Dithering.none then
             cands.find? (fun e => (getDithering e.1.flags.bits).intersect d ≠ Dithering.none)
           else none) with
    | some e => some e.2
    | none => cands.head?.map (·.2)

def EncSet.candidates (s : EncSet) (c : ColorFormat) : List (Enc × Nat) :=
  s.encs.zipIdx.filter (fun e => e.1.colors.contains c)

def EncSet.pick (s : EncSet) (c : ColorFormat) (d : Dithering) : Option Nat :=
  pickFrom (s.candidates c) c d

/-- The channel groups whose stored values an encoder body actually dithers when run with option
`d`.  `fsDither`: `error_mask` has the requested groups and the quantiser closure diffuses only the
groups it encodes, which are the groups of its flags (gray/rg/rgb closures feed constant 1.0 back
for the others).  `bc`: the switches of the wiring. -/
def Enc.effective (e : Enc) (d : Dithering) : Dithering :=
  match e.kind with
  | .plain => Dithering.none
  | .fsDither => d.intersect ⟨e.flags.ditherColor, e.flags.ditherAlpha⟩
  | .bayer => ⟨true, false⟩
  | .bc w =>
    ⟨w.colorBlock.on d,
     (match w.alphaBlock with | some s => s.on d | none => false) || (w.alphaJoint && d.alpha)⟩

/-- effective dithering of encoding colour `c` with option `d` in format `f` -/
def effectiveDithering (f : Format) (c : ColorFormat) (d : Dithering) : Option Dithering :=
  match encoderSet f with
  | none => none
  | some s =>
    match s.pick c d with
    | none => none
    | some i => (s.encs[i]?).map (·.effective d)

/-- does the format store alpha separately from colour (clause (c) of C19)?  Everything that is not
block compressed does (possibly with no alpha bits at all); a BC format does when no switch rewrites
a joint block. -/
def alphaIndependent (f : Format) : Bool :=
  match encoderSet f with
  | none => false
  | some s => s.encs.all fun e =>
      match e.kind with
      | .bc w => !w.alphaJoint
      | _ => true

end Dds.C19
