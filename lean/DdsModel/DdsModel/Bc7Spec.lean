/-
Specification-shaped BC7 decoder, written from the format specification (D3D11.3 functional spec
19.5.14, Khronos data format spec "BPTC / BC7") and NOT from the code:

* a table of mode records;
* one generic decoder driven by the record: fields are read LSB-first from an immutable 128-bit block
  with a position cursor (`rd b pos n`), in the order mode, partition, rotation, index selection,
  colour (all R of all endpoints, then G, then B), alpha, p-bits, primary indices, secondary indices;
* endpoint = `(value << 1 | pbit)` where the mode has p-bits, then widened to 8 bits by replicating the
  top bits into the vacated low bits;
* the anchor index of every subset is stored with one bit less (its top bit is an implicit 0);
* interpolation `((64 - w) * e0 + w * e1 + 32) >> 6` with the weight tables on the 0..64 scale;
* rotation exchanges alpha with R, G or B after interpolation;
* a block whose low byte is zero (no mode bit) decodes to all zero.
-/
import DdsModel.BcTables
namespace Dds.Bc7Spec
open Dds.BcTables

structure ModeRec where
  subsets : Nat      -- NS
  partBits : Nat     -- PB
  rotBits : Nat      -- RB
  selBits : Nat      -- ISB
  colorBits : Nat    -- CB
  alphaBits : Nat    -- AB
  epPBits : Nat      -- EPB: one p-bit per endpoint
  spPBits : Nat      -- SPB: one p-bit per subset
  idxBits : Nat      -- IB
  idx2Bits : Nat     -- IB2
deriving Repr, DecidableEq

def modes : List ModeRec := [
  ⟨3, 4, 0, 0, 4, 0, 1, 0, 3, 0⟩,
  ⟨2, 6, 0, 0, 6, 0, 0, 1, 3, 0⟩,
  ⟨3, 6, 0, 0, 5, 0, 0, 0, 2, 0⟩,
  ⟨2, 6, 0, 0, 7, 0, 1, 0, 2, 0⟩,
  ⟨1, 0, 2, 1, 5, 6, 0, 0, 2, 3⟩,
  ⟨1, 0, 2, 0, 7, 8, 0, 0, 2, 2⟩,
  ⟨1, 0, 0, 0, 7, 7, 1, 0, 4, 0⟩,
  ⟨2, 6, 0, 0, 5, 5, 1, 0, 2, 0⟩]

/-- `n` bits of the block starting at bit `pos`, least significant first -/
def rd (b pos n : Nat) : Nat := (b / 2 ^ pos) % 2 ^ n

/-- mode = number of zero bits before the first one bit (8 = none in the first byte) -/
def modeOf (b : Nat) : Nat :=
  ((List.range 8).find? (fun m => b % 2 ^ (m + 1) = 2 ^ m)).getD 8

/-- widen a `w`-bit value (4 ≤ w ≤ 8) to 8 bits: left-align, replicate the top bits below -/
def expand (w v : Nat) : Nat := v * 2 ^ (8 - w) + v / 2 ^ (2 * w - 8)

def interp (e0 e1 w : Nat) : Nat := ((64 - w) * e0 + w * e1 + 32) / 64

/-- total bits of the p-bit field -/
def pBitCount (r : ModeRec) : Nat :=
  if r.epPBits = 1 then 2 * r.subsets else if r.spPBits = 1 then r.subsets else 0

/-- position of the first bit after the header fields mode / partition / rotation / selector -/
def colorStart (m : Nat) (r : ModeRec) : Nat := m + 1 + r.partBits + r.rotBits + r.selBits
def alphaStart (m : Nat) (r : ModeRec) : Nat := colorStart m r + 3 * (2 * r.subsets) * r.colorBits
def pStart (m : Nat) (r : ModeRec) : Nat := alphaStart m r + (2 * r.subsets) * r.alphaBits
def idxStart (m : Nat) (r : ModeRec) : Nat := pStart m r + pBitCount r
def idx2Start (m : Nat) (r : ModeRec) : Nat := idxStart m r + 16 * r.idxBits - r.subsets

/-- fully decoded 8-bit endpoint `e` (0 .. 2*subsets-1), channel `c` (0..3) -/
def endpoint (m : Nat) (r : ModeRec) (b e c : Nat) : Nat :=
  let ne := 2 * r.subsets
  if c = 3 ∧ r.alphaBits = 0 then 255 else
  let bits := if c = 3 then r.alphaBits else r.colorBits
  let raw := if c = 3 then rd b (alphaStart m r + e * r.alphaBits) r.alphaBits
             else rd b (colorStart m r + (c * ne + e) * r.colorBits) r.colorBits
  if r.epPBits = 1 then expand (bits + 1) (raw * 2 + rd b (pStart m r + e) 1)
  else if r.spPBits = 1 then expand (bits + 1) (raw * 2 + rd b (pStart m r + e / 2) 1)
  else expand bits raw

/-- number of anchor pixels strictly before pixel `i` -/
def anchorsBefore (n p i : Nat) : Nat := ((List.range i).filter (fun j => specIsAnchor n p j)).length

/-- primary index of pixel `i` -/
def index1 (m : Nat) (r : ModeRec) (b part i : Nat) : Nat :=
  let pos := idxStart m r + i * r.idxBits - anchorsBefore r.subsets part i
  rd b pos (if specIsAnchor r.subsets part i then r.idxBits - 1 else r.idxBits)

/-- secondary index of pixel `i` (modes with IB2 > 0 have one subset: only pixel 0 is an anchor) -/
def index2 (m : Nat) (r : ModeRec) (b i : Nat) : Nat :=
  if i = 0 then rd b (idx2Start m r) (r.idx2Bits - 1)
  else rd b (idx2Start m r + i * r.idx2Bits - 1) r.idx2Bits

def rotate (rot : Nat) (p : List Nat) : List Nat :=
  match p with
  | [r, g, b, a] =>
    if rot = 1 then [a, g, b, r] else if rot = 2 then [r, a, b, g] else if rot = 3 then [r, g, a, b] else [r, g, b, a]
  | _ => p

def decodeMode (m : Nat) (r : ModeRec) (b : Nat) : List (List Nat) :=
  let part := rd b (m + 1) r.partBits
  let rot := rd b (m + 1 + r.partBits) r.rotBits
  let sel := rd b (m + 1 + r.partBits + r.rotBits) r.selBits
  (List.range 16).map fun i =>
    let s := specSubset r.subsets part i
    let i1 := index1 m r b part i
    let i2 := index2 m r b i
    -- weight for colour and for alpha
    let w1 := (specWeights r.idxBits).getD i1 0
    let w2 := (specWeights r.idx2Bits).getD i2 0
    let wc := if r.idx2Bits = 0 then w1 else if sel = 1 then w2 else w1
    let wa := if r.idx2Bits = 0 then w1 else if sel = 1 then w1 else w2
    let e0 := fun c => endpoint m r b (2 * s) c
    let e1 := fun c => endpoint m r b (2 * s + 1) c
    rotate rot [interp (e0 0) (e1 0) wc, interp (e0 1) (e1 1) wc, interp (e0 2) (e1 2) wc, interp (e0 3) (e1 3) wa]

def decodeBlock (b : Nat) : List (List Nat) :=
  let m := modeOf b
  match modes[m]? with
  | some r => decodeMode m r b
  | none => List.replicate 16 [0, 0, 0, 0]

end Dds.Bc7Spec

namespace Dds.Bc7Spec

/-- U16 output: exact widening of the 8-bit value, `v * 65535 / 255` -/
def unorm8To16 (v : Nat) : Nat := v * 257

/-- F32 output: bit pattern of the binary32 nearest to `v / 255` (round to nearest, ties to even) -/
def unorm8ToF32 (v : Nat) : Nat :=
  if v = 0 then 0 else
    -- smallest k with v * 2^k ≥ 255, so that 1 ≤ (v/255) * 2^k < 2
    let k := ((List.range 9).find? (fun k => v * 2 ^ k ≥ 255)).getD 8
    let num := v * 2 ^ (23 + k)
    let q := num / 255
    let r := num % 255
    let q := if 2 * r > 255 ∨ (2 * r = 255 ∧ q % 2 = 1) then q + 1 else q
    -- q in [2^23, 2^24]; q = 2^24 carries into the exponent, which the addition below does by itself
    (127 - k) * 8388608 + (q - 8388608)

end Dds.Bc7Spec
