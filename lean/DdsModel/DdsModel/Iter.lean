/-
Model of src/iter.rs: `SurfaceIterator` = `TextureSurfaceIterator` | `VolumeSurfaceIterator`.

`u8`/`u32` counters use release (wrapping) arithmetic; `Theorems/C08.lean` shows that under
the iterator invariant no operation wraps, so the overflow-checking profile does not trap.
Results of type `Option _` whose `none` stands for a panic carry the suffix `P`.
-/
import DdsModel.Layout
namespace Dds

/-- `SurfaceInfo`: size, encoded length, mipmap level -/
structure SurfInfo where
  w : Nat
  h : Nat
  len : Nat
  level : Nat
deriving DecidableEq, Repr, Inhabited

structure TexIter where
  first : Texture
  len : Nat
  idx : Nat
  level : Nat
deriving DecidableEq, Repr, Inhabited

structure VolIter where
  volume : Volume
  level : Nat
  depth : Nat
deriving DecidableEq, Repr, Inhabited

/-- `TextureSurfaceIterator::current`; outer `none` = panic -/
def TexIter.currentP (it : TexIter) : Option (Option SurfInfo) :=
  if it.idx < it.len then
    match it.first.getP it.level with
    | none => none
    | some none => some none
    | some (some s) => some (some ⟨s.w, s.h, s.len, it.level⟩)
  else some none

/-- `TextureSurfaceIterator::advance` -/
def TexIter.advance (it : TexIter) : TexIter :=
  if it.idx < it.len then
    let next := (it.level + 1) % U8
    if next < it.first.mips then { it with level := next }
    else { it with idx := (it.idx + 1) % U32, level := 0 }
  else it

/-- `TextureSurfaceIterator::rewind` -/
def TexIter.rewind (it : TexIter) : TexIter :=
  if it.level > 0 then { it with level := it.level - 1 }
  else if it.idx > 0 then { it with idx := it.idx - 1, level := (it.first.mips + U8 - 1) % U8 }
  else it

def sumLens (l : List Surface) : Nat := l.foldl (fun acc s => wAdd acc s.len) 0

/-- `TextureSurfaceIterator::skip_mipmaps`: (new state, skipped bytes); `none` = panic -/
def TexIter.skipMipmapsP (it : TexIter) : Option (TexIter × Nat) :=
  if it.idx < it.len ∧ it.level ≠ 0 then
    match it.first.iterMipsP with
    | none => none
    | some l => some ({ it with idx := (it.idx + 1) % U32, level := 0 }, sumLens (l.drop it.level))
  else some (it, 0)

/-- the loop `for level in 0..current_level { bytes += first.get(level).unwrap().data_len() }` -/
def texElapsedLoop (t : Texture) : (n : Nat) → (level : Nat) → (acc : Nat) → Option Nat
  | 0, _, acc => some acc
  | n + 1, level, acc =>
    match t.getP level with
    | some (some s) => texElapsedLoop t n (level + 1) (wAdd acc s.len)
    | _ => none

/-- `TextureSurfaceIterator::elapsed_bytes` -/
def TexIter.elapsedP (it : TexIter) : Option Nat :=
  match it.first.dataLenP with
  | none => none
  | some l => texElapsedLoop it.first it.level 0 (wMul l it.idx)

/-- `VolumeSurfaceIterator::current` -/
def VolIter.currentP (it : VolIter) : Option (Option SurfInfo) :=
  match it.volume.getP it.level with
  | none => none
  | some none => some none
  | some (some v) =>
    match v.getDepthSlice it.depth with
    | none => some none
    | some s => some (some ⟨s.w, s.h, s.len, it.level⟩)

/-- `VolumeSurfaceIterator::advance` -/
def VolIter.advanceP (it : VolIter) : Option VolIter :=
  match it.volume.getP it.level with
  | none => none
  | some none => some it
  | some (some v) =>
    let next := (it.depth + 1) % U32
    if next < v.d then some { it with depth := next }
    else some { it with level := (it.level + 1) % U8, depth := 0 }

/-- `VolumeSurfaceIterator::rewind` -/
def VolIter.rewindP (it : VolIter) : Option VolIter :=
  if it.depth > 0 then some { it with depth := it.depth - 1 }
  else if it.level > 0 then
    match it.volume.getP (it.level - 1) with
    | some (some v) => some { it with level := it.level - 1, depth := (v.d + U32 - 1) % U32 }
    | _ => none
  else some it

def sumVolLens (l : List VolumeDesc) : Nat := l.foldl (fun acc v => wAdd acc v.dataLen) 0

/-- `VolumeSurfaceIterator::skip_mipmaps`: `some (Except.error ())` = `Err(())` -/
def VolIter.skipMipmapsP (it : VolIter) : Option (Except Unit (VolIter × Nat)) :=
  if it.depth ≠ 0 then some (.error ())
  else if it.level = 0 ∨ it.level ≥ it.volume.mips then some (.ok (it, 0))
  else
    match it.volume.iterMipsP with
    | none => none
    | some l => some (.ok ({ it with level := it.volume.mips }, sumVolLens (l.drop it.level)))

def volElapsedLoop (v : Volume) : (n : Nat) → (level : Nat) → (acc : Nat) → Option Nat
  | 0, _, acc => some acc
  | n + 1, level, acc =>
    match v.getP level with
    | some (some d) => volElapsedLoop v n (level + 1) (wAdd acc d.dataLen)
    | _ => none

/-- `VolumeSurfaceIterator::elapsed_bytes` -/
def VolIter.elapsedP (it : VolIter) : Option Nat :=
  match volElapsedLoop it.volume it.level 0 0 with
  | none => none
  | some bytes =>
    match it.volume.getP it.level with
    | none => none
    | some none => some bytes
    | some (some v) =>
      let sliceBytes := match v.getDepthSlice 0 with | some s => s.len | none => 0
      some (wAdd bytes (wMul sliceBytes it.depth))

inductive SurfIter where
  | tex (it : TexIter)
  | vol (it : VolIter)
deriving DecidableEq, Repr, Inhabited

/-- `SurfaceIterator::new` -/
def SurfIter.new : DataLayout → SurfIter
  | .texture t => .tex ⟨t, 1, 0, 0⟩
  | .volume v => .vol ⟨v, 0, 0⟩
  | .textureArray a => .tex ⟨a.first, a.arrayLen % U32, 0, 0⟩

def SurfIter.currentP : SurfIter → Option (Option SurfInfo)
  | .tex it => it.currentP
  | .vol it => it.currentP

def SurfIter.advanceP : SurfIter → Option SurfIter
  | .tex it => some (.tex it.advance)
  | .vol it => it.advanceP.map .vol

def SurfIter.rewindP : SurfIter → Option SurfIter
  | .tex it => some (.tex it.rewind)
  | .vol it => it.rewindP.map .vol

def SurfIter.skipMipmapsP : SurfIter → Option (Except Unit (SurfIter × Nat))
  | .tex it => it.skipMipmapsP.map fun (i, n) => .ok (.tex i, n)
  | .vol it => it.skipMipmapsP.map fun r => r.map fun (i, n) => (.vol i, n)

def SurfIter.elapsedP : SurfIter → Option Nat
  | .tex it => it.elapsedP
  | .vol it => it.elapsedP

end Dds
