/-
Model of `ImageView` / `ImageViewMut` (src/lib.rs): constructors, cropping, row access.

A view is described by the length of its (truncated) data slice, its size, the bytes per
pixel of its colour format and its row pitch; `base` is the offset of the data slice inside
the buffer the root view was created from (so that cropping can be stated absolutely).
`usize` is 64 bit. `Option` results named `…P` use `none` for a panic.
-/
import DdsModel.Layout
namespace Dds

structure View where
  base : Nat
  len : Nat
  w : Nat
  h : Nat
  bpp : Nat
  pitch : Nat
deriving DecidableEq, Repr, Inhabited

/-- `u64::saturating_mul` -/
def satMul64 (a b : Nat) : Nat := if a * b < U64 then a * b else U64 - 1

/-- `ImageView::new` / `ImageViewMut::new` (contiguous) -/
def View.new (dataLen w h bpp : Nat) : Option View :=
  let w' := if w = 0 ∨ h = 0 then 0 else w
  let h' := if w = 0 ∨ h = 0 then 0 else h
  if dataLen ≠ satMul64 (w' * h') bpp then none
  else some ⟨0, dataLen, w', h', bpp, wMul w' bpp⟩

/-- `ImageView::new_with` / `ImageViewMut::new_with` (after the repair of F1: checked arithmetic) -/
def View.newWith (dataLen pitch w h bpp : Nat) : Option View :=
  let e := w = 0 ∨ h = 0
  let w' := if e then 0 else w
  let h' := if e then 0 else h
  let pitch' := if e then 0 else pitch
  let bytesPerRow := wMul w' bpp
  if pitch' < bytesPerRow then none else
  match ckMul pitch' (h' - 1) with
  | none => none
  | some m =>
    match ckAdd m bytesPerRow with
    | none => none
    | some addressable =>
      if dataLen < addressable then none
      else some ⟨0, addressable, w', h', bpp, pitch'⟩

/-- a slice `data[start..end]`: panics unless `start ≤ end ≤ len` -/
def sliceP (len start stop : Nat) : Option (Nat × Nat) :=
  if start ≤ stop ∧ stop ≤ len then some (start, stop) else none

/-- `ImageView::rows`: for `y in 0..height` the slice `data[y*pitch .. y*pitch + bytes_per_row]` -/
def View.rowsP (v : View) : Option (List (Nat × Nat)) :=
  let height := if v.w = 0 ∨ v.h = 0 then 0 else v.h
  let bytesPerRow := wMul v.w v.bpp
  sequenceOpt ((List.range height).map fun y =>
    sliceP v.len (wMul y v.pitch) (wAdd (wMul y v.pitch) bytesPerRow))

/-- `ImageViewMut::rows_mut` (after the repair of F2): `data.chunks_mut(pitch.max(1))`, every
chunk cut to `[..bytes_per_row]` -/
def View.rowsMutP (v : View) : Option (List (Nat × Nat)) :=
  let bytesPerRow := wMul v.w v.bpp
  let p := max v.pitch 1
  sequenceOpt ((List.range ((v.len + p - 1) / p)).map fun i =>
    let chunkStart := i * p
    let chunkLen := min p (v.len - chunkStart)
    if bytesPerRow ≤ chunkLen then some (chunkStart, chunkStart + bytesPerRow) else none)

/-- `ImageViewMut::get_row` -/
def View.getRowP (v : View) (y : Nat) : Option (Nat × Nat) :=
  sliceP v.len (wMul y v.pitch) (wAdd (wMul y v.pitch) (wMul v.w v.bpp))

/-- `Size::contains_rect` -/
def View.containsRect (v : View) (ox oy w h : Nat) : Bool := ox + w ≤ v.w && oy + h ≤ v.h

/-- `ImageView::cropped` / `ImageViewMut::cropped` / `cropped_data`; `none` = the documented
panic (rectangle out of bounds) or a slice panic -/
def View.croppedP (v : View) (ox oy w h : Nat) : Option View :=
  if !v.containsRect ox oy w h then none else
  if w = 0 ∨ h = 0 then some ⟨v.base, 0, 0, 0, v.bpp, 0⟩ else
  let bytesPerRow := wMul w v.bpp
  let start := wAdd (wMul oy v.pitch) (wMul ox v.bpp)
  let stop := wAdd (wAdd start (wMul (h - 1) v.pitch)) bytesPerRow
  match sliceP v.len start stop with
  | none => none
  | some (s, e) => some ⟨v.base + s, e - s, w, h, v.bpp, v.pitch⟩

end Dds
