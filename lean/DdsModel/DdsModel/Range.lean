/-
Complete evaluation over a range by binary splitting (kernel recursion depth stays logarithmic).
-/
namespace Dds

/-- `p` holds on `[lo, lo+n)`; splits in halves `depth` times, then checks leaves by `List.all` -/
def allRange (p : Nat → Bool) : Nat → Nat → Nat → Bool
  | 0, lo, n => (List.range' lo n).all p
  | d + 1, lo, n => allRange p d lo (n / 2) && allRange p d (lo + n / 2) (n - n / 2)

theorem allRange_sound (p : Nat → Bool) (d lo n : Nat) (h : allRange p d lo n = true) :
    ∀ x, lo ≤ x → x < lo + n → p x = true := by
  induction d generalizing lo n with
  | zero =>
    intro x h1 h2
    simp only [allRange, List.all_eq_true] at h
    exact h x (List.mem_range'_1.mpr ⟨h1, h2⟩)
  | succ d ih =>
    intro x h1 h2
    simp only [allRange, Bool.and_eq_true] at h
    by_cases hx : x < lo + n / 2
    · exact ih lo (n / 2) h.1 x h1 hx
    · exact ih (lo + n / 2) (n - n / 2) h.2 x (by omega) (by omega)

end Dds
