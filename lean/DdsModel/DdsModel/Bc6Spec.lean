/-
Specification-shaped BC6H decoder, written from the format specification (D3D11.3 functional spec
19.5.13, Khronos data format spec "BPTC / BC6H") and NOT from the code:

* the 14 modes as records {mode bits, mode code, regions, transformed, endpoint precision, delta widths}
  plus a header layout: a list of fields `(channel, endpoint, first, last)` in header order, standing for the
  spec's `rw[9:0]`, `gy[4]`, `bw[10:15]` … (endpoint 0 = w, 1 = x, 2 = y, 3 = z); a field with
  `first < last` is stored bit-reversed exactly as the spec's notation `[10:15]` says;
* a field value is assembled bit by bit: bit `j` of `ce` is block bit `srcPos … c e j` (positional, no
  stream, no shifting state);
* exact integer arithmetic (`Int`, floor division) for sign extension, the delta transform (wrapped to the
  endpoint precision), unquantize, interpolate and finish_unquantize as in the spec's pseudo code;
* reserved mode codes decode to all zero.
Results are IEEE half bit patterns.  The half -> f32 / UNORM16 / UNORM8 readings of DESIGN.md §5 C03 follow.
-/
import DdsModel.BcTables
namespace Dds.Bc6Spec
open Dds.BcTables

/-- one header field: channel (0 r, 1 g, 2 b), endpoint (0..3), bits `first .. last` of that endpoint
component in the order they appear in the block (first = the bit stored at the HIGHEST block position
for the usual `[hi:lo]` notation, i.e. `lo` sits at the field's first block bit) -/
structure Field where
  chan : Nat
  ep : Nat
  first : Nat
  last : Nat
deriving DecidableEq, Repr

def f (chan ep first last : Nat) : Field := ⟨chan, ep, first, last⟩
/-- single bit `ce[k]` -/
def f1 (chan ep k : Nat) : Field := ⟨chan, ep, k, k⟩

def Field.width (x : Field) : Nat := (if x.first ≥ x.last then x.first - x.last else x.last - x.first) + 1

structure ModeRec where
  modeBits : Nat
  code : Nat
  regions : Nat
  transformed : Bool
  prec : Nat               -- endpoint 0 precision
  delta : Nat × Nat × Nat  -- width of the other endpoints per channel (= prec when not transformed)
  layout : List Field
deriving Repr

def R := 0
def G := 1
def B := 2

/-- the spec's mode table (mode numbers 1..14 in the spec's order) -/
def modes : List ModeRec := [
  -- 1: 00, 10:5:5:5
  ⟨2, 0b00, 2, true, 10, (5, 5, 5),
    [f1 G 2 4, f1 B 2 4, f1 B 3 4, f R 0 9 0, f G 0 9 0, f B 0 9 0, f R 1 4 0, f1 G 3 4, f G 2 3 0, f G 1 4 0,
     f1 B 3 0, f G 3 3 0, f B 1 4 0, f1 B 3 1, f B 2 3 0, f R 2 4 0, f1 B 3 2, f R 3 4 0, f1 B 3 3]⟩,
  -- 2: 01, 7:6:6:6
  ⟨2, 0b01, 2, true, 7, (6, 6, 6),
    [f1 G 2 5, f1 G 3 4, f1 G 3 5, f R 0 6 0, f1 B 3 0, f1 B 3 1, f1 B 2 4, f G 0 6 0, f1 B 2 5, f1 B 3 2,
     f1 G 2 4, f B 0 6 0, f1 B 3 3, f1 B 3 5, f1 B 3 4, f R 1 5 0, f G 2 3 0, f G 1 5 0, f G 3 3 0, f B 1 5 0,
     f B 2 3 0, f R 2 5 0, f R 3 5 0]⟩,
  -- 3: 00010, 11:5:4:4
  ⟨5, 0b00010, 2, true, 11, (5, 4, 4),
    [f R 0 9 0, f G 0 9 0, f B 0 9 0, f R 1 4 0, f1 R 0 10, f G 2 3 0, f G 1 3 0, f1 G 0 10, f1 B 3 0,
     f G 3 3 0, f B 1 3 0, f1 B 0 10, f1 B 3 1, f B 2 3 0, f R 2 4 0, f1 B 3 2, f R 3 4 0, f1 B 3 3]⟩,
  -- 4: 00110, 11:4:5:4
  ⟨5, 0b00110, 2, true, 11, (4, 5, 4),
    [f R 0 9 0, f G 0 9 0, f B 0 9 0, f R 1 3 0, f1 R 0 10, f1 G 3 4, f G 2 3 0, f G 1 4 0, f1 G 0 10,
     f G 3 3 0, f B 1 3 0, f1 B 0 10, f1 B 3 1, f B 2 3 0, f R 2 3 0, f1 B 3 0, f1 B 3 2, f R 3 3 0,
     f1 G 2 4, f1 B 3 3]⟩,
  -- 5: 01010, 11:4:4:5
  ⟨5, 0b01010, 2, true, 11, (4, 4, 5),
    [f R 0 9 0, f G 0 9 0, f B 0 9 0, f R 1 3 0, f1 R 0 10, f1 B 2 4, f G 2 3 0, f G 1 3 0, f1 G 0 10,
     f1 B 3 0, f G 3 3 0, f B 1 4 0, f1 B 0 10, f B 2 3 0, f R 2 3 0, f1 B 3 1, f1 B 3 2, f R 3 3 0,
     f1 B 3 4, f1 B 3 3]⟩,
  -- 6: 01110, 9:5:5:5
  ⟨5, 0b01110, 2, true, 9, (5, 5, 5),
    [f R 0 8 0, f1 B 2 4, f G 0 8 0, f1 G 2 4, f B 0 8 0, f1 B 3 4, f R 1 4 0, f1 G 3 4, f G 2 3 0,
     f G 1 4 0, f1 B 3 0, f G 3 3 0, f B 1 4 0, f1 B 3 1, f B 2 3 0, f R 2 4 0, f1 B 3 2, f R 3 4 0, f1 B 3 3]⟩,
  -- 7: 10010, 8:6:5:5
  ⟨5, 0b10010, 2, true, 8, (6, 5, 5),
    [f R 0 7 0, f1 G 3 4, f1 B 2 4, f G 0 7 0, f1 B 3 2, f1 G 2 4, f B 0 7 0, f1 B 3 3, f1 B 3 4,
     f R 1 5 0, f G 2 3 0, f G 1 4 0, f1 B 3 0, f G 3 3 0, f B 1 4 0, f1 B 3 1, f B 2 3 0, f R 2 5 0, f R 3 5 0]⟩,
  -- 8: 10110, 8:5:6:5
  ⟨5, 0b10110, 2, true, 8, (5, 6, 5),
    [f R 0 7 0, f1 B 3 0, f1 B 2 4, f G 0 7 0, f1 G 2 5, f1 G 2 4, f B 0 7 0, f1 G 3 5, f1 B 3 4,
     f R 1 4 0, f1 G 3 4, f G 2 3 0, f G 1 5 0, f G 3 3 0, f B 1 4 0, f1 B 3 1, f B 2 3 0, f R 2 4 0,
     f1 B 3 2, f R 3 4 0, f1 B 3 3]⟩,
  -- 9: 11010, 8:5:5:6
  ⟨5, 0b11010, 2, true, 8, (5, 5, 6),
    [f R 0 7 0, f1 B 3 1, f1 B 2 4, f G 0 7 0, f1 B 2 5, f1 G 2 4, f B 0 7 0, f1 B 3 5, f1 B 3 4,
     f R 1 4 0, f1 G 3 4, f G 2 3 0, f G 1 4 0, f1 B 3 0, f G 3 3 0, f B 1 5 0, f B 2 3 0, f R 2 4 0,
     f1 B 3 2, f R 3 4 0, f1 B 3 3]⟩,
  -- 10: 11110, 6:6:6:6 (not transformed)
  ⟨5, 0b11110, 2, false, 6, (6, 6, 6),
    [f R 0 5 0, f1 G 3 4, f1 B 3 0, f1 B 3 1, f1 B 2 4, f G 0 5 0, f1 G 2 5, f1 B 2 5, f1 B 3 2, f1 G 2 4,
     f B 0 5 0, f1 G 3 5, f1 B 3 3, f1 B 3 5, f1 B 3 4, f R 1 5 0, f G 2 3 0, f G 1 5 0, f G 3 3 0, f B 1 5 0,
     f B 2 3 0, f R 2 5 0, f R 3 5 0]⟩,
  -- 11: 00011, 10:10 (not transformed)
  ⟨5, 0b00011, 1, false, 10, (10, 10, 10),
    [f R 0 9 0, f G 0 9 0, f B 0 9 0, f R 1 9 0, f G 1 9 0, f B 1 9 0]⟩,
  -- 12: 00111, 11:9
  ⟨5, 0b00111, 1, true, 11, (9, 9, 9),
    [f R 0 9 0, f G 0 9 0, f B 0 9 0, f R 1 8 0, f1 R 0 10, f G 1 8 0, f1 G 0 10, f B 1 8 0, f1 B 0 10]⟩,
  -- 13: 01011, 12:8
  ⟨5, 0b01011, 1, true, 12, (8, 8, 8),
    [f R 0 9 0, f G 0 9 0, f B 0 9 0, f R 1 7 0, f R 0 10 11, f G 1 7 0, f G 0 10 11, f B 1 7 0, f B 0 10 11]⟩,
  -- 14: 01111, 16:4
  ⟨5, 0b01111, 1, true, 16, (4, 4, 4),
    [f R 0 9 0, f G 0 9 0, f B 0 9 0, f R 1 3 0, f R 0 10 15, f G 1 3 0, f G 0 10 15, f B 1 3 0, f B 0 10 15]⟩]

/-- bit `p` of the block -/
def blockBit (b p : Nat) : Nat := (b / 2 ^ p) % 2

/-- the endpoint-component bit stored at offset `k` (0-based, in block order) of a field -/
def Field.bitAt (x : Field) (k : Nat) : Nat :=
  if x.first ≥ x.last then x.last + k else x.last - k

/-- block position of bit `j` of component (`c`, `e`), scanning the layout from block bit `pos` -/
def srcPos : List Field → Nat → Nat → Nat → Nat → Option Nat
  | [], _, _, _, _ => none
  | x :: rest, pos, c, e, j =>
    let here : Option Nat :=
      if x.chan = c ∧ x.ep = e then
        ((List.range x.width).find? (fun k => x.bitAt k = j)).map (fun k => pos + k)
      else none
    match here with
    | some p => some p
    | none => srcPos rest (pos + x.width) c e j

/-- header bits of a layout -/
def layoutBits (l : List Field) : Nat := (l.map Field.width).sum

/-- raw (unsigned) value of endpoint component (`c`, `e`): sum of its 16 possible bits -/
def rawField (r : ModeRec) (b c e : Nat) : Nat :=
  ((List.range 16).map fun j =>
    match srcPos r.layout r.modeBits c e j with
    | some p => blockBit b p * 2 ^ j
    | none => 0).sum

/-- mode lookup: the record whose code matches the low `modeBits` bits -/
def modeOf (b : Nat) : Option ModeRec := modes.find? (fun r => b % 2 ^ r.modeBits = r.code)

/-- two's complement reading of a `w`-bit value -/
def sext (w v : Nat) : Int := if v ≥ 2 ^ (w - 1) then (v : Int) - (2 ^ w : Nat) else v

def deltaW (r : ModeRec) (c : Nat) : Nat := if c = 0 then r.delta.1 else if c = 1 then r.delta.2.1 else r.delta.2.2

/-- final endpoint value of component (`c`, `e`) before unquantization -/
def endpoint (r : ModeRec) (signed : Bool) (b c e : Nat) : Int :=
  let base := rawField r b c 0
  let base' : Int := if signed then sext r.prec base else base
  if e = 0 then base'
  else
    let raw := rawField r b c e
    if r.transformed then
      let sum : Int := base' + sext (deltaW r c) raw
      let wrapped : Nat := (sum % ((2 ^ r.prec : Nat) : Int)).toNat
      if signed then sext r.prec wrapped else wrapped
    else if signed then sext (deltaW r c) raw else raw

def unquantize (signed : Bool) (prec : Nat) (c : Int) : Int :=
  if !signed then
    if prec ≥ 15 then c
    else if c = 0 then 0
    else if c = (2 ^ prec : Nat) - 1 then 65535
    else (c * 65536 + 32768) / (2 ^ prec : Nat)
  else
    if prec ≥ 16 then c
    else
      let m := c.natAbs
      let u : Nat := if m = 0 then 0 else if m ≥ 2 ^ (prec - 1) - 1 then 32767 else (m * 32768 + 16384) / 2 ^ (prec - 1)
      if c < 0 then -(u : Int) else u

def finish (signed : Bool) (x : Int) : Nat :=
  if !signed then (x * 31 / 64).toNat
  else
    let m := x.natAbs * 31 / 32
    if x < 0 ∧ m ≠ 0 then 32768 + m else m

def lerp (a b : Int) (w : Nat) : Int := (a * (64 - (w : Int)) + b * w + 32) / 64

/-- index of pixel `i`: `bits`-wide entries, anchors one bit less, starting at block bit `start` -/
def index (b start bits n part i : Nat) : Nat :=
  let before := ((List.range i).filter (fun j => specIsAnchor n part j)).length
  let pos := start + i * bits - before
  (b / 2 ^ pos) % 2 ^ (if specIsAnchor n part i then bits - 1 else bits)

def decodeBlock (signed : Bool) (b : Nat) : List (List Nat) :=
  match modeOf b with
  | none => List.replicate 16 [0, 0, 0]
  | some r =>
    let hdr := r.modeBits + layoutBits r.layout
    let part := if r.regions = 2 then (b / 2 ^ hdr) % 32 else 0
    let idxStart := if r.regions = 2 then hdr + 5 else hdr
    let ibits := if r.regions = 2 then 3 else 4
    (List.range 16).map fun i =>
      let s := specSubset r.regions part i
      let w := (specWeights ibits).getD (index b idxStart ibits r.regions part i) 0
      (List.range 3).map fun c =>
        let a := unquantize signed r.prec (endpoint r signed b c (2 * s))
        let z := unquantize signed r.prec (endpoint r signed b c (2 * s + 1))
        finish signed (lerp a z w)

/-! ### the half value at the three output precisions (reading of DESIGN.md §5 C03) -/

/-- exact value of a finite half magnitude as `num / 2^24` -/
def halfNum (exp mant : Nat) : Nat := if exp = 0 then mant else (1024 + mant) * 2 ^ (exp - 1)

/-- UNORM conversion: clamp to [0,1], scale by `max`, nearest integer (half up; the only tie is 0.5) -/
def halfToUnorm (max h : Nat) : Nat :=
  let sign := h / 32768
  let exp := (h / 1024) % 32
  let mant := h % 1024
  if sign = 1 then 0                    -- negative (and -0, -Inf, -NaN) -> 0
  else if exp = 31 then (if mant = 0 then max else 0)   -- +Inf -> max, NaN -> 0
  else
    let v := (halfNum exp mant * max * 2 + 16777216) / 33554432   -- floor(x*max + 1/2)
    if v > max then max else v

/-- the binary32 bit pattern with exactly the half's value -/
def halfToF32 (h : Nat) : Nat :=
  let sign := h / 32768
  let exp := (h / 1024) % 32
  let mant := h % 1024
  let mag :=
    if exp = 31 then (if mant = 0 then 0x7F800000 else 0x7FC00000)
    else if exp = 0 then
      if mant = 0 then 0
      else
        -- mant * 2^-24 = 1.f * 2^(t-24) with t = position of the top bit
        let t := Nat.log2 mant
        (127 + t - 24) * 8388608 + (mant * 2 ^ (23 - t) - 8388608)
    else (exp + 127 - 15) * 8388608 + mant * 8192
  sign * 2147483648 + mag

end Dds.Bc6Spec
