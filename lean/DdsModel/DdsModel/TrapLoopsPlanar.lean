/-
Trapping mirrors of the generic decode loops of `src/decode/read_write.rs` (C01), part 3: the bi-planar family.
`process_bi_planar_helper` (:1056), `ChannelConversionBuffer::process_bi_planar` (:889), `for_each_bi_planar` (:1137),
`for_each_bi_planar_rect` (:1197).  Conventions: `TrapLoops.lean`.

`BiPlaneInfo` is `(p1, p2, ssx, ssy)`: element sizes of the two planes and the sub-sampling of plane 2.  The pixel
function `f([Plane1; SSX], Plane2, u8) -> [OutPixel; SSX]` is total (C01 section 6); the helper only indexes its
fixed-size argument and result arrays, and every such index is checked here.  `size` = `size_of::<OutPixel>()`.
All three element types are byte arrays (alignment 1), so `cast::from_bytes` only checks the length.
-/
import DdsModel.TrapLoops
namespace Dds.TrapLoops
open Dds Dds.Trap

/-- `process_bi_planar_helper` after the offset part (:1098–1128): `width` pixels left that start at output pixel `off`;
`n1`, `n2`, `nd` = elements left in `plane1`, `plane2`, `decoded` -/
def planarTailT (ssx p1 size : Nat) (dec : Sl) (n1 n2 nd off width : Nat) : Option (List Ev) := do
  let full ← div width ssx                                               -- :1099
  let fullW ← ckU (full * ssx)                                           -- :1100
  dbgP (fullW ≤ n1)                                                      -- :1102 `&plane1[..full_w]`
  let c1 ← TrapUnc.fromBytesT (fullW * p1) (ssx * p1)                    --   `as_array_chunks(..).expect(..)`
  dbgP (full ≤ n2)                                                       -- :1103 `&plane2[..full]`
  let fm ← ckU (full * ssx)                                              -- :1105
  dbgP (fm ≤ nd)                                                         --   `&mut decoded[..full * SSX]`
  let cd ← TrapUnc.fromBytesT (fm * size) (ssx * size)                   --   `as_array_chunks_mut(..).expect(..)`
  dbgP (∀ x, x < full → x < c1 ∧ x < full ∧ x < cd)                     -- :1109–1112 `plane1_full[x]`, `plane2_full[x]`, `decoded_full[x]`
  let m ← ckU (full * ssx)                                               -- :1116
  let restW ← subU width m
  let e2 ← if restW > 0 then (do                                         -- :1117
      dbgP (∀ x, x < restW → x < ssx ∧ fullW + x < n1)                  -- :1120 `plane1_items[x] = plane1[full_w + x]`
      dbgP (full < n2)                                                   -- :1122 `plane2[full]`
      dbgP (∀ x, x < restW → fullW + x < nd ∧ x < ssx)                  -- :1126 `decoded[full_w + x] = out[x]`
      pure [Ev.wr ⟨dec.buf, dec.off + (off + fullW) * size, restW * size⟩])
    else pure []
  pure ((if full = 0 then [] else [Ev.wr ⟨dec.buf, dec.off + off * size, fm * size⟩]) ++ e2)

/-- `process_bi_planar_helper::<SSX, Plane1, Plane2, OutPixel>` (:1056) on `PlaneRange { offset, width, y }` -/
def planarHelperT (ssx p1 p2 size : Nat) (plane1 plane2 dec : Sl) (offset width : Nat) : Option (List Ev) := do
  let n1 ← TrapUnc.fromBytesT plane1.len p1                              -- :1069 `expect("Invalid plane1 buffer")`
  let n2 ← TrapUnc.fromBytesT plane2.len p2                              -- :1070
  let nd ← TrapUnc.fromBytesT dec.len size                               -- :1072
  if offset > 0 then do                                                  -- :1075
    dbgP (offset < ssx)                                                  -- :1076
    let a ← subU ssx offset                                              -- :1077
    let w := min a width
    dbgP (∀ x, x < w → x < ssx ∧ x < n1)                                -- :1081 `plane1_items[x] = plane1[x]`
    dbgP (0 < n2)                                                        -- :1083 `plane2[0]`
    dbgP (∀ x, x < w → x < nd ∧ x < ssx)                                -- :1087 `decoded[x] = out[x]`
    let width' ← subU width (w % U32B)                                   -- :1092 `range.width -= w as u32`
    dbgP (w ≤ n1)                                                        -- :1093 `&plane1[w..]`
    dbgP (1 ≤ n2)                                                        -- :1094 `&plane2[1..]`
    dbgP (w ≤ nd)                                                        -- :1095 `&mut decoded[w..]`
    let e ← planarTailT ssx p1 size dec (n1 - w) (n2 - 1) (nd - w) w width'
    pure ((if w = 0 then [] else [Ev.wr ⟨dec.buf, dec.off, w * size⟩]) ++ e)
  else planarTailT ssx p1 size dec n1 n2 nd 0 width

/-! ### `ChannelConversionBuffer::process_bi_planar` (:889) -/

/-- the main loop (:953–985) on what is left after the offset part -/
def convPlanarMainT (native : Color) (target : Unc.Channels) (ssx p1 p2 nbpp obpp bufPx : Nat) (plane1 plane2 out : Sl)
    (width : Nat) : Option (List Ev) := do
  let rm ← modT bufPx ssx                                                -- :955 `round_down_to_multiple`
  let pref ← subU bufPx rm
  dbgP (pref ≠ 0)                                                        -- :956 `step_by(0)` panics
  forT (fun cs => do
    let t ← ckU (cs + pref)                                              -- :957 (`usize`)
    let ce := min t width
    let csz ← subU ce cs                                                 -- :958
    let p2s ← div cs ssx                                                 -- :960
    let p2e ← divCeilT ce ssx                                            -- :961
    let a ← ckU (cs * p1)                                                -- :964
    let b ← ckU (ce * p1)
    let p1c ← plane1.range a b
    let c ← ckU (p2s * p2)                                               -- :965
    let d ← ckU (p2e * p2)
    let p2c ← plane2.range c d
    let e ← ckU (csz * nbpp)                                             -- :967
    let bufc ← tmpBuffer.upto e
    let g ← ckU (cs * obpp)                                              -- :969
    let h ← ckU (ce * obpp)
    let outc ← out.range g h
    let w1 ← planarHelperT ssx p1 p2 nbpp p1c p2c bufc 0 (csz % U32B)    -- :972 `width: chunk_size as u32`
    let w2 ← convertChannelsForT native target bufc outc                 -- :984
    pure (w1 ++ w2)) (Addr.stepStarts width pref)

/-- `process_bi_planar(info, plane1, plane2, out, PlaneRange { offset, width, y }, f)` -/
def convPlanarT (native : Color) (target : Unc.Channels) (ssx p1 p2 : Nat) (plane1 plane2 out : Sl) (offset width : Nat) :
    Option (List Ev) :=
  if native.ch = target then planarHelperT ssx p1 p2 native.bpp plane1 plane2 out offset width   -- :899
  else do
    let obpp ← (Color.mk target native.psz).bppT                         -- :904
    let a ← ckU (width * obpp)                                           -- :908
    dbgP (a = out.len)
    let b ← ckU (width * p1)                                             -- :909
    dbgP (plane1.len = b)
    let t ← ck32 (offset + width)                                        -- :912 (`u32`)
    let dc ← divCeilT t ssx
    let c ← ckU (dc * p2)
    dbgP (plane2.len = c)                                                -- :910
    let nbpp ← native.bppT                                               -- :916
    let bufPx ← div BUFFER_BYTES nbpp                                    -- :917
    if offset ≠ 0 then do                                                -- :922
      let a ← subU ssx offset                                            -- :923 (`u32`)
      let ow := min a width
      let x1 ← ckU (ow * p1)                                             -- :925
      let p1c ← plane1.upto x1
      let p2c ← plane2.upto p2                                           -- :926
      let x2 ← ckU (ow * nbpp)                                           -- :927
      let bufc ← tmpBuffer.upto x2
      let x3 ← ckU (ow * obpp)                                           -- :928
      let outc ← out.upto x3
      let w1 ← planarHelperT ssx p1 p2 nbpp p1c p2c bufc offset ow       -- :931
      let w2 ← convertChannelsForT native target bufc outc               -- :943
      let width' ← subU width ow                                         -- :947
      let plane1' ← plane1.drop x1                                       -- :948
      let plane2' ← plane2.drop p2                                       -- :949
      let out' ← out.drop x3                                             -- :950
      let e ← convPlanarMainT native target ssx p1 p2 nbpp obpp bufPx plane1' plane2' out' width'
      pure (w1 ++ w2 ++ e)
    else convPlanarMainT native target ssx p1 p2 nbpp obpp bufPx plane1 plane2 out width

/-! ### `for_each_bi_planar` (:1137) -/

/-- the `for y_offset in 0..sub_sampling_y as u8` loop (:1170–1192) for one chroma line; returns the new `y` -/
def planarFullInnerT (img : Img) (native : Color) (ssx p1 p2 p1Bpl : Nat) (plane1 uvLine : Sl) :
    List Nat → Nat → Option (Nat × List Ev)
  | [], y => some (y, [])
  | _ :: rest, y =>
    if y ≥ img.h then some (y, [])                                       -- :1171 `break`
    else do
      let a ← ckU (y * p1Bpl)                                            -- :1175
      let y1 ← ckU (y + 1)
      let b ← ckU (y1 * p1Bpl)
      let line1 ← plane1.range a b
      let outLine ← img.getRowT y                                        -- :1176
      let e ← convPlanarT native img.color.ch ssx p1 p2 line1 uvLine outLine 0 img.w   -- :1178
      let y' ← ckU (y + 1)                                               -- :1191
      let (yf, e') ← planarFullInnerT img native ssx p1 p2 p1Bpl plane1 uvLine rest y'
      pure (yf, e ++ e')

/-- `for_each_bi_planar` (the surface size is the image size) -/
def planarFullT (img : Img) (native : Color) (p1 p2 ssx ssy : Nat) : Option (List Ev) := do
  dbgP (img.color.psz = native.psz)                                      -- :1146
  let uvW ← divCeilT img.w ssx                                           -- :1151
  let uvLines ← divCeilT img.h ssy                                       -- :1152
  let uvBpl ← ckU (uvW * p2)                                             -- :1153
  let (lb, e0) ← LB.newT uvBpl uvLines                                   -- :1157
  let p1Bpl ← ckU (img.w * p1)                                           -- :1160
  let p1Len ← ckU (p1Bpl * img.h)                                        -- :1161 (`u64`; `alloc_read`: `usize::try_from` cannot fail on a 64-bit target)
  let plane1 : Sl := ⟨.plane1, 0, p1Len⟩
  let e1 ← whileLinesT (fun y uvLine => do
      dbgP (y < img.h)                                                   -- :1168
      planarFullInnerT img native ssx p1 p2 p1Bpl plane1 uvLine (List.range (ssy % 256)) y) (uvLines + 1) lb 0
  pure (e0 ++ [Ev.io (.alloc p1Len), Ev.io (.read p1Len)] ++ e1)

/-! ### `for_each_bi_planar_rect` (:1197) -/

/-- the `for y_offset` loop (:1248–1285) for one chroma line -/
def planarRectInnerT (img : Img) (ox oy : Nat) (native : Color) (ssx p1 p2 p1Bpl : Nat) (plane1 uvLine : Sl) :
    List Nat → Nat → Option (Nat × List Ev)
  | [], y => some (y, [])
  | _ :: rest, y =>
    if y < oy then do                                                    -- :1249
      let y' ← ckU (y + 1)                                               -- :1250
      planarRectInnerT img ox oy native ssx p1 p2 p1Bpl plane1 uvLine rest y'
    else do
      let t ← ck32 (oy + img.h)                                          -- :1253
      if y ≥ t then pure (y, [])                                         --   `break`
      else do
        let d ← subU y oy                                                -- :1257
        let a ← ckU (d * p1Bpl)
        let b ← ckU (ox * p1)                                            -- :1258
        let start ← ckU (a + b)
        let c ← ckU (img.w * p1)                                         -- :1260
        let stop ← ckU (start + c)
        let line1 ← plane1.range start stop                              -- :1259
        let d' ← subU y oy                                               -- :1262
        let outLine ← img.getRowT d'
        let q ← div ox ssx                                               -- :1264
        let uvS ← ckU (q * p2)
        let t3 ← ck32 (ox + img.w)                                       -- :1265
        let dc ← divCeilT t3 ssx
        let uvE ← ckU (dc * p2)
        let uv ← uvLine.range uvS uvE                                    -- :1267
        let off ← modT ox ssx                                            -- :1269
        let e ← convPlanarT native img.color.ch ssx p1 p2 line1 uv outLine off img.w   -- :1271
        let y' ← ckU (y + 1)                                             -- :1284
        let (yf, e') ← planarRectInnerT img ox oy native ssx p1 p2 p1Bpl plane1 uvLine rest y'
        pure (yf, e ++ e')

/-- `for_each_bi_planar_rect`: surface `W × H`, rect = the image at `(ox, oy)`.  A failing `checked_mul` (:1226) is
`Err(MemoryLimitExceeded)` before any operation: no event. -/
def planarRectT (img : Img) (W H ox oy : Nat) (native : Color) (p1 p2 ssx ssy : Nat) : Option (List Ev) := do
  dbgP (img.color.psz = native.psz)                                      -- :1210
  let uvBefore ← div oy ssy                                              -- :1215
  let hb ← divCeilT H ssy                                                -- :1216
  let t ← ck32 (oy + img.h)                                              -- :1217
  let hb2 ← divCeilT t ssy
  let uvAfter ← subU hb hb2
  let uvW ← divCeilT W ssx                                               -- :1218
  let hb' ← divCeilT H ssy                                               -- :1219
  let t1 ← subU hb' uvBefore
  let uvLines ← subU t1 uvAfter
  let uvBpl ← ckU (uvW * p2)                                             -- :1220
  let p1Bpl ← ckU (W * p1)                                               -- :1224
  if p1Bpl * img.h < USIZE then do                                       -- :1225 `checked_mul`
    let p1Len := p1Bpl * img.h
    let plane1 : Sl := ⟨.plane1, 0, p1Len⟩                               -- :1228
    let (lb, e0) ← LB.newT uvBpl uvLines                                 -- :1229
    let s1 ← ckU (p1Bpl * oy)                                            -- :1232 (`u64`)
    let t2 ← subU H oy                                                   -- :1236 (`u32`)
    let t3 ← subU t2 img.h
    let s2 ← ckU (p1Bpl * t3)
    let s3 ← ckU (uvBefore * uvBpl)                                      -- :1240
    let y0 ← ckU (uvBefore * ssy)                                        -- :1244
    let e1 ← whileLinesT (fun y uvLine => do
        let t ← ck32 (oy + img.h)                                        -- :1246
        dbgP (y < t)
        planarRectInnerT img ox oy native ssx p1 p2 p1Bpl plane1 uvLine (List.range (ssy % 256)) y) (uvLines + 1) lb y0
    let s4 ← ckU (uvAfter * uvBpl)                                       -- :1288
    pure ([Ev.io (.alloc p1Len)] ++ e0 ++
      [Ev.io (.skip s1), Ev.io (.read p1Len), Ev.io (.skip s2), Ev.io (.skip s3)] ++ e1 ++ [Ev.io (.skip s4)])
  else pure []

end Dds.TrapLoops
