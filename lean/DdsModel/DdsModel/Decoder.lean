/-
Model of src/decoder.rs (`Decoder`) over an ideal reader.

The reader is an ideal seekable stream that is long enough and fault free; `decode` /
`decode_rect` are represented by their stream contract (C06): on success they consume
exactly the encoded length of the surface. `pos` is the reader position relative to the
start of the data section.
-/
import DdsModel.Iter
namespace Dds

inductive DecOp where
  /-- `read_surface` into an image view of the given size -/
  | read (w h : Nat)
  /-- `read_surface_rect` with offset and an image view of the given size -/
  | readRect (ox oy w h : Nat)
  | skipSurface
  | skipMipmaps
  | rewindPrev
  | rewindStart
  /-- `read_cube_map` into an image view of the given size -/
  | readCubeMap (w h : Nat)
deriving DecidableEq, Repr, Inhabited

inductive DecRes where
  | ok | noMoreSurfaces | unexpectedSurfaceSize | rectOutOfBounds
  | cannotSkipMipmapsInVolume | notACubeMap | memoryLimitExceeded | panic
deriving DecidableEq, Repr, Inhabited

structure Dec where
  layout : DataLayout
  iter : SurfIter
  pos : Int
deriving DecidableEq, Repr, Inhabited

def Dec.new (L : DataLayout) : Dec := ⟨L, SurfIter.new L, 0⟩

/-- image views normalise empty sizes to 0x0 (`ImageViewMut::new`) -/
def normSize (w h : Nat) : Nat × Nat := if w = 0 ∨ h = 0 then (0, 0) else (w, h)

/-- `Size::contains_rect` (computed in `u64`) -/
def containsRect (sw sh ox oy w h : Nat) : Bool := ox + w ≤ sw && oy + h ≤ sh

/-- `check_likely_overflow`: encoded surface at most `isize::MAX` bytes -/
def likelyOverflow (px : PixelInfo) (w h : Nat) : Bool :=
  match px.surfaceBytes w h with
  | some b => b > I64MAX
  | none => true

/-- the cube-map cross arrangement of `read_cube_map`: (face bit, cell x, cell y) -/
def faceOffsets : List (Nat × Nat × Nat) :=
  [(1, 2, 1), (2, 0, 1), (4, 1, 0), (8, 1, 2), (16, 1, 1), (32, 3, 1)]

def hasFace (faces bit : Nat) : Bool := faces / bit % 2 = 1

/-- one `read_surface` of the decoder -/
def Dec.readSurface (d : Dec) (w h : Nat) : Dec × DecRes :=
  match d.iter.currentP with
  | none => (d, .panic)
  | some none => (d, .noMoreSurfaces)
  | some (some s) =>
    if normSize w h ≠ (s.w, s.h) then (d, .unexpectedSurfaceSize)
    else if likelyOverflow d.layout.px (normSize w h).1 (normSize w h).2 then (d, .memoryLimitExceeded)
    else
      match d.iter.advanceP with
      | none => (d, .panic)
      | some it => ({ d with iter := it, pos := d.pos + s.len }, .ok)

def Dec.skipMipmaps (d : Dec) : Dec × DecRes :=
  match d.iter.skipMipmapsP with
  | none => (d, .panic)
  | some (.error _) => (d, .cannotSkipMipmapsInVolume)
  | some (.ok (it, n)) => ({ d with iter := it, pos := d.pos + n }, .ok)

/-- the loop over the present faces in `read_cube_map`; returns the cells written -/
def Dec.cubeLoop (d : Dec) (faces fw fh : Nat) :
    List (Nat × Nat × Nat) → List (Nat × Nat) → Dec × DecRes × List (Nat × Nat)
  | [], cells => (d, .ok, cells)
  | (bit, x, y) :: rest, cells =>
    if !hasFace faces bit then d.cubeLoop faces fw fh rest cells else
    match d.iter.currentP with
    | none => (d, .panic, cells)
    | some none => (d, .noMoreSurfaces, cells)
    | some (some s) =>
      if (s.w, s.h) ≠ (fw, fh) then (d, .unexpectedSurfaceSize, cells) else
      match d.readSurface fw fh with
      | (d1, .ok) =>
        match d1.skipMipmaps with
        | (d2, .ok) => d2.cubeLoop faces fw fh rest (cells ++ [(x, y)])
        | (d2, r) => (d2, r, cells ++ [(x, y)])
      | (d1, r) => (d1, r, cells)

/-- `Decoder::read_cube_map` -/
def Dec.readCubeMap (d : Dec) (w h : Nat) : Dec × DecRes × List (Nat × Nat) :=
  match d.layout with
  | .textureArray a =>
    let faces? : Option Nat := match a.kind with
      | .textures => none
      | .cubeMaps => some 63
      | .partialCubeMap f => some f
    match faces? with
    | none => (d, .notACubeMap, [])
    | some faces =>
      let iw := ckMul32 a.w 4
      let ih := ckMul32 a.h 3
      if iw ≠ some (normSize w h).1 ∨ ih ≠ some (normSize w h).2 then (d, .unexpectedSurfaceSize, [])
      else d.cubeLoop faces a.w a.h faceOffsets []
  | _ => (d, .notACubeMap, [])

/-- one decoder call; the third component lists the cube cells written -/
def Dec.step (d : Dec) : DecOp → Dec × DecRes × List (Nat × Nat)
  | .read w h => let (d', r) := d.readSurface w h; (d', r, [])
  | .readRect ox oy w h =>
    match d.iter.currentP with
    | none => (d, .panic, [])
    | some none => (d, .noMoreSurfaces, [])
    | some (some s) =>
      if likelyOverflow d.layout.px s.w s.h then (d, .memoryLimitExceeded, [])
      else if !containsRect s.w s.h ox oy (normSize w h).1 (normSize w h).2 then (d, .rectOutOfBounds, [])
      else
        match d.iter.advanceP with
        | none => (d, .panic, [])
        | some it => ({ d with iter := it, pos := d.pos + s.len }, .ok, [])
  | .skipSurface =>
    match d.iter.currentP with
    | none => (d, .panic, [])
    | some none => (d, .noMoreSurfaces, [])
    | some (some s) =>
      match d.iter.advanceP with
      | none => (d, .panic, [])
      | some it => ({ d with iter := it, pos := d.pos + s.len }, .ok, [])
  | .skipMipmaps => let (d', r) := d.skipMipmaps; (d', r, [])
  | .rewindPrev =>
    match d.iter.elapsedP, d.iter.rewindP with
    | some cur, some it =>
      match it.elapsedP with
      | none => (d, .panic, [])
      | some prev =>
        let delta := wSub cur prev
        if delta > I64MAX then ({ d with iter := it }, .panic, [])
        else ({ d with iter := it, pos := d.pos - delta }, .ok, [])
    | _, _ => (d, .panic, [])
  | .rewindStart =>
    match d.iter.elapsedP with
    | none => (d, .panic, [])
    | some e =>
      if e > I64MAX then (d, .panic, [])
      else ({ d with iter := SurfIter.new d.layout, pos := d.pos - e }, .ok, [])
  | .readCubeMap w h => d.readCubeMap w h

end Dds
