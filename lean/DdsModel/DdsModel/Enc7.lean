/-
The discrete core of the BC7 ENCODER, `src/encode/bc7.rs` (the float endpoint search is NOT here; its results —
endpoints, p-bits — are parameters):

* `BitStream` (`write_u64`, `write_mode`, `write_rotation`, `write_indexes`, `write_endpoints_*`, `finish`),
* `IndexList<I>` (`get`, `set`, `constant`, `ensure_msb_zero`, `compress_single_index`, `compress_p1/p2/p3`,
  `merge2/merge3`), `bits_repeat2_u16`, `bits_repeat3_u16`,
* the block writers `Compressed::mode0 … mode7`,
* the encoder's own palette arithmetic `promote`, `Rgb/Rgba/Alpha::promote`, `p_promote`, `interpolate<W>`,
  `interpolate_rgb/rgba/alpha`, `dist_sq`, the encoder's copy of the weight tables,
* the exhaustive index selection `closest_rgb`, `closest_rgba`, `closest_alpha` (and `closest_error_*` where it
  is the same exhaustive search),
* `Rotation::apply`, `BlockStats`.

Conventions (`Mach.lean`): values are `Nat`; every Rust operator that can leave its type carries the reduction
modulo the type's size (`u8` shifts, `u16` weights, `u32` error sums, `u64` index words, the `u128` stream); the
theorems show the ideal value is in range.  A `u128` block is the `Nat` `u128::from_le_bytes(block)`, as in
`Bc7.decodeBlock`.  Colours are lists `[r, g, b]` / `[r, g, b, a]` read with `px`; arrays of endpoints are lists
read with `ep` (the Rust arrays have their length in the type: `[Rgb<4>; 6]` is iterated as `0..6`).
The partition tables are the shared `crate::bcn_data::PARTITION_SET_2/3` (`BcTables.implP2/implP3`).
-/
import DdsModel.Mach
import DdsModel.BcTables
namespace Dds.Enc7
open Dds.BcTables

def U128 : Nat := 340282366920938463463374607431768211456

def px (c : List Nat) (i : Nat) : Nat := c.getD i 0
def ep (e : List (List Nat)) (i : Nat) : List Nat := e.getD i []

/-! ### `BitStream` -/

/-- `BitStream::write_u64(value, bits)`: `self.data |= (value as u128) << self.bits; self.bits += bits`
(state = (`data : u128`, `bits : u8`)) -/
def writeU64 (st : Nat × Nat) (value bits : Nat) : Nat × Nat :=
  (st.1 ||| ((value % U64) <<< st.2) % U128, (st.2 + bits) % U8)

/-- a straight-line sequence of `write_u64(value, bits)` calls on `BitStream::new()` -/
def writeAll (fs : List (Nat × Nat)) : Nat × Nat := fs.foldl (fun st f => writeU64 st f.1 f.2) (0, 0)

/-- `BitStream::finish` (as the `u128` whose little-endian bytes are the block) -/
def finish (st : Nat × Nat) : Nat := st.1

/-- `write_mode(mode)`: `write_u64(1 << mode, mode + 1)` -/
def writeMode (mode : Nat) : List (Nat × Nat) := [((1 <<< mode) % U64, mode + 1)]
/-- `write_rotation(rotation)` -/
def writeRotation (rotation : Nat) : List (Nat × Nat) := [(rotation, 2)]
/-- one channel of `n` endpoints: `endpoints.iter().for_each(|e| self.write_u64(e.<c> as u64, B))` -/
def writeChan (B n : Nat) (eps : List (List Nat)) (c : Nat) : List (Nat × Nat) :=
  (List.range n).map fun e => (px (ep eps e) c, B)
/-- `write_endpoints_rgb::<B>(&[Rgb<B>; n])`: all R, then all G, then all B -/
def writeEndpointsRgb (B n : Nat) (eps : List (List Nat)) : List (Nat × Nat) :=
  writeChan B n eps 0 ++ writeChan B n eps 1 ++ writeChan B n eps 2
/-- `write_endpoints_rgba::<B>(&[Rgba<B>; n])` -/
def writeEndpointsRgba (B n : Nat) (eps : List (List Nat)) : List (Nat × Nat) :=
  writeChan B n eps 0 ++ writeChan B n eps 1 ++ writeChan B n eps 2 ++ writeChan B n eps 3
/-- `write_endpoints_alpha::<B>(&[Alpha<B>; n])` -/
def writeEndpointsAlpha (B n : Nat) (al : List Nat) : List (Nat × Nat) :=
  (List.range n).map fun e => (px al e, B)
/-- `write_endpoints_p(&[bool; n])` (booleans as 0 / 1) -/
def writeEndpointsP (n : Nat) (p : List Nat) : List (Nat × Nat) :=
  (List.range n).map fun k => (px p k, 1)
/-- `write_indexes(CompressedIndexList { compressed_indexes, bits })` -/
def writeIndexes (c : Nat × Nat) : List (Nat × Nat) := [c]

/-! ### `IndexList<I>` (a `u64`; `I` = 2, 3 or 4 bits per index) -/

/-- `MAX_INDEX = (1 << I) - 1` (`u8`) -/
def MAX_INDEX (I : Nat) : Nat := ((1 <<< I) % U8 + U8 - 1) % U8
/-- `INDEXES_MASK = if I == 4 { u64::MAX } else { (1 << (I * 16)) - 1 }` -/
def INDEXES_MASK (I : Nat) : Nat := if I = 4 then U64 - 1 else ((1 <<< ((I * 16) % U8)) % U64 + U64 - 1) % U64

/-- `get(index)`: `((self.indexes >> (index * I)) & MAX_INDEX as u64) as u8` -/
def get (I indexes index : Nat) : Nat := ((indexes >>> (index * I)) &&& MAX_INDEX I) % U8
/-- `set(index, value)`: `self.indexes |= (value as u64) << (index * I)` -/
def set (I indexes index value : Nat) : Nat := indexes ||| (value <<< (index * I)) % U64
/-- `IndexList` from 16 values by 16 `set`s on `new()` (how `closest_*` and the verification hook fill a list) -/
def ofList (I : Nat) (vals : List Nat) : Nat :=
  (List.range 16).foldl (fun acc i => set I acc i (px vals i)) 0
/-- `CONSTANT_MULTIPLE` -/
def CONSTANT_MULTIPLE (I : Nat) : Nat := (List.range 16).foldl (fun m i => m ||| (1 <<< (i * I)) % U64) 0
/-- `constant(value)` -/
def constant (I value : Nat) : Nat := (value * CONSTANT_MULTIPLE I) % U64

/-- `ensure_msb_zero(index, subset_mask) -> bool`: (new `indexes`, `swap`) -/
def ensureMsbZero (I indexes index subsetMask : Nat) : Nat × Bool :=
  let msbMask := (1 <<< ((I - 1 + index * I) % U8)) % U64
  let swap := (indexes &&& msbMask) != 0
  (if swap then indexes ^^^ subsetMask else indexes, swap)

/-- `compress_single_index(indexes, index) -> u64`: drop the (zero) MSB of entry `index` -/
def compressSingleIndex (I indexes index : Nat) : Nat :=
  let msbMask := (1 <<< ((I - 1 + index * I) % U8)) % U64
  let beforeMask := (msbMask + U64 - 1) % U64
  let afterMask := ((U64 - 1 - beforeMask) <<< 1) % U64
  (indexes &&& beforeMask) ||| ((indexes &&& afterMask) >>> 1)

/-- `compress_p1() -> (CompressedIndexList, bool)` : ((compressed, bits), swap) -/
def compressP1 (I indexes : Nat) : (Nat × Nat) × Bool :=
  let r := ensureMsbZero I indexes 0 (INDEXES_MASK I)
  ((compressSingleIndex I r.1 0, 16 * I - 1), r.2)

/-- `bits_repeat2_u16(x) -> u32` -/
def bitsRepeat2 (x : Nat) : Nat :=
  let x := x % U16
  let x := (x ||| (x <<< 8) % U32) &&& 0x00FF00FF
  let x := (x ||| (x <<< 4) % U32) &&& 0x0F0F0F0F
  let x := (x ||| (x <<< 2) % U32) &&& 0x33333333
  let x := (x ||| (x <<< 1) % U32) &&& 0x55555555
  x ||| (x <<< 1) % U32

/-- `bits_repeat3_u16(x) -> u64` -/
def bitsRepeat3 (x : Nat) : Nat :=
  let x := x % U16
  let x := (x ||| (x <<< 16) % U64) &&& 0b000000000000000011111111000000000000000011111111
  let x := (x ||| (x <<< 8) % U64) &&& 0b000000001111000000001111000000001111000000001111
  let x := (x ||| (x <<< 4) % U64) &&& 0b000011000011000011000011000011000011000011000011
  let x := (x ||| (x <<< 2) % U64) &&& 0b001001001001001001001001001001001001001001001001
  x ||| (x <<< 1) % U64 ||| (x <<< 2) % U64

/-- `compress_p2(subset: Subset2Map)` : ((compressed, bits), [swap1, swap2]); `subset = (subset_indexes, fixup_index_2)` -/
def compressP2 (I indexes : Nat) (subset : Nat × Nat) : (Nat × Nat) × (Bool × Bool) :=
  let p2Fixup := subset.2
  let maskS1 := if I = 2 then bitsRepeat2 subset.1 else bitsRepeat3 subset.1
  let r1 := ensureMsbZero I indexes 0 (maskS1 ^^^ INDEXES_MASK I)
  let r2 := ensureMsbZero I r1.1 p2Fixup maskS1
  let c := compressSingleIndex I r2.1 p2Fixup
  let c := compressSingleIndex I c 0
  ((c, 16 * I - 2), (r1.2, r2.2))

/-- `compress_p3::get_mask::<I>(subset, value)` -/
def getMask3 (I : Nat) (subset : Nat × Nat × Nat) (value : Nat) : Nat :=
  let elementMask := ((1 <<< I) % U64 + U64 - 1) % U64
  (List.range 16).foldl (fun mask i =>
    if subset3Index subset i = value then mask ||| (elementMask <<< (i * I)) % U64 else mask) 0

/-- `compress_p3(subset: Subset3Map)` : ((compressed, bits), [swap1, swap2, swap3]) -/
def compressP3 (I indexes : Nat) (subset : Nat × Nat × Nat) : (Nat × Nat) × (Bool × Bool × Bool) :=
  let p2Fixup := subset.2.1
  let p3Fixup := subset.2.2
  -- fix-up indexes are stored by ascending pixel number; here they are needed by subset
  let s1Index := if subset3Index subset p2Fixup = 2 then p3Fixup else p2Fixup
  let s2Index := if subset3Index subset p2Fixup = 2 then p2Fixup else p3Fixup
  let r1 := ensureMsbZero I indexes 0 (getMask3 I subset 0)
  let r2 := ensureMsbZero I r1.1 s1Index (getMask3 I subset 1)
  let r3 := ensureMsbZero I r2.1 s2Index (getMask3 I subset 2)
  let c := compressSingleIndex I r3.1 p3Fixup
  let c := compressSingleIndex I c p2Fixup
  let c := compressSingleIndex I c 0
  ((c, 16 * I - 3), (r1.2, r2.2, r3.2))

/-- `merge2(subset, s0, s1)`: pixel `i` takes the next unused entry of its subset's list -/
def merge2 (I : Nat) (subset : Nat × Nat) (s0 s1 : Nat) : Nat :=
  ((List.range 16).foldl (fun (st : Nat × Nat × Nat) i =>
    let (acc, i0, i1) := st
    if subset2Index subset i = 0 then (set I acc i (get I s0 i0), i0 + 1, i1)
    else (set I acc i (get I s1 i1), i0, i1 + 1)) (0, 0, 0)).1

/-- `merge3(subset, s0, s1, s2)` -/
def merge3 (I : Nat) (subset : Nat × Nat × Nat) (s0 s1 s2 : Nat) : Nat :=
  ((List.range 16).foldl (fun (st : Nat × Nat × Nat × Nat) i =>
    let (acc, i0, i1, i2) := st
    let s := subset3Index subset i
    if s = 0 then (set I acc i (get I s0 i0), i0 + 1, i1, i2)
    else if s = 1 then (set I acc i (get I s1 i1), i0, i1 + 1, i2)
    else (set I acc i (get I s2 i2), i0, i1, i2 + 1)) (0, 0, 0, 0)).1

/-! ### `Compressed::mode0 … mode7`: the `u128` of `.block` -/

/-- `arr.swap(2k, 2k+1)` if `sw` -/
def swapPair {α : Type} (sw : Bool) (a b : α) : List α := if sw then [b, a] else [a, b]

/-- `Compressed::mode0(error, partition, rgb: [Rgb<4>; 6], p: [bool; 6], indexes: IndexList<3>)` -/
def mode0 (partition : Nat) (rgb : List (List Nat)) (p : List Nat) (indexes : Nat) : Nat :=
  let subset := implP3 partition
  let ci := compressP3 3 indexes subset
  let rgb := swapPair ci.2.1 (ep rgb 0) (ep rgb 1) ++ swapPair ci.2.2.1 (ep rgb 2) (ep rgb 3) ++
    swapPair ci.2.2.2 (ep rgb 4) (ep rgb 5)
  let p := swapPair ci.2.1 (px p 0) (px p 1) ++ swapPair ci.2.2.1 (px p 2) (px p 3) ++
    swapPair ci.2.2.2 (px p 4) (px p 5)
  finish (writeAll (writeMode 0 ++ [(partition, 4)] ++ writeEndpointsRgb 4 6 rgb ++ writeEndpointsP 6 p ++
    writeIndexes ci.1))

/-- `Compressed::mode1(error, partition, rgb: [Rgb<6>; 4], p: [bool; 2], indexes: IndexList<3>)`
(the p-bit is shared by the two endpoints of a subset: it is not swapped) -/
def mode1 (partition : Nat) (rgb : List (List Nat)) (p : List Nat) (indexes : Nat) : Nat :=
  let subset := implP2 partition
  let ci := compressP2 3 indexes subset
  let rgb := swapPair ci.2.1 (ep rgb 0) (ep rgb 1) ++ swapPair ci.2.2 (ep rgb 2) (ep rgb 3)
  finish (writeAll (writeMode 1 ++ [(partition, 6)] ++ writeEndpointsRgb 6 4 rgb ++ writeEndpointsP 2 p ++
    writeIndexes ci.1))

/-- `Compressed::mode2(error, partition, rgb: [Rgb<5>; 6], indexes: IndexList<2>)` -/
def mode2 (partition : Nat) (rgb : List (List Nat)) (indexes : Nat) : Nat :=
  let subset := implP3 partition
  let ci := compressP3 2 indexes subset
  let rgb := swapPair ci.2.1 (ep rgb 0) (ep rgb 1) ++ swapPair ci.2.2.1 (ep rgb 2) (ep rgb 3) ++
    swapPair ci.2.2.2 (ep rgb 4) (ep rgb 5)
  finish (writeAll (writeMode 2 ++ [(partition, 6)] ++ writeEndpointsRgb 5 6 rgb ++ writeIndexes ci.1))

/-- `Compressed::mode3(error, partition, rgb: [Rgb<7>; 4], p: [bool; 4], indexes: IndexList<2>)` -/
def mode3 (partition : Nat) (rgb : List (List Nat)) (p : List Nat) (indexes : Nat) : Nat :=
  let subset := implP2 partition
  let ci := compressP2 2 indexes subset
  let rgb := swapPair ci.2.1 (ep rgb 0) (ep rgb 1) ++ swapPair ci.2.2 (ep rgb 2) (ep rgb 3)
  let p := swapPair ci.2.1 (px p 0) (px p 1) ++ swapPair ci.2.2 (px p 2) (px p 3)
  finish (writeAll (writeMode 3 ++ [(partition, 6)] ++ writeEndpointsRgb 7 4 rgb ++ writeEndpointsP 4 p ++
    writeIndexes ci.1))

/-- `Compressed::mode4(error, rotation, index_mode, color: [Rgb<5>; 2], color_indexes: IndexList<2>,
alpha: [Alpha<6>; 2], alpha_indexes: IndexList<3>)`.  `index_mode` = 1 is `C3A2`: the 3-bit list then indexes the
colour and the 2-bit list the alpha, so the swap flags change sides. -/
def mode4 (rotation indexMode : Nat) (color : List (List Nat)) (colorIndexes : Nat) (alpha : List Nat)
    (alphaIndexes : Nat) : Nat :=
  let ci := compressP1 2 colorIndexes
  let ai := compressP1 3 alphaIndexes
  let swapped := indexMode == 1
  let color := swapPair (ci.2 && !swapped || ai.2 && swapped) (ep color 0) (ep color 1)
  let alpha := swapPair (ai.2 && !swapped || ci.2 && swapped) (px alpha 0) (px alpha 1)
  finish (writeAll (writeMode 4 ++ writeRotation rotation ++ [(indexMode, 1)] ++ writeEndpointsRgb 5 2 color ++
    writeEndpointsAlpha 6 2 alpha ++ writeIndexes ci.1 ++ writeIndexes ai.1))

/-- `Compressed::mode5(error, rotation, color: [Rgb<7>; 2], color_indexes: IndexList<2>, alpha: [Alpha<8>; 2],
alpha_indexes: IndexList<2>)` -/
def mode5 (rotation : Nat) (color : List (List Nat)) (colorIndexes : Nat) (alpha : List Nat) (alphaIndexes : Nat) : Nat :=
  let ci := compressP1 2 colorIndexes
  let ai := compressP1 2 alphaIndexes
  let color := swapPair ci.2 (ep color 0) (ep color 1)
  let alpha := swapPair ai.2 (px alpha 0) (px alpha 1)
  finish (writeAll (writeMode 5 ++ writeRotation rotation ++ writeEndpointsRgb 7 2 color ++
    writeEndpointsAlpha 8 2 alpha ++ writeIndexes ci.1 ++ writeIndexes ai.1))

/-- `Compressed::mode6(error, rgba: [Rgba<7>; 2], p: [bool; 2], indexes: IndexList<4>)` -/
def mode6 (rgba : List (List Nat)) (p : List Nat) (indexes : Nat) : Nat :=
  let ci := compressP1 4 indexes
  let rgba := swapPair ci.2 (ep rgba 0) (ep rgba 1)
  let p := swapPair ci.2 (px p 0) (px p 1)
  finish (writeAll (writeMode 6 ++ writeEndpointsRgba 7 2 rgba ++ writeEndpointsP 2 p ++ writeIndexes ci.1))

/-- `Compressed::mode7(error, partition, rgba: [Rgba<5>; 4], p: [bool; 4], indexes: IndexList<2>)` -/
def mode7 (partition : Nat) (rgba : List (List Nat)) (p : List Nat) (indexes : Nat) : Nat :=
  let subset := implP2 partition
  let ci := compressP2 2 indexes subset
  let rgba := swapPair ci.2.1 (ep rgba 0) (ep rgba 1) ++ swapPair ci.2.2 (ep rgba 2) (ep rgba 3)
  let p := swapPair ci.2.1 (px p 0) (px p 1) ++ swapPair ci.2.2 (px p 2) (px p 3)
  finish (writeAll (writeMode 7 ++ [(partition, 6)] ++ writeEndpointsRgba 5 4 rgba ++ writeEndpointsP 4 p ++
    writeIndexes ci.1))

/-- the arguments of one `Compressed::modeN(..)` call (also the signature of the verification hook
`verif_hook::bc7_write`).  `endpoints`: the colour (modes 0–5, `[r, g, b]`) or colour + alpha (modes 6, 7,
`[r, g, b, a]`) endpoints in argument order; `alpha`: the two `Alpha<A>` endpoints of modes 4 / 5;
`indexes`: the `IndexList` argument (modes 4 / 5: `color_indexes`, 2 bit); `indexes2`: `alpha_indexes` of modes 4 / 5. -/
structure Fields where
  mode : Nat
  partition : Nat
  rotation : Nat
  indexMode : Nat
  endpoints : List (List Nat)
  alpha : List Nat
  pBits : List Nat
  indexes : Nat
  indexes2 : Nat
  deriving Repr

/-- the block `Compressed::mode<f.mode>(…)` builds -/
def write (f : Fields) : Nat :=
  if f.mode = 0 then mode0 f.partition f.endpoints f.pBits f.indexes
  else if f.mode = 1 then mode1 f.partition f.endpoints f.pBits f.indexes
  else if f.mode = 2 then mode2 f.partition f.endpoints f.indexes
  else if f.mode = 3 then mode3 f.partition f.endpoints f.pBits f.indexes
  else if f.mode = 4 then mode4 f.rotation f.indexMode f.endpoints f.indexes f.alpha f.indexes2
  else if f.mode = 5 then mode5 f.rotation f.endpoints f.indexes f.alpha f.indexes2
  else if f.mode = 6 then mode6 f.endpoints f.pBits f.indexes
  else if f.mode = 7 then mode7 f.partition f.endpoints f.pBits f.indexes
  else 0

/-! ### the encoder's palette arithmetic -/

/-- `promote(number, number_bits)` on `u8` -/
def promote (number bits : Nat) : Nat :=
  let n := (number <<< (8 - bits)) % U8
  n ||| (n >>> bits)

/-- one channel of `Rgb<B>::promote` / `Rgba<B>::promote` / `Alpha<B>::promote`: identity for `B == 8` -/
def promoteCh (B v : Nat) : Nat := if B = 8 then v else promote v B

/-- one channel of `p_promote(p)`: `(c << 1) | p`, then `promote(·, B + 1)` unless `B == 7` -/
def pPromoteCh (B v p : Nat) : Nat :=
  let c := ((v <<< 1) % U8) ||| p
  if B = 7 then c else promote c (B + 1)

/-- `Rgb<B>::promote` -/
def promoteRgb (B : Nat) (c : List Nat) : List Nat := [promoteCh B (px c 0), promoteCh B (px c 1), promoteCh B (px c 2)]
/-- `Rgb<B>::p_promote(p)` -/
def pPromoteRgb (B : Nat) (c : List Nat) (p : Nat) : List Nat :=
  [pPromoteCh B (px c 0) p, pPromoteCh B (px c 1) p, pPromoteCh B (px c 2) p]
/-- `Rgba<B>::promote` -/
def promoteRgba (B : Nat) (c : List Nat) : List Nat :=
  [promoteCh B (px c 0), promoteCh B (px c 1), promoteCh B (px c 2), promoteCh B (px c 3)]
/-- `Rgba<B>::p_promote(p)` -/
def pPromoteRgba (B : Nat) (c : List Nat) (p : Nat) : List Nat :=
  [pPromoteCh B (px c 0) p, pPromoteCh B (px c 1) p, pPromoteCh B (px c 2) p, pPromoteCh B (px c 3) p]

/-- the encoder's own copy of the weight tables (`WEIGHTS_2/3/4` of src/encode/bc7.rs) -/
def WEIGHTS_2 : List Nat := [0, 84, 172, 256]
def WEIGHTS_3 : List Nat := [0, 36, 72, 108, 148, 184, 220, 256]
def WEIGHTS_4 : List Nat := [0, 16, 36, 52, 68, 84, 104, 120, 136, 152, 172, 188, 204, 220, 240, 256]

/-- `match W { 2 => WEIGHTS_2[index], 3 => WEIGHTS_3[index], 4 => WEIGHTS_4[index] }` -/
def weight (W index : Nat) : Nat :=
  if W = 2 then WEIGHTS_2.getD index 0 else if W = 3 then WEIGHTS_3.getD index 0 else WEIGHTS_4.getD index 0

/-- `interpolate::<W>(e0, e1, index)`: `((w0 * e0 as u16 + w1 * e1 as u16 + 128) >> 8) as u8`, `w0 = 256 - weight` -/
def interpolate (W e0 e1 index : Nat) : Nat :=
  let w1 := weight W index
  let w0 := (256 + U16 - w1) % U16
  (((((w0 * e0) % U16 + (w1 * e1) % U16) % U16 + 128) % U16) >>> 8) % U8

/-- `interpolate_rgb::<W>` -/
def interpolateRgb (W : Nat) (e0 e1 : List Nat) (index : Nat) : List Nat :=
  [interpolate W (px e0 0) (px e1 0) index, interpolate W (px e0 1) (px e1 1) index,
   interpolate W (px e0 2) (px e1 2) index]
/-- `interpolate_rgba::<W>` -/
def interpolateRgba (W : Nat) (e0 e1 : List Nat) (index : Nat) : List Nat :=
  [interpolate W (px e0 0) (px e1 0) index, interpolate W (px e0 1) (px e1 1) index,
   interpolate W (px e0 2) (px e1 2) index, interpolate W (px e0 3) (px e1 3) index]
/-- `interpolate_alpha::<W>` (an `Alpha<8>` is its `a`) -/
def interpolateAlpha (W e0 e1 index : Nat) : Nat := interpolate W e0 e1 index

/-! ### `Rotation`, `BlockStats` -/

/-- `Rotation::apply` on one colour: `None` = 0, `AR` = 1 (`swap_r`), `AG` = 2, `AB` = 3 -/
def rotApply (rotation : Nat) (p : List Nat) : List Nat :=
  if rotation = 1 then [px p 3, px p 1, px p 2, px p 0]
  else if rotation = 2 then [px p 0, px p 3, px p 2, px p 1]
  else if rotation = 3 then [px p 0, px p 1, px p 3, px p 2]
  else p

/-- `Rotation::channel` -/
def rotChannel (rotation : Nat) : Nat := if rotation = 1 then 0 else if rotation = 2 then 1 else if rotation = 3 then 2 else 3

/-- `BlockStats::new(block)`: (min, max) per channel -/
def blockStats (block : List (List Nat)) : List Nat × List Nat :=
  block.foldl (fun (st : List Nat × List Nat) p =>
    ([min (px st.1 0) (px p 0), min (px st.1 1) (px p 1), min (px st.1 2) (px p 2), min (px st.1 3) (px p 3)],
     [max (px st.2 0) (px p 0), max (px st.2 1) (px p 1), max (px st.2 2) (px p 2), max (px st.2 3) (px p 3)]))
    ([255, 255, 255, 255], [0, 0, 0, 0])

/-- `Rgba<8>::to_u32` -/
def toU32 (c : List Nat) : Nat := px c 0 + 256 * px c 1 + 65536 * px c 2 + 16777216 * px c 3

/-- `BlockStats::single_color` (`min == max` compares `to_u32`) -/
def singleColor (st : List Nat × List Nat) : Option (List Nat) := if toU32 st.1 = toU32 st.2 then some st.1 else none
/-- `BlockStats::single_alpha` -/
def singleAlpha (st : List Nat × List Nat) : Option Nat := if px st.1 3 = px st.2 3 then some (px st.2 3) else none
/-- `BlockStats::opaque` (`opaque` is a Lean keyword) -/
def isOpaque (st : List Nat × List Nat) : Bool := px st.1 3 == 255

/-! ### `closest_rgb`, `closest_rgba`, `closest_alpha`: exhaustive search, first minimum wins -/

/-- `(a as i32 - b as i32)²` (in `i32`; at most 255²) -/
def sqDiff (a b : Nat) : Nat := (a - b) * (a - b) + (b - a) * (b - a)

/-- `Rgb<8>::dist_sq` (`(dr*dr + dg*dg + db*db) as u32`; the `i32` sum is at most 3·255²) -/
def distSqRgb (p c : List Nat) : Nat := sqDiff (px p 0) (px c 0) + sqDiff (px p 1) (px c 1) + sqDiff (px p 2) (px c 2)
/-- `Rgba<8>::dist_sq` -/
def distSqRgba (p c : List Nat) : Nat :=
  sqDiff (px p 0) (px c 0) + sqDiff (px p 1) (px c 1) + sqDiff (px p 2) (px c 2) + sqDiff (px p 3) (px c 3)

/-- the inner loop `for (j, &c) in palette.iter().enumerate() { if dist < best_dist { … } }`:
state `(best_index, best_dist)`, `j` = index of the head of the remaining palette -/
def closestLoop {α : Type} (dist : α → Nat) : List α → Nat → Nat × Nat → Nat × Nat
  | [], _, best => best
  | c :: rest, j, best =>
    closestLoop dist rest (j + 1) (if dist c < best.2 then (j, dist c) else best)

/-- `(best_index, best_dist)` of one pixel: starts from `(0, u32::MAX)` -/
def closestOne {α : Type} (dist : α → Nat) (palette : List α) : Nat × Nat :=
  closestLoop dist palette 0 (0, U32 - 1)

/-- the outer loop of `closest`: `indexes.set(i, best_index as u8); error += best_dist` (`u32`) -/
def closestAll {α : Type} (I : Nat) (dist : α → α → Nat) (palette : List α) : List α → Nat → Nat × Nat → Nat × Nat
  | [], _, st => st
  | p :: rest, i, st =>
    let b := closestOne (dist p) palette
    closestAll I dist palette rest (i + 1) (set I st.1 i (b.1 % U8), (st.2 + b.2) % U32)

/-- the palette `[e0, interpolate(e0, e1, 1), …, interpolate(e0, e1, 2^I - 2), e1]` -/
def palette {α : Type} (I : Nat) (interp : α → α → Nat → α) (e0 e1 : α) : List α :=
  [e0] ++ ((List.range ((1 <<< I) - 2)).map fun k => interp e0 e1 (k + 1)) ++ [e1]

/-- `closest_rgb::<I>(e0, e1, pixels) -> (IndexList<I>, u32)` (`I` = 2, 3; `pixels` any slice of ≤ 16 colours) -/
def closestRgb (I : Nat) (e0 e1 : List Nat) (pixels : List (List Nat)) : Nat × Nat :=
  closestAll I distSqRgb (palette I (interpolateRgb I) e0 e1) pixels 0 (0, 0)
/-- `closest_rgba::<I>` (`I` = 2, 4).  (`c.dist_sq(p)` instead of `p.dist_sq(c)`: the same number.) -/
def closestRgba (I : Nat) (e0 e1 : List Nat) (pixels : List (List Nat)) : Nat × Nat :=
  closestAll I distSqRgba (palette I (interpolateRgba I) e0 e1) pixels 0 (0, 0)
/-- `closest_alpha::<I>` (`I` = 2, 3; 16 alphas) -/
def closestAlpha (I : Nat) (e0 e1 : Nat) (pixels : List Nat) : Nat × Nat :=
  closestAll I sqDiff (palette I (interpolateAlpha I) e0 e1) pixels 0 (0, 0)

/-- `closest_error_rgb::<I>`, `closest_error_rgba::<2>`: `error += min_c dist` over the same palette
(`closest_error_rgba::<4>` is a projection shortcut and `closest_error_alpha` works on `abs_diff`: not modelled) -/
def closestError {α : Type} (dist : α → α → Nat) (palette : List α) (pixels : List α) : Nat :=
  pixels.foldl (fun error p => (error + palette.foldl (fun best c => min best (dist c p)) (U32 - 1)) % U32) 0

/-- what an exhaustive first-minimum search returns (`r` = (index list, error), `d` = default of `getD` only):
per pixel the chosen index is in range, its palette entry is at least as close as EVERY palette entry and strictly
closer than every EARLIER entry (ties go to the lowest index); the error is the sum of the chosen squared distances,
at most `n · B`; the index word holds 16 entries of `I` bits -/
def ArgminSpec {α : Type} (I : Nat) (dist : α → α → Nat) (pal pixels : List α) (d : α) (B : Nat) (r : Nat × Nat) : Prop :=
  (∀ i, i < pixels.length →
    get I r.1 i < 2 ^ I ∧
    (∀ j, j < 2 ^ I → dist (pixels.getD i d) (pal.getD (get I r.1 i) d) ≤ dist (pixels.getD i d) (pal.getD j d)) ∧
    (∀ j, j < get I r.1 i → dist (pixels.getD i d) (pal.getD (get I r.1 i) d) < dist (pixels.getD i d) (pal.getD j d))) ∧
  r.2 = ((List.range pixels.length).map fun i => dist (pixels.getD i d) (pal.getD (get I r.1 i) d)).sum ∧
  r.2 ≤ pixels.length * B ∧
  r.1 < 2 ^ (16 * I)

/-! ### what the encoder intends a written block to decode to -/

/-- subset of pixel `i`: `PARTITION_SET_3[partition].get_subset_index(i)` (modes 0, 2),
`PARTITION_SET_2[partition].get_subset_index(i)` (modes 1, 3, 7), one subset otherwise -/
def subsetOf (mode partition i : Nat) : Nat :=
  if mode = 0 ∨ mode = 2 then subset3Index (implP3 partition) i
  else if mode = 1 ∨ mode = 3 ∨ mode = 7 then subset2Index (implP2 partition) i
  else 0

/-- the colour pixel `i` of the block is meant to show: the encoder's own palette entry
`interpolate(p_promote(e0), p_promote(e1), index_i)` over the subset of pixel `i` (alpha 255 in the modes without
alpha), with `Rotation::apply` (the encoder fitted the rotated block) -/
def intended (f : Fields) (i : Nat) : List Nat :=
  let s := subsetOf f.mode f.partition i
  let E0 := ep f.endpoints (2 * s)
  let E1 := ep f.endpoints (2 * s + 1)
  if f.mode = 0 then
    interpolateRgb 3 (pPromoteRgb 4 E0 (px f.pBits (2 * s))) (pPromoteRgb 4 E1 (px f.pBits (2 * s + 1))) (get 3 f.indexes i) ++ [255]
  else if f.mode = 1 then
    interpolateRgb 3 (pPromoteRgb 6 E0 (px f.pBits s)) (pPromoteRgb 6 E1 (px f.pBits s)) (get 3 f.indexes i) ++ [255]
  else if f.mode = 2 then
    interpolateRgb 2 (promoteRgb 5 E0) (promoteRgb 5 E1) (get 2 f.indexes i) ++ [255]
  else if f.mode = 3 then
    interpolateRgb 2 (pPromoteRgb 7 E0 (px f.pBits (2 * s))) (pPromoteRgb 7 E1 (px f.pBits (2 * s + 1))) (get 2 f.indexes i) ++ [255]
  else if f.mode = 4 then
    let c0 := promoteRgb 5 E0
    let c1 := promoteRgb 5 E1
    let a0 := promoteCh 6 (px f.alpha 0)
    let a1 := promoteCh 6 (px f.alpha 1)
    if f.indexMode = 1 then
      rotApply f.rotation (interpolateRgb 3 c0 c1 (get 3 f.indexes2 i) ++ [interpolateAlpha 2 a0 a1 (get 2 f.indexes i)])
    else
      rotApply f.rotation (interpolateRgb 2 c0 c1 (get 2 f.indexes i) ++ [interpolateAlpha 3 a0 a1 (get 3 f.indexes2 i)])
  else if f.mode = 5 then
    rotApply f.rotation (interpolateRgb 2 (promoteRgb 7 E0) (promoteRgb 7 E1) (get 2 f.indexes i) ++
      [interpolateAlpha 2 (promoteCh 8 (px f.alpha 0)) (promoteCh 8 (px f.alpha 1)) (get 2 f.indexes2 i)])
  else if f.mode = 6 then
    interpolateRgba 4 (pPromoteRgba 7 E0 (px f.pBits 0)) (pPromoteRgba 7 E1 (px f.pBits 1)) (get 4 f.indexes i)
  else if f.mode = 7 then
    interpolateRgba 2 (pPromoteRgba 5 E0 (px f.pBits (2 * s))) (pPromoteRgba 5 E1 (px f.pBits (2 * s + 1))) (get 2 f.indexes i)
  else []

/-- per mode: (#endpoints, colour bits, alpha bits (0 = none / separate), #p-bits, index bits, second index bits,
partition bound; modes 4–6 ignore the partition) -/
def modeShape (mode : Nat) : Nat × Nat × Nat × Nat × Nat × Nat × Nat :=
  if mode = 0 then (6, 4, 0, 6, 3, 0, 16)
  else if mode = 1 then (4, 6, 0, 2, 3, 0, 64)
  else if mode = 2 then (6, 5, 0, 0, 2, 0, 64)
  else if mode = 3 then (4, 7, 0, 4, 2, 0, 64)
  else if mode = 4 then (2, 5, 6, 0, 2, 3, 64)
  else if mode = 5 then (2, 7, 8, 0, 2, 2, 64)
  else if mode = 6 then (2, 7, 7, 2, 4, 0, 64)
  else (4, 5, 5, 4, 2, 0, 64)

/-- the `debug_assert!`s of the constructors (`Rgb::<B>::new`, `Rgba::<B>::new`, `Alpha::<A>::new`,
`partition < 16 / 64`, the enum ranges) and "the `u64` holds 16 indexes of `I` bits" -/
def Fields.WF (f : Fields) : Prop :=
  f.mode < 8 ∧
  f.partition < (modeShape f.mode).2.2.2.2.2.2 ∧
  f.rotation < 4 ∧ f.indexMode < 2 ∧
  (∀ e, e < (modeShape f.mode).1 → ∀ c, c < (if f.mode = 6 ∨ f.mode = 7 then 4 else 3) →
    px (ep f.endpoints e) c < 2 ^ (modeShape f.mode).2.1) ∧
  (∀ e, e < 2 → px f.alpha e < 2 ^ (modeShape f.mode).2.2.1) ∧
  (∀ k, k < (modeShape f.mode).2.2.2.1 → px f.pBits k < 2) ∧
  f.indexes < 2 ^ (16 * (modeShape f.mode).2.2.2.2.1) ∧
  f.indexes2 < 2 ^ (16 * (modeShape f.mode).2.2.2.2.2.1)

/-! ### the discrete glue of `compress_mode0 … compress_mode7`: which index lists go with given endpoints

Everything the float search decides (endpoints, p-bits, partition, rotation, index selector) is a PARAMETER here; what
is computed is what the code computes from them with integer arithmetic: `sort_block`, the slices per subset,
`closest_*` on the promoted endpoints, `merge2 / merge3`. -/

/-- `Subset2Map::sort_block` / `Subset3Map::sort_block` (bcn_data.rs): counting sort of the keys
`i | (subset(i) << 4)` through a bitset, then `block[count] = original[i & 0x0F]` for every set bit in ascending order -/
def sortBlock {α : Type} (nSub : Nat) (subset : Nat → Nat) (block : List α) (d : α) : List α :=
  let bitset := (List.range 16).foldl (fun b i => b ||| (1 <<< ((i ||| (subset i <<< 4)) % U8)) % U64) 0
  (((List.range (16 * nSub)).filter fun i => bitset &&& (1 <<< i) != 0).map fun i => block.getD (i &&& 15) d).take 16

/-- `count_zeros()`, `count_ones()`, … : number of pixels of subset `s` -/
def subsetCount (subset : Nat → Nat) (s : Nat) : Nat := ((List.range 16).filter fun i => subset i = s).length

/-- the slice `&reordered[split(s) .. split(s + 1)]` handed to `compress_rgb` / `compress_rgba` for subset `s` -/
def subsetSlice {α : Type} (nSub : Nat) (subset : Nat → Nat) (block : List α) (d : α) (s : Nat) : List α :=
  let before := ((List.range s).map (subsetCount subset)).foldl (· + ·) 0
  ((sortBlock nSub subset block d).drop before).take (subsetCount subset s)

def rgbOf (p : List Nat) : List Nat := [px p 0, px p 1, px p 2]

/-- the index lists `compress_mode<f.mode>` passes to `Compressed::mode<f.mode>` together with the endpoints, p-bits,
partition, rotation and index selector of `f`, for the 16 pixels `block` (`[r, g, b, a]`, not yet rotated):
(`indexes`, `indexes2`) in the argument positions of `Fields`.  (`f.indexes`, `f.indexes2` are not read.) -/
def indexesFor (f : Fields) (block : List (List Nat)) : Nat × Nat :=
  let sub := subsetOf f.mode f.partition
  let E := fun k => ep f.endpoints k
  let P := fun k => px f.pBits k
  if f.mode = 0 then
    let b := block.map rgbOf
    let ix := fun s => (closestRgb 3 (pPromoteRgb 4 (E (2 * s)) (P (2 * s))) (pPromoteRgb 4 (E (2 * s + 1)) (P (2 * s + 1)))
      (subsetSlice 3 sub b [] s)).1
    (merge3 3 (implP3 f.partition) (ix 0) (ix 1) (ix 2), 0)
  else if f.mode = 1 then
    let b := block.map rgbOf
    let ix := fun s => (closestRgb 3 (pPromoteRgb 6 (E (2 * s)) (P s)) (pPromoteRgb 6 (E (2 * s + 1)) (P s))
      (subsetSlice 2 sub b [] s)).1
    (merge2 3 (implP2 f.partition) (ix 0) (ix 1), 0)
  else if f.mode = 2 then
    let b := block.map rgbOf
    let ix := fun s => (closestRgb 2 (promoteRgb 5 (E (2 * s))) (promoteRgb 5 (E (2 * s + 1))) (subsetSlice 3 sub b [] s)).1
    (merge3 2 (implP3 f.partition) (ix 0) (ix 1) (ix 2), 0)
  else if f.mode = 3 then
    let b := block.map rgbOf
    let ix := fun s => (closestRgb 2 (pPromoteRgb 7 (E (2 * s)) (P (2 * s))) (pPromoteRgb 7 (E (2 * s + 1)) (P (2 * s + 1)))
      (subsetSlice 2 sub b [] s)).1
    (merge2 2 (implP2 f.partition) (ix 0) (ix 1), 0)
  else if f.mode = 4 then
    -- `compress_color_separate_alpha_with_rotation`: `block = rotation.apply(block)` first
    let b := block.map (rotApply f.rotation)
    let rgb := b.map rgbOf
    let al := b.map fun p => px p 3
    let c0 := promoteRgb 5 (E 0)
    let c1 := promoteRgb 5 (E 1)
    let a0 := promoteCh 6 (px f.alpha 0)
    let a1 := promoteCh 6 (px f.alpha 1)
    if f.indexMode = 1 then ((closestAlpha 2 a0 a1 al).1, (closestRgb 3 c0 c1 rgb).1)
    else ((closestRgb 2 c0 c1 rgb).1, (closestAlpha 3 a0 a1 al).1)
  else if f.mode = 5 then
    let b := block.map (rotApply f.rotation)
    ((closestRgb 2 (promoteRgb 7 (E 0)) (promoteRgb 7 (E 1)) (b.map rgbOf)).1,
     (closestAlpha 2 (promoteCh 8 (px f.alpha 0)) (promoteCh 8 (px f.alpha 1)) (b.map fun p => px p 3)).1)
  else if f.mode = 6 then
    ((closestRgba 4 (pPromoteRgba 7 (E 0) (P 0)) (pPromoteRgba 7 (E 1) (P 1)) block).1, 0)
  else if f.mode = 7 then
    let ix := fun s => (closestRgba 2 (pPromoteRgba 5 (E (2 * s)) (P (2 * s))) (pPromoteRgba 5 (E (2 * s + 1)) (P (2 * s + 1)))
      (subsetSlice 2 sub block [] s)).1
    (merge2 2 (implP2 f.partition) (ix 0) (ix 1), 0)
  else (0, 0)

/-- the block the encoder emits for `block` once the search has settled on the parameters of `f` -/
def emit (f : Fields) (block : List (List Nat)) : Nat :=
  let ix := indexesFor f block
  write { f with indexes := ix.1, indexes2 := ix.2 }

instance (f : Fields) : Decidable f.WF := by unfold Fields.WF; exact inferInstance

end Dds.Enc7
