/-
C15 — encoding is total.  Model of the parts of the encoder that decide WHETHER bytes are
written and HOW MANY, and of the scalar quantisers whose results are shifted into bit fields.

* format table: `get_encoders` (src/encode/mod.rs), `PixelInfo::from(Format)` (src/pixel.rs) and
  the size multiple `EncoderSet::new_bi_planar` sets (src/encode/encoder.rs)
* `EncodingSupport::supports_size` (src/encode/mod.rs) and the check at the top of
  `bi_planar_universal` (src/encode/bi_planar.rs)
* event traces `[check] ++ writes`: the write sizes are the writer-loop models of `EncLen.lean`
* `Write::write_all` against a writer that accepts `k` bytes and then fails
* Rust's saturating float→int `as` casts, `f32::min`, `f32::max` on an extended-real domain and
  every `from_f32` quantiser of src/color/formats.rs that feeds a bit field
* the `while` loop of `bcn_util::refine_endpoints` and the `max_iter` tables of src/encode/bc.rs
* `rgb9995f::from_f32` (src/color/formats.rs) at the bit level — on binary32 bit patterns, with
  the software binary32 of `ConvF32.lean` (namespace `SharedExp` at the end of this file)

NOT modelled: the float bodies of the BC1/BC4/BC7 block encoders (explored by the harness).
-/
import DdsModel.Layout
import DdsModel.EncLen
import DdsModel.ConvF32
namespace Dds.EncTotal
open Dds

/-! ### format table -/

structure Row where
  name : String
  px : PixelInfo
  /-- `get_encoders(format).is_some()` -/
  encodable : Bool
  /-- `EncoderSet::size_multiple` ((1,1) for `None`) -/
  mulW : Nat
  mulH : Nat
deriving Repr, DecidableEq, Inhabited

private def u (name : String) (bpp : Nat) : Row := ⟨name, .fixed bpp, true, 1, 1⟩
private def s (name : String) (bytes bw : Nat) : Row := ⟨name, .block bytes bw 1, true, 1, 1⟩
private def p (name : String) (p1 p2 : Nat) : Row := ⟨name, .biPlanar p1 p2 2 2, true, 2, 2⟩
private def b (name : String) (bytes : Nat) : Row := ⟨name, .block bytes 4 4, true, 1, 1⟩
private def x (name : String) (bytes bw bh : Nat) : Row := ⟨name, .block bytes bw bh, false, 1, 1⟩

/-- all 73 formats, in the order of `Format` -/
def table : List Row := [
  u "R8G8B8_UNORM" 3, u "B8G8R8_UNORM" 3, u "R8G8B8A8_UNORM" 4, u "R8G8B8A8_SNORM" 4,
  u "B8G8R8A8_UNORM" 4, u "B8G8R8X8_UNORM" 4, u "B5G6R5_UNORM" 2, u "B5G5R5A1_UNORM" 2,
  u "B4G4R4A4_UNORM" 2, u "A4B4G4R4_UNORM" 2, u "R8_SNORM" 1, u "R8_UNORM" 1, u "R8G8_UNORM" 2,
  u "R8G8_SNORM" 2, u "A8_UNORM" 1, u "R16_UNORM" 2, u "R16_SNORM" 2, u "R16G16_UNORM" 4,
  u "R16G16_SNORM" 4, u "R16G16B16A16_UNORM" 8, u "R16G16B16A16_SNORM" 8,
  u "R10G10B10A2_UNORM" 4, u "R11G11B10_FLOAT" 4, u "R9G9B9E5_SHAREDEXP" 4, u "R16_FLOAT" 2,
  u "R16G16_FLOAT" 4, u "R16G16B16A16_FLOAT" 8, u "R32_FLOAT" 4, u "R32G32_FLOAT" 8,
  u "R32G32B32_FLOAT" 12, u "R32G32B32A32_FLOAT" 16, u "R10G10B10_XR_BIAS_A2_UNORM" 4,
  u "AYUV" 4, u "Y410" 4, u "Y416" 8,
  s "R1_UNORM" 1 8, s "R8G8_B8G8_UNORM" 4 2, s "G8R8_G8B8_UNORM" 4 2, s "UYVY" 4 2, s "YUY2" 4 2,
  s "Y210" 8 2, s "Y216" 8 2,
  p "NV12" 1 2, p "P010" 2 4, p "P016" 2 4,
  b "BC1_UNORM" 8, b "BC2_UNORM" 16, b "BC2_UNORM_PREMULTIPLIED_ALPHA" 16, b "BC3_UNORM" 16,
  b "BC3_UNORM_PREMULTIPLIED_ALPHA" 16, b "BC4_UNORM" 8, b "BC4_SNORM" 8, b "BC5_UNORM" 16,
  b "BC5_SNORM" 16, x "BC6H_UF16" 16 4 4, x "BC6H_SF16" 16 4 4, b "BC7_UNORM" 16,
  x "ASTC_4X4_UNORM" 16 4 4, x "ASTC_5X4_UNORM" 16 5 4, x "ASTC_5X5_UNORM" 16 5 5,
  x "ASTC_6X5_UNORM" 16 6 5, x "ASTC_6X6_UNORM" 16 6 6, x "ASTC_8X5_UNORM" 16 8 5,
  x "ASTC_8X6_UNORM" 16 8 6, x "ASTC_8X8_UNORM" 16 8 8, x "ASTC_10X5_UNORM" 16 10 5,
  x "ASTC_10X6_UNORM" 16 10 6, x "ASTC_10X8_UNORM" 16 10 8, x "ASTC_10X10_UNORM" 16 10 10,
  x "ASTC_12X10_UNORM" 16 12 10, x "ASTC_12X12_UNORM" 16 12 12,
  b "BC3_UNORM_RXGB" 16, b "BC3_UNORM_NORMAL" 16
]

def lookup (name : String) : Option Row := table.find? (·.name = name)

/-- `EncodingSupport::supports_size` -/
def Row.supportsSize (r : Row) (w h : Nat) : Bool := w % r.mulW = 0 && h % r.mulH = 0

/-- the check at the top of `bi_planar_universal`: `width % 2 != 0 || height % 2 != 0` -/
def biPlanarRefuses (w h : Nat) : Bool := w % 2 ≠ 0 || h % 2 ≠ 0

/-! ### writer loops: which `write_all` sizes an encoder issues -/

/-- the encoder of the set that `pick_encoder` selects, as far as its writer loop is concerned -/
inductive Loop where
  /-- `copy_directly` on a contiguous little-endian image: one `write_all(image.data())` -/
  | copyAll
  /-- `for_each_chunk` contiguous path with a buffer of `bufPx` pixels
  (`uncompressed_universal`: 512, `uncompressed_untyped` / `copy_directly`: 4096 / bpp) -/
  | contig (bufPx : Nat)
  /-- `for_each_chunk` strided path -/
  | rows (bufPx : Nat)
  /-- `uncompressed_universal_dither`: per row, chunks of `chunkPx` pixels -/
  | perRow (chunkPx : Nat)
deriving Repr, DecidableEq, Inhabited

def Loop.ok : Loop → Bool
  | .copyAll => true
  | .contig n => 1 ≤ n
  | .rows n => 1 ≤ n
  | .perRow n => 1 ≤ n

/-- the write sizes of one `encode` call for a supported size -/
def writes (px : PixelInfo) (lp : Loop) (w h : Nat) : List Nat :=
  match px with
  | .fixed bpp =>
    match lp with
    | .copyAll => [w * h * bpp]
    | .contig n => chunksContig (w * h) n bpp
    | .rows n => chunksRows w h n bpp
    | .perRow n => chunksPerRow w h n bpp
  | .block bytes bw bh =>
    if bh = 1 then chunksSubsample w h (512 / bw * bw) bw bytes
    else writesBlock w h bw bh bytes
  | .biPlanar p1 p2 _ _ =>
    -- `for_each_f32_rgba_rows` never calls the closure for an empty image, but the final
    -- `write_all` of plane 2 (0 bytes) is still issued
    writesBiPlanar w h p1 p2

/-! ### events, results, the failing writer -/

inductive Ev where
  /-- the size-multiple check -/
  | check
  /-- `write_all` of `n` bytes -/
  | write (n : Nat)
deriving Repr, DecidableEq, Inhabited

inductive Res where
  | ok | unsupportedFormat | invalidSize | ioError
deriving Repr, DecidableEq, Inhabited

def Res.name : Res → String
  | .ok => "ok"
  | .unsupportedFormat => "err UnsupportedFormat"
  | .invalidSize => "err InvalidSize"
  | .ioError => "err Io"

/-- `Write::write_all` calls with the given sizes against a writer that accepts `budget` more
bytes (`none`: never fails).  A failing `write_all` has passed on the bytes that still fitted;
every `write_all` is followed by `?`, so the first failure ends the call.
Returns the result and the number of bytes the writer accepted. -/
def runWrites : Option Nat → List Nat → Res × Nat
  | _, [] => (.ok, 0)
  | none, s :: rest => let r := runWrites none rest; (r.1, s + r.2)
  | some k, s :: rest =>
    if s ≤ k then let r := runWrites (some (k - s)) rest; (r.1, s + r.2)
    else (.ioError, k)

/-- the events of a list of write sizes up to and including the first failing one -/
def performed : Option Nat → List Nat → List Ev
  | _, [] => []
  | none, s :: rest => .write s :: performed none rest
  | some k, s :: rest =>
    if s ≤ k then .write s :: performed (some (k - s)) rest else [.write s]

structure Outcome where
  res : Res
  /-- bytes accepted by the writer -/
  bytes : Nat
  /-- events in program order -/
  trace : List Ev
deriving Repr, DecidableEq, Inhabited

/-- image views normalise empty sizes to 0x0 (`ImageView::new`) -/
def normView (w h : Nat) : Nat × Nat := if w = 0 ∨ h = 0 then (0, 0) else (w, h)

/-- `dds::encode` of a `w x h` image (before normalisation) in the format of `row` -/
def encode (row : Row) (lp : Loop) (w h : Nat) (fault : Option Nat) : Outcome :=
  if !row.encodable then ⟨.unsupportedFormat, 0, []⟩ else
  let (w, h) := normView w h
  match row.px with
  | .biPlanar .. =>
    if biPlanarRefuses w h then ⟨.invalidSize, 0, [.check]⟩
    else
      let ws := writes row.px lp w h
      let r := runWrites fault ws
      ⟨r.1, r.2, .check :: performed fault ws⟩
  | _ =>
    let ws := writes row.px lp w h
    let r := runWrites fault ws
    ⟨r.1, r.2, performed fault ws⟩

/-- no `write` event before a `check` event -/
def checkFirst : List Ev → Bool
  | [] => true
  | .check :: rest => checkFirst rest
  | .write _ :: rest => rest.all (· ≠ .check)

def noWrite (t : List Ev) : Bool := t.all fun e => match e with | .write _ => false | .check => true

/-! ### floats: an extended-real domain -/

/-- the values of an `f32`/`f64` expression: NaN, the infinities, or a (rounded) rational.
`-0.0` is `fin 0`: no operation below distinguishes the zeros. -/
inductive ExtReal where
  | nan | ninf | pinf
  | fin (q : Rat)
deriving Repr, DecidableEq, Inhabited

/-- `x ≤ c` for a finite bound `c`; NaN is not bounded by anything -/
def ExtReal.ub : ExtReal → Rat → Prop
  | .nan, _ => False
  | .ninf, _ => True
  | .pinf, _ => False
  | .fin q, c => q ≤ c

/-- What is assumed of the rounding of one arithmetic operation (binary32 or binary64,
round to nearest, overflow to infinity): the rounded result of a real number is never
NaN and rounding is monotone — stated in the only form used: a value below a value that is
rounded to the finite `c` is rounded to at most `c`. -/
structure Rounding where
  rnd : Rat → ExtReal
  mono : ∀ a b c, a ≤ b → rnd b = .fin c → (rnd a).ub c

/-- exact arithmetic is a rounding -/
def Rounding.exact : Rounding := ⟨.fin, by
  intro a b c hab h
  injection h with h
  subst h
  exact hab⟩

/-- `x.min(c)` (`f32::min`: a NaN operand is ignored) -/
def ExtReal.minC : ExtReal → Rat → ExtReal
  | .nan, c => .fin c
  | .ninf, _ => .ninf
  | .pinf, c => .fin c
  | .fin q, c => .fin (if q ≤ c then q else c)

/-- `x.max(c)` (`f32::max`: a NaN operand is ignored) -/
def ExtReal.maxC : ExtReal → Rat → ExtReal
  | .nan, c => .fin c
  | .ninf, c => .fin c
  | .pinf, _ => .pinf
  | .fin q, c => .fin (if c ≤ q then q else c)

/-- `x * k` for a positive constant `k` -/
def ExtReal.mulPos (R : Rounding) : ExtReal → Rat → ExtReal
  | .fin q, k => R.rnd (q * k)
  | e, _ => e

/-- `x * k` for a negative constant `k` -/
def ExtReal.mulNeg (R : Rounding) : ExtReal → Rat → ExtReal
  | .fin q, k => R.rnd (q * k)
  | .nan, _ => .nan
  | .ninf, _ => .pinf
  | .pinf, _ => .ninf

/-- `x + c` for a finite constant `c` -/
def ExtReal.addC (R : Rounding) : ExtReal → Rat → ExtReal
  | .fin q, c => R.rnd (q + c)
  | e, _ => e

/-- `x + y` -/
def ExtReal.add (R : Rounding) : ExtReal → ExtReal → ExtReal
  | .nan, _ => .nan
  | _, .nan => .nan
  | .pinf, .ninf => .nan
  | .ninf, .pinf => .nan
  | .pinf, _ => .pinf
  | _, .pinf => .pinf
  | .ninf, _ => .ninf
  | _, .ninf => .ninf
  | .fin a, .fin b => R.rnd (a + b)

/-- `x as uN` (N = `bits`): NaN → 0, saturating, truncation toward zero -/
def ExtReal.castU (bits : Nat) : ExtReal → Nat
  | .nan => 0
  | .ninf => 0
  | .pinf => 2 ^ bits - 1
  | .fin q => if q < 0 then 0 else min q.floor.toNat (2 ^ bits - 1)

/-- `x >= c` (false for NaN) -/
def ExtReal.geC : ExtReal → Rat → Bool
  | .nan, _ => false
  | .ninf, _ => false
  | .pinf, _ => true
  | .fin q, c => c ≤ q

/-! ### the quantisers of src/color/formats.rs -/

/-- `n1::from_f32`: `if x >= 0.5 { 1 } else { 0 }` -/
def qN1 (x : ExtReal) : Nat := if x.geC (1/2) then 1 else 0

/-- `n2/n4/n5/n6/n10::from_f32`: `(x.min(1.0) * MAX + 0.5) as u8|u16` with MAX = 2^n − 1;
`ty` is the width of the integer type of the cast -/
def qUnormMin (R : Rounding) (max : Nat) (ty : Nat) (x : ExtReal) : Nat :=
  (((x.minC 1).mulPos R max).addC R (1/2)).castU ty

/-- `n8::from_f32` / `n16::from_f32` / `fp::n8` / `fp::n16`: `(x * MAX + 0.5) as u8|u16` —
no clamp at all, the cast saturates -/
def qUnormSat (R : Rounding) (max : Nat) (ty : Nat) (x : ExtReal) : Nat :=
  ((x.mulPos R max).addC R (1/2)).castU ty

/-- `s8::from_uf32` / `s16::from_uf32` up to `from_norm`:
`norm = (x.min(1.0) * (2^n − 2) + 0.5) as uN` -/
def qSnormNorm (R : Rounding) (bits : Nat) (x : ExtReal) : Nat :=
  qUnormMin R (2 ^ bits - 2) bits x

/-- `from_norm`: `(norm + 1).wrapping_sub(2^(n-1))`; `none` = the `+ 1` overflows (a panic in
the checked profile) -/
def snormFromNorm (bits : Nat) (norm : Nat) : Option Nat :=
  if norm + 1 < 2 ^ bits then some ((norm + 1 + 2 ^ bits - 2 ^ (bits - 1)) % 2 ^ bits) else none

def qSnorm (R : Rounding) (bits : Nat) (x : ExtReal) : Option Nat :=
  snormFromNorm bits (qSnormNorm R bits x)

/-- `xr10::from_f32`: `((x * 510.0 + 384.5) as u16).min(1023)` -/
def qXr10 (R : Rounding) (x : ExtReal) : Nat :=
  min (((x.mulPos R 510).addC R (769/2)).castU 16) 1023

/-- one row of the BT.601 matrix in `yuv8/yuv10/yuv16::from_rgb_f32`:
`(cr * r + cg * g + cb * b + off) as uN` where `r,g,b` are the inputs times `scale`;
coefficient signs as in the source (`neg` = the coefficient is negative, `c` its magnitude) -/
structure YuvRow where
  cr : Rat
  rNeg : Bool
  cg : Rat
  gNeg : Bool
  cb : Rat
  bNeg : Bool
  off : Rat

def mulSigned (R : Rounding) (x : ExtReal) (c : Rat) (neg : Bool) : ExtReal :=
  if neg then x.mulNeg R (-c) else x.mulPos R c

def yuvExpr (R : Rounding) (row : YuvRow) (scale : Nat) (r g b : ExtReal) : ExtReal :=
  let r := r.mulPos R scale
  let g := g.mulPos R scale
  let b := b.mulPos R scale
  ((((mulSigned R r row.cr row.rNeg).add R (mulSigned R g row.cg row.gNeg)).add R
    (mulSigned R b row.cb row.bNeg))).addC R row.off

def yRow (off : Rat) : YuvRow := ⟨256788/1000000, false, 504129/1000000, false, 97906/1000000, false, off⟩
def uRow (off : Rat) : YuvRow := ⟨148223/1000000, true, 290993/1000000, true, 439216/1000000, false, off⟩
def vRow (off : Rat) : YuvRow := ⟨439216/1000000, false, 367788/1000000, true, 71427/1000000, true, off⟩

/-- `yuv8::from_rgb_f32` component: `as u8` -/
def qYuv8 (R : Rounding) (row : YuvRow) (r g b : ExtReal) : Nat := (yuvExpr R row 255 r g b).castU 8
/-- `yuv10::from_rgb_f32` component: `as u16` then `.min(1023)` -/
def qYuv10 (R : Rounding) (row : YuvRow) (r g b : ExtReal) : Nat :=
  min ((yuvExpr R row 1023 r g b).castU 16) 1023
/-- `yuv16::from_rgb_f32` component: `as u16` -/
def qYuv16 (R : Rounding) (row : YuvRow) (r g b : ExtReal) : Nat := (yuvExpr R row 65535 r g b).castU 16

/-- `f32_to_unsigned_fp_e5(n, x)` after the half conversion: `(exp << n) | mant` with
`exp = (f16 >> 10) & 31`, `mant = (f16 & 1023) >> (10 - n)`; `f16` is any `u16` -/
def fpE5 (n : Nat) (f16 : Nat) : Nat :=
  (((f16 >>> 10) &&& 31) <<< n) ||| ((f16 &&& 1023) >>> (10 - n))

/-- `rgb9995f::from_f32` mantissa for the exponent `exp` (`0 ≤ exp ≤ 31`):
`(c * two_powi(24 - exp) + 0.5) as u32`.  The scaling by a power of two is exact. -/
def mant9995 (R : Rounding) (exp : Nat) (c : Rat) : Nat :=
  ((ExtReal.fin (c * (2 : Rat) ^ ((24 : Int) - exp))).addC R (1/2)).castU 32

/-! ### packing: `a | (b << s)` -/

/-- `fields` = (value, width) from the least significant field up, packed with `|` and `<<` -/
def pack : List (Nat × Nat) → Nat
  | [] => 0
  | (v, w) :: rest => v ||| (pack rest <<< w)

def widthSum (l : List (Nat × Nat)) : Nat := (l.map (·.2)).sum

/-! ### refinement loops -/

/-- the loop condition `step > options.step_min && iters < options.max_iter` -/
def loopGuard (stepOk : Nat → Bool) (maxIter iters : Nat) : Bool :=
  stepOk iters && decide (iters < maxIter)

/-- `bcn_util::refine_endpoints`: `while step > step_min && iters < max_iter { …; iters += 1 }`.
The float comparison is an arbitrary predicate of the iteration number (NaN makes it false).
Returns the number of executed iterations. -/
def refineIters (stepOk : Nat → Bool) (maxIter : Nat) : (fuel iters : Nat) → Nat
  | 0, iters => iters
  | fuel + 1, iters =>
    if loopGuard stepOk maxIter iters then refineIters stepOk maxIter fuel (iters + 1)
    else iters

/-- number of `compute_error` calls of one `refine_endpoints`: one up front (if the loop is
entered), then at most `perIter` per iteration (`for_each_endpoint`: 4 for `f32`, 12 for
`Vec3A`/`ColorSpace`) -/
def refineCallsBound (maxIter perIter : Nat) : Nat := 1 + maxIter * perIter

inductive Quality where
  | fast | normal | high | unreasonable
deriving Repr, DecidableEq, Inhabited

def Quality.all : List Quality := [.fast, .normal, .high, .unreasonable]

/-- `get_bc1_options`: `refine` is on from Normal; `refine_along_line` uses
`refine_line_max_iter` (default 3), `refine` uses `refine_max_iter` -/
def bc1RefineOn : Quality → Bool
  | .fast => false
  | _ => true
def bc1LineMaxIter : Quality → Nat := fun _ => 3
def bc1MaxIter : Quality → Nat
  | .fast => 0 | .normal => 0 | .high => 4 | .unreasonable => 10
/-- `get_bc4_options`: `max_refine_iter` -/
def bc4MaxIter : Quality → Nat
  | .fast => 0 | .normal => 2 | .high => 10 | .unreasonable => 10
/-- `BC7_UNORM`: `max_refinement_iters` -/
def bc7MaxIter : Quality → Nat
  | .fast => 0 | .normal => 0 | .high => 1 | .unreasonable => 8

/-- all `max_iter` values that reach `refine_endpoints` for a quality -/
def maxIters (q : Quality) : List Nat :=
  [if bc1RefineOn q then bc1LineMaxIter q else 0, if bc1RefineOn q then bc1MaxIter q else 0,
   bc4MaxIter q, bc7MaxIter q]

/-! ### R9G9B9E5 at the bit level: `rgb9995f::from_f32` (src/color/formats.rs)

An `f32` is its bit pattern (`Nat < 2^32`); `*`, `+`, `as u32`, `min` are the binary32 operations
of `ConvF32.lean` (one correct rounding per operator, ties to even, gradual underflow, saturating
cast with NaN → 0).  `none` stands for a panic of the overflow-checking / debug-assertion
profile: a failing `debug_assert!` or an `i8` overflow.  In the release profile these checks do
not exist and the arithmetic wraps; as long as the model does not answer `none` (which is what
`Theorems/C15.lean` proves for every input) both profiles compute the same word. -/
namespace SharedExp
open Dds.CF32

/-- `f32::max`: a NaN operand is ignored.  When the operands compare equal Rust returns "either"
(this only matters for `-0.0` against `+0.0`, every other tie is between identical patterns);
`tie` picks the operand, the theorems hold for both choices at every call site. -/
def fmax (tie : Bool) (a b : Nat) : Nat :=
  if isNaN a then b else if isNaN b then a else
  if flt a b then b else if flt b a then a else if tie then a else b

/-- `65408.0_f32` = `0x477F8000` = `511 · 2^7` -/
def c65408 : Nat := 0x477F8000

/-- `util::clamp_0_max(value, 65408.0)`: `value.max(0.0).min(max)` (`debug_assert!(max > 0.0)`
holds for the literal) -/
def clamp0Max (tie : Bool) (x : Nat) : Nat := fmin (fmax tie x 0) c65408

/-- `f32::is_subnormal` -/
def isSubnormal (b : Nat) : Bool := expField b == 0 && fracField b != 0

/-- `x as i8` of a `u32` (truncation to 8 bits, two's complement) -/
def asI8 (x : Nat) : Int := if x % 256 < 128 then ((x % 256 : Nat) : Int) else ((x % 256 : Nat) : Int) - 256

/-- `two_powi(-(exp as i8 - 24))`: the `i8` subtraction and negation are overflow-checked, then
`util::two_powi` asserts `-126 <= exponent` and builds the pattern `((exponent + 127) as u32) << 23`
(`exponent ≤ 127` as an `i8`, so the shift stays inside 32 bits) -/
def scaleOf (exp : Nat) : Option Nat :=
  let a : Int := asI8 exp - 24
  if a < -128 ∨ 127 < a then none else
  let n : Int := -a
  if n < -128 ∨ 127 < n then none else
  if n < -126 then none else
  some (twoPowi n)

/-- `(c * f + 0.5) as u32` -/
def mantOf (c f : Nat) : Nat := toNatSat (fadd (fmul c f) half) (2 ^ 32 - 1)

/-- the three `debug_assert!(x_mant <= 511)` -/
def finish (rm gm bm exp : Nat) : Option (Nat × Nat × Nat × Nat) :=
  if rm ≤ 511 ∧ gm ≤ 511 ∧ bm ≤ 511 then some (rm, gm, bm, exp) else none

/-- `rgb9995f::from_f32` up to the packing: `(r_mant, g_mant, b_mant, exp)`; the early
`return 0` is the all-zero tuple.  `tie i` is the zero-sign choice of the `i`-th `max` call. -/
def fields (tie : Nat → Bool) (r g b : Nat) : Option (Nat × Nat × Nat × Nat) :=
  let r := clamp0Max (tie 0) r
  let g := clamp0Max (tie 1) g
  let b := clamp0Max (tie 2) b
  let mx := fmax (tie 4) (fmax (tie 3) r g) b
  -- `max == 0.0 || max.is_subnormal()` (`isZero` is false for NaN, like `==`)
  if isZero mx || isSubnormal mx then some (0, 0, 0, 0) else
  let rawExp := (mx >>> 23) &&& 0xFF
  -- `(raw_exp as i32 - 127 + 16).max(0) as u32`: `raw_exp ≤ 255`, no `i32` overflow
  let exp := (max ((rawExp : Int) - 127 + 16) 0).toNat
  if 31 < exp then none else                      -- debug_assert!(exp <= 31)
  match scaleOf exp with
  | none => none
  | some f =>
    let rm := mantOf r f
    let gm := mantOf g f
    let bm := mantOf b f
    if rm == 512 || gm == 512 || bm == 512 then
      let exp := exp + 1                          -- `u32`, `exp ≤ 31` here
      if 31 < exp then none else                  -- debug_assert!(exp <= 31)
      match scaleOf exp with
      | none => none
      | some f => finish (mantOf r f) (mantOf g f) (mantOf b f) exp
    else finish rm gm bm exp

/-- `x << s` on `u32`: bits shifted past bit 31 are dropped (no panic for `s < 32`) -/
def shl32 (x s : Nat) : Nat := (x <<< s) % 2 ^ 32

/-- `r_mant | (g_mant << 9) | (b_mant << 18) | (exp << 27)` -/
def word (f : Nat × Nat × Nat × Nat) : Nat :=
  f.1 ||| shl32 f.2.1 9 ||| shl32 f.2.2.1 18 ||| shl32 f.2.2.2 27

/-- `rgb9995f::from_f32`: the encoded `u32`, `none` = panic in the checked profile -/
def fromF32 (tie : Nat → Bool) (r g b : Nat) : Option Nat := (fields tie r g b).map word

end SharedExp

/-! ### the binary32 UNORM / SNORM8 quantisers at the bit level

`n1, n2, n4, n5, n6, n10::from_f32` and `s8::from_uf32` of src/color/formats.rs on binary32 bit
patterns with the operations of `ConvF32.lean`, and the packed formats of
src/encode/uncompressed.rs built from them.  (`s16::from_uf32` computes in `f64`: its bit-level
model is `QuantBits.s16` in `EncTotal64.lean`, on the software binary64 of `ConvF64.lean`; `n8`,
`n16`, `xr10`, the YUV rows are in range by their cast / `min` alone: they stay with the abstract
`Rounding` model above.) -/
namespace QuantBits
open Dds.CF32

/-- `a >= b` (false when either is NaN; the zeros are equal) -/
def fge (a b : Nat) : Bool := !isNaN a && !isNaN b && decide (key b ≤ key a)

/-- `n1::from_f32`: `if x >= 0.5 { 1 } else { 0 }` -/
def n1 (x : Nat) : Nat := if fge x half then 1 else 0

/-- `(x.min(1.0) * MAX + 0.5) as uN`: `maxPat` is the pattern of the literal `MAX`, `tyMax` the
largest value of the integer type of the cast -/
def unorm (maxPat tyMax x : Nat) : Nat := toNatSat (fadd (fmul (fmin x one) maxPat) half) tyMax

/-- the literals `3.0, 15.0, 31.0, 63.0, 1023.0, 254.0` -/
def k3 : Nat := 0x40400000
def k15 : Nat := 0x41700000
def k31 : Nat := 0x41F80000
def k63 : Nat := 0x427C0000
def k1023 : Nat := 0x447FC000
def k254 : Nat := 0x437E0000

/-- `n2::from_f32` … `n6::from_f32` (`as u8`), `n10::from_f32` (`as u16`) -/
def n2 (x : Nat) : Nat := unorm k3 255 x
def n4 (x : Nat) : Nat := unorm k15 255 x
def n5 (x : Nat) : Nat := unorm k31 255 x
def n6 (x : Nat) : Nat := unorm k63 255 x
def n10 (x : Nat) : Nat := unorm k1023 65535 x

/-- `s8::from_uf32`: `norm = (x.min(1.0) * 254.0 + 0.5) as u8`, then `from_norm`
(`debug_assert!(x <= 254)`, `(x + 1).wrapping_sub(128)`; `none` = the assertion / the `u8`
overflow of `x + 1`, which is the same condition) -/
def s8 (x : Nat) : Option Nat := snormFromNorm 8 (unorm k254 255 x)

/-- `x << s` in an integer type of `bits` bits -/
def shl (bits x s : Nat) : Nat := (x <<< s) % 2 ^ bits

/-- the encoded pixel (as a little-endian number) of the packed formats, from the bit patterns
of an RGBA `f32` pixel: the `universal!` closures of src/encode/uncompressed.rs -/
def encode (fmt : String) (r g b a : Nat) : Option Nat :=
  match fmt with
  | "B5G6R5_UNORM" => some (n5 b ||| shl 16 (n6 g) 5 ||| shl 16 (n5 r) 11)
  | "B5G5R5A1_UNORM" => some (n5 b ||| shl 16 (n5 g) 5 ||| shl 16 (n5 r) 10 ||| shl 16 (n1 a) 15)
  | "B4G4R4A4_UNORM" => some (n4 b ||| shl 16 (n4 g) 4 ||| shl 16 (n4 r) 8 ||| shl 16 (n4 a) 12)
  | "A4B4G4R4_UNORM" => some (n4 a ||| shl 16 (n4 b) 4 ||| shl 16 (n4 g) 8 ||| shl 16 (n4 r) 12)
  | "R10G10B10A2_UNORM" =>
    some (shl 32 (n2 a) 30 ||| shl 32 (n10 b) 20 ||| shl 32 (n10 g) 10 ||| n10 r)
  | "R8G8B8A8_SNORM" =>
    match s8 r, s8 g, s8 b, s8 a with
    | some r, some g, some b, some a => some (r ||| (g <<< 8) ||| (b <<< 16) ||| (a <<< 24))
    | _, _, _, _ => none
  | _ => none

end QuantBits

end Dds.EncTotal
