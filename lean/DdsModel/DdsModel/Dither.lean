/-
C19 — dataflow model of the dithering encoders.

* src/encode/uncompressed.rs `uncompressed_universal_dither` + `universal_dither!::process_chunk`:
  Floyd–Steinberg error diffusion on `Vec4`s with a per-channel `error_mask`.
  The arithmetic is modelled over `Rat` (the property is about *which* values flow where, not about
  rounding); the quantiser closure `f : Vec4 → (Out, Vec4)` is an arbitrary parameter `q`.
  The source processes a row in chunks of ≤ 512 pixels and carries `next_error_add` and the error
  offset across chunks, which is the same as one loop over the row; the model has the one loop.
* src/encode/bc.rs: BC2 / BC3 blocks as a pair (alpha block, colour block), each produced by its own
  block encoder from its own inputs and the one switch the wiring hands to it.
-/
import DdsModel.FormatTables
namespace Dds.C19

/-- the four lanes of a `glam::Vec4` -/
inductive Ch where
  | x | y | z | w
deriving DecidableEq, Repr

structure V4 where
  x : Rat
  y : Rat
  z : Rat
  w : Rat
deriving DecidableEq, Repr, Inhabited

def V4.get (v : V4) : Ch → Rat
  | .x => v.x | .y => v.y | .z => v.z | .w => v.w

def V4.zero : V4 := ⟨0, 0, 0, 0⟩
def V4.one : V4 := ⟨1, 1, 1, 1⟩
/-- `a + b` on `Vec4` -/
def V4.add (a b : V4) : V4 := ⟨a.x + b.x, a.y + b.y, a.z + b.z, a.w + b.w⟩
/-- `a * b` on `Vec4` (component-wise; `error *= error_mask`) -/
def V4.mul (a b : V4) : V4 := ⟨a.x * b.x, a.y * b.y, a.z * b.z, a.w * b.w⟩
/-- `v * k` for a scalar `k` (`error * (7.0 / 16.0)`) -/
def V4.scale (a : V4) (k : Rat) : V4 := ⟨a.x * k, a.y * k, a.z * k, a.w * k⟩

/-- `error_mask` of `uncompressed_universal_dither` -/
def errorMask (d : Dithering) : V4 :=
  match d.color, d.alpha with
  | false, false => V4.zero
  | true, true => V4.one
  | true, false => ⟨1, 1, 1, 0⟩
  | false, true => ⟨0, 0, 0, 1⟩

/-- the lanes of a channel group -/
def Group.has : Group → Ch → Prop
  | .color, c => c ≠ .w
  | .alpha, c => c = .w

/-- `buf[j] += v` -/
def bump (buf : Nat → V4) (j : Nat) (v : V4) : Nat → V4 :=
  fun k => if k = j then (buf k).add v else buf k

/-- loop state inside one row: `next_error_add` and `next_line_error` -/
structure RowState where
  nextAdd : V4
  next : Nat → V4

/-- body of the pixel loop of `process_chunk` for pixel number `i` of the row.  The error buffers have
two cells of padding in front: the pixel reads `current_line_error[i+2]` and adds to
`next_line_error[i+1 .. i+3]`. -/
def stepPixel {Out : Type} (q : V4 → Out × V4) (mask : V4) (cur : Nat → V4) (i : Nat)
    (st : RowState) (p : V4) : Out × RowState :=
  let errIn := (cur (i + 2)).add st.nextAdd
  let r := q (p.add errIn)
  let e := r.2.mul mask
  (r.1,
   { nextAdd := e.scale (7 / 16)
     next := bump (bump (bump st.next (i + 1) (e.scale (3 / 16))) (i + 2) (e.scale (5 / 16)))
               (i + 3) (e.scale (1 / 16)) })

/-- the pixel loop over one row, starting at pixel number `i` -/
def ditherRowAux {Out : Type} (q : V4 → Out × V4) (mask : V4) (cur : Nat → V4) :
    Nat → RowState → List V4 → List Out × RowState
  | _, st, [] => ([], st)
  | i, st, p :: ps =>
    let r := stepPixel q mask cur i st p
    let rest := ditherRowAux q mask cur (i + 1) r.2 ps
    (r.1 :: rest.1, rest.2)

/-- the row loop: `swap(current, next); next.fill(ZERO); next_error_add = ZERO` then the pixel loop -/
def ditherRows {Out : Type} (q : V4 → Out × V4) (mask : V4) :
    (Nat → V4) → List (List V4) → List (List Out)
  | _, [] => []
  | cur, row :: rows =>
    let r := ditherRowAux q mask cur 0 ⟨V4.zero, fun _ => V4.zero⟩ row
    r.1 :: ditherRows q mask r.2.next rows

/-- `uncompressed_universal_dither` on an image given as rows of RGBA pixels -/
def ditherImage {Out : Type} (q : V4 → Out × V4) (mask : V4) (rows : List (List V4)) :
    List (List Out) :=
  ditherRows q mask (fun _ => V4.zero) rows

/-- what the non-dithering `universal!` encoder with the same quantiser stores -/
def plainImage {Out : Type} (q : V4 → Out × V4) (rows : List (List V4)) : List (List Out) :=
  rows.map (·.map fun p => (q p).1)

/-! ## BC2 / BC3 block wiring -/

/-- One encoded block of a BC format whose encoder has wiring `w`: the alpha block (if stored
separately) is `encA` applied to the alpha inputs with the switch of `w.alphaBlock`; the colour block
is `encC` applied to the pixel inputs with the switch of `w.colorBlock` and — for joint formats —
the alpha switch that rewrites the pixels first. -/
def bcBlock {A P α β : Type} (w : BcWiring) (encA : Bool → A → α) (encC : Bool → Bool → P → β)
    (d : Dithering) (alphaIn : A) (px : P) : Option α × β :=
  (w.alphaBlock.map fun s => encA (s.on d) alphaIn,
   encC (w.colorBlock.on d) (w.alphaJoint && d.alpha) px)

end Dds.C19
