/-
Model of src/header.rs: `RawHeader::{read,write}`, `Header::{read,write,from_raw,to_raw,
fix_based_on_file_len}`, `Dx9PixelFormat::from_raw`, the builder methods of `Header`.

A header image is a list of `u32` words (little endian on disk; the byte <-> word step is
`leWords`/`leBytes` below).  All header fields are `Nat`s; "in range" (`< U32`) is an
explicit hypothesis of the theorems.  Bit flags: a single-bit `contains` is
`bitSet x m := x / m % 2 = 1` (m a power of two, same convention as Layout.lean), `|` is `|||`.

The functions that need `PixelInfo::from_header` (`to_raw` for pitch/linear size,
`fix_based_on_file_len`) take it as a parameter `pi : Header → Option PixelInfo`; the pinned
tables that instantiate it are in HeaderTables.lean.  Every theorem that does not mention the
tables therefore holds for *any* pixel-info detection.
-/
import DdsModel.Layout
import DdsModel.SrcTables
namespace Dds

/-! ### constants (src/header.rs bitflags, FourCC) -/

def MAGIC_WORD : Nat := 0x20534444          -- b"DDS " little endian
def RAW_HEADER_SIZE : Nat := 124
def RAW_PF_SIZE : Nat := 32

def DDSD_CAPS : Nat := 0x1
def DDSD_HEIGHT : Nat := 0x2
def DDSD_WIDTH : Nat := 0x4
def DDSD_PITCH : Nat := 0x8
def DDSD_PIXELFORMAT : Nat := 0x1000
def DDSD_MIPMAPCOUNT : Nat := 0x20000
def DDSD_LINEARSIZE : Nat := 0x80000
def DDSD_DEPTH : Nat := 0x800000
def DDSD_REQUIRED : Nat := 0x1007

def CAPS_COMPLEX : Nat := 0x8
def CAPS_MIPMAP : Nat := 0x400000
def CAPS_TEXTURE : Nat := 0x1000

def CAPS2_ALL_FACES : Nat := 0xFC00

def PF_ALPHAPIXELS : Nat := 0x1
def PF_ALPHA : Nat := 0x2
def PF_FOURCC : Nat := 0x4
def PF_RGB : Nat := 0x40
def PF_LUMINANCE : Nat := 0x20000
def PF_BUMP_DUDV : Nat := 0x80000

def MISC_TEXTURE_CUBE : Nat := 0x4

def FOURCC_NONE : Nat := 0
def FOURCC_DX10 : Nat := 0x30315844   -- "DX10"
def FOURCC_DXT1 : Nat := 0x31545844
def FOURCC_DXT2 : Nat := 0x32545844
def FOURCC_DXT3 : Nat := 0x33545844
def FOURCC_DXT4 : Nat := 0x34545844
def FOURCC_DXT5 : Nat := 0x35545844
def FOURCC_RXGB : Nat := 0x42475852
def FOURCC_ATI1 : Nat := 0x31495441
def FOURCC_BC4U : Nat := 0x55344342
def FOURCC_BC4S : Nat := 0x53344342
def FOURCC_ATI2 : Nat := 0x32495441
def FOURCC_BC5U : Nat := 0x55354342
def FOURCC_BC5S : Nat := 0x53354342
def FOURCC_RGBG : Nat := 0x47424752
def FOURCC_GRGB : Nat := 0x42475247
def FOURCC_YUY2 : Nat := 0x32595559
def FOURCC_UYVY : Nat := 0x59565955

/-- `flags.contains(F)` for a single-bit flag `F = m` (a power of two) -/
def bitSet (x m : Nat) : Bool := x / m % 2 == 1

/-! ### Raw header -/

/-- `RawPixelFormat` -/
structure RawPixelFormat where
  size : Nat
  flags : Nat
  fourCC : Nat
  rgbBitCount : Nat
  rMask : Nat
  gMask : Nat
  bMask : Nat
  aMask : Nat
deriving DecidableEq, Repr, Inhabited

/-- `RawDx10Header` -/
structure RawDx10 where
  dxgiFormat : Nat
  resourceDimension : Nat
  miscFlag : Nat
  arraySize : Nat
  miscFlags2 : Nat
deriving DecidableEq, Repr, Inhabited

/-- `reserved1: [u32; 11]` -/
structure Res11 where
  r0 : Nat
  r1 : Nat
  r2 : Nat
  r3 : Nat
  r4 : Nat
  r5 : Nat
  r6 : Nat
  r7 : Nat
  r8 : Nat
  r9 : Nat
  r10 : Nat
deriving DecidableEq, Repr, Inhabited

def Res11.zero : Res11 := ⟨0, 0, 0, 0, 0, 0, 0, 0, 0, 0, 0⟩

/-- `RawHeader` -/
structure RawHeader where
  size : Nat
  flags : Nat
  height : Nat
  width : Nat
  pitchOrLinearSize : Nat
  depth : Nat
  mipmapCount : Nat
  reserved1 : Res11
  pixelFormat : RawPixelFormat
  caps : Nat
  caps2 : Nat
  caps3 : Nat
  caps4 : Nat
  reserved2 : Nat
  dx10 : Option RawDx10
deriving DecidableEq, Repr, Inhabited

/-- the condition under which `RawHeader::read` reads the 20-byte extension -/
def RawPixelFormat.saysDx10 (pf : RawPixelFormat) : Bool :=
  bitSet pf.flags PF_FOURCC && pf.fourCC == FOURCC_DX10

/-- the `dx10` member is present exactly when the pixel format announces it -/
def RawHeader.Consistent (r : RawHeader) : Prop := r.dx10.isSome = r.pixelFormat.saysDx10

instance (r : RawHeader) : Decidable r.Consistent := by unfold RawHeader.Consistent; exact inferInstance

/-- `RawHeader::read` on a word stream: the result and the unread rest; `none` = the reader
ran dry (`io::ErrorKind::UnexpectedEof` from `read_exact`). -/
def RawHeader.read (ws : List Nat) : Option (RawHeader × List Nat) :=
  match ws with
  | w0 :: w1 :: w2 :: w3 :: w4 :: w5 :: w6 :: w7 :: w8 :: w9 :: w10 :: w11 :: w12 :: w13 :: w14 ::
    w15 :: w16 :: w17 :: w18 :: w19 :: w20 :: w21 :: w22 :: w23 :: w24 :: w25 :: w26 :: w27 ::
    w28 :: w29 :: w30 :: rest =>
    let pf : RawPixelFormat := ⟨w18, w19, w20, w21, w22, w23, w24, w25⟩
    let hdr : RawHeader :=
      { size := w0, flags := w1, height := w2, width := w3, pitchOrLinearSize := w4, depth := w5,
        mipmapCount := w6, reserved1 := ⟨w7, w8, w9, w10, w11, w12, w13, w14, w15, w16, w17⟩,
        pixelFormat := pf, caps := w26, caps2 := w27, caps3 := w28, caps4 := w29,
        reserved2 := w30, dx10 := none }
    if pf.saysDx10 then
      match rest with
      | d0 :: d1 :: d2 :: d3 :: d4 :: rest' =>
        some ({ hdr with dx10 := some ⟨d0, d1, d2, d3, d4⟩ }, rest')
      | _ => none
    else some (hdr, rest)
  | _ => none

/-- `RawHeader::write`: 31 words, or 36 when `dx10` is present -/
def RawHeader.write (r : RawHeader) : List Nat :=
  [r.size, r.flags, r.height, r.width, r.pitchOrLinearSize, r.depth, r.mipmapCount,
   r.reserved1.r0, r.reserved1.r1, r.reserved1.r2, r.reserved1.r3, r.reserved1.r4,
   r.reserved1.r5, r.reserved1.r6, r.reserved1.r7, r.reserved1.r8, r.reserved1.r9,
   r.reserved1.r10,
   r.pixelFormat.size, r.pixelFormat.flags, r.pixelFormat.fourCC, r.pixelFormat.rgbBitCount,
   r.pixelFormat.rMask, r.pixelFormat.gMask, r.pixelFormat.bMask, r.pixelFormat.aMask,
   r.caps, r.caps2, r.caps3, r.caps4, r.reserved2] ++
  (match r.dx10 with
   | some d => [d.dxgiFormat, d.resourceDimension, d.miscFlag, d.arraySize, d.miscFlags2]
   | none => [])

/-- all 31/36 words are `u32` -/
def RawHeader.InRange (r : RawHeader) : Prop := ∀ w ∈ r.write, w < U32

/-! ### little-endian bytes <-> words (`util::read_u32_le_array`, `cast::slice_ne_to_le_32`) -/

def leBytes : List Nat → List Nat
  | [] => []
  | w :: ws => w % 256 :: w / 256 % 256 :: w / 65536 % 256 :: w / 16777216 % 256 :: leBytes ws

/-- whole words only; trailing 1..3 bytes are dropped (`read_exact` of the whole buffer would
already have failed) -/
def leWords : List Nat → List Nat
  | b0 :: b1 :: b2 :: b3 :: bs => (b0 + 256 * b1 + 65536 * b2 + 16777216 * b3) :: leWords bs
  | _ => []

/-! ### Parsed header -/

inductive RgbBitCount where
  | c8 | c16 | c24 | c32
deriving DecidableEq, Repr, Inhabited

def RgbBitCount.toU32 : RgbBitCount → Nat
  | .c8 => 8 | .c16 => 16 | .c24 => 24 | .c32 => 32

/-- `RgbBitCount::try_from(u32)` -/
def RgbBitCount.ofU32 (n : Nat) : Option RgbBitCount :=
  if n = 8 then some .c8 else if n = 16 then some .c16 else if n = 24 then some .c24
  else if n = 32 then some .c32 else none

inductive AlphaMode where
  | unknown | straight | premultiplied | opaque | custom
deriving DecidableEq, Repr, Inhabited

def AlphaMode.toU32 : AlphaMode → Nat
  | .unknown => 0 | .straight => 1 | .premultiplied => 2 | .opaque => 3 | .custom => 4

/-- `AlphaMode::try_from(u32)` -/
def AlphaMode.ofU32 (n : Nat) : Option AlphaMode :=
  if n = 0 then some .unknown else if n = 1 then some .straight
  else if n = 2 then some .premultiplied else if n = 3 then some .opaque
  else if n = 4 then some .custom else none

def ResDim.toU32 : ResDim → Nat
  | .tex1D => 2 | .tex2D => 3 | .tex3D => 4

/-- `ResourceDimension::try_from(u32)` -/
def ResDim.ofU32 (n : Nat) : Option ResDim :=
  if n = 2 then some .tex1D else if n = 3 then some .tex2D else if n = 4 then some .tex3D
  else none

/-- `DxgiFormat::try_from(u32)`: the accepted codes. The runs of accepted codes are TRANSLATED from the match arms of
the source on every run (`SrcTables.dxgiValidRanges`, tools/extract_tables.py), not pinned. -/
def inR (v lo hi : Nat) : Bool := lo ≤ v && v ≤ hi
def dxgiValid (v : Nat) : Bool := SrcTables.dxgiValidRanges.any fun r => inR v r.1 r.2

structure MaskPixelFormat where
  flags : Nat
  rgbBitCount : RgbBitCount
  rMask : Nat
  gMask : Nat
  bMask : Nat
  aMask : Nat
deriving DecidableEq, Repr, Inhabited

inductive Dx9PixelFormat where
  | fourCC (c : Nat)
  | mask (m : MaskPixelFormat)
deriving DecidableEq, Repr, Inhabited

structure Dx9Header where
  height : Nat
  width : Nat
  depth : Option Nat
  /-- `NonZeroU32` -/
  mipmapCount : Nat
  caps2 : Nat
  pixelFormat : Dx9PixelFormat
deriving DecidableEq, Repr, Inhabited

structure Dx10Header where
  height : Nat
  width : Nat
  depth : Option Nat
  /-- `NonZeroU32` -/
  mipmapCount : Nat
  /-- `DxgiFormat(u8)`; only codes with `dxgiValid` can be constructed -/
  dxgiFormat : Nat
  resourceDimension : ResDim
  miscFlag : Nat
  arraySize : Nat
  alphaMode : AlphaMode
deriving DecidableEq, Repr, Inhabited

inductive Header where
  | dx9 (h : Dx9Header)
  | dx10 (h : Dx10Header)
deriving DecidableEq, Repr, Inhabited

def Header.width : Header → Nat
  | .dx9 h => h.width | .dx10 h => h.width
def Header.height : Header → Nat
  | .dx9 h => h.height | .dx10 h => h.height
def Header.depth : Header → Option Nat
  | .dx9 h => h.depth | .dx10 h => h.depth
def Header.mipmapCount : Header → Nat
  | .dx9 h => h.mipmapCount | .dx10 h => h.mipmapCount
/-- `Header::array_size` -/
def Header.arraySize : Header → Nat
  | .dx9 _ => 1 | .dx10 h => h.arraySize
/-- `Header::byte_len` -/
def Header.byteLen : Header → Nat
  | .dx9 _ => 124 | .dx10 _ => 144

/-- the part of the header `DataLayout::from_header_with` looks at -/
def Header.toLayoutHeader : Header → LayoutHeader
  | .dx9 h => { width := h.width, height := h.height, depth := h.depth,
                mipmapCount := h.mipmapCount, kind := .dx9 h.caps2 }
  | .dx10 h => { width := h.width, height := h.height, depth := h.depth,
                 mipmapCount := h.mipmapCount,
                 kind := .dx10 (bitSet h.miscFlag MISC_TEXTURE_CUBE) h.resourceDimension h.arraySize }

/-- The invariant of headers that survive serialisation. -/
def Dx9PixelFormat.WF : Dx9PixelFormat → Prop
  | .fourCC c => c < U32 ∧ c ≠ FOURCC_DX10
  | .mask m => m.flags < U32 ∧ bitSet m.flags PF_FOURCC = false ∧ m.rMask < U32 ∧ m.gMask < U32 ∧
      m.bMask < U32 ∧ m.aMask < U32

def optLt (d : Option Nat) (b : Nat) : Prop :=
  match d with
  | none => True
  | some x => x < b

instance (d : Option Nat) (b : Nat) : Decidable (optLt d b) := by
  cases d <;> unfold optLt <;> exact inferInstance

def Header.WF : Header → Prop
  | .dx9 h => h.width < U32 ∧ h.height < U32 ∧ optLt h.depth U32 ∧ 1 ≤ h.mipmapCount ∧
      h.mipmapCount < U32 ∧ h.caps2 < U32 ∧ h.pixelFormat.WF
  | .dx10 h => h.width < U32 ∧ h.height < U32 ∧ optLt h.depth U32 ∧ 1 ≤ h.mipmapCount ∧
      h.mipmapCount < U32 ∧ dxgiValid h.dxgiFormat = true ∧ h.miscFlag < U32 ∧ h.arraySize < U32 ∧
      (h.resourceDimension = .tex3D → h.arraySize = 1)

instance (p : Dx9PixelFormat) : Decidable p.WF := by
  cases p <;> unfold Dx9PixelFormat.WF <;> exact inferInstance
instance (h : Header) : Decidable h.WF := by
  cases h <;> unfold Header.WF <;> exact inferInstance

/-! ### Parsing -/

inductive HeaderErr where
  | invalidMagicBytes (w : Nat)
  | invalidHeaderSize (n : Nat)
  | invalidPixelFormatSize (n : Nat)
  | invalidRgbBitCount (n : Nat)
  | invalidDxgiFormat (n : Nat)
  | invalidResourceDimension (n : Nat)
  | invalidAlphaMode (n : Nat)
  | invalidArraySizeForTexture3D (n : Nat)
  | io
deriving DecidableEq, Repr, Inhabited

structure ParseOptions where
  skipMagicBytes : Bool := false
  permissive : Bool := false
  fileLen : Option Nat := none
deriving DecidableEq, Repr, Inhabited

def ParseOptions.strict : ParseOptions := {}
/-- `ParseOptions::new_permissive` -/
def ParseOptions.newPermissive (fileLen : Option Nat) : ParseOptions :=
  { permissive := true, fileLen }

/-- `Dx9PixelFormat::from_raw` -/
def Dx9PixelFormat.fromRaw (perm : Bool) (pf : RawPixelFormat) : Except HeaderErr Dx9PixelFormat :=
  if pf.size ≠ RAW_PF_SIZE ∧ ¬ (perm = true ∧ (pf.size = 0 ∨ pf.size = 24)) then
    .error (.invalidPixelFormatSize pf.size)
  else
    let flags :=
      if perm = true ∧ pf.rgbBitCount = 0 ∧ pf.fourCC ≠ FOURCC_NONE ∧ pf.fourCC ≠ FOURCC_DX10 ∧
          bitSet pf.flags PF_FOURCC = false
      then pf.flags ||| PF_FOURCC else pf.flags
    if bitSet flags PF_FOURCC then .ok (.fourCC pf.fourCC)
    else
      match RgbBitCount.ofU32 pf.rgbBitCount with
      | none => .error (.invalidRgbBitCount pf.rgbBitCount)
      | some bc => .ok (.mask { flags, rgbBitCount := bc, rMask := pf.rMask, gMask := pf.gMask,
                                 bMask := pf.bMask, aMask := pf.aMask })

/-- alpha mode of `Header::from_raw`: invalid values fall back to `Unknown` only when permissive -/
def parseAlphaMode (perm : Bool) (raw : Nat) : Option AlphaMode :=
  match AlphaMode.ofU32 raw with
  | some a => some a
  | none => if perm then some AlphaMode.unknown else none

/-- the DX10 part of `Header::from_raw` -/
def Dx10Header.fromRaw (perm : Bool) (height width : Nat) (depth : Option Nat) (mipmapCount : Nat)
    (d : RawDx10) : Except HeaderErr Dx10Header :=
  if dxgiValid d.dxgiFormat = false then .error (.invalidDxgiFormat d.dxgiFormat) else
  match ResDim.ofU32 d.resourceDimension with
  | none => .error (.invalidResourceDimension d.resourceDimension)
  | some dim =>
    let rawAlpha := d.miscFlags2 % 8
    match parseAlphaMode perm rawAlpha with
    | none => .error (.invalidAlphaMode rawAlpha)
    | some alpha =>
      if dim = .tex3D ∧ d.arraySize ≠ 1 ∧ perm = false then
        .error (.invalidArraySizeForTexture3D d.arraySize)
      else
        let arraySize := if dim = .tex3D ∧ d.arraySize ≠ 1 then 1 else d.arraySize
        .ok { height, width, depth, mipmapCount, dxgiFormat := d.dxgiFormat,
              resourceDimension := dim, miscFlag := d.miscFlag, arraySize, alphaMode := alpha }

/-- `depth` of `Header::from_raw` -/
def RawHeader.parsedDepth (raw : RawHeader) : Option Nat :=
  if bitSet raw.flags DDSD_DEPTH then some raw.depth else none

/-- `mipmap_count` of `Header::from_raw` -/
def RawHeader.parsedMips (raw : RawHeader) : Nat :=
  let mip0 := if bitSet raw.flags DDSD_MIPMAPCOUNT || bitSet raw.caps CAPS_COMPLEX ||
      bitSet raw.caps CAPS_MIPMAP then raw.mipmapCount else 1
  if mip0 = 0 then 1 else mip0

/-- `Header::from_raw` up to (not including) `fix_based_on_file_len` -/
def Header.fromRawNoFix (perm : Bool) (raw : RawHeader) : Except HeaderErr Header :=
  if raw.size ≠ RAW_HEADER_SIZE ∧ ¬ (perm = true ∧ raw.size = 24) then
    .error (.invalidHeaderSize raw.size)
  else
    match Dx9PixelFormat.fromRaw perm raw.pixelFormat with
    | .error e => .error e
    | .ok pixelFormat =>
      match raw.dx10 with
      | some d =>
        match Dx10Header.fromRaw perm raw.height raw.width raw.parsedDepth raw.parsedMips d with
        | .error e => .error e
        | .ok x => .ok (.dx10 x)
      | none =>
        .ok (.dx9 { height := raw.height, width := raw.width, depth := raw.parsedDepth,
                    mipmapCount := raw.parsedMips, caps2 := raw.caps2, pixelFormat })

/-! ### `fix_based_on_file_len` -/

/-- bit length with fuel -/
def bitLen : Nat → Nat → Nat
  | 0, _ => 0
  | f + 1, n => if n = 0 then 0 else bitLen f (n / 2) + 1

/-- `util::get_maximum_mipmap_count`: `32 - leading_zeros`, at least 1 -/
def maxMipCount (size : Nat) : Nat := max 1 (bitLen 32 size)

/-- the private setter used through `Header::with_mipmap_count` (argument already non-zero) -/
def Header.setMipmapCount (h : Header) (m : Nat) : Header :=
  match h with
  | .dx9 x => .dx9 { x with mipmapCount := m }
  | .dx10 x => .dx10 { x with mipmapCount := m }

def Header.maxDim (h : Header) : Nat := max (max h.width h.height) (h.depth.getD 1)

/-- The layout length of a header for a given pixel info: `DataLayout::from_header_with(..)
.map(|l| l.data_len())`, `none` for a layout error.  (A panic inside would also give `none`;
`Proofs/HeaderLayout.lean: Header.layoutLen_no_panic` (= `C18.repair_no_panic`) shows there is
none for well-formed headers and pixel infos.) -/
def Header.layoutLen (px : PixelInfo) (h : Header) : Option Nat :=
  match layoutOf h.toLayoutHeader px with
  | some (.ok L) => L.dataLenP
  | _ => none

/-- the `test` closure of `fix_based_on_file_len` -/
def Header.testLen (px : PixelInfo) (expected : Nat) (h : Header) : Bool :=
  h.layoutLen px == some expected

/-- array_size 0 -> 1 (kept even when the test fails afterwards) -/
def Header.arrayZero? (expected : Nat) : Header → Option Header
  | .dx10 x => if expected > 0 ∧ x.arraySize = 0 then some (.dx10 { x with arraySize := 1 }) else none
  | .dx9 _ => none

/-- array_size 6 -> 1 candidate for a single 2D cube map -/
def Header.cubeSix? : Header → Option Header
  | .dx10 x =>
    if x.arraySize = 6 ∧ x.resourceDimension = .tex2D ∧ bitSet x.miscFlag MISC_TEXTURE_CUBE = true
    then some (.dx10 { x with arraySize := 1 }) else none
  | .dx9 _ => none

/-- `[1, max_levels, mipmap - 1, mipmap.saturating_add(1)]` filtered for zero -/
def Header.mipGuesses (h : Header) : List Nat :=
  [1, maxMipCount h.maxDim, h.mipmapCount - 1, satAdd32 h.mipmapCount 1].filter (· ≠ 0)

/-- the body of `fix_based_on_file_len` after the preparation; result: the header afterwards
and whether `Some(())` was returned -/
def Header.fixCore (test : Header → Bool) (expected : Nat) (h : Header) : Header × Bool :=
  if test h then (h, true) else
  let z := h.arrayZero? expected
  let h1 := z.getD h
  if z.isSome && test h1 then (h1, true) else
  match (match h1.cubeSix? with
         | some c => if test c then some c else none
         | none => none) with
  | some c => (c, true)
  | none =>
    match h1.mipGuesses.find? (fun g => test (h1.setMipmapCount g)) with
    | some g => (h1.setMipmapCount g, true)
    | none => (h1, false)

/-- `Header::fix_based_on_file_len` -/
def Header.fixBasedOnFileLen (pi : Header → Option PixelInfo) (fileLen : Option Nat) (h : Header) :
    Header × Bool :=
  match fileLen with
  | none => (h, false)
  | some fl =>
    match ckSub fl (4 + h.byteLen) with
    | none => (h, false)
    | some expected =>
      match pi h with
      | none => (h, false)
      | some px => h.fixCore (Header.testLen px expected) expected

/-- `Header::from_raw` -/
def Header.fromRaw (pi : Header → Option PixelInfo) (opts : ParseOptions) (raw : RawHeader) :
    Except HeaderErr Header :=
  match Header.fromRawNoFix opts.permissive raw with
  | .error e => .error e
  | .ok h => if opts.permissive then .ok (h.fixBasedOnFileLen pi opts.fileLen).1 else .ok h

/-- `Header::read` on a word stream; the unread rest (the data section) is returned too -/
def Header.read (pi : Header → Option PixelInfo) (opts : ParseOptions) (ws : List Nat) :
    Except HeaderErr (Header × List Nat) :=
  let afterMagic : Except HeaderErr (List Nat) :=
    if opts.skipMagicBytes then .ok ws else
    match ws with
    | [] => .error .io
    | m :: rest => if m = MAGIC_WORD then .ok rest else .error (.invalidMagicBytes m)
  match afterMagic with
  | .error e => .error e
  | .ok ws' =>
    match RawHeader.read ws' with
    | none => .error .io
    | some (raw, rest) =>
      match Header.fromRaw pi opts raw with
      | .error e => .error e
      | .ok h => .ok (h, rest)

/-! ### Writing -/

/-- pitch / linear size and the flag that goes with it (`Header::to_raw`) -/
def pitchOrLinear (px : Option PixelInfo) (w h : Nat) : Nat × Nat :=
  match px with
  | none => (0, 0)
  | some (.fixed bpp) =>
    match ckMul32 w bpp with
    | some p => (p, DDSD_PITCH)
    | none => (0, 0)
  | some p =>
    match p.surfaceBytes w h with
    | some s => if s < U32 then (s, DDSD_LINEARSIZE) else (0, 0)
    | none => (0, 0)

def RawPixelFormat.newFourCC (c : Nat) : RawPixelFormat :=
  { size := RAW_PF_SIZE, flags := PF_FOURCC, fourCC := c, rgbBitCount := 0, rMask := 0,
    gMask := 0, bMask := 0, aMask := 0 }

def RawPixelFormat.newMask (m : MaskPixelFormat) : RawPixelFormat :=
  { size := RAW_PF_SIZE, flags := m.flags, fourCC := FOURCC_NONE,
    rgbBitCount := m.rgbBitCount.toU32, rMask := m.rMask, gMask := m.gMask, bMask := m.bMask,
    aMask := m.aMask }

/-- `Header::to_raw` -/
def Header.toRaw (pi : Header → Option PixelInfo) (h : Header) : RawHeader :=
  let caps := if h.mipmapCount > 1 then CAPS_TEXTURE ||| (CAPS_MIPMAP ||| CAPS_COMPLEX) else CAPS_TEXTURE
  let flags0 := DDSD_REQUIRED ||| DDSD_MIPMAPCOUNT
  let flags1 := if h.depth.isSome then flags0 ||| DDSD_DEPTH else flags0
  let pl := pitchOrLinear (pi h) h.width h.height
  let flags := flags1 ||| pl.2
  let (caps2, pf, ext) : Nat × RawPixelFormat × Option RawDx10 :=
    match h with
    | .dx9 x =>
      (x.caps2,
       (match x.pixelFormat with
        | .fourCC c => RawPixelFormat.newFourCC c
        | .mask m => RawPixelFormat.newMask m),
       none)
    | .dx10 x =>
      let c0 := if x.resourceDimension = .tex3D then CAPS2_VOLUME else 0
      let c1 := if bitSet x.miscFlag MISC_TEXTURE_CUBE then c0 ||| (CAPS2_CUBE_MAP ||| CAPS2_ALL_FACES) else c0
      (c1, RawPixelFormat.newFourCC FOURCC_DX10,
       some { dxgiFormat := x.dxgiFormat, resourceDimension := x.resourceDimension.toU32,
              miscFlag := x.miscFlag, arraySize := x.arraySize, miscFlags2 := x.alphaMode.toU32 })
  { size := RAW_HEADER_SIZE, flags, height := h.height, width := h.width,
    pitchOrLinearSize := pl.1, depth := h.depth.getD 1, mipmapCount := h.mipmapCount,
    reserved1 := Res11.zero, pixelFormat := pf, caps, caps2, caps3 := 0, caps4 := 0,
    reserved2 := 0, dx10 := ext }

/-- `Header::write`: magic + raw header -/
def Header.write (pi : Header → Option PixelInfo) (h : Header) : List Nat :=
  MAGIC_WORD :: (h.toRaw pi).write

/-! ### Builder methods of `Header` -/

/-- `Header::with_size` -/
def Header.withSize (h : Header) (w ht : Nat) : Header :=
  match h with
  | .dx9 x => .dx9 { x with width := w, height := ht, depth := none }
  | .dx10 x => .dx10 { x with width := w, height := ht, depth := none }

/-- `Header::with_dimensions` -/
def Header.withDimensions (h : Header) (w ht : Nat) (d : Option Nat) : Header :=
  match h with
  | .dx9 x => .dx9 { x with width := w, height := ht, depth := d }
  | .dx10 x => .dx10 { x with width := w, height := ht, depth := d }

/-- `Header::with_mipmap_count`; `none` = the documented panic for 0 -/
def Header.withMipmapCount (h : Header) (m : Nat) : Option Header :=
  if m = 0 then none else some (h.setMipmapCount m)

/-- `Header::with_mipmaps` -/
def Header.withMipmaps (h : Header) : Option Header :=
  h.withMipmapCount (maxMipCount h.maxDim)

inductive BuilderOp where
  | withSize (w h : Nat)
  | withDimensions (w h : Nat) (d : Option Nat)
  | withMipmapCount (m : Nat)
  | withMipmaps
deriving DecidableEq, Repr, Inhabited

/-- arguments are `u32` -/
def BuilderOp.InRange : BuilderOp → Prop
  | .withSize w h => w < U32 ∧ h < U32
  | .withDimensions w h d => w < U32 ∧ h < U32 ∧ optLt d U32
  | .withMipmapCount m => m < U32
  | .withMipmaps => True

def Header.applyOp (h : Header) : BuilderOp → Option Header
  | .withSize w ht => some (h.withSize w ht)
  | .withDimensions w ht d => some (h.withDimensions w ht d)
  | .withMipmapCount m => h.withMipmapCount m
  | .withMipmaps => h.withMipmaps

/-- a builder chain; `none` = a panic along the way -/
def Header.applyOps (h : Header) : List BuilderOp → Option Header
  | [] => some h
  | op :: ops =>
    match h.applyOp op with
    | none => none
    | some h' => h'.applyOps ops


/-! ### Known writer defects (specification side of C18)

A defect is a modification of the raw header a correct writer would have produced.  They are the
ones `Header::from_raw` / `fix_based_on_file_len` name in their comments. -/

inductive Defect where
  /-- DX10 `array_size := a` (0 for one element; 6 for one cube; anything for a 3D texture) -/
  | arraySize (a : Nat)
  /-- `mipmap_count := m` (off by one, 0, 1 or a full chain although the file has a different number) -/
  | mipCount (m : Nat)
  /-- the MIPMAP_COUNT flag and the COMPLEX / MIPMAP caps are missing, so the count is ignored -/
  | dropMipFlags
  /-- header size 24 (Stalker 2) -/
  | headerSize24
  /-- pixel-format size 0 or 24 (Flat Out 2) -/
  | pfSize (n : Nat)
  /-- pixel format flags without `FOURCC` on a four-CC file (Unreal Tournament 2004) -/
  | pfFlags (f : Nat)
  /-- `misc_flags2 := v` with an alpha mode outside 0..4 -/
  | miscFlags2 (v : Nat)
deriving DecidableEq, Repr, Inhabited

/-- clear a single-bit flag -/
def clearBit (x m : Nat) : Nat := if bitSet x m then x - m else x

def Defect.apply (d : Defect) (r : RawHeader) : RawHeader :=
  match d with
  | .arraySize a => { r with dx10 := r.dx10.map fun e => { e with arraySize := a } }
  | .mipCount m => { r with mipmapCount := m }
  | .dropMipFlags => { r with flags := clearBit r.flags DDSD_MIPMAPCOUNT,
                              caps := clearBit (clearBit r.caps CAPS_COMPLEX) CAPS_MIPMAP }
  | .headerSize24 => { r with size := 24 }
  | .pfSize n => { r with pixelFormat := { r.pixelFormat with size := n } }
  | .pfFlags f => { r with pixelFormat := { r.pixelFormat with flags := f } }
  | .miscFlags2 v => { r with dx10 := r.dx10.map fun e => { e with miscFlags2 := v } }

def Defect.applyAll (ds : List Defect) (r : RawHeader) : RawHeader := ds.foldl (fun r d => d.apply r) r

/-- the mip count `from_raw` reads from a raw count -/
def parsedMips (m : Nat) : Nat := if m = 0 then 1 else m

/-- a four-CC pixel format whose code is not `FourCC::NONE` -/
def Dx9PixelFormat.isNamedFourCC : Dx9PixelFormat → Bool
  | .fourCC c => c != FOURCC_NONE
  | .mask _ => false

/-- When a defect counts as "the known defect" for the true header `h`. -/
def Defect.Applies (d : Defect) (h : Header) : Prop :=
  match d, h with
  | .arraySize a, .dx10 x =>
    a < U32 ∧ x.arraySize = 1 ∧
      (a = 0 ∨ (a = 6 ∧ x.resourceDimension = .tex2D ∧ bitSet x.miscFlag MISC_TEXTURE_CUBE = true) ∨
        x.resourceDimension = .tex3D)
  | .arraySize _, .dx9 _ => False
  | .mipCount m, h => m < U32 ∧ h.mipmapCount ∈ (h.setMipmapCount (parsedMips m)).mipGuesses
  | .dropMipFlags, h => h.mipmapCount ∈ (h.setMipmapCount 1).mipGuesses
  | .headerSize24, _ => True
  | .pfSize n, _ => n = 0 ∨ n = 24
  | .pfFlags f, .dx9 x =>
    f < U32 ∧ bitSet f PF_FOURCC = false ∧ x.pixelFormat.isNamedFourCC = true
  | .pfFlags _, .dx10 _ => False
  | .miscFlags2 v, .dx10 _ => v < U32 ∧ 5 ≤ v % 8
  | .miscFlags2 _, .dx9 _ => False

instance (d : Defect) (h : Header) : Decidable (d.Applies h) := by
  cases d <;> cases h <;> simp only [Defect.Applies] <;> exact inferInstance

end Dds
