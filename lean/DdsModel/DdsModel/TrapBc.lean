/-
Trapping mirror of the BC1–BC5 block decoders: `src/decode/bc.rs` module `blocks` and the functions
of `src/color/formats.rs` they call (`n4::n8`, `n5::n8`, `n6::n8`, `n8::n16`, `s8::{norm,n8,n16}`,
`B5G6R5::{from_u16,to_n8,one_third_color_rgb8,mid_color_rgb8}`), written with the trapping operators
of `Trap.lean`: every plain `+ - *` on `u8`/`u16`/`u32`, every shift, every run-time index, every
division and every `debug_assert!` is a possible `none` (= panic in the `checked` build profile).
Everything is evaluated as eagerly as in the Rust code (all eight palette entries of a BC4 block are
computed before the first index is read), so a trap in an unused palette entry is still a trap here.

Not traps (and therefore plain functions): reads `block_bytes[k]` with a literal `k` from a
fixed-size array (checked by the compiler), `u16::from_le_bytes`, `as` casts, `wrapping_add`,
`saturating_sub`, `min`, and all `f32` arithmetic (`n8::f32`, `s8::uf32`, `calc_b`, the BC4 float
interpolation): IEEE operations and float → integer casts never panic.

`Theorems/C01.lean` (`bc1to5_bodies_trapfree`): `blockT f pr blk = some (Bc.decodeBlock f pr blk)`
for every block, format and precision.
-/
import DdsModel.Trap
import DdsModel.Bc
namespace Dds.TrapBc
open Dds.Trap Dds.Bc

/-! ### `formats.rs` -/

/-- `n4::n8` (formats.rs:185): `debug_assert!(x <= 15); x * 17` in `u8` -/
def n4n8T (x : Nat) : Option Nat := do
  dbgP (x ≤ 15)
  ck 256 (x * 17)
/-- `n5::n8` (formats.rs:212): `debug_assert!(x <= 31); ((x as u16 * 2108 + 92) >> 8) as u8` -/
def n5n8T (x : Nat) : Option Nat := do
  dbgP (x ≤ 31)
  let m ← ck 65536 (x * 2108)
  let s ← ck 65536 (m + 92)
  let r ← shr 16 s 8
  pure (r % 256)
/-- `n6::n8` (formats.rs:239): `debug_assert!(x <= 63); ((x as u16 * 1036 + 132) >> 8) as u8` -/
def n6n8T (x : Nat) : Option Nat := do
  dbgP (x ≤ 63)
  let m ← ck 65536 (x * 1036)
  let s ← ck 65536 (m + 132)
  let r ← shr 16 s 8
  pure (r % 256)
/-- `n8::n16` (formats.rs:266): `x as u16 * 257` -/
def n8n16T (x : Nat) : Option Nat := ck 65536 (x * 257)
/-- `s8::n8` (formats.rs:343): `x = norm(x); ((x as u16 * 258 + 2) >> 8) as u8` -/
def s8n8T (x : Nat) : Option Nat := do
  let m ← ck 65536 (s8norm x * 258)
  let s ← ck 65536 (m + 2)
  let r ← shr 16 s 8
  pure (r % 256)
/-- `s8::n16` (formats.rs:348): `((x as u32 * 16909064 + 32520) >> 16) as u16` -/
def s8n16T (x : Nat) : Option Nat := do
  let m ← ck 4294967296 (s8norm x * 16909064)
  let s ← ck 4294967296 (m + 32520)
  let r ← shr 32 s 16
  pure (r % 65536)

/-- `NormConvert::to` from `u8` (`with_precision`, bc.rs:72): identity, `n8::n16`, `n8::f32` (float) -/
def widenT (pr : Prec) (v : Nat) : Option Nat :=
  match pr with
  | .u8 => some v
  | .u16 => n8n16T v
  | .f32 => some (n8f32 v)

/-- `B5G6R5::to_n8` (formats.rs:24) -/
def toN8T (c : B565) : Option Rgb := do
  let r ← n5n8T (c.r5 % 256)
  let g ← n6n8T (c.g6 % 256)
  let b ← n5n8T (c.b5 % 256)
  pure (r, g, b)

/-- 5-bit channel of `one_third_color_rgb8` (formats.rs:50,54): `r = self.r5 * 2 + color.r5` in `u16`, then
`((r * 351 + 61) >> 7) as u8` in `u16` -/
def third5T (s c : Nat) : Option Nat := do
  let d ← ck 65536 (s * 2)
  let r ← ck 65536 (d + c)
  let m ← ck 65536 (r * 351)
  let a ← ck 65536 (m + 61)
  let q ← shr 16 a 7
  pure (q % 256)
/-- 6-bit channel (formats.rs:51,55): `g = self.g6 * 2 + color.g6` in `u16`, `((g as u32 * 2763 + 1039) >> 11) as u8` -/
def third6T (s c : Nat) : Option Nat := do
  let d ← ck 65536 (s * 2)
  let g ← ck 65536 (d + c)
  let m ← ck 4294967296 (g * 2763)
  let a ← ck 4294967296 (m + 1039)
  let q ← shr 32 a 11
  pure (q % 256)
/-- 5-bit channel of `mid_color_rgb8` (formats.rs:61,65): `r = self.r5 + color.r5`, `((r * 1053 + 125) >> 8) as u8` -/
def mid5T (s c : Nat) : Option Nat := do
  let r ← ck 65536 (s + c)
  let m ← ck 65536 (r * 1053)
  let a ← ck 65536 (m + 125)
  let q ← shr 16 a 8
  pure (q % 256)
/-- 6-bit channel (formats.rs:62,66): `((g as u32 * 4145 + 1019) >> 11) as u8` -/
def mid6T (s c : Nat) : Option Nat := do
  let g ← ck 65536 (s + c)
  let m ← ck 4294967296 (g * 4145)
  let a ← ck 4294967296 (m + 1019)
  let q ← shr 32 a 11
  pure (q % 256)

/-- `one_third_color_rgb8` (formats.rs:49); the three sums first, as in the source -/
def oneThirdT (s c : B565) : Option Rgb := do
  let r ← third5T s.r5 c.r5
  let g ← third6T s.g6 c.g6
  let b ← third5T s.b5 c.b5
  pure (r, g, b)
/-- `mid_color_rgb8` (formats.rs:60) -/
def midT (s c : B565) : Option Rgb := do
  let r ← mid5T s.r5 c.r5
  let g ← mid6T s.g6 c.g6
  let b ← mid5T s.b5 c.b5
  pure (r, g, b)

/-! ### BC1 -/

/-- the loop `for (i, pixel) in pixels.iter_mut().enumerate()` of `bc1_u8_rgba` / `bc1_no_default_u8_rgba`
(bc.rs:226, 256): `index = (indexes >> (i * 2)) & 0b11` (`u32 >> usize`), `lut[index as usize]` -/
def lutLoopT (lut : List Rgba) (indexes : Nat) : Option (List Rgba) :=
  mapT (fun i => do
    let sh ← shr 32 indexes (i * 2)
    idx lut (sh &&& 3)) (List.range 16)

/-- `bc1_u8_rgba` (bc.rs:194) -/
def bc1T (blk : Nat → Nat) : Option (List Rgba) := do
  let color0 := le16 blk 0
  let color1 := le16 blk 2
  let c0b := B565.fromU16 color0
  let c1b := B565.fromU16 color1
  let c0 ← toN8T c0b
  let c1 ← toN8T c1b
  let c23 ← if color0 > color1 then do
      let c2 ← oneThirdT c0b c1b
      let c3 ← oneThirdT c1b c0b
      pure (toRgba c2, toRgba c3)
    else do
      let c2 ← midT c0b c1b
      pure (toRgba c2, ((0, 0, 0, 0) : Rgba))
  lutLoopT [toRgba c0, toRgba c1, c23.1, c23.2] (le32 blk 4)

/-- `bc1_no_default_u8_rgba` (bc.rs:234) -/
def bc1NoDefaultT (blk : Nat → Nat) : Option (List Rgba) := do
  let color0 := le16 blk 0
  let color1 := le16 blk 2
  let c0b := B565.fromU16 color0
  let c1b := B565.fromU16 color1
  let c0 ← toN8T c0b
  let c1 ← toN8T c1b
  let c2 ← oneThirdT c0b c1b
  let c3 ← oneThirdT c1b c0b
  lutLoopT [toRgba c0, toRgba c1, toRgba c2, toRgba c3] (le32 blk 4)

/-! ### BC4 -/

/-- `BC4uOperations` / `BC4sOperations` with their `debug_assert!`s -/
structure Bc4OpsT where
  fromByte : Nat → Option Nat
  interp6 : Nat → Option Nat
  interp4 : Nat → Option Nat

/-- `((interpolation as u32 * k + b) >> 16) as uN` after `debug_assert!(interpolation <= max)` -/
def mulAddShrT (max k b out : Nat) (i : Nat) : Option Nat := do
  dbgP (i ≤ max)
  let m ← ck 4294967296 (i * k)
  let a ← ck 4294967296 (m + b)
  let q ← shr 32 a 16
  pure (q % out)
/-- `((interpolation as u32 * k + d / 2) / d) as uN` after the `debug_assert!`; `d = 7 * 254` or
`5 * 254` is a non-zero literal (bc.rs:470) -/
def mulAddDivT (max k d out : Nat) (i : Nat) : Option Nat := do
  dbgP (i ≤ max)
  let m ← ck 4294967296 (i * k)
  let a ← ck 4294967296 (m + d / 2)
  let q ← div a d
  pure (q % out)
/-- `debug_assert!(interpolation <= max); interpolation as f32 / d` -/
def divF32T (max d : Nat) (i : Nat) : Option Nat := do
  dbgP (i ≤ max)
  pure (F32.div (F32.ofNat i) (F32.ofNat d))

/-- `impl BC4uOperations for u8 / u16 / f32` (bc.rs:366–408) -/
def bc4uOpsT : Prec → Bc4OpsT
  | .u8 => ⟨fun b => some b, mulAddShrT 1785 9360 32160 256, mulAddShrT 1275 13104 30288 256⟩
  | .u16 => ⟨n8n16T, mulAddShrT 1785 2406112 28064 65536, mulAddShrT 1275 3368544 34368 65536⟩
  | .f32 => ⟨fun b => some (n8f32 b), divF32T 1785 1785, divF32T 1275 1275⟩
/-- `impl BC4sOperations for u8 / u16 / f32` (bc.rs:464–506) -/
def bc4sOpsT : Prec → Bc4OpsT
  | .u8 => ⟨s8n8T, mulAddDivT 1778 255 1778 256, mulAddDivT 1270 255 1270 256⟩
  | .u16 => ⟨s8n16T, mulAddDivT 1778 65535 1778 65536, mulAddDivT 1270 65535 1270 65536⟩
  | .f32 => ⟨fun b => some (s8uf32 b), divF32T 1778 1778, divF32T 1270 1270⟩

/-- `a * ka + b` in `u16` -/
def sum1T (a ka b : Nat) : Option Nat := do
  let x ← ck 65536 (a * ka)
  ck 65536 (x + b)
/-- `a * ka + b * kb` in `u16` -/
def sum2T (a ka b kb : Nat) : Option Nat := do
  let x ← ck 65536 (a * ka)
  let y ← ck 65536 (b * kb)
  ck 65536 (x + y)
/-- `a + b * kb` in `u16` -/
def sum3T (a b kb : Nat) : Option Nat := do
  let y ← ck 65536 (b * kb)
  ck 65536 (a + y)

/-- the palette of `bc4u_gray` / `bc4s_gray` (bc.rs:416–443, 515–542): `c0`, `c1` and the six further
entries, ALL computed; `a`, `b` are the `u16` endpoint values (`c0_u16`, `c1_u16` resp. `r0_254`, `r1_254`),
`v0`, `v1` the raw bytes given to `from_byte`, `six` the mode test -/
def bc4LutT (T : Bc4OpsT) (zeroV oneV : Nat) (v0 v1 a b : Nat) (six : Bool) : Option (List Nat) := do
  let c0 ← T.fromByte v0
  let c1 ← T.fromByte v1
  if six then do
    let c2 ← sum1T a 6 b >>= T.interp6
    let c3 ← sum2T a 5 b 2 >>= T.interp6
    let c4 ← sum2T a 4 b 3 >>= T.interp6
    let c5 ← sum2T a 3 b 4 >>= T.interp6
    let c6 ← sum2T a 2 b 5 >>= T.interp6
    let c7 ← sum3T a b 6 >>= T.interp6
    pure [c0, c1, c2, c3, c4, c5, c6, c7]
  else do
    let c2 ← sum1T a 4 b >>= T.interp4
    let c3 ← sum2T a 3 b 2 >>= T.interp4
    let c4 ← sum2T a 2 b 3 >>= T.interp4
    let c5 ← sum3T a b 4 >>= T.interp4
    pure [c0, c1, c2, c3, c4, c5, zeroV, oneV]

/-- the index loops of `bc4u_gray` / `bc4s_gray` (bc.rs:446–451): for `i` in 0..2, `j` in 0..8:
`index = (indexes_i >> (j * 3)) & 0b111` (`u32 >> usize`), `pixels[i * 8 + j][0] = lut[index as usize]` -/
def bc4LoopT (lut : List Nat) (blk : Nat → Nat) : Option (List Nat) :=
  mapT (fun p => do
    let i := p / 8
    let j := p % 8
    let indexes := le24 blk (2 + 3 * i)
    let sh ← shr 32 indexes (j * 3)
    dbgP (i * 8 + j < 16)
    idx lut (sh &&& 7)) (List.range 16)

/-- `bc4u_gray::<T>` (bc.rs:409) -/
def bc4uT (pr : Prec) (blk : Nat → Nat) : Option (List Nat) := do
  let c0 := blk 0
  let c1 := blk 1
  let lut ← bc4LutT (bc4uOpsT pr) (bc4uOps pr).zero (bc4uOps pr).one c0 c1 c0 c1 (decide (c0 > c1))
  bc4LoopT lut blk
/-- `bc4s_gray::<T>` (bc.rs:507) -/
def bc4sT (pr : Prec) (blk : Nat → Nat) : Option (List Nat) := do
  let red0 := blk 0
  let red1 := blk 1
  let lut ← bc4LutT (bc4sOpsT pr) (bc4sOps pr).zero (bc4sOps pr).one red0 red1 (s8norm red0) (s8norm red1)
    (decide (asI8 red0 > asI8 red1))
  bc4LoopT lut blk

/-! ### BC2, BC3, variants -/

/-- the alpha loop of `bc2_u8_rgba` (bc.rs:276–290): row `i` reads `alpha_bytes[i * 2]`, `alpha_bytes[i * 2 + 1]`
(array of 8), four `n4::n8`, writes `pixels[i * 4 + j][3]` -/
def bc2AlphaRowT (blk : Nat → Nat) (i : Nat) : Option (List Nat) := do
  let hi ← idxF 8 blk (i * 2)
  let lo ← idxF 8 blk (i * 2 + 1)
  let lo4 ← shr 8 lo 4
  let hi4 ← shr 8 hi 4
  let a0 ← n4n8T (hi &&& 0xF)
  let a1 ← n4n8T hi4
  let a2 ← n4n8T (lo &&& 0xF)
  let a3 ← n4n8T lo4
  mapT (fun ja : Nat × Nat => do dbgP (i * 4 + ja.1 < 16); pure ja.2) [(0, a0), (1, a1), (2, a2), (3, a3)]

/-- `bc2_u8_rgba` (bc.rs:271) -/
def bc2T (blk : Nat → Nat) : Option (List Rgba) := do
  let px ← bc1NoDefaultT (upper blk)
  let rows ← mapT (bc2AlphaRowT blk) (List.range 4)
  mapT (fun p => do
    let c ← idx px p
    let row ← idx rows (p / 4)
    let a ← idx row (p % 4)
    pure (setA c a)) (List.range 16)

/-- `bc3_u8_rgba` (bc.rs:319): `pixels[i * 4 + j][3] = alpha[i * 4 + j][0]` -/
def bc3T (blk : Nat → Nat) : Option (List Rgba) := do
  let px ← bc1NoDefaultT (upper blk)
  let alpha ← bc4uT .u8 blk
  mapT (fun p => do
    let i := p / 4
    let j := p % 4
    let c ← idx px (i * 4 + j)
    let a ← idx alpha (i * 4 + j)
    pure (setA c a)) (List.range 16)

/-- one channel of `to_straight_alpha` (bc.rs:313): `(*channel as u16 * 255 / alpha as u16).min(255) as u8` -/
def straightT (c a : Nat) : Option Nat := do
  let a := if a = 0 then 255 else a
  let m ← ck 65536 (c * 255)
  let q ← div m a
  pure (min q 255 % 256)
/-- `to_straight_alpha` (bc.rs:306), one pixel -/
def toStraightT (c : Rgba) : Option Rgba := do
  let r ← straightT c.1 c.2.2.2
  let g ← straightT c.2.1 c.2.2.2
  let b ← straightT c.2.2.1 c.2.2.2
  pure (r, g, b, c.2.2.2)

/-! ### the decoders of `bc.rs` (`BC1_UNORM` … `BC5_SNORM`) -/

/-- `with_precision(f)` : `f(block).map(|p| p.map(NormConvert::to))` -/
def widenAllT (pr : Prec) (px : List (List Nat)) : Option (List (List Nat)) := mapT (mapT (widenT pr)) px

def rgbOf (c : Rgba) : List Nat := [c.1, c.2.1, c.2.2.1]

/-- one block through the decoder of format `f` at precision `pr`: 16 pixels, or `none` = panic -/
def blockT (f : Fmt) (pr : Prec) (blk : Nat → Nat) : Option (List (List Nat)) :=
  match f with
  | .bc1 => do let px ← bc1T blk; widenAllT pr (px.map l4)
  | .bc2 => do let px ← bc2T blk; widenAllT pr (px.map l4)
  | .bc2rgb => do let px ← bc1NoDefaultT (upper blk); widenAllT pr (px.map rgbOf)
  | .bc2p => do let px ← bc2T blk; let s ← mapT toStraightT px; widenAllT pr (s.map l4)
  | .bc3 => do let px ← bc3T blk; widenAllT pr (px.map l4)
  | .bc3rgb => do let px ← bc1NoDefaultT (upper blk); widenAllT pr (px.map rgbOf)
  | .bc3p => do let px ← bc3T blk; let s ← mapT toStraightT px; widenAllT pr (s.map l4)
  | .rxgb => do let px ← bc3T blk; widenAllT pr (px.map fun c => [c.2.2.2, c.2.1, c.2.2.1])
  | .bc3n => do let px ← bc3T blk; widenAllT pr (px.map fun c => [c.2.2.2, c.2.1, calcB c.2.2.2 c.2.1])
  | .bc4u => do let g ← bc4uT pr blk; pure (g.map fun v => [v])
  | .bc4s => do let g ← bc4sT pr blk; pure (g.map fun v => [v])
  | .bc5u => do
    let r ← bc4uT pr blk
    let g ← bc4uT pr (upper blk)
    pure ((r.zip g).map fun rg => [rg.1, rg.2, (bc4uOps pr).zero])
  | .bc5s => do
    let r ← bc4sT pr blk
    let g ← bc4sT pr (upper blk)
    pure ((r.zip g).map fun rg => [rg.1, rg.2, (bc4sOps pr).half])

end Dds.TrapBc
