/-
Per-format wiring of the 45 non-BC encoders (property C12): which quantiser feeds which bit field,
byte order, 2x1 / 8x1 / 2x2 blocking; and the "near tie" predicate that says where the
specification leaves a code undetermined (stated tie tolerance, notes/C12.md).

Anchors: /repo/src/encode/uncompressed.rs, sub_sampled.rs, bi_planar.rs.
-/
import DdsModel.Quant
namespace Dds.Quant

/-- an input channel value: an n-bit integer `v/(2^n−1)` or a binary32 bit pattern -/
inductive Inp
  | int (v bits : Nat)
  | f32 (bits : Nat)
  deriving Repr, Inhabited, BEq

/-- extended real -/
inductive Ext
  | nan | pinf | ninf
  | fin (neg : Bool) (mag : Rat)      -- sign bit kept (−0)
  deriving Repr, Inhabited

def Inp.ext : Inp → Ext
  | .int v n => .fin false ((v : Rat) / (maxCode n : Rat))
  | .f32 b =>
    let neg := b / 2 ^ 31 % 2 = 1
    let e := b / 2 ^ 23 % 256
    let m := b % 2 ^ 23
    if e = 255 then (if m ≠ 0 then .nan else if neg then .ninf else .pinf)
    else .fin neg (f32Val (b % 2 ^ 31))

def Ext.real : Ext → Option Rat
  | .fin neg m => some (if neg then -m else m)
  | _ => none

/-- clamp to `[0,1]`, `+Inf ↦ 1`, `−Inf ↦ 0`, NaN ↦ 0 (`util::clamp_0_1`) -/
def Ext.clamp01 : Ext → Rat
  | .nan | .ninf => 0
  | .pinf => 1
  | .fin neg m => Quant.clamp01 (if neg then -m else m)

def Ext.isNan : Ext → Bool
  | .nan => true
  | _ => false

inductive FK | u (b : Nat) | s (b : Nat) | h16 | f11 | f10 | f32 | xr | e9 | no
  deriving Repr, DecidableEq, Inhabited
inductive Cls | plain | yuv (m : Nat) | rgbg | subYuv (m : Nat) | r1 | bi (m : Nat)
  deriving Repr, DecidableEq, Inhabited

structure Fmt where
  name : String
  cls : Cls
  k : List FK          -- r g b a
  unit : Nat
  deriving Repr, Inhabited

open FK Cls in
def formats : List Fmt := [
  ⟨"R8G8B8_UNORM", plain, [u 8, u 8, u 8, no], 3⟩,
  ⟨"B8G8R8_UNORM", plain, [u 8, u 8, u 8, no], 3⟩,
  ⟨"R8G8B8A8_UNORM", plain, [u 8, u 8, u 8, u 8], 4⟩,
  ⟨"R8G8B8A8_SNORM", plain, [s 8, s 8, s 8, s 8], 4⟩,
  ⟨"B8G8R8A8_UNORM", plain, [u 8, u 8, u 8, u 8], 4⟩,
  ⟨"B8G8R8X8_UNORM", plain, [u 8, u 8, u 8, no], 4⟩,
  ⟨"B5G6R5_UNORM", plain, [u 5, u 6, u 5, no], 2⟩,
  ⟨"B5G5R5A1_UNORM", plain, [u 5, u 5, u 5, u 1], 2⟩,
  ⟨"B4G4R4A4_UNORM", plain, [u 4, u 4, u 4, u 4], 2⟩,
  ⟨"A4B4G4R4_UNORM", plain, [u 4, u 4, u 4, u 4], 2⟩,
  ⟨"R8_SNORM", plain, [s 8, no, no, no], 1⟩,
  ⟨"R8_UNORM", plain, [u 8, no, no, no], 1⟩,
  ⟨"R8G8_UNORM", plain, [u 8, u 8, no, no], 2⟩,
  ⟨"R8G8_SNORM", plain, [s 8, s 8, no, no], 2⟩,
  ⟨"A8_UNORM", plain, [no, no, no, u 8], 1⟩,
  ⟨"R16_UNORM", plain, [u 16, no, no, no], 2⟩,
  ⟨"R16_SNORM", plain, [s 16, no, no, no], 2⟩,
  ⟨"R16G16_UNORM", plain, [u 16, u 16, no, no], 4⟩,
  ⟨"R16G16_SNORM", plain, [s 16, s 16, no, no], 4⟩,
  ⟨"R16G16B16A16_UNORM", plain, [u 16, u 16, u 16, u 16], 8⟩,
  ⟨"R16G16B16A16_SNORM", plain, [s 16, s 16, s 16, s 16], 8⟩,
  ⟨"R10G10B10A2_UNORM", plain, [u 10, u 10, u 10, u 2], 4⟩,
  ⟨"R11G11B10_FLOAT", plain, [f11, f11, f10, no], 4⟩,
  ⟨"R9G9B9E5_SHAREDEXP", plain, [e9, e9, e9, no], 4⟩,
  ⟨"R16_FLOAT", plain, [h16, no, no, no], 2⟩,
  ⟨"R16G16_FLOAT", plain, [h16, h16, no, no], 4⟩,
  ⟨"R16G16B16A16_FLOAT", plain, [h16, h16, h16, h16], 8⟩,
  ⟨"R32_FLOAT", plain, [f32, no, no, no], 4⟩,
  ⟨"R32G32_FLOAT", plain, [f32, f32, no, no], 8⟩,
  ⟨"R32G32B32_FLOAT", plain, [f32, f32, f32, no], 12⟩,
  ⟨"R32G32B32A32_FLOAT", plain, [f32, f32, f32, f32], 16⟩,
  ⟨"R10G10B10_XR_BIAS_A2_UNORM", plain, [xr, xr, xr, u 2], 4⟩,
  ⟨"AYUV", yuv 8, [no, no, no, u 8], 4⟩,
  ⟨"Y410", yuv 10, [no, no, no, u 2], 4⟩,
  ⟨"Y416", yuv 16, [no, no, no, u 16], 8⟩,
  ⟨"R1_UNORM", r1, [u 1, no, no, no], 1⟩,
  ⟨"R8G8_B8G8_UNORM", rgbg, [u 8, u 8, u 8, no], 4⟩,
  ⟨"G8R8_G8B8_UNORM", rgbg, [u 8, u 8, u 8, no], 4⟩,
  ⟨"UYVY", subYuv 8, [no, no, no, no], 4⟩,
  ⟨"YUY2", subYuv 8, [no, no, no, no], 4⟩,
  ⟨"Y210", subYuv 10, [no, no, no, no], 8⟩,
  ⟨"Y216", subYuv 16, [no, no, no, no], 8⟩,
  ⟨"NV12", bi 8, [no, no, no, no], 1⟩,
  ⟨"P010", bi 10, [no, no, no, no], 2⟩,
  ⟨"P016", bi 16, [no, no, no, no], 2⟩]

def Fmt.isYuv (f : Fmt) : Bool :=
  match f.cls with
  | .yuv _ | .subYuv _ | .bi _ => true
  | _ => false
/-- bit depth of the matrix the encoder evaluates (Y210 is made from 16-bit codes) -/
def Fmt.yuvBits (f : Fmt) : Nat :=
  match f.cls with
  | .yuv m | .bi m => m
  | .subYuv 10 => 16
  | .subYuv m => m
  | _ => 0

abbrev Px := Array Ext   -- r g b a

def le16 (x : Nat) : List Nat := [x % 256, x / 256 % 256]
def le32 (x : Nat) : List Nat := [x % 256, x / 256 % 256, x / 65536 % 256, x / 16777216 % 256]

def levelsOf : FK → Nat
  | .u b => maxCode b
  | .s b => snormLevels b
  | _ => 0

/-- code of one field (NaN yields 0; such pixels are excluded from the comparison) -/
def fieldCode (k : FK) (x : Ext) : Nat :=
  match k with
  | .u b => q b x.clamp01
  | .s b => sencode b x.clamp01
  | .h16 =>
    match x with
    | .nan => 0x7E00
    | .pinf => 0x7C00
    | .ninf => 0xFC00
    | .fin neg m => (if neg then 0x8000 else 0) + half m
  | .f11 | .f10 =>
    let mb := if k = .f11 then 6 else 5
    match x with
    | .nan => 2 ^ (mb + 5) - 1
    | .pinf => 31 * 2 ^ mb
    | .ninf => 0
    | .fin neg m => if neg then 0 else fpSmallImpl mb m   -- the code that exists (spec: `roundSmallFloat mb false`)
  | .f32 => 0
  | .xr =>
    match x with
    | .nan => 0
    | .pinf => 1023
    | .ninf => 0
    | .fin neg m => xr10 (if neg then -m else m)
  | .e9 | .no => 0

/-- 32-bit pattern of a binary32 field -/
def f32Field (i : Inp) : Nat :=
  match i with
  | .f32 b => b
  | .int v n => f32Bits ((v : Rat) / (maxCode n : Rat))

def e9In (x : Ext) : Rat :=
  match x with
  | .nan | .ninf => 0
  | .pinf => 65408
  | .fin neg m => e9Clamp (if neg then -m else m)

structure Pix where
  i : Array Inp
  x : Array Ext
  deriving Inhabited

def Pix.of (i : Array Inp) : Pix := ⟨i, i.map Inp.ext⟩

def yuvOf (m : Nat) (p : Pix) : Nat × Nat × Nat :=
  match p.x[0]!.real, p.x[1]!.real, p.x[2]!.real with
  | some r, some g, some b => (yuvCode m 0 r g b, yuvCode m 1 r g b, yuvCode m 2 r g b)
  | _, _, _ => (0, 0, 0)

/-- bytes of one pixel of a `plain` / `yuv` format -/
def encPixel (f : Fmt) (p : Pix) : List Nat :=
  let c (j : Nat) : Nat := fieldCode (f.k.getD j .no) p.x[j]!
  let r := c 0; let g := c 1; let b := c 2; let a := c 3
  match f.name with
  | "R8G8B8_UNORM" => [r, g, b]
  | "B8G8R8_UNORM" => [b, g, r]
  | "R8G8B8A8_UNORM" | "R8G8B8A8_SNORM" => [r, g, b, a]
  | "B8G8R8A8_UNORM" => [b, g, r, a]
  | "B8G8R8X8_UNORM" => [b, g, r, 255]
  | "B5G6R5_UNORM" => le16 (b + g * 2 ^ 5 + r * 2 ^ 11)
  | "B5G5R5A1_UNORM" => le16 (b + g * 2 ^ 5 + r * 2 ^ 10 + a * 2 ^ 15)
  | "B4G4R4A4_UNORM" => le16 (b + g * 2 ^ 4 + r * 2 ^ 8 + a * 2 ^ 12)
  | "A4B4G4R4_UNORM" => le16 (a + b * 2 ^ 4 + g * 2 ^ 8 + r * 2 ^ 12)
  | "R8_SNORM" | "R8_UNORM" => [r]
  | "R8G8_UNORM" | "R8G8_SNORM" => [r, g]
  | "A8_UNORM" => [a]
  | "R16_UNORM" | "R16_SNORM" | "R16_FLOAT" => le16 r
  | "R16G16_UNORM" | "R16G16_SNORM" | "R16G16_FLOAT" => le16 r ++ le16 g
  | "R16G16B16A16_UNORM" | "R16G16B16A16_SNORM" | "R16G16B16A16_FLOAT" => le16 r ++ le16 g ++ le16 b ++ le16 a
  | "R10G10B10A2_UNORM" | "R10G10B10_XR_BIAS_A2_UNORM" => le32 (a * 2 ^ 30 + b * 2 ^ 20 + g * 2 ^ 10 + r)
  | "R11G11B10_FLOAT" => le32 (b * 2 ^ 22 + g * 2 ^ 11 + r)
  | "R9G9B9E5_SHAREDEXP" => le32 (e9Encode (e9In p.x[0]!) (e9In p.x[1]!) (e9In p.x[2]!))
  | "R32_FLOAT" => le32 (f32Field p.i[0]!)
  | "R32G32_FLOAT" => le32 (f32Field p.i[0]!) ++ le32 (f32Field p.i[1]!)
  | "R32G32B32_FLOAT" => le32 (f32Field p.i[0]!) ++ le32 (f32Field p.i[1]!) ++ le32 (f32Field p.i[2]!)
  | "R32G32B32A32_FLOAT" =>
    le32 (f32Field p.i[0]!) ++ le32 (f32Field p.i[1]!) ++ le32 (f32Field p.i[2]!) ++ le32 (f32Field p.i[3]!)
  | "AYUV" => let (y, u, v) := yuvOf 8 p; [v, u, y, a]
  | "Y410" => let (y, u, v) := yuvOf 10 p; le32 (a * 2 ^ 30 + v * 2 ^ 20 + y * 2 ^ 10 + u)
  | "Y416" => let (y, u, v) := yuvOf 16 p; le16 u ++ le16 y ++ le16 v ++ le16 a
  | _ => []

/-- mean of a pair before the quantiser (`(p0 + p1) * 0.5`); non-finite input: excluded anyway -/
def meanCode (a b : Ext) : Nat :=
  match a.real, b.real with
  | some x, some y => q 8 ((x + y) / 2)
  | _, _ => 0

/-- bytes of one 2x1 block -/
def encPair (f : Fmt) (p0 p1 : Pix) : List Nat :=
  match f.cls with
  | .rgbg =>
    let g0 := q 8 p0.x[1]!.clamp01; let g1 := q 8 p1.x[1]!.clamp01
    let r := meanCode p0.x[0]! p1.x[0]!; let b := meanCode p0.x[2]! p1.x[2]!
    if f.name = "R8G8_B8G8_UNORM" then [r, g0, b, g1] else [g0, r, g1, b]
  | .subYuv _ =>
    let m := f.yuvBits
    let (y0, u0, v0) := yuvOf m p0; let (y1, u1, v1) := yuvOf m p1
    let u := (u0 + u1) / 2; let v := (v0 + v1) / 2
    match f.name with
    | "YUY2" => [y0, u, y1, v]
    | "UYVY" => [u, y0, v, y1]
    | "Y216" => le16 y0 ++ le16 u ++ le16 y1 ++ le16 v
    | "Y210" => let t (c : Nat) := c / 64 * 64; le16 (t y0) ++ le16 (t u) ++ le16 (t y1) ++ le16 (t v)
    | _ => []
  | _ => []

/-! ## near ties (stated tolerance: 2^-12 of a step; YUV: 2^(m−20) of a code) -/

def nearHalf (s tol : Rat) : Bool :=
  let fr := s - (s.floor : Rat)
  let d := fr - 1/2
  (if d < 0 then -d else d) < tol

def tol12 : Rat := 1 / 4096
/-- tie tolerance in steps: 2^-12, widened to 2^(b−23) for UNORM fields of more than 11 bits
(`x * 65535.0 + 0.5` in binary32 carries only 8 bits below the unit) -/
def tolSteps : FK → Rat
  | .u b => if b > 11 then pow2 ((b : Int) - 23) else tol12
  | _ => tol12

def halfUlp (mb : Nat) (a : Rat) : Rat :=
  let e := if a ≤ 0 then (-14 : Int) else max (floorLog2 a.num.toNat a.den) (-14)
  pow2 (e - (mb : Int) - 1)

/-- field-level near-tie test (clamped kinds) -/
def nearTieField (k : FK) (x : Ext) : Bool :=
  match k with
  | .u _ | .s _ => nearHalf (x.clamp01 * (levelsOf k : Rat)) (tolSteps k)
  | .xr =>
    match x.real with
    | some v => let y := v * 510; if -384 ≤ y ∧ y ≤ 639 then nearHalf y tol12 else false
    | none => false
  | _ => false

def nearTieFloat (mb : Nat) (a : Rat) : Bool :=
  if a ≤ 0 then false else nearHalf (a / (halfUlp mb a * 2)) tol12

def yuvTame (x : Ext) : Option Rat :=
  match x with
  | .fin neg m =>
    if m = 0 then some 0
    else if m < pow2 (-40) then none
    else if m ≤ 5/4 then some (if neg then -m else m) else none
  | _ => none

/-- does the specification leave this pixel's bytes undetermined? -/
def pixelLoose (f : Fmt) (p : Pix) (intLine : Bool) : Bool :=
  if f.isYuv then
    match yuvTame p.x[0]!, yuvTame p.x[1]!, yuvTame p.x[2]! with
    | some r, some g, some b =>
      let m := f.yuvBits
      let tol := pow2 ((m : Int) - 20)
      (nearHalf (yuvIdeal m 0 r g b) tol || nearHalf (yuvIdeal m 1 r g b) tol || nearHalf (yuvIdeal m 2 r g b) tol)
        || (f.k.getD 3 .no ≠ .no && (p.x[3]!.isNan || nearTieField (f.k.getD 3 .no) p.x[3]!))
    | _, _, _ => true
  else if f.cls = .rgbg then
    p.x[1]!.isNan || nearTieField (.u 8) p.x[1]!
  else if f.k.getD 0 .no = .e9 then
    if p.x[0]!.isNan || p.x[1]!.isNan || p.x[2]!.isNan then true else
    let cs := [e9In p.x[0]!, e9In p.x[1]!, e9In p.x[2]!]
    let mx := max3 (cs.getD 0 0) (cs.getD 1 0) (cs.getD 2 0)
    if mx ≤ 0 then false
    else
      let e0 := (max (floorLog2 mx.num.toNat mx.den) (-16) + 16)
      if nearHalf (mx * pow2 (24 - e0)) tol12 then true
      else
        let e := e9Exp mx
        cs.any (fun c => 0 < c && nearHalf (c * pow2 (24 - (e : Int))) tol12)
  else
    (List.range 4).any fun j =>
      let k := f.k.getD j .no
      let x := p.x[j]!
      match k with
      | .no | .f32 | .e9 => false
      | .h16 | .f11 | .f10 =>
        let mb := if k = .h16 then 10 else if k = .f11 then 6 else 5
        match x with
        | .nan => true
        | .fin _ m => intLine && nearTieFloat mb m
        | _ => false
      | _ => x.isNan || nearTieField k x

/-- finite and either 0 or 2^-40 ≤ |x| < 2^40 -/
def Ext.moderate : Ext → Option Rat
  | .fin neg m =>
    if m = 0 then some 0
    else if m < pow2 (-40) then none
    else if m < pow2 40 then some (if neg then -m else m) else none
  | _ => none

/-- R8G8_B8G8 / G8R8_G8B8: the averaged R and B of a pair -/
def rgbgPairLoose (p0 p1 : Pix) : Bool :=
  [0, 2].any fun c =>
    match p0.x[c]!.moderate, p1.x[c]!.moderate with
    | some a, some b => nearHalf (Quant.clamp01 ((a + b) / 2) * 255) tol12
    | _, _ => true

end Dds.Quant
