/-
Rational specification of the scalar conversions of C04 ("the ideal real value of a field") and of
rounding to the three output precisions.  Exact `Rat` only; implementation-independent.
-/
import DdsModel.ConvF32
namespace Dds.Spec
open Dds.CF32

/-- UNORM: `v / (2^n - 1)` -/
def unorm (n v : Nat) : Rat := (v : Rat) / ((2 ^ n - 1 : Nat) : Rat)

/-- the signed value of an `n`-bit two's complement code -/
def signed (n v : Nat) : Int := if v < 2 ^ (n - 1) then (v : Int) else (v : Int) - (2 ^ n : Nat)

/-- SNORM mapped to `[0, 1]`: both minimum codes (`-2^(n-1)` and `-2^(n-1)+1`) are `-1`;
`(max(s, -m) / m + 1) / 2` with `m = 2^(n-1) - 1` -/
def snorm (n v : Nat) : Rat :=
  let m : Int := (2 ^ (n - 1) : Nat) - 1
  (((max (signed n v) (-m) : Int) : Rat) / (m : Rat) + 1) / 2

/-- 10-bit XR_BIAS (2.8 fixed point, bias 1.5, scale 256/510): `(x - 384) / 510` -/
def xr (v : Nat) : Rat := (((v : Int) - 384 : Int) : Rat) / 510

def clamp01 (q : Rat) : Rat := max 0 (min 1 q)

/-- value of a small float with 5 exponent bits and `mb` mantissa bits (half: `mb = 10` + sign bit,
11-bit: `mb = 6`, 10-bit: `mb = 5`); `none` for infinities and NaN -/
def smallFloat (mb : Nat) (signed : Bool) (x : Nat) : Option Rat :=
  let exp := (x >>> mb) % 32
  let mant := x % 2 ^ mb
  if exp == 31 then none else
  let mag : Rat := if exp == 0 then (mant : Rat) * pow2 (-((14 + mb : Nat) : Int))
    else ((2 ^ mb + mant : Nat) : Rat) * pow2 ((exp : Int) - ((15 + mb : Nat) : Int))
  some (if signed && (x >>> (mb + 5)) % 2 == 1 then -mag else mag)

/-- R9G9B9E5: `mant * 2^(exp - 15 - 9)` -/
def sharedExp (exp mant : Nat) : Rat := (mant : Rat) * pow2 ((exp : Int) - 24)

/-- BT.601 limited range with the constants printed by Microsoft, on `bits`-bit samples, normalised
and clamped to `[0, 1]` -/
def yuv (bits y u v : Nat) : Rat × Rat × Rat :=
  let (oy, oc, mx) : Int × Int × Int :=
    if bits == 8 then (16, 128, 255) else if bits == 10 then (64, 512, 1023) else (4096, 32768, 65535)
  let c : Rat := (((y : Int) - oy : Int) : Rat)
  let d : Rat := (((u : Int) - oc : Int) : Rat)
  let e : Rat := (((v : Int) - oc : Int) : Rat)
  let k (n : Nat) : Rat := (n : Rat) / 1000000
  (clamp01 ((k 1164383 * c + k 1596027 * e) / (mx : Rat)),
   clamp01 ((k 1164383 * c - k 391762 * d - k 812968 * e) / (mx : Rat)),
   clamp01 ((k 1164383 * c + k 2017232 * d) / (mx : Rat)))

/-- nearest integer, an exact tie going up: `⌊q + 1/2⌋` -/
def nearest (q : Rat) : Int := (q + 1 / 2).floor

/-- `q` lies exactly half way between two integers -/
def isTie (q : Rat) : Bool := (q + 1 / 2).den == 1

/-- code of the normalised value `q` at an integer precision with maximum code `max` -/
def toCode (max : Nat) (q : Rat) : Int := nearest ((max : Rat) * clamp01 q)

/-- admissible codes under the tie tolerance `τ = 2^-12 / 255` (normalised units):
`|c / max - clamp01 q| ≤ 1 / (2 max) + τ` -/
def admissible (max : Nat) (q : Rat) (c : Nat) : Bool :=
  let d := (c : Rat) / (max : Rat) - clamp01 q
  let b : Rat := 1 / (2 * (max : Rat)) + 1 / (4096 * 255)
  decide (-b ≤ d ∧ d ≤ b)

end Dds.Spec
