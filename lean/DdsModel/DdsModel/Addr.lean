/-
Addressing model of full-surface and rectangle decoding (property C05).

What is modelled (src/decode/read_write.rs, decoder.rs, uncompressed.rs, src/color/mod.rs):
the three decode families
  * per pixel      `for_each_pixel_untyped` / `for_each_pixel_rect_untyped`
  * blocks         `for_each_block_untyped` / `for_each_block_rect_untyped` with the three
                   `ProcessBlocksFn` shapes (`general_process_blocks`, `process_4x4_blocks_helper`
                   incl. `handle_width_offset` and its aligned fast path, `process_2x1_blocks_helper`)
  * bi-planar      `for_each_bi_planar` / `for_each_bi_planar_rect` with `process_bi_planar_helper`
together with `ChannelConversionBuffer::{process_pixels, process_blocks, process_bi_planar}`
(the 3072-byte chunking), `UntypedLineBuffer`, `DecoderSet::get_decoder`, the whole-image COPY
fast paths and the 16-entry `convert_channels` table.

The per-unit decode function (pixel / block / macro pixel -> colours) is NOT modelled: the
model computes *which* output pixel receives *which* pixel of *which* encoded unit.  The
result of a decode is a list of `Run`s in the order the code performs the writes; the index
arithmetic of the code is kept verbatim (Nat subtraction truncates where Rust would trap or
wrap; `Theorems/C05.lean` shows the operands are ordered under the callers' invariants).

A temporary conversion buffer is modelled by relocation: what the callee writes at buffer
pixel (y, x) is what the caller copies to output pixel (row0 + y, col0 + x).
-/
import DdsModel.Mach
import DdsModel.SrcConsts
namespace Dds.Addr
open Dds

/-- One horizontal run of decoded pixels.  Pixel `t < n` of the run is written to the output
view at `(row, col + t)`; it is pixel `(px + t, py)` of the encoded unit `(ux, uy)` (`ux` = index
of the unit inside its line of units, `uy` = index of the line of units, both absolute in the
surface).  For the per-pixel family a unit is a pixel and a run covers the units `ux .. ux+n`. -/
structure Run where
  row : Nat
  col : Nat
  n : Nat
  ux : Nat
  uy : Nat
  px : Nat
  py : Nat
deriving Repr, DecidableEq, Inhabited

/-- A callee works on a sub-slice of the output (`dr` rows down, `dc` pixels right) and on a
sub-slice of the encoded units (`dux` units right, line `duy`). -/
def Run.shift (dr dc dux duy : Nat) (r : Run) : Run :=
  { r with row := r.row + dr, col := r.col + dc, ux := r.ux + dux, uy := r.uy + duy }

/-- `ChannelConversionBuffer::BUFFER_BYTES` -/
def BUFFER_BYTES : Nat := SrcConsts.CONVERSION_BUFFER_BYTES   -- 3072 at the pinned commit; regenerated from the source

/-- `util::round_down_to_multiple` -/
def roundDown (v m : Nat) : Nat := v - v % m

/-- `(0..n).step_by(p)`: the chunk starts `0, p, 2p, … < n`.  (Rust panics for `p = 0`; the
callers' `p` is positive, see `C05.pref_pos`.) -/
def stepStarts (n p : Nat) : List Nat := (List.range (divCeil n p)).map (· * p)

/-! ### `UntypedLineBuffer` -/

/-- `UntypedLineBuffer::new`: `lines_in_buffer = (64 KiB / bytes_per_line).clamp(1, height)` -/
def lbCapacity (bytesPerLine height : Nat) : Nat :=
  let c := 65536 / bytesPerLine
  if c < 1 then 1 else if c > height then height else c

/-- The lines `next_line` yields: refills of `min(capacity, lines_on_disk)` consecutive lines
each, handed out one by one.  `base` = lines consumed from the reader so far. -/
def lbLines (cap : Nat) : (fuel onDisk base : Nat) → List Nat
  | 0, _, _ => []
  | fuel + 1, onDisk, base =>
    if onDisk = 0 then []
    else
      let k := min cap onDisk
      (List.range k).map (base + ·) ++ lbLines cap fuel (onDisk - k) (base + k)

/-- all lines handed out for a buffer created with `(bytes_per_line, height)` -/
def lineBuffer (bytesPerLine height : Nat) : List Nat :=
  lbLines (lbCapacity bytesPerLine height) height height 0

/-! ### per-pixel family -/

/-- `ChannelConversionBuffer::process_pixels` on one row of `pixels` pixels: without a
conversion one call of the pixel function, else chunks of `BUFFER_BYTES / native_bpp` pixels. -/
def convPixels (conv : Bool) (nbpp pixels : Nat) : List Run :=
  if !conv then [⟨0, 0, pixels, 0, 0, 0, 0⟩]
  else
    let bufPx := BUFFER_BYTES / nbpp
    (stepStarts pixels bufPx).map fun cs =>
      let ce := min (cs + bufPx) pixels
      ⟨0, cs, ce - cs, cs, 0, 0, 0⟩

/-- `for_each_pixel_untyped`: output row `y` (`rows_mut`) receives line `y` of the reader. -/
def pixelFull (conv : Bool) (nbpp W H : Nat) : List Run :=
  (List.range H).flatMap fun y => (convPixels conv nbpp W).map (Run.shift y 0 0 y)

/-- the same with the line order taken from the modelled `UntypedLineBuffer` -/
def pixelFullLB (conv : Bool) (nbpp encBytes W H : Nat) : List Run :=
  (lineBuffer (W * encBytes) H).zipIdx.flatMap fun (line, y) =>
    (convPixels conv nbpp W).map (Run.shift y 0 0 line)

/-- whole-image COPY fast paths (`COPY_U8/U16/U32/S8`, BGRA swap): `read_exact_image` reads
`data` in one go when the view is contiguous (`row_pitch = width * bpp`, so byte
`(y*W + x)*bpp` is row `y`, pixel `x`), else row by row through `rows_mut`. -/
def copyFull (W H : Nat) : List Run :=
  (List.range H).map fun y => ⟨y, 0, W, 0, y, 0, 0⟩

/-- `for_each_pixel_rect_untyped`: position of the reader (in encoded pixels from the start of
the surface) when row `y` of the rectangle is read: `bytes_per_row*oy + before` is skipped
first, `before + after` between two rows. -/
def rectRowPos (W ox oy w : Nat) : Nat → Nat
  | 0 => W * oy + ox
  | y + 1 => rectRowPos W ox oy w y + w + (ox + (W - ox - w))

/-- `for_each_pixel_rect_untyped` (`get_row(y)` receives the `w` pixels read at `rectRowPos y`) -/
def pixelRect (conv : Bool) (nbpp W ox oy w h : Nat) : List Run :=
  (List.range h).flatMap fun y =>
    let p := rectRowPos W ox oy w y
    (convPixels conv nbpp w).map fun r =>
      { r with row := r.row + y, ux := (p + r.ux) % W, uy := (p + r.ux) / W }

/-! ### block family -/

/-- `PixelRange` -/
structure PRange where
  width : Nat
  wo : Nat
  rs : Nat
  re : Nat
deriving Repr

/-- the inner `for y in range.rows.iter()` of `general_process_blocks` -/
def genRows (r : PRange) (pixelX blockW bi pox : Nat) : List Run :=
  (List.range' r.rs (r.re - r.rs)).map fun y => ⟨y - r.rs, pixelX, blockW, bi, 0, pox, y⟩

/-- the block loop of `general_process_blocks` (`todo` blocks left, current `block_index`,
accumulator `pixel_x`) -/
def genLoop (bw : Nat) (r : PRange) : (todo bi pixelX : Nat) → List Run
  | 0, _, _ => []
  | todo + 1, bi, pixelX =>
    let pox := if bi = 0 then r.wo else 0
    let blockW := min (min (bw - pox) r.width) (r.width + r.wo - bi * bw)
    genRows r pixelX blockW bi pox ++ genLoop bw r todo (bi + 1) (pixelX + blockW)

/-- `general_process_blocks::<bw, bh, ..>` on a slice of `nblocks` encoded blocks -/
def procGeneral (bw : Nat) (r : PRange) (nblocks : Nat) : List Run := genLoop bw r nblocks 0 0

/-- the aligned fast path of `process_4x4_blocks_helper` (`range.rows.len() == 4`): full blocks
`width / 4`, then the partial block of `width - full*4` pixels; `y` is both the output row and
the row inside the block. -/
def fast4 (width : Nat) : List Run :=
  ((List.range (width / 4)).flatMap fun bi =>
    (List.range 4).map fun y => (⟨y, bi * 4, 4, bi, 0, 0, y⟩ : Run)) ++
  (if width % 4 ≠ 0 then
    (List.range 4).map fun y => (⟨y, width / 4 * 4, width - width / 4 * 4, width / 4, 0, 0, y⟩ : Run)
   else [])

/-- `process_4x4_blocks_helper`.  `fast` = the aligned fast path is available
(`stride % size_of::<OutPixel>() == 0` and `cast::from_bytes_mut` succeeds). -/
def proc4 (fast : Bool) (r : PRange) (nblocks : Nat) : List Run :=
  -- handle_width_offset
  let pixelW := min (4 - r.wo) r.width
  let handled : Bool := r.wo != 0 && pixelW != 0
  let pre := if handled then procGeneral 4 ⟨pixelW, r.wo, r.rs, r.re⟩ 1 else []
  let r' : PRange := if handled then ⟨r.width - pixelW, 0, r.rs, r.re⟩ else r
  let nb' := if handled then nblocks - 1 else nblocks
  let dc := if handled then pixelW else 0
  let dux := if handled then 1 else 0
  let rest := if r'.re - r'.rs = 4 ∧ fast then fast4 r'.width else procGeneral 4 r' nb'
  pre ++ rest.map (Run.shift 0 dc dux 0)

/-- `process_2x1_blocks_helper` (ignores the stride and the row range: one row) -/
def proc2 (r : PRange) (nblocks : Nat) : List Run :=
  let first : Bool := r.wo == 1
  let pre : List Run := if first then [⟨0, 0, 1, 0, 0, 1, 0⟩] else []
  let width := if first then r.width - 1 else r.width
  let nb := if first then nblocks - 1 else nblocks
  let d := if first then 1 else 0
  let widthHalf := width / 2
  let pairs := (List.range (min nb widthHalf)).map fun i => (⟨0, d + 2 * i, 2, d + i, 0, 0, 0⟩ : Run)
  let last : List Run := if width % 2 = 1 then [⟨0, d + (width - 1), 1, d + (nb - 1), 0, 0, 0⟩] else []
  pre ++ pairs ++ last

/-- which `ProcessBlocksFn` a format uses -/
inductive Proc where
  | general (bw : Nat)
  | four
  | two
deriving Repr, DecidableEq

def Proc.bw : Proc → Nat
  | .general bw => bw
  | .four => 4
  | .two => 2

def Proc.run (p : Proc) (fast : Bool) (r : PRange) (nblocks : Nat) : List Run :=
  match p with
  | .general bw => procGeneral bw r nblocks
  | .four => proc4 fast r nblocks
  | .two => proc2 r nblocks

/-- `ChannelConversionBuffer::process_blocks`.  `fast` describes the *caller's* output (used
only without conversion; the temporary buffer is `u32`-aligned with
`stride = chunk * native_bpp`, so there the fast path is always available). -/
def convBlocks (p : Proc) (fast : Bool) (conv : Bool) (nbpp : Nat) (r : PRange) (nblocks : Nat) :
    List Run :=
  if !conv then p.run fast r nblocks
  else
    let bw := p.bw
    let height := r.re - r.rs
    let bufW := BUFFER_BYTES / (nbpp * height)
    let offsetWidth := min (bw - r.wo) r.width
    let pre := if r.wo ≠ 0 then p.run true ⟨offsetWidth, r.wo, r.rs, r.re⟩ 1 else []
    let width := if r.wo ≠ 0 then r.width - offsetWidth else r.width
    let dux := if r.wo ≠ 0 then 1 else 0
    let dc := if r.wo ≠ 0 then offsetWidth else 0
    let pref := roundDown bufW bw
    pre ++ (stepStarts width pref).flatMap fun cs =>
      let ce := min (cs + pref) width
      let csz := ce - cs
      let blockOffset := cs / bw
      let blockCount := divCeil csz bw
      (p.run true ⟨csz, 0, r.rs, r.re⟩ blockCount).map (Run.shift 0 (dc + cs) (dux + blockOffset) 0)

/-- `for_each_block_untyped`: block line `by` → rows `by*bh ..` (`get_row_range`). -/
def blockFull (p : Proc) (bh : Nat) (fastAt : Nat → Bool) (conv : Bool) (nbpp W H : Nat) : List Run :=
  let widthBlocks := divCeil W p.bw
  let heightBlocks := divCeil H bh
  (List.range heightBlocks).flatMap fun by_ =>
    let pixelRows := min bh (H - by_ * bh)
    (convBlocks p (fastAt (by_ * bh)) conv nbpp ⟨W, 0, 0, pixelRows⟩ widthBlocks).map
      (Run.shift (by_ * bh) 0 0 by_)

/-- geometry of `for_each_block_rect_untyped` -/
structure RectGeom where
  bw : Nat
  bh : Nat
  ox : Nat
  oy : Nat
  w : Nat
  h : Nat

def RectGeom.skipBefore (g : RectGeom) : Nat := g.oy / g.bh
def RectGeom.linesToRead (g : RectGeom) : Nat := divCeil (g.h + g.oy) g.bh - g.skipBefore
def RectGeom.skipAfter (g : RectGeom) (H : Nat) : Nat :=
  divCeil H g.bh - g.skipBefore - g.linesToRead
def RectGeom.brStart (g : RectGeom) : Nat := g.ox / g.bw
def RectGeom.brEnd (g : RectGeom) : Nat := divCeil (g.ox + g.w) g.bw
def RectGeom.widthOffset (g : RectGeom) : Nat := g.ox % g.bw
/-- `rows` of block line `k` of the lines read (`block_line_y = skipBefore + k`) -/
def RectGeom.rowStart (g : RectGeom) (k : Nat) : Nat := g.oy - (g.skipBefore + k) * g.bh
def RectGeom.rowEnd (g : RectGeom) (k : Nat) : Nat := min (g.oy + g.h - (g.skipBefore + k) * g.bh) g.bh
/-- the accumulator `pixel_row` before block line `k` is processed -/
def RectGeom.pixelRow (g : RectGeom) : Nat → Nat
  | 0 => 0
  | k + 1 => g.pixelRow k + (g.rowEnd k - g.rowStart k)

/-- the `while let Some(block_line)` loop of `for_each_block_rect_untyped` -/
def rectLoop (p : Proc) (g : RectGeom) (fastAt : Nat → Bool) (conv : Bool) (nbpp : Nat) :
    (todo k pixelRow : Nat) → List Run
  | 0, _, _ => []
  | todo + 1, k, pixelRow =>
    let rs := g.rowStart k
    let re := g.rowEnd k
    (convBlocks p (fastAt pixelRow) conv nbpp ⟨g.w, g.widthOffset, rs, re⟩ (g.brEnd - g.brStart)).map
        (Run.shift pixelRow 0 g.brStart (g.skipBefore + k))
      ++ rectLoop p g fastAt conv nbpp todo (k + 1) (pixelRow + (re - rs))

/-- `for_each_block_rect_untyped` -/
def blockRect (p : Proc) (g : RectGeom) (fastAt : Nat → Bool) (conv : Bool) (nbpp : Nat) : List Run :=
  rectLoop p g fastAt conv nbpp g.linesToRead 0 0

/-! ### bi-planar family -/

/-- One run of a bi-planar decode: output `(row, col + t)` is computed from the luma sample
`(lx + t, ly)` of plane 1 and the chroma sample `(cx + (px + t) / ssx, cy)` of plane 2;
`yoff` is the `y` argument handed to the pixel function. -/
structure PlRun where
  row : Nat
  col : Nat
  n : Nat
  lx : Nat
  ly : Nat
  cx : Nat
  cy : Nat
  px : Nat
  yoff : Nat
deriving Repr, DecidableEq, Inhabited

def PlRun.shift (dr dc dlx dly dcx dcy : Nat) (r : PlRun) : PlRun :=
  { r with row := r.row + dr, col := r.col + dc, lx := r.lx + dlx, ly := r.ly + dly,
           cx := r.cx + dcx, cy := r.cy + dcy }

/-- `process_bi_planar_helper::<SSX, ..>`: offset part (fed into slots `0..w` of a macro pixel),
full macro pixels, rest. -/
def planarHelper (ssx offset width yoff : Nat) : List PlRun :=
  let w0 := min (ssx - offset) width
  let pre : List PlRun := if offset > 0 then [⟨0, 0, w0, 0, 0, 0, 0, 0, yoff⟩] else []
  let width' := if offset > 0 then width - w0 else width
  let d := if offset > 0 then w0 else 0
  let dc := if offset > 0 then 1 else 0
  let full := width' / ssx
  let fullW := full * ssx
  let mid := (List.range full).map fun x => (⟨0, d + x * ssx, ssx, d + x * ssx, 0, dc + x, 0, 0, yoff⟩ : PlRun)
  let restW := width' - full * ssx
  let last : List PlRun :=
    if restW > 0 then [⟨0, d + fullW, restW, d + fullW, 0, dc + full, 0, 0, yoff⟩] else []
  pre ++ mid ++ last

/-- `ChannelConversionBuffer::process_bi_planar` -/
def convPlanar (conv : Bool) (nbpp ssx offset width yoff : Nat) : List PlRun :=
  if !conv then planarHelper ssx offset width yoff
  else
    let bufPx := BUFFER_BYTES / nbpp
    let offsetWidth := min (ssx - offset) width
    let pre := if offset ≠ 0 then planarHelper ssx offset offsetWidth yoff else []
    let width' := if offset ≠ 0 then width - offsetWidth else width
    let d := if offset ≠ 0 then offsetWidth else 0
    let dcx := if offset ≠ 0 then 1 else 0
    let pref := roundDown bufPx ssx
    pre ++ (stepStarts width' pref).flatMap fun cs =>
      let ce := min (cs + pref) width'
      let csz := ce - cs
      let p2start := cs / ssx
      (planarHelper ssx 0 csz yoff).map (PlRun.shift 0 (d + cs) (d + cs) 0 (dcx + p2start) 0)

/-- the `for y_offset in 0..sub_sampling_y` loop of `for_each_bi_planar` for chroma line `c`
(`y` is the running row counter; returns the runs and the new `y`) -/
def planarFullInner (conv : Bool) (nbpp ssx W H c : Nat) : (todo yoff y : Nat) → List PlRun × Nat
  | 0, _, y => ([], y)
  | todo + 1, yoff, y =>
    if y ≥ H then ([], y)
    else
      let here := (convPlanar conv nbpp ssx 0 W yoff).map (PlRun.shift y 0 0 y 0 c)
      let (rest, y') := planarFullInner conv nbpp ssx W H c todo (yoff + 1) (y + 1)
      (here ++ rest, y')

/-- the `while let Some(uv_line)` loop of `for_each_bi_planar` -/
def planarFullLoop (conv : Bool) (nbpp ssx ssy W H : Nat) : (todo c y : Nat) → List PlRun
  | 0, _, _ => []
  | todo + 1, c, y =>
    let (here, y') := planarFullInner conv nbpp ssx W H c ssy 0 y
    here ++ planarFullLoop conv nbpp ssx ssy W H todo (c + 1) y'

/-- `for_each_bi_planar` -/
def planarFull (conv : Bool) (nbpp ssx ssy W H : Nat) : List PlRun :=
  planarFullLoop conv nbpp ssx ssy W H (divCeil H ssy) 0 0

/-- geometry of `for_each_bi_planar_rect` -/
structure PlGeom where
  ssx : Nat
  ssy : Nat
  H : Nat
  ox : Nat
  oy : Nat
  w : Nat
  h : Nat

def PlGeom.uvBefore (g : PlGeom) : Nat := g.oy / g.ssy
def PlGeom.uvAfter (g : PlGeom) : Nat := divCeil g.H g.ssy - divCeil (g.oy + g.h) g.ssy
def PlGeom.uvLines (g : PlGeom) : Nat := divCeil g.H g.ssy - g.uvBefore - g.uvAfter

/-- the `for y_offset` loop of `for_each_bi_planar_rect` for the `k`-th chroma line read
(absolute chroma line `uvBefore + k`).  Plane 1 holds the lines `oy .. oy+h` of the surface
(`plain1_bytes_per_line * oy` is skipped first), so buffer line `y - oy` is surface line
`oy + (y - oy)`. -/
def planarRectInner (conv : Bool) (nbpp : Nat) (g : PlGeom) (k : Nat) :
    (todo yoff y : Nat) → List PlRun × Nat
  | 0, _, y => ([], y)
  | todo + 1, yoff, y =>
    if y < g.oy then planarRectInner conv nbpp g k todo (yoff + 1) (y + 1)
    else if y ≥ g.oy + g.h then ([], y)
    else
      let uvStart := g.ox / g.ssx
      let offset := g.ox % g.ssx
      let here := (convPlanar conv nbpp g.ssx offset g.w yoff).map
        (PlRun.shift (y - g.oy) 0 g.ox (g.oy + (y - g.oy)) uvStart (g.uvBefore + k))
      let (rest, y') := planarRectInner conv nbpp g k todo (yoff + 1) (y + 1)
      (here ++ rest, y')

def planarRectLoop (conv : Bool) (nbpp : Nat) (g : PlGeom) : (todo k y : Nat) → List PlRun
  | 0, _, _ => []
  | todo + 1, k, y =>
    let (here, y') := planarRectInner conv nbpp g k g.ssy 0 y
    here ++ planarRectLoop conv nbpp g todo (k + 1) y'

/-- `for_each_bi_planar_rect` -/
def planarRect (conv : Bool) (nbpp : Nat) (g : PlGeom) : List PlRun :=
  planarRectLoop conv nbpp g g.uvLines 0 (g.uvBefore * g.ssy)

/-! ### what ends up in the output -/

def Run.covers (r : Run) (row col : Nat) : Bool :=
  r.row == row && decide (r.col ≤ col) && decide (col < r.col + r.n)

/-- source pixel, absolute in the surface: `(ux*bw + px + t, uy*bh + py)`.  The encoded unit is
`(sx / bw, sy / bh)`, the position inside it `(sx % bw, sy % bh)` (runs never leave their unit,
`C05.runs_within_unit`). -/
def Run.srcAt (bw bh : Nat) (r : Run) (col : Nat) : Nat × Nat :=
  (r.ux * bw + r.px + (col - r.col), r.uy * bh + r.py)

/-- the last write that hits output pixel `(row, col)` -/
def lastWrite (bw bh : Nat) (runs : List Run) (row col : Nat) : Option (Nat × Nat) :=
  (runs.reverse.find? (·.covers row col)).map (·.srcAt bw bh col)

def PlRun.covers (r : PlRun) (row col : Nat) : Bool :=
  r.row == row && decide (r.col ≤ col) && decide (col < r.col + r.n)

/-- (luma x, luma y, chroma x, chroma y, yoff) of output pixel `col` of the run -/
def PlRun.srcAt (ssx : Nat) (r : PlRun) (col : Nat) : Nat × Nat × Nat × Nat × Nat :=
  (r.lx + (col - r.col), r.ly, r.cx + (r.px + (col - r.col)) / ssx, r.cy, r.yoff)

def lastWritePl (ssx : Nat) (runs : List PlRun) (row col : Nat) : Option (Nat × Nat × Nat × Nat × Nat) :=
  (runs.reverse.find? (·.covers row col)).map (·.srcAt ssx col)

/-- The decoded view for an arbitrary per-unit decode function `dec unitBytes px py` and
arbitrary encoded data `data ux uy`; `none` = the byte keeps its previous contents. -/
def image {β γ : Type} (bw bh : Nat) (dec : β → Nat → Nat → γ) (data : Nat → Nat → β)
    (runs : List Run) (row col : Nat) : Option γ :=
  (lastWrite bw bh runs row col).map fun (sx, sy) => dec (data (sx / bw) (sy / bh)) (sx % bw) (sy % bh)

/-- bi-planar: pixel function `g luma chroma yoff` applied slot-wise (as all three bi-planar
formats do: `y.map(|y| yuv([y,u,v]))`) -/
def imagePl {β₁ β₂ γ : Type} (ssx : Nat) (g : β₁ → β₂ → Nat → γ) (plane1 : Nat → Nat → β₁)
    (plane2 : Nat → Nat → β₂) (runs : List PlRun) (row col : Nat) : Option γ :=
  (lastWritePl ssx runs row col).map fun (lx, ly, cx, cy, yo) => g (plane1 lx ly) (plane2 cx cy) yo

/-- byte range of a run inside the view's data (`get_row`, `get_row_range`,
`out[pixel_row * row_pitch ..][chunk_start * bpp ..][y * row_pitch ..]`) -/
def Run.byteLo (pitch obpp : Nat) (r : Run) : Nat := r.row * pitch + r.col * obpp
def Run.byteHi (pitch obpp : Nat) (r : Run) : Nat := r.row * pitch + (r.col + r.n) * obpp

/-- the same for a bi-planar run (`get_row(y)`, then `out[offset_width * bpp ..][chunk_start * bpp ..]`) -/
def PlRun.byteLo (pitch obpp : Nat) (r : PlRun) : Nat := r.row * pitch + r.col * obpp
def PlRun.byteHi (pitch obpp : Nat) (r : PlRun) : Nat := r.row * pitch + (r.col + r.n) * obpp

/-! ### colour formats, decoder selection, channel mapping -/

inductive Channels where
  | gray | alpha | rgb | rgba
deriving Repr, DecidableEq, Inhabited

def Channels.count : Channels → Nat
  | .gray => 1 | .alpha => 1 | .rgb => 3 | .rgba => 4

inductive Precision where
  | u8 | u16 | f32
deriving Repr, DecidableEq, Inhabited

def Precision.size : Precision → Nat
  | .u8 => 1 | .u16 => 2 | .f32 => 4

structure Color where
  ch : Channels
  pr : Precision
deriving Repr, DecidableEq, Inhabited

def Color.bpp (c : Color) : Nat := c.ch.count * c.pr.size

/-- `DecoderSet::get_decoder` over the list of native colours of the set's decoders (every
decoder supports all channel layouts of its own precision, `Decoder::new_with_all_channels`):
an exact match first, else the first decoder of the same precision.  `none` = the `expect`
fails. -/
def getDecoder (natives : List Color) (c : Color) : Option Color :=
  match natives.find? (· == c) with
  | some d => some d
  | none => natives.find? (·.pr == c.pr)

/-- where an output channel comes from -/
inductive ChanSrc where
  | ch (k : Nat)   -- channel `k` of the native pixel
  | zero           -- `Norm::ZERO`
  | one            -- `Norm::ONE` (opaque / white)
deriving Repr, DecidableEq

/-- the channel read exists in a native pixel of `n` channels -/
def ChanSrc.inRange (n : Nat) : ChanSrc → Bool
  | .ch k => decide (k < n)
  | _ => true

/-- `convert_channels` (src/color/mod.rs) with `ch.rs`: the 16-entry table -/
def chanMap : Channels → Channels → List ChanSrc
  | .gray, .gray => [.ch 0]
  | .alpha, .alpha => [.ch 0]
  | .rgb, .rgb => [.ch 0, .ch 1, .ch 2]
  | .rgba, .rgba => [.ch 0, .ch 1, .ch 2, .ch 3]
  | .gray, .alpha => [.one]
  | .rgb, .alpha => [.one]
  | .alpha, .gray => [.zero]
  | .alpha, .rgb => [.zero, .zero, .zero]
  | .gray, .rgb => [.ch 0, .ch 0, .ch 0]
  | .gray, .rgba => [.ch 0, .ch 0, .ch 0, .one]
  | .alpha, .rgba => [.zero, .zero, .zero, .ch 0]
  | .rgb, .gray => [.ch 0]
  | .rgb, .rgba => [.ch 0, .ch 1, .ch 2, .one]
  | .rgba, .gray => [.ch 0]
  | .rgba, .alpha => [.ch 3]
  | .rgba, .rgb => [.ch 0, .ch 1, .ch 2]

/-- apply the table to one native pixel (list of channel values) -/
def mapPixel {α : Type} (zero one : α) (src : List α) (m : List ChanSrc) : List α :=
  m.map fun
    | .ch k => src.getD k zero
    | .zero => zero
    | .one => one

def allChannels : List Channels := [.gray, .alpha, .rgb, .rgba]
def allPrecisions : List Precision := [.u8, .u16, .f32]

end Dds.Addr
