/-
Trapping mirrors of the MIPMAP-GENERATING part of the encoder: buffer handling and index arithmetic of
`src/resize.rs` and of `MipmapCache` / `write_surface_impl` in `src/encoder.rs`.

Style of `Trap.lean` / `TrapEnc.lean`: every operation that can panic in the `checked` profile (overflow checks and
debug assertions on; slice bounds, `copy_from_slice`, `expect`, `Vec` capacity overflow panic in every profile)
returns `Option`, `none` = panic.  Only addresses and lengths are modelled — whether one of these operations panics
depends on nothing else.  Pixel VALUES are `Mip.lean`'s (`runPlan` over the plan this mirror returns); the byte
values an alignment copy hands on are `alignBytes` below.

A `&[u8]` is `Sl` (address, length); a `Vec<u32>` is `VecBuf` (address, `len()`, `capacity()`, in elements).  The
allocator is a parameter `al` (old vector, new capacity ↦ address); ASSUMED: its results are 4-aligned
(`align_of::<u32>()`); an allocation FAILURE aborts and is outside the model.

The `resize` crate (0.8.9) is an external call with this ASSUMED contract, read from its `lib.rs`:
* `Resizer::new(w1, h1, w2, h2, ..)` (lib.rs:398 `Scale::new`) is `Err(InvalidParameters)` iff one of the four sizes
  is 0 (`NonZeroUsize::new(..).ok_or(..)?`, `dest_width == 0 || dest_height == 0`); otherwise `Ok` (its
  `try_reserve`s fail only when the allocator fails).
* `Resizer::resize(src, dst)` (lib.rs:583 `resize_internal`, stride = `w1`) is `Err(InvalidParameters)` iff
  `src.len() < w1 * h1` or `dst.len() != w2 * h2` (the rayon variant's `dst.len() < w2 * h2` is implied); otherwise `Ok`
  (`try_reserve_exact(w2 * h1)` accumulators: allocator).  Neither call panics; `resize_typed` turns every `Err` into a
  panic with `expect`.
`resizerNewT` / `resizerResizeT` are exactly these conditions.

Mirrored (file:line of /repo/src):
* color/mod.rs:94 `ColorFormat::buffer_size(..).expect(..)`; lib.rs:532 `Size::pixels`
* resize.rs:159–171 `get_aligned_slice` (`div_ceil`, `buffer.len() < buffer_len`, `Vec::resize`, `[..slice_len]`)
* resize.rs:19–24 `AlignedView::new` (two `debug_assert`s), :36 `as_image_view` (`ImageView::new(..).expect`, lib.rs:209)
* resize.rs:47–70 `AlignedBuffer::new` (`debug_assert!`), `as_view` (`&byte_slice[..len]`)
* resize.rs:82–111 `Aligner::align` (three branches; row copy `aligned_slice[a_start..a_end].copy_from_slice(row)`)
* resize.rs:124–157 `ResizeState::resize`, `resize`; :176–224 `resize_into` (three `debug_assert`s, dispatch)
* resize.rs:233–261 `resize_typed` (`cast::from_bytes(..).expect` ×2 = zerocopy `ref_from_bytes`: address aligned to the
  element, length a multiple of the pixel size; `Resizer::new(..).expect`; `resize(..).expect`)
* resize.rs:458–514 `IntoStraightAlphaAccumulator::to_value` (`recip` behind each precision's zero-alpha guard)
* encoder.rs:379–421 `MipmapCache::generate` (`debug_assert!` decreasing sizes, strategy), :424–463
  `generate_from_source` (rayon and sequential), :466–493 `generate_from_previous` (`sizes[0]`, `&sizes[1..]`),
  :496–536 `generate_from_previous_two` (`sizes[0]`, `sizes.len() == 1`, `sizes[1]`, `&sizes[2..]`)
* encoder.rs:156–241 `write_surface_impl` (`current.mipmap_level + 1` on `u8`, `saturating_sub`,
  `get_level_progress_range`: `level as i32 + 1`, `ProgressRange::from_to`'s `debug_assert!(from <= to)`;
  `Vec::with_capacity(16)`; the look-ahead loop; `level += 1` on `u8` in the callback)
-/
import DdsModel.Trap
import DdsModel.TrapEnc
import DdsModel.Mip
import DdsModel.Encoder
namespace Dds.TrapMip
open Dds Dds.Trap Dds.TrapEnc

/-! ## memory objects -/

/-- `&[u8]` / `&mut [u8]`: address of the first byte and length -/
structure Sl where
  addr : Nat
  len : Nat
deriving DecidableEq, Repr, Inhabited

/-- `Vec<AlignTo>` (`AlignTo = u32`): address, `len()` and `capacity()` in ELEMENTS -/
structure VecBuf where
  addr : Nat
  len : Nat
  cap : Nat
deriving DecidableEq, Repr, Inhabited

/-- `Vec::new()`: `NonNull::dangling()` is `align_of::<u32>()` -/
def VecBuf.empty : VecBuf := ⟨4, 0, 0⟩

/-- the allocator: (vector before, new capacity) ↦ address of the new allocation -/
abbrev Alloc := VecBuf → Nat → Nat

/-- `Vec::<u32>::resize(n, 0)` (alloc/raw_vec `grow_amortized`): within the capacity only `len` changes; otherwise
the new capacity is `max(max(2·cap, n), MIN_NON_ZERO_CAP = 4)` and a layout beyond `isize::MAX` bytes panics with
"capacity overflow" -/
def vecResizeT (al : Alloc) (b : VecBuf) (n : Nat) : Option VecBuf :=
  if n ≤ b.cap then some { b with len := n }
  else do
    let newCap := max (max (2 * b.cap) n) 4
    allocT newCap 4
    pure ⟨al b newCap, n, newCap⟩

/-- `color.buffer_size(size).expect(..)` (color/mod.rs:94): `pixels = width as u64 * height as u64` (lib.rs:533, plain
`*`), `checked_mul(bytes_per_pixel)?`, `bytes < isize::MAX` -/
def bufferSizeT (w h : Nat) (c : Color) : Option Nat := do
  let px ← mulU w h
  let bytes ← mulU px c.bpp          -- `checked_mul(..)?` then `expect`: `None` is the panic
  if bytes < 9223372036854775807 then some bytes else none

/-- `get_aligned_slice` (resize.rs:159–171): the buffer afterwards and the returned slice -/
def getAlignedSliceT (al : Alloc) (b : VecBuf) (w h : Nat) (c : Color) : Option (VecBuf × Sl) := do
  let sliceLen ← bufferSizeT w h c                       -- :160 `.expect("size too big for aligned slice")`
  let bufLen ← divCeilU sliceLen 4                       -- :165
  let b' ← if b.len < bufLen then vecResizeT al b bufLen else pure b   -- :166
  let n ← sliceTo (b'.len * 4) sliceLen                  -- :170 `&mut as_bytes_mut(..)[..slice_len]`
  pure (b', ⟨b'.addr, n⟩)

/-- seed C16d: `if buffer.capacity() < buffer_len` -/
def getAlignedSliceCapT (al : Alloc) (b : VecBuf) (w h : Nat) (c : Color) : Option (VecBuf × Sl) := do
  let sliceLen ← bufferSizeT w h c
  let bufLen ← divCeilU sliceLen 4
  let b' ← if b.cap < bufLen then vecResizeT al b bufLen else pure b
  let n ← sliceTo (b'.len * 4) sliceLen
  pure (b', ⟨b'.addr, n⟩)

/-- `AlignedView` -/
structure AView where
  sl : Sl
  w : Nat
  h : Nat
  c : Color
deriving DecidableEq, Repr

/-- `is_aligned(slice, alignment)` (resize.rs:172): `(ptr as usize) % alignment == 0` -/
def isAlignedT (s : Sl) (alignment : Nat) : Option Bool := do
  let r ← remU s.addr alignment
  pure (decide (r = 0))

/-- `AlignedView::new` (resize.rs:19–24) -/
def alignedViewNewT (s : Sl) (w h : Nat) (c : Color) : Option AView := do
  let n ← bufferSizeT w h c                              -- :20 `.expect("Invalid size")`
  dbgP (s.len = n)                                       -- :20
  let a ← isAlignedT s c.psize
  dbgP (a = true)                                        -- :21
  pure ⟨s, w, h, c⟩

/-- `AlignedView::as_image_view` (resize.rs:36) = `ImageView::new(view, size, color).expect(..)` (lib.rs:209–225):
the size the callback sees -/
def asImageViewT (a : AView) : Option Mip.Sz := do
  let e := a.w = 0 ∨ a.h = 0
  let w := if e then 0 else a.w
  let h := if e then 0 else a.h
  let px ← mulU w h                                      -- `size.pixels()`
  dbgP (a.sl.len = satMul64 px a.c.bpp)                  -- `None` → `expect` panics
  let _ ← mulU w a.c.bpp                                 -- :217 `row_pitch`
  pure (w, h)

/-- `AlignedBuffer` -/
structure ABuf where
  buf : VecBuf
  w : Nat
  h : Nat
  c : Color
deriving DecidableEq, Repr

/-- `AlignedBuffer::as_view` (resize.rs:61–70) -/
def asViewT (b : ABuf) : Option AView := do
  let len ← bufferSizeT b.w b.h b.c                      -- :63
  let n ← sliceTo (b.buf.len * 4) len                    -- :66
  pure ⟨⟨b.buf.addr, n⟩, b.w, b.h, b.c⟩

/-! ## the external `resize` crate: its ASSUMED contract -/

/-- `Resizer::new(w1, h1, w2, h2, ..).expect("failed to create resizer")` -/
def resizerNewT (w1 h1 w2 h2 : Nat) : Option Unit := dbgP (w1 ≠ 0 ∧ h1 ≠ 0 ∧ w2 ≠ 0 ∧ h2 ≠ 0)
/-- `resizer.resize(src, dst).expect("resize failed")` on `ns` source and `nd` destination pixels -/
def resizerResizeT (w1 h1 w2 h2 ns nd : Nat) : Option Unit := dbgP (w1 * h1 ≤ ns ∧ nd = w2 * h2)

/-- `cast::from_bytes::<[T; N]>(bytes).expect(..)` = zerocopy `ref_from_bytes`: the address must be aligned to
`align_of::<T>() = size_of::<T>()` and the length a multiple of the element size; the number of elements -/
def fromBytesAlignedT (s : Sl) (elem align : Nat) : Option Nat := do
  let r ← remU s.addr align
  dbgP (r = 0)
  TrapUnc.fromBytesT s.len elem

/-- `resize_typed::<P>` (resize.rs:233–261) for pixels of `n` channels of `psize` bytes -/
def resizeTypedT (src dst : Sl) (w1 h1 w2 h2 n psize : Nat) : Option Unit := do
  let ns ← fromBytesAlignedT src (n * psize) psize       -- :246 `.expect("invalid source data")`
  let nd ← fromBytesAlignedT dst (n * psize) psize       -- :248 `.expect("invalid destination data")`
  resizerNewT w1 h1 w2 h2                                -- :250–258
  resizerResizeT w1 h1 w2 h2 ns nd                       -- :260

/-- `resize_into` (resize.rs:176–224) -/
def resizeIntoT (src : AView) (dst : Sl) (w2 h2 : Nat) (sa : Bool) : Option Unit := do
  let n ← bufferSizeT w2 h2 src.c                        -- :187 `.expect(..)`
  dbgP (dst.len = n)                                     -- :185
  let a1 ← isAlignedT src.sl src.c.psize
  dbgP (a1 = true)                                       -- :191
  let a2 ← isAlignedT dst src.c.psize
  dbgP (a2 = true)                                       -- :192
  if sa && src.c.ch = .rgba then
    resizeTypedT src.sl dst src.w src.h w2 h2 4 src.c.psize            -- :205–210 `StraightAlpha<[T; 4]>`
  else
    resizeTypedT src.sl dst src.w src.h w2 h2 (TrapUnc.chanCount src.c.ch) src.c.psize   -- :213–223 `Pixel<[T; N]>`

/-- `crate::resize::resize` (resize.rs:142–157): a FRESH `Vec` per call -/
def resizeFreshT (al : Alloc) (src : AView) (w2 h2 : Nat) (sa : Bool) : Option ABuf := do
  let (b, dst) ← getAlignedSliceT al VecBuf.empty w2 h2 src.c          -- :151–152
  resizeIntoT src dst w2 h2 sa                                         -- :154
  let n ← bufferSizeT w2 h2 src.c                                      -- :50 `AlignedBuffer::new`
  dbgP (n ≤ b.len * 4)                                                 -- :48
  pure ⟨b, w2, h2, src.c⟩

/-- `ResizeState::resize` (resize.rs:124–139): the destination buffer is REUSED -/
def resizeStateT (al : Alloc) (dest : VecBuf) (src : AView) (w2 h2 : Nat) (sa : Bool) : Option (VecBuf × AView) := do
  let (b, dst) ← getAlignedSliceT al dest w2 h2 src.c                  -- :134
  resizeIntoT src dst w2 h2 sa                                         -- :136
  let a ← alignedViewNewT dst w2 h2 src.c                              -- :138
  pure (b, a)

/-! ## `Aligner::align` -/

/-- the row loop of `Aligner::align` (resize.rs:94–99) over the row lengths of `ImageView::rows` -/
def alignRowsT (sliceLen bpr : Nat) (rows : List Nat) : Option Unit := do
  let _ ← mapIdxT (fun y row => do
    dbgP (row = bpr)                                     -- :95
    let aStart ← mulU y bpr                              -- :96
    let aEnd ← addU aStart bpr                           -- :97
    let n ← sliceRange sliceLen aStart aEnd              -- :98
    copyFromSliceT n row) rows
  pure ()

/-- `Aligner::align` (resize.rs:82–111) for a view whose data starts at address `addr` -/
def alignT (al : Alloc) (b : VecBuf) (addr : Nat) (v : View) (c : Color) : Option (VecBuf × AView) := do
  let contiguous ← isContiguousT v                       -- :89
  if !contiguous then
    let (b', s) ← getAlignedSliceT al b v.w v.h c        -- :92
    let bpr ← mulU v.w c.bpp                             -- :93
    let rows ← rowsT v
    alignRowsT s.len bpr rows
    let a ← alignedViewNewT s v.w v.h c                  -- :110
    pure (b', a)
  else
    let al0 ← isAlignedT ⟨addr, v.len⟩ c.psize           -- :101
    if al0 then
      let a ← alignedViewNewT ⟨addr, v.len⟩ v.w v.h c
      pure (b, a)
    else
      let (b', s) ← getAlignedSliceT al b v.w v.h c      -- :105
      copyFromSliceT s.len v.len                         -- :106
      let a ← alignedViewNewT s v.w v.h c
      pure (b', a)

/-- the BYTES `Aligner::align` hands to the resizer, as a function of the caller's memory `mem` (byte at an
address): the view itself when it is contiguous and aligned, a whole-slice copy when it is contiguous, else row `y`
of the view copied to `[y·bpr, (y+1)·bpr)` of the aligned buffer (whose previous contents are `old`). -/
def copyRow (bpr : Nat) (row : Nat → Nat) (y : Nat) (out : Nat → Nat) : Nat → Nat :=
  fun i => if y * bpr ≤ i ∧ i < y * bpr + bpr then row (i - y * bpr) else out i

def alignBytes (mem : Nat → Nat) (old : Nat → Nat) (addr : Nat) (v : View) (c : Color) : Nat → Nat :=
  if v.pitch * v.h ≠ v.len then
    (List.range v.h).foldl (fun out y => copyRow (v.w * c.bpp) (fun j => mem (addr + y * v.pitch + j)) y out) old
  else if addr % c.psize = 0 then fun i => mem (addr + i)
  else fun i => mem (addr + i)

/-! ## `MipmapCache` -/

structure Cache where
  aligner : VecBuf
  resizer : VecBuf
deriving DecidableEq, Repr, Inhabited

/-- `MipmapCache::new` -/
def Cache.new : Cache := ⟨VecBuf.empty, VecBuf.empty⟩

/-- the `debug_assert!` loop at the top of `generate` (encoder.rs:387–394) -/
def decreasingT : Mip.Sz → List Mip.Sz → Option Unit
  | _, [] => some ()
  | last, s :: rest => do
    dbgP (s.1 ≤ last.1 ∧ s.2 ≤ last.2)
    decreasingT s rest

/-- `f(mipmap.as_view().as_image_view())` for an `AlignedBuffer` -/
def emitBufT (b : ABuf) : Option Mip.Sz := do
  let a ← asViewT b
  asImageViewT a

/-- sequential loop of `generate_from_source` (encoder.rs:454–460): `self.resizer.resize(..)`, buffer reused -/
def seqLoopT (al : Alloc) (src : AView) (sa : Bool) : VecBuf → List Mip.Sz → Option (VecBuf × List (Mip.Sz × Nat))
  | d, [] => some (d, [])
  | d, s :: rest => do
    let (d', a) ← resizeStateT al d src s.1 s.2 sa
    let e ← asImageViewT a
    let (d'', out) ← seqLoopT al src sa d' rest
    pure (d'', (e, 0) :: out)

/-- `generate_from_source` (encoder.rs:424–463); `rayon` = the crate feature (default on) -/
def genFromSourceT (al : Alloc) (rayon : Bool) (k : Cache) (addr : Nat) (v : View) (c : Color)
    (sizes : List Mip.Sz) (sa : Bool) : Option (Cache × List (Mip.Sz × Nat)) := do
  let (ab, src) ← alignT al k.aligner addr v c                          -- :435
  if rayon then
    let bufs ← mapT (fun s => resizeFreshT al src s.1 s.2 sa) sizes     -- :442–445
    let out ← mapT emitBufT bufs                                        -- :447–449
    pure (⟨ab, k.resizer⟩, out.map fun e => (e, 0))
  else
    let (d, out) ← seqLoopT al src sa k.resizer sizes
    pure (⟨ab, d⟩, out)

/-- the `for` loop of `generate_from_previous` (encoder.rs:483–490); `k` = number of the image in `prev` -/
def prevLoopT (al : Alloc) (sa : Bool) : ABuf → List Mip.Sz → Nat → Option (List (Mip.Sz × Nat))
  | _, [], _ => some []
  | prev, s :: rest, k => do
    let pv ← asViewT prev
    let next ← resizeFreshT al pv s.1 s.2 sa
    let e ← emitBufT next
    let out ← prevLoopT al sa next rest (k + 1)
    pure ((e, k) :: out)

/-- `generate_from_previous` (encoder.rs:466–493) -/
def genFromPreviousT (al : Alloc) (k : Cache) (addr : Nat) (v : View) (c : Color) (sizes : List Mip.Sz) (sa : Bool) :
    Option (Cache × List (Mip.Sz × Nat)) := do
  let (ab, src) ← alignT al k.aligner addr v c                          -- :476
  let s0 ← idx sizes 0                                                  -- :478 `sizes[0]`
  let first ← resizeFreshT al src s0.1 s0.2 sa
  let e0 ← emitBufT first                                               -- :479
  let _ ← sliceFrom sizes.length 1                                      -- :483 `&sizes[1..]`
  let out ← prevLoopT al sa first (sizes.drop 1) 1
  pure (⟨ab, k.resizer⟩, (e0, 0) :: out)

/-- the `for` loop of `generate_from_previous_two` (encoder.rs:521–533) -/
def prevTwoLoopT (al : Alloc) (sa : Bool) : ABuf → ABuf → List Mip.Sz → Nat → Option (List (Mip.Sz × Nat))
  | _, _, [], _ => some []
  | pp, p, s :: rest, k => do
    let pv ← asViewT pp
    let next ← resizeFreshT al pv s.1 s.2 sa
    let e ← emitBufT next
    let out ← prevTwoLoopT al sa p next rest (k + 1)
    pure ((e, k) :: out)

/-- `generate_from_previous_two` (encoder.rs:496–536) -/
def genFromPreviousTwoT (al : Alloc) (k : Cache) (addr : Nat) (v : View) (c : Color) (sizes : List Mip.Sz)
    (sa : Bool) : Option (Cache × List (Mip.Sz × Nat)) := do
  let (ab, src) ← alignT al k.aligner addr v c                          -- :506
  let s0 ← idx sizes 0                                                  -- :508
  let first ← resizeFreshT al src s0.1 s0.2 sa
  let e0 ← emitBufT first
  if sizes.length = 1 then pure (⟨ab, k.resizer⟩, [(e0, 0)])            -- :511
  else
    let s1 ← idx sizes 1                                                -- :515
    let second ← resizeFreshT al src s1.1 s1.2 sa
    let e1 ← emitBufT second
    let _ ← sliceFrom sizes.length 2                                    -- :521 `&sizes[2..]`
    let out ← prevTwoLoopT al sa first second (sizes.drop 2) 1
    pure (⟨ab, k.resizer⟩, (e0, 0) :: (e1, 0) :: out)

/-- seed C16a: `let (from_source, from_mipmaps) = sizes.split_at(2)` up front, no early return -/
def genFromPreviousTwoSplitT (al : Alloc) (k : Cache) (addr : Nat) (v : View) (c : Color) (sizes : List Mip.Sz)
    (sa : Bool) : Option (Cache × List (Mip.Sz × Nat)) := do
  let (ab, src) ← alignT al k.aligner addr v c
  let _ ← splitAtT sizes.length 2
  let s0 ← idx sizes 0
  let first ← resizeFreshT al src s0.1 s0.2 sa
  let e0 ← emitBufT first
  let s1 ← idx sizes 1
  let second ← resizeFreshT al src s1.1 s1.2 sa
  let e1 ← emitBufT second
  let out ← prevTwoLoopT al sa first second (sizes.drop 2) 1
  pure (⟨ab, k.resizer⟩, (e0, 0) :: (e1, 0) :: out)

/-- one generating call: the image (address of its data, view, colour), the sizes, the options -/
structure Call where
  addr : Nat
  v : View
  c : Color
  sizes : List Mip.Sz
  f : Mip.Filter
  sa : Bool
deriving Repr

/-- `MipmapCache::generate` (encoder.rs:379–421): the cache afterwards and, per emitted level, the size the callback
saw and the number of the image it was resized from -/
def generateT (al : Alloc) (rayon : Bool) (k : Cache) (q : Call) : Option (Cache × List (Mip.Sz × Nat)) := do
  decreasingT (q.v.w, q.v.h) q.sizes                                    -- :387–394
  match Mip.selectStrategy q.f (q.v.w, q.v.h) q.sizes with              -- :398–420
  | .fromSource => genFromSourceT al rayon k q.addr q.v q.c q.sizes q.sa
  | .fromPrevious => genFromPreviousT al k q.addr q.v q.c q.sizes q.sa
  | .fromPreviousTwo => genFromPreviousTwoT al k q.addr q.v q.c q.sizes q.sa

/-- a SEQUENCE of generating calls through one encoder: the cache (both buffers) is carried along -/
def generateSeqT (al : Alloc) (rayon : Bool) : Cache → List Call → Option (Cache × List (List (Mip.Sz × Nat)))
  | k, [] => some (k, [])
  | k, q :: rest => do
    let (k', out) ← generateT al rayon k q
    let (k'', outs) ← generateSeqT al rayon k' rest
    pure (k'', out :: outs)

/-! ## the straight-alpha `to_value`s (resize.rs:458–514): every `recip` sits behind a zero test -/

/-- `a.recip()` read as a division that must not see zero (binary32 `recip` of 0 is `inf`, not a panic; what the
property needs is that the guard keeps zero away — seed C16f's integer `/ a` does panic) -/
def recipT (a : Rat) : Option Rat := if a = 0 then none else some (1 / a)

/-- colour sample of `to_value` per precision, with the trapping reciprocal -/
def saColourT (p : Mip.Prec) (accC accA : Rat) : Option Rat :=
  match p with
  | .u8 => do                                                           -- :468–474
    let ar ← if accA < 1 / 2 / 255 then pure 0 else recipT accA
    pure (p.quant (accC * ar))
  | .u16 =>                                                             -- :486–498
    if p.quant accA = 0 then pure 0
    else do
      let ar ← recipT accA
      pure (p.quant (accC * ar))
  | .f32 =>                                                             -- :506–512
    if accA ≤ 0 then pure 0
    else do
      let ar ← recipT accA
      pure (accC * ar)

/-! ## `write_surface_impl` (encoder.rs:156–241) -/

/-- `mipmaps_to_generate` (encoder.rs:171–176): `current.mipmap_level + 1` is a plain `u8` addition -/
def toGenT (e : Enc) (s : SurfInfo) : Option Nat :=
  if e.generate && !e.layout.isVolume then do
    let l1 ← ck 256 (s.level + 1)                                       -- :173
    pure (e.layout.mips - l1)                                           -- `saturating_sub`
  else pure 0

/-- seed C11b: `self.layout.mipmaps() - 1` -/
def toGenSeedT (e : Enc) (_s : SurfInfo) : Option Nat :=
  if e.generate && !e.layout.isVolume then subU e.layout.mips 1 else pure 0

/-- `get_level_progress_range(level)` (encoder.rs:178–190) and the `sub_range` built from it: `level as i32 + 1`
(plain `i32` addition) and `ProgressRange::from_to`'s `debug_assert!(from <= to)`, over exact rationals
(the values are `Progress.lean`'s `levelRange`, C17; binary32 rounding of `powi` is outside the model) -/
def levelRangeT (toGen level : Nat) : Option Unit :=
  if toGen = 0 then pure ()                                             -- `ProgressRange::FULL`
  else do
    let _ ← ckI32 ((level : Int) + 1)                                   -- :187
    let a : Rat := 1 - (2 / 5 : Rat) ^ level
    let b : Rat := 1 - (2 / 5 : Rat) ^ (level + 1)
    dbgP (a ≤ b)                                                        -- progress.rs:32
    pure ()

/-- the callback of `generate` (encoder.rs:223–234) for the `n` generated levels: `level += 1` on a `u8` counter,
then that level's progress range -/
def levelCounterT (toGen : Nat) : Nat → Nat → Option Unit
  | 0, _ => some ()
  | n + 1, level => do
    let l ← ck 256 (level + 1)                                          -- :224
    let _ ← levelRangeT toGen l                                         -- :229
    levelCounterT toGen n l

/-- the image of a `write_surface` call and the mipmap options that matter for the buffers -/
structure Img where
  addr : Nat
  v : View
  c : Color
  f : Mip.Filter
  sa : Bool
deriving Repr

/-- `write_surface_impl` with its cache: every trapping operation in program order; the encoder state and result are
those of `Enc.write` (C11's model), which this function calls only AFTER all the checks of the same path.
`toGen` is the `mipmaps_to_generate` computation (the seed's variant can be plugged in). -/
def writeSurfaceWithT (toGen : Enc → SurfInfo → Option Nat) (al : Alloc) (rayon : Bool) (e : Enc) (k : Cache)
    (im : Img) (pre : Bool) : Option (Enc × EncRes × Cache) := do
  let cur ← e.iter.currentP                                             -- :165
  match cur with
  | none => pure (e, .tooManySurfaces, k)
  | some s =>
    if (s.w, s.h) ≠ normSizeE im.v.w im.v.h then pure (e, .unexpectedSurfaceSize, k)   -- :166
    else do
      let n ← toGen e s                                                 -- :171–176
      let _ ← levelRangeT n 0                                           -- :197
      if pre then pure (e, .cancelled, k)
      else if !e.sizeOk s.w s.h then pure (e, .invalidSize, k)          -- `encode(..)?`
      else do
        let it ← e.iter.advanceP                                        -- :200
        if n > 0 then do
          allocT 16 8                                                   -- :207 `Vec::with_capacity(16)` of `Size`
          let sizes ← Mip.gatherSizes 255 it                            -- :208–215
          let r := e.write im.v.w im.v.h pre
          -- the generated levels the encoder accepts before a size it rejects (all, when none is rejected)
          let good := sizes.takeWhile fun z => e.sizeOk z.1 z.2
          let (k', _) ← generateT al rayon k ⟨im.addr, im.v, im.c, sizes, im.f, im.sa⟩   -- :222–234
          levelCounterT n (min (good.length + 1) sizes.length) 0
          pure (r.1, r.2, k')
        else
          let r := e.write im.v.w im.v.h pre
          pure (r.1, r.2, k)

def writeSurfaceT := writeSurfaceWithT toGenT

end Dds.TrapMip
