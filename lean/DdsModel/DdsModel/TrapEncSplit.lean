/-
Trapping mirrors of the ENCODER loops, part 3: splitting a surface into fragments and the parallel encoder, and the
dispatch from C19's encoder table to the loop mirrors of parts 1 and 2.  Conventions as in `TrapEnc.lean`.

Mirrored here (file:line of /repo/src):
* `get_fragment_height` (split.rs:94–125), `SplitView::new` (:34–46), `SplitView::get` (:58–81), `single` (:85)
* `ImageView::cropped` (lib.rs:297–324)
* `encode_parallel` (encode/mod.rs:162–230): fragment buffers sized by `PixelInfo::surface_bytes`,
  `ParallelProgress::submit` (progress.rs:308–315)
* `EncoderSet::encode` / `pick_encoder` (`.expect("all color formats to be supported")`, encoder.rs:219–254) and
  `Encoder::encode` (`assert!(self.color_formats.contains(..))`, encoder.rs:121–128) over C19's pinned table

`Theorems/C15.lean`: `split_view_trapfree`, `parallel_fragments_trapfree`, `encode_loops_trapfree`.
-/
import DdsModel.TrapEncBlk
import DdsModel.Split
import DdsModel.FormatTables
namespace Dds.TrapEnc
open Dds Dds.Trap

/-! ## `split.rs` -/

/-- plain `a * b` on `u32` -/
def mulU32 (a b : Nat) : Option Nat := if a * b < 4294967296 then some (a * b) else none
theorem mulU32_of_lt {a b : Nat} (h : a * b < 4294967296) : mulU32 a b = some (a * b) := if_pos h
attribute [irreducible] mulU32

/-- `get_fragment_height(size, format, options)` (split.rs:94–125) with the trapping `u64` operators; outer `none`
= panic, inner `none` = `None` -/
def getFragmentHeightT (w h : Nat) (sup : Option Support) (dith : Dithering) (q : Quality) : Option (Option Nat) :=
  if w = 0 ∨ h = 0 then some none else                        -- :95
  match sup with
  | none => some none                                        -- :99
  | some s =>
  match s.splitHeight with
  | none => some none                                        -- :100
  | some sh =>
  if (!s.localDithering) && decide (dith.intersect s.dithering ≠ .none) then some none else   -- :104
  let fp := max (s.fragmentSize.getPreferred q) 1            -- :110
  if fp ≥ w * h then some none else do                       -- :111 (`pixels()`: `u64` product of two `u32`)
  let a ← div fp w                                           -- :119
  let b ← div a sh
  let m ← mulU b sh
  match tryU32 m with                                        -- `u32::try_from(..).ok()?`
  | none => pure none
  | some v => pure (some (if v = 0 then sh else v))          -- :122

/-- `SplitView::new` (split.rs:34–46): `image.height().div_ceil(fragment_height.get())` -/
def SplitView.newT (w h : Nat) (sup : Option Support) (dith : Dithering) (q : Quality) : Option SplitView := do
  let fh ← getFragmentHeightT w h sup dith q
  match fh with
  | some fh => do
    let len ← divCeilU h fh
    pure { w, h, len, fragmentHeight := some fh }
  | none => pure { w, h, len := 1, fragmentHeight := none }

/-- `ImageView::cropped(offset, size)` (lib.rs:297–324); `none` = the documented panic (rectangle outside the
image), an overflow or a slice out of range -/
def croppedT (v : View) (ox oy w h : Nat) : Option View := do
  dbgP (v.containsRect ox oy w h = true)                     -- :298 (`contains_rect` adds in `u64`)
  if w = 0 ∨ h = 0 then pure ⟨v.base, 0, 0, 0, v.bpp, 0⟩ else do   -- :304
  let bpr ← mulU w v.bpp                                     -- :313
  let a ← mulU oy v.pitch                                    -- :314
  let b ← mulU ox v.bpp
  let start ← addU a b
  let h1 ← subU h 1                                          -- :316 `(size.height - 1)` on `u32`
  let c ← mulU h1 v.pitch
  let e0 ← addU start c
  let stop ← addU e0 bpr
  let len ← sliceRange v.len start stop                      -- :319
  pure ⟨v.base + start, len, w, h, v.bpp, v.pitch⟩

/-- `SplitView::get(index)` (split.rs:58–81) on the image `v` the view was made of; inner `none` = `None` -/
def SplitView.getT (s : SplitView) (v : View) (index : Nat) : Option (Option View) :=
  if index ≥ s.len then some none else                        -- :59
  match s.fragmentHeight with
  | some fh => do
    let startY ← mulU32 index fh                             -- :64
    let endY := min (satAdd32 startY fh) v.h                 -- :65–67
    dbgP (startY < v.h)                                      -- :68
    let fragH ← subU endY startY                             -- :72
    let c ← croppedT v 0 startY v.w fragH                    -- :74
    pure (some c)
  | none => some (some v)                                    -- :79

/-! ## `encode_parallel` (encode/mod.rs:162–230) -/

/-- the job of one fragment (mod.rs:193–219): `(bytes of the fragment's buffer, fragment height)` -/
def fragmentT (bodyT : View → Option (List Nat)) (px : PixelInfo) (s : SplitView) (v : View) (i : Nat) :
    Option (Nat × Nat) := do
  let f ← SplitView.getT s v i                               -- :194 `.expect("invalid fragment index")`
  match f with
  | none => none
  | some frag => do
    -- :200–204 `surface_bytes(..).unwrap_or(u64::MAX).try_into().expect("too many bytes")` (`usize` = `u64`)
    let bytes := (px.surfaceBytes frag.w frag.h).getD 18446744073709551615
    allocT bytes 1                                           -- :205 `Vec::with_capacity(bytes)`
    let ws ← bodyT frag                                      -- :210
    dbgP (ws.sum = bytes)                                    -- :217 `debug_assert_eq!(buffer.len(), bytes)`
    pure (bytes, frag.h)

/-- `bodyT` = the sequential encoder of the format on a view (`encode(&mut buffer, fragment, format, None, ..)` with
`parallel = false`), `px` the format's `PixelInfo`.  Returns the sizes of the `write_all` calls on the real writer. -/
def encodeParallelT (bodyT : View → Option (List Nat)) (px : PixelInfo) (v : View) (sup : Option Support)
    (dith : Dithering) (q : Quality) : Option (List Nat) := do
  let s ← SplitView.newT v.w v.h sup dith q                  -- :177
  if s.len = 1 then bodyT v                                  -- :180 `split.single()`
  else do
  let total ← addU v.h 1                                     -- :188 `image.height() as u64 + 1`
  let frags ← mapT (fragmentT bodyT px s v) (List.range s.len)
  -- :215 `parallel_progress.submit(fragment.height())`: `guard.0 += progress`, then
  -- `project(guard.0 as f32 / total as f32)` with its `debug_assert!` (progress.rs:47, :311–312); whatever the
  -- completion order, the running sum is at most the sum over all fragments
  let submitted := (frags.map (·.2)).sum
  dbgP (submitted ≤ total ∧ total ≠ 0)
  pure (frags.map (·.1))                                     -- :223–226

/-! ## from C19's encoder table to the loop mirrors -/

/-- the bodies an `Encoder` of the table can run -/
inductive Body where
  /-- `Encoder::copy` → `copy_directly` -/
  | copy
  /-- `color_convert!`, the BGR fast paths → `uncompressed_untyped` -/
  | untyped (k : UntypedLine)
  /-- `universal!` → `uncompressed_universal::<Out>` -/
  | universal (size prim : Nat)
  /-- `universal_dither!` → `uncompressed_universal_dither` with `size_of::<Out>()`, `align_of::<Out>()` -/
  | dither (size align prim : Nat)
  /-- `universal_subsample!` / `universal_subsample_dither!` → `uncompressed_universal_subsample` -/
  | subsample (bw blockBytes prim : Nat)
  /-- `bi_planar_universal::<P1, P2>` -/
  | biPlanar (s1 prim1 s2 prim2 : Nat)
  /-- `block_4x4::<BLOCK_BYTES>` with `options.quality` -/
  | block (bb quality : Nat)
deriving DecidableEq, Repr

/-- the body on a view: outer `none` = panic, inner `none` = `Err(InvalidSize)` (bi-planar only) -/
def Body.runT (b : Body) (v : View) (c : Color) (aligned : Bool) : Option (Option (List Nat)) :=
  match b with
  | .copy => (copyDirectlyT v c).map some
  | .untyped k => (uncompressedUntypedT v c k).map some
  | .universal size prim => (uncompressedUniversalT v c aligned size prim).map some
  | .dither size align prim => (ditherT v c aligned size align prim).map some
  | .subsample bw bb prim => (subsampleT v c aligned bw bb prim).map some
  | .biPlanar s1 p1 s2 p2 => biPlanarT v c s1 p1 s2 p2
  | .block bb quality => (block4x4T v c bb quality).map some

/-- `Precision::size()` -/
def precSize : C19.Precision → Nat
  | .u8 => 1 | .u16 => 2 | .f32 => 4

def chanOf : C19.Channels → Unc.Channels
  | .gray => .gray | .alpha => .alpha | .rgb => .rgb | .rgba => .rgba

/-- a colour of C19's table as the `Color` of the mirrors -/
def colorOf (c : C19.ColorFormat) : Color := ⟨chanOf c.channels, precSize c.precision⟩

/-- Which `Body` the encoder `e` of a set built with `ctor` for a format of layout `px` runs — transcribed from
the encoder lists by reading (as `EncRows.Runs` for C14); what the table does not pin (the primitive an encoded
pixel is built of, its alignment, the target channels of `color_convert!`) is left open within what the Rust types
allow:
* uncompressed.rs (`fixed bpp`): `Encoder::copy(c)` (`colors = single c`) → `copy_directly`; `color_convert!(t)` /
  `Encoder::new(ColorFormatSet::U8, ..)` (`colors = ofPrec p`) → `uncompressed_untyped` with `bpp` bytes per encoded
  pixel, target of precision `p` (an SNORM conversion only at 8 / 16 bit) or a 3- / 4-byte BGR line at `u8`;
  `universal!` (`colors = all`, kind `plain`) → `uncompressed_universal::<Out>` with `size_of::<Out>() = bpp`;
  `universal_dither!` (kind `fsDither`) → `uncompressed_universal_dither` with `size_of::<Out>() = bpp`,
  `align_of::<Out>() ≤ 8`
* sub_sampled.rs (`block bytes bw 1`): `uncompressed_universal_subsample` with `BLOCK_WIDTH = bw`,
  `size_of::<EncodedBlock>() = bytes`
* bi_planar.rs (`biPlanar p1 p2 2 2`): `bi_planar_universal::<P1, P2>` with `size_of::<P1>() = p1`,
  `size_of::<P2>() = p2`
* bc.rs (`block bytes 4 4`, constructor `new_bc`): `block_4x4::<bytes>` -/
inductive Body.Matches : C19.SetCtor → PixelInfo → C19.Enc → Body → Prop where
  | copy (bpp : Nat) (c : C19.ColorFormat) (fl : C19.SymFlags) (hb : (colorOf c).bpp = bpp) :
      Matches .plain (.fixed bpp) ⟨.single c, fl, .plain⟩ .copy
  | convert (bpp : Nat) (p : C19.Precision) (fl : C19.SymFlags) (t : Color) (snorm : Bool)
      (ht : t.psize = precSize p) (hb : t.bpp = bpp) (hs : snorm = true → p ≠ .f32) :
      Matches .plain (.fixed bpp) ⟨.ofPrec p, fl, .plain⟩ (.untyped (.convert t snorm))
  | bgr (bpp : Nat) (fl : C19.SymFlags) (hb : bpp = 3 ∨ bpp = 4) :
      Matches .plain (.fixed bpp) ⟨.ofPrec .u8, fl, .plain⟩ (.untyped (.bgr bpp))
  | universal (bpp prim : Nat) (fl : C19.SymFlags) (hp : prim = 1 ∨ (prim ≠ 0 ∧ bpp % prim = 0)) :
      Matches .plain (.fixed bpp) ⟨.all, fl, .plain⟩ (.universal bpp prim)
  | dither (bpp align prim : Nat) (fl : C19.SymFlags) (ha : align ≤ 8) (hp : prim = 1 ∨ bpp % prim = 0) :
      Matches .plain (.fixed bpp) ⟨.all, fl, .fsDither⟩ (.dither bpp align prim)
  | subsample (bytes bw prim : Nat) (cs : C19.ColorSet) (fl : C19.SymFlags) (kind : C19.EncKind)
      (hp : prim = 1 ∨ bytes % prim = 0) :
      Matches .plain (.block bytes bw 1) ⟨cs, fl, kind⟩ (.subsample bw bytes prim)
  | biPlanar (p1 p2 prim1 prim2 : Nat) (e : C19.Enc) (h1 : prim1 = 1 ∨ p1 % prim1 = 0)
      (h2 : prim2 = 1 ∨ p2 % prim2 = 0) :
      Matches .biPlanar (.biPlanar p1 p2 2 2) e (.biPlanar p1 prim1 p2 prim2)
  | block (bytes quality : Nat) (e : C19.Enc) :
      Matches .bc (.block bytes 4 4) e (.block bytes quality)

/-- `EncoderSet::encode` up to the call of the body: `pick_encoder` (`.expect(..)`) and the `assert!` of
`Encoder::encode`; returns the chosen encoder -/
def pickEncoderT (s : C19.EncSet) (c : C19.ColorFormat) (d : C19.Dithering) : Option C19.Enc := do
  let i ← s.pick c d                                         -- encoder.rs:239–241
  let e ← s.encs[i]?
  dbgP (e.colors.contains c = true)                          -- encoder.rs:122–125 "Picked the wrong encoder"
  pure e

/-! ## the table check -/

/-- `PxOK` (Proofs/TrapEncSplit.lean) as a Boolean: what the loops use of a format's layout -/
def pxOKb : PixelInfo → Bool
  | .fixed bpp => decide (1 ≤ bpp ∧ bpp ≤ 16)
  | .block bytes bw bh => decide (bytes ≤ 16 ∧ ((bh = 1 ∧ 2 ≤ bw ∧ bw ≤ 8) ∨ (bw = 4 ∧ bh = 4)))
  | .biPlanar p1 p2 sx sy => decide (p1 ≤ 2 ∧ p2 ≤ 4 ∧ sx = 2 ∧ sy = 2)

/-- one body that `Body.Matches` admits for an encoder of the table (`none`: the relation does not cover it) -/
def defaultBody (ctor : C19.SetCtor) (px : PixelInfo) (e : C19.Enc) : Option Body :=
  match ctor, px with
  | .plain, .fixed bpp =>
    match e.colors, e.kind with
    | .single c, .plain => if (colorOf c).bpp = bpp then some .copy else none
    | .ofPrec p, .plain =>
      match [Unc.Channels.gray, .rgb, .rgba].find? (fun ch => TrapUnc.chanCount ch * precSize p = bpp) with
      | some ch => some (.untyped (.convert ⟨ch, precSize p⟩ false))
      | none => none
    | .all, .plain => some (.universal bpp 1)
    | .all, .fsDither => some (.dither bpp 1 1)
    | _, _ => none
  | .plain, .block bytes bw bh => if bh = 1 then some (.subsample bw bytes 1) else none
  | .biPlanar, .biPlanar p1 p2 sx sy => if sx = 2 ∧ sy = 2 then some (.biPlanar p1 1 p2 1) else none
  | .bc, .block bytes bw bh => if bw = 4 ∧ bh = 4 then some (.block bytes 0) else none
  | _, _ => none

/-- for one format, input colour and dithering option: the layout is one the loops handle, `pick_encoder` finds an
encoder whose colour set contains the colour (neither the `expect` nor the `assert!` fires), and `Body.Matches`
covers that encoder.  `Theorems/C15.lean` evaluates it on all 73 × 12 × 4 combinations. -/
def dispatchCheck (f : C19.Format) (c : C19.ColorFormat) (d : C19.Dithering) : Bool :=
  match C19.encoderSet f with
  | none => true
  | some s =>
    pxOKb f.row.px &&
      (match pickEncoderT s c d with
       | none => false
       | some e => (defaultBody s.ctor f.row.px e).isSome)

/-- `Split.lean`'s support table for one format name: the split height is a `NonZeroU8` and a preferred fragment
holds at most `2^48` pixels at every quality (so that the buffer of one fragment cannot exceed `isize::MAX` bytes)
— or the whole image is one fragment -/
def supportCheck (name : String) : Bool :=
  match supportOf name with
  | some (some s) =>
    (match s.splitHeight with
     | some sh => decide (0 < sh ∧ sh < 256)
     | none => true) &&
    (s.fragmentSize == .entireImage ||
      [Quality.fast, .normal, .high, .unreasonable].all fun q =>
        decide (max (s.fragmentSize.getPreferred q) 1 ≤ 281474976710656))
  | _ => true

end Dds.TrapEnc
